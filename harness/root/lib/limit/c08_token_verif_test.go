//go:build verif

package limit

// C08 — token limiter monitor (DESIGN.md §3 C08).
//
// Observe: the result of every TokenLimiter.AllowN(now, n) and, through a
// miniredis pre-hook, the number of EVAL commands the server executed during that
// call (so the monitor knows whether the answer came from Redis or from the
// in-process fallback without reading limiter internals). The caller clock `now`
// is virtual, non-decreasing, and miniredis is FastForwarded in lock-step.
// Oracle:
//   * answered by Redis  -> grant iff n <= tokens of the statement's integer bucket
//     (capacity burst, +rate per whole second of `now`, starts full), call by call;
//     plus the window bound over every window of the history.
//   * answered by fallback -> per outage segment the results must be those of SOME
//     bucket of the same rate/burst whose level at segment start lies in [0,burst]
//     (interval tracking; two-sided only when the caller clock moves in whole
//     seconds, otherwise only the upper bound), admitted(i..j) <= burst+rate*(tj-ti),
//     n > burst never granted.
//   * after the fault is removed the server must execute an EVAL of the limiter
//     again within 10 s of real time while AllowN keeps being called.

import (
	"bufio"
	"context"
	"fmt"
	"math/rand"
	"net"
	"runtime"
	"strings"
	"sync"
	"sync/atomic"
	"testing"
	"time"

	"github.com/alicebob/miniredis/v2"
	"github.com/alicebob/miniredis/v2/server"
	"github.com/gotid/god/lib/store/redis"
	"verif.local/vk"
)

// c08Srv is a miniredis with a counting / fault-injecting pre-hook.
type c08Srv struct {
	mr       *miniredis.Miniredis
	owner    atomic.Pointer[string] // substring of every key the owning scenario(s) use
	closable bool                   // may be Close()d/Restart()ed by scenarios (its client pool may hold dead connections)
	evals    atomic.Int64           // EVAL/EVALSHA commands let through to execution
	pings    atomic.Int64
	rejected atomic.Int64 // commands answered with the injected error
	rejEvals atomic.Int64 // of those, EVAL/EVALSHA (evidence only: how often the limiter still tried Redis during a fault)
	errMode  atomic.Bool
	garbage  atomic.Int32 // answer EVAL with a value the scripts never return

	// silent server: connections are accepted, commands are read, no reply comes
	// until release() (the blocked commands are then answered with an error and
	// not executed)
	silentMu   sync.Mutex
	silentCh   chan struct{}
	silentSeen atomic.Int64
}

func (s *c08Srv) goSilent() {
	s.silentMu.Lock()
	if s.silentCh == nil {
		s.silentCh = make(chan struct{})
	}
	s.silentMu.Unlock()
}

func (s *c08Srv) release() {
	s.silentMu.Lock()
	if s.silentCh != nil {
		close(s.silentCh)
		s.silentCh = nil
	}
	s.silentMu.Unlock()
}

func (s *c08Srv) silent() chan struct{} {
	s.silentMu.Lock()
	defer s.silentMu.Unlock()
	return s.silentCh
}

const (
	c08GarbageInt  = 1 // :7
	c08GarbageBulk = 2 // "$1 x"
	c08GarbageOK   = 3 // +OK
)

// c08Foreign records limiter keys whose EVAL arrived at a server of another
// scenario. That happens when a closed miniredis' port is handed by the kernel
// to a server started meanwhile by a parallel scenario; the misrouted scenario
// must not be judged (its "outage" is not one).
var c08Foreign sync.Map

func c08Misrouted(owner string) bool {
	_, hit := c08Foreign.Load(owner)
	return hit
}

// c08Addrs holds every address a harness server had in this process. The
// redis package caches one go-redis client per address for ever; a server that
// got the port of an earlier, closed one would inherit a pool of dead
// connections (spurious fallbacks). newC08Srv therefore insists on a new address.
var c08Addrs sync.Map

func newC08Srv(owner string) (*c08Srv, error) {
	var held []*miniredis.Miniredis
	defer func() {
		for _, h := range held {
			h.Close()
		}
	}()
	var mr *miniredis.Miniredis
	for try := 0; ; try++ {
		x, err := miniredis.Run()
		if err != nil {
			return nil, err
		}
		if _, seen := c08Addrs.LoadOrStore(x.Addr(), true); !seen {
			mr = x
			break
		}
		held = append(held, x) // keep the port busy until a fresh one is found
		if try > 50 {
			return nil, fmt.Errorf("no unused port after %d tries", try)
		}
	}
	s := &c08Srv{mr: mr}
	s.owner.Store(&owner)
	s.install()
	return s, nil
}

// install (re)attaches the hook; Restart creates a new server object.
func (s *c08Srv) install() {
	s.mr.Server().SetPreHook(func(c *server.Peer, cmd string, args ...string) bool {
		if (cmd == "EVAL" || cmd == "EVALSHA") && len(args) >= 3 && !strings.Contains(args[2], *s.owner.Load()) {
			// not ours: remember whose it is, let it run (its keys are disjoint from ours), do not count it
			k := args[2]
			if i, j := strings.Index(k, "{"), strings.Index(k, "}"); i >= 0 && j > i {
				k = k[i+1 : j]
			}
			c08Foreign.Store(k, true)
			return false
		}
		if ch := s.silent(); ch != nil {
			s.silentSeen.Add(1)
			select {
			case <-ch:
			case <-time.After(90 * time.Second): // never leave a server goroutine parked for ever
			}
			c.WriteError("ERR c08 silent server released")
			return true
		}
		if s.errMode.Load() {
			s.rejected.Add(1)
			if cmd == "EVAL" || cmd == "EVALSHA" {
				s.rejEvals.Add(1)
			}
			c.WriteError("ERR c08 injected failure")
			return true
		}
		if g := s.garbage.Load(); g != 0 && (cmd == "EVAL" || cmd == "EVALSHA") {
			s.rejected.Add(1)
			s.rejEvals.Add(1)
			switch g {
			case c08GarbageInt:
				c.WriteInt(7)
			case c08GarbageBulk:
				c.WriteBulk("x")
			default:
				c.WriteOK()
			}
			return true
		}
		switch cmd {
		case "EVAL", "EVALSHA":
			s.evals.Add(1)
		case "PING":
			s.pings.Add(1)
		}
		return false
	})
}

// Harness servers are reused from scenario to scenario. The redis package keeps
// one go-redis client (pool of >= 8 connections) per address for the life of the
// process and offers no way to close it, so a server per scenario leaks its
// client's sockets: thousands of scenarios exhaust the process's descriptors and
// every dial fails. Two pools: "pristine" servers are never closed (faults only
// through the hook), so their client pools never hold a dead connection;
// "closable" ones are used by scenarios that Close()/Restart() the server.
var c08Pool struct {
	mu       sync.Mutex
	pristine []*c08Srv
	closable []*c08Srv
}

func acquireC08Srv(owner string, closable bool) (*c08Srv, error) {
	c08Pool.mu.Lock()
	list := &c08Pool.pristine
	if closable {
		list = &c08Pool.closable
	}
	var s *c08Srv
	if n := len(*list); n > 0 {
		s = (*list)[n-1]
		*list = (*list)[:n-1]
	}
	c08Pool.mu.Unlock()
	if s == nil {
		var err error
		if s, err = newC08Srv(owner); err != nil {
			return nil, err
		}
		s.closable = closable
		return s, nil
	}
	s.owner.Store(&owner)
	return s, nil
}

// done removes every fault, makes sure the server runs, empties it and hands it
// back to its pool. A server that cannot be brought back is closed and dropped.
func (s *c08Srv) done() {
	s.release()
	s.errMode.Store(false)
	s.garbage.Store(0)
	if s.mr.Server() == nil {
		if !s.closable || s.mr.Restart() != nil {
			s.mr.Close()
			return
		}
	}
	s.install()
	s.mr.FlushAll()
	s.rejEvals.Store(0)
	c08Pool.mu.Lock()
	if s.closable {
		c08Pool.closable = append(c08Pool.closable, s)
	} else {
		c08Pool.pristine = append(c08Pool.pristine, s)
	}
	c08Pool.mu.Unlock()
}

// c08Alive asks the server PING over a raw connection (independent of go-redis).
func c08Alive(addr string) bool {
	c, err := net.DialTimeout("tcp", addr, 3*time.Second)
	if err != nil {
		return false
	}
	defer c.Close()
	_ = c.SetDeadline(time.Now().Add(3 * time.Second))
	if _, err := c.Write([]byte("*1\r\n$4\r\nPING\r\n")); err != nil {
		return false
	}
	line, err := bufio.NewReader(c).ReadString('\n')
	return err == nil && strings.HasPrefix(line, "+PONG")
}

// c08Bucket is the statement's bucket: capacity burst, +rate per whole second, starts full.
type c08Bucket struct {
	rate, burst  int64
	tokens, last int64
	started      bool
}

func (b *c08Bucket) refill(sec int64) {
	if !b.started {
		b.tokens, b.last, b.started = b.burst, sec, true
		return
	}
	if sec > b.last {
		b.tokens += (sec - b.last) * b.rate
		if b.tokens > b.burst {
			b.tokens = b.burst
		}
		b.last = sec
	}
}

func (b *c08Bucket) take(sec, n int64) bool {
	b.refill(sec)
	if n <= b.tokens {
		b.tokens -= n
		return true
	}
	return false
}

func c08TTL(rate, burst int64) int64 { return 2 * burst / rate } // floor(2*burst/rate), the script's key TTL

func c08Cfg(r *rand.Rand) (rate, burst int64) {
	if r.Intn(5) < 2 {
		// slow refill, deep bucket: long key TTL, many partial refills
		rate = int64(1 + r.Intn(5))
		burst = int64(8 + r.Intn(50))
		return
	}
	if r.Intn(12) == 0 {
		// smallest bucket: every granted request takes exactly the capacity
		return int64(1 + r.Intn(2)), 1
	}
	rate = int64(1 + r.Intn(40))
	lo := (rate + 1) / 2 // smallest burst with 2*burst >= rate
	switch r.Intn(8) {
	case 0:
		burst = lo
	case 1:
		burst = rate - 1
	case 2:
		burst = rate
	case 3:
		burst = rate + 1
	case 4:
		burst = 2 * rate
	case 5:
		burst = 3*rate + 1
	default:
		burst = lo + int64(r.Intn(60))
	}
	if burst < lo {
		burst = lo
	}
	if burst < 1 {
		burst = 1
	}
	return
}

func c08PickN(r *rand.Rand, burst int64) int64 {
	switch x := r.Intn(100); {
	case x < 35:
		return 1
	case x < 38:
		return 0
	case x < 44:
		return 1 + burst/2
	case x < 48:
		if burst > 1 {
			return burst - 1
		}
		return 1
	case x < 56:
		return burst
	case x < 62:
		return burst + 1
	case x < 65:
		return burst + 2
	case x < 85:
		return 1 + r.Int63n(burst)
	default:
		return int64(2 + r.Intn(4))
	}
}

// c08PickAdv returns a clock advance in milliseconds.
func c08PickAdv(r *rand.Rand, rate, burst int64, subsec bool) int64 {
	ttl := c08TTL(rate, burst)
	x := r.Intn(100)
	switch {
	case x < 50:
		return 0
	case x < 70:
		return 1000
	case x < 73:
		return 2000
	case x < 76:
		return (ttl - 1) * 1000
	case x < 81:
		return ttl * 1000
	case x < 85:
		return (ttl + 1) * 1000
	case x < 89:
		return ((burst + rate - 1) / rate) * 1000
	case x < 93:
		return int64(1+r.Intn(20)) * 1000
	}
	if subsec {
		return []int64{1, 300, 999, 1001, 1999, ttl*1000 - 1, ttl*1000 + 1}[r.Intn(7)]
	}
	return int64(1+r.Intn(3)) * 1000
}

type c08TLim struct {
	Rate  int64 `json:"rate"`
	Burst int64 `json:"burst"`
}

type c08TStep struct {
	L   int   `json:"l"`
	Adv int64 `json:"adv_ms,omitempty"`
	N   int64 `json:"n"`
}

type c08TScenario struct {
	Base   int64      `json:"base_unix"`
	BaseNs int64      `json:"base_ns,omitempty"`
	Lims   []c08TLim  `json:"limiters"`
	Steps  []c08TStep `json:"steps"`
}

type c08Adm struct {
	sec int64
	n   int64
}

func c08Class(b *c08Bucket, sec, n int64) string {
	var c string
	switch idle := sec - b.last; {
	case !b.started:
		c = "first-call"
	case idle == 0:
		c = "same-second"
	case idle >= c08TTL(b.rate, b.burst):
		c = "idle>=ttl"
	default:
		c = "refill"
	}
	switch {
	case n == 0:
		c += ":n=0"
	case n > b.burst:
		c += ":n>burst"
	default:
		c += ":n<=burst"
	}
	return c
}

func c08GD(g bool) string {
	if g {
		return "grant"
	}
	return "deny"
}

// c08WindowBound checks admitted(i..j) <= burst + rate*(sec_j - sec_i) for all i<=j.
func c08WindowBound(adm []c08Adm, rate, burst int64) (bad bool, i, j int, sum, bound int64) {
	pre := make([]int64, len(adm)+1)
	for k, a := range adm {
		pre[k+1] = pre[k] + a.n
	}
	for i = 0; i < len(adm); i++ {
		for j = i; j < len(adm); j++ {
			sum = pre[j+1] - pre[i]
			bound = burst + rate*(adm[j].sec-adm[i].sec)
			if sum > bound {
				return true, i, j, sum, bound
			}
		}
	}
	return false, 0, 0, 0, 0
}

// c08Abandoned counts scenarios given up without a verdict; a test whose
// scenarios are mostly abandoned has observed nothing and must not pass.
var c08Abandoned atomic.Int64

func c08TooManyAbandoned(m *vk.M, before int64, cases int) {
	if a := c08Abandoned.Load() - before; a > 2 && a*10 > int64(cases) {
		m.Inconclusive("%d of %d scenarios were abandoned without a verdict (script executions != calls)", a, cases)
	}
}

// c08Unscripted classifies the answer of a call for which the server executed
// e != 1 scripts, on a server that is up and was never down (no fault injected,
// fresh address, no cancelled context). With healthy Redis the statement's bucket
// is the only bucket, whoever computed the answer:
//   - granted although the bucket cannot cover n           -> "over"  (violation)
//   - denied, n not available                               -> "consistent-denial": nothing was consumed (e.g. a
//     request above the capacity refused without asking Redis); the history continues
//   - denied although n is available, in well under the 3 s a client needs to
//     give up on Redis, and no earlier unscripted grant could have drained an
//     in-process bucket                                     -> "under" (violation)
//   - anything else (client retry e>1, slow call, granted with tokens available) -> "abandon"
func c08Unscripted(e int64, wall time.Duration, got bool, n, avail int64, priorUnscriptedGrants int) string {
	if e != 0 || wall >= c08FastCall {
		return "abandon"
	}
	switch {
	case got && n > avail:
		return "over"
	case !got && n > avail:
		return "consistent-denial"
	case !got && priorUnscriptedGrants == 0:
		return "under"
	}
	return "abandon"
}

func runC08TokenSeq(m *vk.M, idx int, sc c08TScenario, srv *c08Srv, store *redis.Redis) {
	desc := func() string { return fmt.Sprintf("case=%d;%s", idx, vk.JSON(sc)) }
	lims := make([]*TokenLimiter, len(sc.Lims))
	refs := make([]*c08Bucket, len(sc.Lims))
	adms := make([][]c08Adm, len(sc.Lims))
	unscriptedGrants := make([]int, len(sc.Lims))
	for i, l := range sc.Lims {
		lims[i] = NewTokenLimiter(int(l.Rate), int(l.Burst), store, fmt.Sprintf("c08s%d-%d", idx, i))
		refs[i] = &c08Bucket{rate: l.Rate, burst: l.Burst}
	}
	clock := time.Unix(sc.Base, sc.BaseNs)
	var obs strings.Builder
	grants, denies, refills, expiries := 0, 0, 0, 0
	for si, st := range sc.Steps {
		if st.Adv > 0 {
			d := time.Duration(st.Adv) * time.Millisecond
			clock = clock.Add(d)
			srv.mr.FastForward(d)
			m.Count("token.advance", 1)
		}
		ref := refs[st.L]
		sec := clock.Unix()
		class := c08Class(ref, sec, st.N)
		lastSec := ref.last
		e0 := srv.evals.Load()
		t0 := time.Now()
		got := lims[st.L].AllowN(clock, int(st.N))
		wall := time.Since(t0)
		e := srv.evals.Load() - e0
		m.Count("token.allowN", 1)
		ref.refill(sec)
		avail := ref.tokens
		if e != 1 {
			// no script, or more than one, ran for this call on a server that is up and
			// was never down (see c08Unscripted)
			switch c08Unscripted(e, wall, got, st.N, avail, unscriptedGrants[st.L]) {
			case "consistent-denial":
				m.Count("token.denied-without-script(n>available)", 1)
				obs.WriteByte('x')
				continue
			case "over":
				m.Violate("C08:token:granted-over-quota-without-redis-command:"+class, desc(),
					"step %d limiter %d (rate %d, burst %d): AllowN(sec=%d, n=%d) was granted without any script execution although the server is up and was never down; the bucket holds %d tokens at that second",
					si, st.L, ref.rate, ref.burst, sec, st.N, avail)
				return
			case "under":
				m.Violate("C08:token:denied-without-redis-command:"+class, desc(),
					"step %d limiter %d (rate %d, burst %d): AllowN(sec=%d, n=%d) was denied in %v without any script execution although the server is up and was never down and the bucket holds %d tokens at that second (previous call at sec %d)",
					si, st.L, ref.rate, ref.burst, sec, st.N, wall.Round(time.Microsecond), avail, lastSec)
				return
			}
			if got {
				unscriptedGrants[st.L]++
			}
			c08Abandoned.Add(1)
			m.Count(fmt.Sprintf("token.abandoned-evals=%d", e), 1)
			m.Note("case %d step %d: AllowN caused %d EVALs in %v on a healthy server (granted=%v, n=%d, bucket %d); scenario abandoned", idx, si, e, wall, got, st.N, avail)
			return
		}
		want := ref.take(sec, st.N)
		m.Count("token.class."+class, 1)
		if got {
			grants++
			obs.WriteByte('g')
			adms[st.L] = append(adms[st.L], c08Adm{sec: sec, n: st.N})
		} else {
			denies++
			obs.WriteByte('d')
		}
		if strings.HasPrefix(class, "refill") {
			refills++
		}
		if strings.HasPrefix(class, "idle>=ttl") {
			expiries++
		}
		if got != want {
			m.Violate(fmt.Sprintf("C08:token:want-%s-got-%s:%s", c08GD(want), c08GD(got), class), desc(),
				"step %d limiter %d (rate %d, burst %d): AllowN(sec=%d, n=%d) = %v; reference bucket holds %d tokens at that second (previous call at sec %d), expected %v",
				si, st.L, ref.rate, ref.burst, sec, st.N, got, avail, lastSec, want)
			return
		}
	}
	for i := range adms {
		if bad, a, b, sum, bound := c08WindowBound(adms[i], refs[i].rate, refs[i].burst); bad {
			m.Violate("C08:token:window-bound", desc(), "limiter %d (rate %d, burst %d): %d tokens admitted between second %d and second %d, bound burst+rate*t = %d",
				i, refs[i].rate, refs[i].burst, sum, adms[i][a].sec, adms[i][b].sec, bound)
			return
		}
	}
	m.Count("token.grant", int64(grants))
	m.Count("token.deny", int64(denies))
	nontrivial := grants > 0 && denies > 0 && refills > 0
	m.Case(vk.Digest(vk.JSON(sc.Lims), obs.String()), nontrivial)
	if m.WantSample() && nontrivial && expiries > 0 {
		m.Sample(map[string]any{"case": idx, "limiters": sc.Lims, "subsecond_clock": sc.BaseNs != 0, "calls": len(sc.Steps), "granted": grants, "denied": denies,
			"calls_after_refill": refills, "calls_after_key_expiry": expiries, "results": c08Trunc(obs.String(), 100)})
	}
}

func c08GenTokenSeq(r *rand.Rand, steps int) c08TScenario {
	sc := c08TScenario{Base: 1_600_000_000 + int64(r.Intn(100_000_000))}
	subsec := r.Intn(3) == 0
	if subsec {
		sc.BaseNs = int64(r.Intn(1_000_000_000))
	}
	nl := 1 + r.Intn(3)
	for i := 0; i < nl; i++ {
		rate, burst := c08Cfg(r)
		sc.Lims = append(sc.Lims, c08TLim{Rate: rate, Burst: burst})
	}
	for i := 0; i < steps; i++ {
		l := r.Intn(nl)
		sc.Steps = append(sc.Steps, c08TStep{L: l, Adv: c08PickAdv(r, sc.Lims[l].Rate, sc.Lims[l].Burst, subsec), N: c08PickN(r, sc.Lims[l].Burst)})
	}
	return sc
}

func TestVerifC08TokenSeq(t *testing.T) {
	abandoned0 := c08Abandoned.Load()
	m := vk.New(t, "C08", "token limiter on healthy Redis: every AllowN(now,n) compared with the statement's integer bucket; window bound over every window; caller clock and miniredis advanced in lock-step")
	defer m.Done()
	defer c08Wall(m, time.Now())
	const workers = 6
	n := vk.N(120, 1500)
	var wg sync.WaitGroup
	var next atomic.Int64
	for w := 0; w < workers; w++ {
		wg.Add(1)
		go func(w int) {
			defer wg.Done()
			srv, err := newC08Srv("{c08s")
			if err != nil {
				m.Inconclusive("miniredis: %v", err)
				return
			}
			defer srv.mr.Close()
			store := redis.New(srv.mr.Addr())
			if w == 0 {
				// the same limiter through the cluster client ({key} hash tags keep both keys in one slot)
				store.Type = redis.ClusterType
			}
			for {
				i := int(next.Add(1)) - 1
				if i >= n {
					return
				}
				if !m.Only(i) {
					continue
				}
				m.Count("token.scenarios.store-type-"+store.Type, 1)
				r := m.Rand("tseq", i)
				sc := c08GenTokenSeq(r, vk.N(150, 300))
				runC08TokenSeq(m, i, sc, srv, store)
				srv.mr.FlushAll()
				if i%200 == 0 {
					m.Progress()
				}
			}
		}(w)
	}
	wg.Wait()
	c08TooManyAbandoned(m, abandoned0, n)
}

// ---------------------------------------------------------------------------
// sustained over-quota traffic on a healthy server: after the bucket is drained
// hundreds of consecutive requests arrive within the same caller second(s);
// every one of them must be denied. Redis is never down in this test, so an
// answer given without a script execution is still an answer of "the" bucket:
// a grant the reference bucket cannot cover is over-admission whoever gave it.

type c08SScenario struct {
	Rate   int64      `json:"rate"`
	Burst  int64      `json:"burst"`
	Lims   int        `json:"limiters_on_one_key"`
	Shared bool       `json:"shared_store"`
	Base   int64      `json:"base_unix"`
	Steps  []c08TStep `json:"steps"`
	// Ctx[i] for step i: "" AllowN | "bg" AllowNCtx(Background) | "cancelled" |
	// "expired" (deadline in the past; at most two per scenario, the client's
	// breaker books those as failures)
	Ctx []string `json:"ctx"`
	// SrvAdv[i]: milliseconds by which only the SERVER clock moves before step i
	// (caller clock stands still). Applied only while the server-side idle time of
	// the bucket since its last executed script stays below the keys' TTL, so the
	// keys of a bucket in continuous use can never run out: refill is a matter of
	// the caller's clock alone.
	SrvAdv []int64 `json:"server_only_adv_ms"`
}

func c08GenSustained(r *rand.Rand, calls int) c08SScenario {
	rate := int64(1 + r.Intn(8))
	burst := (rate+1)/2 + int64(r.Intn(10))
	sc := c08SScenario{Rate: rate, Burst: burst, Lims: 1 + r.Intn(3), Shared: r.Intn(3) > 0, Base: 1_600_000_000 + int64(r.Intn(100_000_000))}
	// drain: a few random requests, then whatever is left is taken by n=1 calls below
	sc.Steps = append(sc.Steps, c08TStep{L: r.Intn(sc.Lims), N: 1 + r.Int63n(burst)})
	for i := 0; i < calls; i++ {
		st := c08TStep{L: r.Intn(sc.Lims), N: 1}
		switch x := r.Intn(100); {
		case x < 12:
			st.N = int64(2 + r.Intn(3))
		case x < 16:
			st.N = burst
		case x < 19:
			st.N = burst + 1
		}
		// the caller clock stands still except for a rare single second
		if i > 0 && r.Intn(140) == 0 {
			st.Adv = 1000
		}
		sc.Steps = append(sc.Steps, st)
	}
	sc.SrvAdv = make([]int64, len(sc.Steps))
	if ttl := c08TTL(rate, burst); ttl >= 2 && r.Intn(3) > 0 {
		for i := 2; i < len(sc.SrvAdv); i++ {
			switch x := r.Intn(100); {
			case x < 12:
				sc.SrvAdv[i] = 1000
			case x < 15:
				sc.SrvAdv[i] = (ttl - 1) * 1000
			case x < 17:
				sc.SrvAdv[i] = ttl*1000 - 1
			}
		}
	}
	sc.Ctx = make([]string, len(sc.Steps))
	expired := 0
	for i := range sc.Ctx {
		switch x := r.Intn(100); {
		case x < 20:
			sc.Ctx[i] = "bg"
		case x < 26 && i > 20:
			sc.Ctx[i] = "cancelled"
		case x < 28 && i > 20 && expired < 2:
			sc.Ctx[i] = "expired"
			expired++
		}
	}
	return sc
}

// c08FastCall is the longest wall time of a call that is still judged when it
// executed no script: go-redis gives up on a stalled connection only after 3 s.
const c08FastCall = time.Second

func runC08Sustained(m *vk.M, idx int, sc c08SScenario) {
	desc := fmt.Sprintf("case=%d;%s", idx, vk.JSON(sc))
	key := fmt.Sprintf("c08u%d", idx)
	srv, err := acquireC08Srv("{"+key+"}", false)
	if err != nil {
		m.Inconclusive("miniredis: %v", err)
		return
	}
	defer srv.done()
	store := redis.New(srv.mr.Addr())
	lims := make([]*TokenLimiter, sc.Lims)
	for i := range lims {
		st := store
		if !sc.Shared && i > 0 {
			st = redis.New(srv.mr.Addr())
		}
		lims[i] = NewTokenLimiter(int(sc.Rate), int(sc.Burst), st, key)
	}
	ref := &c08Bucket{rate: sc.Rate, burst: sc.Burst}
	clock := time.Unix(sc.Base, 0)
	var adm []c08Adm
	grants, denies, run, maxRun := 0, 0, 0, 0
	unscriptedGrants := 0
	cancelled, cancel := context.WithCancel(context.Background())
	cancel()
	expired, cancel2 := context.WithDeadline(context.Background(), time.Now().Add(-time.Hour))
	defer cancel2()
	ttlMs := c08TTL(sc.Rate, sc.Burst) * 1000
	var srvIdle, srvAhead int64 // server ms since the last executed script; server-only ms in total
	for si, st := range sc.Steps {
		if st.Adv > 0 && (srvAhead == 0 || srvIdle+st.Adv < ttlMs) {
			// (once the server runs ahead, a lock-step advance that would let the keys
			// expire after less caller time than a refill period is left out)
			d := time.Duration(st.Adv) * time.Millisecond
			clock = clock.Add(d)
			srv.mr.FastForward(d)
			srvIdle += st.Adv
		}
		if x := sc.SrvAdv[si]; x > 0 && srvIdle+x < ttlMs {
			srv.mr.FastForward(time.Duration(x) * time.Millisecond)
			srvIdle += x
			srvAhead += x
			m.Count("sustained.server-only-advance", 1)
		}
		sec := clock.Unix()
		class := c08Class(ref, sec, st.N)
		if srvAhead > 0 {
			class += ":server-clock-ahead"
		}
		e0 := srv.evals.Load()
		t0 := time.Now()
		var got bool
		how := sc.Ctx[si]
		switch how {
		case "bg":
			got = lims[st.L].AllowNCtx(context.Background(), clock, int(st.N))
		case "cancelled":
			got = lims[st.L].AllowNCtx(cancelled, clock, int(st.N))
		case "expired":
			got = lims[st.L].AllowNCtx(expired, clock, int(st.N))
		default:
			how = "plain"
			got = lims[st.L].AllowN(clock, int(st.N))
		}
		wall := time.Since(t0)
		e := srv.evals.Load() - e0
		m.Count("sustained.allowN."+how, 1)
		ref.refill(sec)
		avail := ref.tokens
		if e == 0 && !got && (how == "cancelled" || how == "expired") {
			// a request given up by its caller: not sent, not granted, nothing consumed
			m.Count("sustained.ctx-"+how+"-denied-unsent", 1)
			continue
		}
		if e != 1 {
			if e == 0 && wall < c08FastCall && !c08Misrouted(key) && got && st.N > avail {
				m.Violate("C08:token:sustained:granted-over-quota-without-redis-command:"+how, desc,
					"step %d (rate %d, burst %d, %d limiters on one key): AllowN(sec=%d, n=%d) was granted in %v without any script execution although the server is up and was never down; the bucket holds %d tokens at that second; %d grants and %d denials so far, the last %d calls in a row denied",
					si, sc.Rate, sc.Burst, sc.Lims, sec, st.N, wall.Round(time.Microsecond), avail, grants, denies, run)
				return
			}
			switch c08Unscripted(e, wall, got, st.N, avail, unscriptedGrants) {
			case "consistent-denial":
				if !c08Misrouted(key) {
					m.Count("sustained.denied-without-script(n>available)", 1)
					denies++
					run++
					continue
				}
			case "under":
				if !c08Misrouted(key) && how != "cancelled" && how != "expired" {
					m.Violate("C08:token:sustained:denied-without-redis-command:"+class, desc,
						"step %d (rate %d, burst %d): AllowN(sec=%d, n=%d) was denied in %v without any script execution although the server is up and was never down and the bucket holds %d tokens",
						si, sc.Rate, sc.Burst, sec, st.N, wall.Round(time.Microsecond), avail)
					return
				}
			}
			if got {
				unscriptedGrants++
			}
			c08Abandoned.Add(1)
			m.Count(fmt.Sprintf("sustained.abandoned-evals=%d", e), 1)
			m.Note("case %d step %d: AllowN caused %d EVALs in %v on a healthy server (granted=%v, bucket %d, n=%d); scenario abandoned", idx, si, e, wall, got, avail, st.N)
			return
		}
		srvIdle = 0 // the script ran: both keys were written with a fresh TTL
		want := ref.take(sec, st.N)
		if got {
			grants++
			run = 0
			adm = append(adm, c08Adm{sec: sec, n: st.N})
		} else {
			denies++
			run++
			if run > maxRun {
				maxRun = run
			}
		}
		if got != want {
			m.Violate(fmt.Sprintf("C08:token:sustained:want-%s-got-%s:%s", c08GD(want), c08GD(got), class), desc,
				"step %d (rate %d, burst %d, %d limiters on one key): AllowN(sec=%d, n=%d) = %v; reference bucket holds %d tokens at that second, expected %v; %d denials in a row before",
				si, sc.Rate, sc.Burst, sc.Lims, sec, st.N, got, avail, want, run)
			return
		}
	}
	if bad, a, b, sum, bound := c08WindowBound(adm, sc.Rate, sc.Burst); bad {
		m.Violate("C08:token:sustained:window-bound", desc, "%d tokens admitted between second %d and second %d, bound burst+rate*t = %d", sum, adm[a].sec, adm[b].sec, bound)
		return
	}
	m.Count("sustained.grant", int64(grants))
	m.Count("sustained.deny", int64(denies))
	m.Max("sustained.longest_denial_run", int64(maxRun))
	m.Case(vk.Digest(sc.Rate, sc.Burst, sc.Lims, sc.Shared, grants, denies, maxRun), maxRun >= 50 && grants > 0)
	if m.WantSample() {
		m.Sample(map[string]any{"case": idx, "rate": sc.Rate, "burst": sc.Burst, "limiters_on_one_key": sc.Lims, "shared_store": sc.Shared,
			"calls": len(sc.Steps), "granted": grants, "denied": denies, "longest_denial_run": maxRun})
	}
}

func TestVerifC08TokenSustained(t *testing.T) {
	abandoned0 := c08Abandoned.Load()
	m := vk.New(t, "C08", "token limiter, healthy Redis, sustained over-quota traffic: hundreds of consecutive AllowN within the same caller second(s) after the bucket is drained, 1-3 limiters on one key, compared call by call with the reference bucket; a grant without a script execution is judged against the same bucket")
	defer m.Done()
	defer c08Wall(m, time.Now())
	const workers = 4
	n := vk.N(20, 400)
	var wg sync.WaitGroup
	var next atomic.Int64
	for w := 0; w < workers; w++ {
		wg.Add(1)
		go func() {
			defer wg.Done()
			for {
				i := int(next.Add(1)) - 1
				if i >= n {
					return
				}
				if !m.Only(i) {
					continue
				}
				r := m.Rand("sustained", i)
				runC08Sustained(m, i, c08GenSustained(r, 200+r.Intn(vk.N(200, 500))))
				if i%50 == 0 {
					m.Progress()
				}
			}
		}()
	}
	wg.Wait()
	c08TooManyAbandoned(m, abandoned0, n)
}

// Allow() and AllowCtx() take the time from time.Now: no virtual clock. One-sided
// on the wall clock: all call seconds lie in [sec0, sec1] read around the batch,
// so at most burst + rate*(sec1-sec0) may be granted; and a bucket that starts
// full grants at least the first min(calls, burst) single-token requests.
func TestVerifC08TokenAllowRealClock(t *testing.T) {
	m := vk.New(t, "C08", "Allow()/AllowCtx() (time.Now): granted <= burst + rate*(seconds spanned by the batch), granted >= min(calls, burst) on a fresh key; healthy Redis")
	defer m.Done()
	defer c08Wall(m, time.Now())
	n := vk.N(8, 150)
	for i := 0; i < n; i++ {
		if !m.Only(i) {
			continue
		}
		r := m.Rand("allow-real", i)
		rate := int64(1 + r.Intn(5))
		burst := (rate+1)/2 + int64(r.Intn(12))
		calls := int(burst) + 15 + r.Intn(40)
		useCtx := r.Intn(2) == 0
		desc := fmt.Sprintf("case=%d;{\"rate\":%d,\"burst\":%d,\"calls\":%d,\"allowctx\":%v}", i, rate, burst, calls, useCtx)
		key := fmt.Sprintf("c08w%d", i)
		srv, err := acquireC08Srv("{"+key+"}", false)
		if err != nil {
			m.Inconclusive("miniredis: %v", err)
			return
		}
		tl := NewTokenLimiter(int(rate), int(burst), redis.New(srv.mr.Addr()), key)
		sec0 := time.Now().Unix()
		e0 := srv.evals.Load()
		granted := int64(0)
		for k := 0; k < calls; k++ {
			var g bool
			if useCtx {
				g = tl.AllowCtx(context.Background())
			} else {
				g = tl.Allow()
			}
			if g {
				granted++
			}
		}
		sec1 := time.Now().Unix()
		e := srv.evals.Load() - e0
		srv.done()
		m.Count("allow-real.calls", int64(calls))
		m.Count("allow-real.granted", granted)
		if e != int64(calls) || c08Misrouted(key) {
			m.Count("allow-real.abandoned", 1)
			continue
		}
		form := "Allow"
		if useCtx {
			form = "AllowCtx"
		}
		if bound := burst + rate*(sec1-sec0); granted > bound {
			m.Violate("C08:token:allow-realclock:over-admission:"+form, desc, "%d %s() calls between wall second %d and %d, all answered by Redis: %d granted, bound burst+rate*t = %d (rate %d, burst %d)", calls, form, sec0, sec1, granted, bound, rate, burst)
			continue
		}
		if granted < burst {
			m.Violate("C08:token:allow-realclock:under-admission:"+form, desc, "%d %s() calls on a fresh key, all answered by Redis: only %d granted although the bucket starts with burst=%d tokens", calls, form, granted, burst)
			continue
		}
		m.Case(vk.Digest(rate, burst, calls, useCtx, granted), int64(calls) > granted)
		if m.WantSample() {
			m.Sample(map[string]any{"case": i, "form": form, "rate": rate, "burst": burst, "calls": calls, "granted": granted, "wall_seconds_spanned": sec1 - sec0})
		}
	}
}

// the same under concurrent callers (-race): the tokens granted in one caller
// second can never exceed what the bucket holds at that second
func TestVerifC08TokenSustainedRace(t *testing.T) {
	m := vk.New(t, "C08", "token limiter, healthy Redis, sustained over-quota traffic from 32 concurrent callers (-race): tokens granted per caller second never exceed the reference bucket's level, whoever answered")
	defer m.Done()
	defer c08Wall(m, time.Now())
	n := vk.N(2, 40)
	for i := 0; i < n; i++ {
		if m.Only(i) {
			r := m.Rand("sustained-race", i)
			if !runC08Crowd(m, i, r, 32, 6+r.Intn(vk.N(4, 10)), "c08v", "C08:token-race:sustained", "sustained-race") {
				return
			}
		}
	}
}

// TestVerifC08TokenCrowd: more simultaneous callers than the redis client has
// pooled connections (go-redis: 10 per CPU). Callers that have to wait for a
// connection on a healthy server must still be answered from the one bucket.
func TestVerifC08TokenCrowd(t *testing.T) {
	m := vk.New(t, "C08", "token limiter, healthy Redis, more concurrent callers in one caller second than pooled connections (20 x GOMAXPROCS + 64 goroutines): tokens granted never exceed the reference bucket's level, whoever answered")
	defer m.Done()
	defer c08Wall(m, time.Now())
	G := 20*runtime.GOMAXPROCS(0) + 64
	n := vk.N(2, 30)
	for i := 0; i < n; i++ {
		if m.Only(i) {
			if !runC08Crowd(m, i, m.Rand("crowd", i), G, 2, "c08y", "C08:token-crowd", "crowd") {
				return
			}
		}
	}
}

// runC08Crowd: G goroutines x per calls AllowN(now,1) in one caller second, three
// rounds, on a server that is never faulted. false = could not start a server.
func runC08Crowd(m *vk.M, i int, r *rand.Rand, G, per int, keyPrefix, sig, cnt string) bool {
	{
		{
			rate := int64(1 + r.Intn(6))
			burst := (rate+1)/2 + int64(r.Intn(6))
			nl := 1 + r.Intn(2)
			desc := fmt.Sprintf("case=%d;{\"rate\":%d,\"burst\":%d,\"limiters_on_one_key\":%d,\"goroutines\":%d,\"calls_each\":%d}", i, rate, burst, nl, G, per)
			m.Current(desc)
			key := fmt.Sprintf("%s%d", keyPrefix, i)
			srv, err := acquireC08Srv("{"+key+"}", false)
			if err != nil {
				m.Inconclusive("miniredis: %v", err)
				return false
			}
			store := redis.New(srv.mr.Addr())
			lims := make([]*TokenLimiter, nl)
			for k := range lims {
				lims[k] = NewTokenLimiter(int(rate), int(burst), store, key)
			}
			clock := time.Unix(1_600_000_000+int64(r.Intn(1000000)), 0)
			level := burst
			var totalGrant, totalDeny, offRedis int64
			ok := true
			for round := 0; round < 3 && ok; round++ {
				if round > 0 {
					adv := int64(r.Intn(2))
					clock = clock.Add(time.Duration(adv) * time.Second)
					srv.mr.FastForward(time.Duration(adv) * time.Second)
					level += adv * rate
					if level > burst {
						level = burst
					}
				}
				now := clock
				e0 := srv.evals.Load()
				var granted, denied, slow atomic.Int64
				var wg sync.WaitGroup
				gate := make(chan struct{})
				for g := 0; g < G; g++ {
					wg.Add(1)
					go func(l *TokenLimiter) {
						defer wg.Done()
						<-gate
						for k := 0; k < per; k++ {
							t0 := time.Now()
							if l.AllowN(now, 1) {
								granted.Add(1)
							} else {
								denied.Add(1)
							}
							if time.Since(t0) >= c08FastCall {
								slow.Add(1)
							}
						}
					}(lims[g%nl])
				}
				close(gate)
				wg.Wait()
				e := srv.evals.Load() - e0
				calls := int64(G * per)
				m.Count(cnt+".allowN", calls)
				if slow.Load() > 0 || c08Misrouted(key) || e > calls {
					// a stalled call may have been repeated or given up by the client: not judged
					m.Count(cnt+".abandoned", 1)
					ok = false
					break
				}
				offRedis += calls - e
				totalGrant += granted.Load()
				totalDeny += denied.Load()
				if granted.Load() > level {
					m.Violate(sig+"-over-admission", desc,
						"round %d: %d concurrent AllowN(n=1) calls in one caller second were granted %d tokens, the bucket held %d (rate %d, burst %d); %d of the calls were answered without a script execution although the server is up and was never down; %d denials before this round",
						round, calls, granted.Load(), level, rate, burst, calls-e, totalDeny-denied.Load())
					ok = false
					break
				}
				if e == calls && granted.Load() < level && denied.Load() > 0 {
					m.Violate(sig+"-denied-with-tokens-left", desc, "round %d: %d calls all answered by Redis, %d granted although the bucket held %d", round, calls, granted.Load(), level)
					ok = false
					break
				}
				level -= granted.Load()
			}
			srv.done()
			if ok {
				m.Count(cnt+".answered-without-script", offRedis)
				m.Count(cnt+".grant", totalGrant)
				m.Count(cnt+".deny", totalDeny)
				m.Case(vk.Digest(rate, burst, nl, per, totalGrant, totalDeny), totalDeny >= 100)
				if m.WantSample() {
					m.Sample(map[string]any{"case": i, "rate": rate, "burst": burst, "limiters_on_one_key": nl, "goroutines": G, "calls_each_per_round": per, "rounds": 3, "granted": totalGrant, "denied": totalDeny})
				}
			}
		}
	}
	return true
}

// ---------------------------------------------------------------------------
// outages

type c08Call struct {
	Adv int64 `json:"adv_ms,omitempty"`
	N   int64 `json:"n"`
}

type c08Outage struct {
	Fault string    `json:"fault"` // close | error
	Down  []c08Call `json:"down"`
	Up    []c08Call `json:"up"`
}

type c08OScenario struct {
	// Flap: outages follow each other with (almost) no caller time in between and
	// no refill period after the return: k outages must not admit k x burst
	Flap    bool        `json:"flap,omitempty"`
	Rate    int64       `json:"rate"`
	Burst   int64       `json:"burst"`
	Base    int64       `json:"base_unix"`
	BaseNs  int64       `json:"base_ns,omitempty"`
	Up      []c08Call   `json:"up"`
	Outages []c08Outage `json:"outages"`
}

func c08GenOutage(r *rand.Rand) c08OScenario {
	rate, burst := c08Cfg(r)
	if r.Intn(3) == 0 {
		sc := c08OScenario{Flap: true, Rate: rate, Burst: burst, Base: 1_600_000_000 + int64(r.Intn(100_000_000))}
		sc.Up = []c08Call{{N: 1}}
		for o, no := 0, 2+r.Intn(3); o < no; o++ {
			f := []string{"error", "error", "close", "garbage"}[r.Intn(4)]
			var down []c08Call
			for i, k := 0, int(burst)+3+r.Intn(8); i < k; i++ {
				c := c08Call{N: 1}
				if i == 0 && o > 0 && r.Intn(3) == 0 {
					c.Adv = 1000 // one second of refill between two outages, never a full refill period
				}
				if r.Intn(10) == 0 {
					c.N = c08PickN(r, burst)
				}
				down = append(down, c)
			}
			sc.Outages = append(sc.Outages, c08Outage{Fault: f, Down: down})
		}
		return sc
	}
	sc := c08OScenario{Rate: rate, Burst: burst, Base: 1_600_000_000 + int64(r.Intn(100_000_000))}
	subsec := r.Intn(4) == 0
	if subsec {
		sc.BaseNs = int64(r.Intn(1_000_000_000))
	}
	calls := func(k int) []c08Call {
		var cs []c08Call
		for i := 0; i < k; i++ {
			cs = append(cs, c08Call{Adv: c08PickAdv(r, rate, burst, subsec), N: c08PickN(r, burst)})
		}
		return cs
	}
	sc.Up = calls(8 + r.Intn(20))
	for o, no := 0, 1+r.Intn(3); o < no; o++ {
		f := "close"
		switch x := r.Intn(20); {
		case x < 5:
			f = "error"
		case x < 8:
			f = "garbage" // EVAL answered with a string instead of the script's boolean
		}
		sc.Outages = append(sc.Outages, c08Outage{Fault: f, Down: calls(15 + r.Intn(50)), Up: calls(8 + r.Intn(25))})
	}
	return sc
}

// c08Seg tracks one fallback segment: the set of bucket levels consistent with
// the answers so far, and the admitted tokens for the sub-window bound.
type c08Seg struct {
	used   bool // the fallback answered at least once in this scenario
	active bool
	lo, hi float64 // possible level just after the last call
	last   time.Time
	ts     []time.Time
	adm    []int64
}

const c08Eps = 0.01

const (
	c08ReturnDeadline = 10 * time.Second
	c08MaxFlaps       = 6
)

type c08ORun struct {
	key    string
	m      *vk.M
	idx    int
	sc     c08OScenario
	desc   string
	srv    *c08Srv
	tl     *TokenLimiter
	clock  time.Time
	ref    c08Bucket
	seg    c08Seg
	whole  bool // caller clock moves in whole seconds: fallback oracle is two-sided
	fault  string
	flaps  int
	obs    strings.Builder
	nresc  int
	nredis int

	misrouted bool

	// stay: after a long outage (every pooled connection dates from after it) a
	// call answered without a script is a violation, not a tolerated flap
	stay bool
	pace time.Duration
}

func (x *c08ORun) advance(ms int64) {
	if ms <= 0 {
		return
	}
	d := time.Duration(ms) * time.Millisecond
	x.clock = x.clock.Add(d)
	x.srv.mr.FastForward(d)
}

// call returns evals = -1 when the limiter's command went to a foreign server
// (port reuse, see c08Foreign): the scenario is then abandoned without verdict.
func (x *c08ORun) call(n int64) (granted bool, evals int64) {
	e0 := x.srv.evals.Load()
	g := x.tl.AllowN(x.clock, int(n))
	e := x.srv.evals.Load() - e0
	if c08Misrouted(x.key) {
		if !x.misrouted {
			x.misrouted = true
			x.m.Count("outage.abandoned-port-reuse", 1)
			x.m.Note("case %d: the limiter's EVAL reached another scenario's server (port reused while closed); scenario abandoned", x.idx)
		}
		return g, -1
	}
	return g, e
}

// twoSided: a denial by the fallback is judged only for a real outage (server
// closed, accepting connections but never answering, or shut off from the
// limiter by the open circuit breaker of its store; whether error replies count
// as "unreachable" is left open) and only
// when the caller clock moves in whole seconds (continuous and whole-second
// refill coincide there).
func (x *c08ORun) twoSided() bool {
	return x.whole && (x.fault == "close" || x.fault == "silent" || x.fault == "breaker")
}

// rescue accounts one call answered by the fallback. false = violation recorded.
func (x *c08ORun) rescue(n int64, granted bool, where string) bool {
	s := &x.seg
	rate, burst := float64(x.sc.Rate), float64(x.sc.Burst)
	if !s.active {
		// "an in-process bucket": one bucket for the life of the limiter. Its level is
		// unknown ([0,burst]) only before its first use; a later outage continues from
		// what the earlier ones left, refilled for the caller time in between.
		if !s.used {
			*s = c08Seg{used: true, lo: 0, hi: burst, last: x.clock}
		}
		s.active = true
		x.m.Count("outage.segments", 1)
	}
	dt := x.clock.Sub(s.last).Seconds()
	s.last = x.clock
	s.lo, s.hi = s.lo+rate*dt, s.hi+rate*dt
	if s.lo > burst {
		s.lo = burst
	}
	if s.hi > burst {
		s.hi = burst
	}
	x.nresc++
	x.m.Count("outage.fallback-call."+c08GD(granted), 1)
	if granted {
		x.obs.WriteByte('G')
	} else {
		x.obs.WriteByte('D')
	}
	fn := float64(n)
	if granted {
		if n > x.sc.Burst {
			x.m.Violate("C08:outage:granted-n>burst:"+x.fault, x.desc, "%s: fallback granted n=%d > burst=%d (rate %d) at caller time %v", where, n, x.sc.Burst, x.sc.Rate, x.clock.UnixMilli())
			return false
		}
		if s.hi+c08Eps < fn {
			x.m.Violate("C08:outage:fallback-over-admission:"+x.fault, x.desc,
				"%s: fallback granted n=%d although every bucket of rate %d / burst %d consistent with this outage segment holds at most %.3f tokens at caller time %dms",
				where, n, x.sc.Rate, x.sc.Burst, s.hi, x.clock.UnixMilli())
			return false
		}
		if s.lo < fn {
			s.lo = fn
		}
		s.lo -= fn
		s.hi -= fn
		if s.hi < 0 {
			s.hi = 0
		}
		if s.lo > s.hi {
			s.lo = s.hi
		}
		// sub-window bound inside the segment
		s.ts = append(s.ts, x.clock)
		s.adm = append(s.adm, n)
		var sum int64
		for i := len(s.adm) - 1; i >= 0; i-- {
			sum += s.adm[i]
			bound := x.sc.Burst + (x.sc.Rate*int64(x.clock.Sub(s.ts[i]))+20_000_000)/1_000_000_000
			if sum > bound {
				x.m.Violate("C08:outage:fallback-window-bound:"+x.fault, x.desc, "%s: the fallback admitted %d tokens within %v of caller time (all outages of this limiter taken together), bound burst+rate*t = %d (rate %d, burst %d)",
					where, sum, x.clock.Sub(s.ts[i]), bound, x.sc.Rate, x.sc.Burst)
				return false
			}
		}
		return true
	}
	// denied: the level was below n
	// whole-second caller times: the in-process bucket's level is never below the
	// ideal integer level (Every(1s/rate) truncates the interval, i.e. refills a
	// hair faster; checked numerically for rate <= 40), so the boundary n == level
	// is decidable
	if x.twoSided() && n <= x.sc.Burst && s.lo >= fn-1e-6 {
		x.m.Violate("C08:outage:fallback-under-admission:"+x.fault, x.desc,
			"%s: fallback denied n=%d although every bucket of rate %d / burst %d consistent with this outage segment holds at least %.3f tokens at caller time %dms",
			where, n, x.sc.Rate, x.sc.Burst, s.lo, x.clock.UnixMilli())
		return false
	}
	if s.hi > fn {
		s.hi = fn // level < n; kept closed (tolerance in the comparisons above)
	}
	if s.lo > s.hi {
		s.lo = s.hi
	}
	return true
}

// waitReturn keeps calling AllowN (caller clock frozen) until the server executes
// an EVAL of the limiter again. ok=false: stop the scenario.
func (x *c08ORun) waitReturn() (ok bool) {
	start := time.Now()
	calls := 0
	for {
		g, e := x.call(1)
		calls++
		if e < 0 {
			return false
		}
		if e == 1 {
			x.seg.active = false
			ms := time.Since(start).Milliseconds()
			x.m.Count("outage.returned-to-redis", 1)
			x.m.Max("outage.return_ms_max", ms)
			x.m.Count("outage.return_ms_sum", ms)
			x.obs.WriteByte('|')
			return true
		}
		if e > 1 {
			x.m.Count("outage.eval-duplicated", 1)
			return false
		}
		if !x.rescue(1, g, "while waiting for the return to Redis") {
			return false
		}
		if el := time.Since(start); el > c08ReturnDeadline && calls >= 100 {
			if !c08Alive(x.srv.mr.Addr()) {
				x.m.Inconclusive("case %d: harness server not answering after the fault was removed", x.idx)
				return false
			}
			c08NoReturn.Store(true)
			x.m.Violate("C08:outage:no-return-to-redis:"+x.fault, x.desc,
				"fault %q removed %v ago, server answers PING to an independent client (%d PINGs seen by the hook), AllowN called %d times since, but the server executed no EVAL from the limiter",
				x.fault, el.Round(time.Millisecond), x.srv.pings.Load(), calls)
			return false
		}
		time.Sleep(2 * time.Millisecond)
	}
}

// resync advances one refill period so that every correct bucket is full.
func (x *c08ORun) resync() {
	k := (x.sc.Burst+x.sc.Rate-1)/x.sc.Rate + int64(x.idx%3)
	x.advance(k * 1000)
	x.ref = c08Bucket{rate: x.sc.Rate, burst: x.sc.Burst, tokens: x.sc.Burst, last: x.clock.Unix(), started: true}
}

// up runs calls that must be answered by Redis and agree with the reference.
func (x *c08ORun) up(calls []c08Call, phase string) bool {
	for ci, c := range calls {
		x.advance(c.Adv)
		sec := x.clock.Unix()
		class := c08Class(&x.ref, sec, c.N)
		if x.pace > 0 {
			time.Sleep(x.pace) // not a verdict: lets the recovery monitor's ticks interleave
		}
		t0 := time.Now()
		g, e := x.call(c.N)
		wall := time.Since(t0)
		switch {
		case e == 0 && x.stay && wall < c08FastCall:
			// "returns to Redis once it answers again": the limiter was back on Redis,
			// every connection of the client was made after the outage, the server has
			// answered every command since; an answer computed without asking Redis
			// means the limiter left again (two buckets refilling side by side)
			x.m.Violate("C08:outage:left-redis-after-return:"+x.fault, x.desc,
				"%s call %d (rate %d, burst %d): AllowN(sec=%d, n=%d) = %v was answered in %v without any script execution although the limiter had returned to Redis %d calls earlier and the server has answered every command since the fault was removed (%d PINGs seen)",
				phase, ci, x.sc.Rate, x.sc.Burst, sec, c.N, g, wall.Round(time.Microsecond), ci, x.srv.pings.Load())
			return false
		case e == 1:
			x.nredis++
			x.m.Count("outage.redis-call", 1)
			x.ref.refill(sec)
			before := x.ref.tokens
			want := x.ref.take(sec, c.N)
			if g {
				x.obs.WriteByte('g')
			} else {
				x.obs.WriteByte('d')
			}
			if g != want {
				x.m.Violate(fmt.Sprintf("C08:outage:%s:want-%s-got-%s:%s", phase, c08GD(want), c08GD(g), class), x.desc,
					"%s call %d (rate %d, burst %d): AllowN(sec=%d, n=%d) = %v answered by Redis, reference bucket (full one refill period after each return) holds %d at that second, expected %v",
					phase, ci, x.sc.Rate, x.sc.Burst, sec, c.N, g, before, want)
				return false
			}
		case e == 0:
			// the limiter fell back although no fault is active (stale pooled
			// connection, breaker): not forbidden by the statement; it must come back
			x.flaps++
			x.m.Count("outage.fallback-without-fault", 1)
			if x.flaps > c08MaxFlaps {
				x.m.Count("outage.abandoned-flapping", 1)
				return false
			}
			if !x.rescue(c.N, g, "fallback without fault") || !x.waitReturn() {
				return false
			}
			x.resync()
		case e < 0:
			return false
		default:
			x.m.Count("outage.eval-duplicated", 1)
			return false
		}
	}
	return true
}

// c08NoReturn is set once a limiter failed to come back to Redis within the
// deadline: later scenarios would each spend the same 10 s on the same verdict.
var c08NoReturn atomic.Bool

func runC08Outage(m *vk.M, idx int, sc c08OScenario) {
	if c08NoReturn.Load() {
		m.Count("outage.skipped-after-no-return-violation", 1)
		return
	}
	x := &c08ORun{m: m, idx: idx, sc: sc, desc: fmt.Sprintf("case=%d;%s", idx, vk.JSON(sc))}
	x.key = fmt.Sprintf("c08o%d", idx)
	srv, err := acquireC08Srv("{"+x.key+"}", true)
	if err != nil {
		m.Inconclusive("miniredis: %v", err)
		return
	}
	defer srv.done()
	x.srv = srv
	x.tl = NewTokenLimiter(int(sc.Rate), int(sc.Burst), redis.New(srv.mr.Addr()), x.key)
	x.clock = time.Unix(sc.Base, sc.BaseNs)
	x.ref = c08Bucket{rate: sc.Rate, burst: sc.Burst}
	x.whole = sc.BaseNs == 0
	x.fault = "none"
	if !x.up(sc.Up, "before-outage") {
		return
	}
	returned := 0
	for _, o := range sc.Outages {
		x.fault = o.Fault
		switch o.Fault {
		case "close":
			srv.mr.Close()
		case "garbage":
			srv.garbage.Store(c08GarbageBulk + int32(idx%2))
		default:
			srv.errMode.Store(true)
		}
		m.Count("outage.fault."+o.Fault, 1)
		x.obs.WriteByte('[')
		for ci, c := range o.Down {
			x.advance(c.Adv)
			g, e := x.call(c.N)
			if e < 0 {
				return
			}
			if e != 0 {
				m.Inconclusive("case %d: server executed an EVAL while the fault %s was active", idx, o.Fault)
				return
			}
			if !x.rescue(c.N, g, fmt.Sprintf("outage call %d", ci)) {
				return
			}
		}
		x.obs.WriteByte(']')
		if o.Fault != "close" {
			// evidence only (the statement does not say how often a limiter may probe a
			// failing Redis): script attempts the server saw while it was answering with
			// the injected fault, against the calls made in that phase
			m.Count("outage.calls-during-reply-fault", int64(len(o.Down)))
			m.Count("outage.eval-attempts-seen-during-reply-fault", srv.rejEvals.Swap(0))
		}
		if o.Fault == "close" {
			if err := srv.mr.Restart(); err != nil {
				// the port was taken by somebody else on this shared machine
				m.Count("outage.restart-failed", 1)
				m.Note("case %d: miniredis.Restart: %v (scenario abandoned)", idx, err)
				return
			}
			srv.install()
		} else {
			srv.errMode.Store(false)
			srv.garbage.Store(0)
		}
		if !x.waitReturn() {
			return
		}
		returned++
		if sc.Flap {
			continue // straight into the next outage: the fallback bucket has had no time to refill
		}
		x.resync()
		if !x.up(o.Up, "after-return") {
			return
		}
	}
	m.Case(vk.Digest(sc.Rate, sc.Burst, x.obs.String()), returned > 0 && x.nresc > 0 && x.nredis > 0)
	if m.WantSample() && returned == len(sc.Outages) && returned > 1 {
		m.Sample(map[string]any{"case": idx, "rate": sc.Rate, "burst": sc.Burst, "whole_second_clock": x.whole, "outages": len(sc.Outages),
			"fallback_calls": x.nresc, "redis_calls": x.nredis, "returns_to_redis": returned,
			"trace (g/d redis, [G/D fallback], | return)": c08Trunc(x.obs.String(), 160)})
	}
}

// runC08Silent: the server accepts connections and reads commands but never
// answers (hung process, black-holed network). The redis client has no timeout
// setting reachable from the limiter, so the first call blocks for the client's
// read timeout x attempts (~12 s); the scenario runs beside the others.
// Verdicts: the usual fallback oracle (one bucket; one-sided bound) and, one
// refill period of caller time after the outage began, a request for one token
// must be granted: "keeps limiting with an in-process bucket", not "refuses
// everything".
func runC08Silent(m *vk.M, idx int) {
	r := m.Rand("silent", idx)
	rate := int64(1 + r.Intn(4))
	burst := (rate+1)/2 + int64(1+r.Intn(5))
	sc := c08OScenario{Rate: rate, Burst: burst, Base: 1_600_000_000 + int64(r.Intn(100_000_000))}
	x := &c08ORun{m: m, idx: idx, sc: sc, key: fmt.Sprintf("c08q%d", idx)}
	x.desc = fmt.Sprintf("case=%d;{\"fault\":\"silent\",\"rate\":%d,\"burst\":%d}", idx, rate, burst)
	srv, err := acquireC08Srv("{"+x.key+"}", true)
	if err != nil {
		m.Inconclusive("miniredis: %v", err)
		return
	}
	defer srv.done()
	x.srv = srv
	x.tl = NewTokenLimiter(int(rate), int(burst), redis.New(srv.mr.Addr()), x.key)
	x.clock = time.Unix(sc.Base, 0)
	x.ref = c08Bucket{rate: rate, burst: burst}
	x.whole = true
	x.fault = "none"
	if !x.up([]c08Call{{N: 1}, {N: 1}}, "before-outage") {
		return
	}
	x.fault = "silent"
	srv.goSilent()
	m.Count("outage.fault.silent", 1)
	refill := ((burst + rate - 1) / rate) * 1000
	calls := []c08Call{{N: 1}, {Adv: refill, N: 1}, {N: 1}, {N: burst + 1}, {Adv: 1000, N: 1}}
	for i := 0; i < int(burst)+2; i++ {
		calls = append(calls, c08Call{N: 1})
	}
	var slowest time.Duration
	for ci, c := range calls {
		x.advance(c.Adv)
		var g bool
		var e int64
		t0 := time.Now()
		if !vk.Within(120*time.Second, func() { g, e = x.call(c.N) }) {
			m.Inconclusive("case %d: AllowN did not return within 120 s against a silent server", idx)
			return
		}
		if d := time.Since(t0); d > slowest {
			slowest = d
		}
		if e < 0 {
			return
		}
		if e != 0 {
			m.Inconclusive("case %d: server executed an EVAL while silent", idx)
			return
		}
		if !x.rescue(c.N, g, fmt.Sprintf("silent-server call %d", ci)) {
			return
		}
	}
	m.Max("outage.silent.slowest_call_ms", slowest.Milliseconds())
	m.Count("outage.silent.commands-left-unanswered", srv.silentSeen.Load())
	srv.release()
	if !x.waitReturn() {
		return
	}
	x.resync()
	if !x.up([]c08Call{{N: 1}, {N: burst}, {N: 1}, {Adv: 1000, N: 1}}, "after-return") {
		return
	}
	m.Case(vk.Digest("silent", rate, burst, x.obs.String()), x.nresc > 0 && x.nredis > 0)
	m.Sample(map[string]any{"case": idx, "fault": "silent server (accepts, never answers)", "rate": rate, "burst": burst, "fallback_calls": x.nresc,
		"slowest_call_ms": slowest.Milliseconds(), "trace (g/d redis, G/D fallback, | return)": c08Trunc(x.obs.String(), 120)})
}

// runC08LongOutage: the outage lasts seconds of REAL time while the recovery
// monitor is already running (all other outage scenarios are over within
// milliseconds of monitor time). The sleep is not a verdict; the verdicts are
// the usual ones: fallback bound during the outage, an EVAL of the limiter
// executed again within 10 s after the fault is removed, agreement with the
// reference bucket one refill period later.
func runC08LongOutage(m *vk.M, idx int, fault string, down time.Duration) {
	r := m.Rand("long-outage", idx)
	rate := int64(1 + r.Intn(5))
	burst := (rate+1)/2 + int64(1+r.Intn(8))
	sc := c08OScenario{Rate: rate, Burst: burst, Base: 1_600_000_000 + int64(r.Intn(100_000_000))}
	x := &c08ORun{m: m, idx: idx, sc: sc, key: fmt.Sprintf("c08l%d", idx)}
	x.desc = fmt.Sprintf("case=%d;{\"fault\":%q,\"outage_real_ms\":%d,\"rate\":%d,\"burst\":%d}", idx, fault, down.Milliseconds(), rate, burst)
	srv, err := acquireC08Srv("{"+x.key+"}", true)
	if err != nil {
		m.Inconclusive("miniredis: %v", err)
		return
	}
	defer srv.done()
	x.srv = srv
	x.tl = NewTokenLimiter(int(rate), int(burst), redis.New(srv.mr.Addr()), x.key)
	x.clock = time.Unix(sc.Base, 0)
	x.ref = c08Bucket{rate: rate, burst: burst}
	x.whole = true
	x.fault = "none"
	if !x.up([]c08Call{{N: 1}, {N: 1}}, "before-outage") {
		return
	}
	x.fault = "long-" + fault
	if fault == "close" {
		srv.mr.Close()
	} else {
		srv.errMode.Store(true)
	}
	m.Count("outage.fault.long-"+fault, 1)
	step := func(c c08Call, where string) bool {
		x.advance(c.Adv)
		g, e := x.call(c.N)
		if e < 0 {
			return false
		}
		if e != 0 {
			m.Inconclusive("case %d: server executed an EVAL while the fault %s was active", idx, fault)
			return false
		}
		return x.rescue(c.N, g, where)
	}
	if !step(c08Call{N: 1}, "first call of the long outage") { // starts the recovery monitor
		return
	}
	time.Sleep(down)
	for i := 0; i < int(burst)+4; i++ {
		if !step(c08Call{Adv: int64(r.Intn(2)) * 1000, N: 1 + int64(r.Intn(2))}, fmt.Sprintf("call %d after %v of outage", i, down)) {
			return
		}
	}
	if fault == "close" {
		if err := srv.mr.Restart(); err != nil {
			m.Count("outage.restart-failed", 1)
			return
		}
		srv.install()
	} else {
		srv.errMode.Store(false)
	}
	if !x.waitReturn() {
		return
	}
	x.resync()
	// the return must last: a run of calls spread over more than a second of real
	// time, every one answered by the script and equal to the reference bucket
	x.stay, x.pace = true, 40*time.Millisecond
	stayCalls := []c08Call{{N: 1}, {N: burst}, {N: 1}, {Adv: 1000, N: 1}}
	for i := 0; i < 28; i++ {
		stayCalls = append(stayCalls, c08Call{Adv: int64(r.Intn(3)/2) * 1000, N: 1})
	}
	if !x.up(stayCalls, "after-return") {
		return
	}
	m.Count("outage.long.calls-after-return-all-on-redis", int64(len(stayCalls)))
	m.Case(vk.Digest("long", fault, down, rate, burst, x.obs.String()), x.nresc > 0 && x.nredis > 0)
}

// runC08BreakerOpen: the token limiter shares its *redis.Redis with a period
// limiter. While the server answers every command with an error, only the period
// limiter is used: its failures open the store's circuit breaker; the token
// limiter notices nothing. Then the server is healthy again, but the breaker
// still rejects most commands of the token limiter. Redis is unreachable for it
// (through no fault of its own): answers without a script execution must follow
// the in-process bucket (one bucket, one-sided bound; a one-token request one
// refill period later must be granted), answers that did reach Redis must agree
// with the reference bucket, which saw every executed script.
func runC08BreakerOpen(m *vk.M, idx int) {
	r := m.Rand("breaker", idx)
	rate := int64(1 + r.Intn(5))
	burst := (rate+1)/2 + int64(1+r.Intn(8))
	sc := c08OScenario{Rate: rate, Burst: burst, Base: 1_600_000_000 + int64(r.Intn(100_000_000))}
	failures := 40 + r.Intn(60)
	x := &c08ORun{m: m, idx: idx, sc: sc, key: fmt.Sprintf("c08b%d", idx)}
	x.desc = fmt.Sprintf("case=%d;{\"fault\":\"breaker of the shared store opened by %d failing PeriodLimit takes\",\"rate\":%d,\"burst\":%d}", idx, failures, rate, burst)
	srv, err := acquireC08Srv("{"+x.key+"}", false)
	if err != nil {
		m.Inconclusive("miniredis: %v", err)
		return
	}
	defer srv.done()
	x.srv = srv
	store := redis.New(srv.mr.Addr())
	x.tl = NewTokenLimiter(int(rate), int(burst), store, x.key)
	pl := NewPeriodLimit(60, 1000, store, "{"+x.key+"}:p:")
	x.clock = time.Unix(sc.Base, 0)
	x.ref = c08Bucket{rate: rate, burst: burst}
	x.whole = true
	x.fault = "none"
	if !x.up([]c08Call{{N: 1}, {N: 1}}, "before-outage") {
		return
	}
	srv.errMode.Store(true)
	perr := 0
	for i := 0; i < failures; i++ {
		if _, err := pl.Take("x"); err != nil {
			perr++
		}
	}
	srv.errMode.Store(false)
	m.Count("outage.fault.breaker", 1)
	m.Count("outage.breaker.failing-period-takes", int64(perr))
	x.fault = "breaker"
	refill := ((burst + rate - 1) / rate) * 1000
	calls := []c08Call{{N: 1}, {Adv: refill, N: 1}}
	for i := 0; i < 30; i++ {
		c := c08Call{N: 1}
		switch r.Intn(6) {
		case 0:
			c.Adv = 1000
		case 1:
			c.N = c08PickN(r, burst)
		}
		calls = append(calls, c)
	}
	rejected := 0
	for ci, c := range calls {
		x.advance(c.Adv)
		sec := x.clock.Unix()
		class := c08Class(&x.ref, sec, c.N)
		g, e := x.call(c.N)
		switch {
		case e < 0:
			return
		case e == 0:
			rejected++
			m.Count("outage.breaker.answered-without-script", 1)
			if !x.rescue(c.N, g, fmt.Sprintf("call %d while the store's breaker is open", ci)) {
				return
			}
		case e == 1:
			x.seg.active = false
			x.nredis++
			m.Count("outage.breaker.answered-by-redis", 1)
			x.ref.refill(sec)
			avail := x.ref.tokens
			if want := x.ref.take(sec, c.N); g != want {
				m.Violate(fmt.Sprintf("C08:outage:breaker-open:want-%s-got-%s:%s", c08GD(want), c08GD(g), class), x.desc,
					"call %d (rate %d, burst %d): AllowN(sec=%d, n=%d) = %v answered by Redis, reference bucket holds %d at that second, expected %v", ci, rate, burst, sec, c.N, g, avail, want)
				return
			}
		default:
			m.Count("outage.eval-duplicated", 1)
			return
		}
	}
	m.Case(vk.Digest("breaker", rate, burst, failures, rejected), rejected > 0)
	if rejected == 0 {
		m.Note("case %d: %d failing takes did not make the breaker reject any token-limiter command", idx, perr)
	}
}

func TestVerifC08TokenOutage(t *testing.T) {
	m := vk.New(t, "C08", "token limiter across Redis outages (miniredis Close/Restart, error replies): fallback answers consistent with some bucket of the same rate/burst per segment; EVAL seen again within 10 s; agreement with the reference bucket one refill period after the return")
	defer m.Done()
	defer c08Wall(m, time.Now())
	const workers = 8
	n := vk.N(80, 1600)
	var wg sync.WaitGroup
	var next atomic.Int64
	// silent-server scenarios (each ~12 s of client timeouts) run beside the rest
	for k, ns := 0, vk.N(1, 4); k < ns; k++ {
		if idx := 100000 + k; m.Only(idx) {
			wg.Add(1)
			go func() {
				defer wg.Done()
				runC08Silent(m, idx)
			}()
		}
	}
	// outages that last seconds of real time (they sleep; run beside the rest)
	longs := []struct {
		fault string
		d     time.Duration
	}{{"error", 2600 * time.Millisecond}, {"close", 3200 * time.Millisecond}}
	if vk.Thorough() {
		longs = append(longs, struct {
			fault string
			d     time.Duration
		}{"error", 6 * time.Second}, struct {
			fault string
			d     time.Duration
		}{"close", 11 * time.Second}, struct {
			fault string
			d     time.Duration
		}{"error", 12 * time.Second})
	}
	for k, lo := range longs {
		if idx := 300000 + k; m.Only(idx) {
			wg.Add(1)
			go func(fault string, d time.Duration) {
				defer wg.Done()
				runC08LongOutage(m, idx, fault, d)
			}(lo.fault, lo.d)
		}
	}
	// open-breaker scenarios (fast)
	wg.Add(1)
	go func() {
		defer wg.Done()
		for k, nb := 0, vk.N(8, 120); k < nb; k++ {
			if idx := 200000 + k; m.Only(idx) {
				runC08BreakerOpen(m, idx)
			}
		}
	}()
	for w := 0; w < workers; w++ {
		wg.Add(1)
		go func() {
			defer wg.Done()
			for {
				i := int(next.Add(1)) - 1
				if i >= n {
					return
				}
				if !m.Only(i) {
					continue
				}
				sc := c08GenOutage(m.Rand("outage", i))
				runC08Outage(m, i, sc)
				if i%50 == 0 {
					m.Progress()
				}
			}
		}()
	}
	wg.Wait()
}

// ---------------------------------------------------------------------------
// concurrent callers (-race), including an outage

func TestVerifC08TokenRace(t *testing.T) {
	m := vk.New(t, "C08", "token limiter under 32 concurrent callers (-race): token conservation per round when every call was answered by Redis; one-sided bound during an outage; return to Redis within 10 s; race detector on startMonitor/waitForRedis/redisAlive")
	defer m.Done()
	defer c08Wall(m, time.Now())
	const G = 32
	n := vk.N(4, 60)
	const workers = 2
	var wg sync.WaitGroup
	var next atomic.Int64
	for w := 0; w < workers; w++ {
		wg.Add(1)
		go func() {
			defer wg.Done()
			for {
				i := int(next.Add(1)) - 1
				if i >= n {
					return
				}
				if m.Only(i) {
					runC08TokenRace(m, i, G)
				}
			}
		}()
	}
	wg.Wait()
}

type c08RRes struct {
	n       int64
	granted bool
}

func runC08TokenRace(m *vk.M, idx, G int) {
	if c08NoReturn.Load() {
		m.Count("race.skipped-after-no-return-violation", 1)
		return
	}
	r := m.Rand("trace", idx)
	rate, burst := c08Cfg(r)
	per := 1 + r.Intn(3)
	fault := "close"
	if r.Intn(4) == 0 {
		fault = "error"
	}
	desc := fmt.Sprintf("case=%d;{\"rate\":%d,\"burst\":%d,\"goroutines\":%d,\"calls_each\":%d,\"fault\":%q}", idx, rate, burst, G, per, fault)
	key := fmt.Sprintf("c08tr%d", idx)
	srv, err := acquireC08Srv("{"+key+"}", true)
	if err != nil {
		m.Inconclusive("miniredis: %v", err)
		return
	}
	defer srv.done()
	tl := NewTokenLimiter(int(rate), int(burst), redis.New(srv.mr.Addr()), key)
	clock := time.Unix(1_600_000_000+int64(r.Intn(1000000)), 0)
	advance := func(sec int64) {
		d := time.Duration(sec) * time.Second
		clock = clock.Add(d)
		srv.mr.FastForward(d)
	}
	// round runs G goroutines x per calls at the current (frozen) caller second
	round := func(ones bool) (res []c08RRes, evals int64) {
		plan := make([][]int64, G)
		for g := range plan {
			for k := 0; k < per; k++ {
				nn := int64(1)
				if !ones {
					nn = c08PickN(r, burst)
				}
				plan[g] = append(plan[g], nn)
			}
		}
		now := clock
		e0 := srv.evals.Load()
		var mu sync.Mutex
		var wg sync.WaitGroup
		gate := make(chan struct{})
		for g := 0; g < G; g++ {
			wg.Add(1)
			go func(ns []int64) {
				defer wg.Done()
				<-gate
				local := make([]c08RRes, 0, len(ns))
				for _, nn := range ns {
					local = append(local, c08RRes{n: nn, granted: tl.AllowN(now, int(nn))})
				}
				mu.Lock()
				res = append(res, local...)
				mu.Unlock()
			}(plan[g])
		}
		close(gate)
		wg.Wait()
		if c08Misrouted(key) {
			return nil, -1
		}
		return res, srv.evals.Load() - e0
	}
	misrouted := func(e int64) bool {
		if e < 0 {
			m.Count("race.abandoned-port-reuse", 1)
		}
		return e < 0
	}
	level := burst // reference level of the Redis bucket at the current second
	rounds, exactRounds, denied := 0, 0, 0
	var obs strings.Builder
	// exact conservation for a round fully answered by Redis
	exact := func(res []c08RRes, phase string) bool {
		var sum int64
		for _, x := range res {
			if x.granted {
				sum += x.n
			}
		}
		if sum > level {
			m.Violate("C08:token-race:over-admission:"+phase, desc, "round %d: %d concurrent calls in one caller second were granted %d tokens in total, bucket held %d (rate %d, burst %d)", rounds, len(res), sum, level, rate, burst)
			return false
		}
		for _, x := range res {
			if !x.granted {
				denied++
				if x.n <= level-sum {
					m.Violate("C08:token-race:denied-with-tokens-left:"+phase, desc, "round %d: a request for n=%d was denied although %d tokens were still in the bucket at the end of the round (held %d, granted %d)", rounds, x.n, level-sum, level, sum)
					return false
				}
			}
		}
		fmt.Fprintf(&obs, "%d/%d ", sum, level)
		level -= sum
		exactRounds++
		return true
	}
	healthy := func(k int, phase string) bool {
		for i := 0; i < k; i++ {
			adv := []int64{0, 0, 1, 1, 2, c08TTL(rate, burst), (burst + rate - 1) / rate}[r.Intn(7)]
			advance(adv)
			level += adv * rate
			if level > burst {
				level = burst
			}
			res, e := round(r.Intn(2) == 0)
			if misrouted(e) {
				return false
			}
			rounds++
			m.Count("race.allowN", int64(len(res)))
			for _, x := range res {
				if x.granted && x.n > burst {
					m.Violate("C08:token-race:granted-n>burst:"+phase, desc, "round %d: n=%d > burst=%d granted", rounds, x.n, burst)
					return false
				}
			}
			if e == int64(len(res)) {
				m.Count("race.rounds-all-on-redis", 1)
				if !exact(res, phase) {
					return false
				}
				continue
			}
			// some calls were answered by the fallback (or an EVAL was repeated): the
			// level is unknown; one refill period later every bucket is full again
			m.Count("race.rounds-mixed", 1)
			advance((burst+rate-1)/rate + 1)
			level = burst
		}
		return true
	}
	if !healthy(3+r.Intn(3), "before-outage") {
		return
	}
	// outage injected at quiescence
	if fault == "close" {
		srv.mr.Close()
	} else {
		srv.errMode.Store(true)
	}
	m.Count("race.fault."+fault, 1)
	segStart := clock
	var segSum int64
	for i, k := 0, 2+r.Intn(3); i < k; i++ {
		if i > 0 {
			advance([]int64{0, 1, 2}[r.Intn(3)])
		}
		res, e := round(r.Intn(2) == 0)
		if misrouted(e) {
			return
		}
		rounds++
		m.Count("race.allowN-during-outage", int64(len(res)))
		if e != 0 {
			m.Inconclusive("case %d: EVAL executed during fault", idx)
			return
		}
		for _, x := range res {
			if x.granted {
				segSum += x.n
				if x.n > burst {
					m.Violate("C08:token-race:granted-n>burst:outage-"+fault, desc, "outage round %d: n=%d > burst=%d granted", i, x.n, burst)
					return
				}
			}
		}
		if bound := burst + rate*int64(clock.Sub(segStart)/time.Second); segSum > bound {
			m.Violate("C08:token-race:outage-over-admission:"+fault, desc, "fallback admitted %d tokens within %v of caller time since the outage began, bound burst+rate*t = %d (rate %d, burst %d)", segSum, clock.Sub(segStart), bound, rate, burst)
			return
		}
		fmt.Fprintf(&obs, "[%d] ", segSum)
	}
	if fault == "close" {
		if err := srv.mr.Restart(); err != nil {
			m.Count("race.restart-failed", 1)
			return
		}
		srv.install()
	} else {
		srv.errMode.Store(false)
	}
	// concurrent polling until the server executes EVALs again
	start := time.Now()
	e0 := srv.evals.Load()
	polls := 0
	for srv.evals.Load() == e0 {
		res, e := round(true)
		if misrouted(e) {
			return
		}
		polls += len(res)
		if el := time.Since(start); el > c08ReturnDeadline && polls >= 100 && srv.evals.Load() == e0 {
			if !c08Alive(srv.mr.Addr()) {
				m.Inconclusive("case %d: harness server not answering after the fault was removed", idx)
				return
			}
			c08NoReturn.Store(true)
			m.Violate("C08:token-race:no-return-to-redis:"+fault, desc, "fault removed %v ago, server answers PING, %d concurrent AllowN calls since, no EVAL executed", el.Round(time.Millisecond), polls)
			return
		}
		time.Sleep(3 * time.Millisecond)
	}
	m.Count("race.returned-to-redis", 1)
	m.Max("race.return_ms_max", time.Since(start).Milliseconds())
	// one refill period later every correct bucket is full again
	advance((burst+rate-1)/rate + 1)
	level = burst
	if !healthy(3+r.Intn(3), "after-return") {
		return
	}
	m.Case(vk.Digest(rate, burst, per, obs.String()), exactRounds > 0 && denied > 0)
	if m.WantSample() {
		m.Sample(map[string]any{"case": idx, "rate": rate, "burst": burst, "goroutines": G, "calls_each": per, "fault": fault, "rounds": rounds,
			"rounds_checked_exactly": exactRounds, "denied": denied, "per-round granted/level, [fallback cumulative]": c08Trunc(obs.String(), 160)})
	}
}
