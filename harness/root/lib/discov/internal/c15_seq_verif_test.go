//go:build verif

package internal_test

// C15 — workloads without the race detector: complete small family, seeded
// random histories, reconnect trigger through stateWatcher.updateState, Get
// failures during a reload, publishers end to end.

import (
	"fmt"
	"math/rand"
	"sort"
	"strings"
	"testing"
	"time"

	clientv3 "go.etcd.io/etcd/client/v3"

	"github.com/gotid/god/lib/discov"
	"github.com/gotid/god/lib/discov/internal"
	"github.com/gotid/god/lib/logx"
	"verif.local/vk"
)

const c15Rule = "at quiescence (nothing pending, every watch goroutine parked in its loop again): set(Subscriber.Values()) == distinct values of the model etcd's keys under the subscriber's key, no duplicates; exclusive: value listed iff its most recent publisher key is still present (owner sets where the announcement order of one snapshot is unspecified); late joiner equals the model immediately after NewSubscriber returns; listener ran and its last run saw the final set whenever the set changed"

func c15Finish(m *vk.M, w *c15World, kinds map[string]int64, sampleEvery int) {
	w.account(kinds)
	m.Case(vk.Digest(vk.JSON(w.ops)), w.nontrivial())
	if m.WantSample() && w.idx%sampleEvery == 1 {
		ops := w.ops
		if len(ops) > 30 {
			ops = ops[:30]
		}
		finals := map[string][]string{}
		for _, s := range w.subs {
			v := s.sub.Values()
			sort.Strings(v)
			finals[fmt.Sprintf("sub%d(%s,%s)", s.id, s.svc, s.mode())] = v
		}
		m.Sample(map[string]any{
			"case": w.idx, "first_ops": ops, "final_Values": finals, "model_keys": w.etcd.snapshot(w.svcs[0]),
			"delivered": w.nDelivered, "missed_until_reload": w.nMissed, "reloads": w.nReloads, "checks": w.nChecks,
			"listener_invocations": w.listenerCalls(),
		})
	}
	w.dispose()
}

func c15Wall(m *vk.M, t0 time.Time) { m.Extra("test_wall_s", time.Since(t0).Seconds()) }

func c15FlushKinds(m *vk.M, kinds map[string]int64) {
	var ks []string
	for k, v := range kinds {
		m.Count("op_"+k, v)
		ks = append(ks, k)
	}
	sort.Strings(ks)
	m.Note("operation kinds exercised: %s", strings.Join(ks, ","))
}

// TestVerifC15Systematic: complete family over a tiny universe. Keys k1->a,
// k2->a (shared value), k3->b; one plain and one exclusive subscriber attached
// first; then every word of length L over {toggle k1, toggle k2, toggle k3,
// deliver pending, reload, late-join}; undelivered events at a reload are the
// missed ones. Every word is closed by a reload so that nothing stays pending.
func TestVerifC15Systematic(t *testing.T) {
	logx.Disable()
	m := vk.New(t, "C15", "complete family: words of length L over {toggle k1(a), toggle k2(a), toggle k3(b), pump, reload, late-join} after attaching a plain and an exclusive subscriber (optionally with k1 pre-registered), closed by pump or reload; "+c15Rule)
	defer m.Done()
	defer c15Wall(m, time.Now())
	L := vk.N(4, 6)
	vals := []string{"", "a:80", "a:80", "b:80"}
	alphabet := 6
	total := 1
	for i := 0; i < L; i++ {
		total *= alphabet
	}
	kinds := map[string]int64{}
	idx := 0
	for pre := 0; pre < 2; pre++ {
		for code := 0; code < total; code++ {
			idx++
			if !m.Only(idx) {
				continue
			}
			w := newC15World(m, idx, m.Rand("sys", idx), []string{"c15.sys"})
			if w.incon {
				return
			}
			present := map[int]bool{}
			if pre == 1 {
				w.exec(c15Op{Op: "put", K: 1, V: vals[1]})
				present[1] = true
			}
			w.exec(c15Op{Op: "sub"})
			w.exec(c15Op{Op: "sub", X: true})
			c := code
			for i := 0; i < L && !w.stopped(); i++ {
				tok := c % alphabet
				c /= alphabet
				switch tok {
				case 0, 1, 2:
					k := tok + 1
					if present[k] {
						w.exec(c15Op{Op: "del", K: k})
					} else {
						w.exec(c15Op{Op: "put", K: k, V: vals[k]})
					}
					present[k] = !present[k]
				case 3:
					w.exec(c15Op{Op: "pump", M: 1})
				case 4:
					w.exec(c15Op{Op: "reload"})
				case 5:
					w.exec(c15Op{Op: "sub", X: i%2 == 1})
				}
			}
			if code%2 == 0 {
				w.exec(c15Op{Op: "pump"})
			}
			w.exec(c15Op{Op: "reload"})
			if w.incon {
				return
			}
			c15Finish(m, w, kinds, 1499)
			if idx%2000 == 0 {
				m.Progress()
			}
		}
	}
	c15FlushKinds(m, kinds)
	m.Extra("exhaustive_family", fmt.Sprintf("2 x %d^%d words", alphabet, L))
}

type c15Gen struct {
	w       *c15World
	r       *rand.Rand
	present []map[int]bool
	nKeys   []int
	pools   [][]string
	hold    bool
	trigger bool
}

func newC15Gen(w *c15World, r *rand.Rand, trigger bool) *c15Gen {
	g := &c15Gen{w: w, r: r, trigger: trigger}
	for p := range w.svcs {
		g.present = append(g.present, map[int]bool{})
		g.nKeys = append(g.nKeys, 3+r.Intn(5))
		var pool []string
		for j := 0; j < 2+r.Intn(3); j++ {
			pool = append(pool, fmt.Sprintf("10.0.%d.%d:8080", p, j+1))
		}
		if r.Intn(3) == 0 {
			// a publisher may publish the empty string; it is a value like any other (and it is
			// the zero value a map lookup yields for an absent key)
			pool[r.Intn(len(pool))] = ""
		}
		g.pools = append(g.pools, pool)
	}
	if trigger {
		w.enableTrigger()
	}
	return g
}

func (g *c15Gen) pickSvc() int {
	if len(g.w.svcs) == 1 || g.r.Intn(3) > 0 {
		return 0
	}
	return 1
}

func (g *c15Gen) putOrDel(preferPut bool) {
	p := g.pickSvc()
	var absent, present []int
	for k := 1; k <= g.nKeys[p]; k++ {
		if g.present[p][k] {
			present = append(present, k)
		} else {
			absent = append(absent, k)
		}
	}
	doPut := preferPut
	if len(absent) == 0 {
		doPut = false
	}
	if len(present) == 0 {
		doPut = true
	}
	if doPut {
		k := absent[g.r.Intn(len(absent))]
		g.w.exec(c15Op{Op: "put", P: p, K: k, V: g.pools[p][g.r.Intn(len(g.pools[p]))]})
		g.present[p][k] = true
	} else {
		k := present[g.r.Intn(len(present))]
		g.w.exec(c15Op{Op: "del", P: p, K: k})
		delete(g.present[p], k)
	}
}

func (g *c15Gen) reconnect() {
	if !g.trigger {
		g.w.exec(c15Op{Op: "reload"})
		g.hold = false
		return
	}
	if !g.w.disc {
		g.w.exec(c15Op{Op: "state", S: []string{"failure", "shutdown"}[g.r.Intn(2)]})
	}
	if g.r.Intn(3) == 0 {
		g.w.exec(c15Op{Op: "state", S: []string{"idle", "connecting", "failure"}[g.r.Intn(3)]})
	}
	g.w.exec(c15Op{Op: "state", S: "ready"})
	g.hold = false
}

func (g *c15Gen) step(i int) {
	w, r := g.w, g.r
	if len(w.subs) == 0 && (i >= 2 || r.Intn(2) == 0) {
		w.exec(c15Op{Op: "sub", P: 0, X: r.Intn(3) == 0})
		return
	}
	x := r.Intn(100)
	switch {
	case x < 30:
		g.putOrDel(true)
	case x < 48:
		g.putOrDel(false)
	case x < 74:
		if g.hold {
			if r.Intn(4) == 0 {
				g.reconnect()
			} else {
				g.putOrDel(r.Intn(2) == 0)
			}
			return
		}
		n := 0
		if r.Intn(10) < 4 && w.pending() > 1 {
			n = 1 + r.Intn(w.pending())
		}
		w.exec(c15Op{Op: "pump", N: n, M: r.Intn(3)})
	case x < 79:
		if g.trigger {
			if !w.disc {
				w.exec(c15Op{Op: "state", S: []string{"failure", "shutdown"}[r.Intn(2)]})
			}
		}
		g.hold = true
	case x < 89:
		if g.trigger && r.Intn(3) == 0 && !w.disc {
			// a state change that is not a loss must not be needed for convergence
			w.exec(c15Op{Op: "state", S: []string{"idle", "connecting", "ready"}[r.Intn(3)]})
			return
		}
		g.reconnect()
	case x < 95:
		if len(w.subs) < 5 {
			w.exec(c15Op{Op: "sub", P: g.pickSvc(), X: r.Intn(5) < 2})
		}
	default:
		if !g.hold {
			switch r.Intn(4) {
			case 0:
				w.exec(c15Op{Op: "wclose", N: r.Intn(8)})
			case 1:
				w.exec(c15Op{Op: "wcancel", N: r.Intn(8)})
			case 2:
				w.exec(c15Op{Op: "wcompact", N: r.Intn(8)})
			default:
				w.exec(c15Op{Op: "progress"})
			}
		}
	}
}

func (g *c15Gen) finish() {
	w, r := g.w, g.r
	if len(w.subs) == 0 {
		w.exec(c15Op{Op: "sub", P: 0})
	}
	if w.pending() > 0 {
		if g.hold || r.Intn(2) == 0 {
			g.reconnect()
		} else {
			w.exec(c15Op{Op: "pump", M: r.Intn(3)})
		}
	}
	if r.Intn(3) == 0 {
		g.reconnect() // a reload when nothing was missed must change nothing
	}
	if r.Intn(4) == 0 && len(w.subs) < 6 {
		w.exec(c15Op{Op: "sub", P: 0, X: r.Intn(2) == 0}) // late joiner at the very end
	}
}

func c15Services(r *rand.Rand) []string {
	if r.Intn(4) == 0 {
		return []string{"c15.users", "c15.users2"} // one key is a string prefix of the other
	}
	return []string{"c15.users"}
}

func c15RunRandom(t *testing.T, m *vk.M, salt string, n int, trigger, rekey bool) {
	kinds := map[string]int64{}
	for idx := 1; idx <= n; idx++ {
		if !m.Only(idx) {
			continue
		}
		r := m.Rand(salt, idx)
		w := newC15World(m, idx, r, c15Services(r))
		if w.incon {
			return
		}
		if idx%4 == 1 && !rekey {
			w.permuteEndpoints()
		}
		if rekey {
			// a deleted key may be registered again with another value (a publisher with a
			// fixed id that comes back on another address); every check of the family
			// reports under one phase
			w.rekey = true
			w.tag = "key-reregistered-with-new-value"
		}
		if idx%5 == 0 {
			w.etcd.base = 0 // empty etcd reports revision 0: the first watch is created without a start revision
		}
		g := newC15Gen(w, r, trigger)
		nops := 20 + r.Intn(41)
		for i := 0; i < nops && !w.stopped(); i++ {
			g.step(i)
		}
		if !w.stopped() {
			g.finish()
		}
		if w.incon {
			return
		}
		if trigger {
			m.Count("reloads_started_by_state_watcher", w.fired)
			m.Count("reloads_without_a_loss", int64(w.nSpurious))
		}
		c15Finish(m, w, kinds, 397)
		if idx%500 == 0 {
			m.Progress()
		}
	}
	c15FlushKinds(m, kinds)
}

// TestVerifC15Histories: seeded random histories (20-60 ops) of publisher
// registrations/expirations, delivered (in one response, one per event or random
// chunks; interleaved across the watch streams) or missed until a reload,
// reloads with and without missed events, subscribers attached at different
// times (plain/exclusive, one or two service keys), broken watch streams.
func TestVerifC15Histories(t *testing.T) {
	logx.Disable()
	m := vk.New(t, "C15", "seeded random histories of put/del (delivered or missed), pump, reload, attach, broken watch stream over 1-2 service keys, 3-7 keys and 2-4 values per key (values shared); "+c15Rule)
	defer m.Done()
	defer c15Wall(m, time.Now())
	c15RunRandom(t, m, "hist", vk.N(1200, 20000), false, false)
}

// TestVerifC15Rekeyed: as Histories, but a key that was deleted may be registered
// again with a different value (each life of a key still carries one value; a live
// key is never overwritten). The delete and the new registration may both be
// delivered, or both be missed - then the reload snapshot shows the same key with
// another value and the old value has to go, the new one to come.
func TestVerifC15Rekeyed(t *testing.T) {
	logx.Disable()
	m := vk.New(t, "C15", "as Histories, and a deleted key may come back with a different value (delete and re-registration delivered, or missed until a reload); "+c15Rule)
	defer m.Done()
	defer c15Wall(m, time.Now())
	c15RunRandom(t, m, "rekey", vk.N(400, 8000), false, true)
}

// TestVerifC15Reconnect: the same histories, but the reload is started by the
// real stateWatcher: connectivity states are fed to stateWatcher.updateState with
// the listener cluster.watchConnState registers (start a reload). Events while
// the connection is lost are missed.
func TestVerifC15Reconnect(t *testing.T) {
	logx.Disable()
	m := vk.New(t, "C15", "as Histories, with connection losses/recoveries fed to stateWatcher.updateState (scripted etcdConn): a Ready after TransientFailure/Shutdown must start a reload; "+c15Rule)
	defer m.Done()
	defer c15Wall(m, time.Now())
	c15RunRandom(t, m, "reconnect", vk.N(600, 6000), true, false)
}

// TestVerifC15GetRetry: the snapshot Get fails once during a reload (load()
// cools down one second and retries): the view still converges.
func TestVerifC15GetRetry(t *testing.T) {
	logx.Disable()
	m := vk.New(t, "C15", "reload whose first Get fails (injected): after the retry "+c15Rule)
	defer m.Done()
	defer c15Wall(m, time.Now())
	// The requests carry a short timeout, far shorter than the cool-down between retries
	// (1 s): a retry must be issued with a fresh deadline.
	saved := internal.RequestTimeout
	internal.RequestTimeout = 300 * time.Millisecond
	defer func() { internal.RequestTimeout = saved }()
	kinds := map[string]int64{}
	n := vk.N(2, 12)
	for idx := 1; idx <= n; idx++ {
		if !m.Only(idx) {
			continue
		}
		r := m.Rand("getretry", idx)
		w := newC15World(m, idx, r, []string{"c15.retry"})
		if w.incon {
			return
		}
		w.exec(c15Op{Op: "put", K: 1, V: "a:80"})
		w.exec(c15Op{Op: "sub", X: idx%2 == 0})
		w.exec(c15Op{Op: "put", K: 2, V: "b:80"})
		if r.Intn(2) == 0 {
			w.exec(c15Op{Op: "pump"})
		}
		w.exec(c15Op{Op: "del", K: 1})
		w.exec(c15Op{Op: "put", K: 3, V: "b:80"})
		w.exec(c15Op{Op: "getfail"})
		w.exec(c15Op{Op: "reload"})
		w.exec(c15Op{Op: "del", K: 2})
		w.exec(c15Op{Op: "reload"})
		if w.incon {
			return
		}
		c15Finish(m, w, kinds, 1)
	}
	c15FlushKinds(m, kinds)
}

// TestVerifC15EndToEnd: keys are produced by real discov.Publishers (KeepAlive /
// Stop / Pause / Resume, with and without a fixed id) talking to the model etcd;
// the resulting events are delivered or missed as above.
func TestVerifC15EndToEnd(t *testing.T) {
	logx.Disable()
	m := vk.New(t, "C15", "publishers (discov.Publisher KeepAlive/Stop/Pause/Resume) produce the keys; "+c15Rule)
	defer m.Done()
	defer c15Wall(m, time.Now())
	kinds := map[string]int64{}
	n := vk.N(60, 1500)
	for idx := 1; idx <= n; idx++ {
		if !m.Only(idx) {
			continue
		}
		r := m.Rand("e2e", idx)
		w := newC15World(m, idx, r, []string{"c15.pub"})
		if w.incon {
			return
		}
		c15EndToEnd(m, w, r)
		if w.incon {
			return
		}
		c15Finish(m, w, kinds, 17)
	}
	c15FlushKinds(m, kinds)
}

type c15Pub struct {
	p       *discov.Publisher
	lease   clientv3.LeaseID
	val     string
	running bool
	paused  bool
}

func c15EndToEnd(m *vk.M, w *c15World, r *rand.Rand) {
	svc := w.svcs[0]
	values := []string{"10.1.0.1:9000", "10.1.0.2:9000", "10.1.0.3:9000"}
	var pubs []*c15Pub
	hold := false
	// the model etcd's log is the source of truth for what publishers did: record
	// key->value for the model as the events appear
	absorb := func() {
		for _, ev := range w.etcd.events(0, w.etcd.logLen()) {
			if !ev.del {
				w.valOf[ev.key] = ev.val
				ck := svc + "|" + ev.val
				if w.carriers[ck] == nil {
					w.carriers[ck] = map[string]bool{}
				}
				w.carriers[ck][ev.key] = true
			}
		}
	}
	waitLog := func(n int, what string) bool {
		if !vk.WaitUntil(c15Watchdog, func() bool { return w.etcd.logLen() >= n }) {
			w.inconclusive("publisher %s: model etcd saw no change within %v", what, c15Watchdog)
			return false
		}
		absorb()
		return true
	}
	w.exec(c15Op{Op: "sub", X: r.Intn(2) == 0})
	steps := 8 + r.Intn(12)
	for i := 0; i < steps && !w.stopped(); i++ {
		x := r.Intn(100)
		switch {
		case x < 4:
			// a registration that fails in the etcd client: whatever it left behind (nothing,
			// or - KeepAlive failing after the Put - a key) is what subscribers must show
			what := []string{"grant", "put", "keepalive"}[r.Intn(3)]
			val := values[r.Intn(len(values))]
			w.ops = append(w.ops, c15Op{Op: "publish-fails-at-" + what, V: val})
			w.etcd.mu.Lock()
			w.etcd.failPub = what
			w.etcd.mu.Unlock()
			if err := discov.NewPublisher(w.endpoints(), svc, val).KeepAlive(); err == nil {
				w.inconclusive("injected %s failure did not surface from Publisher.KeepAlive", what)
				return
			}
			absorb()
			m.Count("publisher_registrations_failed", 1)
		case x < 30 && len(pubs) < 6:
			val := values[r.Intn(len(values))]
			var opts []discov.PubOption
			if r.Intn(3) == 0 {
				opts = append(opts, discov.WithId(int64(500+len(pubs))))
			}
			p := discov.NewPublisher(w.endpoints(), svc, val, opts...)
			before := w.etcd.logLen()
			w.ops = append(w.ops, c15Op{Op: "publish", V: val, K: len(pubs)})
			if err := p.KeepAlive(); err != nil {
				w.inconclusive("Publisher.KeepAlive: %v", err)
				return
			}
			if !waitLog(before+1, "KeepAlive") {
				return
			}
			pubs = append(pubs, &c15Pub{p: p, val: val, running: true, lease: w.etcd.lastLease()})
			m.Count("publisher_registrations", 1)
		case x < 50:
			var cand []*c15Pub
			for _, p := range pubs {
				if p.running {
					cand = append(cand, p)
				}
			}
			if len(cand) == 0 {
				continue
			}
			p := cand[r.Intn(len(cand))]
			before := w.etcd.logLen()
			wasPaused := p.paused
			w.ops = append(w.ops, c15Op{Op: "unpublish", V: p.val})
			p.p.Stop()
			p.running = false
			if !wasPaused {
				if !waitLog(before+1, "Stop") {
					return
				}
			}
			m.Count("publisher_stops", 1)
		case x < 60:
			var cand []*c15Pub
			for _, p := range pubs {
				if p.running {
					cand = append(cand, p)
				}
			}
			if len(cand) == 0 {
				continue
			}
			p := cand[r.Intn(len(cand))]
			before := w.etcd.logLen()
			if p.paused {
				w.ops = append(w.ops, c15Op{Op: "resume", V: p.val})
				p.p.Resume()
				p.paused = false
			} else {
				w.ops = append(w.ops, c15Op{Op: "pause", V: p.val})
				p.p.Pause()
				p.paused = true
			}
			if !waitLog(before+1, "Pause/Resume") {
				return
			}
			if !p.paused {
				p.lease = w.etcd.lastLease()
			}
			m.Count("publisher_pause_resume", 1)
		case x < 68:
			// the lease is lost (keep-alive channel closed): the publisher revokes it and
			// registers again under a new lease, i.e. under a new key unless it has a fixed id
			var cand []*c15Pub
			for _, p := range pubs {
				if p.running && !p.paused {
					cand = append(cand, p)
				}
			}
			if len(cand) == 0 {
				continue
			}
			p := cand[r.Intn(len(cand))]
			before := w.etcd.logLen()
			w.ops = append(w.ops, c15Op{Op: "lease-lost", V: p.val})
			if !w.etcd.loseLease(p.lease) {
				continue
			}
			if !waitLog(before+2, "re-registration after lease loss") {
				return
			}
			p.lease = w.etcd.lastLease()
			m.Count("publisher_lease_losses", 1)
		case x < 82:
			if !hold {
				w.exec(c15Op{Op: "pump", M: r.Intn(3)})
			}
		case x < 86:
			hold = true
		case x < 93:
			w.exec(c15Op{Op: "reload"})
			hold = false
		default:
			if len(w.subs) < 4 {
				w.exec(c15Op{Op: "sub", X: r.Intn(2) == 0})
			}
		}
	}
	for _, p := range pubs {
		if p.running {
			before := w.etcd.logLen()
			wasPaused := p.paused
			p.p.Stop()
			p.running = false
			if !wasPaused && !w.stopped() {
				if !waitLog(before+1, "final Stop") {
					return
				}
			}
		}
	}
	if w.stopped() {
		return
	}
	if w.pending() > 0 && !hold && r.Intn(2) == 0 {
		w.exec(c15Op{Op: "pump"})
	}
	w.exec(c15Op{Op: "reload"}) // every publisher stopped: the model etcd is empty and so must every subscriber be
}
