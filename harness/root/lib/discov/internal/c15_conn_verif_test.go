//go:build verif

package internal_test

// C15 — the reconnect trigger with a real gRPC connection: cluster.watchConnState
// and stateWatcher.watch run on a *grpc.ClientConn to a loopback gRPC server that
// the harness stops and restarts. Changes made while the connection is down are
// missed; after the connection is Ready again the registry must have reloaded.
//
// No verdict is taken from time: "the state watcher has processed the current
// connectivity state" is read from goroutine states (it is parked inside
// WaitForStateChange, which returns at once unless the connection's state equals
// the state the watcher recorded); the only timing is grpc's own reconnect
// back-off, awaited under the usual watchdog.

import (
	"net"
	"strings"
	"sync/atomic"
	"testing"
	"time"

	"google.golang.org/grpc"
	"google.golang.org/grpc/connectivity"
	"google.golang.org/grpc/credentials/insecure"

	"github.com/gotid/god/lib/discov/internal"
	"github.com/gotid/god/lib/logx"
	"verif.local/vk"
)

// c15StateWatcherParked: the connection-state watcher goroutine exists and is
// parked (in WaitForStateChange).
func c15StateWatcherParked() bool {
	for _, g := range c15Goroutines() {
		if strings.Contains(g.text, c15StateWatchFn) {
			return g.state == "select" || g.state == "chan receive"
		}
		if strings.Contains(g.text, "(*cluster).watchConnState") {
			return false // started, not yet in the watch loop
		}
	}
	// no goroutine is (or is going to be) watching the connection state: nothing will ever
	// react to a state change - as settled as it gets
	return true
}

// c15Stable: cond holds on 5 consecutive polls.
func c15Stable(d time.Duration, cond func() bool) bool {
	run := 0
	return vk.WaitUntil(d, func() bool {
		if cond() {
			run++
		} else {
			run = 0
		}
		return run >= 5
	})
}

func c15RealConn(m *vk.M, w *c15World, kinds map[string]int64) {
	r := w.r
	lis, err := net.Listen("tcp", "127.0.0.1:0")
	if err != nil {
		w.inconclusive("loopback listen: %v", err)
		return
	}
	addr := lis.Addr().String()
	srv := grpc.NewServer()
	go srv.Serve(lis)
	defer func() { srv.Stop() }()
	cc, err := grpc.Dial(addr, grpc.WithTransportCredentials(insecure.NewCredentials()))
	if err != nil {
		w.inconclusive("grpc.Dial: %v", err)
		return
	}
	defer cc.Close()
	cc.Connect()
	if !vk.WaitUntil(c15Watchdog, func() bool { return cc.GetState() == connectivity.Ready }) {
		w.inconclusive("loopback connection did not become Ready")
		return
	}
	w.etcd.conn = cc
	w.tag = "after-reconnect-real-connection"
	g := newC15Gen(w, r, false)
	for i := r.Intn(3); i > 0; i-- {
		g.putOrDel(true)
	}
	w.exec(c15Op{Op: "sub", X: r.Intn(3) == 0})
	if r.Intn(2) == 0 {
		w.exec(c15Op{Op: "sub", X: r.Intn(2) == 0})
	}
	if w.stopped() {
		return
	}
	if !internal.C15WatchConnState(w.eps, w.etcd) {
		w.inconclusive("no cluster to watch the connection for")
		return
	}
	if !c15Stable(c15Watchdog, func() bool { return cc.GetState() == connectivity.Ready && c15StateWatcherParked() }) {
		w.inconclusive("connection-state watcher did not settle on Ready")
		return
	}
	for i := 0; i < 3 && !w.stopped(); i++ {
		g.putOrDel(r.Intn(2) == 0)
		w.exec(c15Op{Op: "pump", M: r.Intn(3)})
	}
	for round := 0; round < 1+r.Intn(2) && !w.stopped(); round++ {
		// connection loss
		w.ops = append(w.ops, c15Op{Op: "server-down"})
		srv.Stop()
		// the loss is visible on the connection for a while (grpc backs off about a second
		// before it redials); normally the state watcher settles on it at once
		settled := c15Stable(c15Watchdog, func() bool {
			cc.Connect()
			return cc.GetState() == connectivity.TransientFailure && c15StateWatcherParked()
		})
		if !settled {
			if !c15Stable(c15Watchdog, func() bool { cc.Connect(); return cc.GetState() == connectivity.TransientFailure }) {
				w.inconclusive("connection did not report TransientFailure")
				return
			}
			m.Count("state_watcher_not_settled_on_loss", 1)
		}
		for i := 1 + r.Intn(4); i > 0; i-- {
			g.putOrDel(r.Intn(2) == 0) // missed: the watch is down
		}
		nb := w.etcd.watchCount()
		expected := internal.C15ListenedKeys(w.eps)
		gets, _, _, _ := w.etcd.counters()
		// recovery
		w.ops = append(w.ops, c15Op{Op: "server-up"})
		lis2, err := net.Listen("tcp", addr)
		if err != nil {
			w.inconclusive("cannot listen on %s again: %v", addr, err)
			return
		}
		srv = grpc.NewServer()
		go srv.Serve(lis2)
		if !c15Stable(2*c15Watchdog, func() bool {
			cc.Connect()
			return cc.GetState() == connectivity.Ready
		}) {
			w.inconclusive("connection did not come back to Ready")
			return
		}
		// The connection is Ready again after a loss that was visible for a long time.
		// Either the reload shows (snapshot Gets, new watches), or - decisive - the state
		// watcher is parked on Ready, every goroutine of the package is parked and no Get
		// was made; or the whole watchdog passes with the connection constantly Ready, no
		// Get, and the state watcher never once seen parked (it spins or is stuck).
		noReload := false
		samples, parkedSamples, readyAll := 0, 0, true
		reloaded := c15Stable(c15Watchdog, func() bool {
			if w.etcd.watchCount() >= nb+expected {
				return true
			}
			samples++
			ready := cc.GetState() == connectivity.Ready
			parked := c15StateWatcherParked()
			if !ready {
				readyAll = false
			}
			if parked {
				parkedSamples++
			}
			g2, _, _, _ := w.etcd.counters()
			if g2 == gets && ready && parked && c15WatchersIdle(0) {
				noReload = true
				return true
			}
			noReload = false
			return false
		})
		if !reloaded && w.etcd.watchCount() < nb+expected {
			g2, _, _, _ := w.etcd.counters()
			if g2 == gets && readyAll && parkedSamples == 0 && samples >= 50 {
				w.violate("C15:reconnect:no-reload:real-connection", "the gRPC connection went Ready -> TransientFailure -> Ready and stayed Ready for %v (%d samples), but no reload was started (no snapshot Get) and the state watcher goroutine was never seen waiting for the next state change (it spins or is stuck); %d changes made while down stay invisible", c15Watchdog, samples, w.pending())
				return
			}
			w.inconclusive("no reload evidence within %v after the connection recovered (ready all the time=%v, watcher parked in %d of %d samples)", c15Watchdog, readyAll, parkedSamples, samples)
			return
		}
		if noReload && w.etcd.watchCount() < nb+expected {
			w.violate("C15:reconnect:no-reload:real-connection", "the gRPC connection went Ready -> TransientFailure -> Ready (state watcher settled on Ready) but no reload was started: no snapshot Get, all watch goroutines parked; %d changes made while down stay invisible (state watcher seen waiting while the connection reported the failure: %v)", w.pending(), settled)
			return
		}
		m.Count("real_connection_losses_and_recoveries", 1)
		w.afterReload(nb, expected, "after-reconnect-real-connection")
		for i := 0; i < 2 && !w.stopped(); i++ {
			g.putOrDel(r.Intn(2) == 0)
			w.exec(c15Op{Op: "pump", M: r.Intn(3)})
		}
	}
}

func TestVerifC15RealConnState(t *testing.T) {
	logx.Disable()
	m := vk.New(t, "C15", "cluster.watchConnState + stateWatcher.watch on a real *grpc.ClientConn to a loopback server that is stopped (changes missed) and restarted: a reload follows the recovery; "+c15Rule)
	defer m.Done()
	defer c15Wall(m, time.Now())
	kinds := map[string]int64{}
	n := vk.N(2, 12)
	for idx := 1; idx <= n; idx++ {
		if !m.Only(idx) {
			continue
		}
		r := m.Rand("realconn", idx)
		w := newC15World(m, idx, r, []string{"c15.conn"})
		if w.incon {
			return
		}
		c15RealConn(m, w, kinds)
		if w.incon {
			return
		}
		c15Finish(m, w, kinds, 1)
	}
	c15FlushKinds(m, kinds)
}

// ---- scripted connection: transitions that complete between two calls of the watcher

func c15QuickReconnect(m *vk.M, w *c15World) {
	r := w.r
	w.tag = "after-quick-reconnect"
	g := newC15Gen(w, r, false)
	for i := r.Intn(3); i > 0; i-- {
		g.putOrDel(true)
	}
	w.exec(c15Op{Op: "sub", X: r.Intn(3) == 0})
	if r.Intn(2) == 0 {
		w.exec(c15Op{Op: "sub", X: r.Intn(2) == 0})
	}
	if w.stopped() {
		return
	}
	conn := internal.C15NewScriptConn(connectivity.Ready)
	internal.C15WatchScripted(conn, func() {
		atomic.AddInt64(&w.fired, 1)
		go func() {
			internal.C15Reload(w.eps, w.etcd)
			w.reloaded <- struct{}{}
		}()
	})
	settle := func(want connectivity.State) bool {
		return vk.WaitUntil(c15Watchdog, func() bool {
			s, parked, _ := conn.Settled()
			return s == want && parked
		})
	}
	if !settle(connectivity.Ready) {
		w.inconclusive("state watcher did not start waiting on the scripted connection")
		return
	}
	rounds := 1 + r.Intn(3)
	for round := 0; round < rounds && !w.stopped(); round++ {
		for i := 0; i < 2 && !w.stopped(); i++ {
			g.putOrDel(r.Intn(2) == 0)
			w.exec(c15Op{Op: "pump", M: r.Intn(3)})
		}
		if w.stopped() {
			return
		}
		for i := 1 + r.Intn(3); i > 0; i-- {
			g.putOrDel(r.Intn(2) == 0) // missed: the connection is about to be lost
		}
		nb := w.etcd.watchCount()
		expected := internal.C15ListenedKeys(w.eps)
		before := atomic.LoadInt64(&w.fired)
		_, _, reads0 := conn.Settled()
		quick := r.Intn(3) > 0
		if quick {
			// the connection is Ready again as soon as the watcher has read TransientFailure
			w.ops = append(w.ops, c15Op{Op: "conn", S: "failure, ready again right after the watcher read it"})
			conn.FlipAfterRead(connectivity.TransientFailure, connectivity.Ready)
			conn.Set(connectivity.TransientFailure)
		} else {
			w.ops = append(w.ops, c15Op{Op: "conn", S: "failure, connecting, ready (each after the watcher settled)"})
			conn.Set(connectivity.TransientFailure)
			if !settle(connectivity.TransientFailure) {
				w.inconclusive("state watcher did not settle on TransientFailure")
				return
			}
			conn.Set(connectivity.Connecting)
			if !settle(connectivity.Connecting) {
				w.inconclusive("state watcher did not settle on Connecting")
				return
			}
			conn.Set(connectivity.Ready)
		}
		// Decisive state: the connection is Ready and the watcher is parked waiting for Ready
		// to change - it will do nothing more until the next transition.
		if !settle(connectivity.Ready) {
			w.inconclusive("state watcher did not settle on Ready after the reconnect")
			return
		}
		_, _, reads1 := conn.Settled()
		sawLoss := reads1[connectivity.TransientFailure] > reads0[connectivity.TransientFailure]
		got := int(atomic.LoadInt64(&w.fired) - before)
		if got == 0 {
			w.violate("C15:reconnect:no-reload:quick-reconnect", "the connection went Ready -> TransientFailure -> Ready (quick=%v; the watcher read TransientFailure: %v) and the state watcher is parked waiting for Ready to change, but it never started a reload; %d changes made while down stay invisible", quick, sawLoss, w.pending())
			return
		}
		if got > 1 {
			w.inconclusive("state watcher started %d reloads for one reconnect", got)
			return
		}
		select {
		case <-w.reloaded:
		case <-time.After(c15Watchdog):
			w.reloadBlocked("reload started by the state watcher (scripted connection)")
			return
		}
		m.Count("scripted_reconnects", 1)
		if quick {
			m.Count("scripted_reconnects_between_two_watcher_calls", 1)
		}
		w.afterReload(nb, expected, "after-quick-reconnect")
	}
}

func TestVerifC15QuickReconnect(t *testing.T) {
	logx.Disable()
	m := vk.New(t, "C15", "the real stateWatcher.watch loop on a scripted connection with gRPC's WaitForStateChange semantics; losses whose recovery completes right after the watcher read TransientFailure (between two of its calls) and slow ones; once the watcher is parked on Ready a reload must have been started; then "+c15Rule)
	defer m.Done()
	defer c15Wall(m, time.Now())
	kinds := map[string]int64{}
	n := vk.N(80, 2000)
	for idx := 1; idx <= n; idx++ {
		if !m.Only(idx) {
			continue
		}
		r := m.Rand("quickreconnect", idx)
		w := newC15World(m, idx, r, []string{"c15.quick"})
		if w.incon {
			return
		}
		c15QuickReconnect(m, w)
		if w.incon {
			return
		}
		c15Finish(m, w, kinds, 13)
	}
	c15FlushKinds(m, kinds)
}
