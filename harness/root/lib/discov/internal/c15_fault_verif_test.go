//go:build verif

package internal_test

// C15 — two more families.
//
// RetryAfterDialFailure: the first NewSubscriber for a key fails while the etcd
// client is created (the endpoints are a closed loopback port, DialTimeout
// shortened); then etcd "comes up" (the model etcd is bound to the endpoints) and
// the usual retry, a second NewSubscriber for the same endpoints and key, must
// see the current set and follow later changes.
//
// ReaderStorm (also under -race): reader goroutines spin on Values() all the
// time while events are delivered one response at a time; after every response,
// once the watch goroutine is parked again, Values() must equal the model. The
// readers' own results assert nothing.

import (
	"fmt"
	"sync"
	"sync/atomic"
	"testing"
	"time"

	"github.com/gotid/god/lib/discov"
	"github.com/gotid/god/lib/discov/internal"
	"github.com/gotid/god/lib/logx"
	"verif.local/vk"
)

var c15ClosedPort int64 = 1

func TestVerifC15RetryAfterDialFailure(t *testing.T) {
	logx.Disable()
	m := vk.New(t, "C15", "first NewSubscriber of a key fails in the etcd client creation (closed loopback port, short DialTimeout); the model etcd is then bound to the endpoints; the second NewSubscriber for the same endpoints and key and every later one: "+c15Rule)
	defer m.Done()
	defer c15Wall(m, time.Now())
	saved := internal.DialTimeout
	internal.DialTimeout = 300 * time.Millisecond
	defer func() { internal.DialTimeout = saved }()
	kinds := map[string]int64{}
	n := vk.N(3, 25)
	for idx := 1; idx <= n; idx++ {
		if !m.Only(idx) {
			continue
		}
		r := m.Rand("dialfail", idx)
		port := atomic.AddInt64(&c15ClosedPort, 1)
		eps := []string{fmt.Sprintf("127.0.0.1:%d", port)}
		w := newC15WorldUnbound(m, idx, r, []string{"c15.retry"}, eps)
		if w.incon {
			return
		}
		w.tag = "retry-after-dial-failure"
		g := newC15Gen(w, r, false)
		for i := 1 + r.Intn(3); i > 0; i-- {
			g.putOrDel(true) // publishers are already registered
		}
		w.ops = append(w.ops, c15Op{Op: "sub-fails-in-dial", X: idx%2 == 0})
		var sub *discov.Subscriber
		var err error
		if !vk.Within(c15Watchdog, func() { sub, err = discov.NewSubscriber(w.endpoints(), w.svcs[0]) }) {
			m.Inconclusive("case %d: NewSubscriber against a closed port did not return within %v", idx, c15Watchdog)
			return
		}
		if err == nil || sub != nil {
			m.Inconclusive("case %d: NewSubscriber against %v unexpectedly succeeded (something listens there)", idx, eps)
			return
		}
		m.Count("first_subscriptions_failed_in_dial", 1)
		if e := internal.C15Inject(w.eps, w.etcd); e != nil {
			m.Inconclusive("case %d: cannot bind the model etcd after the failure: %v", idx, e)
			return
		}
		// the retry
		w.exec(c15Op{Op: "sub", X: idx%2 == 0})
		for i := 0; i < 6 && !w.stopped(); i++ {
			g.putOrDel(r.Intn(2) == 0)
			if r.Intn(2) == 0 {
				w.exec(c15Op{Op: "pump", M: r.Intn(3)})
			}
			if i == 2 {
				w.exec(c15Op{Op: "sub", X: r.Intn(2) == 0})
			}
		}
		if !w.stopped() {
			w.exec(c15Op{Op: "pump"})
			w.exec(c15Op{Op: "reload"})
		}
		if w.incon {
			return
		}
		c15Finish(m, w, kinds, 1)
	}
	c15FlushKinds(m, kinds)
}

func c15ReaderStorm(m *vk.M, n int) {
	kinds := map[string]int64{}
	var reads int64
	for idx := 1; idx <= n; idx++ {
		if !m.Only(idx) {
			continue
		}
		r := m.Rand("readers", idx)
		w := newC15World(m, idx, r, []string{"c15.readers"})
		if w.incon {
			return
		}
		w.tag = "concurrent-readers"
		g := newC15Gen(w, r, false)
		for i := r.Intn(3); i > 0; i-- {
			g.putOrDel(true)
		}
		w.exec(c15Op{Op: "sub", X: idx%3 == 0})
		if r.Intn(2) == 0 {
			w.exec(c15Op{Op: "sub", X: r.Intn(2) == 0})
		}
		w.exec(c15Op{Op: "reload"}) // one stream
		var stop atomic.Bool
		var wg sync.WaitGroup
		subs := append([]*c15Sub(nil), w.subs...)
		for i := 0; i < 4; i++ {
			wg.Add(1)
			go func(i int) {
				defer wg.Done()
				var n int64
				for !stop.Load() {
					_ = subs[(i+int(n))%len(subs)].sub.Values()
					n++
				}
				atomic.AddInt64(&reads, n)
			}(i)
		}
		steps := 40 + r.Intn(40)
		for i := 0; i < steps && !w.stopped(); i++ {
			g.putOrDel(r.Intn(2) == 0)
			if r.Intn(4) == 0 {
				g.putOrDel(r.Intn(2) == 0)
			}
			w.exec(c15Op{Op: "pump", M: 1}) // one response per event, oracle after each pump
		}
		stop.Store(true)
		wg.Wait()
		if !w.stopped() {
			w.check("concurrent-readers")
		}
		if w.incon {
			return
		}
		c15Finish(m, w, kinds, 7)
	}
	m.Count("concurrent_Values_reads", atomic.LoadInt64(&reads))
	c15FlushKinds(m, kinds)
}

func TestVerifC15ReaderStorm(t *testing.T) {
	logx.Disable()
	m := vk.New(t, "C15", "4 goroutines spin on Values() while events are delivered one response at a time; after each response, with the watch goroutine parked again: "+c15Rule)
	defer m.Done()
	defer c15Wall(m, time.Now())
	c15ReaderStorm(m, vk.N(40, 600))
}

// TestVerifC15RaceReaderStorm: the same under the race detector.
func TestVerifC15RaceReaderStorm(t *testing.T) {
	logx.Disable()
	m := vk.New(t, "C15", "reader storm under the race detector; "+c15Rule)
	defer m.Done()
	defer c15Wall(m, time.Now())
	c15ReaderStorm(m, vk.N(15, 200))
}
