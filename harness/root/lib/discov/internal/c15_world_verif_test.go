//go:build verif

package internal_test

// C15 — scenario runtime and oracle (DESIGN.md §3 C15).
//
// A world is one cluster (unique endpoints) bound to a model etcd, a set of real
// discov.Subscribers and the reference model. Events appended to the model
// etcd's log are *pending* until the harness either pumps them to the live
// watchers (delivered) or a reload happens (they were missed: only the reload
// snapshot shows them). The oracle runs only at quiescence: nothing pending and
// every watch goroutine is parked in its loop again.

import (
	"fmt"
	"math/rand"
	"sort"
	"strconv"
	"strings"
	"sync"
	"sync/atomic"
	"time"

	clientv3 "go.etcd.io/etcd/client/v3"
	"google.golang.org/grpc/connectivity"

	"github.com/gotid/god/lib/discov"
	"github.com/gotid/god/lib/discov/internal"
	"verif.local/vk"
)

type c15Op struct {
	Op string `json:"op"`          // sub put del pump reload wclose wcancel state getfail
	P  int    `json:"p,omitempty"` // service index
	K  int    `json:"k,omitempty"` // key id
	V  string `json:"v,omitempty"` // value (put)
	X  bool   `json:"x,omitempty"` // exclusive (sub)
	N  int    `json:"n,omitempty"` // pump: number of pending events (0 = all); wclose: watcher index
	M  int    `json:"m,omitempty"` // pump: batching mode 0 one response, 1 one per event, 2 random chunks
	S  string `json:"s,omitempty"` // connectivity state (state)
}

type c15Sub struct {
	id   int
	svc  string
	excl bool
	sub  *discov.Subscriber

	mu    sync.Mutex
	calls int64
	last  []string
	gate  *c15Gate

	// reference model for exclusive mode: value -> possible owner keys ("" = the
	// value is not retained). More than one member = the order in which the
	// registry announced keys of one snapshot is unspecified.
	own     map[string]map[string]bool
	tainted bool

	prevCalls   int64
	prevVisible map[string]bool // nil = unknown/ambiguous
}

// c15Gate parks the change listener (which runs on the watch goroutine) at one
// chosen invocation until the harness releases it.
type c15Gate struct {
	at      int64
	entered chan struct{}
	release chan struct{}
}

func (s *c15Sub) listener() {
	s.mu.Lock()
	s.calls++
	n, g := s.calls, s.gate
	s.last = s.sub.Values()
	s.mu.Unlock()
	if g != nil && n == g.at {
		close(g.entered)
		select {
		case <-g.release:
		case <-time.After(6 * c15Watchdog):
		}
	}
}

func (s *c15Sub) mAdd(keys []string, val string) {
	o := map[string]bool{}
	for _, k := range keys {
		o[k] = true
	}
	s.own[val] = o
}

func (s *c15Sub) mDel(key, val string) {
	if o := s.own[val]; o[key] {
		delete(o, key)
		o[""] = true
	}
}

func (s *c15Sub) mode() string {
	switch {
	case !s.excl:
		return "plain"
	case s.tainted:
		return "exclusive-weak"
	}
	return "exclusive"
}

var c15WorldSeq int64

type c15World struct {
	m    *vk.M
	idx  int
	r    *rand.Rand
	eps  []string
	etcd *c15Etcd
	svcs []string
	subs []*c15Sub
	live []*c15Watch

	delivered int                          // log index: events below were delivered or covered by a snapshot
	known     map[string]map[string]string // svc -> key -> value the cluster knows (model of the diff base)
	valOf     map[string]string            // key -> its value (one per key; per life of the key when rekey is set)
	permute   bool                         // subscribers name the endpoints in different orders
	rekey     bool                         // a key may come back with another value after it was deleted
	carriers  map[string]map[string]bool   // svc|value -> keys that ever carried it

	ops    []c15Op
	failed bool   // a violation was recorded: stop the scenario
	incon  bool   // a watchdog fired: stop the test
	wedged bool   // the cluster is deadlocked: it cannot be disposed
	tag    string // once set (gated schedule families): the phase reported by every later check

	trig     *internal.C15Trigger
	fired    int64
	reloaded chan struct{}
	disc     bool

	nDelivered, nMissed, nReloads, nReloadsAfterMiss, nAttach, nLate, nChecks, nAmbig, nRewatch, nSpurious int
}

func newC15World(m *vk.M, idx int, r *rand.Rand, svcs []string) *c15World {
	n := atomic.AddInt64(&c15WorldSeq, 1)
	if c15Wedged.Load() {
		m.Note("case %d not run: a goroutine of this process is stuck inside the package since an earlier scenario (see violations)", idx)
		return &c15World{m: m, idx: idx, r: r, svcs: svcs, incon: true, wedged: true}
	}
	w := &c15World{
		m: m, idx: idx, r: r,
		eps:      []string{fmt.Sprintf("c15-%d-a.verif:2379", n), fmt.Sprintf("c15-%d-b.verif:2379", n)},
		etcd:     newC15Etcd(),
		svcs:     svcs,
		known:    map[string]map[string]string{},
		valOf:    map[string]string{},
		carriers: map[string]map[string]bool{},
		reloaded: make(chan struct{}, 16),
	}
	sorted := append([]string(nil), w.eps...)
	sort.Strings(sorted)
	if err := internal.C15Inject(sorted, w.etcd); err != nil {
		m.Inconclusive("case %d: cannot inject the model etcd: %v", idx, err)
		w.incon = true
	}
	return w
}

// newC15WorldUnbound: a world whose endpoints are not bound to the model etcd
// yet (the first client creation dials them for real).
func newC15WorldUnbound(m *vk.M, idx int, r *rand.Rand, svcs []string, eps []string) *c15World {
	if c15Wedged.Load() {
		return &c15World{m: m, idx: idx, r: r, svcs: svcs, incon: true, wedged: true}
	}
	return &c15World{
		m: m, idx: idx, r: r,
		eps:      eps,
		etcd:     newC15Etcd(),
		svcs:     svcs,
		known:    map[string]map[string]string{},
		valOf:    map[string]string{},
		carriers: map[string]map[string]bool{},
		reloaded: make(chan struct{}, 16),
	}
}

// endpoints returns the host list a caller passes to NewSubscriber/NewPublisher. In a
// world with permuted endpoints the first subscriber names the hosts in non-sorted order
// (w.eps, which is also what the harness uses wherever production code acts on "the
// cluster that created the client": reload, connection-state watcher), later callers in
// a random order: the same host set is the same cluster.
func (w *c15World) endpoints() []string {
	out := append([]string(nil), w.eps...)
	if w.permute && len(w.subs) > 0 && w.r.Intn(3) > 0 {
		sort.Strings(out)
	}
	return out
}

// permuteEndpoints must be called before the first subscriber attaches.
func (w *c15World) permuteEndpoints() {
	if len(w.subs) > 0 || w.incon {
		return
	}
	w.permute = true
	sort.Sort(sort.Reverse(sort.StringSlice(w.eps)))
	w.tag = "endpoints-in-different-order"
}

func (w *c15World) dispose() {
	if w.wedged {
		return
	}
	if !vk.Within(c15Watchdog, func() { internal.C15Dispose(w.eps) }) {
		// clean-up only: the watch goroutines did not stop; later scenarios of this process
		// could not observe quiescence
		c15Wedged.Store(true)
		w.m.Note("case %d: the cluster's watch goroutines did not stop at clean-up", w.idx)
	}
}

func (w *c15World) desc() string {
	return fmt.Sprintf("case=%d;%s", w.idx, vk.JSON(map[string]any{"services": w.svcs, "ops": w.ops}))
}

func (w *c15World) stopped() bool { return w.failed || w.incon }

func (w *c15World) violate(sig, format string, a ...any) {
	w.failed = true
	w.m.Violate(sig, w.desc(), format, a...)
}

func (w *c15World) inconclusive(format string, a ...any) {
	w.incon = true
	w.m.Inconclusive("case %d: %s", w.idx, fmt.Sprintf(format, a...))
}

func c15Key(svc string, k int) string { return svc + "/" + strconv.Itoa(1000+k) }

func c15SvcOf(key string) string {
	if i := strings.LastIndexByte(key, '/'); i >= 0 {
		return key[:i]
	}
	return key
}

func (w *c15World) pending() int { return w.etcd.logLen() - w.delivered }

func (w *c15World) subsOf(svc string) []*c15Sub {
	var out []*c15Sub
	for _, s := range w.subs {
		if s.svc == svc {
			out = append(out, s)
		}
	}
	return out
}

// c15Wedged: a goroutine of this process is stuck for good inside the package
// (lock never released): the remaining scenarios of the process cannot run.
var c15Wedged atomic.Bool

// lockStuck returns the stack of a goroutine that is inside the package (frame
// containing marker) and parked on a mutex.
func c15LockStuck(marker string) string {
	for _, g := range c15Goroutines() {
		if strings.Contains(g.text, marker) && strings.Contains(g.text, c15Pkg) &&
			(strings.Contains(g.text, "sync.(*Mutex).Lock") || strings.Contains(g.text, "sync.(*RWMutex).")) {
			return g.text
		}
	}
	return ""
}

// newSubscriber runs discov.NewSubscriber under the watchdog. A call that does
// not return while its goroutine is parked on a mutex of the package, with
// nothing else running in the package, is a subscriber that can never join.
func (w *c15World) newSubscriber(svc string, excl bool) (*discov.Subscriber, bool) {
	var opts []discov.SubOption
	if excl {
		opts = append(opts, discov.Exclusive())
	}
	var sub *discov.Subscriber
	var err error
	g0, f0, _, _ := w.etcd.counters()
	d0 := w.etcd.deadGets()
	if !vk.Within(c15Watchdog, func() { sub, err = discov.NewSubscriber(w.endpoints(), svc, opts...) }) {
		w.wedged = true
		c15Wedged.Store(true)
		if dead := w.etcd.deadGets() - d0; dead >= 3 {
			w.violate("C15:attach:hang:dead-context-gets", "NewSubscriber(%q) did not return within %v; the model etcd is healthy, but %d snapshot Gets arrived with an already expired context", svc, c15Watchdog, dead)
			return nil, false
		}
		g1, f1, _, _ := w.etcd.counters()
		if answered := (g1 - g0) - (f1 - f0); answered >= 3 {
			w.violate("C15:attach:hang:snapshot-not-accepted", "NewSubscriber(%q) did not return within %v although the model etcd answered %d snapshot Gets successfully meanwhile: the subscriber can never join", svc, c15Watchdog, answered)
			return nil, false
		}
		if st := c15LockStuck("discov.NewSubscriber"); st != "" {
			w.violate("C15:attach:hang:cluster-lock", "NewSubscriber(%q) did not return within %v: its goroutine is parked on a lock of the registry that nobody is going to release:\n%s", svc, c15Watchdog, c15Trim(st, 1800))
		} else {
			w.inconclusive("NewSubscriber(%q) did not return within %v", svc, c15Watchdog)
		}
		return nil, false
	}
	if err != nil {
		w.inconclusive("NewSubscriber failed: %v", err)
		return nil, false
	}
	return sub, true
}

// ---- operations

func (w *c15World) put(svcIdx, k int, val string) {
	key := c15Key(w.svcs[svcIdx], k)
	if v, ok := w.valOf[key]; ok && !w.rekey {
		val = v // a key carries one value (property quantifier)
	} else {
		w.valOf[key] = val // first life, or (rekey) a new life of the key with possibly another value
	}
	shown := val
	if val == "" {
		shown = "(empty string)"
	}
	w.ops = append(w.ops, c15Op{Op: "put", P: svcIdx, K: k, V: shown})
	ck := w.svcs[svcIdx] + "|" + val
	if w.carriers[ck] == nil {
		w.carriers[ck] = map[string]bool{}
	}
	w.carriers[ck][key] = true
	w.etcd.put(key, val)
}

func (w *c15World) del(svcIdx, k int) {
	w.ops = append(w.ops, c15Op{Op: "del", P: svcIdx, K: k})
	w.etcd.del(c15Key(w.svcs[svcIdx], k))
}

func (w *c15World) applyDelivered(ev c15Ev) {
	svc := c15SvcOf(ev.key)
	if w.known[svc] == nil {
		w.known[svc] = map[string]string{}
	}
	old, had := w.known[svc][ev.key]
	if ev.del {
		delete(w.known[svc], ev.key)
	} else {
		w.known[svc][ev.key] = ev.val
	}
	for _, s := range w.subsOf(svc) {
		if !s.excl {
			continue
		}
		if ev.del {
			if had {
				s.mDel(ev.key, old)
			}
		} else {
			s.mAdd([]string{ev.key}, ev.val)
		}
	}
}

// pump delivers the pending events below log index upto to every live watcher
// (each from its own cursor, so a watcher that re-subscribed from an older
// revision gets the replay etcd would send), interleaving the watchers, then
// waits until every watcher has processed what it was handed.
func (w *c15World) pump(upto, mode int) bool {
	if n := w.etcd.logLen(); upto > n {
		upto = n
	}
	type queue struct {
		lw    *c15Watch
		resps []clientv3.WatchResponse
	}
	var qs []*queue
	for _, lw := range w.live {
		if lw.cursor >= upto {
			continue
		}
		var evs []c15Ev
		for _, ev := range w.etcd.events(lw.cursor, upto) {
			if lw.wants(ev) {
				evs = append(evs, ev)
			}
		}
		lw.cursor = upto
		q := &queue{lw: lw}
		for len(evs) > 0 {
			n := len(evs)
			switch mode {
			case 1:
				n = 1
			case 2:
				n = 1 + w.r.Intn(len(evs))
			}
			q.resps = append(q.resps, c15Response(evs[:n], 0))
			evs = evs[n:]
		}
		if len(q.resps) > 0 {
			qs = append(qs, q)
		}
	}
	for len(qs) > 0 {
		i := w.r.Intn(len(qs))
		q := qs[i]
		if ok, _ := c15Send(q.lw, q.resps[0]); !ok {
			w.inconclusive("watcher %d did not take an event within %v", q.lw.id, c15Watchdog)
			return false
		}
		w.nDelivered += len(q.resps[0].Events)
		q.resps = q.resps[1:]
		if len(q.resps) == 0 {
			qs = append(qs[:i], qs[i+1:]...)
		}
	}
	if !w.quiesce() {
		return false
	}
	if upto > w.delivered {
		for _, ev := range w.etcd.events(w.delivered, upto) {
			w.applyDelivered(ev)
		}
		w.delivered = upto
	}
	return true
}

// quiesce waits until every watch goroutine of the package is parked in its
// loop again, i.e. everything handed to it has been processed.
func (w *c15World) quiesce() bool {
	min := 0
	if len(w.live) > 0 {
		min = 1
	}
	if !vk.WaitUntil(c15Watchdog, func() bool { return c15WatchersIdle(min) }) {
		w.wedged = true
		c15Wedged.Store(true)
		if st := c15AllStuckOnMutex(); st != "" {
			w.violate("C15:watch:hang:cluster-lock", "watch goroutines did not return to their loop within %v: every goroutine of the package that is not waiting for events is parked on a mutex nobody is going to release (the harness holds none and no listener is held back); what was delivered can never be processed:\n%s", c15Watchdog, c15Trim(st, 1800))
			return false
		}
		w.inconclusive("watch goroutines did not return to their loop within %v", c15Watchdog)
		return false
	}
	return true
}

// c15PkgGoroutines: goroutines inside the package (or spawned for it), without
// the connection-state watcher.
func c15PkgGoroutines() []c15G {
	var out []c15G
	for _, g := range c15Goroutines() {
		if (strings.Contains(g.text, c15Pkg) || strings.Contains(g.text, c15RunFn)) && !strings.Contains(g.text, c15StateWatchFn) {
			out = append(out, g)
		}
	}
	return out
}

func c15IsIdle(g c15G) bool {
	return (g.state == "select" || g.state == "chan receive") && strings.HasPrefix(g.top, c15Pkg)
}

func c15OnMutex(g c15G) bool {
	return strings.Contains(g.text, "sync.(*Mutex).Lock") || strings.Contains(g.text, "sync.(*RWMutex).")
}

// c15AllStuckOnMutex: at least one package goroutine is not idle, all non-idle
// ones are parked on a mutex, and none of them is inside a harness callback
// (gate). Returns the stack of one of them, or "".
func c15AllStuckOnMutex() string {
	st := ""
	for _, g := range c15PkgGoroutines() {
		if c15IsIdle(g) {
			continue
		}
		if !c15OnMutex(g) || strings.Contains(g.text, "internal_test.(*c15Sub).listener") {
			return ""
		}
		st = g.text
	}
	return st
}

// progress makes every live watcher take an etcd progress notification (a
// response without events).
func (w *c15World) progress() bool {
	rev := w.etcd.rev()
	for _, lw := range w.live {
		if ok, _ := c15Send(lw, c15Response(nil, rev)); !ok {
			w.inconclusive("watcher %d did not take the progress notification within %v", lw.id, c15Watchdog)
			return false
		}
	}
	return w.quiesce()
}

// waitWatches waits for n Watch calls. It is called after reload/NewSubscriber
// returned, i.e. after the watch goroutines were spawned. If instead every watch
// goroutine is (repeatedly) seen parked in its loop while fewer calls were made,
// nobody is going to call Watch any more: go on with the watchers that exist -
// events of an unwatched key reach nobody and the oracle decides.
func (w *c15World) waitWatches(n int, what string) bool {
	ok := w.waitWatchCalls(n, what)
	if bad := w.etcd.takeBadWatches(); len(bad) > 0 && !w.failed {
		w.violate("C15:watch:start-revision", "%s: %s", what, strings.Join(bad, "; "))
		return false
	}
	return ok
}

func (w *c15World) waitWatchCalls(n int, what string) bool {
	g0, f0, _, _ := w.etcd.counters()
	d0 := w.etcd.deadGets()
	idleRuns := 0
	ok := vk.WaitUntil(c15Watchdog, func() bool {
		if w.etcd.watchCount() >= n {
			return true
		}
		if c15WatchersIdle(0) {
			idleRuns++
		} else {
			idleRuns = 0
		}
		return idleRuns >= 5
	})
	if w.etcd.watchCount() >= n {
		return true
	}
	if ok {
		w.m.Note("case %d: %s: expected %d Watch calls, saw %d; all watch goroutines parked - continuing with the existing watchers", w.idx, what, n, w.etcd.watchCount())
		w.m.Count("fewer_watches_than_listened_keys", 1)
		return true
	}
	if dead := w.etcd.deadGets() - d0; dead >= 3 {
		w.wedged = true
		c15Wedged.Store(true)
		w.violate("C15:reload:hang:dead-context-gets", "%s: no Watch call within %v; the model etcd is healthy, but since then %d snapshot Gets arrived with a context that had already expired when they were issued: the load can never succeed, the key is never watched again and missed changes stay invisible", what, c15Watchdog, dead)
		return false
	}
	g1, f1, _, _ := w.etcd.counters()
	inLoad := false
	for _, g := range c15PkgGoroutines() {
		if strings.Contains(g.text, "(*cluster).load") {
			inLoad = true
		}
	}
	if answered := (g1 - g0) - (f1 - f0); answered >= 3 && inLoad {
		w.wedged = true
		c15Wedged.Store(true)
		w.violate("C15:reload:hang:snapshot-not-accepted", "%s: no Watch call within %v; a goroutine is still in cluster.load although the model etcd answered %d further snapshot Gets successfully: the key is never watched again", what, c15Watchdog, answered)
		return false
	}
	w.inconclusive("%s: expected %d Watch calls, saw %d within %v", what, n, w.etcd.watchCount(), c15Watchdog)
	return false
}

// syncSvc: the model of a snapshot load for one service key: the subscribers
// are told the difference between what the cluster knew and the snapshot.
func (w *c15World) syncSvc(svc string) { w.syncSvcWith(svc, w.etcd.snapshot(svc)) }

func (w *c15World) syncSvcWith(svc string, snap map[string]string) {
	kn := w.known[svc]
	groups := map[string][]string{}
	type kv struct{ k, v string }
	var removed []kv
	for k, v := range snap {
		old, ok := kn[k]
		if !ok {
			groups[v] = append(groups[v], k)
		} else if old != v {
			// the key was deleted and registered again with another value while unseen:
			// the old pair goes, the new pair comes
			removed = append(removed, kv{k, old})
			groups[v] = append(groups[v], k)
		}
	}
	for k, old := range kn {
		if _, ok := snap[k]; !ok {
			removed = append(removed, kv{k, old})
		}
	}
	for _, s := range w.subsOf(svc) {
		if !s.excl {
			continue
		}
		for _, r := range removed {
			s.mDel(r.k, r.v)
		}
		for v, ks := range groups {
			s.mAdd(ks, v)
		}
	}
	w.setKnown(svc, snap)
}

func (w *c15World) setKnown(svc string, snap map[string]string) {
	nk := map[string]string{}
	for k, v := range snap {
		nk[k] = v
	}
	w.known[svc] = nk
}

func (w *c15World) afterReload(nb, expected int, phase string) {
	missed := w.pending()
	if !w.waitWatches(nb+expected, "reload") {
		return
	}
	w.live = w.etcd.watchesFrom(nb)
	seen := map[string]bool{}
	for _, s := range w.subs {
		if !seen[s.svc] {
			seen[s.svc] = true
			w.syncSvc(s.svc)
		}
	}
	w.delivered = w.etcd.logLen()
	w.nMissed += missed
	w.nReloads++
	if missed > 0 {
		w.nReloadsAfterMiss++
	}
	// a watcher that asked for an older revision gets its replay; then quiescence
	if !w.pump(w.delivered, 1) {
		return
	}
	w.check(phase)
}

// reloadNow runs cluster.reload under the watchdog. It is only called with every
// watch goroutine parked in its loop, so nothing can legitimately hold it up.
func (w *c15World) reloadNow(what string) (exists, ok bool) {
	if !vk.Within(c15Watchdog, func() { exists = internal.C15Reload(w.eps, w.etcd) }) {
		w.reloadBlocked(what)
		return false, false
	}
	return exists, true
}

func (w *c15World) reload() {
	w.ops = append(w.ops, c15Op{Op: "reload"})
	nb := w.etcd.watchCount()
	expected := internal.C15ListenedKeys(w.eps)
	exists, ok := w.reloadNow("reload")
	if !ok || !exists {
		return // hung (reported), or no cluster yet: nothing to reload
	}
	w.afterReload(nb, expected, "after-reload")
}

func (w *c15World) attach(svcIdx int, excl bool) {
	svc := w.svcs[svcIdx]
	w.ops = append(w.ops, c15Op{Op: "sub", P: svcIdx, X: excl})
	pend := w.pending() > 0 && len(w.live) > 0
	if len(w.live) == 0 {
		// nobody is watching: whatever is in the log is simply history before the first load
		for _, ev := range w.etcd.events(w.delivered, w.etcd.logLen()) {
			w.applyDelivered(ev)
		}
		w.delivered = w.etcd.logLen()
	}
	first := len(w.subs) == 0
	keyWatched := len(w.subsOf(svc)) > 0
	nb := w.etcd.watchCount()
	sub, ok := w.newSubscriber(svc, excl)
	if !ok {
		return
	}
	immediate := sub.Values()
	s := &c15Sub{id: len(w.subs), svc: svc, excl: excl, sub: sub, own: map[string]map[string]bool{}}
	sub.AddListener(s.listener)
	w.nAttach++
	if !first {
		w.nLate++
	}
	if !w.waitWatches(nb+1, "attach") {
		return
	}
	w.live = append(w.live, w.etcd.watchesFrom(nb)...)
	if pend && w.rekey {
		w.tag = "rekeyed-value-replayed-late"
	}
	if pend {
		// Joined while changes were undelivered. Whether the join itself refreshes the
		// other subscribers is not in the statement: nothing is asserted until the next
		// quiescent point, and the announcement order seen by exclusive subscribers of
		// this key is unknown from here on (weak oracle for them).
		w.subs = append(w.subs, s)
		for _, o := range w.subsOf(svc) {
			if o.excl {
				o.tainted = true
			}
		}
		w.setKnown(svc, w.etcd.snapshot(svc))
		return
	}
	// up to date: the newcomer is told every present key, in unspecified order
	snap := w.etcd.snapshot(svc)
	groups := map[string][]string{}
	for k, v := range snap {
		groups[v] = append(groups[v], k)
	}
	for v, ks := range groups {
		s.mAdd(ks, v)
	}
	w.setKnown(svc, snap)
	w.subs = append(w.subs, s)
	// "immediately" is asserted where the statement promises it: the key is already being
	// watched for another subscriber. The first subscriber of a key is checked at the
	// next quiescent point.
	if keyWatched && !w.checkSub(s, immediate, "late-join") {
		return
	}
	if !w.pump(w.delivered, 1) {
		return
	}
	if !keyWatched {
		phase := "first-load"
		if !first {
			phase = "first-load-of-key"
		}
		if !w.checkSub(s, s.sub.Values(), phase) {
			return
		}
	}
	w.check("after-attach")
}

// rewatch breaks one live watch stream (channel closed, or a Canceled response):
// the registry must re-subscribe and converge again.
func (w *c15World) rewatch(i int, how string) {
	if w.pending() > 0 || len(w.live) == 0 {
		return
	}
	i %= len(w.live)
	w.ops = append(w.ops, c15Op{Op: how, N: i})
	if w.rekey {
		w.tag = "rekeyed-value-replayed-late"
	}
	lw := w.live[i]
	nb := w.etcd.watchCount()
	// as the etcd client: an error response is the last one, then the channel is closed
	var last *clientv3.WatchResponse
	switch how {
	case "wcancel":
		last = &clientv3.WatchResponse{Canceled: true}
	case "wcompact":
		// Err() != nil without Canceled: the requested revision was compacted
		last = &clientv3.WatchResponse{CompactRevision: w.etcd.rev()}
	}
	if last != nil {
		if ok, _ := c15Send(lw, *last); !ok {
			w.inconclusive("watcher %d did not take the error response", lw.id)
			return
		}
	}
	close(lw.ch)
	if !w.waitWatches(nb+1, "re-watch") {
		return
	}
	nws := w.etcd.watchesFrom(nb)
	w.nRewatch++
	if len(nws) == 0 {
		// the stream was not re-established: its events now reach nobody
		w.live = append(w.live[:i], w.live[i+1:]...)
		w.check("after-rewatch")
		return
	}
	nw := nws[0]
	w.live[i] = nw
	// The new stream replays what etcd has after the revision it asks for. For plain
	// subscribers a replay is idempotent. An exclusive subscriber that joined later
	// than that revision now sees older registrations again (e.g. a publisher that
	// registered the value and expired before it joined), which may legitimately move
	// or drop the owner: both the view without and with the replay are accepted.
	var replay []c15Ev
	for _, ev := range w.etcd.events(nw.cursor, w.delivered) {
		if nw.wants(ev) {
			replay = append(replay, ev)
		}
	}
	if len(replay) > 0 {
		for _, s := range w.subs {
			if !s.excl || !nw.wants(c15Ev{key: s.svc + "/"}) {
				continue
			}
			before := s.own
			s.own = map[string]map[string]bool{}
			for v, o := range before {
				c := map[string]bool{}
				for k := range o {
					c[k] = true
				}
				s.own[v] = c
			}
			at := map[string]string{} // key -> value as of the replay position
			for _, ev := range w.etcd.events(0, nw.cursor) {
				if ev.del {
					delete(at, ev.key)
				} else {
					at[ev.key] = ev.val
				}
			}
			for _, ev := range replay {
				if ev.del {
					if v, ok := at[ev.key]; ok {
						s.mDel(ev.key, v)
					}
					delete(at, ev.key)
				} else {
					s.mAdd([]string{ev.key}, ev.val)
					at[ev.key] = ev.val
				}
			}
			for v, o := range before {
				if s.own[v] == nil {
					s.own[v] = map[string]bool{}
				}
				for k := range o {
					s.own[v][k] = true
				}
			}
			for v, o := range s.own {
				if _, had := before[v]; !had {
					o[""] = true // without the replay the value was not known at all
				}
			}
		}
	}
	if !w.pump(w.delivered, w.r.Intn(3)) {
		return
	}
	w.check("after-rewatch")
}

// ---- reconnect trigger (stateWatcher.updateState)

func (w *c15World) enableTrigger() {
	w.trig = internal.C15NewTrigger(connectivity.Ready, func() {
		atomic.AddInt64(&w.fired, 1)
		go func() {
			internal.C15Reload(w.eps, w.etcd)
			w.reloaded <- struct{}{}
		}()
	})
}

var c15States = map[string]connectivity.State{
	"idle": connectivity.Idle, "connecting": connectivity.Connecting, "ready": connectivity.Ready,
	"failure": connectivity.TransientFailure, "shutdown": connectivity.Shutdown,
}

func (w *c15World) state(name string) {
	w.ops = append(w.ops, c15Op{Op: "state", S: name})
	st := c15States[name]
	expect := false
	switch st {
	case connectivity.TransientFailure, connectivity.Shutdown:
		w.disc = true
	case connectivity.Ready:
		if w.disc {
			expect = true
			w.disc = false
		}
	}
	nb := w.etcd.watchCount()
	expected := internal.C15ListenedKeys(w.eps)
	before := atomic.LoadInt64(&w.fired)
	if !vk.Within(c15Watchdog, func() { w.trig.Feed(st) }) {
		w.wedged = true
		c15Wedged.Store(true)
		if stk := c15LockStuck("(*stateWatcher)"); stk != "" {
			w.violate("C15:reconnect:hang:state-watcher-lock", "stateWatcher.updateState(%s) did not return within %v: it is parked on the watcher's own lock, which nobody holds any more; the reload can never start (missed changes pending: %d):\n%s", name, c15Watchdog, w.pending(), c15Trim(stk, 1500))
		} else {
			w.inconclusive("stateWatcher.updateState(%s) did not return within %v", name, c15Watchdog)
		}
		return
	}
	got := int(atomic.LoadInt64(&w.fired) - before)
	if expect && got == 0 {
		w.violate("C15:reconnect:no-reload", "connection reported %s after a loss but the state watcher did not start a reload (pending missed events: %d)", name, w.pending())
		return
	}
	if got == 0 {
		return
	}
	if !expect {
		w.nSpurious++ // harmless: a reload without a loss must still converge
	}
	if got > 1 {
		w.inconclusive("state watcher fired %d reloads for one state change (concurrent reloads are not modelled)", got)
		return
	}
	select {
	case <-w.reloaded:
	case <-time.After(c15Watchdog):
		w.reloadBlocked("reload started by the state watcher")
		return
	}
	w.afterReload(nb, expected, "after-reconnect")
}

// ---- oracle

func c15Set(vals []string) map[string]bool {
	out := map[string]bool{}
	for _, v := range vals {
		out[v] = true
	}
	return out
}

func c15Sorted(set map[string]bool) []string {
	out := make([]string, 0, len(set))
	for v := range set {
		out = append(out, v)
	}
	sort.Strings(out)
	return out
}

func c15Equal(a, b map[string]bool) bool {
	if len(a) != len(b) {
		return false
	}
	for k := range a {
		if !b[k] {
			return false
		}
	}
	return true
}

// expectation for one subscriber: values that must / may be in Values().
func (w *c15World) expect(s *c15Sub) (must, may map[string]bool) {
	snap := w.etcd.snapshot(s.svc)
	distinct := map[string]bool{}
	for _, v := range snap {
		distinct[v] = true
	}
	if !s.excl {
		return distinct, distinct
	}
	must, may = map[string]bool{}, map[string]bool{}
	if s.tainted {
		// weak: only values some present key carries; a value only ever carried by one
		// key behaves as in plain mode
		for v := range distinct {
			may[v] = true
			if len(w.carriers[s.svc+"|"+v]) == 1 {
				must[v] = true
			}
		}
		return must, may
	}
	for v, o := range s.own {
		keys := 0
		for k := range o {
			if k != "" {
				keys++
			}
		}
		if keys > 0 {
			may[v] = true
			if !o[""] {
				must[v] = true
			}
		}
	}
	return must, may
}

func (w *c15World) checkSub(s *c15Sub, got []string, phase string) bool {
	w.nChecks++
	if w.tag != "" {
		phase = w.tag
	}
	gs := c15Set(got)
	if len(gs) != len(got) {
		sort.Strings(got)
		w.violate("C15:values:duplicate:"+phase, "subscriber #%d (%s, key %s): Values() lists a value twice: %v", s.id, s.mode(), s.svc, got)
		return false
	}
	must, may := w.expect(s)
	var stale, missing []string
	for v := range gs {
		if !may[v] {
			stale = append(stale, v)
		}
	}
	for v := range must {
		if !gs[v] {
			missing = append(missing, v)
		}
	}
	sort.Strings(stale)
	sort.Strings(missing)
	if len(stale)+len(missing) > 0 {
		kind := "stale-value"
		if len(stale) == 0 {
			kind = "missing-value"
		}
		snap := w.etcd.snapshot(s.svc)
		cls := "plain"
		if s.excl {
			cls = "exclusive"
		}
		w.violate(fmt.Sprintf("C15:diverged:%s:%s", phase, cls),
			"%s: subscriber #%d (%s, key %s) at quiescence: Values()=%v; registry keys=%v; values that must be listed=%v, may be listed=%v; listed without a live key=%v, live but not listed=%v",
			kind, s.id, s.mode(), s.svc, c15Sorted(gs), snap, c15Sorted(must), c15Sorted(may), stale, missing)
		return false
	}
	if !c15Equal(must, may) {
		w.nAmbig++
	}
	return true
}

// listener oracle: when the set a subscriber must show changed since the last
// quiescent point, its change listener ran, and the last run saw the final set
// (the resolver reads Values() inside the listener).
func (w *c15World) checkListener(s *c15Sub, phase string) bool {
	must, may := w.expect(s)
	var cur map[string]bool
	if c15Equal(must, may) {
		cur = must
	}
	s.mu.Lock()
	calls, last := s.calls, append([]string(nil), s.last...)
	s.mu.Unlock()
	defer func() { s.prevVisible, s.prevCalls = cur, calls }()
	if cur == nil || s.prevVisible == nil || c15Equal(cur, s.prevVisible) {
		return true
	}
	if calls == s.prevCalls {
		w.violate("C15:listener:not-run:"+phase, "subscriber #%d (%s): value set changed %v -> %v but the change listener was not invoked (invocations so far %d)",
			s.id, s.mode(), c15Sorted(s.prevVisible), c15Sorted(cur), calls)
		return false
	}
	if !c15Equal(c15Set(last), cur) {
		w.violate("C15:listener:stale-view:"+phase, "subscriber #%d (%s): the last listener invocation saw Values()=%v, final set is %v",
			s.id, s.mode(), last, c15Sorted(cur))
		return false
	}
	return true
}

// check runs the oracle over every subscriber if nothing is pending.
func (w *c15World) check(phase string) {
	if w.stopped() || w.pending() > 0 {
		return
	}
	if w.tag != "" {
		phase = w.tag
	}
	for pass := 0; pass < 2; pass++ {
		for _, s := range w.subs {
			if s.excl != (pass == 1) {
				continue
			}
			if !w.checkSub(s, s.sub.Values(), phase) {
				return
			}
		}
	}
	for _, s := range w.subs {
		if !w.checkListener(s, phase) {
			return
		}
	}
}

func (w *c15World) listenerCalls() int64 {
	var n int64
	for _, s := range w.subs {
		s.mu.Lock()
		n += s.calls
		s.mu.Unlock()
	}
	return n
}

// exec runs one operation.
func (w *c15World) exec(op c15Op) {
	if w.stopped() {
		return
	}
	switch op.Op {
	case "put":
		w.put(op.P, op.K, op.V)
	case "del":
		w.del(op.P, op.K)
	case "sub":
		w.attach(op.P, op.X)
	case "pump":
		if len(w.live) == 0 || w.pending() == 0 {
			return
		}
		w.ops = append(w.ops, op)
		upto := w.etcd.logLen()
		if op.N > 0 && w.delivered+op.N < upto {
			upto = w.delivered + op.N
		}
		if w.pump(upto, op.M) {
			w.check("after-watch-events")
		}
	case "reload":
		w.reload()
	case "wclose", "wcancel", "wcompact":
		w.rewatch(op.N, op.Op)
	case "state":
		w.state(op.S)
	case "progress":
		if len(w.live) == 0 {
			return
		}
		w.ops = append(w.ops, op)
		if w.progress() {
			w.check("after-watch-events")
		}
	case "getfail":
		w.ops = append(w.ops, op)
		w.etcd.mu.Lock()
		w.etcd.failGets = 1
		w.etcd.mu.Unlock()
	}
}

func (w *c15World) account(kinds map[string]int64) {
	for _, op := range w.ops {
		kinds[op.Op]++
	}
	m := w.m
	m.Count("events_delivered_to_watchers", int64(w.nDelivered))
	m.Count("events_missed_until_reload", int64(w.nMissed))
	m.Count("reloads", int64(w.nReloads))
	m.Count("reloads_after_missed_events", int64(w.nReloadsAfterMiss))
	m.Count("subscribers_attached", int64(w.nAttach))
	m.Count("late_joiners", int64(w.nLate))
	m.Count("quiescent_subscriber_checks", int64(w.nChecks))
	m.Count("checks_with_ambiguous_exclusive_owner", int64(w.nAmbig))
	m.Count("watch_streams_broken", int64(w.nRewatch))
	m.Count("listener_invocations", w.listenerCalls())
	g, gf, wc, _ := w.etcd.counters()
	m.Count("etcd_get_calls", int64(g))
	m.Count("etcd_get_failures_injected", int64(gf))
	m.Count("etcd_watch_calls", int64(wc))
}

func (w *c15World) nontrivial() bool {
	return w.nChecks > 0 && (w.nDelivered > 0 || w.nReloadsAfterMiss > 0)
}
