//go:build verif

package internal_test

// C15 — model etcd used by the service-discovery monitor (DESIGN.md §3 C15).
//
// c15Etcd implements internal.EtcdClient. It is a revisioned key-value store
// with an event log. Get returns the snapshot and its revision atomically.
// Watch registers a watcher with an *unbuffered* channel and a cursor into the
// event log (first event whose revision is >= the requested start revision,
// exactly what etcd replays); nothing is ever sent on a watch channel except by
// the harness, so the harness decides which events are delivered, in what
// batches, and which are never delivered ("missed while the watch was down").
// A send on the unbuffered channel returns only when the registry's watch
// goroutine took the response. The response has been processed completely when
// that goroutine is parked again in its receive/select: c15WatchersIdle reads
// the goroutine states from runtime.Stack (a goroutine that was handed a value is
// runnable/running, never "select"). That is the consumption handshake (no
// sleeps, and nothing extra is sent through the code under test).

import (
	"context"
	"errors"
	"fmt"
	"os"
	"runtime"
	"sort"
	"strings"
	"sync"
	"time"

	"go.etcd.io/etcd/api/v3/etcdserverpb"
	"go.etcd.io/etcd/api/v3/mvccpb"
	clientv3 "go.etcd.io/etcd/client/v3"
	"google.golang.org/grpc"
)

const c15BaseRev = 100 // default revision of an empty model etcd (a world may start at 0: "no revision yet")

type c15Ev struct {
	rev int64
	del bool
	key string
	val string
}

type c15Watch struct {
	e      *c15Etcd
	id     int
	prefix string // "<service key>/"
	exact  bool
	ch     chan clientv3.WatchResponse
	reqRev int64
	cursor int           // next log index to deliver to this watcher
	dead   chan struct{} // closed by the harness when it abandons the watcher

	pumpDone chan struct{} // concurrent workload: closed when the watcher's pump goroutine exits
}

type c15Etcd struct {
	mu          sync.Mutex
	base        int64            // revision of the empty store
	conn        *grpc.ClientConn // what ActiveConnection returns (real-connection family only)
	cond        *sync.Cond       // signalled on log growth / abandon / stop (concurrent workload)
	store       map[string]string
	lease       map[string]clientv3.LeaseID
	log         []c15Ev
	watches     []*c15Watch
	gets        int
	getFails    int
	failGets    int             // number of upcoming Get calls that fail
	gateGets    bool            // Gets park until released (a slow snapshot request)
	gated       []chan struct{} // parked Gets, oldest first
	deadCtxGets int             // Gets that arrived with an already expired context while the store was healthy
	failPub     string          // "grant" | "put" | "keepalive": the next such publisher call fails once

	// gap: changes applied right after the next Get has taken its snapshot (they land
	// between the snapshot and the Watch registration that follows it)
	gap        []c15Ev
	lastSnap   map[string]string // the snapshot the last Get returned
	lastGetLen int               // log length at that snapshot
	// floor[prefix]: highest revision the registry has been told about for the prefix
	// (snapshot revisions of Get, revisions of responses handed to its watchers)
	floor    map[string]int64
	badWatch []string
	nextLs   clientv3.LeaseID
	pendLs   clientv3.LeaseID
	revokes  int
	kaChans  map[clientv3.LeaseID]chan *clientv3.LeaseKeepAliveResponse
}

func newC15Etcd() *c15Etcd {
	e := &c15Etcd{
		store:   map[string]string{},
		lease:   map[string]clientv3.LeaseID{},
		nextLs:  7000,
		floor:   map[string]int64{},
		base:    c15BaseRev,
		kaChans: map[clientv3.LeaseID]chan *clientv3.LeaseKeepAliveResponse{},
	}
	e.cond = sync.NewCond(&e.mu)
	return e
}

func (e *c15Etcd) revLocked() int64 { return e.base + int64(len(e.log)) }

func (e *c15Etcd) rev() int64 {
	e.mu.Lock()
	defer e.mu.Unlock()
	return e.revLocked()
}

// apply a put/delete to the store (a publisher registering / expiring).
// Returns false if the operation is a no-op (delete of an absent key).
func (e *c15Etcd) put(key, val string) {
	e.mu.Lock()
	e.putLocked(key, val)
	e.mu.Unlock()
}

func (e *c15Etcd) putLocked(key, val string) {
	e.store[key] = val
	e.log = append(e.log, c15Ev{rev: e.base + int64(len(e.log)) + 1, key: key, val: val})
}

func (e *c15Etcd) del(key string) bool {
	e.mu.Lock()
	defer e.mu.Unlock()
	return e.delLocked(key)
}

func (e *c15Etcd) delLocked(key string) bool {
	if _, ok := e.store[key]; !ok {
		return false
	}
	delete(e.store, key)
	delete(e.lease, key)
	e.log = append(e.log, c15Ev{rev: e.base + int64(len(e.log)) + 1, del: true, key: key})
	return true
}

func (e *c15Etcd) logLen() int {
	e.mu.Lock()
	defer e.mu.Unlock()
	return len(e.log)
}

func (e *c15Etcd) watchCount() int {
	e.mu.Lock()
	defer e.mu.Unlock()
	return len(e.watches)
}

func (e *c15Etcd) watchesFrom(i int) []*c15Watch {
	e.mu.Lock()
	defer e.mu.Unlock()
	return append([]*c15Watch(nil), e.watches[i:]...)
}

func (e *c15Etcd) events(from, to int) []c15Ev {
	e.mu.Lock()
	defer e.mu.Unlock()
	if to > len(e.log) {
		to = len(e.log)
	}
	if from >= to {
		return nil
	}
	return append([]c15Ev(nil), e.log[from:to]...)
}

// snapshot of the keys under a service key (prefix without the delimiter).
func (e *c15Etcd) snapshot(svc string) map[string]string {
	e.mu.Lock()
	defer e.mu.Unlock()
	out := map[string]string{}
	for k, v := range e.store {
		if strings.HasPrefix(k, svc+"/") {
			out[k] = v
		}
	}
	return out
}

func (e *c15Etcd) deadGets() int {
	e.mu.Lock()
	defer e.mu.Unlock()
	return e.deadCtxGets
}

func (e *c15Etcd) counters() (gets, getFails, watches, revokes int) {
	e.mu.Lock()
	defer e.mu.Unlock()
	return e.gets, e.getFails, len(e.watches), e.revokes
}

// ---- internal.EtcdClient

func (e *c15Etcd) ActiveConnection() *grpc.ClientConn { return e.conn }
func (e *c15Etcd) Close() error                       { return nil }
func (e *c15Etcd) Ctx() context.Context               { return context.Background() }

func c15Match(k string, key string, ranged bool) bool {
	if ranged {
		return strings.HasPrefix(k, key)
	}
	return k == key
}

func (e *c15Etcd) Get(ctx context.Context, key string, opts ...clientv3.OpOption) (*clientv3.GetResponse, error) {
	op := clientv3.OpGet(key, opts...)
	ranged := len(op.RangeBytes()) > 0
	e.mu.Lock()
	defer e.mu.Unlock()
	if e.gateGets {
		// the request is in flight until the harness lets it through; the snapshot is taken
		// when it is served
		ch := make(chan struct{})
		e.gated = append(e.gated, ch)
		e.mu.Unlock()
		<-ch
		e.mu.Lock()
	}
	e.gets++
	if e.failGets > 0 {
		e.failGets--
		e.getFails++
		return nil, errors.New("c15: injected etcd Get failure")
	}
	if err := ctx.Err(); err != nil {
		// the request arrives with a context that has already expired / been cancelled: a
		// real client fails it without asking the server
		e.deadCtxGets++
		return nil, err
	}
	var keys []string
	for k := range e.store {
		if c15Match(k, key, ranged) {
			keys = append(keys, k)
		}
	}
	sort.Strings(keys)
	resp := &clientv3.GetResponse{Header: &etcdserverpb.ResponseHeader{Revision: e.revLocked()}}
	for _, k := range keys {
		resp.Kvs = append(resp.Kvs, &mvccpb.KeyValue{Key: []byte(k), Value: []byte(e.store[k])})
	}
	resp.Count = int64(len(keys))
	e.lastSnap = map[string]string{}
	for _, k := range keys {
		e.lastSnap[k] = e.store[k]
	}
	e.lastGetLen = len(e.log)
	if r := e.revLocked(); r > e.floor[key] {
		e.floor[key] = r
	}
	for _, ev := range e.gap {
		if ev.del {
			e.delLocked(ev.key)
		} else {
			e.putLocked(ev.key, ev.val)
		}
	}
	e.gap = nil
	return resp, nil
}

func (e *c15Etcd) Watch(ctx context.Context, key string, opts ...clientv3.OpOption) clientv3.WatchChan {
	op := clientv3.OpGet(key, opts...)
	e.mu.Lock()
	defer e.mu.Unlock()
	w := &c15Watch{
		e:      e,
		id:     len(e.watches),
		prefix: key,
		exact:  len(op.RangeBytes()) == 0,
		ch:     make(chan clientv3.WatchResponse),
		reqRev: op.Rev(),
		dead:   make(chan struct{}),

		pumpDone: make(chan struct{}),
	}
	// Boundary observation: a watch must not start later than the revision after the
	// newest state the registry has been told for this prefix (its last snapshot, or
	// a later response it was handed): everything in between would be lost.
	start := w.reqRev
	if start == 0 {
		start = e.revLocked() + 1 // no start revision: from now
	}
	if fl := e.floor[key]; start > fl+1 {
		// which changes of this prefix lie between what the registry knows and the start?
		skipped := 0
		for _, ev := range e.log {
			if ev.rev > fl && ev.rev < start && c15Match(ev.key, key, !w.exact) {
				skipped++
			}
		}
		if skipped > 0 {
			e.badWatch = append(e.badWatch, fmt.Sprintf("Watch(%q) start revision %d (0 = from now, i.e. %d); the registry's newest knowledge of the prefix is revision %d (snapshot / responses it was handed); %d change(s) of the prefix with revisions in between are skipped and can never be seen",
				key, w.reqRev, start, fl, skipped))
		}
	}
	if w.reqRev == 0 {
		w.cursor = len(e.log) // "from now"
	} else {
		// log[i] has revision base+i+1
		w.cursor = int(w.reqRev - e.base - 1)
		if w.cursor < 0 {
			w.cursor = 0
		}
	}
	e.watches = append(e.watches, w)
	return w.ch
}

func (e *c15Etcd) failOnce(what string) bool {
	if e.failPub == what {
		e.failPub = ""
		return true
	}
	return false
}

func (e *c15Etcd) Grant(ctx context.Context, ttl int64) (*clientv3.LeaseGrantResponse, error) {
	e.mu.Lock()
	defer e.mu.Unlock()
	if e.failOnce("grant") {
		return nil, errors.New("c15: injected Grant failure")
	}
	e.nextLs++
	e.pendLs = e.nextLs
	return &clientv3.LeaseGrantResponse{ID: e.nextLs, TTL: ttl}, nil
}

func (e *c15Etcd) KeepAlive(ctx context.Context, id clientv3.LeaseID) (<-chan *clientv3.LeaseKeepAliveResponse, error) {
	e.mu.Lock()
	defer e.mu.Unlock()
	if e.failOnce("keepalive") {
		return nil, errors.New("c15: injected KeepAlive failure")
	}
	ch := make(chan *clientv3.LeaseKeepAliveResponse)
	e.kaChans[id] = ch
	return ch, nil
}

// Put binds the key to the lease granted last (publishers call Grant then Put).
func (e *c15Etcd) Put(ctx context.Context, key, val string, opts ...clientv3.OpOption) (*clientv3.PutResponse, error) {
	e.mu.Lock()
	defer e.mu.Unlock()
	if e.failOnce("put") {
		return nil, errors.New("c15: injected Put failure")
	}
	e.putLocked(key, val)
	e.lease[key] = e.pendLs
	return &clientv3.PutResponse{Header: &etcdserverpb.ResponseHeader{Revision: e.revLocked()}}, nil
}

func (e *c15Etcd) Revoke(ctx context.Context, id clientv3.LeaseID) (*clientv3.LeaseRevokeResponse, error) {
	e.mu.Lock()
	defer e.mu.Unlock()
	e.revokes++
	var keys []string
	for k, l := range e.lease {
		if l == id {
			keys = append(keys, k)
		}
	}
	sort.Strings(keys)
	for _, k := range keys {
		e.delLocked(k)
	}
	return &clientv3.LeaseRevokeResponse{Header: &etcdserverpb.ResponseHeader{Revision: e.revLocked()}}, nil
}

// ---- delivery helpers (harness side)

func c15Response(evs []c15Ev, rev int64) clientv3.WatchResponse {
	resp := clientv3.WatchResponse{Header: etcdserverpb.ResponseHeader{Revision: rev}}
	for _, ev := range evs {
		if ev.del {
			// as etcd: a delete event carries the key only
			resp.Events = append(resp.Events, &clientv3.Event{Type: clientv3.EventTypeDelete,
				Kv: &mvccpb.KeyValue{Key: []byte(ev.key), ModRevision: ev.rev}})
		} else {
			resp.Events = append(resp.Events, &clientv3.Event{Type: clientv3.EventTypePut,
				Kv: &mvccpb.KeyValue{Key: []byte(ev.key), Value: []byte(ev.val), CreateRevision: ev.rev, ModRevision: ev.rev, Version: 1}})
		}
		if ev.rev > resp.Header.Revision {
			resp.Header.Revision = ev.rev
		}
	}
	return resp
}

const c15Watchdog = 20 * time.Second

// c15Send hands one response to the watcher's goroutine. ok=false: nobody took
// it within the watchdog (inconclusive) or the watcher was abandoned.
func c15Send(w *c15Watch, resp clientv3.WatchResponse) (ok bool, abandoned bool) {
	defer func() {
		if ok && !resp.Canceled && resp.CompactRevision == 0 {
			w.e.noteTold(w.prefix, resp.Header.Revision)
		}
	}()
	select {
	case w.ch <- resp:
		return true, false
	default:
	}
	t := time.NewTimer(c15Watchdog)
	defer t.Stop()
	select {
	case w.ch <- resp:
		return true, false
	case <-w.dead:
		return false, true
	case <-t.C:
		return false, false
	}
}

func (w *c15Watch) wants(ev c15Ev) bool { return c15Match(ev.key, w.prefix, !w.exact) }

// ---- goroutine states

const c15Pkg = "github.com/gotid/god/lib/discov/internal."
const c15StateWatchFn = "internal.(*stateWatcher).watch("
const c15RunFn = "github.com/gotid/god/lib/threading.(*RoutineGroup).Run"

type c15G struct {
	state string // select, chan receive, running, runnable, semacquire, sync.Mutex.Lock, ...
	top   string // function of the innermost frame
	text  string
}

var (
	c15StackMu  sync.Mutex
	c15StackBuf = make([]byte, 128<<10)
)

// c15Goroutines returns every goroutine except the caller.
func c15Goroutines() []c15G {
	c15StackMu.Lock()
	defer c15StackMu.Unlock()
	var n int
	for {
		n = runtime.Stack(c15StackBuf, true)
		if n < len(c15StackBuf) {
			break
		}
		c15StackBuf = make([]byte, 2*len(c15StackBuf))
	}
	blocks := strings.Split(string(c15StackBuf[:n]), "\n\n")
	var out []c15G
	for i, b := range blocks {
		if i == 0 || !strings.HasPrefix(b, "goroutine ") {
			continue
		}
		g := c15G{text: b}
		if lb := strings.IndexByte(b, '['); lb >= 0 {
			rest := b[lb+1:]
			if rb := strings.IndexAny(rest, ",]"); rb >= 0 {
				g.state = rest[:rb]
			}
		}
		if nl := strings.IndexByte(b, '\n'); nl >= 0 {
			line := b[nl+1:]
			if e := strings.IndexByte(line, '\n'); e >= 0 {
				line = line[:e]
			}
			if p := strings.LastIndexByte(line, '('); p >= 0 {
				line = line[:p]
			}
			g.top = line
		}
		out = append(out, g)
	}
	return out
}

// c15WatchersIdle: every goroutine that is inside the package under test is
// parked in a receive/select whose innermost frame is in that package (the
// watch loop), and there are at least min of them.
func c15WatchersIdle(min int) bool {
	n := 0
	for _, g := range c15Goroutines() {
		// goroutines started through threading.RoutineGroup.Run (the watch loops) count
		// even before they have executed their first instruction
		if !strings.Contains(g.text, c15Pkg) && !strings.Contains(g.text, c15RunFn) {
			continue
		}
		if strings.Contains(g.text, c15StateWatchFn) {
			continue // the connection-state watcher (real-connection family) is not a watch loop
		}
		if (g.state != "select" && g.state != "chan receive") || !strings.HasPrefix(g.top, c15Pkg) {
			return false
		}
		n++
	}
	return n >= min
}

// c15TrySend hands a response to a watcher only if its goroutine is parked on
// the channel right now. Called when every watch goroutine is known to be
// parked, it tells a live watcher (accepts) from one whose goroutine is gone.
func c15TrySend(w *c15Watch, resp clientv3.WatchResponse) bool {
	select {
	case w.ch <- resp:
		w.e.noteTold(w.prefix, resp.Header.Revision)
		return true
	default:
		return false
	}
}

// lastLease returns the lease granted last (the publisher that just registered).
func (e *c15Etcd) lastLease() clientv3.LeaseID {
	e.mu.Lock()
	defer e.mu.Unlock()
	return e.pendLs
}

// loseLease closes the keep-alive channel of a lease: what the etcd client does
// when the lease expired or the keep-alive stream broke for good.
func (e *c15Etcd) loseLease(id clientv3.LeaseID) bool {
	e.mu.Lock()
	defer e.mu.Unlock()
	ch, ok := e.kaChans[id]
	if !ok {
		return false
	}
	delete(e.kaChans, id)
	close(ch)
	return true
}

func (e *c15Etcd) noteTold(prefix string, rev int64) {
	e.mu.Lock()
	if rev > e.floor[prefix] {
		e.floor[prefix] = rev
	}
	e.mu.Unlock()
}

func (e *c15Etcd) takeBadWatches() []string {
	e.mu.Lock()
	defer e.mu.Unlock()
	b := e.badWatch
	e.badWatch = nil
	if os.Getenv("C15_NO_BOUNDARY_CHECK") != "" {
		return nil // diagnostic knob: lets the convergence oracle alone decide
	}
	return b
}

func (e *c15Etcd) scheduleGap(evs []c15Ev) {
	e.mu.Lock()
	e.gap = append(e.gap, evs...)
	e.mu.Unlock()
}

func (e *c15Etcd) lastGet() (snap map[string]string, logLen int) {
	e.mu.Lock()
	defer e.mu.Unlock()
	out := map[string]string{}
	for k, v := range e.lastSnap {
		out[k] = v
	}
	return out, e.lastGetLen
}

func clientv3Canceled() clientv3.WatchResponse { return clientv3.WatchResponse{Canceled: true} }
func clientv3Compacted(rev int64) clientv3.WatchResponse {
	return clientv3.WatchResponse{CompactRevision: rev}
}

func (e *c15Etcd) gateOn() {
	e.mu.Lock()
	e.gateGets = true
	e.mu.Unlock()
}

// gateOff lets every parked Get through and stops parking.
func (e *c15Etcd) gateOff() {
	e.mu.Lock()
	e.gateGets = false
	for _, ch := range e.gated {
		close(ch)
	}
	e.gated = nil
	e.mu.Unlock()
}

func (e *c15Etcd) gatedCount() int {
	e.mu.Lock()
	defer e.mu.Unlock()
	return len(e.gated)
}

// releaseOldest serves the Get that has been in flight longest.
func (e *c15Etcd) releaseOldest() bool {
	e.mu.Lock()
	defer e.mu.Unlock()
	if len(e.gated) == 0 {
		return false
	}
	close(e.gated[0])
	e.gated = e.gated[1:]
	return true
}
