//go:build verif

package internal_test

// C15 — deterministic family "changes land between the snapshot and the watch":
// right after a Get has taken its snapshot (first Monitor, late join, each reload)
// the model etcd applies k registrations/expirations, i.e. before the Watch call
// that follows arrives; likewise changes are made between an error response / a
// closed watch channel and the re-subscription. The harness then only streams the
// log to each watcher from the position its start revision designates (what etcd
// does). At quiescence the view must equal the model: events with a revision
// above the snapshot's must come through the watch, which therefore has to start
// at snapshot revision + 1. The start revision of every Watch call is also
// checked at the boundary (C15:watch:start-revision, see c15Etcd.Watch).
// One service key and - after the first reload - one watch stream, so nothing
// else can deliver the events in the gap.

import (
	"math/rand"
	"testing"
	"time"

	"github.com/gotid/god/lib/discov/internal"
	"github.com/gotid/god/lib/logx"
	"verif.local/vk"
)

// gapChanges picks k valid changes, registers them in the model's bookkeeping and
// returns them for the fake to apply after the next snapshot.
func (w *c15World) gapChanges(g *c15Gen, k int) []c15Ev {
	var evs []c15Ev
	p := 0
	svc := w.svcs[p]
	for i := 0; i < k; i++ {
		var absent, present []int
		for id := 1; id <= g.nKeys[p]; id++ {
			if g.present[p][id] {
				present = append(present, id)
			} else {
				absent = append(absent, id)
			}
		}
		if len(absent) > 0 && (len(present) == 0 || w.r.Intn(2) == 0) {
			id := absent[w.r.Intn(len(absent))]
			key := c15Key(svc, id)
			val, ok := w.valOf[key]
			if !ok {
				val = g.pools[p][w.r.Intn(len(g.pools[p]))]
				w.valOf[key] = val
			}
			ck := svc + "|" + val
			if w.carriers[ck] == nil {
				w.carriers[ck] = map[string]bool{}
			}
			w.carriers[ck][key] = true
			g.present[p][id] = true
			evs = append(evs, c15Ev{key: key, val: val})
			w.ops = append(w.ops, c15Op{Op: "gap-put", K: id, V: val + map[bool]string{true: "(empty string)"}[val == ""]})
		} else if len(present) > 0 {
			id := present[w.r.Intn(len(present))]
			delete(g.present[p], id)
			evs = append(evs, c15Ev{del: true, key: c15Key(svc, id)})
			w.ops = append(w.ops, c15Op{Op: "gap-del", K: id})
		}
	}
	return evs
}

// gapAttach: NewSubscriber whose snapshot Get is followed at once by k changes.
func (w *c15World) gapAttach(g *c15Gen, excl bool, k int) {
	if w.stopped() || w.pending() > 0 && len(w.live) > 0 {
		return
	}
	svc := w.svcs[0]
	if len(w.live) == 0 {
		for _, ev := range w.etcd.events(w.delivered, w.etcd.logLen()) {
			w.applyDelivered(ev)
		}
		w.delivered = w.etcd.logLen()
	}
	w.ops = append(w.ops, c15Op{Op: "sub", X: excl})
	w.etcd.scheduleGap(w.gapChanges(g, k))
	nb := w.etcd.watchCount()
	sub, ok := w.newSubscriber(svc, excl)
	if !ok {
		return
	}
	s := &c15Sub{id: len(w.subs), svc: svc, excl: excl, sub: sub, own: map[string]map[string]bool{}}
	sub.AddListener(s.listener)
	w.nAttach++
	snap, at := w.etcd.lastGet()
	if at != w.delivered {
		w.inconclusive("the join did not take exactly one snapshot at the expected point (log %d, expected %d)", at, w.delivered)
		return
	}
	groups := map[string][]string{}
	for key, v := range snap {
		groups[v] = append(groups[v], key)
	}
	for v, ks := range groups {
		s.mAdd(ks, v)
	}
	w.setKnown(svc, snap)
	w.subs = append(w.subs, s)
	if !w.waitWatches(nb+1, "attach") {
		return
	}
	w.live = append(w.live, w.etcd.watchesFrom(nb)...)
	w.m.Count("changes_between_snapshot_and_watch", int64(w.pending()))
	// nothing delivered by hand: every watcher is streamed the log from its own cursor
	if w.pump(w.etcd.logLen(), w.r.Intn(3)) {
		w.check("gap-after-snapshot")
	}
}

// gapReload: each reload's snapshot is followed at once by k changes.
func (w *c15World) gapReload(g *c15Gen, k int) {
	if w.stopped() || len(w.subs) == 0 {
		return
	}
	w.ops = append(w.ops, c15Op{Op: "reload"})
	w.etcd.scheduleGap(w.gapChanges(g, k))
	nb := w.etcd.watchCount()
	expected := internal.C15ListenedKeys(w.eps)
	if exists, ok := w.reloadNow("reload"); !ok || !exists {
		return
	}
	if !w.waitWatches(nb+expected, "reload") {
		return
	}
	w.live = w.etcd.watchesFrom(nb)
	snap, at := w.etcd.lastGet()
	missed := at - w.delivered
	w.syncSvcWith(w.svcs[0], snap)
	w.delivered = at
	w.nMissed += missed
	w.nReloads++
	if missed > 0 {
		w.nReloadsAfterMiss++
	}
	w.m.Count("changes_between_snapshot_and_watch", int64(w.pending()))
	if w.pump(w.etcd.logLen(), w.r.Intn(3)) {
		w.check("gap-after-snapshot")
	}
}

// gapRewatch: the stream breaks (closed / Canceled / compacted), k changes are
// made, and only then can the re-subscription arrive.
func (w *c15World) gapRewatch(g *c15Gen, how string, k int) {
	if w.stopped() || len(w.live) != 1 || w.pending() > 0 {
		return
	}
	lw := w.live[0]
	// the changes are in the log before the stream is broken, but are not handed to the
	// broken stream: from the registry's side they happen while it has no watch
	for _, ev := range w.gapChanges(g, k) {
		if ev.del {
			w.etcd.del(ev.key)
		} else {
			w.etcd.put(ev.key, ev.val)
		}
	}
	w.ops = append(w.ops, c15Op{Op: how})
	nb := w.etcd.watchCount()
	switch how {
	case "wcancel":
		c15Send(lw, clientv3Canceled())
	case "wcompact":
		c15Send(lw, clientv3Compacted(w.etcd.rev()))
	}
	close(lw.ch)
	if !w.waitWatches(nb+1, "re-watch") {
		return
	}
	nws := w.etcd.watchesFrom(nb)
	w.nRewatch++
	if len(nws) == 0 {
		w.live = nil
	} else {
		w.live[0] = nws[0]
		if nws[0].cursor < w.delivered {
			// replay of already processed revisions: weak oracle for exclusive subscribers
			for _, s := range w.subs {
				if s.excl {
					s.tainted = true
				}
			}
		}
	}
	w.m.Count("changes_between_break_and_rewatch", int64(w.pending()))
	if w.pump(w.etcd.logLen(), w.r.Intn(3)) {
		w.check("gap-after-snapshot")
	}
}

func c15GapScenario(m *vk.M, idx int, r *rand.Rand, kinds map[string]int64) bool {
	w := newC15World(m, idx, r, []string{"c15.gap"})
	if w.incon {
		return false
	}
	w.tag = "gap-after-snapshot"
	g := newC15Gen(w, r, false)
	if idx%5 == 0 {
		// a fresh etcd: the store is empty and at revision 1, the first snapshot carries
		// revision 1
		w.etcd.base = 1
	} else {
		for i := r.Intn(3); i > 0; i-- {
			g.putOrDel(true)
		}
	}
	w.gapAttach(g, idx%4 == 0, 1+r.Intn(3)) // first Monitor
	steps := 4 + r.Intn(6)
	for i := 0; i < steps && !w.stopped(); i++ {
		switch x := r.Intn(10); {
		case x < 4:
			for j := r.Intn(3); j > 0; j-- {
				g.putOrDel(r.Intn(2) == 0) // missed until this reload
			}
			w.gapReload(g, 1+r.Intn(3))
		case x < 6:
			w.gapRewatch(g, []string{"wclose", "wcancel", "wcompact"}[r.Intn(3)], 1+r.Intn(3))
		case x < 7:
			if len(w.subs) < 3 {
				w.gapAttach(g, r.Intn(2) == 0, 1+r.Intn(2)) // late join
			}
		default:
			g.putOrDel(r.Intn(2) == 0)
			if r.Intn(2) == 0 {
				w.exec(c15Op{Op: "pump", M: r.Intn(3)})
			}
		}
	}
	if !w.stopped() {
		w.exec(c15Op{Op: "pump"})
		w.gapReload(g, r.Intn(3))
	}
	if w.incon {
		return false
	}
	c15Finish(m, w, kinds, 29)
	return true
}

func TestVerifC15GapAfterSnapshot(t *testing.T) {
	logx.Disable()
	m := vk.New(t, "C15", "1-3 puts/deletes are applied by the model etcd right after each snapshot Get (first Monitor, late join, every reload) and between a broken watch stream and its re-subscription; watchers are only streamed the log from the position their start revision designates; "+c15Rule+"; every Watch call starts at or before (newest revision the registry was told for the prefix)+1")
	defer m.Done()
	defer c15Wall(m, time.Now())
	kinds := map[string]int64{}
	n := vk.N(250, 8000)
	for idx := 1; idx <= n; idx++ {
		if !m.Only(idx) {
			continue
		}
		if !c15GapScenario(m, idx, m.Rand("gap", idx), kinds) {
			return
		}
	}
	c15FlushKinds(m, kinds)
}
