//go:build verif

package internal_test

// C15 — concurrent workload for the -race run. A publisher goroutine registers
// and expires keys in the model etcd while one pump goroutine per live watcher
// streams the log to the registry in small responses (as etcd does), readers
// call Values() in loops, and the controller attaches subscribers, breaks watch
// streams and reloads. Before a reload the old watchers are abandoned: what
// they had not delivered is missed and only visible in the reload snapshot; the
// new watchers are replayed everything after the snapshot's revision. The
// oracle runs once, after the publisher stopped, every live watcher was drained
// and every watch goroutine is parked again.
//
// Round kinds (the kind is part of the violation signature):
//   single-stream     every join is made while the streams are paused and is followed
//                     at once by a reload, so one stream per key is ever active
//   multi-stream      joins while the streams are paused; every subscriber keeps its
//                     own stream until the next reload, streams run out of step
//   streaming-attach  joins while events are being processed
//   inflight-reload   (thorough) single-stream, but reloads start while responses are
//                     still being processed by the old watch goroutine

import (
	"fmt"
	"math/rand"
	"os"
	"sort"
	"strconv"
	"sync"
	"sync/atomic"
	"testing"
	"time"

	"github.com/gotid/god/lib/discov/internal"
	"github.com/gotid/god/lib/logx"
	"verif.local/vk"
)

type c15Conc struct {
	w       *c15World
	kind    string
	stop    bool // guarded by etcd.mu: publisher finished, pumps drain and exit
	paused  bool // guarded by etcd.mu: pumps do not start a send
	inSend  int  // guarded by etcd.mu: pumps between picking events and the end of their send
	pumps   sync.WaitGroup
	pumpErr atomic.Bool
	sent    atomic.Int64
	dropped atomic.Int64
	dupSeen atomic.Int64
	reads   atomic.Int64
	subsMu  sync.Mutex // guards w.subs for the readers
}

func c15Closed(ch chan struct{}) bool {
	select {
	case <-ch:
		return true
	default:
		return false
	}
}

// pump streams the log to one watcher until it is abandoned or (after stop)
// drained.
func (c *c15Conc) pump(lw *c15Watch, r *rand.Rand) {
	defer c.pumps.Done()
	defer close(lw.pumpDone)
	e := c.w.etcd
	for {
		e.mu.Lock()
		for {
			if c15Closed(lw.dead) {
				if n := len(e.log) - lw.cursor; n > 0 {
					c.dropped.Add(int64(n))
				}
				e.mu.Unlock()
				return
			}
			if !c.paused && lw.cursor < len(e.log) {
				break
			}
			if c.stop && !c.paused && lw.cursor >= len(e.log) {
				e.mu.Unlock()
				return
			}
			e.cond.Wait()
		}
		n := len(e.log) - lw.cursor
		if n > 4 {
			n = 4
		}
		n = 1 + r.Intn(n)
		var evs []c15Ev
		for _, ev := range e.log[lw.cursor : lw.cursor+n] {
			if lw.wants(ev) {
				evs = append(evs, ev)
			}
		}
		lw.cursor += n
		if len(evs) == 0 {
			e.mu.Unlock()
			continue
		}
		c.inSend++
		e.mu.Unlock()
		ok, abandoned := c15Send(lw, c15Response(evs, 0))
		e.mu.Lock()
		c.inSend--
		e.cond.Broadcast()
		e.mu.Unlock()
		if abandoned {
			return
		}
		if !ok {
			c.pumpErr.Store(true)
			return
		}
		c.sent.Add(int64(len(evs)))
	}
}

func (c *c15Conc) startPumps(ws []*c15Watch, r *rand.Rand) {
	for _, lw := range ws {
		c.pumps.Add(1)
		go c.pump(lw, rand.New(rand.NewSource(r.Int63())))
	}
}

// pause: no pump starts a send and none is in one; then the watch goroutines
// are awaited in their loops.
func (c *c15Conc) pause() bool {
	e := c.w.etcd
	e.mu.Lock()
	c.paused = true
	for c.inSend > 0 {
		e.cond.Wait()
	}
	e.mu.Unlock()
	return len(c.w.live) == 0 || c.w.quiesce()
}

func (c *c15Conc) resume() {
	e := c.w.etcd
	e.mu.Lock()
	c.paused = false
	e.cond.Broadcast()
	e.mu.Unlock()
}

func (c *c15Conc) abandon(ws []*c15Watch) bool {
	e := c.w.etcd
	e.mu.Lock()
	for _, lw := range ws {
		if !c15Closed(lw.dead) {
			close(lw.dead)
		}
	}
	e.cond.Broadcast()
	e.mu.Unlock()
	// only the pumps send: once they have left, nothing more reaches these watchers
	for _, lw := range ws {
		select {
		case <-lw.pumpDone:
		case <-time.After(c15Watchdog):
			c.w.inconclusive("pump of watcher %d did not stop", lw.id)
			return false
		}
	}
	return true
}

func (c *c15Conc) doAttach(svc string, excl bool, r *rand.Rand) bool {
	w := c.w
	nb := w.etcd.watchCount()
	sub, ok := w.newSubscriber(svc, excl)
	if !ok {
		return false
	}
	s := &c15Sub{id: len(w.subs), svc: svc, excl: excl, sub: sub, own: map[string]map[string]bool{}, tainted: true}
	sub.AddListener(s.listener)
	c.subsMu.Lock()
	w.subs = append(w.subs, s)
	c.subsMu.Unlock()
	w.nAttach++
	if !w.waitWatches(nb+1, "attach") {
		return false
	}
	nw := w.etcd.watchesFrom(nb)
	w.live = append(w.live, nw...)
	c.startPumps(nw, r)
	return true
}

func (c *c15Conc) doReload(quiesced bool, r *rand.Rand) bool {
	w := c.w
	if !c.abandon(w.live) {
		return false
	}
	if quiesced && !w.quiesce() {
		return false
	}
	nb := w.etcd.watchCount()
	expected := internal.C15ListenedKeys(w.eps)
	done := make(chan struct{})
	go func() {
		internal.C15Reload(w.eps, w.etcd)
		close(done)
	}()
	select {
	case <-done:
	case <-time.After(c15Watchdog):
		w.reloadBlocked("reload started while watch responses were in flight (concurrent workload)")
		return false
	}
	if !w.waitWatches(nb+expected, "reload") {
		return false
	}
	w.live = w.etcd.watchesFrom(nb)
	w.nReloads++
	c.startPumps(w.live, r)
	return true
}

// attach: quiet = while the streams are paused and the watch goroutines parked;
// collapse = followed at once (still paused) by a reload.
func (c *c15Conc) attach(svc string, excl, quiet, collapse bool, r *rand.Rand) bool {
	w := c.w
	w.ops = append(w.ops, c15Op{Op: "sub", X: excl, S: fmt.Sprintf("quiet=%v collapse=%v log=%d", quiet, collapse, w.etcd.logLen())})
	if quiet {
		if !c.pause() {
			return false
		}
		defer c.resume()
	}
	if !c.doAttach(svc, excl, r) {
		return false
	}
	if collapse {
		return c.doReload(true, r)
	}
	return true
}

func (c *c15Conc) reload(quiesced bool, r *rand.Rand) bool {
	c.w.ops = append(c.w.ops, c15Op{Op: "reload", S: fmt.Sprintf("quiesced=%v log=%d", quiesced, c.w.etcd.logLen())})
	return c.doReload(quiesced, r)
}

func (c *c15Conc) rewatch(r *rand.Rand) bool {
	w := c.w
	if len(w.live) == 0 {
		return true
	}
	i := r.Intn(len(w.live))
	lw := w.live[i]
	w.ops = append(w.ops, c15Op{Op: "wclose", N: lw.id, S: fmt.Sprintf("log=%d", w.etcd.logLen())})
	if !c.abandon([]*c15Watch{lw}) {
		return false
	}
	nb := w.etcd.watchCount()
	close(lw.ch)
	if !w.waitWatches(nb+1, "re-watch") {
		return false
	}
	nw := w.etcd.watchesFrom(nb)
	w.nRewatch++
	if len(nw) == 0 {
		w.live = append(w.live[:i], w.live[i+1:]...)
		return true
	}
	w.live[i] = nw[0]
	c.startPumps(nw[:1], r)
	return true
}

func c15RaceRound(m *vk.M, idx int, r *rand.Rand, kind string) (cont bool) {
	svc := "c15.race"
	w := newC15World(m, idx, r, []string{svc})
	if w.incon {
		return false
	}
	c := &c15Conc{w: w, kind: kind}
	// in-flight reloads are studied on one stream per key, so that a deviation there is not the
	// (known) multi-stream class under another name
	single := kind == "single-stream" || kind == "inflight-reload"
	quietAttach := kind != "streaming-attach"
	nKeys := 4 + r.Intn(6)
	nVals := 2 + r.Intn(3)
	val := func(k int) string { return fmt.Sprintf("10.2.0.%d:7000", 1+k%nVals) }
	for k := 1; k <= nKeys; k++ {
		w.valOf[c15Key(svc, k)] = val(k)
	}
	// a few keys before anybody subscribes
	carriers := map[string]map[string]bool{}
	for i := r.Intn(3); i > 0; i-- {
		k := 1 + r.Intn(nKeys)
		w.put(0, k, val(k))
		if carriers[val(k)] == nil {
			carriers[val(k)] = map[string]bool{}
		}
		carriers[val(k)][c15Key(svc, k)] = true
	}
	if !c.attach(svc, false, true, single, r) {
		return false
	}
	if r.Intn(2) == 0 {
		if !c.attach(svc, true, true, single, r) {
			return false
		}
	}
	// publisher
	nPub := 60 + r.Intn(140)
	pubSeed := r.Int63()
	var pubWG sync.WaitGroup
	var puts, dels int64
	pubWG.Add(1)
	go func() {
		defer pubWG.Done()
		pr := rand.New(rand.NewSource(pubSeed))
		for i := 0; i < nPub; i++ {
			k := 1 + pr.Intn(nKeys)
			key := c15Key(svc, k)
			e := w.etcd
			e.mu.Lock()
			if _, ok := e.store[key]; ok {
				e.delLocked(key)
				dels++
			} else {
				e.putLocked(key, val(k))
				puts++
				if carriers[val(k)] == nil {
					carriers[val(k)] = map[string]bool{}
				}
				carriers[val(k)][key] = true
			}
			e.cond.Broadcast()
			e.mu.Unlock()
			if pr.Intn(3) == 0 {
				time.Sleep(time.Duration(pr.Intn(200)) * time.Microsecond) // pacing only
			}
		}
	}()
	// readers
	var rdWG sync.WaitGroup
	var rdStop atomic.Bool
	for i := 0; i < 2; i++ {
		rdWG.Add(1)
		go func(seed int64) {
			defer rdWG.Done()
			rr := rand.New(rand.NewSource(seed))
			for !rdStop.Load() {
				c.subsMu.Lock()
				s := w.subs[rr.Intn(len(w.subs))]
				c.subsMu.Unlock()
				got := s.sub.Values()
				c.reads.Add(1)
				if len(c15Set(got)) != len(got) {
					c.dupSeen.Add(1)
				}
				if rr.Intn(4) == 0 {
					time.Sleep(time.Duration(rr.Intn(100)) * time.Microsecond)
				}
			}
		}(r.Int63())
	}
	// controller
	ok := true
	nCtl := 3 + r.Intn(6)
	for i := 0; i < nCtl && ok; i++ {
		time.Sleep(time.Duration(r.Intn(1500)) * time.Microsecond) // pacing only; no verdict depends on it
		switch x := r.Intn(10); {
		case x < 4:
			ok = c.reload(kind != "inflight-reload" || r.Intn(2) == 0, r)
		case x < 7:
			if len(w.subs) < 5 {
				ok = c.attach(svc, r.Intn(2) == 0, quietAttach, single, r)
			}
		default:
			ok = c.rewatch(r)
		}
	}
	pubWG.Wait()
	if ok && r.Intn(2) == 0 {
		ok = c.reload(true, r)
	}
	// drain
	w.etcd.mu.Lock()
	c.stop = true
	w.etcd.cond.Broadcast()
	w.etcd.mu.Unlock()
	if ok {
		drained := vk.Within(2*c15Watchdog, c.pumps.Wait)
		if !drained || c.pumpErr.Load() {
			w.inconclusive("pumps did not drain (a watcher stopped taking events)")
			ok = false
		}
	} else if !w.wedged {
		c.abandon(w.live)
	}
	rdStop.Store(true)
	rdWG.Wait()
	phase := "concurrent-" + kind
	if ok && w.quiesce() {
		// quiescence: publisher done, every live watcher drained, watch goroutines parked
		w.delivered = w.etcd.logLen()
		for v, ks := range carriers {
			w.carriers[svc+"|"+v] = ks
		}
		for pass := 0; pass < 2; pass++ {
			for _, s := range w.subs {
				if s.excl != (pass == 1) || w.failed {
					continue
				}
				got := s.sub.Values()
				w.ops = append(w.ops, c15Op{Op: "final", N: s.id, S: fmt.Sprint(got, " registry cache=", internal.C15Cache(w.eps, svc))})
				if w.checkSub(s, got, phase) {
					// the last listener run saw the final list
					s.mu.Lock()
					calls, last := s.calls, append([]string(nil), s.last...)
					s.mu.Unlock()
					if calls > 0 && !c15Equal(c15Set(last), c15Set(got)) {
						sort.Strings(last)
						w.violate("C15:listener:stale-view:"+phase, "subscriber #%d (%s): the last of %d listener invocations saw %v, final Values()=%v", s.id, s.mode(), calls, last, got)
					}
				}
			}
		}
		if n := c.dupSeen.Load(); n > 0 && !w.failed {
			w.violate("C15:values:duplicate:concurrent-read", "%d concurrent Values() calls returned a list with a repeated value", n)
		}
	}
	if w.incon {
		return false
	}
	m.Count("rounds_"+kind, 1)
	m.Count("publisher_puts", puts)
	m.Count("publisher_deletes", dels)
	m.Count("events_streamed_to_watchers", c.sent.Load())
	m.Count("events_dropped_with_abandoned_watchers", c.dropped.Load())
	m.Count("concurrent_Values_reads", c.reads.Load())
	m.Count("reloads", int64(w.nReloads))
	m.Count("subscribers_attached", int64(w.nAttach))
	m.Count("watch_streams_broken", int64(w.nRewatch))
	m.Count("quiescent_subscriber_checks", int64(w.nChecks))
	m.Count("listener_invocations", w.listenerCalls())
	m.Case(vk.Digest(idx, kind, puts, dels, c.sent.Load(), w.nReloads, w.nAttach), c.sent.Load() > 0 && w.nChecks > 0)
	if m.WantSample() && idx%23 == 1 {
		finals := map[string][]string{}
		for _, s := range w.subs {
			v := s.sub.Values()
			sort.Strings(v)
			finals[fmt.Sprintf("sub%d(%s)", s.id, s.mode())] = v
		}
		m.Sample(map[string]any{"round": idx, "kind": kind, "publisher_ops": nPub, "streamed": c.sent.Load(), "dropped_with_abandoned_watchers": c.dropped.Load(),
			"reloads": w.nReloads, "subscribers": w.nAttach, "final_Values": finals, "model_keys": w.etcd.snapshot(svc)})
	}
	wedged := w.wedged
	w.dispose()
	return !wedged
}

// TestVerifC15RaceConcurrent runs under the race detector.
func TestVerifC15RaceConcurrent(t *testing.T) {
	logx.Disable()
	m := vk.New(t, "C15", "concurrent rounds (publisher, one streaming pump per watcher, Values() readers, controller: attach/reload/break stream; kinds single-stream, multi-stream, streaming-attach, inflight-reload); after the publisher stopped, all live watchers drained and all watch goroutines parked: plain subscribers equal the model, exclusive subscribers list only values of live keys and every value that only one key ever carried, last listener run saw the final list, no Values() result repeats a value; race detector on")
	defer m.Done()
	defer c15Wall(m, time.Now())
	n := vk.N(300, 3000)
	if v, err := strconv.Atoi(os.Getenv("C15_RACE_ROUNDS")); err == nil && v > 0 {
		n = v // fixed by the run spec (failpoint-widened run), never a time budget
	}
	if fp := os.Getenv("GOFAIL_FAILPOINTS"); fp != "" {
		m.Note("failpoints active: %s", fp)
	}
	for idx := 1; idx <= n; idx++ {
		if !m.Only(idx) {
			continue
		}
		r := m.Rand("race", idx)
		kind := []string{"single-stream", "multi-stream", "single-stream", "multi-stream", "streaming-attach"}[idx%5]
		if vk.Thorough() && idx%7 == 0 {
			kind = "inflight-reload"
		}
		if !c15RaceRound(m, idx, r, kind) {
			return
		}
		if idx%100 == 0 {
			m.Progress()
		}
	}
}
