//go:build verif

package internal

// C15 — seam for the external monitor (package internal_test, which also imports
// lib/discov). Every reference to an unexported identifier of this package that
// the C15 monitor needs is confined to this file.

import (
	"context"
	"io"
	"sync"

	"google.golang.org/grpc/connectivity"
)

// C15Inject pre-seeds the package's connection manager so that the cluster of
// these endpoints uses cli instead of dialing etcd.
func C15Inject(endpoints []string, cli EtcdClient) error {
	eps := append([]string(nil), endpoints...)
	got, err := connManager.Get(getClusterKey(eps), func() (io.Closer, error) {
		return cli, nil
	})
	if err != nil {
		return err
	}
	if got != io.Closer(cli) {
		return errC15("endpoints already bound to another client")
	}
	return nil
}

type errC15 string

func (e errC15) Error() string { return string(e) }

func c15Cluster(endpoints []string) *cluster {
	eps := append([]string(nil), endpoints...)
	key := getClusterKey(eps)
	registry.lock.Lock()
	defer registry.lock.Unlock()
	return registry.clusters[key]
}

// C15Reload runs what the connection-state watcher starts on a reconnect:
// cluster.reload(cli). It returns false if the cluster does not exist.
func C15Reload(endpoints []string, cli EtcdClient) bool {
	c := c15Cluster(endpoints)
	if c == nil {
		return false
	}
	c.reload(cli)
	return true
}

// C15ListenedKeys returns how many distinct keys the cluster monitors.
func C15ListenedKeys(endpoints []string) int {
	c := c15Cluster(endpoints)
	if c == nil {
		return 0
	}
	c.lock.Lock()
	defer c.lock.Unlock()
	return len(c.listeners)
}

// C15Dispose stops the watch goroutines of a finished scenario and forgets the
// cluster (clean-up only; runs after every verdict of the scenario).
func C15Dispose(endpoints []string) {
	eps := append([]string(nil), endpoints...)
	key := getClusterKey(eps)
	registry.lock.Lock()
	c := registry.clusters[key]
	delete(registry.clusters, key)
	registry.lock.Unlock()
	if c == nil {
		return
	}
	c.lock.Lock()
	c.listeners = make(map[string][]UpdateListener)
	close(c.done)
	g := c.watchGroup
	c.lock.Unlock()
	g.Wait()
}

// C15Conn is a scripted etcdConn (the interface stateWatcher consumes).
type C15Conn struct {
	mu    sync.Mutex
	state connectivity.State
}

func (c *C15Conn) GetState() connectivity.State {
	c.mu.Lock()
	defer c.mu.Unlock()
	return c.state
}

func (c *C15Conn) WaitForStateChange(ctx context.Context, s connectivity.State) bool {
	return true
}

// C15Trigger wires a real stateWatcher to the cluster's reload the way
// cluster.watchConnState does (listener = start a reload), with a scripted
// connection instead of a *grpc.ClientConn.
type C15Trigger struct {
	w    *stateWatcher
	conn *C15Conn
}

// C15NewTrigger: onFire is called synchronously by the state watcher's
// listener; it is expected to start the reload.
func C15NewTrigger(initial connectivity.State, onFire func()) *C15Trigger {
	t := &C15Trigger{w: newStateWatcher(), conn: &C15Conn{state: initial}}
	t.w.currentState = initial // what watch() does before its loop
	t.w.addListener(onFire)
	return t
}

// Feed makes the connection report state s and runs the watcher's reaction
// (stateWatcher.updateState), exactly what watch() does after a state change.
func (t *C15Trigger) Feed(s connectivity.State) {
	t.conn.mu.Lock()
	t.conn.state = s
	t.conn.mu.Unlock()
	t.w.updateState(t.conn)
}

// C15Cache returns a copy of the cluster's cached key->value snapshot of a key
// (diagnostics in witnesses only; no verdict depends on it).
func C15Cache(endpoints []string, key string) map[string]string {
	c := c15Cluster(endpoints)
	if c == nil {
		return nil
	}
	out := map[string]string{}
	for _, kv := range c.getCurrent(key) {
		out[kv.Key] = kv.Val
	}
	return out
}

// C15WatchConnState starts what cluster.newClient starts for a real client:
// the connection-state watcher on cli.ActiveConnection().
func C15WatchConnState(endpoints []string, cli EtcdClient) bool {
	c := c15Cluster(endpoints)
	if c == nil {
		return false
	}
	go c.watchConnState(cli)
	return true
}

// C15ScriptConn is a scripted etcdConn with the semantics of a gRPC connection:
// WaitForStateChange returns at once if the state differs from the source state
// and blocks otherwise. A one-shot "flip" makes the state change right after
// GetState has returned a given state (a transition that completes between two
// consecutive calls of the watcher).
type C15ScriptConn struct {
	mu      sync.Mutex
	state   connectivity.State
	ch      chan struct{}
	flip    map[connectivity.State]connectivity.State
	reads   map[connectivity.State]int
	blocked map[connectivity.State]int // waiters parked in WaitForStateChange, per source state
}

func C15NewScriptConn(s connectivity.State) *C15ScriptConn {
	return &C15ScriptConn{state: s, ch: make(chan struct{}), flip: map[connectivity.State]connectivity.State{}, reads: map[connectivity.State]int{}, blocked: map[connectivity.State]int{}}
}

func (c *C15ScriptConn) setLocked(s connectivity.State) {
	if s != c.state {
		c.state = s
		close(c.ch)
		c.ch = make(chan struct{})
	}
}

// Set changes the connection state.
func (c *C15ScriptConn) Set(s connectivity.State) {
	c.mu.Lock()
	c.setLocked(s)
	c.mu.Unlock()
}

// FlipAfterRead: the next GetState that returns from is followed at once by a
// change to to.
func (c *C15ScriptConn) FlipAfterRead(from, to connectivity.State) {
	c.mu.Lock()
	c.flip[from] = to
	c.mu.Unlock()
}

func (c *C15ScriptConn) GetState() connectivity.State {
	c.mu.Lock()
	defer c.mu.Unlock()
	s := c.state
	c.reads[s]++
	if to, ok := c.flip[s]; ok {
		delete(c.flip, s)
		c.setLocked(to)
	}
	return s
}

func (c *C15ScriptConn) WaitForStateChange(ctx context.Context, source connectivity.State) bool {
	c.mu.Lock()
	if c.state != source {
		c.mu.Unlock()
		return true
	}
	ch := c.ch
	c.blocked[source]++
	c.mu.Unlock()
	defer func() {
		c.mu.Lock()
		c.blocked[source]--
		c.mu.Unlock()
	}()
	select {
	case <-ch:
		return true
	case <-ctx.Done():
		return false
	}
}

// Settled reports the current state, whether a waiter is parked waiting for that
// state to change, and how often GetState returned each state.
func (c *C15ScriptConn) Settled() (connectivity.State, bool, map[connectivity.State]int) {
	c.mu.Lock()
	defer c.mu.Unlock()
	r := map[connectivity.State]int{}
	for k, v := range c.reads {
		r[k] = v
	}
	return c.state, c.blocked[c.state] > 0, r
}

// C15WatchScripted runs a real stateWatcher's watch loop on conn, wired as
// cluster.watchConnState does (one listener; onFire is expected to start the
// reload).
func C15WatchScripted(conn *C15ScriptConn, onFire func()) {
	w := newStateWatcher()
	w.addListener(onFire)
	go w.watch(conn)
}
