//go:build verif

package internal_test

// C15 — schedule family "the reconnect reload starts while a watch response is
// still being processed" (gated, deterministic): the subscriber's change
// listener, which runs on the watch goroutine, is parked at a chosen event of a
// multi-event response; more changes happen (missed); the reload is started and
// the harness waits until the reload goroutine is parked (or done); then the
// listener is released. The reload must complete and the view must converge.

import (
	"fmt"
	"google.golang.org/grpc/connectivity"
	"strings"
	"sync/atomic"
	"testing"
	"time"

	"github.com/gotid/god/lib/discov"
	"github.com/gotid/god/lib/discov/internal"
	"github.com/gotid/god/lib/logx"
	"verif.local/vk"
)

// c15DeadlockWitness looks for the reload goroutine parked in WaitGroup.Wait
// together with a goroutine of the package parked on a mutex.
func c15DeadlockWitness() (reloadStack, lockStack string) {
	for _, g := range c15Goroutines() {
		if !strings.Contains(g.text, c15Pkg) {
			continue
		}
		waiting := strings.Contains(g.text, "sync.(*WaitGroup).Wait")
		switch {
		case waiting && strings.Contains(g.text, "(*cluster).reload("):
			reloadStack = g.text
		case !waiting && !strings.Contains(g.text, "internal_test.(*c15Etcd)") && (strings.Contains(g.text, "sync.(*Mutex).") || strings.Contains(g.text, "sync.(*RWMutex).")):
			lockStack = g.text
		}
	}
	return
}

func c15Trim(s string, n int) string {
	if len(s) > n {
		return s[:n] + "…"
	}
	return s
}

// reloadBlocked decides, after the watchdog, between a deadlock witness and
// inconclusive.
func (w *c15World) reloadBlocked(what string) {
	rs, ls := c15DeadlockWitness()
	if rs != "" && ls != "" {
		w.wedged = true
		w.violate("C15:reload:deadlock:inflight-watch-events",
			"%s: reload did not return within %v. The reload goroutine waits for the watch goroutines while it holds the cluster lock; a watch goroutine that still has events to process waits for that lock:\n%s\n\n%s",
			what, c15Watchdog, c15Trim(rs, 900), c15Trim(ls, 1100))
		return
	}
	w.wedged = true
	c15Wedged.Store(true)
	if rs != "" {
		held := false
		for _, g := range c15PkgGoroutines() {
			if strings.Contains(g.text, "internal_test.(*c15Sub).listener") {
				held = true // a watch goroutine is still inside a gated listener
			}
		}
		if !held {
			var others []string
			for _, g := range c15PkgGoroutines() {
				if g.text != rs {
					others = append(others, c15Trim(g.text, 700))
				}
			}
			w.violate("C15:reload:hang:watchers-not-stopped", "%s: reload did not return within %v. It waits (not holding the cluster lock) for the old watch goroutines, which were all parked in their loops when it started and do not exit; no listener is held back by the harness. The reload never re-reads the snapshot, missed changes stay invisible.\n%s\n--- other goroutines of the package:\n%s",
				what, c15Watchdog, c15Trim(rs, 900), strings.Join(others, "\n\n"))
			return
		}
	}
	var dump []string
	for _, g := range c15Goroutines() {
		if strings.Contains(g.text, c15Pkg) {
			dump = append(dump, c15Trim(g.text, 1200))
		}
	}
	w.inconclusive("%s: reload did not return within %v and no lock cycle was recognised in the goroutine dump:\n%s", what, c15Watchdog, strings.Join(dump, "\n\n"))
}

// inflightReload: ne pending events are handed to the only live watcher in one
// response; the listener of subscriber 0 parks at its gateAt-th invocation of
// that response; extra() applies further (missed) changes; then reload.
func (w *c15World) inflightReload(ne, gateAt int, extra func()) {
	if len(w.live) != 1 || w.pending() < ne || len(w.subs) == 0 {
		w.inconclusive("inflight scenario not set up (live=%d pending=%d)", len(w.live), w.pending())
		return
	}
	w.ops = append(w.ops, c15Op{Op: "inflight-batch", N: ne, M: gateAt})
	w.tag = "after-reload-inflight"
	lw := w.live[0]
	s0 := w.subs[0]
	g := &c15Gate{entered: make(chan struct{}), release: make(chan struct{})}
	s0.mu.Lock()
	g.at = s0.calls + int64(gateAt)
	s0.gate = g
	s0.mu.Unlock()
	evs := w.etcd.events(w.delivered, w.delivered+ne)
	if ok, _ := c15Send(lw, c15Response(evs, 0)); !ok {
		w.inconclusive("watcher did not take the in-flight response")
		close(g.release)
		return
	}
	// the listener parks at the gate - or the watch goroutine is back in its loop without
	// having invoked the listener gateAt times: leave that verdict to the oracle
	reached := false
	vk.WaitUntil(c15Watchdog, func() bool {
		select {
		case <-g.entered:
			reached = true
			return true
		default:
		}
		return c15WatchersIdle(1)
	})
	if !reached {
		select {
		case <-g.entered:
			reached = true
		default:
			w.m.Count("gate_not_reached", 1)
		}
	}
	lw.cursor = w.delivered + ne
	for _, ev := range evs {
		w.applyDelivered(ev)
	}
	w.delivered += ne
	w.nDelivered += ne
	extra()
	w.ops = append(w.ops, c15Op{Op: "reload-while-processing"})
	nb := w.etcd.watchCount()
	expected := internal.C15ListenedKeys(w.eps)
	done := make(chan struct{})
	go func() {
		internal.C15Reload(w.eps, w.etcd)
		close(done)
	}()
	// wait until the reload goroutine is parked somewhere (or finished)
	parked := vk.WaitUntil(c15Watchdog, func() bool {
		select {
		case <-done:
			return true
		default:
		}
		for _, gr := range c15Goroutines() {
			if strings.Contains(gr.text, "internal.C15Reload") {
				return gr.state != "running" && gr.state != "runnable"
			}
		}
		return false
	})
	close(g.release)
	if !parked {
		w.inconclusive("reload goroutine neither parked nor finished within %v", c15Watchdog)
		return
	}
	select {
	case <-done:
	case <-time.After(c15Watchdog):
		w.reloadBlocked(fmt.Sprintf("reload started while the watch goroutine was at event %d of a %d-event response", gateAt, ne))
		return
	}
	w.m.Count("reloads_started_during_event_processing", 1)
	w.afterReload(nb, expected, "after-reload-inflight")
}

func TestVerifC15ReloadInflight(t *testing.T) {
	logx.Disable()
	m := vk.New(t, "C15", "reload started while a 1-4 event watch response is being processed (listener gated at event j, reload goroutine observed parked before release), with further missed changes: reload returns; "+c15Rule)
	defer m.Done()
	defer c15Wall(m, time.Now())
	kinds := map[string]int64{}
	n := vk.N(150, 4000)
	for idx := 1; idx <= n; idx++ {
		if !m.Only(idx) {
			continue
		}
		r := m.Rand("inflight", idx)
		w := newC15World(m, idx, r, []string{"c15.inflight"})
		if w.incon {
			return
		}
		g := newC15Gen(w, r, false)
		w.exec(c15Op{Op: "sub", X: false})
		if r.Intn(2) == 0 {
			w.exec(c15Op{Op: "sub", X: true})
		}
		for i := r.Intn(4); i > 0; i-- {
			g.putOrDel(true)
		}
		// one watch stream for the key: a reload collapses the per-subscriber streams
		w.exec(c15Op{Op: "reload"})
		if w.stopped() {
			if w.incon {
				return
			}
			c15Finish(m, w, kinds, 31)
			continue
		}
		ne := 1 + r.Intn(4)
		if idx%4 == 0 {
			ne = 2 + r.Intn(3)
		}
		for i := 0; i < ne; i++ {
			g.putOrDel(r.Intn(3) > 0)
		}
		gateAt := 1 + r.Intn(ne)
		if idx%3 == 0 && ne > 1 {
			gateAt = 1 + r.Intn(ne-1) // not the last event: the watch goroutine needs the lock again
		}
		w.inflightReload(ne, gateAt, func() {
			for i := r.Intn(3); i > 0; i-- {
				g.putOrDel(r.Intn(2) == 0)
			}
		})
		if !w.stopped() {
			// life goes on after the reload
			for i := 0; i < 4 && !w.stopped(); i++ {
				g.putOrDel(r.Intn(2) == 0)
				if r.Intn(2) == 0 {
					w.exec(c15Op{Op: "pump", M: r.Intn(3)})
				}
			}
			if !w.stopped() && w.pending() > 0 {
				w.exec(c15Op{Op: "reload"})
			}
		}
		if w.incon {
			return
		}
		wedged := w.wedged
		c15Finish(m, w, kinds, 31)
		if wedged {
			m.Note("stopped after the first deadlock witness (each further one would cost the %v watchdog)", c15Watchdog)
			break
		}
	}
	c15FlushKinds(m, kinds)
}

// ---- two watch streams of one key out of step -------------------------------
//
// Every subscriber attached to a key gets its own watch stream until a reload
// collapses them; each stream tells every listener of the key. Gated schedule:
// stream X has taken "put k" and is parked in subscriber 0's change listener
// (subscriber 1 has not been told yet); stream Y delivers "put k, del k" (k is
// gone); X continues and tells subscriber 1 about k; then the connection is lost
// before X delivers "del k", and the reload follows. At quiescence nobody may
// list k's value.

func (w *c15World) mutexParked() bool {
	for _, g := range c15Goroutines() {
		if strings.Contains(g.text, c15Pkg) && (g.state == "sync.Mutex.Lock" || g.state == "semacquire" || g.state == "sync.RWMutex.Lock" || g.state == "sync.RWMutex.RLock") {
			return true
		}
	}
	return false
}

func (w *c15World) twoStreams(k int, val string, viaReload bool) {
	if len(w.subs) == 2 && len(w.live) == 1 && w.pending() == 0 {
		// the implementation serves both subscribers of the key from one watch stream:
		// the out-of-step schedule does not exist there
		w.m.Count("two_stream_schedule_not_applicable_single_stream", 1)
		return
	}
	if len(w.live) != 2 || len(w.subs) != 2 || w.pending() != 0 {
		w.inconclusive("two-stream scenario not set up (live=%d subs=%d pending=%d)", len(w.live), len(w.subs), w.pending())
		return
	}
	x, y := w.live[0], w.live[1]
	s0, s1 := w.subs[0], w.subs[1]
	w.tag = "two-streams-out-of-step"
	w.put(0, k, val)
	w.del(0, k)
	evs := w.etcd.events(w.delivered, w.delivered+2)
	w.ops = append(w.ops, c15Op{Op: "streamX:put-parked-in-listener-of-sub0", K: k})
	g := &c15Gate{entered: make(chan struct{}), release: make(chan struct{})}
	s0.mu.Lock()
	g.at = s0.calls + 1
	s0.gate = g
	s0.mu.Unlock()
	s1.mu.Lock()
	want1 := s1.calls + 2
	s1.mu.Unlock()
	if ok, _ := c15Send(x, c15Response(evs[:1], 0)); !ok {
		close(g.release)
		w.inconclusive("stream X did not take the put")
		return
	}
	select {
	case <-g.entered:
	case <-time.After(c15Watchdog):
		close(g.release)
		w.inconclusive("listener gate of subscriber 0 not reached")
		return
	}
	w.ops = append(w.ops, c15Op{Op: "streamY:put+del-processed", K: k})
	sentY := make(chan bool, 1)
	go func() {
		ok, _ := c15Send(y, c15Response(evs, 0))
		sentY <- ok
	}()
	// Y has told subscriber 1 both events, or is parked on a lock X holds
	processed := vk.WaitUntil(c15Watchdog, func() bool {
		s1.mu.Lock()
		n := s1.calls
		s1.mu.Unlock()
		return n >= want1 || w.mutexParked()
	})
	close(g.release)
	if !processed {
		w.inconclusive("stream Y neither processed its events nor parked on a lock")
		return
	}
	select {
	case ok := <-sentY:
		if !ok {
			w.inconclusive("stream Y did not take its response")
			return
		}
	case <-time.After(c15Watchdog):
		w.inconclusive("stream Y did not take its response")
		return
	}
	y.cursor = w.delivered + 2
	x.cursor = w.delivered + 1
	if !w.quiesce() {
		return
	}
	w.nDelivered += 3
	w.m.Count("two_stream_gated_interleavings", 1)
	if viaReload {
		// connection lost before X delivers "del k": the event is missed, the reload
		// snapshot (without k) is all the registry gets
		for _, ev := range evs {
			w.applyDelivered(ev)
		}
		w.delivered += 2
		w.ops = append(w.ops, c15Op{Op: "streamX:del-missed"})
		nb := w.etcd.watchCount()
		expected := internal.C15ListenedKeys(w.eps)
		internal.C15Reload(w.eps, w.etcd)
		w.afterReload(nb, expected, "after-reload-two-streams")
		return
	}
	// no loss: X delivers its "del k" as well
	if ok, _ := c15Send(x, c15Response(evs[1:], 0)); !ok {
		w.inconclusive("stream X did not take the delete")
		return
	}
	x.cursor = w.delivered + 2
	w.nDelivered++
	if !w.quiesce() {
		return
	}
	for _, ev := range evs {
		w.applyDelivered(ev)
	}
	w.delivered += 2
	w.check("after-watch-events-two-streams")
}

func TestVerifC15TwoStreams(t *testing.T) {
	logx.Disable()
	m := vk.New(t, "C15", "two watch streams of one key out of step (gated): X parked after 'put k' reached subscriber 0 only, Y processes 'put k, del k', X resumes; then either X's 'del k' is missed and a reload follows, or X delivers it; "+c15Rule)
	defer m.Done()
	defer c15Wall(m, time.Now())
	kinds := map[string]int64{}
	n := vk.N(60, 1500)
	for idx := 1; idx <= n; idx++ {
		if !m.Only(idx) {
			continue
		}
		r := m.Rand("twostreams", idx)
		w := newC15World(m, idx, r, []string{"c15.two"})
		if w.incon {
			return
		}
		g := newC15Gen(w, r, false)
		for i := r.Intn(3); i > 0; i-- {
			g.putOrDel(true)
		}
		w.exec(c15Op{Op: "sub"})
		w.exec(c15Op{Op: "sub", X: idx%4 == 0})
		for i := r.Intn(3); i > 0 && !w.stopped(); i-- {
			g.putOrDel(r.Intn(3) > 0)
			w.exec(c15Op{Op: "pump", M: 1})
		}
		if !w.stopped() {
			// a key that is absent now; its value may be shared with live keys or not
			k := 20 + r.Intn(3)
			val := g.pools[0][r.Intn(len(g.pools[0]))]
			if r.Intn(2) == 0 {
				val = "10.9.9.9:1"
			}
			w.twoStreams(k, val, idx%3 != 0)
		}
		for i := 0; i < 3 && !w.stopped(); i++ {
			g.putOrDel(r.Intn(2) == 0)
			w.exec(c15Op{Op: "pump", M: r.Intn(3)})
		}
		if !w.stopped() {
			w.exec(c15Op{Op: "reload"})
		}
		if w.incon {
			return
		}
		c15Finish(m, w, kinds, 13)
	}
	c15FlushKinds(m, kinds)
}

// ---- a subscriber of a new key joins while a reload is waiting ----------------
//
// Gated schedule: the only watch goroutine (key 0) is parked in subscriber 0's
// change listener in the middle of a response; the reload is started and observed
// parked (it waits for that goroutine; the old done channel is closed); a
// subscriber of key 1, which nobody listens to yet, is created and NewSubscriber
// returns; more changes happen on both keys; the gate opens and the reload
// completes. Afterwards registrations/expirations of both keys are delivered to
// whatever watchers are alive. At quiescence both subscribers equal the model.
// Synchronisation on the way (checked against registry.go): monitor reads
// c.watchGroup / the new watch goroutine reads c.done without the lock, but both
// happen before that goroutine's Done(), which happens before reload's Wait()
// returns and reload writes the two fields - ordered, also for the race detector
// (the family runs under -race as well).

func (w *c15World) joinDuringReload(ne, gateAt int, excl bool, during func()) {
	if len(w.live) != 1 || w.pending() < ne || len(w.subs) == 0 || len(w.subsOf(w.svcs[1])) != 0 {
		w.inconclusive("join-during-reload scenario not set up (live=%d pending=%d)", len(w.live), w.pending())
		return
	}
	w.tag = "join-during-reload"
	w.ops = append(w.ops, c15Op{Op: "inflight-batch", N: ne, M: gateAt})
	lw := w.live[0]
	s0 := w.subs[0]
	g := &c15Gate{entered: make(chan struct{}), release: make(chan struct{})}
	released := false
	release := func() {
		if !released {
			released = true
			close(g.release)
		}
	}
	defer release()
	s0.mu.Lock()
	g.at = s0.calls + int64(gateAt)
	s0.gate = g
	s0.mu.Unlock()
	evs := w.etcd.events(w.delivered, w.delivered+ne)
	if ok, _ := c15Send(lw, c15Response(evs, 0)); !ok {
		w.inconclusive("watcher did not take the in-flight response")
		return
	}
	select {
	case <-g.entered:
	case <-time.After(c15Watchdog):
		w.inconclusive("listener gate not reached")
		return
	}
	lw.cursor = w.delivered + ne
	for _, ev := range evs {
		w.applyDelivered(ev)
	}
	w.delivered += ne
	w.nDelivered += ne
	w.ops = append(w.ops, c15Op{Op: "reload-while-processing"})
	nbR := w.etcd.watchCount()
	done := make(chan struct{})
	go func() {
		internal.C15Reload(w.eps, w.etcd)
		close(done)
	}()
	parked := vk.WaitUntil(c15Watchdog, func() bool {
		for _, gr := range c15Goroutines() {
			if strings.Contains(gr.text, "internal.C15Reload") {
				return gr.state != "running" && gr.state != "runnable"
			}
		}
		return false
	})
	if !parked {
		w.inconclusive("reload goroutine did not park while the watch goroutine is held")
		return
	}
	// the newcomer, on a key without listeners so far
	svc := w.svcs[1]
	w.ops = append(w.ops, c15Op{Op: "sub-during-reload", P: 1, X: excl})
	var sub *discov.Subscriber
	var err error
	returned := vk.Within(c15Watchdog, func() {
		var opts []discov.SubOption
		if excl {
			opts = append(opts, discov.Exclusive())
		}
		sub, err = discov.NewSubscriber(w.endpoints(), svc, opts...)
	})
	if !returned || err != nil {
		w.wedged = !returned
		w.inconclusive("NewSubscriber during a waiting reload: returned=%v err=%v", returned, err)
		return
	}
	s1 := &c15Sub{id: len(w.subs), svc: svc, excl: excl, sub: sub, own: map[string]map[string]bool{}}
	sub.AddListener(s1.listener)
	groups := map[string][]string{}
	snap1 := w.etcd.snapshot(svc)
	for k, v := range snap1 {
		groups[v] = append(groups[v], k)
	}
	for v, ks := range groups {
		s1.mAdd(ks, v)
	}
	w.setKnown(svc, snap1)
	w.subs = append(w.subs, s1)
	w.nAttach++
	w.nLate++
	during() // changes nobody is told about before the reload snapshot
	release()
	select {
	case <-done:
	case <-time.After(c15Watchdog):
		w.reloadBlocked("reload with a subscriber joining meanwhile")
		return
	}
	if !w.quiesce() {
		return
	}
	// alive watchers = those whose goroutine is parked on their channel now
	w.live = nil
	rev := w.etcd.rev()
	for _, cand := range w.etcd.watchesFrom(nbR) {
		if c15TrySend(cand, c15Response(nil, rev)) {
			w.live = append(w.live, cand)
		}
	}
	w.m.Count("joins_during_waiting_reload", 1)
	w.m.Count("watchers_alive_after_join_during_reload", int64(len(w.live)))
	if !w.quiesce() {
		return
	}
	missed := w.pending()
	for _, sv := range w.svcs {
		w.syncSvc(sv)
	}
	w.delivered = w.etcd.logLen()
	w.nMissed += missed
	w.nReloads++
	if missed > 0 {
		w.nReloadsAfterMiss++
	}
	if !w.pump(w.delivered, 1) {
		return
	}
	w.check("join-during-reload")
}

func c15JoinDuringReloadFamily(m *vk.M, n int) {
	kinds := map[string]int64{}
	for idx := 1; idx <= n; idx++ {
		if !m.Only(idx) {
			continue
		}
		r := m.Rand("joinreload", idx)
		w := newC15World(m, idx, r, []string{"c15.joinA", "c15.joinB"})
		if w.incon {
			return
		}
		g := newC15Gen(w, r, false)
		pick := func(p int) {
			// put or delete on service p
			var absent, present []int
			for k := 1; k <= g.nKeys[p]; k++ {
				if g.present[p][k] {
					present = append(present, k)
				} else {
					absent = append(absent, k)
				}
			}
			if len(absent) > 0 && (len(present) == 0 || r.Intn(3) > 0) {
				k := absent[r.Intn(len(absent))]
				w.exec(c15Op{Op: "put", P: p, K: k, V: g.pools[p][r.Intn(len(g.pools[p]))]})
				g.present[p][k] = true
			} else if len(present) > 0 {
				k := present[r.Intn(len(present))]
				w.exec(c15Op{Op: "del", P: p, K: k})
				delete(g.present[p], k)
			}
		}
		for i := r.Intn(3); i > 0; i-- {
			pick(1) // key B may already have publishers
		}
		w.exec(c15Op{Op: "sub", P: 0})
		for i := r.Intn(3); i > 0; i-- {
			pick(0)
		}
		w.exec(c15Op{Op: "reload"})
		if !w.stopped() {
			ne := 1 + r.Intn(3)
			for i := 0; i < ne; i++ {
				pick(0)
			}
			ne = w.pending()
			if ne == 0 {
				pick(0)
				ne = w.pending()
			}
			w.joinDuringReload(ne, 1+r.Intn(ne), idx%3 == 0, func() {
				for i := r.Intn(3); i > 0; i-- {
					pick(r.Intn(2))
				}
			})
		}
		// life goes on for both keys
		for i := 0; i < 6 && !w.stopped(); i++ {
			pick(i % 2)
			if r.Intn(2) == 0 {
				w.exec(c15Op{Op: "pump", M: r.Intn(3)})
			}
		}
		if !w.stopped() {
			w.exec(c15Op{Op: "pump"})
		}
		if !w.stopped() && r.Intn(2) == 0 {
			w.exec(c15Op{Op: "reload"})
		}
		if w.incon {
			return
		}
		wedged := w.wedged
		c15Finish(m, w, kinds, 11)
		if wedged {
			break
		}
	}
	c15FlushKinds(m, kinds)
}

func TestVerifC15JoinDuringReload(t *testing.T) {
	logx.Disable()
	m := vk.New(t, "C15", "a subscriber of a not yet listened key joins (NewSubscriber returns) while a reload waits for a watch goroutine parked mid-response; changes on both keys meanwhile; after the reload, changes of both keys are delivered to the watchers that are alive; "+c15Rule)
	defer m.Done()
	defer c15Wall(m, time.Now())
	c15JoinDuringReloadFamily(m, vk.N(120, 3000))
}

// TestVerifC15RaceJoinDuringReload: the same gated family under the race detector.
func TestVerifC15RaceJoinDuringReload(t *testing.T) {
	logx.Disable()
	m := vk.New(t, "C15", "join-during-reload family under the race detector; "+c15Rule)
	defer m.Done()
	defer c15Wall(m, time.Now())
	c15JoinDuringReloadFamily(m, vk.N(40, 600))
}

// ---- a subscriber joins while a reload's snapshot request is in flight ----------
//
// Gated at the dependency: every Get of the model etcd parks until the harness
// serves it. Changes are missed; a reload is started (directly, or by the real
// stateWatcher after a loss) and its snapshot Get is in flight; a second
// subscriber of the same key calls NewSubscriber - it is replayed the cluster's
// (stale) knowledge, registers, and its own snapshot Get is in flight too; the
// reload's Get is served first (its diff is announced, the cluster's knowledge
// replaced), then the newcomer's. Also with the opposite serving order. reload()
// itself has returned before the join, so monitor's unlocked reads are ordered
// after reload's writes through the cluster lock. At quiescence every
// subscriber equals the model.

func (w *c15World) joinDuringReloadGet(g *c15Gen, excl, viaTrigger, newcomerFirst bool, missed func()) {
	if len(w.live) != 1 || len(w.subs) == 0 || w.pending() != 0 {
		w.inconclusive("join-during-reload-get scenario not set up (live=%d pending=%d)", len(w.live), w.pending())
		return
	}
	w.tag = "join-during-reload-get"
	svc := w.svcs[0]
	missed()
	nMissed := w.pending()
	w.etcd.gateOn()
	defer w.etcd.gateOff()
	nb := w.etcd.watchCount()
	done := make(chan struct{})
	if viaTrigger {
		w.ops = append(w.ops, c15Op{Op: "state", S: "failure"}, c15Op{Op: "state", S: "ready"})
		w.trig.Feed(connectivity.TransientFailure)
		before := atomic.LoadInt64(&w.fired)
		w.trig.Feed(connectivity.Ready)
		if atomic.LoadInt64(&w.fired) == before {
			w.violate("C15:reconnect:no-reload", "connection reported ready after a loss but the state watcher did not start a reload (pending missed events: %d)", w.pending())
			return
		}
		go func() { <-w.reloaded; close(done) }()
	} else {
		w.ops = append(w.ops, c15Op{Op: "reload", S: "snapshot Get in flight"})
		go func() {
			internal.C15Reload(w.eps, w.etcd)
			close(done)
		}()
	}
	select {
	case <-done:
	case <-time.After(c15Watchdog):
		w.reloadBlocked("reload whose snapshot request is in flight")
		return
	}
	if !vk.WaitUntil(c15Watchdog, func() bool { return w.etcd.gatedCount() >= 1 }) {
		w.inconclusive("the reload's snapshot Get did not arrive")
		return
	}
	w.ops = append(w.ops, c15Op{Op: "sub-while-reload-get-in-flight", X: excl})
	type res struct {
		sub *discov.Subscriber
		err error
	}
	joined := make(chan res, 1)
	go func() {
		var opts []discov.SubOption
		if excl {
			opts = append(opts, discov.Exclusive())
		}
		sub, err := discov.NewSubscriber(w.endpoints(), svc, opts...)
		joined <- res{sub, err}
	}()
	if !vk.WaitUntil(c15Watchdog, func() bool { return w.etcd.gatedCount() >= 2 }) {
		w.inconclusive("the newcomer's snapshot Get did not arrive while the reload's is in flight")
		return
	}
	var nr res
	gotJoin := false
	waitJoin := func() bool {
		select {
		case nr = <-joined:
			gotJoin = true
			return true
		case <-time.After(c15Watchdog):
			w.wedged = true
			w.inconclusive("NewSubscriber did not return after its snapshot request was served")
			return false
		}
	}
	if newcomerFirst {
		// the Gets are parked in arrival order: reload's first. Serve both, the newcomer's
		// load can complete first only if the reload's is slower - serve, then wait for the join
		w.ops = append(w.ops, c15Op{Op: "serve-both-gets"})
		w.etcd.releaseOldest()
		w.etcd.releaseOldest()
		if !waitJoin() {
			return
		}
	} else {
		w.ops = append(w.ops, c15Op{Op: "serve-reload-get"})
		w.etcd.releaseOldest()
		if !vk.WaitUntil(c15Watchdog, func() bool { return w.etcd.watchCount() >= nb+1 }) {
			w.inconclusive("the reload did not re-watch after its snapshot was served")
			return
		}
		w.ops = append(w.ops, c15Op{Op: "serve-newcomer-get"})
		w.etcd.releaseOldest()
		if !waitJoin() {
			return
		}
	}
	if !gotJoin || nr.err != nil || nr.sub == nil {
		w.inconclusive("NewSubscriber failed: %v", nr.err)
		return
	}
	w.etcd.gateOff()
	s1 := &c15Sub{id: len(w.subs), svc: svc, excl: excl, sub: nr.sub, own: map[string]map[string]bool{}, tainted: true}
	nr.sub.AddListener(s1.listener)
	w.subs = append(w.subs, s1)
	w.nAttach++
	w.nLate++
	if !w.waitWatches(nb+2, "reload + join") {
		return
	}
	w.live = w.etcd.watchesFrom(nb)
	// the order in which the two snapshots were announced is not fixed: weak oracle for
	// exclusive subscribers of the key from here on
	for _, s := range w.subsOf(svc) {
		if s.excl {
			s.tainted = true
		}
	}
	w.syncSvc(svc)
	w.delivered = w.etcd.logLen()
	w.nMissed += nMissed
	w.nReloads++
	if nMissed > 0 {
		w.nReloadsAfterMiss++
	}
	w.m.Count("joins_while_reload_get_in_flight", 1)
	if !w.pump(w.delivered, 1) {
		return
	}
	w.check("join-during-reload-get")
}

func c15JoinDuringReloadGetFamily(m *vk.M, n int) {
	kinds := map[string]int64{}
	for idx := 1; idx <= n; idx++ {
		if !m.Only(idx) {
			continue
		}
		r := m.Rand("joinreloadget", idx)
		w := newC15World(m, idx, r, []string{"c15.joinget"})
		if w.incon {
			return
		}
		g := newC15Gen(w, r, idx%2 == 0)
		for i := r.Intn(3); i > 0; i-- {
			g.putOrDel(true)
		}
		w.exec(c15Op{Op: "sub"})
		if r.Intn(3) == 0 {
			w.exec(c15Op{Op: "sub", X: true})
		}
		for i := r.Intn(3); i > 0 && !w.stopped(); i-- {
			g.putOrDel(r.Intn(2) == 0)
			w.exec(c15Op{Op: "pump", M: 1})
		}
		w.exec(c15Op{Op: "reload"}) // one stream
		if !w.stopped() {
			w.joinDuringReloadGet(g, idx%3 == 0, idx%2 == 0, idx%5 == 0, func() {
				for i := 1 + r.Intn(3); i > 0; i-- {
					g.putOrDel(r.Intn(2) == 0)
				}
			})
		}
		for i := 0; i < 4 && !w.stopped(); i++ {
			g.putOrDel(r.Intn(2) == 0)
			if r.Intn(2) == 0 {
				w.exec(c15Op{Op: "pump", M: r.Intn(3)})
			}
		}
		if !w.stopped() {
			w.exec(c15Op{Op: "pump"})
			w.exec(c15Op{Op: "reload"})
		}
		if w.incon {
			return
		}
		wedged := w.wedged
		c15Finish(m, w, kinds, 11)
		if wedged {
			break
		}
	}
	c15FlushKinds(m, kinds)
}

func TestVerifC15JoinDuringReloadGet(t *testing.T) {
	logx.Disable()
	m := vk.New(t, "C15", "missed changes, then a reload (direct or started by the real stateWatcher) whose snapshot Get is held in flight by the model etcd; a second subscriber of the key joins meanwhile (its own Get in flight as well); the reload's Get is served first, then the newcomer's (or both at once); "+c15Rule)
	defer m.Done()
	defer c15Wall(m, time.Now())
	c15JoinDuringReloadGetFamily(m, vk.N(120, 3000))
}

// TestVerifC15RaceJoinDuringReloadGet: the same gated family under the race detector.
func TestVerifC15RaceJoinDuringReloadGet(t *testing.T) {
	logx.Disable()
	m := vk.New(t, "C15", "join-during-reload-get family under the race detector; "+c15Rule)
	defer m.Done()
	defer c15Wall(m, time.Now())
	c15JoinDuringReloadGetFamily(m, vk.N(40, 600))
}
