//go:build verif

package stat

// C16 — the Metrics container on top of PeriodicalExecutor aggregates tasks
// into reports: conservation oracle — over all reports written, the number of
// requests and of drops equals what was added (each task counted exactly once).

import (
	"fmt"
	"math"
	"sync"
	"testing"
	"time"

	"verif.local/vk"
)

type c16Writer struct {
	mu      sync.Mutex
	reqs    float64
	drops   int
	reports int
	durMs   float64
}

func (w *c16Writer) Write(r *StatReport) error {
	w.mu.Lock()
	n := float64(r.ReqsPerSecond) * float64(logInterval/time.Second)
	w.reqs += n
	w.drops += r.Drops
	w.durMs += float64(r.Average) * n
	w.reports++
	w.mu.Unlock()
	return nil
}

func TestVerifC16MetricsRace(t *testing.T) {
	m := vk.New(t, "C16", "stat.Metrics: 2-8 goroutines add 300-3000 tasks (10 ms each) and drops, interleaved with explicit flushes of the underlying executor; the report writer sums requests, drops and total duration over all reports: they must equal what was added (conservation = every task aggregated exactly once); under the race detector")
	defer m.Done()
	DisableLog()
	n := vk.N(25, 400)
	r := m.Rand("metrics")
	for idx := 1; idx <= n; idx++ {
		if !m.Only(idx) {
			continue
		}
		adders := 2 + r.Intn(7)
		per := 300 + r.Intn(2701)
		// round 13: a burst period - more than 90 000 tasks between two flushes (no explicit Flush while the
		// adders run, the report interval is a minute): every one of them must still be aggregated
		burst := idx%8 == 3
		if burst {
			per = 90000/adders + 1 + idx
		}
		desc := fmt.Sprintf("case=%d;adders=%d per=%d drops_only_period=%d burst=%v", idx, adders, per, []int{0, 1, 1, 3, 7}[idx%5], burst)
		w := &c16Writer{}
		SetReportWriter(w)
		mt := NewMetrics(fmt.Sprintf("c16-%d", idx))
		var wg sync.WaitGroup
		var dmu sync.Mutex
		wantDrops := 0
		seeds := make([]int64, adders)
		for i := range seeds {
			seeds[i] = r.Int63()
		}
		for a := 0; a < adders; a++ {
			wg.Add(1)
			go func(a int) {
				defer wg.Done()
				rr := m.Rand("metrics-adder", idx, a, seeds[a])
				drops := 0
				for s := 0; s < per; s++ {
					mt.Add(Task{Duration: 10 * time.Millisecond})
					if rr.Intn(10) == 0 {
						mt.AddDrop()
						drops++
					}
					if rr.Intn(500) == 0 && !burst {
						mt.executor.Flush()
					}
				}
				dmu.Lock()
				wantDrops += drops
				dmu.Unlock()
			}(a)
		}
		if !vk.Within(60*time.Second, wg.Wait) {
			m.Violate("C16:metrics:hang", desc, "adders did not finish\n%s", vk.Stacks()[:3000])
			return
		}
		if !vk.Within(30*time.Second, func() { mt.executor.Flush(); mt.executor.Wait() }) {
			m.Violate("C16:metrics:hang", desc, "final Flush+Wait did not return\n%s", vk.Stacks()[:3000])
			return
		}
		// a period in which everything was shed: only drops, no ordinary task; they must be reported too
		onlyDrops := []int{0, 1, 1, 3, 7}[idx%5]
		for i := 0; i < onlyDrops; i++ {
			mt.AddDrop()
		}
		wantDrops += onlyDrops
		if !vk.Within(30*time.Second, func() { mt.executor.Flush(); mt.executor.Wait() }) {
			m.Violate("C16:metrics:hang", desc, "Flush+Wait after the drops-only period did not return\n%s", vk.Stacks()[:3000])
			return
		}
		m.Count("drops_only_periods", 1)
		w.mu.Lock()
		gotReqs, gotDrops, reports, durMs := w.reqs, w.drops, w.reports, w.durMs
		w.mu.Unlock()
		want := float64(adders * per)
		// ReqsPerSecond is a float32 of size/60: allow the float32 rounding of each report
		if math.Abs(gotReqs-want) > 0.01*float64(reports)+0.5 {
			m.Violate("C16:metrics:requests-not-conserved", desc, "reports account for %.1f requests, %d were added (reports %d)", gotReqs, adders*per, reports)
		}
		if gotDrops != wantDrops {
			m.Violate("C16:metrics:drops-not-conserved", desc, "reports account for %d drops, %d were added", gotDrops, wantDrops)
		}
		if math.Abs(durMs-10*want) > 0.02*10*want+1 {
			m.Violate("C16:metrics:duration-not-conserved", desc, "reports account for %.0f ms total latency, want %.0f", durMs, 10*want)
		}
		m.Count("tasks_added", int64(adders*per))
		if burst {
			m.Count("burst_periods_over_90000_tasks", 1)
		}
		m.Count("reports_written", int64(reports))
		m.Case(vk.Digest(desc), reports > 1)
		if m.WantSample() {
			m.Sample(map[string]any{"scenario": desc, "reports": reports, "requests_accounted": gotReqs, "drops": gotDrops})
		}
	}
	SetReportWriter(nil)
}

// Drops handed to a Metrics that never saw an ordinary task must still be flushed by the periodic
// tick (no explicit Flush / Wait): the tick is one of the statement's triggers.
func TestVerifC16MetricsTickOnly(t *testing.T) {
	m := vk.New(t, "C16", "stat.Metrics with a 20 ms report interval that only ever receives AddDrop (1-5 of them) or only Add, and no explicit Flush: the periodic tick alone must report them; verdict: nothing reported after 1000 intervals (20 s) although an explicit Flush afterwards finds them pending")
	defer m.Done()
	DisableLog()
	// set once, before any Metrics of this process exists, and never restored (flusher goroutines read it):
	// this test runs in a test process of its own (see registry/C16.py)
	logInterval = 20 * time.Millisecond
	n := vk.N(6, 60)
	for idx := 1; idx <= n; idx++ {
		if !m.Only(idx) {
			continue
		}
		drops := 1 + idx%5
		onlyDrops := idx%3 != 0
		desc := fmt.Sprintf("case=%d;only_drops=%v count=%d", idx, onlyDrops, drops)
		w := &c16Writer{}
		SetReportWriter(w)
		mt := NewMetrics(fmt.Sprintf("c16-tick-%d", idx))
		for i := 0; i < drops; i++ {
			if onlyDrops {
				mt.AddDrop()
			} else {
				mt.Add(Task{Duration: time.Millisecond})
			}
		}
		seen := func() int {
			w.mu.Lock()
			defer w.mu.Unlock()
			if onlyDrops {
				return w.drops
			}
			return int(w.reqs*float64(time.Second)/float64(logInterval)*float64(logInterval/time.Second) + 0.5)
		}
		reported := func() bool {
			w.mu.Lock()
			defer w.mu.Unlock()
			return w.reports > 0
		}
		_ = seen
		if !vk.WaitUntil(20*time.Second, reported) {
			// were they pending all the time? an explicit flush tells
			mt.executor.Flush()
			mt.executor.Wait()
			if reported() {
				m.Violate("C16:metrics:never-flushed-by-tick", desc, "%d tasks were handed over; no report after 1000 report intervals without an explicit Flush, but an explicit Flush then reported them (they were pending all the time)", drops)
				return // every further case would wait out the same 20 s
			} else {
				m.Inconclusive("case %d: nothing reported even after an explicit Flush", idx)
			}
			continue
		}
		mt.executor.Flush()
		mt.executor.Wait()
		w.mu.Lock()
		gotDrops := w.drops
		w.mu.Unlock()
		if onlyDrops && gotDrops != drops {
			m.Violate("C16:metrics:drops-not-conserved", desc, "reports account for %d drops, %d were added", gotDrops, drops)
		}
		m.Case(vk.Digest(desc), true)
		m.Count("tick_only_metrics", 1)
	}
}
