//go:build verif

package mapping

// C05 — hand-written, seed-independent rows for the arms the generated shapes cannot reach:
// invalid targets, unexported fields, encoding.TextUnmarshaler fields, Go-native values through
// UnmarshalKey (every numeric kind, typed maps/slices, named types, range on natives), malformed
// tags and defaults, inherit (several levels up, object merge), malformed / exotic JSON and YAML text.
// Oracle per row: never a panic; "error" rows must fail; "ok" rows must succeed with the stated
// struct; "free" rows: error, or the stated check.

import (
	"bytes"
	"encoding"
	"encoding/json"
	"errors"
	"fmt"
	"math"
	"math/big"
	"reflect"
	"strconv"
	"strings"
	"testing"
	"time"

	"verif.local/vk"
)

type c05nText struct{ S string }

func (t *c05nText) UnmarshalText(b []byte) error {
	if string(b) == "bad" {
		return errors.New("c05nText: bad")
	}
	t.S = "<" + string(b) + ">"
	return nil
}

type c05nStr string

// field types with their own text form, one per underlying kind (pointer receivers), plus one that only
// implements json.Unmarshaler (which this package does not consult)
type c05tInt int
type c05tStr string
type c05tFloat float64
type c05tBool bool
type c05tSlice []string
type c05tMap map[string]string
type c05jInt int

func (t *c05tInt) UnmarshalText(b []byte) error {
	n, err := strconv.Atoi(string(b))
	*t = c05tInt(n + 1000)
	return err
}
func (t *c05tStr) UnmarshalText(b []byte) error { *t = c05tStr("<" + string(b) + ">"); return nil }
func (t *c05tFloat) UnmarshalText(b []byte) error {
	f, err := strconv.ParseFloat(string(b), 64)
	*t = c05tFloat(f + 0.25)
	return err
}
func (t *c05tBool) UnmarshalText(b []byte) error { *t = string(b) == "yes"; return nil }
func (t *c05tSlice) UnmarshalText(b []byte) error {
	*t = strings.Split(string(b), "+")
	return nil
}
func (t *c05tMap) UnmarshalText(b []byte) error { *t = c05tMap{"text": string(b)}; return nil }
func (t *c05jInt) UnmarshalJSON(b []byte) error { *t = -1; return nil }

type c05nErrReader struct{}

func (c05nErrReader) Read([]byte) (int, error) { return 0, errors.New("c05: read failed") }

type c05nEtcd struct {
	Hosts []string `json:"hosts" key:"hosts"`
	Key   string   `json:"key" key:"key"`
}

type c05nRow struct {
	class  string // signature component
	name   string
	expect string // error | ok | free
	run    func() error
	check  func() string // "" = fine (ok / free rows)
}

func c05nEntryPoints() map[string]func(doc string, v any) error {
	return map[string]func(string, any) error{
		"UnmarshalJsonBytes":  func(d string, v any) error { return UnmarshalJsonBytes([]byte(d), v) },
		"UnmarshalJsonReader": func(d string, v any) error { return UnmarshalJsonReader(strings.NewReader(d), v) },
		"UnmarshalYamlBytes":  func(d string, v any) error { return UnmarshalYamlBytes([]byte(d), v) },
		"UnmarshalYamlReader": func(d string, v any) error { return UnmarshalYamlReader(bytes.NewReader([]byte(d)), v) },
		"UnmarshalJsonMap": func(d string, v any) error {
			mm, err := c05Decode([]byte(d))
			if err != nil {
				return err
			}
			return UnmarshalJsonMap(mm, v)
		},
		"UnmarshalKey": func(d string, v any) error {
			mm, err := c05Decode([]byte(d))
			if err != nil {
				return err
			}
			return UnmarshalKey(mm, v)
		},
	}
}

var c05nEPOrder = []string{"UnmarshalJsonBytes", "UnmarshalJsonReader", "UnmarshalYamlBytes", "UnmarshalYamlReader", "UnmarshalJsonMap", "UnmarshalKey"}

func TestVerifC05Native(t *testing.T) {
	m := vk.New(t, "C05", "fixed rows: invalid targets (non-pointer, nil, pointer to non-struct) x 6 entry points; unexported fields; TextUnmarshaler fields; Go-native values through UnmarshalKey (every numeric kind, named types, typed maps/slices, range on natives); malformed tags (range/optional/options/default/env syntax) and unparsable defaults; inherit across several levels and with object merge; malformed and exotic JSON / YAML text (anchors, merge keys, .nan, timestamps, binary, non-string keys) — never a panic; error / exact as stated per row")
	defer m.Done()
	var rows []c05nRow
	add := func(class, name, expect string, run func() error, check func() string) {
		rows = append(rows, c05nRow{class, name, expect, run, check})
	}
	eps := c05nEntryPoints()

	// ---- invalid targets
	type okT struct {
		A int `json:"a" key:"a"`
	}
	var nilPtr *okT
	var nilIface any
	n := 5
	mp := map[string]any{}
	pp := &okT{}
	sl := []okT{}
	targets := []struct {
		name string
		v    any
	}{{"struct value (not a pointer)", okT{}}, {"nil *struct", nilPtr}, {"nil interface", nilIface}, {"*int", &n}, {"*map", &mp}, {"**struct", &pp}, {"*[]struct", &sl}, {"string", "x"}}
	for _, epn := range c05nEPOrder {
		ep := eps[epn]
		for _, tg := range targets {
			tg := tg
			add("invalid-target", epn+" into "+tg.name, "error", func() error { return ep(`{"a":1}`, tg.v) }, nil)
		}
		var good okT
		add("valid-target", epn+" into *struct", "ok", func() error { good = okT{}; return ep(`{"a":7}`, &good) }, func() string {
			if good.A != 7 {
				return fmt.Sprintf("A=%d, want 7", good.A)
			}
			return ""
		})
	}

	// ---- unexported fields
	type unexp struct {
		A int `json:"a"`
		b int `json:"b,optional"`
	}
	var ux unexp
	add("unexported-field", "value for an unexported tagged field", "error", func() error { ux = unexp{}; return UnmarshalJsonBytes([]byte(`{"a":1,"b":2}`), &ux) }, nil)
	add("unexported-field", "optional unexported field absent", "ok", func() error { ux = unexp{}; return UnmarshalJsonBytes([]byte(`{"a":1}`), &ux) }, func() string {
		if ux.A != 1 || ux.b != 0 {
			return fmt.Sprintf("%+v", ux)
		}
		return ""
	})

	// ---- encoding.TextUnmarshaler fields
	type textT struct {
		T c05nText  `json:"t"`
		P *c05nText `json:"p,optional"`
	}
	var tx textT
	add("text-unmarshaler", "string into TextUnmarshaler value and pointer", "ok", func() error { tx = textT{}; return UnmarshalJsonBytes([]byte(`{"t":"abc","p":"q"}`), &tx) }, func() string {
		if tx.T.S != "<abc>" || tx.P == nil || tx.P.S != "<q>" {
			return fmt.Sprintf("T=%q P=%v", tx.T.S, tx.P)
		}
		return ""
	})
	add("text-unmarshaler", "same through YAML", "ok", func() error { tx = textT{}; return UnmarshalYamlBytes([]byte("t: \"abc\"\n"), &tx) }, func() string {
		if tx.T.S != "<abc>" || tx.P != nil {
			return fmt.Sprintf("T=%q P=%v", tx.T.S, tx.P)
		}
		return ""
	})
	add("text-unmarshaler", "UnmarshalText error is reported", "error", func() error { tx = textT{}; return UnmarshalJsonBytes([]byte(`{"t":"bad"}`), &tx) }, nil)
	add("text-unmarshaler", "required TextUnmarshaler field absent", "error", func() error { tx = textT{}; return UnmarshalJsonBytes([]byte(`{"p":"q"}`), &tx) }, nil)
	for _, dv := range []string{`1`, `true`, `[1]`, `{"s":"x"}`, `null`} {
		dv := dv
		add("text-unmarshaler", "non-string "+dv+" into TextUnmarshaler", "free", func() error { tx = textT{}; return UnmarshalJsonBytes([]byte(`{"t":`+dv+`}`), &tx) }, func() string {
			if dv == `{"s":"x"}` || tx.T.S == "" {
				return "" // taken as a plain struct / left empty: not asserted
			}
			return fmt.Sprintf("T=%q from %s", tx.T.S, dv)
		})
	}

	// ---- TextUnmarshaler types of every underlying kind, value and pointer members, fed every kind of document
	// value: error, or the value arrives (through UnmarshalText for strings, exactly as the underlying kind otherwise);
	// never "no error" with the document's value lost
	tuTypes := []reflect.Type{reflect.TypeOf(c05tInt(0)), reflect.TypeOf(c05tStr("")), reflect.TypeOf(c05tFloat(0)), reflect.TypeOf(c05tBool(false)),
		reflect.TypeOf(c05tSlice(nil)), reflect.TypeOf(c05tMap(nil)), reflect.TypeOf(c05nText{}), reflect.TypeOf(c05jInt(0))}
	tuDocs := []string{`"12"`, `"yes"`, `"a+b"`, `""`, `7`, `0`, `1.5`, `true`, `false`, `[1]`, `["a","b"]`, `[]`, `{"k":"v"}`, `{"S":"x"}`, `{}`}
	for _, tt := range tuTypes {
		for _, ptr := range []bool{false, true} {
			for _, dv := range tuDocs {
				for _, epn := range []string{"UnmarshalJsonBytes", "UnmarshalYamlBytes", "UnmarshalJsonMap"} {
					tt, ptr, dv, epn := tt, ptr, dv, epn
					ft := tt
					if ptr {
						ft = reflect.PointerTo(tt)
					}
					typ := reflect.StructOf([]reflect.StructField{{Name: "V", Type: ft, Tag: `json:"v,optional"`}})
					ep := eps[epn]
					var res reflect.Value
					add("text-unmarshaler-kinds", fmt.Sprintf("%s (pointer member=%v) <- %s via %s", tt, ptr, dv, epn), "free", func() error {
						res = reflect.New(typ)
						return ep(`{"v":`+dv+`}`, res.Interface())
					}, func() string {
						f := res.Elem().Field(0)
						if ptr {
							if f.IsNil() {
								return "no error, but the pointer member is nil: the document's value " + dv + " is lost"
							}
							f = f.Elem()
						}
						return c05nTextArrived(tt, f, dv)
					})
				}
			}
		}
	}

	// ---- Go-native values through UnmarshalKey
	type natives struct {
		I   int           `key:"i,optional"`
		I8  int8          `key:"i8,optional"`
		I16 int16         `key:"i16,optional"`
		I32 int32         `key:"i32,optional"`
		I64 int64         `key:"i64,optional"`
		U   uint          `key:"u,optional"`
		U8  uint8         `key:"u8,optional"`
		U16 uint16        `key:"u16,optional"`
		U32 uint32        `key:"u32,optional"`
		U64 uint64        `key:"u64,optional"`
		F32 float32       `key:"f32,optional"`
		F64 float64       `key:"f64,optional"`
		B   bool          `key:"b,optional"`
		S   string        `key:"s,optional"`
		D   time.Duration `key:"d,optional"`
		PI  *int          `key:"pi,optional"`
	}
	var nv natives
	natRows := []struct {
		key string
		v   any
		get func() any
	}{
		{"i", int(-5), func() any { return nv.I }}, {"i8", int8(-128), func() any { return nv.I8 }}, {"i16", int16(32767), func() any { return nv.I16 }},
		{"i32", int32(-2147483648), func() any { return nv.I32 }}, {"i64", int64(9223372036854775807), func() any { return nv.I64 }},
		{"u", uint(5), func() any { return nv.U }}, {"u8", uint8(255), func() any { return nv.U8 }}, {"u16", uint16(65535), func() any { return nv.U16 }},
		{"u32", uint32(4294967295), func() any { return nv.U32 }}, {"u64", uint64(18446744073709551615), func() any { return nv.U64 }},
		{"f32", float32(0.5), func() any { return nv.F32 }}, {"f64", float64(1e300), func() any { return nv.F64 }}, {"b", true, func() any { return nv.B }},
		{"s", "x", func() any { return nv.S }}, {"d", 90 * time.Second, func() any { return nv.D }}, {"d", int64(5), func() any { return int64(nv.D) }},
		{"pi", int(7), func() any {
			if nv.PI == nil {
				return nil
			}
			return *nv.PI
		}},
	}
	for _, nr := range natRows {
		nr := nr
		add("native-value", fmt.Sprintf("%T(%v) into field %s", nr.v, nr.v, nr.key), "ok", func() error { nv = natives{}; return UnmarshalKey(map[string]any{nr.key: nr.v}, &nv) }, func() string {
			if got := nr.get(); !reflect.DeepEqual(got, nr.v) {
				return fmt.Sprintf("got %T(%v), want %T(%v)", got, got, nr.v, nr.v)
			}
			return ""
		})
	}
	// a native value of another kind: error, or the same number
	cross := []struct {
		key string
		v   any
		get func() any
	}{
		{"i8", int(300), func() any { return nv.I8 }}, {"i8", int64(5), func() any { return nv.I8 }}, {"u8", int(-1), func() any { return nv.U8 }}, {"u8", uint16(256), func() any { return nv.U8 }},
		{"f32", float64(1e300), func() any { return nv.F32 }}, {"i", float64(1.5), func() any { return nv.I }}, {"i64", uint64(18446744073709551615), func() any { return nv.I64 }},
		{"s", 5, func() any { return nv.S }}, {"b", 1, func() any { return nv.B }}, {"i", "5", func() any { return nv.I }}, {"d", "1m0s", func() any { return nv.D.String() }}, {"d", 1.5, func() any { return nv.D }},
		{"s", c05nStr("named"), func() any { return nv.S }}, {"i", []int{1}, func() any { return nv.I }}, {"s", map[string]string{"a": "b"}, func() any { return nv.S }},
	}
	for _, cr := range cross {
		cr := cr
		add("native-cross-kind", fmt.Sprintf("%T(%v) into field %s", cr.v, cr.v, cr.key), "free", func() error { nv = natives{}; return UnmarshalKey(map[string]any{cr.key: cr.v}, &nv) }, func() string {
			if got := cr.get(); fmt.Sprint(got) != fmt.Sprint(cr.v) {
				return fmt.Sprintf("%T(%v) stored as %T(%v)", cr.v, cr.v, got, got)
			}
			return ""
		})
	}
	// containers of natives
	type conts struct {
		MI  map[string]int      `key:"mi,optional"`
		MI6 map[string]int64    `key:"mi6,optional"`
		MA  map[string]any      `key:"ma,optional"`
		MS  map[string]string   `key:"ms,optional"`
		SI  []int               `key:"si,optional"`
		SS  []string            `key:"ss,optional"`
		S64 []int64             `key:"s64,optional"`
		ST  okT                 `key:"st,optional"`
		MM  map[string][]string `key:"mm,optional"`
	}
	var cv conts
	contRows := []struct {
		key    string
		v      any
		expect string
		get    func() any
	}{
		{"mi", map[string]int{"a": 1}, "ok", func() any { return cv.MI }}, {"mi6", map[string]int{"a": 1}, "free", func() any { return cv.MI6 }},
		{"ma", map[string]string{"a": "b"}, "free", func() any { return cv.MA }}, {"ms", map[string]string{"a": "b"}, "ok", func() any { return cv.MS }},
		{"ms", map[int]string{1: "b"}, "free", func() any { return cv.MS }}, {"ms", map[string]any{"a": "b"}, "ok", func() any { return cv.MS }},
		{"si", []int{1, 2}, "ok", func() any { return cv.SI }}, {"ss", []string{"a", ""}, "ok", func() any { return cv.SS }}, {"s64", []int{1}, "free", func() any { return cv.S64 }},
		{"si", []any{1, 2}, "ok", func() any { return cv.SI }}, {"si", []any{1, "2"}, "free", func() any { return cv.SI }}, {"si", [2]int{1, 2}, "free", func() any { return cv.SI }},
		{"st", map[string]int{"a": 1}, "free", func() any { return map[string]int{"a": cv.ST.A} }}, {"st", map[string]any{"a": 1}, "ok", func() any { return map[string]int{"a": cv.ST.A} }}, {"st", okT{A: 1}, "free", func() any { return cv.ST }},
		{"mm", map[string][]string{"a": {"x"}}, "ok", func() any { return cv.MM }}, {"mm", map[string]any{"a": []string{"x"}}, "ok", func() any { return cv.MM }},
		{"ss", c05nStr(`["a"]`), "free", func() any { return cv.SS }}, {"ms", c05nStr(`{"a":"b"}`), "free", func() any { return cv.MS }},
	}
	for _, cr := range contRows {
		cr := cr
		add("native-container", fmt.Sprintf("%T %v into field %s", cr.v, cr.v, cr.key), cr.expect, func() error { cv = conts{}; return UnmarshalKey(map[string]any{cr.key: cr.v}, &cv) }, func() string {
			got := cr.get()
			if c05nLoose(got) != c05nLoose(cr.v) {
				return fmt.Sprintf("%T %v stored as %T %v", cr.v, cr.v, got, got)
			}
			return ""
		})
	}
	// native values of EVERY kind as elements of slices / maps (any-typed and typed containers, nested,
	// pointer elements) for every element kind: error, or the element holds exactly the source value
	// (Go conversions between numeric kinds wrap and truncate, int->string makes a rune: none of that)
	srcVals := []any{int(300), int(-1), int(65), int(5), int64(1) << 40, int8(-5), uint8(200), uint16(65535), uint64(1<<63 + 5), uint(7), int32(-70000),
		float64(3.7), float64(1e300), float64(2), float64(-0.5), float32(0.5), float32(3e38), "7", "x", true, c05nStr("named"), time.Duration(1500)}
	elemTypes := []reflect.Type{reflect.TypeOf(int8(0)), reflect.TypeOf(uint8(0)), reflect.TypeOf(int16(0)), reflect.TypeOf(int(0)), reflect.TypeOf(int64(0)), reflect.TypeOf(uint32(0)),
		reflect.TypeOf(uint64(0)), reflect.TypeOf(float32(0)), reflect.TypeOf(float64(0)), reflect.TypeOf(""), reflect.TypeOf(false), reflect.TypeOf(time.Duration(0)), reflect.TypeOf(c05nStr(""))}
	type contForm struct {
		name string
		ft   func(e reflect.Type) reflect.Type
		doc  func(v any) any
	}
	typedSlice := func(v any) any {
		sl := reflect.MakeSlice(reflect.SliceOf(reflect.TypeOf(v)), 1, 1)
		sl.Index(0).Set(reflect.ValueOf(v))
		return sl.Interface()
	}
	typedMap := func(v any) any {
		mp := reflect.MakeMap(reflect.MapOf(reflect.TypeOf(""), reflect.TypeOf(v)))
		mp.SetMapIndex(reflect.ValueOf("k"), reflect.ValueOf(v))
		return mp.Interface()
	}
	forms := []contForm{
		{"[]T <- []any", reflect.SliceOf, func(v any) any { return []any{v} }},
		{"[]T <- typed slice", reflect.SliceOf, typedSlice},
		{"*[]T <- []any", func(e reflect.Type) reflect.Type { return reflect.PointerTo(reflect.SliceOf(e)) }, func(v any) any { return []any{v} }},
		{"*map[string]T <- map[string]any", func(e reflect.Type) reflect.Type { return reflect.PointerTo(reflect.MapOf(reflect.TypeOf(""), e)) }, func(v any) any { return map[string]any{"k": v} }},
		{"*map[string][]T <- map[string]any of []any", func(e reflect.Type) reflect.Type {
			return reflect.PointerTo(reflect.MapOf(reflect.TypeOf(""), reflect.SliceOf(e)))
		}, func(v any) any { return map[string]any{"k": []any{v}} }},
		{"*[]*T <- []any", func(e reflect.Type) reflect.Type { return reflect.PointerTo(reflect.SliceOf(reflect.PointerTo(e))) }, func(v any) any { return []any{v} }},
		{"[]*T <- []any", func(e reflect.Type) reflect.Type { return reflect.SliceOf(reflect.PointerTo(e)) }, func(v any) any { return []any{v} }},
		{"[][]T <- [][]any", func(e reflect.Type) reflect.Type { return reflect.SliceOf(reflect.SliceOf(e)) }, func(v any) any { return []any{[]any{v}} }},
		{"[][]T <- []any of typed slices", func(e reflect.Type) reflect.Type { return reflect.SliceOf(reflect.SliceOf(e)) }, func(v any) any { return []any{typedSlice(v)} }},
		{"map[string]T <- map[string]any", func(e reflect.Type) reflect.Type { return reflect.MapOf(reflect.TypeOf(""), e) }, func(v any) any { return map[string]any{"k": v} }},
		{"map[string]T <- typed map", func(e reflect.Type) reflect.Type { return reflect.MapOf(reflect.TypeOf(""), e) }, typedMap},
		{"map[string][]T <- map[string]any of []any", func(e reflect.Type) reflect.Type { return reflect.MapOf(reflect.TypeOf(""), reflect.SliceOf(e)) }, func(v any) any { return map[string]any{"k": []any{v}} }},
		{"[]map[string]T <- []any of map[string]any", func(e reflect.Type) reflect.Type { return reflect.SliceOf(reflect.MapOf(reflect.TypeOf(""), e)) }, func(v any) any { return []any{map[string]any{"k": v}} }},
		{"[]struct{A T} <- []any of map[string]any", func(e reflect.Type) reflect.Type {
			return reflect.SliceOf(reflect.StructOf([]reflect.StructField{{Name: "A", Type: e, Tag: `key:"a"`}}))
		}, func(v any) any { return []any{map[string]any{"a": v}} }},
	}
	for _, fm := range forms {
		for _, et := range elemTypes {
			for _, sv := range srcVals {
				fm, et, sv := fm, et, sv
				typ := reflect.StructOf([]reflect.StructField{{Name: "V", Type: fm.ft(et), Tag: `key:"v"`}})
				var res reflect.Value
				add("native-elem-cross-kind", fmt.Sprintf("%s, T=%s, element %T(%v)", fm.name, et, sv, sv), "free", func() error {
					res = reflect.New(typ)
					return UnmarshalKey(map[string]any{"v": fm.doc(sv)}, res.Interface())
				}, func() string {
					leaf, ok := c05nFirstLeaf(res.Elem().Field(0))
					if !ok {
						return fmt.Sprintf("accepted, but the container is empty: %s", c05nLoose(res.Elem().Field(0).Interface()))
					}
					if !c05nSameValue(sv, leaf) {
						return fmt.Sprintf("element %T(%v) stored as %s(%v)", sv, sv, leaf.Type(), leaf.Interface())
					}
					return ""
				})
			}
		}
	}

	// range on native numbers of every kind
	type ranged struct {
		I   int     `key:"i,optional,range=[1:5]"`
		I8  int8    `key:"i8,optional,range=[1:5]"`
		I16 int16   `key:"i16,optional,range=[1:5]"`
		I32 int32   `key:"i32,optional,range=[1:5]"`
		I64 int64   `key:"i64,optional,range=[1:5]"`
		U   uint    `key:"u,optional,range=[1:5]"`
		U8  uint8   `key:"u8,optional,range=[1:5]"`
		U16 uint16  `key:"u16,optional,range=[1:5]"`
		U32 uint32  `key:"u32,optional,range=[1:5]"`
		U64 uint64  `key:"u64,optional,range=[1:5]"`
		F32 float32 `key:"f32,optional,range=[1:5]"`
		F64 float64 `key:"f64,optional,range=[1:5]"`
		S   string  `key:"s,optional,range=[1:5]"`
	}
	var rg ranged
	mk := map[string]func(n int) any{
		"i": func(n int) any { return int(n) }, "i8": func(n int) any { return int8(n) }, "i16": func(n int) any { return int16(n) }, "i32": func(n int) any { return int32(n) },
		"i64": func(n int) any { return int64(n) }, "u": func(n int) any { return uint(n) }, "u8": func(n int) any { return uint8(n) }, "u16": func(n int) any { return uint16(n) },
		"u32": func(n int) any { return uint32(n) }, "u64": func(n int) any { return uint64(n) }, "f32": func(n int) any { return float32(n) }, "f64": func(n int) any { return float64(n) },
	}
	for _, key := range []string{"i", "i8", "i16", "i32", "i64", "u", "u8", "u16", "u32", "u64", "f32", "f64"} {
		key := key
		for _, x := range []int{0, 1, 5, 6} {
			x := x
			exp := "ok"
			if x == 0 || x == 6 {
				exp = "error"
			}
			add("native-range", fmt.Sprintf("%T(%d) into %s range=[1:5]", mk[key](x), x, key), exp, func() error { rg = ranged{}; return UnmarshalKey(map[string]any{key: mk[key](x)}, &rg) }, func() string {
				f := reflect.ValueOf(rg).FieldByNameFunc(func(n string) bool { return strings.EqualFold(n, key) })
				if fmt.Sprint(f.Interface()) != fmt.Sprint(x) {
					return fmt.Sprintf("stored %v, want %d", f.Interface(), x)
				}
				return ""
			})
		}
	}
	add("native-range", "range= on a string field", "free", func() error { rg = ranged{}; return UnmarshalKey(map[string]any{"s": "3"}, &rg) }, func() string {
		if rg.S != "3" {
			return "stored " + rg.S
		}
		return ""
	})

	// ---- malformed tags: error or exact, never a panic (one struct type per tag: the first bad tag aborts the call)
	rawTags := []string{"v,range=[5:1]", "v,range=5", "v,range=[a:b]", "v,range=[1:b]", "v,range=[1:2", "v,range=1:2]", "v,range={1:2}", "v,range=[:]", "v,range=", "v,range=[", "v,range=(2:2)", "v,range=[2:2)", "v,range=(2:2]",
		"v,range=[3:3]", "v,range=[1:2:3]", "v,range=[1]", "v,range", "v,range=[1:5]=x", "v,optional=a=b", "v,optional=!", "v,optional=", "v,optional=other", "v,optional=!other", "v,optionalx", "v,options", "v,options=", "v,options=1=2",
		"v,options=3", "v,options=[3,4]", "v,options=3|4", "v,default", "v,default=", "v,default=1=2", "v,default=3", "v,env", "v,env=", "v,env=A=B", "v,unknownoption", ",optional", "v,optional,", "v, optional , default=3", " v ,optional",
		"v,optional,optional", "v,string,string", "v,inherit", "v,optional,range=[1:5],options=3|9,default=3", "v,range=[1:5],range=[7:9]", " ", "  ", "\t", " ,optional", ",", ",,", " , ", "v,\\,optional", "v,options=[3\\,4]"}
	for _, raw := range rawTags {
		raw := raw
		for _, nested := range []bool{false, true} {
			nested := nested
			leafT := reflect.StructOf([]reflect.StructField{{Name: "V", Type: reflect.TypeOf(0), Tag: reflect.StructTag(fmt.Sprintf("json:%q", raw))}})
			typ, doc := leafT, `{"v":3," v ":3,"V":3}`
			if nested {
				typ = reflect.StructOf([]reflect.StructField{{Name: "N", Type: leafT, Tag: `json:"n"`}})
				doc = `{"n":{"v":3," v ":3,"V":3}}`
			}
			var res reflect.Value
			add("malformed-tag", fmt.Sprintf("tag %q nested=%v, document value 3", raw, nested), "free", func() error { res = reflect.New(typ); return UnmarshalJsonBytes([]byte(doc), res.Interface()) }, func() string {
				f := res.Elem().Field(0)
				if nested {
					f = f.Field(0)
				}
				if f.Int() != 3 {
					return fmt.Sprintf("field = %d, document says 3 (tag %q)", f.Int(), raw)
				}
				return ""
			})
			if nested {
				add("malformed-tag", fmt.Sprintf("tag %q in a nested struct that is absent", raw), "free", func() error { res = reflect.New(typ); return UnmarshalJsonBytes([]byte(`{}`), res.Interface()) }, nil)
			}
		}
	}

	// ---- dotted tag keys address a value inside nested objects
	type dotted struct {
		V int    `json:"a.b"`
		W string `json:"a.c.d,optional"`
	}
	var dt dotted
	add("dotted-key", "a.b and a.c.d present", "ok", func() error { dt = dotted{}; return UnmarshalJsonBytes([]byte(`{"a":{"b":3,"c":{"d":"x"}}}`), &dt) }, func() string {
		if dt.V != 3 || dt.W != "x" {
			return fmt.Sprintf("%+v", dt)
		}
		return ""
	})
	add("dotted-key", "optional a.c.d absent", "ok", func() error { dt = dotted{}; return UnmarshalYamlBytes([]byte("a:\n  b: 3\n"), &dt) }, func() string {
		if dt.V != 3 || dt.W != "" {
			return fmt.Sprintf("%+v", dt)
		}
		return ""
	})
	add("dotted-key", "required a.b absent (a is a scalar)", "error", func() error { dt = dotted{}; return UnmarshalJsonBytes([]byte(`{"a":3}`), &dt) }, nil)
	add("dotted-key", "required a.b absent (a has other members)", "error", func() error { dt = dotted{}; return UnmarshalJsonBytes([]byte(`{"a":{"c":{"d":"x"}}}`), &dt) }, nil)
	add("dotted-key", "literal key a.b instead of nesting", "free", func() error { dt = dotted{}; return UnmarshalJsonBytes([]byte(`{"a.b":3}`), &dt) }, func() string {
		if dt.V != 3 {
			return fmt.Sprintf("%+v", dt)
		}
		return ""
	})

	// ---- defaults that cannot be honoured
	type bd1 struct {
		V int `json:"v,default=abc"`
	}
	type bd2 struct {
		V []int `json:"v,default=[1,x]"`
	}
	type bd3 struct {
		V int `json:"v,default=1.5"`
	}
	type bd4 struct {
		V bool `json:"v,default=xyz"`
	}
	type bd5 struct {
		V time.Duration `json:"v,default=5x"`
	}
	type bd6 struct {
		V *uint8 `json:"v,default=-1"`
	}
	type bd7 struct {
		V []uint8 `json:"v,default=[1,300]"`
	}
	type bd8 struct {
		V float32 `json:"v,default=1e39"`
	}
	for i, v := range []any{&bd1{}, &bd2{}, &bd3{}, &bd4{}, &bd5{}, &bd6{}, &bd7{}, &bd8{}} {
		v := v
		add("unparsable-default", fmt.Sprintf("%T, field absent", v), "error", func() error { return UnmarshalJsonBytes([]byte(`{}`), v) }, nil)
		_ = i
	}

	// ---- results are independent values: defaults are not shared between results, struct types or calls
	type defA struct {
		M []string `json:"m,default=[GET,POST,HEAD]" key:"m,default=[GET,POST,HEAD]"`
	}
	type defB struct {
		X []string `json:"x,default=[GET,POST,HEAD]" key:"x,default=[GET,POST,HEAD]"`
		N int      `json:"n,optional" key:"n,optional"`
	}
	type defC struct {
		I []int     `json:"i,default=[3,1,2]" key:"i,default=[3,1,2]"`
		F []float64 `json:"f,default=[0.5,1.5]" key:"f,default=[0.5,1.5]"`
		S []string  `json:"s,default=[3,1,2]" key:"s,default=[3,1,2]"` // same default text as I, other element type
	}
	type defT struct {
		T []string `json:"t,default=[a,b,c]" key:"t,default=[a,b,c]"`
	}
	type defD struct {
		Items []defT          `json:"items" key:"items"`
		By    map[string]defT `json:"by" key:"by"`
		In    defT            `json:"in" key:"in"`
		P     *defT           `json:"p" key:"p"`
	}
	wantM := []string{"GET", "POST", "HEAD"}
	spoil := func(sl []string) {
		if len(sl) > 1 {
			sl[0], sl[len(sl)-1] = "spoiled", sl[0]
			_ = append(sl[:1], "appended")
		}
	}
	for _, epn := range c05nEPOrder {
		epn := epn
		ep := eps[epn]
		var msg string
		add("shared-default", "[]string default across results, calls and struct types via "+epn, "ok", func() error {
			msg = ""
			var a1, a2, a3 defA
			var b1 defB
			if err := ep(`{}`, &a1); err != nil {
				return err
			}
			if err := ep(`{}`, &a2); err != nil {
				return err
			}
			if !reflect.DeepEqual(a1.M, wantM) || !reflect.DeepEqual(a2.M, wantM) {
				msg = fmt.Sprintf("first use: %v %v", a1.M, a2.M)
				return nil
			}
			spoil(a1.M)
			if !reflect.DeepEqual(a2.M, wantM) {
				msg = fmt.Sprintf("modifying one result changed another result: %v", a2.M)
				return nil
			}
			if err := ep(`{}`, &a3); err != nil {
				return err
			}
			if err := ep(`{"n":1}`, &b1); err != nil {
				return err
			}
			if !reflect.DeepEqual(a3.M, wantM) || !reflect.DeepEqual(b1.X, wantM) {
				msg = fmt.Sprintf("after a result was modified in place by its owner, the default is %v (same type) / %v (another struct type with the same default text), declared %v", a3.M, b1.X, wantM)
			}
			return nil
		}, func() string { return msg })
		add("shared-default", "numeric / mixed-type defaults with one default text via "+epn, "ok", func() error {
			msg = ""
			var c1, c2 defC
			if err := ep(`{}`, &c1); err != nil {
				return err
			}
			c1.I[0], c1.F[0], c1.S[0] = -9, -9, "spoiled"
			if err := ep(`{}`, &c2); err != nil {
				return err
			}
			if !reflect.DeepEqual(c2, defC{[]int{3, 1, 2}, []float64{0.5, 1.5}, []string{"3", "1", "2"}}) {
				msg = fmt.Sprintf("second use: %+v", c2)
			}
			return nil
		}, func() string { return msg })
		add("shared-default", "defaulted slices inside slice elements, map values, nested and pointed-to structs via "+epn, "ok", func() error {
			msg = ""
			doc := `{"items":[{},{},{"t":["x","y"]}],"by":{"a":{},"b":{}},"in":{},"p":{}}`
			var d1, d2 defD
			if err := ep(doc, &d1); err != nil {
				return err
			}
			want := []string{"a", "b", "c"}
			spoil(d1.Items[0].T)
			for name, got := range map[string][]string{"items[1].t": d1.Items[1].T, "by[a].t": d1.By["a"].T, "by[b].t": d1.By["b"].T, "in.t": d1.In.T, "p.t": d1.P.T} {
				if !reflect.DeepEqual(got, want) {
					msg = fmt.Sprintf("modifying items[0].t changed %s of the same result: %v", name, got)
					return nil
				}
			}
			spoil(d1.By["a"].T)
			spoil(d1.In.T)
			spoil(d1.P.T)
			spoil(d1.Items[2].T)
			if err := ep(doc, &d2); err != nil {
				return err
			}
			for name, got := range map[string][]string{"items[0].t": d2.Items[0].T, "items[1].t": d2.Items[1].T, "by[a].t": d2.By["a"].T, "by[b].t": d2.By["b"].T, "in.t": d2.In.T, "p.t": d2.P.T} {
				if !reflect.DeepEqual(got, want) {
					msg = fmt.Sprintf("second use: %s = %v, declared default %v", name, got, want)
					return nil
				}
			}
			if !reflect.DeepEqual(d2.Items[2].T, []string{"x", "y"}) {
				msg = fmt.Sprintf("second use: items[2].t = %v, document says [x y]", d2.Items[2].T)
			}
			return nil
		}, func() string { return msg })
	}

	// ---- one default text, several element kinds, both orders of first use (the parsed default is memoised per process)
	type dBool1 struct {
		V []bool `json:"v,default=[true,false]"`
	}
	type dStr1 struct {
		V []string `json:"v,default=[true,false]"`
	}
	type dStr2 struct {
		V []string `json:"v,default=[false,true,true]"`
	}
	type dBool2 struct {
		V []bool `json:"v,default=[false,true,true]"`
	}
	type dNum1 struct {
		V []float64 `json:"v,default=[1.50,2,1e3]"`
	}
	type dNumS struct {
		V []string `json:"v,default=[1.50,2,1e3]"`
	}
	type dNumI struct {
		V []int `json:"v,default=[7,08,9]"` // 08 is not JSON; as []string it is fine
	}
	type dNumIS struct {
		V []string `json:"v,default=[7,08,9]"`
	}
	var msgOrder string
	add("default-text-shared-by-kinds", "[]bool first, then []string with the same default text", "ok", func() error {
		msgOrder = ""
		var b dBool1
		var s1 dStr1
		if err := UnmarshalJsonBytes([]byte(`{}`), &b); err != nil {
			return err
		}
		if err := UnmarshalJsonBytes([]byte(`{}`), &s1); err != nil {
			return fmt.Errorf("[]string default=[true,false] after a []bool with the same default text: %w", err)
		}
		if !reflect.DeepEqual(b.V, []bool{true, false}) || !reflect.DeepEqual(s1.V, []string{"true", "false"}) {
			msgOrder = fmt.Sprintf("bool=%v string=%v", b.V, s1.V)
		}
		return nil
	}, func() string { return msgOrder })
	add("default-text-shared-by-kinds", "[]string first, then []bool with the same default text", "ok", func() error {
		msgOrder = ""
		var s2 dStr2
		var b dBool2
		if err := UnmarshalJsonBytes([]byte(`{}`), &s2); err != nil {
			return err
		}
		if err := UnmarshalJsonBytes([]byte(`{}`), &b); err != nil {
			return fmt.Errorf("[]bool default=[false,true,true] after a []string with the same default text: %w", err)
		}
		if !reflect.DeepEqual(b.V, []bool{false, true, true}) || !reflect.DeepEqual(s2.V, []string{"false", "true", "true"}) {
			msgOrder = fmt.Sprintf("bool=%v string=%v", b.V, s2.V)
		}
		return nil
	}, func() string { return msgOrder })
	add("default-text-shared-by-kinds", "[]float64 first, then []string with the same default text", "ok", func() error {
		msgOrder = ""
		var f dNum1
		var s3 dNumS
		if err := UnmarshalJsonBytes([]byte(`{}`), &f); err != nil {
			return err
		}
		if err := UnmarshalJsonBytes([]byte(`{}`), &s3); err != nil {
			return err
		}
		if !reflect.DeepEqual(f.V, []float64{1.5, 2, 1000}) || !reflect.DeepEqual(s3.V, []string{"1.50", "2", "1e3"}) {
			msgOrder = fmt.Sprintf("float=%v string=%q", f.V, s3.V)
		}
		return nil
	}, func() string { return msgOrder })
	add("default-text-shared-by-kinds", "[]string first with a text that is no JSON, then []int", "free", func() error {
		msgOrder = ""
		var s4 dNumIS
		var i4 dNumI
		if err := UnmarshalJsonBytes([]byte(`{}`), &s4); err != nil {
			return err
		}
		if !reflect.DeepEqual(s4.V, []string{"7", "08", "9"}) {
			msgOrder = fmt.Sprintf("string=%q", s4.V)
			return nil
		}
		if err := UnmarshalJsonBytes([]byte(`{}`), &i4); err != nil {
			return err // 08 is not a JSON number: refusing is fine
		}
		if !reflect.DeepEqual(i4.V, []int{7, 8, 9}) {
			msgOrder = fmt.Sprintf("int=%v", i4.V)
		}
		return nil
	}, func() string { return msgOrder })

	// ---- an absent non-optional map member: whether it is refused is not asserted; when it is accepted the
	// result holds its own empty map - writing into it must not change any later result
	type absMap struct {
		M map[string]any `json:"m" key:"m"`
	}
	type absMap2 struct {
		S map[string]string `json:"s" key:"s"`
		M map[string]any    `json:"m" key:"m"`
	}
	type absInner struct {
		Inner struct {
			X int    `json:"x,default=5" key:"x,default=5"`
			Y string `json:"y,optional" key:"y,optional"`
		} `json:"inner" key:"inner"`
		Ptr *struct {
			X int `json:"x,default=5" key:"x,default=5"`
		} `json:"ptr" key:"ptr"`
	}
	for _, epn := range c05nEPOrder {
		epn := epn
		ep := eps[epn]
		var msg string
		add("shared-empty-map", "absent non-optional map[string]any, then written to by its owner, via "+epn, "free", func() error {
			msg = ""
			var a1, a2 absMap
			if err := ep(`{}`, &a1); err != nil {
				return err // refusing an absent required member is fine
			}
			if len(a1.M) != 0 {
				msg = fmt.Sprintf("absent map member came out as %v", a1.M)
				return nil
			}
			defer func() {
				for k := range a1.M { // if the map is shared after all, do not leave the pollution behind for the other monitors
					delete(a1.M, k)
				}
			}()
			if a1.M != nil {
				a1.M["x"], a1.M["y"], a1.M["m"], a1.M["s"], a1.M["inner"] = 1, "polluted", map[string]any{"k": "v"}, map[string]any{"k": "v"}, map[string]any{"x": 2}
			}
			if err := ep(`{}`, &a2); err == nil && len(a2.M) != 0 {
				msg = fmt.Sprintf("after the owner of an earlier result wrote into its (absent, accepted-as-empty) map member, the next absent map member is %v", a2.M)
				return nil
			}
			var b absMap2
			if err := ep(`{}`, &b); err == nil && (len(b.M) != 0 || len(b.S) != 0) {
				msg = fmt.Sprintf("... another struct type gets m=%v s=%v for absent members", b.M, b.S)
				return nil
			}
			var in absInner
			if err := ep(`{}`, &in); err != nil {
				msg = fmt.Sprintf("... a struct whose members all have defaults is now refused: %v", err)
			} else if in.Inner.X != 5 || in.Inner.Y != "" || in.Ptr == nil || in.Ptr.X != 5 {
				msg = fmt.Sprintf("... an absent nested struct with default=5 comes out as inner=%+v ptr=%+v", in.Inner, in.Ptr)
			}
			return nil
		}, func() string { return msg })
	}

	// ---- optional embedded struct given partially
	type embIn struct {
		A int `json:"a"`
		B int `json:"b"`
	}
	type embOut struct {
		embIn `json:",optional"`
		C     int `json:"c,optional"`
	}
	var eo embOut
	add("embedded-optional", "only one of two required members given", "error", func() error { eo = embOut{}; return UnmarshalJsonBytes([]byte(`{"a":1}`), &eo) }, nil)
	add("embedded-optional", "all members given", "ok", func() error { eo = embOut{}; return UnmarshalJsonBytes([]byte(`{"a":1,"b":2}`), &eo) }, func() string {
		if eo.A != 1 || eo.B != 2 {
			return fmt.Sprintf("%+v", eo)
		}
		return ""
	})
	add("embedded-optional", "no member given", "ok", func() error { eo = embOut{}; return UnmarshalJsonBytes([]byte(`{"c":3}`), &eo) }, func() string {
		if eo.A != 0 || eo.B != 0 || eo.C != 3 {
			return fmt.Sprintf("%+v", eo)
		}
		return ""
	})
	add("embedded-optional", "embedded struct wrapped under its type name", "error", func() error { eo = embOut{}; return UnmarshalJsonBytes([]byte(`{"embIn":{"a":1,"b":2}}`), &eo) }, nil)

	// ---- inherit
	type inh struct {
		Host string `json:"host"`
		A    struct {
			N int `json:"n,optional"`
			B struct {
				Host string `json:"host,inherit"`
				C    struct {
					Host string `json:"host,inherit"`
					Own  string `json:"own,optional,inherit"`
				} `json:"c"`
			} `json:"b"`
		} `json:"a"`
	}
	var ih inh
	for _, yaml := range []bool{false, true} {
		yaml := yaml
		doc := `{"host":"h0","a":{"n":1,"b":{"c":{}}}}`
		add("inherit", fmt.Sprintf("value two and three levels up (yaml=%v)", yaml), "ok", func() error {
			ih = inh{}
			if yaml {
				return UnmarshalYamlBytes([]byte(doc), &ih) // JSON text is YAML flow syntax
			}
			return UnmarshalJsonBytes([]byte(doc), &ih)
		}, func() string {
			if ih.A.B.Host != "h0" || ih.A.B.C.Host != "h0" || ih.A.B.C.Own != "" {
				return fmt.Sprintf("b.host=%q c.host=%q own=%q", ih.A.B.Host, ih.A.B.C.Host, ih.A.B.C.Own)
			}
			return ""
		})
	}
	add("inherit", "nearer value wins", "ok", func() error {
		ih = inh{}
		return UnmarshalJsonBytes([]byte(`{"host":"h0","a":{"host":"h1","b":{"host":"h2","c":{}}}}`), &ih)
	}, func() string {
		if ih.Host != "h0" || ih.A.B.Host != "h2" || ih.A.B.C.Host != "h2" {
			return fmt.Sprintf("host=%q b.host=%q c.host=%q", ih.Host, ih.A.B.Host, ih.A.B.C.Host)
		}
		return ""
	})
	// the same below pointer-to-struct members (every level by pointer, and mixed)
	type inhPC struct {
		Host string `json:"host,inherit"`
		Own  string `json:"own,optional,inherit"`
	}
	type inhPB struct {
		Host string `json:"host,inherit"`
		C    *inhPC `json:"c"`
		CV   inhPC  `json:"cv"`
	}
	type inhPA struct {
		N int    `json:"n,optional"`
		B *inhPB `json:"b"`
	}
	type inhP struct {
		Host string `json:"host"`
		A    *inhPA `json:"a"`
		AV   struct {
			B *inhPB `json:"b"`
		} `json:"av"`
	}
	var ip inhP
	for _, epn := range []string{"UnmarshalJsonBytes", "UnmarshalYamlBytes", "UnmarshalJsonMap", "UnmarshalJsonReader"} {
		epn := epn
		ep := eps[epn]
		add("inherit", "members below pointer-to-struct fields see the enclosing levels via "+epn, "ok", func() error {
			ip = inhP{}
			return ep(`{"host":"h0","a":{"n":1,"b":{"c":{},"cv":{}}},"av":{"b":{"host":"h2","c":{},"cv":{"host":"h3"}}}}`, &ip)
		}, func() string {
			if ip.A == nil || ip.A.B == nil || ip.A.B.C == nil || ip.AV.B == nil || ip.AV.B.C == nil {
				return fmt.Sprintf("nil pointer in %+v", ip)
			}
			got := []string{ip.A.B.Host, ip.A.B.C.Host, ip.A.B.CV.Host, ip.A.B.C.Own, ip.AV.B.Host, ip.AV.B.C.Host, ip.AV.B.CV.Host}
			want := []string{"h0", "h0", "h0", "", "h2", "h2", "h3"}
			if !reflect.DeepEqual(got, want) {
				return fmt.Sprintf("a.b.host a.b.c.host a.b.cv.host a.b.c.own av.b.host av.b.c.host av.b.cv.host = %q, want %q", got, want)
			}
			return ""
		})
	}
	type inhPReq struct {
		A *struct {
			Host string `json:"host,inherit"`
		} `json:"a"`
	}
	var ipr inhPReq
	add("inherit", "required inherit member below a pointer, absent at every level", "error", func() error { ipr = inhPReq{}; return UnmarshalJsonBytes([]byte(`{"a":{}}`), &ipr) }, nil)
	type inhPMerge struct {
		Etcd c05nEtcd `json:"etcd"`
		Rpc  *struct {
			Etcd  c05nEtcd  `json:"etcd,inherit"`
			Etcd2 *c05nEtcd `json:"etcd,inherit"`
		} `json:"rpc"`
	}
	var ipm inhPMerge
	add("inherit", "object merge with the parent's object below a pointer-to-struct member", "ok", func() error {
		ipm = inhPMerge{}
		return UnmarshalJsonBytes([]byte(`{"etcd":{"hosts":["a","b"],"key":"k0"},"rpc":{"etcd":{"key":"k1"}}}`), &ipm)
	}, func() string {
		want := c05nEtcd{[]string{"a", "b"}, "k1"}
		if ipm.Rpc == nil || ipm.Rpc.Etcd2 == nil || !reflect.DeepEqual(ipm.Rpc.Etcd, want) || !reflect.DeepEqual(*ipm.Rpc.Etcd2, want) {
			return fmt.Sprintf("rpc=%+v", ipm.Rpc)
		}
		return ""
	})
	add("inherit", "object absent below a pointer: the parent's object", "ok", func() error {
		ipm = inhPMerge{}
		return UnmarshalJsonBytes([]byte(`{"etcd":{"hosts":["a"],"key":"k0"},"rpc":{}}`), &ipm)
	}, func() string {
		want := c05nEtcd{[]string{"a"}, "k0"}
		if ipm.Rpc == nil || ipm.Rpc.Etcd2 == nil || !reflect.DeepEqual(ipm.Rpc.Etcd, want) || !reflect.DeepEqual(*ipm.Rpc.Etcd2, want) {
			return fmt.Sprintf("rpc=%+v", ipm.Rpc)
		}
		return ""
	})

	// explicit null is a value at its level (optional -> zero, required -> error, exactly as without inherit):
	// it is not looked through to the ancestors. Crossed with: required / optional inherit member, scalar and
	// object members, by-value and by-pointer nesting, one and two levels, ancestor holding the key or not.
	type nullLeaf struct {
		Req string    `json:"req,inherit" key:"req,inherit"`
		Opt string    `json:"opt,optional,inherit" key:"opt,optional,inherit"`
		Num *int      `json:"num,optional,inherit" key:"num,optional,inherit"`
		Obj *c05nEtcd `json:"obj,optional,inherit" key:"obj,optional,inherit"`
	}
	type nullMid struct {
		Leaf  nullLeaf  `json:"leaf" key:"leaf"`
		LeafP *nullLeaf `json:"leafp,optional" key:"leafp,optional"`
	}
	type nullRoot struct {
		Req  string    `json:"req,optional" key:"req,optional"`
		Opt  string    `json:"opt,optional" key:"opt,optional"`
		Num  *int      `json:"num,optional" key:"num,optional"`
		Obj  *c05nEtcd `json:"obj,optional" key:"obj,optional"`
		Leaf nullLeaf  `json:"leaf" key:"leaf"`
		Mid  *nullMid  `json:"mid,optional" key:"mid,optional"`
	}
	anc := `"req":"R0","opt":"O0","num":7,"obj":{"hosts":["a"],"key":"k0"},`
	nullDocs := []struct {
		name, doc, expect string
		check             func(r *nullRoot) string
	}{
		{"optional inherit members null, ancestors hold the keys", `{` + anc + `"leaf":{"req":"r1","opt":null,"num":null,"obj":null}}`, "ok", func(r *nullRoot) string {
			if r.Leaf.Req != "r1" || r.Leaf.Opt != "" || r.Leaf.Num != nil || r.Leaf.Obj != nil {
				return fmt.Sprintf("leaf=%+v (null members must stay zero, the ancestor's values are O0 / 7 / {a k0})", r.Leaf)
			}
			return ""
		}},
		{"required inherit member null, ancestor holds the key", `{` + anc + `"leaf":{"req":null}}`, "error", nil},
		{"required inherit member null, no ancestor holds the key", `{"leaf":{"req":null}}`, "error", nil},
		{"required inherit member absent, ancestor holds the key", `{` + anc + `"leaf":{}}`, "ok", func(r *nullRoot) string {
			if r.Leaf.Req != "R0" || r.Leaf.Opt != "O0" || r.Leaf.Num == nil || *r.Leaf.Num != 7 || r.Leaf.Obj == nil || r.Leaf.Obj.Key != "k0" {
				return fmt.Sprintf("leaf=%+v", r.Leaf)
			}
			return ""
		}},
		{"two levels down, by value and by pointer: optional nulls, ancestors two levels up", `{` + anc + `"leaf":{},"mid":{"leaf":{"opt":null,"num":null,"obj":null},"leafp":{"req":"r2","opt":null}}}`, "ok", func(r *nullRoot) string {
			if r.Mid == nil || r.Mid.LeafP == nil {
				return "nil pointer"
			}
			l, lp := r.Mid.Leaf, r.Mid.LeafP
			if l.Req != "R0" || l.Opt != "" || l.Num != nil || l.Obj != nil || lp.Req != "r2" || lp.Opt != "" || lp.Num == nil || *lp.Num != 7 {
				return fmt.Sprintf("mid.leaf=%+v mid.leafp=%+v", l, *lp)
			}
			return ""
		}},
		{"two levels down by pointer: required null, ancestor two levels up holds the key", `{` + anc + `"leaf":{},"mid":{"leaf":{},"leafp":{"req":null}}}`, "error", nil},
		{"null at the middle level shadows the top level for the member below", `{` + anc + `"leaf":{},"mid":{"opt":null,"leaf":{}}}`, "free", func(r *nullRoot) string {
			if r.Mid == nil {
				return "nil pointer"
			}
			if o := r.Mid.Leaf.Opt; o != "" && o != "O0" {
				return "mid.leaf.opt=" + o
			}
			return ""
		}},
		{"null at the ancestor, member absent below: optional stays zero", `{"req":"R0","opt":null,"num":null,"obj":null,"leaf":{}}`, "ok", func(r *nullRoot) string {
			if r.Leaf.Req != "R0" || r.Leaf.Opt != "" || r.Leaf.Num != nil || r.Leaf.Obj != nil {
				return fmt.Sprintf("leaf=%+v", r.Leaf)
			}
			return ""
		}},
		{"null at the ancestor, required member absent below", `{"req":null,"leaf":{}}`, "error", nil},
	}
	for _, nd := range nullDocs {
		for _, epn := range []string{"UnmarshalJsonBytes", "UnmarshalYamlBytes", "UnmarshalJsonMap", "UnmarshalKey", "UnmarshalJsonReader"} {
			nd, epn := nd, epn
			ep := eps[epn]
			var nr nullRoot
			var chk func() string
			if nd.check != nil {
				chk = func() string { return nd.check(&nr) }
			}
			add("inherit-null", nd.name+" via "+epn, nd.expect, func() error { nr = nullRoot{}; return ep(nd.doc, &nr) }, chk)
		}
	}

	type inhReq struct {
		A struct {
			Host string `json:"host,inherit"`
		} `json:"a"`
	}
	var ir inhReq
	add("inherit", "required inherit field absent at every level", "error", func() error { ir = inhReq{}; return UnmarshalJsonBytes([]byte(`{"a":{}}`), &ir) }, nil)
	type inhMerge struct {
		Etcd c05nEtcd `json:"etcd"`
		Rpc  struct {
			Etcd c05nEtcd `json:"etcd,inherit"`
			Name string   `json:"name,optional"`
		} `json:"rpc"`
	}
	var im inhMerge
	add("inherit", "object value completed from the parent's object of the same key", "ok", func() error {
		im = inhMerge{}
		return UnmarshalJsonBytes([]byte(`{"etcd":{"hosts":["a","b"],"key":"k0"},"rpc":{"etcd":{"key":"k1"},"name":"n"}}`), &im)
	}, func() string {
		if !reflect.DeepEqual(im.Etcd, c05nEtcd{[]string{"a", "b"}, "k0"}) || !reflect.DeepEqual(im.Rpc.Etcd, c05nEtcd{[]string{"a", "b"}, "k1"}) {
			return fmt.Sprintf("etcd=%+v rpc.etcd=%+v", im.Etcd, im.Rpc.Etcd)
		}
		return ""
	})
	type inhOnlyChild struct {
		Rpc struct {
			Etcd c05nEtcd `json:"etcd,inherit"`
		} `json:"rpc"`
	}
	var ic inhOnlyChild
	for _, top := range []string{``, `"etcd":"scalar",`, `"etcd":[1],`, `"etcd":null,`} {
		top := top
		add("inherit", "child object complete, parent level has "+top, "ok", func() error {
			ic = inhOnlyChild{}
			return UnmarshalJsonBytes([]byte(`{`+top+`"rpc":{"etcd":{"hosts":["a"],"key":"k"}}}`), &ic)
		}, func() string {
			if !reflect.DeepEqual(ic.Rpc.Etcd, c05nEtcd{[]string{"a"}, "k"}) {
				return fmt.Sprintf("rpc.etcd=%+v", ic.Rpc.Etcd)
			}
			return ""
		})
	}
	add("inherit", "object absent in the child: the parent's object", "ok", func() error {
		im = inhMerge{}
		return UnmarshalJsonBytes([]byte(`{"etcd":{"hosts":["a"],"key":"k0"},"rpc":{}}`), &im)
	}, func() string {
		if !reflect.DeepEqual(im.Rpc.Etcd, c05nEtcd{[]string{"a"}, "k0"}) {
			return fmt.Sprintf("rpc.etcd=%+v", im.Rpc.Etcd)
		}
		return ""
	})

	// ---- malformed / exotic text: never a panic; a well-formed equivalent must load
	type loose struct {
		A  any    `json:"a,optional"`
		S  string `json:"s,optional"`
		N  int    `json:"n,optional"`
		M  int    `json:"num,optional"`
		S2 string `json:"s2,optional"`
	}
	var lo loose
	jsonTexts := []string{"", " ", "{", "}", "[1]", "null", "1", `"x"`, `{"n":}`, `{"n":1}{"n":2}`, `{"n":1} x`, "{\"s\":\"\xff\xfe\"}", `{"n":1,"n":2}`, `{"n":01}`, `{"n":1,}`, `{'n':1}`,
		`{"n":NaN}`, `{"n":Infinity}`, `{"s":"\ud800"}`, `{"n":1e99999}`, strings.Repeat("[", 20000), `{"a":` + strings.Repeat("[", 5000) + strings.Repeat("]", 5000) + `}`}
	for i, tx := range jsonTexts {
		tx := tx
		for _, epn := range []string{"UnmarshalJsonBytes", "UnmarshalJsonReader", "UnmarshalYamlBytes", "UnmarshalYamlReader"} {
			ep := eps[epn]
			add("raw-text", fmt.Sprintf("json text #%d through %s", i, epn), "free", func() error { lo = loose{}; return ep(tx, &lo) }, nil)
		}
	}
	yamlTexts := []string{"a: [", "- 1\n- 2", "a: &x 1\ns: *x", "base: &b {n: 1}\n<<: *b", "n: .nan", "n: .inf", "a: .NaN", "a: 2001-12-14", "a: 2001-12-14T21:59:43Z", "a: !!binary aGk=", "1: x", "true: y", "~: z",
		"? [k]\n: v", "? {k: 1}\n: v", "a: !!float 1", "a: !!str 1", "n: 0x1F", "n: 0o17", "n: 017", "n: 1_000", "n: +1", "s: yes", "s: on", "a: *nope", "a:\n\t- 1", "---\nn: 1\n---\nn: 2", "n: 1\nn: 2",
		"a: |\n  text\n  more", "a: >\n  folded", "s: 'it''s'", "s: \"\\x41\\u00e9\"", "%YAML 1.1\n---\nn: 1", "a: {b: {c: {d: [1, {e: 2}]}}}", "n: 1 # comment", "\xff\xfe", "a: " + strings.Repeat("[", 3000)}
	for i, tx := range yamlTexts {
		tx := tx
		for _, epn := range []string{"UnmarshalYamlBytes", "UnmarshalYamlReader"} {
			ep := eps[epn]
			add("raw-text", fmt.Sprintf("yaml text #%d through %s", i, epn), "free", func() error { lo = loose{}; return ep(tx, &lo) }, nil)
		}
	}
	add("raw-text", "reader that fails (yaml)", "error", func() error { lo = loose{}; return UnmarshalYamlReader(c05nErrReader{}, &lo) }, nil)
	add("raw-text", "reader that fails (json)", "error", func() error { lo = loose{}; return UnmarshalJsonReader(c05nErrReader{}, &lo) }, nil)
	add("raw-text", "plain YAML mapping", "ok", func() error { lo = loose{}; return UnmarshalYamlReader(strings.NewReader("num: 7\ns: \"x\"\n"), &lo) }, func() string {
		if lo.M != 7 || lo.S != "x" {
			return fmt.Sprintf("%+v", lo)
		}
		return ""
	})
	add("raw-text", "YAML anchors and aliases resolve to the anchored value", "ok", func() error { lo = loose{}; return UnmarshalYamlBytes([]byte("num: &x 7\ns: &y \"v\"\ns2: *y\n"), &lo) }, func() string {
		if lo.M != 7 || lo.S != "v" || lo.S2 != "v" {
			return fmt.Sprintf("%+v", lo)
		}
		return ""
	})

	// ---- run
	for i, r := range rows {
		idx := i + 1
		if !m.Only(idx) {
			continue
		}
		d := fmt.Sprintf("case=%d;class=%s;%s;expect=%s", idx, r.class, r.name, r.expect)
		c05Current(m, idx>>9, d)
		err, pv, stack := c05Recover(r.run)
		m.Case(d, true)
		m.Count("rows."+r.class, 1)
		switch {
		case pv != nil:
			m.Violate(c05PanicSig(pv, stack), d, "panic: %v\n%s", pv, c05TrimStack(stack))
		case r.expect == "error" && err == nil:
			m.Violate("C05:native:accepted:"+r.class, d, "%s: expected an error, got none", r.name)
		case r.expect == "ok" && err != nil:
			m.Violate("C05:native:rejected:"+r.class, d, "%s: %v", r.name, err)
		case err == nil && r.check != nil:
			var bad string
			if _, pv2, st2 := c05Recover(func() error { bad = r.check(); return nil }); pv2 != nil {
				m.Violate("C05:native:check-panic:"+r.class, d, "oracle panicked: %v\n%s", pv2, c05TrimStack(st2))
			} else if bad != "" {
				m.Violate("C05:native:inexact:"+r.class, d, "%s: %s", r.name, bad)
			} else {
				m.Count("outcome.ok-exact", 1)
			}
		case err != nil:
			m.Count("outcome.error", 1)
		default:
			m.Count("outcome.ok", 1)
		}
	}
	m.Sample(map[string]any{"rows": len(rows)})
}

// c05nTextArrived: did the document value dv (JSON text) arrive in the member f of type tt?
func c05nTextArrived(tt reflect.Type, f reflect.Value, dv string) string {
	var doc any
	dec := json.NewDecoder(strings.NewReader(dv))
	dec.UseNumber()
	if err := dec.Decode(&doc); err != nil {
		return ""
	}
	lost := func() string {
		return fmt.Sprintf("no error, but the member is %#v: the document's value %s did not arrive", f.Interface(), dv)
	}
	if s, isStr := doc.(string); isStr {
		if tu, ok := reflect.New(tt).Interface().(encoding.TextUnmarshaler); ok {
			want := reflect.ValueOf(tu)
			if err := tu.UnmarshalText([]byte(s)); err == nil && reflect.DeepEqual(want.Elem().Interface(), f.Interface()) {
				return ""
			}
		}
		// taken as plain text for the underlying kind
		if f.Kind() == reflect.String && f.String() == s {
			return ""
		}
		if (f.Kind() == reflect.Int || f.Kind() == reflect.Float64) && c05nSameValue(s, f) {
			return ""
		}
		return lost()
	}
	switch x := doc.(type) {
	case json.Number:
		if f.Kind() == reflect.Bool || !c05nSameValue(string(x), f) {
			return lost()
		}
	case bool:
		if f.Kind() != reflect.Bool || f.Bool() != x {
			return lost()
		}
	case []any:
		if f.Kind() != reflect.Slice || f.Len() != len(x) {
			return lost()
		}
		for i, e := range x {
			es, ok := e.(string)
			if n, isNum := e.(json.Number); isNum {
				es, ok = string(n), true // number -> string element, textually exact: tolerated
			}
			if !ok || f.Index(i).String() != es {
				return lost()
			}
		}
	case map[string]any:
		switch f.Kind() {
		case reflect.Map:
			if f.Len() != len(x) {
				return lost()
			}
			for k, e := range x {
				mv := f.MapIndex(reflect.ValueOf(k))
				if es, ok := e.(string); !ok || !mv.IsValid() || mv.String() != es {
					return lost()
				}
			}
		case reflect.Struct:
			if sv, ok := x["S"].(string); !ok || f.Field(0).String() != sv {
				return lost()
			}
		default:
			return lost()
		}
	}
	return ""
}

// c05nFirstLeaf descends to the first scalar inside slices / maps / pointers / one-field structs.
func c05nFirstLeaf(v reflect.Value) (reflect.Value, bool) {
	for {
		switch v.Kind() {
		case reflect.Slice:
			if v.Len() == 0 {
				return v, false
			}
			v = v.Index(0)
		case reflect.Map:
			if v.Len() == 0 {
				return v, false
			}
			v = v.MapIndex(v.MapKeys()[0])
		case reflect.Ptr, reflect.Interface:
			if v.IsNil() {
				return v, false
			}
			v = v.Elem()
		case reflect.Struct:
			v = v.Field(0)
		default:
			return v, true
		}
	}
}

func c05nRat(v reflect.Value) (*big.Rat, bool) {
	switch v.Kind() {
	case reflect.Int, reflect.Int8, reflect.Int16, reflect.Int32, reflect.Int64:
		return new(big.Rat).SetInt64(v.Int()), true
	case reflect.Uint, reflect.Uint8, reflect.Uint16, reflect.Uint32, reflect.Uint64:
		return new(big.Rat).SetInt(new(big.Int).SetUint64(v.Uint())), true
	case reflect.Float32, reflect.Float64:
		r := new(big.Rat)
		if r.SetFloat64(v.Float()) == nil {
			return nil, false
		}
		return r, true
	}
	return nil, false
}

// c05nSameValue: does the stored scalar hold exactly the source value (numbers by value, a float
// narrowed to float32 may be the nearest float32; strings and bools identical; no cross-class coercion).
func c05nSameValue(src any, got reflect.Value) bool {
	sv := reflect.ValueOf(src)
	switch {
	case sv.Kind() == reflect.Bool || got.Kind() == reflect.Bool:
		return sv.Kind() == reflect.Bool && got.Kind() == reflect.Bool && sv.Bool() == got.Bool()
	case sv.Kind() == reflect.String && got.Kind() == reflect.String:
		return sv.String() == got.String()
	case sv.Kind() == reflect.String || got.Kind() == reflect.String:
		if st, ok := src.(fmt.Stringer); ok && got.Kind() == reflect.String && st.String() == got.String() {
			return true // the value's own textual form (time.Duration): exact text
		}
		// text <-> number: tolerated only when the text is exactly that number
		str, num := sv, got
		if got.Kind() == reflect.String {
			str, num = got, sv
		}
		r, ok := new(big.Rat).SetString(str.String())
		n, ok2 := c05nRat(num)
		return ok && ok2 && len(str.String()) < 400 && r.Cmp(n) == 0
	}
	a, ok1 := c05nRat(sv)
	b, ok2 := c05nRat(got)
	if !ok1 || !ok2 {
		return false
	}
	if a.Cmp(b) == 0 {
		return true
	}
	if got.Kind() == reflect.Float32 && (sv.Kind() == reflect.Float64 || sv.Kind() == reflect.Float32) {
		f := sv.Float()
		return !math.IsInf(float64(float32(f)), 0) && float64(float32(f)) == got.Float()
	}
	return false
}

// c05nLoose renders containers for comparison across static types (map[string]int vs map[string]any ...).
func c05nLoose(v any) string {
	rv := reflect.ValueOf(v)
	switch rv.Kind() {
	case reflect.Map:
		var parts []string
		for _, k := range rv.MapKeys() {
			parts = append(parts, fmt.Sprint(k.Interface())+":"+c05nLoose(rv.MapIndex(k).Interface()))
		}
		for i := range parts {
			for j := i + 1; j < len(parts); j++ {
				if parts[j] < parts[i] {
					parts[i], parts[j] = parts[j], parts[i]
				}
			}
		}
		return "{" + strings.Join(parts, ",") + "}"
	case reflect.Slice, reflect.Array:
		var parts []string
		for i := 0; i < rv.Len(); i++ {
			parts = append(parts, c05nLoose(rv.Index(i).Interface()))
		}
		return "[" + strings.Join(parts, ",") + "]"
	case reflect.Struct:
		return fmt.Sprintf("%+v", v)
	case reflect.Interface, reflect.Ptr:
		if rv.IsNil() {
			return "nil"
		}
		return c05nLoose(rv.Elem().Interface())
	}
	return fmt.Sprint(v)
}
