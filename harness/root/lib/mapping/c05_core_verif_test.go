//go:build verif

package mapping

// C05 — unmarshalling monitor (DESIGN.md §3 C05), lib/mapping part.
// Struct shapes are generated at run time (reflect.StructOf) by c05gen, documents are
// generic trees whose expected struct the generator knows; every call is wrapped in
// recover(); the oracle is "error, or every field equals the document exactly
// (default / zero for absent fields), constraints enforced" — see c05gen.Audit.

import (
	"bytes"
	"fmt"
	"net/textproto"
	"os"
	"reflect"
	"regexp"
	"runtime/debug"
	"strings"
	"sync"
	"testing"

	"github.com/gotid/god/lib/jsonx"
	"github.com/gotid/god/lib/mapping/c05gen"
	"verif.local/vk"
)

type c05Out struct {
	err   error
	pv    any
	stack string
	res   reflect.Value // pointer to struct
}

func (o c05Out) String() string {
	switch {
	case o.pv != nil:
		return fmt.Sprintf("panic: %v", o.pv)
	case o.err != nil:
		return "error: " + o.err.Error()
	}
	return "ok: " + c05gen.Show(o.res)
}

func c05Recover(f func() error) (err error, pv any, stack string) {
	defer func() {
		if r := recover(); r != nil {
			pv = r
			stack = string(debug.Stack())
		}
	}()
	return f(), nil, ""
}

var c05RecvRe = regexp.MustCompile(`\(\*?\w+\)`)
var c05FrameRe = regexp.MustCompile(`\.([A-Za-z_]\w*)(?:\.func\d+|\.\d+)*\(`)

// c05PanicSig: stable class of a recovered panic = first repo frame below the panic + kind of message.
func c05PanicSig(pv any, stack string) string {
	frame := "unknown"
	if i := strings.Index(stack, "\npanic("); i >= 0 {
		for _, line := range strings.Split(stack[i:], "\n") {
			if !strings.HasPrefix(line, "github.com/gotid/god/") {
				continue
			}
			fn := c05RecvRe.ReplaceAllString(line, "T")
			if j := strings.Index(fn, "("); j >= 0 {
				fn = fn[:j]
			}
			fn = fn[strings.LastIndex(fn, "/")+1:] // pkg.T.method.func1
			if strings.Contains(fn, ".c05") || strings.Contains(fn, "C05") {
				continue
			}
			if mm := c05FrameRe.FindStringSubmatch(fn + "("); mm != nil {
				frame = mm[1]
			}
			break
		}
	}
	msg := fmt.Sprint(pv)
	class := "other"
	switch {
	case strings.HasPrefix(msg, "reflect: call of reflect.Value."):
		class = strings.Fields(strings.TrimPrefix(msg, "reflect: call of "))[0]
	case strings.HasPrefix(msg, "interface conversion"):
		class = "interface-conversion"
	case strings.Contains(msg, "not assignable") || strings.Contains(msg, "value of type"):
		class = "not-assignable"
	case strings.HasPrefix(msg, "reflect: "):
		f := strings.Fields(strings.TrimPrefix(msg, "reflect: "))
		if len(f) > 0 {
			class = "reflect." + strings.Trim(f[0], ":")
		}
	case strings.Contains(msg, "nil pointer") || strings.Contains(msg, "invalid memory address"):
		class = "nil-deref"
	case strings.Contains(msg, "index out of range"):
		class = "index-out-of-range"
	case strings.Contains(msg, "nil map"):
		class = "nil-map"
	}
	return "C05:panic:" + frame + ":" + class
}

// c05API names the entry point used for a call.
type c05API string

const (
	c05JSON   c05API = "UnmarshalJsonBytes"
	c05YAML   c05API = "UnmarshalYamlBytes"
	c05Map    c05API = "UnmarshalJsonMap"
	c05Reader c05API = "UnmarshalJsonReader"
	c05YAMLR  c05API = "UnmarshalYamlReader"
	c05Key    c05API = "UnmarshalKey"
	c05Form   c05API = "NewUnmarshaler(form,WithStringValues).Unmarshal"
	c05Path   c05API = "NewUnmarshaler(path,WithStringValues).Unmarshal"
	c05Header c05API = "NewUnmarshaler(header,WithStringValues,CanonicalMIMEHeaderKey).Unmarshal"
)

var c05FormUnmarshaler = NewUnmarshaler("form", WithStringValues())

// the same constructions api/httpx and api/internal/encoding use for path variables and headers
var c05PathUnmarshaler = NewUnmarshaler("path", WithStringValues())
var c05HeaderUnmarshaler = NewUnmarshaler("header", WithStringValues(), WithCanonicalKeyFunc(textproto.CanonicalMIMEHeaderKey))

// c05Decode turns rendered JSON into the generic map the map-based entry points take
// (numbers as json.Number, exactly as jsonx hands them to the unmarshaller).
func c05Decode(js []byte) (map[string]any, error) {
	var mm map[string]any
	err := jsonx.Unmarshal(js, &mm)
	return mm, err
}

type c05Mon struct {
	m      *vk.M
	idx    int
	coarse bool // systematic probes: vk's Current file is refreshed every 512 probes only (the last-call file is exact)
}

func (cm *c05Mon) desc(api c05API, s *c05gen.Shape, payload []byte, note string) string {
	if len(payload) > 3000 {
		payload = append(append([]byte{}, payload[:3000]...), "…"...)
	}
	return fmt.Sprintf("case=%d;api=%s;%s;shape=%s;doc=%s", cm.idx, api, note, s.String(), payload)
}

func c05Payload(api c05API, doc map[string]any) []byte {
	if api == c05YAML || api == c05YAMLR {
		return c05gen.YAML(doc)
	}
	return c05gen.JSON(doc)
}

// c05Raw runs one unmarshal of payload into a fresh struct of shape s, recovering panics.
func c05Raw(api c05API, s *c05gen.Shape, payload []byte) c05Out {
	out := c05Out{res: s.New()}
	v := out.res.Interface()
	out.err, out.pv, out.stack = c05Recover(func() error {
		switch api {
		case c05JSON:
			return UnmarshalJsonBytes(payload, v)
		case c05YAML:
			return UnmarshalYamlBytes(payload, v)
		case c05Reader:
			return UnmarshalJsonReader(bytes.NewReader(payload), v)
		case c05YAMLR:
			return UnmarshalYamlReader(bytes.NewReader(payload), v)
		case c05Map:
			mm, err := c05Decode(payload)
			if err != nil {
				return err
			}
			return UnmarshalJsonMap(mm, v)
		case c05Key:
			mm, err := c05Decode(payload)
			if err != nil {
				return err
			}
			return UnmarshalKey(mm, v)
		case c05Form:
			mm, err := c05Decode(payload)
			if err != nil {
				return err
			}
			return c05FormUnmarshaler.Unmarshal(mm, v)
		case c05Path, c05Header:
			mm, err := c05Decode(payload)
			if err != nil {
				return err
			}
			if api == c05Path {
				return c05PathUnmarshaler.Unmarshal(mm, v)
			}
			return c05HeaderUnmarshaler.Unmarshal(mm, v)
		}
		return fmt.Errorf("c05: unknown api %s", api)
	})
	return out
}

// Attribution of a fatal process death: vk's Current file is rewritten once per scenario
// (create+write+close per call dominated the run time on this box); the call about to
// run is written with a single pwrite into a second, permanently open *.current file in
// $VK_OUT, which the driver picks up in the same way.
var (
	c05CurMu   sync.Mutex
	c05CurFile *os.File
	c05CurIdx  = -1 << 62
	c05CurBuf  [4096]byte
)

func c05Current(m *vk.M, idx int, d string) {
	c05CurMu.Lock()
	defer c05CurMu.Unlock()
	if idx != c05CurIdx {
		c05CurIdx = idx
		m.Current(d)
	}
	dir := os.Getenv("VK_OUT")
	if dir == "" {
		return
	}
	if c05CurFile == nil {
		f, err := os.OpenFile(fmt.Sprintf("%s/C05.lastcall.%d.current", dir, os.Getpid()), os.O_CREATE|os.O_RDWR|os.O_TRUNC, 0o644)
		if err != nil {
			return
		}
		c05CurFile = f
	}
	n := copy(c05CurBuf[:], "\nlast call: ")
	n += copy(c05CurBuf[n:len(c05CurBuf)-1], d)
	for i := n; i < len(c05CurBuf); i++ {
		c05CurBuf[i] = ' '
	}
	c05CurBuf[len(c05CurBuf)-1] = '\n'
	c05CurFile.WriteAt(c05CurBuf[:], 0)
}

// c05Call = c05Raw + attribution file + counters.
func c05Call(cm *c05Mon, api c05API, s *c05gen.Shape, doc map[string]any, note string) (c05Out, string) {
	payload := c05Payload(api, doc)
	d := cm.desc(api, s, payload, note)
	if cm.coarse {
		c05Current(cm.m, cm.idx>>9, d)
	} else {
		c05Current(cm.m, cm.idx, d)
	}
	out := c05Raw(api, s, payload)
	cm.m.Count("calls."+string(api), 1)
	switch {
	case out.pv != nil:
		cm.m.Count("outcome.panic", 1)
	case out.err != nil:
		cm.m.Count("outcome.error", 1)
	default:
		cm.m.Count("outcome.ok", 1)
	}
	return out, d
}

// c05Blame re-runs a rejected valid document field by field to name the field class.
func c05Blame(api c05API, c *c05gen.Case) string {
	root := c.Shape.Root
	for _, f := range root.Fields {
		if f.Foreign || f.O.Dep != "" {
			continue
		}
		sub := &c05gen.Shape{Root: c05gen.StructOf(f), TagKey: c.Shape.TagKey}
		doc := map[string]any{}
		if f.Anonymous {
			for k, v := range c.Doc {
				doc[k] = v
			}
		} else if v, ok := c.Doc[f.DocKey()]; ok {
			doc[f.DocKey()] = v
		}
		out := c05Raw(api, sub, c05Payload(api, doc))
		if out.err != nil || out.pv != nil {
			return f.FieldSig()
		}
	}
	return "combination"
}

// c05Judge applies the oracle to one outcome. class: "valid" | "fault" | "free".
// It returns true when a violation was recorded.
func c05Judge(cm *c05Mon, api c05API, c *c05gen.Case, doc map[string]any, out c05Out, d string, class string, ft *c05gen.Fault) bool {
	m := cm.m
	if out.pv != nil {
		m.Violate(c05PanicSig(out.pv, out.stack), d, "panic: %v\n%s", out.pv, c05TrimStack(out.stack))
		return true
	}
	if (api == c05YAML || api == c05YAMLR) && c05gen.HasNull(doc) {
		// a YAML null is judged through the JSON/YAML equivalence only (one root cause, one signature)
		return false
	}
	aopt := c05gen.AuditOpt{Env: c.Env}
	switch class {
	case "valid":
		if out.err != nil {
			m.Violate("C05:valid-rejected:"+c05Blame(api, c), d, "a document that satisfies every declared constraint was rejected: %v", out.err)
			return true
		}
		if fd := c05gen.Audit(c.Shape, out.res, doc, aopt); fd != nil {
			m.Violate(fd.Sig, d, "%s\nresult: %s", fd.Detail, c05gen.Show(out.res))
			return true
		}
		if c.Expect.IsValid() && !c05gen.Equal(out.res.Elem(), c.Expect.Elem()) {
			m.Violate("C05:mismatch:valid-doc", d, "result differs from the struct the generator built the document from\n got: %s\nwant: %s", c05gen.Show(out.res), c05gen.Show(c.Expect))
			return true
		}
		m.Count("valid.accepted-exact", 1)
	case "fault":
		if out.err != nil {
			m.Count("fault.rejected."+ft.Kind, 1)
			return false
		}
		if fd := c05gen.Audit(c.Shape, out.res, doc, aopt); fd != nil {
			m.Violate(fd.Sig, d, "fault: %s\n%s\nresult: %s", ft.Desc, fd.Detail, c05gen.Show(out.res))
			return true
		}
		if ft.MustErr {
			m.Violate("C05:fault-accepted:"+ft.Kind, d, "fault: %s — no error; result: %s", ft.Desc, c05gen.Show(out.res))
			return true
		}
		m.Count("fault.accepted-exact."+ft.Kind, 1)
	default:
		if out.err != nil {
			m.Count("free.rejected", 1)
			return false
		}
		if fd := c05gen.Audit(c.Shape, out.res, doc, aopt); fd != nil {
			m.Violate(fd.Sig, d, "mutation: %s\n%s\nresult: %s", ft.Desc, fd.Detail, c05gen.Show(out.res))
			return true
		}
		m.Count("free.accepted-exact", 1)
	}
	return false
}

func c05TrimStack(s string) string {
	if i := strings.Index(s, "\npanic("); i >= 0 {
		s = s[i+1:]
	}
	lines := strings.Split(s, "\n")
	if len(lines) > 24 {
		lines = lines[:24]
	}
	return strings.Join(lines, "\n")
}

// c05SecondUse: results are independent values. The owner of the first result overwrites it in place
// (slice elements, map entries, pointees, defaulted members included); the same document unmarshalled
// again into a fresh struct must still give the struct the generator expects.
func c05SecondUse(cm *c05Mon, api c05API, c *c05gen.Case, first c05Out) (bool, c05Out) {
	c05gen.Scramble(first.res.Elem())
	out, d := c05Call(cm, api, c.Shape, c.Doc, "class=valid;second-use-after-scrambling-first-result")
	switch {
	case out.pv != nil:
		cm.m.Violate(c05PanicSig(out.pv, out.stack), d, "panic: %v\n%s", out.pv, c05TrimStack(out.stack))
		return true, out
	case out.err != nil:
		cm.m.Violate("C05:results-share-state", d, "the same valid document is rejected on second use, after the first result was modified in place: %v", out.err)
		return true, out
	case !c05gen.Equal(out.res.Elem(), c.Expect.Elem()):
		detail := ""
		if fd := c05gen.Audit(c.Shape, out.res, c.Doc, c05gen.AuditOpt{Env: c.Env}); fd != nil {
			detail = fd.Detail + "\n"
		}
		cm.m.Violate("C05:results-share-state", d, "%ssecond unmarshal of the same document, after the first result was modified in place by its owner:\n got: %s\nwant: %s", detail, c05gen.Show(out.res), c05gen.Show(c.Expect))
		return true, out
	}
	cm.m.Count("second-use.independent", 1)
	return false, out
}

// c05Equiv checks JSON == YAML for one document (same error-ness, same struct).
func c05Equiv(cm *c05Mon, c *c05gen.Case, doc map[string]any, j, y c05Out, dj string, what string) bool {
	if j.pv != nil || y.pv != nil {
		return false // reported by c05Judge
	}
	sub := ""
	if c05gen.HasNull(doc) {
		sub = ":null"
	}
	if (j.err == nil) != (y.err == nil) {
		cm.m.Violate("C05:json-yaml-diverge:errorness"+sub, dj, "%s: the same content gives JSON -> %s but YAML -> %s\nyaml:\n%s", what, j, y, c05gen.YAML(doc))
		return true
	}
	if j.err == nil && !c05gen.Equal(j.res.Elem(), y.res.Elem()) {
		cm.m.Violate("C05:json-yaml-diverge:value"+sub, dj, "%s: JSON -> %s\nYAML -> %s\nyaml:\n%s", what, c05gen.Show(j.res), c05gen.Show(y.res), c05gen.YAML(doc))
		return true
	}
	cm.m.Count("json-yaml.equivalent", 1)
	return false
}

var c05EnvMu sync.Mutex

// c05SetEnv exports the env vars of a shape (names are unique per shape, proc.Env memoises the first lookup).
func c05SetEnv(s *c05gen.Shape) int {
	n := 0
	var walk func(t *c05gen.Type)
	walk = func(t *c05gen.Type) {
		switch t.K {
		case c05gen.Ptr, c05gen.Slice, c05gen.Map:
			walk(t.Elem)
		case c05gen.Struct:
			for _, f := range t.Fields {
				if f.O.Env != "" && f.O.EnvVal != "" {
					os.Setenv(f.O.Env, f.O.EnvVal)
					n++
				}
				walk(f.T)
			}
		}
	}
	c05EnvMu.Lock()
	walk(s.Root)
	c05EnvMu.Unlock()
	return n
}

// c05Scenario runs every document class against one shape. Stops at the first violation.
func c05Scenario(m *vk.M, idx int, quickDocs int) {
	r := m.Rand("shape", idx)
	cfg := c05gen.Cfg{TagKey: "json", MaxDepth: 2, EnvPrefix: fmt.Sprintf("C05E_%d_%d", vk.Seed(), idx)}
	apis := []c05API{c05JSON}
	switch x := r.Intn(20); {
	case x < 3:
		cfg.TagKey = "key"
		apis = []c05API{c05Key}
	case x < 6:
		cfg.TagKey = "form"
		cfg.AllStrings = true
		apis = []c05API{c05Form}
	case x < 8:
		apis = []c05API{c05Map}
	case x < 9:
		apis = []c05API{c05Reader}
	}
	// every 8th scenario holds about half of its slice / map members by pointer (*[]T, *map[string]T): the
	// library may refuse such members, so a valid document is judged "error or exact" there
	loose := idx%8 == 5 && !cfg.AllStrings
	cfg.PtrContainers = loose
	shape := c05gen.RandShape(r, cfg)
	cm := &c05Mon{m: m, idx: idx}
	m.Count("shapes."+cfg.TagKey, 1)
	m.Count("env-vars-set", int64(c05SetEnv(shape)))
	api := apis[0]
	withYAML := cfg.TagKey == "json"
	yapi := c05YAML
	if idx%3 == 0 {
		yapi = c05YAMLR
	}
	var accepted, rejected int
	defer func() {
		m.Case(shape.String(), accepted > 0 && rejected > 0)
	}()
	note := func(o c05Out) {
		if o.err != nil {
			rejected++
		} else if o.pv == nil {
			accepted++
		}
	}
	for d := 0; d < quickDocs; d++ {
		c := c05gen.ValidCase(r, shape, false, cfg.AllStrings)
		// class 1: valid document
		out, ds := c05Call(cm, api, shape, c.Doc, "class=valid")
		note(out)
		vclass := "valid"
		vft := (*c05gen.Fault)(nil)
		if loose {
			vclass, vft = "free", &c05gen.Fault{Kind: "valid-doc", Desc: "valid document (pointer-held containers: acceptance not asserted)"}
		}
		if c05Judge(cm, api, c, c.Doc, out, ds, vclass, vft) {
			return
		}
		if out.err == nil {
			var bad2 bool
			if bad2, out = c05SecondUse(cm, api, c, out); bad2 {
				return
			}
		}
		if withYAML {
			y, dy := c05Call(cm, yapi, shape, c.Doc, "class=valid")
			if c05Judge(cm, yapi, c, c.Doc, y, dy, vclass, vft) || c05Equiv(cm, c, c.Doc, out, y, ds, "valid document") {
				return
			}
		}
		if m.WantSample() && idx%997 == 1 && d == 0 {
			m.Sample(map[string]any{"class": "valid", "api": api, "shape": shape.String(), "doc": string(c05gen.JSON(c.Doc)), "observed": out.String()})
		}
		// class 2: single faults
		for k := 0; k < 3; k++ {
			ft := c.InjectFault(r)
			if ft == nil {
				break
			}
			m.Count("fault.injected."+ft.Kind, 1)
			fo, fd := c05Call(cm, api, shape, c.Doc, "class=fault:"+ft.Kind)
			note(fo)
			bad := c05Judge(cm, api, c, c.Doc, fo, fd, "fault", ft)
			if !bad && withYAML {
				y, dy := c05Call(cm, yapi, shape, c.Doc, "class=fault:"+ft.Kind)
				bad = c05Judge(cm, yapi, c, c.Doc, y, dy, "fault", ft) || c05Equiv(cm, c, c.Doc, fo, y, fd, "fault "+ft.Kind)
			}
			if m.WantSample() && idx%997 == 2 && k == 0 {
				m.Sample(map[string]any{"class": "fault", "fault": ft.Desc, "shape": shape.String(), "doc": string(c05gen.JSON(c.Doc)), "observed": fo.String()})
			}
			ft.Undo()
			if bad {
				return
			}
		}
		// class 3: adversarial mutations (error or exact, never a panic)
		for k := 0; k < 4; k++ {
			ft := c.Mutate(r)
			fo, fd := c05Call(cm, api, shape, c.Doc, "class=adversarial")
			note(fo)
			bad := c05Judge(cm, api, c, c.Doc, fo, fd, "free", ft)
			if !bad && withYAML && k == 0 && c05gen.YAMLExact(c.Doc) {
				// YAML sees the same tree; only panic-freedom and exactness are asserted here
				// (number spellings such as 1.0 or 1e2 are legitimately read differently by the two parsers)
				y, dy := c05Call(cm, yapi, shape, c.Doc, "class=adversarial")
				bad = c05Judge(cm, yapi, c, c.Doc, y, dy, "free", ft)
				if !bad && c05gen.YAMLCanonical(c.Doc) {
					// every number is spelled so that both parsers read the same number (plain decimal integers up
					// to MaxUint64, float64-exact non-integers): whatever the right answer is, it must be the same
					bad = c05Equiv(cm, c, c.Doc, fo, y, fd, "adversarial document")
				}
			}
			if m.WantSample() && idx%997 == 3 && k == 0 {
				m.Sample(map[string]any{"class": "adversarial", "mutation": ft.Desc, "shape": shape.String(), "doc": c05Short(c05gen.JSON(c.Doc)), "observed": fo.String()})
			}
			ft.Undo()
			if bad {
				return
			}
		}
	}
}

func c05Short(b []byte) string {
	if len(b) > 600 {
		return string(b[:600]) + "…"
	}
	return string(b)
}

// TestVerifC05Random: seeded struct shapes x (valid, single-fault, adversarial) documents
// through every lib/mapping entry point.
func TestVerifC05Random(t *testing.T) {
	m := vk.New(t, "C05", "seeded struct shapes (reflect.StructOf: leaf kinds, pointers, slices, maps, nested/embedded structs x optional/default/options/range/string/env/optional=dep) x documents: valid (must be accepted, equal to the generator's struct), one injected fault (required absent, null, out of range, not in options, numeric overflow: must be rejected), adversarial mutations (error or exact, never a panic); JSON vs block YAML of the same tree must agree; non-trivial = shape saw both an acceptance and a rejection")
	defer m.Done()
	n := vk.N(5000, 120000)
	for idx := 1; idx <= n; idx++ {
		if !m.Only(idx) {
			continue
		}
		c05Scenario(m, idx, 2)
		if idx%500 == 0 {
			m.Progress()
		}
	}
}

// TestVerifC05Race: valid documents on 16 goroutines sharing freshly generated shapes
// (the tag-option / key / default caches are process-wide). Run with -race.
func TestVerifC05Race(t *testing.T) {
	m := vk.New(t, "C05", "16 goroutines unmarshal valid JSON/YAML documents into shared, freshly generated shapes (global tag caches populated concurrently); every result audited; the race detector is the oracle for the caches")
	defer m.Done()
	rounds := vk.N(60, 1500)
	const workers = 16
	for round := 1; round <= rounds; round++ {
		if !m.Only(round) {
			continue
		}
		r := m.Rand("race", round)
		var shapes []*c05gen.Shape
		for i := 0; i < 4; i++ {
			s := c05gen.RandShape(r, c05gen.Cfg{TagKey: "json", MaxDepth: 2, NoEnv: true})
			s.RT() // the type tree memoises its reflect.Type: build it before sharing
			shapes = append(shapes, s)
		}
		// documents are generated up front (generator state is not shared with the workers)
		type job struct {
			c *c05gen.Case
		}
		jobs := make([][]job, workers)
		for w := 0; w < workers; w++ {
			for i := 0; i < 6; i++ {
				jobs[w] = append(jobs[w], job{c05gen.ValidCase(r, shapes[(w+i)%len(shapes)], false, false)})
			}
		}
		var wg sync.WaitGroup
		start := make(chan struct{})
		var bad sync.Map
		for w := 0; w < workers; w++ {
			wg.Add(1)
			go func(w int) {
				defer wg.Done()
				<-start
				cm := &c05Mon{m: m, idx: round}
				for i, j := range jobs[w] {
					api := c05JSON
					if (w+i)%3 == 0 {
						api = c05YAML
					}
					out, d := c05CallNoCurrent(cm, api, j.c.Shape, j.c.Doc)
					if c05Judge(cm, api, j.c, j.c.Doc, out, d, "valid", nil) {
						bad.Store(w, true)
						return
					}
					// every worker owns its result: writing into it must not touch anybody else's (or a cache)
					c05gen.Scramble(out.res.Elem())
				}
			}(w)
		}
		close(start)
		wg.Wait()
		m.Case(fmt.Sprint("race-round-", round, shapes[0].String()), true)
		m.Count("race.rounds", 1)
		m.Count("race.calls", int64(workers*6))
	}
}

// c05CallNoCurrent is c05Call without the attribution file (written concurrently it would only be noise).
func c05CallNoCurrent(cm *c05Mon, api c05API, s *c05gen.Shape, doc map[string]any) (c05Out, string) {
	payload := c05Payload(api, doc)
	out := c05Raw(api, s, payload)
	cm.m.Count("calls."+string(api), 1)
	return out, cm.desc(api, s, payload, "class=valid;race")
}
