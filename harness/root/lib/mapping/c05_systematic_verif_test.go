//go:build verif

package mapping

// C05 — systematic (seed-independent) part: the complete kind x source matrix of boundary
// numerics, the container x ill-typed-document matrix, and the tag-option boundaries.
// It makes the set of violation signatures deterministic: every class the random monitor
// can report is reached here on every run.

import (
	"encoding/json"
	"fmt"
	"math/big"
	"os"
	"strconv"
	"testing"

	g "github.com/gotid/god/lib/mapping/c05gen"
	"verif.local/vk"
)

type c05Probe struct {
	m      *vk.M
	idx    int
	bad    int
	family string // short label of the probe group (counter / signature component)
}

// run executes one probe. class: valid (must be accepted and pass the audit), fault
// (must be rejected), free (error or exact). Every probe is its own scenario.
func (p *c05Probe) run(class string, api c05API, root *g.Type, tagKey string, doc map[string]any, env map[string]string, what string) c05Out {
	p.idx++
	if !p.m.Only(p.idx) {
		return c05Out{}
	}
	s := &g.Shape{Root: root, TagKey: tagKey}
	c := &g.Case{Shape: s, Doc: doc, Env: env}
	cm := &c05Mon{m: p.m, idx: p.idx, coarse: true}
	out, d := c05Call(cm, api, s, doc, "class="+class+";"+what)
	ft := &g.Fault{Kind: p.family, MustErr: class == "fault", Desc: what}
	jc := class
	if class == "free" {
		jc = "free"
	}
	if c05Judge(cm, api, c, doc, out, d, jc, ft) {
		p.bad++
	} else if api == c05YAML && g.YAMLCanonical(doc) {
		j := c05Raw(c05JSON, s, c05Payload(c05JSON, doc))
		if c05Equiv(cm, c, doc, j, out, d, what) {
			p.bad++
		}
	}
	p.m.Case(d, true)
	return out
}

// constraint feeds one literal to a field of kind k that declares the constraint o (range= or
// options=) through every way a value can reach a field: JSON / YAML number, generic map entry
// points, pointer field, ,string, the string-valued unmarshallers (form, path, header), env=
// (alone, on a pointer, overriding a document value). class valid: accepted exactly; fault: rejected.
// Not fed: default= (the library does not hold a default against the field's own constraint; the
// statement speaks of the document's values) and slice/map elements (constraints apply to the field).
//
// Every source is crossed with the optional forms: none, optional, optional=d with d present,
// optional=!d with d absent (in the last two the field is effectively required and the constraint
// must still hold: the library builds a per-call copy of the options there).
func (p *c05Probe) constraint(class string, k g.Kind, o g.Opts, text, what string, forms ...string) int {
	if len(forms) == 0 {
		forms = []string{"none"}
	}
	n := 0
	for _, form := range forms {
		n += p.constraintForm(class, k, o, text, what, form)
	}
	return n
}

func (p *c05Probe) constraintForm(class string, k g.Kind, o g.Opts, text, what, form string) int {
	type src struct {
		name           string
		api            c05API
		tag            string
		ptr, fs, str   bool
		env, envAndDoc bool
	}
	srcs := []src{
		{name: "json-number", api: c05JSON, tag: "json"},
		{name: "yaml-number", api: c05YAML, tag: "json"},
		{name: "json-map", api: c05Map, tag: "json"},
		{name: "json-reader", api: c05Reader, tag: "json"},
		{name: "key", api: c05Key, tag: "key"},
		{name: "pointer", api: c05JSON, tag: "json", ptr: true},
		{name: "yaml-pointer", api: c05YAML, tag: "json", ptr: true},
		{name: "string-option", api: c05JSON, tag: "json", fs: true, str: true},
		{name: "string-option-pointer", api: c05JSON, tag: "json", fs: true, str: true, ptr: true},
		{name: "form", api: c05Form, tag: "form", str: true},
		{name: "form-pointer", api: c05Form, tag: "form", str: true, ptr: true},
		{name: "path", api: c05Path, tag: "path", str: true},
		{name: "header", api: c05Header, tag: "header", str: true},
		{name: "env", api: c05JSON, tag: "json", env: true},
		{name: "env-yaml", api: c05YAML, tag: "json", env: true},
		{name: "env-pointer", api: c05JSON, tag: "json", env: true, ptr: true},
		{name: "env-over-document", api: c05JSON, tag: "json", env: true, envAndDoc: true},
		{name: "env-form", api: c05Form, tag: "form", env: true},
	}
	n := 0
	for _, sc := range srcs {
		if k == g.Duration && (sc.str || sc.fs) {
			continue // a Duration cannot be fed as a bare string through these: error by design, nothing to accept
		}
		if sc.env && (k == g.Int64 && class == "valid") {
			continue // int64 env values are read as durations: acceptance not asserted
		}
		if sc.env && sc.ptr && !k.IsNum() {
			continue
		}
		oo := o
		ft := g.L(k)
		if sc.ptr {
			ft = g.PtrTo(ft)
		}
		oo.FromString = sc.fs
		key, dkey := "v", "d"
		if sc.api == c05Header {
			key, dkey = "X-V", "X-D"
		}
		doc := map[string]any{}
		switch form {
		case "optional":
			oo.Optional = true
		case "optional=dep":
			oo.Optional, oo.Dep = true, dkey
			doc[dkey] = "on"
		case "optional=!dep":
			oo.Optional, oo.Dep, oo.DepNot = true, dkey, true
		}
		var env map[string]string
		switch {
		case sc.env:
			oo.Env, env = c05FreshEnv(text)
			oo.EnvVal = text
			if sc.envAndDoc || oo.Dep != "" { // the dependency rule looks at the document: keep it consistent there
				// the document offers a value too (an allowed one where we can tell); the environment wins
				alt := text
				if len(o.Options) > 0 {
					alt = o.Options[0]
				} else if o.Range != nil {
					alt = "5" // inside every range of the bracket-form family
				}
				doc[key] = g.LeafDoc(k, alt, false)
			}
		case sc.str:
			doc[key] = text
		default:
			doc[key] = g.LeafDoc(k, text, false)
		}
		if sc.api == c05YAML && !g.YAMLExact(doc) {
			continue
		}
		root := c05One("V", key, ft, oo)
		if oo.Dep != "" {
			root = g.StructOf(g.F("D", dkey, g.L(g.String), g.Opts{Optional: true}), g.F("V", key, ft, oo))
		}
		p.run(class, sc.api, root, sc.tag, doc, env, what+" via "+sc.name+" ("+form+")")
		n++
	}
	return n
}

var c05OptForms = []string{"none", "optional", "optional=dep", "optional=!dep"}

func c05One(name, key string, t *g.Type, o g.Opts) *g.Type {
	return g.StructOf(g.F(name, key, t, o))
}

var c05EnvSeq int

func c05FreshEnv(val string) (string, map[string]string) {
	c05EnvSeq++
	name := fmt.Sprintf("C05S_%d_%d", os.Getpid(), c05EnvSeq)
	os.Setenv(name, val)
	return name, map[string]string{name: val}
}

// TestVerifC05Boundary: every numeric kind x every way a number reaches a field x
// {extreme in-domain values, values that do not fit}.
func TestVerifC05Boundary(t *testing.T) {
	m := vk.New(t, "C05", "complete matrix: 12 numeric kinds x sources {JSON number, YAML number, ,string option, form string (WithStringValues), default=, env=, slice element, map element, pointer, UnmarshalKey} x {min, max of the kind: accepted exactly; literals outside the kind (max+1, min-1, 2^bits, 2^63, 2^64, 1e39, 1e400 ...): rejected}")
	defer m.Done()
	p := &c05Probe{m: m, family: "overflow"}
	maxI64 := big.NewInt(1<<62 - 1 + 1<<62)
	for _, k := range g.NumKinds {
		var valid, over []string
		if k.IsFloat() {
			if k == g.Float32 {
				valid = []string{"3.4028234663852886e+38", "-3.4028234663852886e+38", "1.401298464324817e-45", "0", "0.5", "16777216",
					"3.4028235e+38", "-3.4028235e+38", "1e-45", "0.1"} // incl. the shortest float32 spellings of +-MaxFloat32
			} else {
				valid = []string{"1.7976931348623157e+308", "-1.7976931348623157e+308", "5e-324", "0", "0.1", "9007199254740992"}
			}
		} else {
			lo, hi := big.NewInt(0), new(big.Int)
			bits := uint(k.Bits())
			if k.IsUint() {
				hi.Sub(new(big.Int).Lsh(big.NewInt(1), bits), big.NewInt(1))
			} else {
				hi.Sub(new(big.Int).Lsh(big.NewInt(1), bits-1), big.NewInt(1))
				lo = new(big.Int).Neg(new(big.Int).Lsh(big.NewInt(1), bits-1))
			}
			if hi.Cmp(maxI64) > 0 {
				hi = maxI64 // values above MaxInt64 in unsigned fields: acceptance not asserted
			}
			valid = []string{lo.String(), hi.String(), "0", "1"}
		}
		over = g.OverflowTexts(k)
		type src struct {
			name string
			mk   func(text string) (api c05API, root *g.Type, tag string, doc map[string]any, env map[string]string)
		}
		srcs := []src{
			{"json-number", func(x string) (c05API, *g.Type, string, map[string]any, map[string]string) {
				return c05JSON, c05One("V", "v", g.L(k), g.Opts{}), "json", map[string]any{"v": json.Number(x)}, nil
			}},
			{"yaml-number", func(x string) (c05API, *g.Type, string, map[string]any, map[string]string) {
				return c05YAML, c05One("V", "v", g.L(k), g.Opts{}), "json", map[string]any{"v": json.Number(x)}, nil
			}},
			{"pointer", func(x string) (c05API, *g.Type, string, map[string]any, map[string]string) {
				return c05JSON, c05One("V", "v", g.PtrTo(g.L(k)), g.Opts{}), "json", map[string]any{"v": json.Number(x)}, nil
			}},
			{"key", func(x string) (c05API, *g.Type, string, map[string]any, map[string]string) {
				return c05Key, c05One("V", "v", g.L(k), g.Opts{}), "key", map[string]any{"v": json.Number(x)}, nil
			}},
			{"string-option", func(x string) (c05API, *g.Type, string, map[string]any, map[string]string) {
				return c05JSON, c05One("V", "v", g.L(k), g.Opts{FromString: true}), "json", map[string]any{"v": x}, nil
			}},
			{"form-string", func(x string) (c05API, *g.Type, string, map[string]any, map[string]string) {
				return c05Form, c05One("V", "v", g.L(k), g.Opts{}), "form", map[string]any{"v": x}, nil
			}},
			{"form-string-pointer", func(x string) (c05API, *g.Type, string, map[string]any, map[string]string) {
				return c05Form, c05One("V", "v", g.PtrTo(g.L(k)), g.Opts{Optional: true}), "form", map[string]any{"v": x}, nil
			}},
			{"default", func(x string) (c05API, *g.Type, string, map[string]any, map[string]string) {
				return c05JSON, c05One("V", "v", g.L(k), g.Opts{HasDefault: true, Default: x}), "json", map[string]any{}, nil
			}},
			{"default-pointer", func(x string) (c05API, *g.Type, string, map[string]any, map[string]string) {
				return c05JSON, c05One("V", "v", g.PtrTo(g.L(k)), g.Opts{HasDefault: true, Default: x}), "json", map[string]any{}, nil
			}},
			{"env", func(x string) (c05API, *g.Type, string, map[string]any, map[string]string) {
				name, env := c05FreshEnv(x)
				return c05JSON, c05One("V", "v", g.L(k), g.Opts{Env: name, EnvVal: x}), "json", map[string]any{}, env
			}},
			{"slice-elem", func(x string) (c05API, *g.Type, string, map[string]any, map[string]string) {
				return c05JSON, c05One("V", "v", g.SliceOf(g.L(k)), g.Opts{}), "json", map[string]any{"v": []any{json.Number("1"), json.Number(x)}}, nil
			}},
			{"slice-ptr-elem", func(x string) (c05API, *g.Type, string, map[string]any, map[string]string) {
				return c05JSON, c05One("V", "v", g.SliceOf(g.PtrTo(g.L(k))), g.Opts{}), "json", map[string]any{"v": []any{json.Number(x)}}, nil
			}},
			{"slice-default", func(x string) (c05API, *g.Type, string, map[string]any, map[string]string) {
				return c05JSON, c05One("V", "v", g.SliceOf(g.L(k)), g.Opts{HasDefault: true, Default: "[" + x + "]"}), "json", map[string]any{}, nil
			}},
			{"map-elem", func(x string) (c05API, *g.Type, string, map[string]any, map[string]string) {
				return c05JSON, c05One("V", "v", g.MapOf(g.L(k)), g.Opts{}), "json", map[string]any{"v": map[string]any{"a": json.Number(x)}}, nil
			}},
			{"nested-map-elem", func(x string) (c05API, *g.Type, string, map[string]any, map[string]string) {
				return c05JSON, c05One("V", "v", g.MapOf(g.MapOf(g.L(k))), g.Opts{}), "json", map[string]any{"v": map[string]any{"a": map[string]any{"b": json.Number(x)}}}, nil
			}},
			{"struct-in-slice", func(x string) (c05API, *g.Type, string, map[string]any, map[string]string) {
				return c05JSON, c05One("V", "v", g.SliceOf(c05One("W", "w", g.L(k), g.Opts{})), g.Opts{}), "json", map[string]any{"v": []any{map[string]any{"w": json.Number(x)}}}, nil
			}},
		}
		for _, sc := range srcs {
			for _, x := range valid {
				if sc.name == "env" && k == g.Int64 {
					continue // the library reads every int64 env value as a duration: acceptance not asserted
				}
				api, root, tag, doc, env := sc.mk(x)
				if api == c05YAML && !g.YAMLExact(doc) {
					continue
				}
				p.run("valid", api, root, tag, doc, env, fmt.Sprintf("%s<-%s:%s", k, sc.name, x))
				m.Count("boundary.valid", 1)
			}
			for _, x := range over {
				api, root, tag, doc, env := sc.mk(x)
				if api == c05YAML && !g.YAMLExact(doc) {
					continue
				}
				p.run("fault", api, root, tag, doc, env, fmt.Sprintf("%s<-%s:%s", k, sc.name, x))
				m.Count("boundary.overflow", 1)
			}
		}
	}
	m.Count("probes", int64(p.idx))
	m.Sample(map[string]any{"probes": p.idx, "violating_probes": p.bad})
}

func c05N(s string) json.Number { return json.Number(s) }

// TestVerifC05Shapes: every container / leaf type x every ill-typed document value, and the
// tag-option boundaries (range brackets, options, optional=dep, env, inherit, null).
func TestVerifC05Shapes(t *testing.T) {
	m := vk.New(t, "C05", "matrix: ~50 field types (leaves, pointers, slices, maps incl. map[int]T, nested/embedded structs) x ~45 document values (null, scalars, arrays, objects, nested, mixed) through JSON, YAML, form-string and UnmarshalKey entry points: never a panic, error or exact; plus range=[( )] boundaries for every numeric kind, options, optional=dep with range, env on every kind, inherit, null for required/optional")
	defer m.Done()
	p := &c05Probe{m: m, family: "matrix"}
	st := func() *g.Type { return c05One("A", "a", g.L(g.Int8), g.Opts{}) }
	types := []*g.Type{
		g.L(g.Bool), g.L(g.Int8), g.L(g.Int64), g.L(g.Uint8), g.L(g.Uint64), g.L(g.Float32), g.L(g.Float64), g.L(g.String), g.L(g.Duration),
		g.PtrTo(g.L(g.Bool)), g.PtrTo(g.L(g.Int8)), g.PtrTo(g.L(g.String)), g.PtrTo(g.L(g.Duration)), g.PtrTo(g.L(g.Float32)),
		g.SliceOf(g.L(g.Bool)), g.SliceOf(g.L(g.Int8)), g.SliceOf(g.L(g.Uint64)), g.SliceOf(g.L(g.Float32)), g.SliceOf(g.L(g.String)), g.SliceOf(g.L(g.Duration)),
		g.SliceOf(g.PtrTo(g.L(g.Int8))), g.SliceOf(g.PtrTo(g.L(g.String))), g.SliceOf(g.PtrTo(g.L(g.Bool))),
		g.SliceOf(g.SliceOf(g.L(g.Int8))), g.SliceOf(g.SliceOf(g.L(g.String))), g.SliceOf(st()), g.SliceOf(g.PtrTo(st())),
		g.SliceOf(g.MapOf(g.L(g.Int8))), g.SliceOf(g.MapOf(g.L(g.String))),
		g.MapOf(g.L(g.Bool)), g.MapOf(g.L(g.Int8)), g.MapOf(g.L(g.Float32)), g.MapOf(g.L(g.String)), g.MapOf(g.L(g.Duration)),
		g.MapOf(g.PtrTo(g.L(g.Int8))), g.MapOf(g.PtrTo(g.L(g.String))), g.MapOf(g.SliceOf(g.L(g.Int8))), g.MapOf(g.SliceOf(g.L(g.String))),
		g.MapOf(g.SliceOf(st())), g.MapOf(st()), g.MapOf(g.PtrTo(st())), g.MapOf(g.MapOf(g.L(g.Int8))), g.MapOf(g.MapOf(g.L(g.String))),
		g.IntMapOf(g.L(g.String)), g.IntMapOf(g.L(g.Int8)),
		g.PtrTo(g.MapOf(g.L(g.Int8))), g.PtrTo(g.MapOf(g.L(g.String))), g.PtrTo(g.MapOf(g.L(g.Bool))), g.PtrTo(g.MapOf(g.SliceOf(g.L(g.Int8)))), g.PtrTo(g.MapOf(st())), g.PtrTo(g.MapOf(g.PtrTo(st()))),
		g.PtrTo(g.MapOf(g.MapOf(g.L(g.String)))), g.PtrTo(g.MapOf(g.AnyT())), g.PtrTo(g.MapOf(g.PtrTo(g.L(g.Int8)))), g.PtrTo(g.IntMapOf(g.L(g.String))),
		g.PtrTo(g.SliceOf(g.L(g.Int8))), g.PtrTo(g.SliceOf(g.L(g.String))), g.PtrTo(g.SliceOf(g.L(g.Bool))), g.PtrTo(g.SliceOf(g.PtrTo(g.L(g.Int8)))), g.PtrTo(g.SliceOf(g.SliceOf(g.L(g.Int8)))),
		g.PtrTo(g.SliceOf(st())), g.PtrTo(g.SliceOf(g.PtrTo(st()))), g.PtrTo(g.SliceOf(g.MapOf(g.L(g.Int8)))), g.PtrTo(g.SliceOf(g.AnyT())),
		g.SliceOf(g.PtrTo(g.SliceOf(g.L(g.Int8)))), g.SliceOf(g.PtrTo(g.MapOf(g.L(g.Int8)))), g.MapOf(g.PtrTo(g.SliceOf(g.L(g.Int8)))), g.MapOf(g.PtrTo(g.MapOf(g.L(g.Int8)))),
		g.AnyT(), g.SliceOf(g.AnyT()), g.MapOf(g.AnyT()), g.MapOf(g.SliceOf(g.AnyT())), g.SliceOf(g.MapOf(g.AnyT())),
		st(), g.PtrTo(st()),
		g.StructOf(g.F("A", "a", g.SliceOf(g.L(g.Int8)), g.Opts{Optional: true}), g.F("B", "b", g.MapOf(g.L(g.String)), g.Opts{Optional: true})),
	}
	obj := func(kv ...any) map[string]any {
		mm := map[string]any{}
		for i := 0; i+1 < len(kv); i += 2 {
			mm[kv[i].(string)] = kv[i+1]
		}
		return mm
	}
	arr := func(v ...any) []any { return append([]any{}, v...) }
	values := []any{
		nil, true, c05N("1"), c05N("300"), c05N("-1"), c05N("1.5"), c05N("1e2"), "x", "1", "300", "1s", "true", "", "[1]", "[\"a\"]", "[[1]]", "[{\"a\":1}]", "[null]", "[1,null]", "{\"a\":null}", "{\"a\":1}", "{\"a\":\"x\"}", "null",
		arr(), arr(c05N("1")), arr(c05N("300")), arr("a"), arr("1s"), arr(true), arr(nil), arr(nil, nil), arr(c05N("1"), nil), arr(arr(c05N("1"))), arr(arr("a")), arr(arr()), arr(arr(nil)),
		arr(obj()), arr(obj("a", c05N("1"))), arr(obj("a", "x")), arr(obj("a", nil)), arr(c05N("1"), "a"), arr(obj("a", c05N("1")), c05N("1")), arr(arr(obj())),
		obj(), obj("a", c05N("1")), obj("a", c05N("300")), obj("a", "x"), obj("a", true), obj("a", nil), obj("a", arr(c05N("1"))), obj("a", arr("x")), obj("a", arr(nil)), obj("a", arr(obj())),
		obj("a", obj()), obj("a", obj("a", c05N("1"))), obj("a", obj("a", "x")), obj("a", obj("a", nil)), obj("1", "s"), obj("1", c05N("1")), obj("x", "s", "1", "t"), obj("a", arr(arr(c05N("1")))),
	}
	for _, ft := range types {
		for _, optional := range []bool{false, true} {
			if optional && !(ft.K == g.Slice || ft.K == g.Map || (ft.K == g.Ptr && (ft.Elem.K == g.Slice || ft.Elem.K == g.Map))) {
				continue
			}
			for _, v := range values {
				doc := map[string]any{"v": v}
				for _, api := range []c05API{c05JSON, c05YAML, c05Key, c05Form} {
					tag := "json"
					switch api {
					case c05Key:
						tag = "key"
					case c05Form:
						tag = "form"
					}
					if api == c05YAML && !g.YAMLExact(doc) {
						continue
					}
					root := c05One("V", "v", ft, g.Opts{Optional: optional})
					p.run("free", api, root, tag, g.Clone(doc).(map[string]any), nil, fmt.Sprintf("%s<-%s", ft.Sig(), c05Short(g.JSON(v))))
					m.Count("matrix."+ft.K.String()+"<-"+g.DocClass(v), 1)
				}
			}
		}
	}

	// integers in (MaxInt64, MaxUint64]: a YAML reader holds them in a different Go type (uint64) than
	// smaller ones; whatever each field type does with them, JSON and YAML must agree (pure equivalence)
	p.family = "big-unsigned"
	bigs := []string{"9223372036854775807", "9223372036854775808", "9223372036854775809", "10000000000000000000", "12345678901234567890", "18446744073709551614", "18446744073709551615"}
	bigTypes := []*g.Type{g.L(g.Uint64), g.L(g.Uint), g.L(g.Int64), g.L(g.Int8), g.L(g.Uint8), g.L(g.Float64), g.L(g.Float32), g.L(g.String), g.L(g.Bool), g.L(g.Duration),
		g.PtrTo(g.L(g.Uint64)), g.PtrTo(g.L(g.Float64)), g.PtrTo(g.L(g.String)),
		g.SliceOf(g.L(g.Uint64)), g.SliceOf(g.L(g.Float64)), g.SliceOf(g.L(g.String)), g.SliceOf(g.L(g.Int64)),
		g.MapOf(g.L(g.Uint64)), g.MapOf(g.L(g.Float64)), g.MapOf(g.L(g.String)), g.MapOf(g.SliceOf(g.L(g.Float64)))}
	for _, x := range bigs {
		for _, ft := range bigTypes {
			var dv any = c05N(x)
			switch ft.K {
			case g.Slice:
				dv = arr(c05N("1"), c05N(x))
			case g.Map:
				dv = obj("a", c05N(x))
				if ft.Elem.K == g.Slice {
					dv = obj("a", arr(c05N(x)))
				}
			}
			for _, o := range []g.Opts{{}, {Optional: true}, {FromString: true}, {Range: &g.Range{L: "0", R: "", LI: true}}} {
				if (o.FromString || o.Range != nil) && !(ft.K.IsLeaf() || ft.K == g.Ptr) {
					continue
				}
				if o.Range != nil && !ft.K.IsNum() {
					continue
				}
				what := fmt.Sprintf("%s<-%s", c05One("V", "v", ft, o).Fields[0].FieldSig(), x)
				p.run("free", c05YAML, c05One("V", "v", ft, o), "json", map[string]any{"v": g.Clone(dv)}, nil, what)
				p.run("free", c05YAML, c05One("V", "v", c05One("W", "w", ft, o), g.Opts{}), "json", map[string]any{"v": map[string]any{"w": g.Clone(dv)}}, nil, what+" nested")
				p.run("free", c05YAML, c05One("V", "v", g.SliceOf(c05One("W", "w", ft, o)), g.Opts{}), "json", map[string]any{"v": []any{map[string]any{"w": g.Clone(dv)}}}, nil, what+" in []struct")
				m.Count("big-unsigned-probes", 3)
			}
		}
	}

	p.family = "leaf-options"
	// ,string and options= on leaves fed with every scalar class (and form unmarshaller fed non-strings)
	for _, k := range []g.Kind{g.Bool, g.Int8, g.Uint16, g.Float32, g.Float64, g.String, g.Duration, g.Int64} {
		for _, o := range []g.Opts{{FromString: true}, {FromString: true, Options: []string{"1", "2"}}, {Options: []string{"1", "2", "1s", "true", "x"}}, {FromString: true, Range: &g.Range{L: "0", R: "5", LI: true, RI: true}}} {
			if o.Range != nil && !k.IsNum() {
				continue
			}
			for _, v := range []any{true, c05N("1"), c05N("3"), c05N("1.0"), "1", "3", "x", "1s", "true", nil, arr(), obj()} {
				for _, api := range []c05API{c05JSON, c05Form, c05Key} {
					tag := map[c05API]string{c05JSON: "json", c05Form: "form", c05Key: "key"}[api]
					p.run("free", api, c05One("V", "v", g.L(k), o), tag, map[string]any{"v": v}, nil, fmt.Sprintf("%s%s<-%s", k, c05One("V", "v", g.L(k), o).Fields[0].FieldSig(), c05Short(g.JSON(v))))
					p.run("free", api, c05One("V", "v", g.PtrTo(g.L(k)), o), tag, map[string]any{"v": v}, nil, fmt.Sprintf("*%s+opts<-%s", k, c05Short(g.JSON(v))))
					m.Count("leaf-options-probes", 2)
				}
			}
		}
	}

	p.family = "out-of-range"
	// range= : all four bracket forms x values at and around the bounds, for every numeric kind
	for _, k := range g.NumKinds {
		l, r := "3", "9"
		around := []string{"2", "3", "4", "8", "9", "10"}
		if k.IsFloat() {
			l, r = "2.5", "9.5"
			around = []string{"2.25", "2.5", "2.75", "9.25", "9.5", "9.75"}
		}
		for _, li := range []bool{true, false} {
			for _, ri := range []bool{true, false} {
				for _, form := range []int{0, 1, 2} {
					rg := &g.Range{L: l, R: r, LI: li, RI: ri}
					switch form {
					case 1:
						rg.L = ""
					case 2:
						rg.R = ""
					}
					for _, x := range around {
						in := true
						xv, _ := strconv.ParseFloat(x, 64)
						if rg.L != "" {
							lv, _ := strconv.ParseFloat(rg.L, 64)
							in = in && (xv > lv || (xv == lv && li))
						}
						if rg.R != "" {
							rv, _ := strconv.ParseFloat(rg.R, 64)
							in = in && (xv < rv || (xv == rv && ri))
						}
						class := "fault"
						if in {
							class = "valid"
						}
						what := fmt.Sprintf("%s range=%s value %s", k, rg, x)
						forms := []string{"none"}
						switch k {
						case g.Int8, g.Uint8, g.Int64, g.Uint64, g.Float32, g.Float64:
							forms = c05OptForms // the optional forms on half of the kinds keeps the matrix small
						}
						m.Count("range-probes", int64(p.constraint(class, k, g.Opts{Range: rg}, x, what, forms...)))
						// optional=dep with the dependency present: the field is effectively required, the range still applies
						dep := g.StructOf(g.F("D", "d", g.L(g.String), g.Opts{Optional: true}), g.F("V", "v", g.L(k), g.Opts{Optional: true, Dep: "d", Range: rg}))
						p.run(class, c05JSON, dep, "json", map[string]any{"d": "on", "v": c05N(x)}, nil, what+" optional=d")
						ndep := g.StructOf(g.F("D", "d", g.L(g.String), g.Opts{Optional: true}), g.F("V", "v", g.L(k), g.Opts{Optional: true, Dep: "d", DepNot: true, Range: rg}))
						p.run(class, c05JSON, ndep, "json", map[string]any{"v": c05N(x)}, nil, what+" optional=!d")
						m.Count("range-probes", 2)
					}
				}
			}
		}
	}

	// range literals at the edges of what the range parser reads: degenerate [5:5], exponent
	// spelling, zero and negative bounds, the full width of a kind, bounds at 2^53
	for _, rc := range []struct {
		k          g.Kind
		rg         g.Range
		valid, bad []string
	}{
		{g.Int8, g.Range{L: "5", R: "5", LI: true, RI: true}, []string{"5"}, []string{"4", "6"}},
		{g.Int16, g.Range{L: "-1e2", R: "1e2", LI: true, RI: true}, []string{"-100", "100", "0"}, []string{"-101", "101"}},
		{g.Float64, g.Range{L: "0", R: "1"}, []string{"0.5", "1e-9", "0.999"}, []string{"0", "1", "-0.5"}},
		{g.Float32, g.Range{L: "-0.5", R: ""}, []string{"0", "-0.25", "1e30"}, []string{"-0.5", "-1"}},
		{g.Uint8, g.Range{L: "0", R: "255", LI: true, RI: true}, []string{"0", "255"}, []string{"256"}},
		{g.Uint16, g.Range{L: "", R: "0", RI: true}, []string{"0"}, []string{"1"}},
		{g.Int64, g.Range{L: "-9007199254740992", R: "9007199254740992", LI: true, RI: true}, []string{"-9007199254740992", "9007199254740992", "0"}, []string{"9007199254740994", "-9007199254740994"}},
		{g.Int, g.Range{L: "-0", R: "9", LI: true}, []string{"0", "8"}, []string{"-1", "9"}},
	} {
		rg := rc.rg
		for i, xs := range [][]string{rc.valid, rc.bad} {
			class := []string{"valid", "fault"}[i]
			for _, x := range xs {
				what := fmt.Sprintf("%s range=%s value %s", rc.k, &rg, x)
				p.run(class, c05JSON, c05One("V", "v", g.L(rc.k), g.Opts{Range: &rg}), "json", map[string]any{"v": c05N(x)}, nil, what)
				p.run(class, c05Form, c05One("V", "v", g.L(rc.k), g.Opts{Range: &rg}), "form", map[string]any{"v": x}, nil, what+" form")
				m.Count("range-edge-probes", 2)
			}
		}
	}

	p.family = "not-in-options"
	// options= for every leaf kind: member accepted, non-member rejected (number, string option, form)
	for _, k := range g.LeafKinds {
		var o [3]string
		switch {
		case k == g.Bool:
			continue
		case k.IsInt():
			o = [3]string{"5", "-7", "6"}
		case k.IsUint():
			o = [3]string{"5", "7", "6"}
		case k.IsFloat():
			o = [3]string{"0.5", "2", "0.75"}
		case k == g.String:
			o = [3]string{"ab", "cd", "abx"}
		case k == g.Duration:
			o = [3]string{"1s", "5m0s", "7h0m0s"}
		}
		for i, x := range o {
			class := "valid"
			if i == 2 {
				class = "fault"
			}
			what := fmt.Sprintf("%s options=%s|%s value %s", k, o[0], o[1], x)
			m.Count("options-probes", int64(p.constraint(class, k, g.Opts{Options: []string{o[0], o[1]}}, x, what, c05OptForms...)))
			// default= next to the constraint: the document value still decides
			m.Count("options-probes", int64(p.constraint(class, k, g.Opts{Options: []string{o[0], o[1]}, HasDefault: true, Default: o[1]}, x, what+" default="+o[1], "none", "optional=dep", "optional=!dep")))
		}
	}

	// default= under optional=<dep>: dependency and field both absent -> the default; both present -> the document value
	p.family = "dep-default"
	for _, k := range g.LeafKinds {
		x := map[bool]string{true: "true", false: "5"}[k == g.Bool]
		switch {
		case k.IsFloat():
			x = "0.5"
		case k == g.String:
			x = "s"
		case k == g.Duration:
			x = "1m30s"
		}
		for _, fs := range []bool{false, true} {
			if fs && k == g.Duration {
				continue
			}
			for _, not := range []bool{false, true} {
				for _, api := range []c05API{c05JSON, c05YAML, c05Key} {
					tag := map[c05API]string{c05JSON: "json", c05YAML: "json", c05Key: "key"}[api]
					vo := g.Opts{Optional: true, Dep: "d", DepNot: not, HasDefault: true, Default: x, FromString: fs}
					root := g.StructOf(g.F("D", "d", g.L(g.String), g.Opts{Optional: true}), g.F("V", "v", g.L(k), vo))
					absent := map[string]any{}
					if not {
						absent["d"] = "on" // optional=!d: d present makes v optional
					}
					p.run("valid", api, root, tag, absent, nil, fmt.Sprintf("%s optional dep (not=%v) ,string=%v default=%s, field absent", k, not, fs, x))
					present := map[string]any{"v": g.LeafDoc(k, x, fs)}
					if !not {
						present["d"] = "on"
					}
					p.run("valid", api, root, tag, present, nil, fmt.Sprintf("%s optional dep (not=%v) ,string=%v default=%s, field present", k, not, fs, x))
					m.Count("dep-default-probes", 2)
				}
			}
		}
	}

	p.family = "presence"
	// required / optional / default / null for every leaf kind and the container kinds
	leafVal := map[g.Kind]string{g.Bool: "true", g.Int8: "-5", g.Int16: "5", g.Int32: "5", g.Int64: "5", g.Int: "5", g.Uint8: "5", g.Uint16: "5", g.Uint32: "5", g.Uint64: "5", g.Uint: "5",
		g.Float32: "0.5", g.Float64: "0.5", g.String: "s", g.Duration: "1m30s"}
	for _, k := range g.LeafKinds {
		x := leafVal[k]
		for _, ptr := range []bool{false, true} {
			ft := g.L(k)
			if ptr {
				ft = g.PtrTo(ft)
			}
			w := fmt.Sprintf("%s ptr=%v ", k, ptr)
			p.run("fault", c05JSON, c05One("V", "v", ft, g.Opts{}), "json", map[string]any{}, nil, w+"required absent")
			p.run("fault", c05JSON, c05One("V", "v", ft, g.Opts{}), "json", map[string]any{"v": nil}, nil, w+"required null")
			p.run("fault", c05YAML, c05One("V", "v", ft, g.Opts{}), "json", map[string]any{"v": nil}, nil, w+"required null (yaml)")
			p.run("fault", c05YAML, c05One("V", "v", ft, g.Opts{}), "json", map[string]any{}, nil, w+"required absent (yaml)")
			p.run("fault", c05Key, c05One("V", "v", ft, g.Opts{}), "key", map[string]any{}, nil, w+"required absent (key)")
			p.run("fault", c05JSON, g.StructOf(&g.Field{Name: "V", T: ft, Untagged: true}), "json", map[string]any{}, nil, w+"untagged absent")
			p.run("valid", c05JSON, c05One("V", "v", ft, g.Opts{Optional: true}), "json", map[string]any{}, nil, w+"optional absent")
			p.run("valid", c05YAML, c05One("V", "v", ft, g.Opts{Optional: true}), "json", map[string]any{}, nil, w+"optional absent (yaml)")
			p.run("valid", c05JSON, c05One("V", "v", ft, g.Opts{Optional: true}), "json", map[string]any{"v": nil}, nil, w+"optional null")
			p.run("valid", c05YAML, c05One("V", "v", ft, g.Opts{Optional: true}), "json", map[string]any{"v": nil}, nil, w+"optional null (yaml)")
			p.run("valid", c05JSON, c05One("V", "v", ft, g.Opts{HasDefault: true, Default: x}), "json", map[string]any{}, nil, w+"default absent")
			p.run("valid", c05YAML, c05One("V", "v", ft, g.Opts{HasDefault: true, Default: x}), "json", map[string]any{}, nil, w+"default absent (yaml)")
			p.run("valid", c05JSON, c05One("V", "v", ft, g.Opts{HasDefault: true, Default: x, Optional: true}), "json", map[string]any{}, nil, w+"default,optional absent")
			p.run("valid", c05JSON, c05One("V", "v", ft, g.Opts{}), "json", map[string]any{"v": g.LeafDoc(k, x, false)}, nil, w+"present")
			if k != g.Duration {
				p.run("valid", c05Form, c05One("V", "v", ft, g.Opts{HasDefault: true, Default: x}), "form", map[string]any{}, nil, w+"default absent (form)")
				p.run("fault", c05Form, c05One("V", "v", ft, g.Opts{}), "form", map[string]any{}, nil, w+"required absent (form)")
				p.run("valid", c05Form, c05One("V", "v", ft, g.Opts{}), "form", map[string]any{"v": x}, nil, w+"present (form)")
			}
			// nested: required leaf inside a required / optional struct
			inner := c05One("W", "w", ft, g.Opts{})
			p.run("fault", c05JSON, c05One("V", "v", inner, g.Opts{}), "json", map[string]any{}, nil, w+"struct with required leaf absent")
			p.run("fault", c05JSON, c05One("V", "v", inner, g.Opts{}), "json", map[string]any{"v": map[string]any{}}, nil, w+"struct present, required leaf absent")
			p.run("valid", c05JSON, c05One("V", "v", inner, g.Opts{Optional: true}), "json", map[string]any{}, nil, w+"optional struct absent")
			p.run("valid", c05JSON, c05One("V", "v", c05One("W", "w", ft, g.Opts{HasDefault: true, Default: x}), g.Opts{}), "json", map[string]any{}, nil, w+"struct absent, leaf has default")
			p.run("fault", c05JSON, c05One("V", "v", g.SliceOf(inner), g.Opts{}), "json", map[string]any{"v": []any{map[string]any{}}}, nil, w+"slice of struct, required leaf absent")
			p.run("fault", c05JSON, c05One("V", "v", g.MapOf(inner), g.Opts{}), "json", map[string]any{"v": map[string]any{"k": map[string]any{}}}, nil, w+"map of struct, required leaf absent")
			m.Count("presence-probes", 23)
		}
		// env= on every leaf kind (value and pointer), with a fitting value
		for _, ptr := range []bool{false, true} {
			ft := g.L(k)
			if ptr {
				ft = g.PtrTo(ft)
			}
			name, env := c05FreshEnv(x)
			p.run("free", c05JSON, c05One("V", "v", ft, g.Opts{Env: name, EnvVal: x}), "json", map[string]any{}, env, fmt.Sprintf("%s ptr=%v env=%s", k, ptr, x))
			name2, env2 := c05FreshEnv(x)
			p.run("free", c05JSON, c05One("V", "v", ft, g.Opts{Env: name2, EnvVal: x, Optional: true}), "json", map[string]any{"v": g.LeafDoc(k, leafVal[k], false)}, env2, fmt.Sprintf("%s ptr=%v env=%s + document value", k, ptr, x))
			name3, env3 := c05FreshEnv("zz")
			p.run("free", c05JSON, c05One("V", "v", ft, g.Opts{Env: name3, EnvVal: "zz"}), "json", map[string]any{}, env3, fmt.Sprintf("%s ptr=%v env=zz", k, ptr))
			m.Count("env-probes", 3)
		}
	}
	for _, ft := range []*g.Type{g.SliceOf(g.L(g.Int8)), g.SliceOf(g.L(g.String)), g.SliceOf(st())} {
		p.run("fault", c05JSON, c05One("V", "v", ft, g.Opts{}), "json", map[string]any{}, nil, ft.Sig()+" required absent")
		p.run("fault", c05JSON, c05One("V", "v", ft, g.Opts{}), "json", map[string]any{"v": nil}, nil, ft.Sig()+" required null")
		p.run("valid", c05JSON, c05One("V", "v", ft, g.Opts{Optional: true}), "json", map[string]any{}, nil, ft.Sig()+" optional absent")
		p.run("valid", c05JSON, c05One("V", "v", ft, g.Opts{Optional: true}), "json", map[string]any{"v": nil}, nil, ft.Sig()+" optional null")
		p.run("valid", c05JSON, c05One("V", "v", ft, g.Opts{}), "json", map[string]any{"v": []any{}}, nil, ft.Sig()+" empty array")
	}
	p.run("valid", c05JSON, c05One("V", "v", g.SliceOf(g.L(g.Int8)), g.Opts{HasDefault: true, Default: "[1,-2,3]"}), "json", map[string]any{}, nil, "[]int8 default=[1,-2,3]")
	p.run("valid", c05JSON, c05One("V", "v", g.SliceOf(g.L(g.String)), g.Opts{HasDefault: true, Default: "[ab,cd]"}), "json", map[string]any{}, nil, "[]string default=[ab,cd]")
	p.run("valid", c05JSON, c05One("V", "v", g.SliceOf(g.L(g.Float64)), g.Opts{HasDefault: true, Default: "[0.5,1e+21]"}), "json", map[string]any{}, nil, "[]float64 default")

	// inherit: a nested field without a value takes the value of the same key one level up
	for _, k := range []g.Kind{g.String, g.Int8, g.Bool} {
		x := leafVal[k]
		inner := g.StructOf(g.F("H", "host", g.L(k), g.Opts{Inherit: true}), g.F("N", "n", g.L(g.Int), g.Opts{Optional: true}))
		root := g.StructOf(g.F("H", "host", g.L(k), g.Opts{}), g.F("C", "c", inner, g.Opts{}))
		p.idx++
		if m.Only(p.idx) {
			s := &g.Shape{Root: root, TagKey: "json"}
			doc := map[string]any{"host": g.LeafDoc(k, x, false), "c": map[string]any{"n": c05N("1")}}
			cm := &c05Mon{m: m, idx: p.idx, coarse: true}
			out, d := c05Call(cm, c05JSON, s, doc, "class=valid;inherit "+k.String())
			switch {
			case out.pv != nil:
				m.Violate(c05PanicSig(out.pv, out.stack), d, "panic: %v", out.pv)
			case out.err != nil:
				m.Violate("C05:valid-rejected:inherit", d, "inherit: %v", out.err)
			default:
				want, _ := g.ParseLeaf(k, x)
				got := out.res.Elem().Field(1).Field(0)
				if !g.Equal(got, want) || !g.Equal(out.res.Elem().Field(0), want) {
					m.Violate("C05:inherit-not-applied", d, "nested field with inherit = %s, parent value %s", g.Show(out.res), x)
				}
			}
			m.Case(d, true)
			m.Count("inherit-probes", 1)
		}
	}
	m.Count("probes", int64(p.idx))
	m.Sample(map[string]any{"probes": p.idx, "violating_probes": p.bad})
}
