//go:build verif

// Package c05gen is the generator / oracle library shared by the C05 monitors
// (lib/mapping, lib/conf, api/httpc harness files). It is overlaid into the repo as a
// new package by the driver (file prefix c05_), imports nothing from the repo and
// contains no unmarshaller: shapes are described by a small type tree, documents are
// generic trees (map[string]any / []any / json.Number / string / bool / nil) whose
// expected typed value the generator knows, and Audit walks a result struct and the
// document side by side ("error or exact").
package c05gen

import (
	"bytes"
	"encoding/json"
	"fmt"
	"math"
	"math/big"
	"math/rand"
	"reflect"
	"sort"
	"strconv"
	"strings"
	"time"
)

// ---------------------------------------------------------------------------
// type tree

type Kind int

const (
	Bool Kind = iota
	Int8
	Int16
	Int32
	Int64
	Int
	Uint8
	Uint16
	Uint32
	Uint64
	Uint
	Float32
	Float64
	String
	Duration
	Ptr
	Slice
	Map
	Struct
	Any // interface{}: the document's value arrives unchanged (numbers as json.Number)
)

var kindNames = [...]string{"bool", "int8", "int16", "int32", "int64", "int", "uint8", "uint16", "uint32", "uint64", "uint",
	"float32", "float64", "string", "duration", "ptr", "slice", "map", "struct", "any"}

func (k Kind) String() string { return kindNames[k] }

var LeafKinds = []Kind{Bool, Int8, Int16, Int32, Int64, Int, Uint8, Uint16, Uint32, Uint64, Uint, Float32, Float64, String, Duration}
var NumKinds = []Kind{Int8, Int16, Int32, Int64, Int, Uint8, Uint16, Uint32, Uint64, Uint, Float32, Float64}

func (k Kind) IsInt() bool   { return k >= Int8 && k <= Int }
func (k Kind) IsUint() bool  { return k >= Uint8 && k <= Uint }
func (k Kind) IsFloat() bool { return k == Float32 || k == Float64 }
func (k Kind) IsNum() bool   { return k >= Int8 && k <= Float64 }
func (k Kind) IsLeaf() bool  { return k <= Duration }

// Bits of an integer kind.
func (k Kind) Bits() int {
	switch k {
	case Int8, Uint8:
		return 8
	case Int16, Uint16:
		return 16
	case Int32, Uint32, Float32:
		return 32
	}
	return 64
}

// Class is the coarse field class used in signatures.
func (k Kind) Class() string {
	switch {
	case k.IsInt():
		return "int"
	case k.IsUint():
		return "uint"
	case k.IsFloat():
		return "float"
	}
	return k.String()
}

var leafRT = map[Kind]reflect.Type{
	Bool: reflect.TypeOf(false), Int8: reflect.TypeOf(int8(0)), Int16: reflect.TypeOf(int16(0)), Int32: reflect.TypeOf(int32(0)),
	Int64: reflect.TypeOf(int64(0)), Int: reflect.TypeOf(int(0)), Uint8: reflect.TypeOf(uint8(0)), Uint16: reflect.TypeOf(uint16(0)),
	Uint32: reflect.TypeOf(uint32(0)), Uint64: reflect.TypeOf(uint64(0)), Uint: reflect.TypeOf(uint(0)),
	Float32: reflect.TypeOf(float32(0)), Float64: reflect.TypeOf(float64(0)), String: reflect.TypeOf(""),
	Duration: reflect.TypeOf(time.Duration(0)),
}

// Type is a node of the shape tree.
type Type struct {
	K      Kind
	Elem   *Type    // Ptr, Slice, Map
	KeyInt bool     // Map: map[int]T instead of map[string]T (systematic probes only)
	Fields []*Field // Struct
	rt     reflect.Type
	rtTag  string
}

// Range is a declared range=. Empty L/R = open side.
type Range struct {
	L, R   string
	LI, RI bool
}

func (g *Range) String() string {
	l, r := "(", ")"
	if g.LI {
		l = "["
	}
	if g.RI {
		r = "]"
	}
	return l + g.L + ":" + g.R + r
}

// Opts are the tag options of a field.
type Opts struct {
	Optional   bool
	Dep        string // optional=Dep / optional=!Dep
	DepNot     bool
	HasDefault bool
	Default    string
	Options    []string
	Range      *Range
	FromString bool
	Env        string
	EnvVal     string // value the harness exports for Env before the first call ("" = unset)
	Inherit    bool
}

// Field of a struct shape.
type Field struct {
	Name      string
	TagKey    string // "" = the shape's tag key
	Key       string
	T         *Type
	O         Opts
	Anonymous bool
	Untagged  bool // no tag: key = Name, required
	Foreign   bool // carries only a tag of another source: ignored by this unmarshaller
}

// Shape is one generated program (struct type).
type Shape struct {
	Root   *Type
	TagKey string
	// ConstrainedPresent: optional fields that declare options=/range= are always given a value
	// (round trip: a Go struct cannot express "absent", its zero value would be sent and may
	// itself be outside the declared constraint).
	ConstrainedPresent bool
}

func L(k Kind) *Type         { return &Type{K: k} }
func AnyT() *Type            { return &Type{K: Any} }
func PtrTo(t *Type) *Type    { return &Type{K: Ptr, Elem: t} }
func SliceOf(t *Type) *Type  { return &Type{K: Slice, Elem: t} }
func MapOf(t *Type) *Type    { return &Type{K: Map, Elem: t} }
func IntMapOf(t *Type) *Type { return &Type{K: Map, Elem: t, KeyInt: true} }
func StructOf(fs ...*Field) *Type {
	return &Type{K: Struct, Fields: fs}
}

// F builds a tagged field named after its key.
func F(name, key string, t *Type, o Opts) *Field { return &Field{Name: name, Key: key, T: t, O: o} }

func (f *Field) DocKey() string {
	if f.Untagged || f.Key == "" {
		return f.Name
	}
	return f.Key
}

// TagText renders the tag value (key plus options).
func (f *Field) TagText() string {
	parts := []string{f.Key}
	o := f.O
	if o.Optional {
		switch {
		case o.Dep != "" && o.DepNot:
			parts = append(parts, "optional=!"+o.Dep)
		case o.Dep != "":
			parts = append(parts, "optional="+o.Dep)
		default:
			parts = append(parts, "optional")
		}
	}
	if o.HasDefault {
		parts = append(parts, "default="+o.Default)
	}
	if len(o.Options) > 0 {
		parts = append(parts, "options="+strings.Join(o.Options, "|"))
	}
	if o.Range != nil {
		parts = append(parts, "range="+o.Range.String())
	}
	if o.FromString {
		parts = append(parts, "string")
	}
	if o.Env != "" {
		parts = append(parts, "env="+o.Env)
	}
	if o.Inherit {
		parts = append(parts, "inherit")
	}
	return strings.Join(parts, ",")
}

// RT builds the reflect type; tagKey is the default tag key for fields that do not name one.
func (t *Type) RT(tagKey string) reflect.Type {
	if t.rt != nil && t.rtTag == tagKey {
		return t.rt
	}
	var rt reflect.Type
	switch t.K {
	case Ptr:
		rt = reflect.PointerTo(t.Elem.RT(tagKey))
	case Slice:
		rt = reflect.SliceOf(t.Elem.RT(tagKey))
	case Map:
		if t.KeyInt {
			rt = reflect.MapOf(leafRT[Int], t.Elem.RT(tagKey))
		} else {
			rt = reflect.MapOf(leafRT[String], t.Elem.RT(tagKey))
		}
	case Struct:
		sf := make([]reflect.StructField, 0, len(t.Fields))
		for _, f := range t.Fields {
			x := reflect.StructField{Name: f.Name, Type: f.T.RT(tagKey), Anonymous: f.Anonymous}
			tk := f.TagKey
			if tk == "" {
				tk = tagKey
			}
			switch {
			case f.Untagged:
			case f.Foreign:
				x.Tag = reflect.StructTag(fmt.Sprintf("c05other:%q", f.Key))
			default:
				x.Tag = reflect.StructTag(fmt.Sprintf("%s:%q", tk, f.TagText()))
			}
			sf = append(sf, x)
		}
		rt = reflect.StructOf(sf)
	case Any:
		rt = reflect.TypeOf((*any)(nil)).Elem()
	default:
		rt = leafRT[t.K]
	}
	t.rt, t.rtTag = rt, tagKey
	return rt
}

func (s *Shape) RT() reflect.Type { return s.Root.RT(s.TagKey) }

// New returns a pointer to a fresh zero struct of the shape.
func (s *Shape) New() reflect.Value { return reflect.New(s.RT()) }

func (s *Shape) String() string { return s.RT().String() }

// Sig is a compact structural description used in signatures: "[]*intN", "map[string]struct".
func (t *Type) Sig() string {
	switch t.K {
	case Ptr:
		return "*" + t.Elem.Sig()
	case Slice:
		return "[]" + t.Elem.Sig()
	case Map:
		if t.KeyInt {
			return "map[int]" + t.Elem.Sig()
		}
		return "map[string]" + t.Elem.Sig()
	case Struct:
		return "struct"
	case Any:
		return "any"
	}
	return t.K.Class()
}

// FieldSig describes a field's class for signatures: type class plus option features.
func (f *Field) FieldSig() string {
	s := f.T.Sig()
	var fe []string
	o := f.O
	if f.Anonymous {
		fe = append(fe, "embedded")
	}
	if f.Untagged {
		fe = append(fe, "untagged")
	}
	if o.Optional && o.Dep == "" {
		fe = append(fe, "optional")
	}
	if o.Dep != "" {
		fe = append(fe, "optional-dep")
	}
	if o.HasDefault {
		fe = append(fe, "default")
	}
	if len(o.Options) > 0 {
		fe = append(fe, "options")
	}
	if o.Range != nil {
		fe = append(fe, "range")
	}
	if o.FromString {
		fe = append(fe, "string")
	}
	if o.Env != "" {
		fe = append(fe, "env")
	}
	if o.Inherit {
		fe = append(fe, "inherit")
	}
	if len(fe) > 0 {
		s += "+" + strings.Join(fe, "+")
	}
	return s
}

// ---------------------------------------------------------------------------
// leaf literals

func intBounds(k Kind) (lo, hi *big.Int) {
	b := uint(k.Bits())
	one := big.NewInt(1)
	if k.IsUint() {
		hi = new(big.Int).Sub(new(big.Int).Lsh(one, b), one)
		return big.NewInt(0), hi
	}
	hi = new(big.Int).Sub(new(big.Int).Lsh(one, b-1), one)
	lo = new(big.Int).Neg(new(big.Int).Lsh(one, b-1))
	return lo, hi
}

var maxInt64 = big.NewInt(math.MaxInt64)

// FmtFloat renders f so that both JSON and YAML read exactly f back.
func FmtFloat(f float64) string { return strconv.FormatFloat(f, 'g', -1, 64) }

var strAlphabet = []string{"a", "b", "Z", "0", "7", " ", "_", "-", ".", "/", ":", ",", "|", "=", "\"", "\\", "'", "#", "{", "}", "[", "]",
	"&", "%", "+", "é", "ß", "世", "界", "\t", "\n", "<", ">", "~", "!", "*", "?", "@", "`", "$"}

var oddStrings = []string{"", "0", "123", "-1", "1e5", "true", "false", "null", "~", "1.5", " x ", "yes", "no", "on", "0x1F", "1_000", "2001-12-14", ".5", "[1,2]", "{}", "- a", "a: b", "'", "\"\""}

// RandString returns an arbitrary document string.
func RandString(r *rand.Rand) string {
	if r.Intn(5) == 0 {
		return oddStrings[r.Intn(len(oddStrings))]
	}
	n := r.Intn(9)
	var b strings.Builder
	for i := 0; i < n; i++ {
		b.WriteString(strAlphabet[r.Intn(len(strAlphabet))])
	}
	return b.String()
}

const safeChars = "abcdefghijklmnopqrstuvwxyzABCDEFGHIJKLMNOPQRSTUVWXYZ0123456789_-."

// SafeString is a non-empty string that can sit inside a struct tag (default=, options=).
func SafeString(r *rand.Rand) string {
	n := 1 + r.Intn(6)
	b := make([]byte, n)
	for i := range b {
		b[i] = safeChars[r.Intn(len(safeChars)-3)] // first: no _-. at all to keep it simple
	}
	if n > 2 && r.Intn(3) == 0 {
		b[1] = safeChars[len(safeChars)-1-r.Intn(3)]
	}
	return string(b)
}

// RandLeafText returns the literal text of a value of kind k inside its domain
// (boundary-heavy). For uint kinds the value never exceeds MaxInt64 (see assumptions).
func RandLeafText(r *rand.Rand, k Kind) string {
	switch {
	case k == Bool:
		if r.Intn(2) == 0 {
			return "true"
		}
		return "false"
	case k.IsInt() || k.IsUint():
		lo, hi := intBounds(k)
		if hi.Cmp(maxInt64) > 0 {
			hi = maxInt64
		}
		switch r.Intn(10) {
		case 0:
			return lo.String()
		case 1:
			return hi.String()
		case 2:
			return new(big.Int).Add(lo, big.NewInt(1)).String()
		case 3:
			return new(big.Int).Sub(hi, big.NewInt(1)).String()
		case 4:
			return "0"
		case 5:
			return "1"
		case 6:
			if k.IsInt() {
				return "-1"
			}
			return "2"
		default:
			span := new(big.Int).Sub(hi, lo)
			span.Add(span, big.NewInt(1))
			v := new(big.Int).Rand(r, span)
			v.Add(v, lo)
			if r.Intn(2) == 0 { // small magnitudes as well
				v.Rem(v, big.NewInt(128))
				if v.Cmp(lo) < 0 {
					v.Set(lo)
				}
			}
			return v.String()
		}
	case k == Float32:
		var f float32
		switch r.Intn(10) {
		case 0:
			f = math.MaxFloat32
		case 1:
			f = -math.MaxFloat32
		case 2:
			f = math.SmallestNonzeroFloat32
		case 3:
			f = 0
		case 4:
			f = 0.5
		case 5:
			f = float32(r.Intn(2000)-1000) / 8
		case 6:
			f = 16777216 // 2^24
		default:
			for {
				f = math.Float32frombits(r.Uint32())
				if !math.IsNaN(float64(f)) && !math.IsInf(float64(f), 0) {
					break
				}
			}
		}
		if r.Intn(2) == 0 {
			// the shortest decimal that identifies f among float32 values (what fmt and encoding/json print);
			// as a float64 it may lie slightly outside [-MaxFloat32, MaxFloat32] and still denotes f
			return strconv.FormatFloat(float64(f), 'g', -1, 32)
		}
		return FmtFloat(float64(f))
	case k == Float64:
		var f float64
		switch r.Intn(10) {
		case 0:
			f = math.MaxFloat64
		case 1:
			f = -math.MaxFloat64
		case 2:
			f = math.SmallestNonzeroFloat64
		case 3:
			f = 0
		case 4:
			f = 0.1
		case 5:
			f = float64(r.Intn(2000)-1000) / 8
		case 6:
			f = 9007199254740993 // 2^53+1 rounds to 2^53
		case 7:
			f = float64(r.Int63())
		default:
			for {
				f = math.Float64frombits(r.Uint64())
				if !math.IsNaN(f) && !math.IsInf(f, 0) {
					break
				}
			}
		}
		return FmtFloat(f)
	case k == String:
		return RandString(r)
	case k == Duration:
		switch r.Intn(6) {
		case 0:
			return []string{"1h", "300ms", "-5s", "1.5h", "0", "1us", "2h45m", "1ns", "2562047h47m16.854775807s"}[r.Intn(9)]
		case 1:
			return time.Duration(r.Int63()).String()
		case 2:
			return time.Duration(-r.Int63()).String()
		default:
			return (time.Duration(r.Intn(100000)) * time.Millisecond).String()
		}
	}
	panic("RandLeafText: not a leaf kind")
}

// ParseLeaf converts the literal text of an in-domain value into the typed value.
// ok=false when the text is not an exact in-domain literal of kind k.
func ParseLeaf(k Kind, text string) (v reflect.Value, ok bool) {
	v = reflect.New(leafRT[k]).Elem()
	switch {
	case k == Bool:
		switch strings.ToLower(text) {
		case "true", "1":
			v.SetBool(true)
		case "false", "0":
			v.SetBool(false)
		default:
			return v, false
		}
	case k.IsInt():
		n, err := strconv.ParseInt(text, 10, k.Bits())
		if err != nil {
			return v, false
		}
		v.SetInt(n)
	case k.IsUint():
		n, err := strconv.ParseUint(text, 10, k.Bits())
		if err != nil {
			return v, false
		}
		v.SetUint(n)
	case k == Float64:
		f, err := strconv.ParseFloat(text, 64)
		if err != nil {
			return v, false
		}
		v.SetFloat(f)
	case k == Float32:
		f, err := strconv.ParseFloat(text, 32)
		if err != nil {
			return v, false
		}
		v.SetFloat(f)
	case k == String:
		v.SetString(text)
	case k == Duration:
		d, err := time.ParseDuration(text)
		if err != nil {
			return v, false
		}
		v.SetInt(int64(d))
	}
	return v, true
}

// LeafDoc is the document node for a leaf literal.
func LeafDoc(k Kind, text string, fromString bool) any {
	if fromString {
		return text
	}
	switch {
	case k == Bool:
		return strings.ToLower(text) == "true" || text == "1"
	case k.IsNum():
		return json.Number(text)
	}
	return text
}

// ---------------------------------------------------------------------------
// rendering

// JSON renders a document tree (keys sorted, no HTML escaping).
func JSON(doc any) []byte {
	var buf bytes.Buffer
	enc := json.NewEncoder(&buf)
	enc.SetEscapeHTML(false)
	if err := enc.Encode(doc); err != nil {
		panic("c05gen.JSON: " + err.Error())
	}
	return bytes.TrimRight(buf.Bytes(), "\n")
}

func yamlScalar(v any) string {
	switch x := v.(type) {
	case nil:
		return "null"
	case bool:
		if x {
			return "true"
		}
		return "false"
	case json.Number:
		return string(x)
	case string:
		return string(JSON(x)) // a JSON string is a YAML double-quoted scalar
	}
	panic(fmt.Sprintf("yamlScalar: %T", v))
}

func isEmptyContainer(v any) (string, bool) {
	switch x := v.(type) {
	case map[string]any:
		if len(x) == 0 {
			return "{}", true
		}
	case []any:
		if len(x) == 0 {
			return "[]", true
		}
	}
	return "", false
}

func isContainer(v any) bool {
	switch v.(type) {
	case map[string]any, []any:
		return true
	}
	return false
}

func yamlBlock(b *strings.Builder, v any, indent int) {
	pad := strings.Repeat(" ", indent)
	switch x := v.(type) {
	case map[string]any:
		keys := make([]string, 0, len(x))
		for k := range x {
			keys = append(keys, k)
		}
		sort.Strings(keys)
		for _, k := range keys {
			b.WriteString(pad)
			b.WriteString(string(JSON(k)))
			b.WriteString(":")
			c := x[k]
			if e, ok := isEmptyContainer(c); ok {
				b.WriteString(" " + e + "\n")
			} else if isContainer(c) {
				b.WriteString("\n")
				yamlBlock(b, c, indent+2)
			} else {
				b.WriteString(" " + yamlScalar(c) + "\n")
			}
		}
	case []any:
		for _, c := range x {
			b.WriteString(pad)
			b.WriteString("-")
			if e, ok := isEmptyContainer(c); ok {
				b.WriteString(" " + e + "\n")
			} else if isContainer(c) {
				b.WriteString("\n")
				yamlBlock(b, c, indent+2)
			} else {
				b.WriteString(" " + yamlScalar(c) + "\n")
			}
		}
	}
}

// YAML renders a document tree as block-style YAML (strings double-quoted).
func YAML(doc map[string]any) []byte {
	if len(doc) == 0 {
		return []byte("{}\n")
	}
	var b strings.Builder
	yamlBlock(&b, doc, 0)
	return []byte(b.String())
}

// Clone deep-copies a document tree.
func Clone(v any) any {
	switch x := v.(type) {
	case map[string]any:
		m := make(map[string]any, len(x))
		for k, c := range x {
			m[k] = Clone(c)
		}
		return m
	case []any:
		s := make([]any, len(x))
		for i, c := range x {
			s[i] = Clone(c)
		}
		return s
	}
	return v
}

// HasNull reports whether the tree contains a null.
func HasNull(v any) bool {
	switch x := v.(type) {
	case nil:
		return true
	case map[string]any:
		for _, c := range x {
			if HasNull(c) {
				return true
			}
		}
	case []any:
		for _, c := range x {
			if HasNull(c) {
				return true
			}
		}
	}
	return false
}

// DocClass names the JSON class of a document node.
func DocClass(v any) string {
	switch v.(type) {
	case nil:
		return "null"
	case bool:
		return "bool"
	case json.Number:
		return "number"
	case string:
		return "string"
	case []any:
		return "array"
	case map[string]any:
		return "object"
	}
	return fmt.Sprintf("%T", v)
}

// ---------------------------------------------------------------------------
// lenient equality (nil slice/map == empty slice/map; otherwise exact)

func Equal(a, b reflect.Value) bool {
	if a.Type() != b.Type() {
		return false
	}
	switch a.Kind() {
	case reflect.Ptr:
		if a.IsNil() || b.IsNil() {
			return a.IsNil() == b.IsNil()
		}
		return Equal(a.Elem(), b.Elem())
	case reflect.Slice:
		if a.Len() != b.Len() {
			return false
		}
		for i := 0; i < a.Len(); i++ {
			if !Equal(a.Index(i), b.Index(i)) {
				return false
			}
		}
		return true
	case reflect.Map:
		if a.Len() != b.Len() {
			return false
		}
		it := a.MapRange()
		for it.Next() {
			bv := b.MapIndex(it.Key())
			if !bv.IsValid() || !Equal(it.Value(), bv) {
				return false
			}
		}
		return true
	case reflect.Struct:
		for i := 0; i < a.NumField(); i++ {
			if !Equal(a.Field(i), b.Field(i)) {
				return false
			}
		}
		return true
	case reflect.Interface:
		if a.IsNil() || b.IsNil() {
			return a.IsNil() == b.IsNil()
		}
		return freeEqual(a.Interface(), b.Interface())
	case reflect.Float32, reflect.Float64:
		return a.Float() == b.Float()
	case reflect.Bool:
		return a.Bool() == b.Bool()
	case reflect.String:
		return a.String() == b.String()
	case reflect.Int, reflect.Int8, reflect.Int16, reflect.Int32, reflect.Int64:
		return a.Int() == b.Int()
	case reflect.Uint, reflect.Uint8, reflect.Uint16, reflect.Uint32, reflect.Uint64:
		return a.Uint() == b.Uint()
	}
	return reflect.DeepEqual(a.Interface(), b.Interface())
}

// Show renders a struct value compactly for witnesses.
func Show(v reflect.Value) string {
	for v.Kind() == reflect.Ptr && !v.IsNil() {
		v = v.Elem()
	}
	b, err := json.Marshal(v.Interface())
	if err != nil {
		return fmt.Sprintf("%+v", v.Interface())
	}
	if len(b) > 1500 {
		b = append(b[:1500], "…"...)
	}
	return string(b)
}

// Scramble overwrites, in place, everything reachable from a result struct that lives behind a
// reference (slice elements, map entries, pointees, free-form values), the way an owner of the
// result may: elements are replaced, slices reversed and appended to within their capacity, map
// entries replaced and added. A later unmarshal of the same document must not see any of it.
func Scramble(v reflect.Value) {
	scramble(v, 0)
}

func scrambleLeaf(v reflect.Value) {
	if !v.CanSet() {
		return
	}
	switch v.Kind() {
	case reflect.Bool:
		v.SetBool(!v.Bool())
	case reflect.Int, reflect.Int8, reflect.Int16, reflect.Int32, reflect.Int64:
		v.SetInt(^v.Int())
	case reflect.Uint, reflect.Uint8, reflect.Uint16, reflect.Uint32, reflect.Uint64:
		v.SetUint(^v.Uint())
	case reflect.Float32, reflect.Float64:
		v.SetFloat(-v.Float() - 1)
	case reflect.String:
		v.SetString(v.String() + "~scrambled")
	}
}

func scramble(v reflect.Value, depth int) {
	if depth > 12 {
		return
	}
	switch v.Kind() {
	case reflect.Ptr:
		if !v.IsNil() {
			scramble(v.Elem(), depth+1)
		}
	case reflect.Interface:
		if !v.IsNil() {
			switch x := v.Elem().Interface().(type) {
			case map[string]any:
				for k := range x {
					x[k] = "~scrambled"
				}
				x["~scrambled"] = true
			case []any:
				for i := range x {
					x[i] = "~scrambled"
				}
			}
		}
	case reflect.Struct:
		for i := 0; i < v.NumField(); i++ {
			scramble(v.Field(i), depth+1)
		}
	case reflect.Slice:
		n := v.Len()
		for i := 0; i < n; i++ {
			scramble(v.Index(i), depth+1)
		}
		for i, j := 0, n-1; i < j; i, j = i+1, j-1 {
			tmp := reflect.New(v.Type().Elem()).Elem()
			tmp.Set(v.Index(i))
			v.Index(i).Set(v.Index(j))
			v.Index(j).Set(tmp)
		}
		if v.CanSet() && n > 0 && v.Cap() >= n {
			// drop the tail and append within capacity: writes into the shared backing array, if there is one
			v.Set(reflect.Append(v.Slice(0, n-1), v.Index(0)))
		}
	case reflect.Map:
		for _, k := range v.MapKeys() {
			ev := v.MapIndex(k)
			nv := reflect.New(ev.Type()).Elem()
			nv.Set(ev)
			scramble(nv, depth+1)
			v.SetMapIndex(k, nv)
		}
		if v.Len() > 0 && v.Type().Key().Kind() == reflect.String {
			v.SetMapIndex(reflect.ValueOf("~scrambled").Convert(v.Type().Key()), reflect.Zero(v.Type().Elem()))
		}
	default:
		scrambleLeaf(v)
	}
}
