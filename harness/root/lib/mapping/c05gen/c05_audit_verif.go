//go:build verif

package c05gen

import (
	"encoding/json"
	"fmt"
	"math"
	"math/big"
	"reflect"
	"strconv"
	"strings"
	"time"
)

// Finding is one refutation found by the audit: stable signature + witness text.
type Finding struct {
	Sig    string
	Detail string
}

// AuditOpt carries what the harness knows about the call.
type AuditOpt struct {
	Env map[string]string // env var name -> value for env= options that are active
	// Canon, when set (lib/conf), is the key canonicalisation the loader applies to struct keys
	// and document keys alike: a field is fed from the document key whose canonical form equals
	// the canonical form of its own key. Map-typed data keys are looked up through it as well
	// (what the loader does to data keys is not asserted).
	Canon func(string) string
}

// lookup finds the document value for a struct key. ambiguous=true when several document
// keys collapse onto the field under Canon (which one wins is not asserted).
func (o AuditOpt) lookup(m map[string]any, key string) (v any, present, ambiguous bool) {
	if o.Canon == nil {
		v, present = m[key]
		return v, present, false
	}
	ck := o.Canon(key)
	n := 0
	for k, c := range m {
		if o.Canon(k) == ck {
			v, present = c, true
			n++
		}
	}
	return v, present, n > 1
}

func finding(sig, format string, a ...any) *Finding {
	return &Finding{Sig: "C05:" + sig, Detail: fmt.Sprintf(format, a...)}
}

// Audit walks the result struct (res: struct value) and the document side by side.
// It is called only when the unmarshaller returned no error and reports the first
// deviation from "every field equals the document's value exactly / default / zero,
// required present, options and range respected".
func Audit(s *Shape, res reflect.Value, doc map[string]any, o AuditOpt) *Finding {
	for res.Kind() == reflect.Ptr {
		res = res.Elem()
	}
	return auditStruct(s.Root, res, doc, "", o)
}

func notFedClass(sig string) bool {
	for _, p := range []string{"C05:inexact:", "C05:required-absent-accepted:", "C05:null-required-accepted:", "C05:lost:", "C05:default-not-applied:"} {
		if strings.HasPrefix(sig, p) {
			return true
		}
	}
	return false
}

func zeroLenient(v reflect.Value) bool {
	switch v.Kind() {
	case reflect.Slice, reflect.Map:
		return v.Len() == 0
	}
	return v.IsZero()
}

func typeClass(t *Type) string {
	switch t.K {
	case Ptr:
		return typeClass(t.Elem)
	case Slice, Map, Struct, Any:
		return t.K.String()
	}
	return t.K.Class()
}

func anyKeyPresent(t *Type, m map[string]any) bool {
	return anyKeyPresentO(t, m, AuditOpt{})
}

func anyKeyPresentO(t *Type, m map[string]any, o AuditOpt) bool {
	if t.K == Ptr {
		t = t.Elem
	}
	for _, f := range t.Fields {
		if f.Foreign {
			continue
		}
		if _, ok, _ := o.lookup(m, f.DocKey()); ok {
			return true
		}
	}
	return false
}

func derefOrZero(t *Type, v reflect.Value) (*Type, reflect.Value) {
	for t.K == Ptr {
		if v.IsNil() {
			v = reflect.Zero(v.Type().Elem())
		} else {
			v = v.Elem()
		}
		t = t.Elem
	}
	return t, v
}

func auditStruct(t *Type, rv reflect.Value, m map[string]any, path string, o AuditOpt) *Finding {
	for i, f := range t.Fields {
		fv := rv.Field(i)
		if f.Foreign {
			continue
		}
		p := path + "." + f.DocKey()
		if f.Anonymous {
			if f.O.Optional && !anyKeyPresentO(f.T, m, o) {
				if !fv.IsZero() {
					return finding("optional-absent-not-zero:embedded", "%s: optional embedded struct with no key present is %s", p, Show(fv))
				}
				continue
			}
			st, sv := derefOrZero(f.T, fv)
			if fd := auditStruct(st, sv, m, path, o); fd != nil {
				if f.O.Optional && o.Canon != nil && notFedClass(fd.Sig) {
					// under a key-canonicalising loader (lib/conf) the fields of an optional embedded
					// struct are looked up separately: one class, whatever the field kind
					fd.Detail = fd.Sig + ": " + fd.Detail
					fd.Sig = "C05:conf:optional-embedded-field-not-fed"
				}
				return fd
			}
			continue
		}
		key := f.DocKey()
		if f.O.Env != "" {
			if ev := o.Env[f.O.Env]; ev != "" {
				lt, lv := f.T, fv
				if lt.K == Ptr {
					if lv.IsNil() {
						return finding("lost:"+typeClass(lt)+"<-env", "%s: env %s=%q set but pointer field is nil", p, f.O.Env, ev)
					}
					lt, lv = lt.Elem, lv.Elem()
				}
				if lt.K.IsLeaf() {
					// a value taken from the environment is held against the declared constraints like a document value
					if len(f.O.Options) > 0 {
						if fd := auditOptions(f, lt.K, ev, p); fd != nil {
							fd.Sig = "C05:options-not-enforced:" + lt.K.Class() + "<-env"
							return fd
						}
					}
					if f.O.Range != nil && lt.K.IsNum() {
						if fd := auditRange(f, false, ev, p); fd != nil {
							fd.Sig = "C05:range-not-enforced:env"
							return fd
						}
					}
					if fd := auditLeaf(lt.K, lv, ev, "env", p); fd != nil {
						return fd
					}
				}
				continue
			}
		}
		dv, present, ambiguous := o.lookup(m, key)
		if ambiguous {
			continue
		}
		optional := f.O.Optional
		if f.O.Dep != "" {
			_, baseOn := m[f.O.Dep]
			if f.O.DepNot {
				if baseOn == present {
					continue // inconsistent with the dependency: outcome not asserted
				}
				optional = baseOn
			} else {
				if baseOn != present {
					continue
				}
				optional = !baseOn
			}
		}
		if !present {
			switch {
			case f.O.HasDefault:
				if fd := auditDefault(f, fv, p); fd != nil {
					return fd
				}
			case optional:
				if !zeroLenient(fv) {
					return finding("optional-absent-not-zero:"+typeClass(f.T), "%s: optional field absent from the document is %s", p, Show(fv))
				}
			default:
				switch bt, _ := derefOrZero(f.T, fv); bt.K {
				case Map:
					// an absent non-optional map is accepted as empty by design of the library: not asserted
				case Struct:
					_, sv := derefOrZero(f.T, fv)
					if fd := auditStruct(bt, sv, map[string]any{}, p, o); fd != nil {
						return fd
					}
				default:
					return finding("required-absent-accepted:"+typeClass(f.T), "%s: required field (tag %q) absent from the document, no error; field = %s", p, f.TagText(), Show(fv))
				}
			}
			continue
		}
		if dv == nil {
			switch {
			case optional:
				if !zeroLenient(fv) {
					return finding("inexact:"+typeClass(f.T)+"<-null", "%s: null for optional field gave %s", p, Show(fv))
				}
			case f.O.HasDefault:
				// null for a defaulted field: not asserted
			default:
				if bt, _ := derefOrZero(f.T, fv); bt.K != Map {
					return finding("null-required-accepted:"+typeClass(f.T), "%s: null for required field (tag %q), no error; field = %s", p, f.TagText(), Show(fv))
				}
			}
			continue
		}
		lt := f.T
		if lt.K == Ptr {
			lt = lt.Elem
		}
		if lt.K.IsLeaf() {
			if len(f.O.Options) > 0 {
				if fd := auditOptions(f, lt.K, dv, p); fd != nil {
					return fd
				}
			}
			if f.O.Range != nil && lt.K.IsNum() {
				if fd := auditRange(f, optional != f.O.Optional, dv, p); fd != nil {
					return fd
				}
			}
		}
		if fd := auditValue(f.T, fv, dv, "", p, o); fd != nil {
			return fd
		}
	}
	return nil
}

func scalarText(dv any) (string, bool) {
	switch x := dv.(type) {
	case string:
		return x, true
	case json.Number:
		return string(x), true
	case bool:
		return strconv.FormatBool(x), true
	}
	return "", false
}

func parseRat(text string) (*big.Rat, bool) {
	if len(text) == 0 || len(text) > 2000 {
		return nil, false
	}
	// bound the exponent: big.Rat would materialise 10^exp
	if i := strings.IndexAny(text, "eE"); i >= 0 {
		e, err := strconv.Atoi(text[i+1:])
		if err != nil || e > 5000 || e < -5000 {
			return nil, false
		}
	}
	for _, c := range text {
		if !(c >= '0' && c <= '9') && c != '-' && c != '+' && c != '.' && c != 'e' && c != 'E' {
			return nil, false
		}
	}
	r, ok := new(big.Rat).SetString(text)
	return r, ok
}

func auditOptions(f *Field, k Kind, dv any, p string) *Finding {
	text, ok := scalarText(dv)
	if !ok {
		return nil // a container for a leaf: decided by the value audit
	}
	for _, op := range f.O.Options {
		if op == text {
			return nil
		}
	}
	if k.IsNum() {
		if r, ok := parseRat(text); ok {
			for _, op := range f.O.Options {
				if ro, ok := parseRat(op); ok && ro.Cmp(r) == 0 {
					return nil // numerically one of the options: tolerated
				}
			}
		}
	}
	if k == Duration {
		if d, err := time.ParseDuration(text); err == nil {
			for _, op := range f.O.Options {
				if od, err := time.ParseDuration(op); err == nil && od == d {
					return nil
				}
			}
		}
	}
	src := "json"
	if _, isStr := dv.(string); isStr && k != String && k != Duration {
		src = "string"
	}
	return finding("options-not-enforced:"+k.Class()+"<-"+src, "%s: value %s is not in options %v (tag %q), no error", p, JSON(dv), f.O.Options, f.TagText())
}

func auditRange(f *Field, depFlipped bool, dv any, p string) *Finding {
	text, ok := scalarText(dv)
	if !ok {
		return nil
	}
	if _, isBool := dv.(bool); isBool {
		return nil
	}
	r, ok := parseRat(text)
	if !ok {
		return nil
	}
	fv, _ := strconv.ParseFloat(text, 64)
	g := f.O.Range
	out := false
	if g.L != "" {
		l, _ := parseRat(g.L)
		lf, _ := strconv.ParseFloat(g.L, 64)
		c := r.Cmp(l)
		if (c < 0 || (c == 0 && !g.LI)) && (fv < lf || (fv == lf && !g.LI)) {
			out = true
		}
	}
	if g.R != "" {
		rr, _ := parseRat(g.R)
		rf, _ := strconv.ParseFloat(g.R, 64)
		c := r.Cmp(rr)
		if (c > 0 || (c == 0 && !g.RI)) && (fv > rf || (fv == rf && !g.RI)) {
			out = true
		}
	}
	if !out {
		return nil
	}
	src := "json-number"
	if _, isStr := dv.(string); isStr {
		src = "string"
	}
	sig := "range-not-enforced:" + src
	if depFlipped {
		sig += ":optional-dep"
	}
	return finding(sig, "%s: value %s is outside range %s (tag %q), no error", p, JSON(dv), g.String(), f.TagText())
}

func auditDefault(f *Field, fv reflect.Value, p string) *Finding {
	t := f.T
	if t.K == Ptr {
		if fv.IsNil() {
			return finding("default-not-applied:"+typeClass(t), "%s: absent field with default=%s is nil", p, f.O.Default)
		}
		t, fv = t.Elem, fv.Elem()
	}
	switch {
	case t.K.IsLeaf():
		fd := auditLeaf(t.K, fv, f.O.Default, "default", p)
		if fd != nil && strings.HasPrefix(fd.Sig, "C05:inexact:") {
			fd.Sig = "C05:default-not-applied:" + t.K.Class()
		}
		return fd
	case t.K == Slice:
		elems := ParseDefaultList(f.O.Default)
		if fv.Len() != len(elems) {
			return finding("default-not-applied:slice", "%s: absent slice with default=%s is %s", p, f.O.Default, Show(fv))
		}
		et := t.Elem
		for i, e := range elems {
			ev := fv.Index(i)
			if et.K == Ptr {
				if ev.IsNil() {
					return finding("default-not-applied:slice", "%s[%d]: nil element for default=%s", p, i, f.O.Default)
				}
				ev = ev.Elem()
			}
			ek := et.K
			if ek == Ptr {
				ek = et.Elem.K
			}
			if !ek.IsLeaf() {
				return nil
			}
			if fd := auditLeaf(ek, ev, e, "default", fmt.Sprintf("%s[%d]", p, i)); fd != nil {
				return fd
			}
		}
	}
	return nil
}

// ParseDefaultList splits "[a,b,c]" into its elements.
func ParseDefaultList(s string) []string {
	s = strings.TrimSuffix(strings.TrimPrefix(s, "["), "]")
	if strings.TrimSpace(s) == "" {
		return nil
	}
	parts := strings.Split(s, ",")
	for i := range parts {
		parts[i] = strings.TrimSpace(parts[i])
	}
	return parts
}

func decodeJSONString(s string) (any, bool) {
	dec := json.NewDecoder(strings.NewReader(s))
	dec.UseNumber()
	var v any
	if err := dec.Decode(&v); err != nil {
		return nil, false
	}
	return v, true
}

func auditValue(t *Type, rv reflect.Value, dv any, container string, p string, o AuditOpt) *Finding {
	if len(p) > 4000 {
		return nil
	}
	switch t.K {
	case Ptr:
		if rv.IsNil() && (t.Elem.K == Slice || t.Elem.K == Map) {
			// the same tolerances as for a slice / map held by value: an array of nulls, or JSON null inside a string, is "no value"
			if arr, ok := dv.([]any); ok && t.Elem.K == Slice {
				allNull := true
				for _, e := range arr {
					allNull = allNull && e == nil
				}
				if allNull {
					return nil
				}
			}
			if s, ok := dv.(string); ok {
				if dec, ok2 := decodeJSONString(s); ok2 && dec == nil {
					return nil
				}
			}
		}
		if rv.IsNil() {
			return finding("lost:"+typeClass(t)+"<-"+DocClass(dv), "%s: document value %s present, pointer field is nil, no error", p, short(dv))
		}
		return auditValue(t.Elem, rv.Elem(), dv, container, p, o)
	case Slice:
		arr, ok := dv.([]any)
		if !ok {
			if s, isStr := dv.(string); isStr {
				if dec, ok2 := decodeJSONString(s); ok2 {
					if dec == nil && rv.Len() == 0 {
						return nil // the string holds JSON null: zero slice
					}
					arr, ok = dec.([]any)
				}
			}
			if !ok {
				return finding("inexact:slice<-"+DocClass(dv), "%s: document value %s is not an array, no error; field = %s", p, short(dv), Show(rv))
			}
		}
		allNull := true
		for _, e := range arr {
			if e != nil {
				allNull = false
			}
		}
		if rv.Len() != len(arr) {
			if allNull && rv.Len() == 0 {
				return nil // arrays of nulls: not asserted
			}
			return finding("inexact:slice-length", "%s: document array has %d elements, field has %d: %s", p, len(arr), rv.Len(), Show(rv))
		}
		for i, e := range arr {
			ev := rv.Index(i)
			if e == nil {
				if !zeroLenient(ev) {
					return finding("inexact:"+typeClass(t.Elem)+"<-null", "%s[%d]: null element gave %s", p, i, Show(ev))
				}
				continue
			}
			if fd := auditValue(t.Elem, ev, e, "slice-elem", fmt.Sprintf("%s[%d]", p, i), o); fd != nil {
				return fd
			}
		}
		return nil
	case Map:
		mm, ok := dv.(map[string]any)
		if !ok {
			if s, isStr := dv.(string); isStr {
				if dec, ok2 := decodeJSONString(s); ok2 {
					if dec == nil && rv.Len() == 0 {
						return nil // the string holds JSON null: zero map
					}
					mm, ok = dec.(map[string]any)
				}
			}
			if !ok {
				return finding("inexact:map<-"+DocClass(dv), "%s: document value %s is not an object, no error; field = %s", p, short(dv), Show(rv))
			}
		}
		if o.Canon != nil {
			cm := map[string]any{}
			for k, c := range mm {
				ck := o.Canon(k)
				if _, dup := cm[ck]; dup {
					return nil // data keys collapsing under the loader's canonicalisation: not asserted
				}
				cm[ck] = c
			}
			mm = cm
		}
		if rv.Len() != len(mm) {
			return finding("inexact:map-keys", "%s: document object has %d keys, field has %d: %s", p, len(mm), rv.Len(), Show(rv))
		}
		for k, c := range mm {
			var kv reflect.Value
			if t.KeyInt {
				n, err := strconv.Atoi(k)
				if err != nil {
					return finding("inexact:map-keys", "%s: key %q is not an int, no error", p, k)
				}
				kv = reflect.ValueOf(n)
			} else {
				kv = reflect.ValueOf(k)
			}
			ev := rv.MapIndex(kv)
			if !ev.IsValid() {
				return finding("inexact:map-keys", "%s: key %q of the document missing in the field: %s", p, k, Show(rv))
			}
			if c == nil {
				if !zeroLenient(ev) {
					return finding("inexact:"+typeClass(t.Elem)+"<-null", "%s[%q]: null gave %s", p, k, Show(ev))
				}
				continue
			}
			if fd := auditValue(t.Elem, ev, c, "map-elem", fmt.Sprintf("%s[%q]", p, k), o); fd != nil {
				return fd
			}
		}
		return nil
	case Struct:
		mm, ok := dv.(map[string]any)
		if !ok {
			return finding("inexact:struct<-"+DocClass(dv), "%s: document value %s is not an object, no error; field = %s", p, short(dv), Show(rv))
		}
		return auditStruct(t, rv, mm, p, o)
	}
	if t.K == Any {
		want := dv
		if o.Canon != nil {
			var ok bool
			if want, ok = canonKeys(dv, o.Canon); !ok {
				return nil // data keys collapsing under the loader's canonicalisation: not asserted
			}
		}
		if rv.IsNil() || !freeEqual(rv.Interface(), want) {
			got := "nil"
			if !rv.IsNil() {
				got = fmt.Sprintf("%#v", rv.Interface())
			}
			if len(got) > 300 {
				got = got[:300] + "…"
			}
			return finding("inexact:any<-"+DocClass(dv), "%s: document value %s arrived in the interface field as %s", p, short(dv), got)
		}
		return nil
	}
	// leaf
	src := container
	switch x := dv.(type) {
	case json.Number:
		if src == "" {
			src = "json-number"
		}
		return auditLeafNumber(t.K, rv, string(x), src, p)
	case string:
		if src == "" {
			src = "string"
		}
		return auditLeaf(t.K, rv, x, src, p)
	case bool:
		switch t.K {
		case Bool:
			if rv.Bool() == x {
				return nil
			}
		case String:
			if rv.String() == strconv.FormatBool(x) {
				return nil
			}
		}
		return finding("inexact:"+t.K.Class()+"<-bool", "%s: document value %v, field = %s, no error", p, x, Show(rv))
	}
	return finding("inexact:"+t.K.Class()+"<-"+DocClass(dv), "%s: document value %s for a %s field, no error; field = %s", p, short(dv), t.K, Show(rv))
}

func short(dv any) string {
	b := JSON(dv)
	if len(b) > 300 {
		return string(b[:300]) + "…"
	}
	return string(b)
}

// auditLeafNumber: the document value is a JSON number literal.
func auditLeafNumber(k Kind, rv reflect.Value, text, src, p string) *Finding {
	switch {
	case k == String:
		if rv.String() == text {
			return nil // textually exact number->string coercion is tolerated
		}
		if a, ok := parseRat(text); ok {
			if b, ok := parseRat(rv.String()); ok && a.Cmp(b) == 0 {
				return nil // another spelling of the same number
			}
		}
		return finding("inexact:string<-number", "%s: number %s became string %q", p, text, rv.String())
	case k == Bool:
		if a, ok := parseRat(text); ok {
			if (a.Cmp(big.NewRat(1, 1)) == 0 && rv.Bool()) || (a.Sign() == 0 && !rv.Bool()) {
				return nil
			}
		}
		return finding("inexact:bool<-number", "%s: number %s became bool %v", p, text, rv.Bool())
	}
	return auditLeaf(k, rv, text, src, p)
}

// auditLeaf: the source is text (string document value, number literal, default=, env).
func auditLeaf(k Kind, rv reflect.Value, text, src, p string) *Finding {
	switch {
	case k == String:
		if rv.String() == text {
			return nil
		}
		return finding("inexact:string<-"+src, "%s: %q became %q", p, text, rv.String())
	case k == Bool:
		switch strings.ToLower(text) {
		case "true", "1":
			if rv.Bool() {
				return nil
			}
		case "false", "0":
			if !rv.Bool() {
				return nil
			}
		}
		return finding("inexact:bool<-"+src, "%s: %q became %v", p, text, rv.Bool())
	case k == Duration:
		if d, err := time.ParseDuration(text); err == nil {
			if time.Duration(rv.Int()) == d {
				return nil
			}
			return finding("inexact:duration<-"+src, "%s: %q became %v", p, text, time.Duration(rv.Int()))
		}
		if r, ok := parseRat(text); ok && r.IsInt() && r.Num().IsInt64() && r.Num().Int64() == rv.Int() {
			return nil // plain integer taken as nanoseconds: exact
		}
		return finding("inexact:duration<-"+src, "%s: %q is neither a duration nor the integer stored (%d)", p, text, rv.Int())
	case k.IsInt() || k.IsUint():
		r, ok := parseRat(text)
		if !ok {
			if len(text) > 2000 {
				return nil
			}
			return finding("inexact:"+k.Class()+"<-"+src, "%s: %q is not a number, no error; field = %s", p, text, Show(rv))
		}
		got := new(big.Rat)
		if k.IsInt() {
			got.SetInt64(rv.Int())
		} else {
			got.SetInt(new(big.Int).SetUint64(rv.Uint()))
		}
		if got.Cmp(r) == 0 {
			return nil
		}
		if !r.IsInt() {
			return finding("truncate:"+k.Class()+"<-"+src, "%s: non-integer %s stored as %s in a %s field, no error", p, text, got.RatString(), k)
		}
		lo, hi := intBounds(k)
		if r.Num().Cmp(lo) < 0 || r.Num().Cmp(hi) > 0 {
			fam := "intN"
			if k.IsUint() {
				fam = "uintN"
			}
			return finding("wrap:"+fam+"<-"+src, "%s: %s does not fit %s and was stored as %s, no error", p, text, k, got.RatString())
		}
		return finding("inexact:"+k.Class()+"<-"+src, "%s: %s stored as %s in a %s field", p, text, got.RatString(), k)
	case k.IsFloat():
		f64, err := strconv.ParseFloat(text, 64)
		got := rv.Float()
		if err != nil {
			if ne, ok := err.(*strconv.NumError); ok && ne.Err == strconv.ErrRange {
				return finding("inf:"+k.String()+"<-"+src, "%s: %s is not representable in %s and was stored as %v, no error", p, text, k, got)
			}
			return finding("inexact:float<-"+src, "%s: %q is not a number, no error; field = %v", p, text, got)
		}
		if math.IsNaN(f64) && math.IsNaN(got) {
			return nil
		}
		if k == Float64 {
			if got == f64 {
				return nil
			}
			return finding("inexact:float<-"+src, "%s: %s stored as %v in float64", p, text, got)
		}
		c1 := float64(float32(f64))
		c2f, _ := strconv.ParseFloat(text, 32)
		if !math.IsInf(f64, 0) && math.IsInf(c1, 0) && math.IsInf(got, 0) {
			return finding("inf:float32<-"+src, "%s: %s exceeds float32 and was stored as %v, no error", p, text, got)
		}
		if got == c1 || got == c2f {
			return nil
		}
		return finding("inexact:float<-"+src, "%s: %s stored as %v in float32 (nearest %v)", p, text, got, c1)
	}
	return nil
}

// canonKeys rewrites the object keys of a free-form value the way a key-canonicalising loader does.
func canonKeys(v any, canon func(string) string) (any, bool) {
	switch x := v.(type) {
	case map[string]any:
		m := make(map[string]any, len(x))
		for k, c := range x {
			ck := canon(k)
			if _, dup := m[ck]; dup {
				return nil, false
			}
			cv, ok := canonKeys(c, canon)
			if !ok {
				return nil, false
			}
			m[ck] = cv
		}
		return m, true
	case []any:
		if len(x) == 0 {
			return x, true
		}
		a := make([]any, len(x))
		for i, c := range x {
			cv, ok := canonKeys(c, canon)
			if !ok {
				return nil, false
			}
			a[i] = cv
		}
		return a, true
	}
	return v, true
}

// freeEqual compares free-form values exactly, except that an empty array equals a nil one.
func freeEqual(a, b any) bool {
	switch x := a.(type) {
	case map[string]any:
		y, ok := b.(map[string]any)
		if !ok || len(x) != len(y) {
			return false
		}
		for k, c := range x {
			d, ok := y[k]
			if !ok || !freeEqual(c, d) {
				return false
			}
		}
		return true
	case []any:
		y, ok := b.([]any)
		if !ok || len(x) != len(y) {
			return false
		}
		for i := range x {
			if !freeEqual(x[i], y[i]) {
				return false
			}
		}
		return true
	}
	if x, ok := a.(json.Number); ok {
		// a number may come back in another spelling of the same value (a YAML reader re-prints it)
		if y, ok := b.(json.Number); ok {
			rx, ok1 := parseRat(string(x))
			ry, ok2 := parseRat(string(y))
			return (ok1 && ok2 && rx.Cmp(ry) == 0) || x == y
		}
		return false
	}
	return reflect.DeepEqual(a, b)
}
