//go:build verif

package c05gen

import (
	"encoding/json"
	"fmt"
	"math"
	"math/big"
	"math/rand"
	"reflect"
	"strconv"
	"strings"
)

// ---------------------------------------------------------------------------
// random shapes (inside the domain in which a valid document must be accepted)

// Cfg steers shape generation.
type Cfg struct {
	TagKey            string
	MaxDepth          int
	Conf              bool   // lib/conf: camelCase keys with initial-case variants, no optional=dep, lower-case map keys
	NoEnv             bool   // no env= options (race run: env is process state)
	AllStrings        bool   // WithStringValues unmarshallers (path/form/header): leaf fields only, every document value is a string
	EnvPrefix         string // unique prefix for env var names of this shape
	NoDep             bool   // no optional=dep
	PtrContainers     bool   // about half of the slice / map members are held by pointer (*[]T, *map[string]T): acceptance of valid documents is then not asserted
	NoDurationOptions bool   // no options= on Duration fields (a Duration travels through encoding/json as integer nanoseconds)
	NoUntagged        bool   // no untagged / foreign-tagged fields
	NoStringOnString  bool   // no ,string on string-kind fields (encoding/json renders those differently)
	nkey              int
	nenv              int
}

var keyWords = []string{"a", "b", "id", "name", "port", "host", "size", "max", "ttl", "mode", "tags", "rate", "x", "cfg", "item"}
var confWords = []string{"userName", "maxConn", "port", "Host", "timeoutMs", "a", "dbUrl", "Mode", "retryCount", "x", "keepAlive", "Tags"}

const lowerLetters = "abcdefghijklmnopqrstuvwxyz"
const upperLetters = "ABCDEFGHIJKLMNOPQRSTUVWXYZ"

// RandIdent draws an identifier-like key: words whose initials are uniform over the whole
// alphabet (so that a/z/A/Z, the edges of the letter classes, are as likely as any other letter),
// an initial of either case, optionally digits between words; later words start with a capital
// and have a non-empty lower-case tail (no acronyms: their snake_case spelling is ambiguous).
func RandIdent(r *rand.Rand) string {
	tail := func(min int) string {
		n := min + r.Intn(4)
		b := make([]byte, n)
		for i := range b {
			b[i] = lowerLetters[r.Intn(26)]
			if r.Intn(4) == 0 {
				b[i] = "az"[r.Intn(2)]
			}
		}
		return string(b)
	}
	var b strings.Builder
	if r.Intn(2) == 0 {
		b.WriteByte(lowerLetters[r.Intn(26)])
	} else {
		b.WriteByte(upperLetters[r.Intn(26)])
	}
	b.WriteString(tail(0))
	for i, n := 0, r.Intn(3); i < n; i++ {
		if r.Intn(5) == 0 {
			b.WriteString(strconv.Itoa(r.Intn(100)))
		}
		b.WriteByte(upperLetters[r.Intn(26)])
		b.WriteString(tail(1))
	}
	return b.String()
}

func (c *Cfg) newKey(r *rand.Rand) string {
	c.nkey++
	if c.Conf {
		if r.Intn(4) == 0 {
			return confWords[r.Intn(len(confWords))] + strconv.Itoa(c.nkey)
		}
		return RandIdent(r) + strconv.Itoa(c.nkey)
	}
	if r.Intn(3) == 0 {
		id := RandIdent(r)
		switch r.Intn(4) {
		case 0:
			return id + "_" + strconv.Itoa(c.nkey)
		case 1:
			return id + "-" + strconv.Itoa(c.nkey)
		}
		return id + strconv.Itoa(c.nkey)
	}
	w := keyWords[r.Intn(len(keyWords))]
	switch r.Intn(8) {
	case 0:
		return strings.ToUpper(w[:1]) + w[1:] + strconv.Itoa(c.nkey)
	case 1:
		return w + "_" + strconv.Itoa(c.nkey)
	case 2:
		return w + "-" + strconv.Itoa(c.nkey)
	}
	return w + strconv.Itoa(c.nkey)
}

func (c *Cfg) newName() string {
	c.nkey++
	return "F" + strconv.Itoa(c.nkey)
}

func randLeafKind(r *rand.Rand) Kind { return LeafKinds[r.Intn(len(LeafKinds))] }

// kinds whose valid literals are accepted as slice / map elements
var elemKinds = []Kind{Bool, Int8, Int16, Int32, Int64, Int, Uint8, Uint16, Uint32, Uint64, Uint, Float32, Float64, String}

func randElemKind(r *rand.Rand) Kind { return elemKinds[r.Intn(len(elemKinds))] }

// RandRange declares a range for numeric kind k (bounds are small and inside the kind).
func RandRange(r *rand.Rand, k Kind) *Range {
	g := &Range{LI: r.Intn(2) == 0, RI: r.Intn(2) == 0}
	span := 2 + r.Intn(19)
	if k.IsFloat() {
		l := float64(r.Intn(101)-50) / 2
		g.L, g.R = FmtFloat(l), FmtFloat(l+float64(span)/2)
	} else {
		l := r.Intn(101) - 50
		if k.IsUint() {
			l = r.Intn(100)
		}
		g.L, g.R = strconv.Itoa(l), strconv.Itoa(l+span)
	}
	switch r.Intn(6) {
	case 0:
		g.L = ""
	case 1:
		g.R = ""
	}
	return g
}

func randOptions(r *rand.Rand, k Kind) []string {
	n := 2 + r.Intn(3)
	seen := map[string]bool{}
	var out []string
	for len(out) < n {
		var s string
		switch {
		case k == String:
			s = SafeString(r)
		case k.IsFloat():
			s = FmtFloat(float64(r.Intn(41)-20) / 2)
		case k.IsUint():
			s = strconv.Itoa(r.Intn(100))
		case k.IsInt():
			s = strconv.Itoa(r.Intn(200) - 100)
		case k == Duration:
			s = []string{"1s", "2s", "5m0s", "1h0m0s", "250ms", "1m30s"}[r.Intn(6)]
		}
		if !seen[s] {
			seen[s] = true
			out = append(out, s)
		}
	}
	return out
}

// inRangeText picks a literal of kind k inside g.
func inRangeText(r *rand.Rand, k Kind, g *Range) string {
	if k.IsFloat() {
		lo, hi := -1000.0, 1000.0
		if g.L != "" {
			lo, _ = strconv.ParseFloat(g.L, 64)
		}
		if g.R != "" {
			hi, _ = strconv.ParseFloat(g.R, 64)
		}
		var c []float64
		if g.L != "" && g.LI {
			c = append(c, lo)
		}
		if g.R != "" && g.RI {
			c = append(c, hi)
		}
		c = append(c, (lo+hi)/2, lo+0.25, hi-0.25, lo+(hi-lo)*r.Float64()*0.98+0.001)
		return FmtFloat(c[r.Intn(len(c))])
	}
	blo, bhi := intBounds(k)
	if bhi.Cmp(maxInt64) > 0 {
		bhi = maxInt64
	}
	lo, hi := new(big.Int).Set(blo), new(big.Int).Set(bhi)
	if g.L != "" {
		l, _ := new(big.Int).SetString(g.L, 10)
		if !g.LI {
			l.Add(l, big.NewInt(1))
		}
		if l.Cmp(lo) > 0 {
			lo = l
		}
	}
	if g.R != "" {
		h, _ := new(big.Int).SetString(g.R, 10)
		if !g.RI {
			h.Sub(h, big.NewInt(1))
		}
		if h.Cmp(hi) < 0 {
			hi = h
		}
	}
	switch r.Intn(4) {
	case 0:
		return lo.String()
	case 1:
		return hi.String()
	}
	span := new(big.Int).Sub(hi, lo)
	span.Add(span, big.NewInt(1))
	if span.Cmp(big.NewInt(64)) > 0 && r.Intn(2) == 0 {
		span.SetInt64(64)
	}
	v := new(big.Int).Rand(r, span)
	return v.Add(v, lo).String()
}

// outOfRangeText picks a literal of kind k just outside g ("" if impossible inside the kind).
func outOfRangeText(r *rand.Rand, k Kind, g *Range) string {
	var c []string
	if k.IsFloat() {
		if g.L != "" {
			l, _ := strconv.ParseFloat(g.L, 64)
			c = append(c, FmtFloat(l-0.5), FmtFloat(l-100))
			if !g.LI {
				c = append(c, g.L)
			}
		}
		if g.R != "" {
			h, _ := strconv.ParseFloat(g.R, 64)
			c = append(c, FmtFloat(h+0.5), FmtFloat(h+100))
			if !g.RI {
				c = append(c, g.R)
			}
		}
	} else {
		blo, bhi := intBounds(k)
		add := func(v *big.Int) {
			if v.Cmp(blo) >= 0 && v.Cmp(bhi) <= 0 {
				c = append(c, v.String())
			}
		}
		if g.L != "" {
			l, _ := new(big.Int).SetString(g.L, 10)
			add(new(big.Int).Sub(l, big.NewInt(1)))
			add(new(big.Int).Sub(l, big.NewInt(7)))
			if !g.LI {
				add(l)
			}
		}
		if g.R != "" {
			h, _ := new(big.Int).SetString(g.R, 10)
			add(new(big.Int).Add(h, big.NewInt(1)))
			add(new(big.Int).Add(h, big.NewInt(7)))
			if !g.RI {
				add(h)
			}
		}
	}
	if len(c) == 0 {
		return ""
	}
	return c[r.Intn(len(c))]
}

// OverflowTexts lists number literals that cannot be held by kind k.
func OverflowTexts(k Kind) []string {
	switch {
	case k.IsInt() || k.IsUint():
		lo, hi := intBounds(k)
		out := []string{new(big.Int).Add(hi, big.NewInt(1)).String(), new(big.Int).Sub(lo, big.NewInt(1)).String(),
			"9223372036854775808", "18446744073709551616", "-9223372036854775809", "340282366920938463463374607431768211456"}
		if k.Bits() < 64 {
			out = append(out, new(big.Int).Lsh(big.NewInt(1), uint(k.Bits())).String(), // 2^bits: wraps to 0
				new(big.Int).Add(new(big.Int).Lsh(big.NewInt(1), uint(k.Bits())), big.NewInt(44)).String(),
				"300", "70000", "5000000000", "-200", "-40000", "-3000000000")
		}
		// keep only those really outside
		var f []string
		for _, s := range out {
			v, _ := new(big.Int).SetString(s, 10)
			if v.Cmp(lo) < 0 || v.Cmp(hi) > 0 {
				f = append(f, s)
			}
		}
		return f
	case k == Float32:
		return []string{"1e39", "-1e39", "3.5e38", "1e400", "-1e400", "1e308"}
	case k == Float64:
		return []string{"1e400", "-1e400", "1.8e308"}
	}
	return nil
}

func (c *Cfg) leafOpts(r *rand.Rand, k Kind, isPtr bool, sibOptional []string) (o Opts, defElems []string) {
	x := r.Intn(100)
	switch {
	case x < 24: // plain required
	case x < 42:
		o.Optional = true
	case x < 54:
		o.HasDefault = true
	case x < 64:
		if k != Bool && !(c.NoDurationOptions && k == Duration) {
			o.Options = randOptions(r, k)
			switch r.Intn(3) {
			case 0:
				o.Optional = true
			case 1:
				o.HasDefault = true
			}
		}
	case x < 78:
		if k.IsNum() {
			o.Range = RandRange(r, k)
			switch r.Intn(4) {
			case 0:
				o.Optional = true
			case 1:
				o.HasDefault = true
			}
		}
	case x < 88:
		if k != Duration && !(c.NoStringOnString && k == String) {
			o.FromString = true
			switch r.Intn(5) {
			case 0:
				o.Optional = true
			case 1:
				o.HasDefault = true
			case 2:
				if k.IsNum() {
					o.Range = RandRange(r, k)
				}
			}
		}
	case x < 92:
		if !c.NoEnv && !isPtr && k != Int64 && k != Duration {
			c.nenv++
			o.Env = fmt.Sprintf("%s_%d", c.EnvPrefix, c.nenv)
			if r.Intn(3) != 0 {
				o.EnvVal = RandLeafText(r, k)
				if o.EnvVal == "" {
					o.EnvVal = "e"
				}
			}
			if r.Intn(2) == 0 {
				o.Optional = true
			}
		}
	default:
		if !c.Conf && !c.NoDep && len(sibOptional) > 0 {
			o.Optional = true
			o.Dep = sibOptional[r.Intn(len(sibOptional))]
			o.DepNot = r.Intn(3) == 0
			if k.IsNum() && r.Intn(2) == 0 {
				o.Range = RandRange(r, k)
			}
		} else {
			o.Optional = true
		}
	}
	if o.HasDefault {
		switch {
		case len(o.Options) > 0:
			o.Default = o.Options[r.Intn(len(o.Options))]
		case o.Range != nil:
			o.Default = inRangeText(r, k, o.Range)
		case k == String:
			o.Default = SafeString(r)
		default:
			o.Default = RandLeafText(r, k)
		}
	}
	return o, nil
}

func (c *Cfg) genField(r *rand.Rand, depth int, sibOptional []string) *Field {
	f := &Field{Name: c.newName(), Key: c.newKey(r)}
	x := r.Intn(100)
	if depth >= c.MaxDepth && x >= 75 {
		x = r.Intn(75)
	}
	if c.AllStrings {
		x = r.Intn(62)
	}
	switch {
	case x < 52: // leaf
		k := randLeafKind(r)
		for c.AllStrings && k == Duration {
			k = randLeafKind(r)
		}
		f.T = L(k)
		f.O, _ = c.leafOpts(r, k, false, sibOptional)
	case x < 62: // pointer to leaf
		k := randLeafKind(r)
		for c.AllStrings && k == Duration {
			k = randLeafKind(r)
		}
		f.T = PtrTo(L(k))
		f.O, _ = c.leafOpts(r, k, true, sibOptional)
	case x < 75: // slice
		switch y := r.Intn(20); {
		case y < 12:
			k := randElemKind(r)
			f.T = SliceOf(L(k))
			switch r.Intn(5) {
			case 0:
				f.O.Optional = true
			case 1:
				if k.IsInt() || k.IsUint() || k == String || k == Float64 {
					n := 1 + r.Intn(3)
					var el []string
					for i := 0; i < n; i++ {
						if k == String {
							el = append(el, SafeString(r))
						} else {
							el = append(el, RandLeafText(r, k))
						}
					}
					f.O.HasDefault = true
					f.O.Default = "[" + strings.Join(el, ",") + "]"
				}
			}
		case y < 14:
			f.T = SliceOf(PtrTo(L(randElemKind(r))))
		case y < 16:
			f.T = SliceOf(SliceOf(L(randElemKind(r))))
		default:
			f.T = SliceOf(L(randElemKind(r)))
			if depth < c.MaxDepth {
				st := c.genStruct(r, depth+1, 1+r.Intn(3))
				switch r.Intn(6) {
				case 0, 1:
					f.T = SliceOf(PtrTo(st))
				case 2:
					f.T = SliceOf(SliceOf(st)) // containers nested directly in containers
				case 3:
					f.T = SliceOf(MapOf(st))
				default:
					f.T = SliceOf(st)
				}
			}
		}
		if !f.O.HasDefault && r.Intn(4) == 0 {
			f.O.Optional = true
		}
		if c.PtrContainers && r.Intn(2) == 0 {
			f.T = PtrTo(f.T)
		}
	case x < 84: // map
		switch y := r.Intn(20); {
		case y < 9:
			f.T = MapOf(L(randElemKind(r)))
		case y < 11:
			f.T = MapOf(AnyT()) // free-form values: must arrive unchanged
		case y < 14:
			f.T = MapOf(SliceOf(L(randElemKind(r))))
		case y < 16:
			f.T = MapOf(MapOf(L(randElemKind(r))))
		default:
			f.T = MapOf(L(randElemKind(r)))
			if depth < c.MaxDepth {
				st := c.genStruct(r, depth+1, 1+r.Intn(3))
				switch r.Intn(6) {
				case 0, 1:
					f.T = MapOf(PtrTo(st))
				case 2:
					f.T = MapOf(SliceOf(st))
				case 3:
					f.T = MapOf(MapOf(st))
				default:
					f.T = MapOf(st)
				}
			}
		}
		f.O.Optional = r.Intn(3) == 0
		if c.PtrContainers && r.Intn(2) == 0 {
			f.T = PtrTo(f.T)
		}
	case x < 93: // nested struct
		st := c.genStruct(r, depth+1, 1+r.Intn(3))
		if r.Intn(3) == 0 {
			f.T = PtrTo(st)
		} else {
			f.T = st
		}
		f.O.Optional = r.Intn(4) == 0
	default: // embedded struct (fields live in the parent's document object)
		st := c.genStructFlat(r, 1+r.Intn(3))
		f.Anonymous = true
		f.T = st
		if r.Intn(3) == 0 {
			f.T = PtrTo(st)
		}
		if r.Intn(2) == 0 {
			f.Untagged = true
		} else {
			f.Key = ""
			f.O.Optional = r.Intn(2) == 0
			if !f.O.Optional {
				f.Untagged = true
			}
		}
	}
	if !f.Anonymous && !c.AllStrings && !c.NoUntagged {
		switch r.Intn(40) {
		case 0:
			f.Untagged = true
			f.O = Opts{}
		case 1:
			f.Foreign = true
			f.O = Opts{}
		}
	}
	return f
}

// genStructFlat: leaf-only struct for embedding.
func (c *Cfg) genStructFlat(r *rand.Rand, n int) *Type {
	t := &Type{K: Struct}
	for i := 0; i < n; i++ {
		k := randLeafKind(r)
		f := &Field{Name: c.newName(), Key: c.newKey(r), T: L(k)}
		switch r.Intn(4) {
		case 0:
			f.O.Optional = true
		case 1:
			f.O.HasDefault = true
			if k == String {
				f.O.Default = SafeString(r)
			} else {
				f.O.Default = RandLeafText(r, k)
			}
		}
		t.Fields = append(t.Fields, f)
	}
	return t
}

func (c *Cfg) genStruct(r *rand.Rand, depth, n int) *Type {
	t := &Type{K: Struct}
	var sibOptional []string
	for i := 0; i < n; i++ {
		f := c.genField(r, depth, sibOptional)
		t.Fields = append(t.Fields, f)
		if !f.Anonymous && !f.Untagged && !f.Foreign && f.T.K.IsLeaf() && f.O.Optional && f.O.Dep == "" && f.O.Env == "" {
			sibOptional = append(sibOptional, f.Key)
		}
	}
	return t
}

// RandShape draws a struct shape.
func RandShape(r *rand.Rand, c Cfg) *Shape {
	if c.MaxDepth == 0 {
		c.MaxDepth = 2
	}
	return &Shape{Root: c.genStruct(r, 0, 1+r.Intn(6)), TagKey: c.TagKey}
}

// ---------------------------------------------------------------------------
// valid documents with their expected struct

// Site is one field occurrence in a generated document.
type Site struct {
	F             *Field
	M             map[string]any // document object holding the key
	Present       bool
	Path          string
	InOptEmbedded bool // field of an optional embedded struct: removing it may legitimately make the whole struct absent
}

// Case is a valid document for a shape plus the struct it must produce.
type Case struct {
	Shape      *Shape
	Doc        map[string]any
	Expect     reflect.Value // pointer to struct
	Env        map[string]string
	Sites      []*Site
	Conf       bool
	AllStrings bool
}

func genLeafText(r *rand.Rand, k Kind, o Opts) string {
	switch {
	case len(o.Options) > 0:
		return o.Options[r.Intn(len(o.Options))]
	case o.Range != nil && k.IsNum():
		return inRangeText(r, k, o.Range)
	}
	t := RandLeafText(r, k)
	if o.FromString && k == Bool && r.Intn(3) == 0 {
		return []string{"1", "0", "TRUE", "False"}[r.Intn(4)]
	}
	return t
}

func mustParse(k Kind, text string) reflect.Value {
	v, ok := ParseLeaf(k, text)
	if !ok {
		panic(fmt.Sprintf("c05gen: generator produced an invalid %s literal %q", k, text))
	}
	return v
}

func (c *Case) genValue(r *rand.Rand, t *Type, o Opts, dst reflect.Value, path string, depth int) any {
	switch t.K {
	case Ptr:
		dst.Set(reflect.New(dst.Type().Elem()))
		return c.genValue(r, t.Elem, o, dst.Elem(), path, depth)
	case Slice:
		n := r.Intn(4)
		if r.Intn(6) == 0 {
			n = 0
		}
		s := reflect.MakeSlice(dst.Type(), n, n)
		arr := make([]any, n)
		for i := 0; i < n; i++ {
			arr[i] = c.genValue(r, t.Elem, Opts{}, s.Index(i), fmt.Sprintf("%s[%d]", path, i), depth+1)
		}
		dst.Set(s)
		return arr
	case Map:
		n := r.Intn(4)
		mv := reflect.MakeMapWithSize(dst.Type(), n)
		mm := map[string]any{}
		for i := 0; i < n; i++ {
			var k string
			if c.Conf {
				k = strings.ToLower(SafeString(r))
				if k[0] >= '0' && k[0] <= '9' {
					k = "k" + k
				}
				k = strings.NewReplacer("_", "", "-", "", ".", "").Replace(k)
			} else {
				k = RandString(r)
				if r.Intn(2) == 0 {
					k = SafeString(r)
				}
			}
			if _, dup := mm[k]; dup {
				continue
			}
			ev := reflect.New(dst.Type().Elem()).Elem()
			mm[k] = c.genValue(r, t.Elem, Opts{}, ev, fmt.Sprintf("%s[%q]", path, k), depth+1)
			mv.SetMapIndex(reflect.ValueOf(k), ev)
		}
		dst.Set(mv)
		return mm
	case Struct:
		mm := map[string]any{}
		c.genStructDoc(r, t, dst, mm, path, depth+1)
		return mm
	case Any:
		d := 2
		if c.Conf {
			d = 0 // the config loader rewrites the keys of free-form objects too: scalars and arrays only
		}
		node := randFree(r, d, c.Conf)
		if node != nil {
			dst.Set(reflect.ValueOf(node))
		}
		return node
	}
	text := genLeafText(r, t.K, o)
	dst.Set(mustParse(t.K, text))
	return LeafDoc(t.K, text, o.FromString || c.AllStrings)
}

func (c *Case) setDefault(f *Field, dst reflect.Value) {
	t := f.T
	if t.K == Ptr {
		dst.Set(reflect.New(dst.Type().Elem()))
		t, dst = t.Elem, dst.Elem()
	}
	switch {
	case t.K.IsLeaf():
		dst.Set(mustParse(t.K, f.O.Default))
	case t.K == Slice:
		el := ParseDefaultList(f.O.Default)
		s := reflect.MakeSlice(dst.Type(), len(el), len(el))
		for i, e := range el {
			s.Index(i).Set(mustParse(t.Elem.K, e))
		}
		dst.Set(s)
	}
}

func (c *Case) genStructDoc(r *rand.Rand, t *Type, dst reflect.Value, doc map[string]any, path string, depth int) {
	c.genStructDocE(r, t, dst, doc, path, depth, false)
}

func (c *Case) genStructDocE(r *rand.Rand, t *Type, dst reflect.Value, doc map[string]any, path string, depth int, optEmb bool) {
	present := map[string]bool{}
	for i, f := range t.Fields {
		fv := dst.Field(i)
		if f.Foreign {
			continue
		}
		if f.Anonymous {
			if f.O.Optional && r.Intn(2) == 0 {
				continue
			}
			st := f.T
			if st.K == Ptr {
				fv.Set(reflect.New(fv.Type().Elem()))
				st, fv = st.Elem, fv.Elem()
			}
			c.genStructDocE(r, st, fv, doc, path, depth, f.O.Optional)
			if f.O.Optional && !anyKeyPresent(st, doc) {
				// no key of the optional embedded struct is in the document: it counts as absent
				dst.Field(i).Set(reflect.Zero(dst.Field(i).Type()))
			}
			continue
		}
		key := f.DocKey()
		p := path + "." + key
		site := &Site{F: f, M: doc, Path: p, InOptEmbedded: optEmb}
		c.Sites = append(c.Sites, site)
		if f.O.Env != "" && f.O.EnvVal != "" {
			// env var set: it overrides the document
			text := f.O.EnvVal
			fv.Set(mustParse(f.T.K, text))
			if r.Intn(2) == 0 {
				site.Present = true
				doc[key] = c.genValue(r, f.T, f.O, reflect.New(fv.Type()).Elem(), p, depth)
			}
			continue
		}
		var on bool
		switch {
		case f.O.Dep != "" && f.O.DepNot:
			on = !present[f.O.Dep]
		case f.O.Dep != "":
			on = present[f.O.Dep]
		case f.O.Optional:
			on = r.Intn(2) == 0 || (c.Shape.ConstrainedPresent && (f.O.Range != nil || len(f.O.Options) > 0 || f.T.K == Struct))
		case f.O.HasDefault:
			// inside an optional embedded struct the library wants all-or-nothing of the non-optional fields
			on = optEmb || r.Intn(5) < 2
		default:
			on = true
		}
		if on {
			present[key] = true
			site.Present = true
			doc[key] = c.genValue(r, f.T, f.O, fv, p, depth)
		} else if f.O.HasDefault {
			c.setDefault(f, fv)
		}
	}
}

// ValidCase draws a document that satisfies every declared constraint of the shape.
func ValidCase(r *rand.Rand, s *Shape, conf, allStrings bool) *Case {
	c := &Case{Shape: s, Doc: map[string]any{}, Expect: s.New(), Env: map[string]string{}, Conf: conf, AllStrings: allStrings}
	var walk func(t *Type)
	walk = func(t *Type) {
		switch t.K {
		case Ptr, Slice, Map:
			walk(t.Elem)
		case Struct:
			for _, f := range t.Fields {
				if f.O.Env != "" && f.O.EnvVal != "" {
					c.Env[f.O.Env] = f.O.EnvVal
				}
				walk(f.T)
			}
		}
	}
	walk(s.Root)
	c.genStructDoc(r, s.Root, c.Expect.Elem(), c.Doc, "", 0)
	return c
}

// ---------------------------------------------------------------------------
// single faults (must be rejected) and adversarial mutations (error or exact)

// Fault is one mutation of a valid document.
type Fault struct {
	Kind    string // required-absent null-required null-optional out-of-range not-in-options overflow overflow-elem adversarial
	Site    *Site
	MustErr bool
	Desc    string
	undo    func()
}

func (f *Fault) Undo() {
	if f.undo != nil {
		f.undo()
	}
}

func setKey(m map[string]any, key string, v any, del bool) func() {
	old, had := m[key]
	if del {
		delete(m, key)
	} else {
		m[key] = v
	}
	return func() {
		if had {
			m[key] = old
		} else {
			delete(m, key)
		}
	}
}

func hasDirectRequiredLeaf(t *Type) bool {
	if t.K == Ptr {
		t = t.Elem
	}
	for _, f := range t.Fields {
		if f.Foreign || f.Anonymous {
			continue
		}
		ft := f.T
		if ft.K == Ptr {
			ft = ft.Elem
		}
		if (ft.K.IsLeaf() || ft.K == Slice) && !f.O.Optional && !f.O.HasDefault && f.O.Env == "" {
			return true
		}
	}
	return false
}

func requirable(t *Type) bool {
	bt := t
	if bt.K == Ptr {
		bt = bt.Elem
	}
	switch {
	case bt.K.IsLeaf(), bt.K == Slice:
		return true
	case bt.K == Struct:
		return hasDirectRequiredLeaf(bt)
	}
	return false
}

// envActive tells whether the site's field is currently fed from the environment.
func (c *Case) envActive(s *Site) bool { return s.F.O.Env != "" && c.Env[s.F.O.Env] != "" }

// dependedOn: some sibling declares optional=<key>; removing/adding the key changes their requiredness.
func dependedOn(c *Case, s *Site) bool {
	for _, o := range c.Sites {
		if o.F.O.Dep == s.F.DocKey() && sameMap(o.M, s.M) {
			return true
		}
	}
	return false
}

func sameMap(a, b map[string]any) bool {
	return reflect.ValueOf(a).Pointer() == reflect.ValueOf(b).Pointer()
}

// InjectFault applies one random must-fail fault in place; nil if the case offers no site.
func (c *Case) InjectFault(r *rand.Rand) *Fault {
	type cand struct {
		kind string
		s    *Site
	}
	var cs []cand
	for _, s := range c.Sites {
		f := s.F
		if c.envActive(s) || f.O.Dep != "" || s.InOptEmbedded {
			continue
		}
		lt := f.T
		if lt.K == Ptr {
			lt = lt.Elem
		}
		if s.Present && !f.O.Optional && !f.O.HasDefault && requirable(f.T) && !f.Untagged {
			cs = append(cs, cand{"required-absent", s}, cand{"null-required", s})
		}
		if s.Present && f.Untagged && requirable(f.T) {
			cs = append(cs, cand{"required-absent", s})
		}
		if s.Present && f.O.Optional {
			cs = append(cs, cand{"null-optional", s})
		}
		if lt.K.IsLeaf() {
			if f.O.Range != nil && lt.K.IsNum() {
				cs = append(cs, cand{"out-of-range", s}, cand{"out-of-range", s})
			}
			if len(f.O.Options) > 0 {
				cs = append(cs, cand{"not-in-options", s}, cand{"not-in-options", s})
			}
			if lt.K.IsNum() {
				cs = append(cs, cand{"overflow", s})
			}
		}
		if (lt.K == Slice || lt.K == Map) && s.Present {
			et := lt.Elem
			if et.K == Ptr {
				et = et.Elem
			}
			if et.K.IsNum() {
				cs = append(cs, cand{"overflow-elem", s})
			}
		}
	}
	// sites with optional=dep: only range faults (the dependency itself is not in the statement)
	for _, s := range c.Sites {
		f := s.F
		if f.O.Dep != "" && s.Present && f.O.Range != nil && !c.envActive(s) {
			cs = append(cs, cand{"out-of-range", s}, cand{"out-of-range", s})
		}
	}
	if len(cs) == 0 {
		return nil
	}
	ch := cs[r.Intn(len(cs))]
	s, f := ch.s, ch.s.F
	key := f.DocKey()
	lt := f.T
	if lt.K == Ptr {
		lt = lt.Elem
	}
	ft := &Fault{Kind: ch.kind, Site: s, MustErr: true}
	switch ch.kind {
	case "required-absent":
		ft.undo = setKey(s.M, key, nil, true)
		ft.Desc = fmt.Sprintf("required %s (%s) removed", s.Path, f.FieldSig())
	case "null-required":
		ft.undo = setKey(s.M, key, nil, false)
		ft.Desc = fmt.Sprintf("required %s (%s) set to null", s.Path, f.FieldSig())
	case "null-optional":
		ft.MustErr = false
		ft.undo = setKey(s.M, key, nil, false)
		ft.Desc = fmt.Sprintf("optional %s (%s) set to null", s.Path, f.FieldSig())
	case "out-of-range":
		text := outOfRangeText(r, lt.K, f.O.Range)
		if text == "" {
			return nil
		}
		ft.undo = setKey(s.M, key, LeafDoc(lt.K, text, f.O.FromString || c.AllStrings), false)
		ft.Desc = fmt.Sprintf("%s (%s) = %s outside %s", s.Path, f.FieldSig(), text, f.O.Range)
	case "not-in-options":
		var text string
		switch {
		case lt.K == String:
			text = f.O.Options[0] + "x"
			for member := true; member; {
				member = false
				for _, op := range f.O.Options {
					if op == text {
						member = true
						text += "x"
					}
				}
			}
		case lt.K == Duration:
			text = "7h0m0s"
		case lt.K.IsFloat():
			text = "1234.25"
		case lt.K.IsUint():
			text = "101"
		default:
			text = "101"
		}
		ft.undo = setKey(s.M, key, LeafDoc(lt.K, text, f.O.FromString || c.AllStrings), false)
		ft.Desc = fmt.Sprintf("%s (%s) = %s not in %v", s.Path, f.FieldSig(), text, f.O.Options)
	case "overflow":
		ov := OverflowTexts(lt.K)
		text := ov[r.Intn(len(ov))]
		ft.undo = setKey(s.M, key, LeafDoc(lt.K, text, f.O.FromString || c.AllStrings), false)
		ft.Desc = fmt.Sprintf("%s (%s) = %s does not fit %s", s.Path, f.FieldSig(), text, lt.K)
	case "overflow-elem":
		et := lt.Elem
		if et.K == Ptr {
			et = et.Elem
		}
		ov := OverflowTexts(et.K)
		text := ov[r.Intn(len(ov))]
		if lt.K == Slice {
			old, _ := s.M[key].([]any)
			na := append(append([]any{}, old...), json.Number(text))
			r.Shuffle(len(na), func(i, j int) { na[i], na[j] = na[j], na[i] })
			ft.undo = setKey(s.M, key, na, false)
		} else {
			old, _ := s.M[key].(map[string]any)
			nm := map[string]any{}
			for k, v := range old {
				nm[k] = v
			}
			nm["ovf"] = json.Number(text)
			ft.undo = setKey(s.M, key, nm, false)
		}
		ft.Desc = fmt.Sprintf("%s (%s) gets element %s that does not fit %s", s.Path, f.FieldSig(), text, et.K)
	}
	return ft
}

var oddNumbers = []string{"0", "-0", "1", "-1", "1.0", "1e2", "1E+2", "1e-2", "0.5", "1.5", "-1.5", "2.5e-45", "1e-400",
	"127", "128", "-128", "-129", "255", "256", "32767", "32768", "65535", "65536", "2147483647", "2147483648", "4294967295", "4294967296",
	"9223372036854775807", "9223372036854775808", "-9223372036854775808", "-9223372036854775809", "18446744073709551615", "18446744073709551616",
	"9007199254740993", "123456789012345678901234567890", "0.1000000000000000055511151231257827", "3.4028235e38", "3.4028236e38", "3.5e38", "1e39", "1e400", "-1e400",
	"1.7976931348623157e308", "1e308", "16777217", "0.30000000000000004", "300", "70000", "1e3", "12.0", "1.00000000000000000001"}

// RandNode draws an arbitrary JSON value.
func RandNode(r *rand.Rand, depth int, keys []string) any {
	x := r.Intn(100)
	if depth <= 0 && x >= 70 {
		x = r.Intn(70)
	}
	switch {
	case x < 8:
		return nil
	case x < 18:
		return r.Intn(2) == 0
	case x < 45:
		return json.Number(oddNumbers[r.Intn(len(oddNumbers))])
	case x < 70:
		if r.Intn(3) == 0 {
			return oddNumbers[r.Intn(len(oddNumbers))]
		}
		return RandString(r)
	case x < 84:
		n := r.Intn(4)
		arr := make([]any, n)
		for i := range arr {
			arr[i] = RandNode(r, depth-1, keys)
		}
		return arr
	case x < 97:
		n := r.Intn(4)
		m := map[string]any{}
		for i := 0; i < n; i++ {
			k := RandString(r)
			if len(keys) > 0 && r.Intn(3) != 0 {
				k = keys[r.Intn(len(keys))]
			}
			m[k] = RandNode(r, depth-1, keys)
		}
		return m
	default:
		// deep nesting
		d := 20 + r.Intn(400)
		var v any = json.Number("1")
		for i := 0; i < d; i++ {
			if r.Intn(2) == 0 {
				v = []any{v}
			} else {
				v = map[string]any{"a": v}
			}
		}
		return v
	}
}

func (s *Shape) allKeys() []string {
	var out []string
	var walk func(t *Type)
	walk = func(t *Type) {
		switch t.K {
		case Ptr, Slice, Map:
			walk(t.Elem)
		case Struct:
			for _, f := range t.Fields {
				out = append(out, f.DocKey())
				walk(f.T)
			}
		}
	}
	walk(s.Root)
	return out
}

// Mutate applies 1-3 adversarial replacements in place (error-or-exact class).
func (c *Case) Mutate(r *rand.Rand) *Fault {
	ft := &Fault{Kind: "adversarial"}
	var undos []func()
	var desc []string
	keys := c.Shape.allKeys()
	n := 1 + r.Intn(3)
	for i := 0; i < n && len(c.Sites) > 0; i++ {
		s := c.Sites[r.Intn(len(c.Sites))]
		key := s.F.DocKey()
		var nv any
		lt := s.F.T
		if lt.K == Ptr {
			lt = lt.Elem
		}
		switch x := r.Intn(10); {
		case x < 3 && lt.K.IsNum():
			// numeric oddities for numeric fields, as number or as string
			text := oddNumbers[r.Intn(len(oddNumbers))]
			if s.F.O.FromString || r.Intn(6) == 0 {
				nv = text
			} else {
				nv = json.Number(text)
			}
		case x < 5 && len(c.Sites) > 1:
			// value of another field
			o := c.Sites[r.Intn(len(c.Sites))]
			if ov, ok := o.M[o.F.DocKey()]; ok {
				nv = Clone(ov)
			} else {
				nv = RandNode(r, 2, keys)
			}
		case x < 7 && (lt.K == Slice || lt.K == Map || lt.K == Struct):
			// container with arbitrary members
			if lt.K == Slice {
				m := r.Intn(4)
				arr := make([]any, m)
				for j := range arr {
					arr[j] = RandNode(r, 2, keys)
				}
				nv = arr
			} else {
				mm := map[string]any{}
				for j := r.Intn(4); j > 0; j-- {
					k := RandString(r)
					if len(keys) > 0 && r.Intn(2) == 0 {
						k = keys[r.Intn(len(keys))]
					}
					mm[k] = RandNode(r, 2, keys)
				}
				nv = mm
			}
		default:
			nv = RandNode(r, 3, keys)
		}
		undos = append(undos, setKey(s.M, key, nv, false))
		d := string(JSON(nv))
		if len(d) > 120 {
			d = d[:120] + "…"
		}
		desc = append(desc, fmt.Sprintf("%s(%s)=%s", s.Path, s.F.FieldSig(), d))
	}
	if r.Intn(10) == 0 {
		k := RandString(r)
		undos = append(undos, setKey(c.Doc, k, RandNode(r, 2, keys), false))
		desc = append(desc, "extra key "+strconv.Quote(k))
	}
	ft.Desc = strings.Join(desc, "; ")
	ft.undo = func() {
		for i := len(undos) - 1; i >= 0; i-- {
			undos[i]()
		}
	}
	return ft
}

// ---------------------------------------------------------------------------
// key variants for lib/conf

func snake(key string) string {
	var b strings.Builder
	for i, c := range key {
		if c >= 'A' && c <= 'Z' {
			if i > 0 {
				b.WriteByte('_')
			}
			b.WriteRune(c + 32)
		} else {
			b.WriteRune(c)
		}
	}
	return b.String()
}

func flipInitial(key string) string {
	if key == "" {
		return key
	}
	c := key[0]
	switch {
	case c >= 'a' && c <= 'z':
		return string(c-32) + key[1:]
	case c >= 'A' && c <= 'Z':
		return string(c+32) + key[1:]
	}
	return key
}

// KeyVariant rewrites the struct keys of a document (not the keys of map-typed data)
// to snake_case ("snake"), flipped initial case ("flip") or a per-key random mix ("mix").
func KeyVariant(r *rand.Rand, t *Type, doc map[string]any, mode string) map[string]any {
	out := map[string]any{}
	fields := map[string]*Field{}
	var collect func(t *Type)
	collect = func(t *Type) {
		if t.K == Ptr {
			t = t.Elem
		}
		for _, f := range t.Fields {
			if f.Anonymous {
				collect(f.T)
				continue
			}
			fields[f.DocKey()] = f
		}
	}
	collect(t)
	for k, v := range doc {
		f := fields[k]
		nk := k
		m := mode
		if m == "mix" {
			m = []string{"snake", "flip", "same"}[r.Intn(3)]
		}
		if f != nil {
			switch m {
			case "snake":
				nk = snake(k)
			case "flip":
				nk = flipInitial(k)
			case "upper":
				nk = strings.ToUpper(k)
			}
		}
		if f != nil {
			v = variantValue(r, f.T, v, mode)
		}
		out[nk] = v
	}
	return out
}

func variantValue(r *rand.Rand, t *Type, v any, mode string) any {
	switch t.K {
	case Ptr:
		return variantValue(r, t.Elem, v, mode)
	case Struct:
		if m, ok := v.(map[string]any); ok {
			return KeyVariant(r, t, m, mode)
		}
	case Slice:
		if a, ok := v.([]any); ok {
			na := make([]any, len(a))
			for i := range a {
				na[i] = variantValue(r, t.Elem, a[i], mode)
			}
			return na
		}
	case Map:
		if m, ok := v.(map[string]any); ok {
			nm := map[string]any{}
			for k, c := range m {
				nm[k] = variantValue(r, t.Elem, c, mode)
			}
			return nm
		}
	}
	return v
}

var _ = math.MaxInt8

// YAMLExact reports whether every number literal of the tree denotes a value that a
// YAML 1.1 reader (int64 / uint64 / float64 scalars) holds exactly, i.e. JSON and YAML
// read the same number. Only such trees are fed to the YAML entry points.
func YAMLExact(v any) bool {
	switch x := v.(type) {
	case json.Number:
		s := string(x)
		if _, err := strconv.ParseInt(s, 10, 64); err == nil {
			return s != "-0"
		}
		if _, err := strconv.ParseUint(s, 10, 64); err == nil {
			return true
		}
		f, err := strconv.ParseFloat(s, 64)
		if err != nil || math.IsInf(f, 0) {
			return false
		}
		r, ok := parseRat(s)
		if !ok {
			return false
		}
		fr := new(big.Rat)
		if fr.SetFloat64(f) == nil || fr.Cmp(r) != 0 {
			return false
		}
		// a YAML->JSON bridge has to print the float64 again: only values whose shortest
		// round-trip decimal is the exact value survive that textually (2^64 does not: ...552000)
		sr, ok := parseRat(strconv.FormatFloat(f, 'f', -1, 64))
		return ok && sr.Cmp(r) == 0
	case map[string]any:
		for _, c := range x {
			if !YAMLExact(c) {
				return false
			}
		}
	case []any:
		for _, c := range x {
			if !YAMLExact(c) {
				return false
			}
		}
	}
	return true
}

// YAMLCanonical: YAMLExact and every integer-valued number is spelled as a plain decimal
// integer (1e2 or 1.0 are integers to a YAML reader but floats to a JSON reader): the
// spelling in which "the same content" is well defined for both.
func YAMLCanonical(v any) bool {
	switch x := v.(type) {
	case json.Number:
		s := string(x)
		if !YAMLExact(x) {
			return false
		}
		if r, ok := parseRat(s); ok && r.IsInt() {
			return !strings.ContainsAny(s, ".eE")
		}
		return true
	case map[string]any:
		for _, c := range x {
			if !YAMLCanonical(c) {
				return false
			}
		}
	case []any:
		for _, c := range x {
			if !YAMLCanonical(c) {
				return false
			}
		}
	}
	return true
}

// RandOptions declares 2-4 options for a leaf kind.
func RandOptions(r *rand.Rand, k Kind) []string { return randOptions(r, k) }

// numbers every reader (JSON, YAML) holds exactly; spellings may differ after a YAML round (1e3 -> 1000)
var freeNumbers = []string{"0", "1", "-1", "255", "-129", "65536", "9223372036854775807", "-9223372036854775808", "9223372036854775808", "18446744073709551615",
	"0.5", "-1.5", "0.25", "1e3", "12.0", "1E+2", "1024.125", "3"}

// randFree draws a free-form JSON value (for interface-typed fields).
func randFree(r *rand.Rand, depth int, noObjects bool) any {
	x := r.Intn(100)
	if depth <= 0 && x >= 70 {
		x = r.Intn(70)
	}
	switch {
	case x < 6:
		return nil
	case x < 16:
		return r.Intn(2) == 0
	case x < 45:
		return json.Number(freeNumbers[r.Intn(len(freeNumbers))])
	case x < 70:
		return RandString(r)
	case x < 85 || noObjects:
		n := r.Intn(4)
		arr := make([]any, n)
		for i := range arr {
			arr[i] = randFree(r, depth-1, noObjects)
		}
		return arr
	default:
		m := map[string]any{}
		for i, n := 0, r.Intn(4); i < n; i++ {
			m[RandString(r)] = randFree(r, depth-1, noObjects)
		}
		return m
	}
}

// OutOfRangeText picks a literal of kind k just outside g ("" if there is none inside the kind).
func OutOfRangeText(r *rand.Rand, k Kind, g *Range) string { return outOfRangeText(r, k, g) }
