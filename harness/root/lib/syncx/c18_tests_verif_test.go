//go:build verif

package syncx

// C18 — test entry points. TestVerifC18Plain* run without the race detector and
// carry the large case counts; TestVerifC18Race* run the same workloads (half the
// cases) in the separate -race run. Case counts are fixed per tier (vk.N); the
// GOMAXPROCS sweep {4,1,16,2} is done inside each test, block by block.

import (
	"testing"

	"github.com/gotid/god/lib/timex"
	"verif.local/vk"
)

func c18N(quick, thorough int, race bool) int {
	n := vk.N(quick, thorough)
	if race {
		n /= 2
	}
	if n < 8 {
		n = 8
	}
	return n
}

// c18Loop runs n cases of one kind. gen must always be called (it consumes the
// PRNG) so that --replay of one case regenerates the same scenario.
func c18Loop(m *vk.M, idx *int, n int, body func(i, procs int) bool) bool {
	for i := 1; i <= n; i++ {
		*idx++
		procs := c18SetProcs(i, n)
		if !body(*idx, procs) {
			return false
		}
		if *idx%500 == 0 {
			m.Progress()
		}
	}
	return true
}

const c18RuleFlight = "seeded concurrent histories (2-64 goroutines, 1-3 keys, random yields/spins/sleeps in and around callbacks, GOMAXPROCS 1/2/4/16): SingleFlight (executions of a key never overlap; every result is that of an execution performed by an overlapping call; DoEx fresh <=> executed), LockedCalls (every call executes exactly once, own result, executions of a key never overlap), ResourceManager (<=1 resource per key, same instance for all callers, Close closes each exactly once), ManagedResource (generate never concurrent; a resource marked broken is never returned by a later Take; a resource is replaced only after MarkBroken was called with that very resource — random scripts plus lock-step rounds of MarkBroken(held)+Take from 2-8 goroutines); two-instance gated schedules (a call of instance A parked inside its callback while an independent instance B is called with the same key: B runs its own callbacks, returns its own results, ResourceManager B creates and closes only its own resource); half of the scenarios contain panicking callbacks / create / generate functions recovered by the calling goroutine (waiters of a panicked flight return, later calls execute afresh; a locked call still parked 25 s after a panicked predecessor of its key returned is a violation); non-trivial = a call was served by another call's execution / same-key calls overlapped / a Get was served without creating / a regeneration happened"

func c18Flight(t *testing.T, race bool) {
	m := vk.New(t, "C18", c18RuleFlight)
	defer m.Done()
	defer c18RestoreProcs()()
	timex.VerifRealClock()
	idx := 0
	r := m.Rand("flight")
	ok := c18Loop(m, &idx, c18N(900, 13500, race), func(i, procs int) bool {
		sc := c18GenFlight(r, "sf")
		sc.Procs = procs
		return !m.Only(i) || c18RunFlight(m, i, sc)
	}) && c18Loop(m, &idx, c18N(500, 7500, race), func(i, procs int) bool {
		sc := c18GenFlight(r, "lc")
		sc.Procs = procs
		return !m.Only(i) || c18RunFlight(m, i, sc)
	}) && c18Loop(m, &idx, c18N(300, 4500, race), func(i, procs int) bool {
		sc := c18GenRM(r)
		sc.Procs = procs
		return !m.Only(i) || c18RunRM(m, i, sc)
	}) && c18Loop(m, &idx, c18N(300, 4500, race), func(i, procs int) bool {
		sc := c18GenMR(r)
		sc.Procs = procs
		return !m.Only(i) || c18RunMR(m, i, sc)
	}) && c18Loop(m, &idx, c18N(48, 720, race), func(i, procs int) bool {
		sc := c18GenMRRounds(r)
		sc.Procs = procs
		if race { // spinning barriers are slow under the race detector
			sc.Rounds = 40 + sc.Rounds/4
		}
		return !m.Only(i) || c18RunMR(m, i, sc)
	}) && c18Loop(m, &idx, c18N(240, 3600, race), func(i, procs int) bool {
		sc := c18GenIso(r)
		sc.Procs = procs
		return !m.Only(i) || c18RunIso(m, i, sc)
	})
	if !ok {
		m.Note("stopped early after a watchdog fired")
	}
}

const c18RuleLimit = "seeded concurrent histories of Borrow/TryBorrow/Return on Limit and TimeoutLimit (n 1-3, 2-6 free-form clients incl. stray Returns, <=70 ops) checked with porcupine against the outstanding-counter specification (completed Borrow only where outstanding<n, TryBorrow refused only when full, Return an error exactly when nothing is outstanding, ErrTimeout legal anywhere); balanced workloads (up to 64 goroutines) additionally by a caller-side outstanding gauge <= n and an exact capacity probe at quiescence; ErrTimeout never earlier than timeout-2ms at the caller; lock-step rounds of 2-6 goroutines returning concurrently for 1..n outstanding borrows (exactly that many Returns succeed, none blocks: a goroutine parked in Limit.Return after 25 s is a violation); non-trivial = a TryBorrow/Return was refused or a timeout fired"

func c18Limit(t *testing.T, race bool) {
	m := vk.New(t, "C18", c18RuleLimit)
	defer m.Done()
	defer c18RestoreProcs()()
	timex.VerifRealClock()
	idx := 0
	r := m.Rand("limit")
	ok := c18Loop(m, &idx, c18N(800, 12000, race), func(i, procs int) bool {
		sc := c18GenLimit(r, false)
		sc.Procs = procs
		return !m.Only(i) || c18RunLimit(m, i, sc)
	}) && c18Loop(m, &idx, c18N(300, 3000, race), func(i, procs int) bool {
		sc := c18GenLimit(r, true)
		sc.Procs = procs
		return !m.Only(i) || c18RunLimit(m, i, sc)
	}) && c18Loop(m, &idx, c18N(60, 600, race), func(i, procs int) bool {
		sc := c18GenLimitContention(r)
		sc.Procs = procs
		return !m.Only(i) || c18RunLimit(m, i, sc)
	}) && c18Loop(m, &idx, c18N(60, 900, race), func(i, procs int) bool {
		sc := c18GenDbl(r)
		sc.Procs = procs
		if race && sc.Rounds > 20 { // spinning barriers are slow under the race detector
			sc.Rounds = 20 + sc.Rounds/4
		}
		return !m.Only(i) || c18RunDbl(m, i, sc)
	})
	if !ok {
		m.Note("stopped early after a watchdog fired")
	}
}

const c18RulePool = "Pool with unique resource ids: concurrent Get/hold/Put histories (limit 1-4, 1-6 clients, optional maxAge with a concurrent virtual-clock client) checked by caller-side holder flags (never two holders), create/destroy gauge (live <= limit), destroyed ids never handed out again, and porcupine against (held, idle, destroyed, virtual now, last-used); plus exact sequential Get/Put/advance walks under the virtual clock (a resource idle > maxAge is never returned); non-trivial = a resource was reused or destroyed"

func c18Pool(t *testing.T, race bool) {
	m := vk.New(t, "C18", c18RulePool)
	defer m.Done()
	defer c18RestoreProcs()()
	defer timex.VerifRealClock()
	idx := 0
	r := m.Rand("pool")
	ok := c18Loop(m, &idx, c18N(600, 9000, race), func(i, procs int) bool {
		sc := c18GenPool(r, false)
		sc.Procs = procs
		return !m.Only(i) || c18RunPool(m, i, sc)
	}) && c18Loop(m, &idx, c18N(600, 9000, race), func(i, procs int) bool {
		sc := c18GenPool(r, true)
		sc.Procs = procs
		return !m.Only(i) || c18RunPool(m, i, sc)
	}) && c18Loop(m, &idx, c18N(400, 6000, race), func(i, procs int) bool {
		sc := c18GenPoolSeq(r)
		return !m.Only(i) || c18RunPoolSeq(m, i, sc)
	})
	if !ok {
		m.Note("stopped early after a watchdog fired")
	}
}

const c18RuleMisc = "RefResource: concurrent Use/Clean histories (clients clean only what they used; 1-6 clients <=70 ops with porcupine, up to 48 with direct oracles): clean callback at most once, never while a caller holds a use, Use begun after it is refused, callback has run once all uses are returned; SpinLock/Barrier/Guard: never two goroutines inside, no lost update; OnceGuard: exactly one Take wins; DoneChan: concurrent Close never panics, Done ready after Close and not before; ImmutableResource (virtual clock, sequential): no refetch within the refresh interval after a failure, never after success"

func c18Misc(t *testing.T, race bool) {
	m := vk.New(t, "C18", c18RuleMisc)
	defer m.Done()
	defer c18RestoreProcs()()
	defer timex.VerifRealClock()
	idx := 0
	r := m.Rand("misc")
	ok := c18Loop(m, &idx, c18N(700, 10500, race), func(i, procs int) bool {
		sc := c18GenRef(r)
		sc.Procs = procs
		return !m.Only(i) || c18RunRef(m, i, sc)
	}) && c18Loop(m, &idx, c18N(160, 2400, race), func(i, procs int) bool {
		sc := c18GenLock(r)
		sc.Procs = procs
		return !m.Only(i) || c18RunLock(m, i, sc)
	}) && c18Loop(m, &idx, c18N(160, 2400, race), func(i, procs int) bool {
		sc := c18GenOnce(r)
		sc.Procs = procs
		if race { // spinning barriers are slow under the race detector
			sc.Rounds = 10 + sc.Rounds/8
		}
		return !m.Only(i) || c18RunOnce(m, i, sc)
	}) && c18Loop(m, &idx, c18N(200, 3000, race), func(i, procs int) bool {
		sc := c18GenImm(r)
		return !m.Only(i) || c18RunImm(m, i, sc)
	})
	if !ok {
		m.Note("stopped early after a watchdog fired")
	}
}

func TestVerifC18PlainFlight(t *testing.T) { c18Flight(t, false) }
func TestVerifC18PlainLimit(t *testing.T)  { c18Limit(t, false) }
func TestVerifC18PlainPool(t *testing.T)   { c18Pool(t, false) }
func TestVerifC18PlainMisc(t *testing.T)   { c18Misc(t, false) }

func TestVerifC18RaceFlight(t *testing.T) { c18Flight(t, true) }
func TestVerifC18RaceLimit(t *testing.T)  { c18Limit(t, true) }
func TestVerifC18RacePool(t *testing.T)   { c18Pool(t, true) }
func TestVerifC18RaceMisc(t *testing.T)   { c18Misc(t, true) }
