//go:build verif

package syncx

// C18 — counter boundaries. The statement quantifies over every number of goroutines /
// outstanding uses; the counters behind the primitives (RefResource uses, Limit borrows,
// Pool live resources, sharers / queued callers of one flight) are driven to 2^8, 2^15 and
// 2^16 (+-1) outstanding holders — sequentially wherever no goroutine is needed, so the
// whole family costs milliseconds.

import (
	"fmt"
	"sync"
	"sync/atomic"
	"testing"
	"time"

	"verif.local/vk"
)

var c18CountSizes = []int{255, 256, 257, 32767, 32768, 32769, 65535, 65536, 65537}

// c18CountRef: k sequential Use calls, then k Clean calls. The clean callback must not run
// while a use is outstanding, must have run after the last Clean, and Use must succeed
// while uses are outstanding / be refused afterwards.
func c18CountRef(m *vk.M, idx, k int) {
	desc := fmt.Sprintf("case=%d;count-ref;outstanding=%d", idx, k)
	m.Current(desc)
	var cb int32
	res := NewRefResource(func() { atomic.AddInt32(&cb, 1) })
	for i := 0; i < k; i++ {
		if err := res.Use(); err != nil {
			m.Violate("C18:refresource:use-refused-before-clean", desc, "Use #%d of %d returned %v although no Clean had been called", i+1, k, err)
			return
		}
	}
	for i := 0; i < k; i++ {
		if n := atomic.LoadInt32(&cb); n != 0 {
			m.Violate("C18:refresource:cleaned-while-in-use", desc, "%d uses were taken; after %d Clean calls the clean callback had already run (%d times) while %d uses were still outstanding", k, i, n, k-i)
			return
		}
		if i == 1 { // with k-1 holders the resource is still usable
			if err := res.Use(); err != nil {
				m.Violate("C18:refresource:use-refused-before-clean", desc, "Use with %d uses outstanding (of %d) returned %v", k-1, k, err)
				return
			}
			res.Clean()
			if n := atomic.LoadInt32(&cb); n != 0 {
				m.Violate("C18:refresource:cleaned-while-in-use", desc, "the clean callback ran with %d uses outstanding (of %d)", k-1, k)
				return
			}
		}
		res.Clean()
	}
	switch n := atomic.LoadInt32(&cb); {
	case n == 0:
		m.Violate("C18:refresource:never-cleaned", desc, "%d uses were all returned by %d Clean calls but the clean callback never ran", k, k)
	case n > 1:
		m.Violate("C18:refresource:cleaned-twice", desc, "%d uses, %d Clean calls: the clean callback ran %d times", k, k, n)
	default:
		if err := res.Use(); err != ErrUseOfCleaned {
			m.Violate("C18:refresource:use-after-clean-accepted", desc, "Use after the resource had been cleaned (%d uses returned) returned %v", k, err)
		}
	}
	m.Count("counts_refresource_uses", int64(k))
	m.Case(fmt.Sprintf("ref%d", k), true)
}

// c18CountLimit: a limit of k lends exactly k, refuses the next, takes back exactly k.
func c18CountLimit(m *vk.M, idx, k int, timed bool) {
	name := "limit"
	var l c18Limiter
	if timed {
		name = "timeoutlimit"
		l = NewTimeoutLimit(k)
	} else {
		l = NewLimit(k)
	}
	desc := fmt.Sprintf("case=%d;count-%s;n=%d", idx, name, k)
	m.Current(desc)
	for i := 0; i < k; i++ {
		if !l.TryBorrow() {
			m.Violate("C18:"+name+":capacity-after-quiescence", desc, "limit %d: TryBorrow #%d was refused with only %d outstanding", k, i+1, i)
			return
		}
	}
	if l.TryBorrow() {
		m.Violate("C18:"+name+":more-than-n-outstanding", desc, "limit %d: TryBorrow #%d succeeded with %d outstanding", k, k+1, k)
		return
	}
	for i := 0; i < k; i++ {
		if err := l.Return(); err != nil {
			m.Violate("C18:"+name+":return-refused-while-holding", desc, "limit %d: Return #%d of %d outstanding borrows returned %v", k, i+1, k, err)
			return
		}
	}
	if err := l.Return(); err != ErrLimitReturn {
		m.Violate("C18:"+name+":return-without-borrow", desc, "limit %d: Return with nothing outstanding (after %d borrows and %d returns) returned %v", k, k, k, err)
		return
	}
	m.Count("counts_"+name+"_borrows", int64(k))
	m.Case(fmt.Sprintf("%s%d", name, k), true)
}

// c18CountPool: a pool of limit k hands out k distinct resources; one more Get (from a
// second goroutine) is served only by a Put, never by creating resource k+1.
func c18CountPool(m *vk.M, idx, k int) bool {
	desc := fmt.Sprintf("case=%d;count-pool;limit=%d", idx, k)
	m.Current(desc)
	var creates, destroys int64
	p := NewPool(k, func() any { return &c18PRes{id: int(atomic.AddInt64(&creates, 1))} }, func(any) { atomic.AddInt64(&destroys, 1) })
	seen := make(map[int]bool, k)
	held := make([]*c18PRes, 0, k)
	for i := 0; i < k; i++ {
		r, _ := p.Get().(*c18PRes)
		if r == nil || seen[r.id] {
			m.Violate("C18:pool:two-holders", desc, "Get #%d of %d returned a resource that is already held (or none)", i+1, k)
			return true
		}
		seen[r.id] = true
		held = append(held, r)
	}
	var extra *c18PRes
	var wg sync.WaitGroup
	wg.Add(1)
	go func() {
		defer wg.Done()
		extra, _ = p.Get().(*c18PRes)
	}()
	time.Sleep(200 * time.Microsecond) // pacing only: lets the extra Get reach the pool first
	last := held[len(held)-1]
	held = held[:len(held)-1]
	p.Put(last)
	if !c18Join(&wg) {
		m.Inconclusive("case %d (count-pool %d): the extra Get was not served by the Put within %v", idx, k, c18Watchdog)
		return false
	}
	if n := atomic.LoadInt64(&creates) - atomic.LoadInt64(&destroys); int(n) > k {
		m.Violate("C18:pool:more-than-limit-live", desc, "limit %d: %d resources are alive after %d Gets, one Put and one more Get", k, n, k)
		return true
	}
	if extra == nil || extra != last {
		for _, h := range held {
			if h == extra {
				m.Violate("C18:pool:two-holders", desc, "limit %d: the extra Get returned resource #%d which is still held", k, extra.id)
				return true
			}
		}
	}
	m.Count("counts_pool_live_resources", int64(k))
	m.Case(fmt.Sprintf("pool%d", k), true)
	return true
}

// c18CountFlight: k callers of one key while the first is inside a long callback — one
// flight with ~k sharers (sf) / a queue of k locked calls (lc) — through the ordinary
// interval oracles of c18RunFlight.
func c18CountFlightScn(kind string, k int) c18FScn {
	sc := c18FScn{Kind: kind, Keys: 1}
	for c := 0; c < k; c++ {
		call := c18FCall{K: 0, Ex: c%2 == 0}
		if c == 0 || kind == "sf" {
			call.In = 11 // sleep ~120us inside the callback: the others pile up behind it
		}
		sc.Clients = append(sc.Clients, []c18FCall{call})
	}
	return sc
}

func c18Counts(t *testing.T, race bool) {
	m := vk.New(t, "C18", "counter boundaries: 2^8, 2^15, 2^16 (+-1) outstanding holders — RefResource: k sequential Use then k Clean (callback never with a use outstanding, exactly once after the last Clean, Use refused afterwards); Limit/TimeoutLimit of n=k: exactly k TryBorrow succeed, exactly k Return succeed, the next is ErrLimitReturn; Pool limit k: k distinct resources, one more Get is served by a Put and never by creating resource k+1; SingleFlight/LockedCalls: 255-257 (thorough: 4097) callers of one key behind a parked callback through the interval oracles")
	defer m.Done()
	defer c18RestoreProcs()()
	idx := 0
	for _, k := range c18CountSizes {
		if race && k > 40000 && k != 65537 {
			continue
		}
		idx++
		if m.Only(idx) {
			c18CountRef(m, idx, k)
		}
		idx++
		if m.Only(idx) {
			c18CountLimit(m, idx, k, false)
		}
		idx++
		if m.Only(idx) {
			c18CountLimit(m, idx, k, true)
		}
		idx++
		if m.Only(idx) && !c18CountPool(m, idx, k) {
			return
		}
	}
	many := []int{255, 256, 257}
	if vk.Thorough() && !race {
		many = append(many, 4097)
	}
	for _, k := range many {
		for _, kind := range []string{"sf", "lc"} {
			idx++
			sc := c18CountFlightScn(kind, k)
			sc.Procs = c18SetProcs(1, 1)
			if m.Only(idx) && !c18RunFlight(m, idx, sc) {
				return
			}
		}
	}
}

func TestVerifC18PlainCounts(t *testing.T) { c18Counts(t, false) }
func TestVerifC18RaceCounts(t *testing.T)  { c18Counts(t, true) }
