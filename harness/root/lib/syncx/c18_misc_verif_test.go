//go:build verif

package syncx

// C18 — RefResource (porcupine + direct interval oracles), SpinLock / Barrier
// (exclusion gauge + lost-update counter), DoneChan / OnceGuard (exactly-once),
// ImmutableResource (virtual clock, sequential).

import (
	"errors"
	"fmt"
	"runtime"
	"sync"
	"sync/atomic"
	"time"

	"github.com/anishathalye/porcupine"
	"github.com/gotid/god/lib/timex"
	"verif.local/vk"
)

// ---------------------------------------------------------------- RefResource

const (
	c18RUse = iota
	c18RClean
	c18RCallback // the clean callback ran (point operation inside a Clean)
	c18RFinal    // harness reads the number of callbacks at quiescence
)

type c18RefIn int

func (i c18RefIn) String() string {
	return [...]string{"Use", "Clean", "clean-callback", "callbacks-at-end"}[i]
}

type c18RefSt struct {
	uses    int
	cleaned bool // uses dropped to zero
	cb      int  // callbacks seen
}

// c18RefModel: Use succeeds (uses+1) until the resource is cleaned and fails with
// ErrUseOfCleaned afterwards; Clean drops one use and cleans when they reach zero;
// the clean callback may run only once the uses have dropped to zero, and only once;
// at quiescence it has run iff the uses dropped to zero.
func c18RefModel() porcupine.Model {
	return porcupine.Model{
		Init: func() any { return c18RefSt{} },
		Step: func(st, in, out any) (bool, any) {
			s := st.(c18RefSt)
			switch in.(c18RefIn) {
			case c18RUse:
				switch out.(int) {
				case 0:
					s.uses++
					return !s.cleaned, s
				case 1:
					return s.cleaned, s
				}
				return false, s
			case c18RClean:
				if s.cleaned {
					return true, s
				}
				if s.uses <= 0 {
					return false, s // cannot happen: clients clean only what they used
				}
				s.uses--
				if s.uses == 0 {
					s.cleaned = true
				}
				return true, s
			case c18RCallback:
				ok := s.cleaned && s.cb == 0
				s.cb++
				return ok, s
			default:
				want := 0
				if s.cleaned {
					want = 1
				}
				return out.(int) == want && s.cb == want, s
			}
		},
	}
}

type c18RefOp struct {
	Op  int `json:"op"` // c18RUse / c18RClean (of an own earlier successful Use)
	Pre int `json:"pre,omitempty"`
}

type c18RefScn struct {
	Procs       int          `json:"procs"`
	CleanAtEnd  bool         `json:"clean_at_end"` // clients release every use they still hold
	Clients     [][]c18RefOp `json:"clients"`
	OwnerPre    int          `json:"owner_pre"`
	OwnerCleans bool         `json:"owner_cleans"`
	BoomClean   bool         `json:"boom_clean,omitempty"` // the clean callback panics (recovered by the caller of Clean)
}

func c18GenRef(r interface{ Intn(int) int }) c18RefScn {
	sc := c18RefScn{CleanAtEnd: r.Intn(4) != 0, OwnerPre: c18RandDelay(r), OwnerCleans: r.Intn(5) != 0, BoomClean: r.Intn(4) == 0}
	tight := r.Intn(3) != 0
	if r.Intn(2) == 0 {
		sc.OwnerPre = 8 + r.Intn(4) // the owner keeps its use for a while: clients work on a live resource
	}
	nclients, percl := 1+r.Intn(6), 2+r.Intn(7)
	if r.Intn(10) == 0 {
		nclients, percl = 16+r.Intn(33), 2
	}
	for c := 0; c < nclients; c++ {
		var ops []c18RefOp
		for j := 0; j < percl; j++ {
			op := c18RUse
			if r.Intn(2) == 0 {
				op = c18RClean
			}
			ops = append(ops, c18RefOp{Op: op, Pre: c18PreDelay(r, tight)})
		}
		sc.Clients = append(sc.Clients, ops)
	}
	return sc
}

func c18RunRef(m *vk.M, idx int, sc c18RefScn) bool {
	desc := fmt.Sprintf("case=%d;ref;%s", idx, vk.JSON(sc))
	m.Current(desc)
	var (
		cleanPanics int32
		cmu         sync.Mutex
		cblog       = &c18OpLog{}
		wg          sync.WaitGroup
		start       = make(chan struct{})
		gate        = c18NewGate(int32(len(sc.Clients) + 1))
	)
	cbID := len(sc.Clients) + 1
	res := NewRefResource(func() {
		s1 := vk.Seq()
		s2 := vk.Seq()
		cmu.Lock()
		cblog.add(cbID, c18RefIn(c18RCallback), s1, 0, s2)
		cmu.Unlock()
		if sc.BoomClean {
			atomic.AddInt32(&cleanPanics, 1)
			panic(c18Panic{-2})
		}
	})
	type useRec struct {
		useRet    int64 // stamp at which the successful Use returned
		cleanCall int64 // stamp at which the matching Clean was called (0 = never)
	}
	logs := make([]*c18OpLog, len(sc.Clients)+3)
	uses := make([][]useRec, len(sc.Clients)+1)
	worker := func(ci int, ops []c18RefOp, cleanRest bool) {
		defer wg.Done()
		lg := logs[ci]
		var open []int // indexes into uses[ci] not yet cleaned
		clean := func() {
			k := open[len(open)-1]
			open = open[:len(open)-1]
			call := vk.Seq()
			uses[ci][k].cleanCall = call
			vk.Recover(res.Clean)
			ret := vk.Seq()
			lg.add(ci, c18RefIn(c18RClean), call, 0, ret)
		}
		<-start
		gate.wait()
		for _, op := range ops {
			c18Delay(op.Pre)
			if op.Op == c18RClean && len(open) > 0 {
				clean()
				continue
			}
			call := vk.Seq()
			err := res.Use()
			ret := vk.Seq()
			out := 2
			switch err {
			case nil:
				out = 0
				uses[ci] = append(uses[ci], useRec{useRet: ret})
				open = append(open, len(uses[ci])-1)
			case ErrUseOfCleaned:
				out = 1
			}
			lg.add(ci, c18RefIn(c18RUse), call, out, ret)
		}
		for cleanRest && len(open) > 0 {
			clean()
		}
	}
	for ci := range sc.Clients {
		logs[ci] = &c18OpLog{}
		wg.Add(1)
		go worker(ci, sc.Clients[ci], sc.CleanAtEnd)
	}
	// the owner: one Use before anybody starts, one Clean at some point
	ownerID := len(sc.Clients)
	logs[ownerID] = &c18OpLog{}
	wg.Add(1)
	go worker(ownerID, []c18RefOp{{Op: c18RUse}, {Op: c18RClean, Pre: sc.OwnerPre}}[:1+b2i(sc.OwnerCleans)], false)
	close(start)
	if !c18Join(&wg) {
		m.Inconclusive("case %d (ref): clients did not finish within %v", idx, c18Watchdog)
		return false
	}
	cmu.Lock()
	ncb := len(cblog.ops)
	logs[cbID] = cblog
	cmu.Unlock()
	fin := &c18OpLog{}
	s1 := vk.Seq()
	fin.add(cbID+1, c18RefIn(c18RFinal), s1, ncb, vk.Seq())
	logs[cbID+1] = fin
	ops := c18Merge(logs)

	violated := false
	fail := func(class, format string, a ...any) {
		if !violated {
			m.Violate("C18:refresource:"+class, desc, format, a...)
		}
		violated = true
	}
	// direct oracles (named classes); porcupine afterwards for everything else
	var nuse, nrefused, nclean, openAtEnd int
	for _, o := range ops {
		switch o.Input.(c18RefIn) {
		case c18RUse:
			nuse++
			if o.Output.(int) == 1 {
				nrefused++
			}
			if o.Output.(int) == 2 {
				fail("unexpected-error", "Use returned an error other than ErrUseOfCleaned")
			}
		case c18RClean:
			nclean++
		}
	}
	if ncb > 1 {
		fail("cleaned-twice", "the clean callback ran %d times. history: %s", ncb, c18Render(ops, true))
	}
	if ncb >= 1 {
		cb := cblog.ops[0]
		for ci := range uses {
			for _, u := range uses[ci] {
				if u.useRet < cb.Call && (u.cleanCall == 0 || u.cleanCall > cb.Return) {
					fail("cleaned-while-in-use", "the clean callback ran at stamps [%d,%d] while client %d held a use (Use returned at %d, its Clean was called at %d; 0 = never)", cb.Call, cb.Return, ci, u.useRet, u.cleanCall)
				}
			}
		}
		for _, o := range ops {
			if o.Input.(c18RefIn) == c18RUse && o.Output.(int) == 0 && o.Call > cb.Return {
				fail("use-after-clean-accepted", "Use called at stamp %d (after the clean callback had finished at %d) succeeded; it must return ErrUseOfCleaned", o.Call, cb.Return)
			}
		}
	}
	for ci := range uses {
		for _, u := range uses[ci] {
			if u.cleanCall == 0 {
				openAtEnd++
			}
		}
	}
	if ncb == 0 && openAtEnd == 0 && nuse-nrefused > 0 {
		fail("never-cleaned", "every successful Use (%d) was matched by a Clean, uses are back to zero, but the clean callback never ran. history: %s", nuse-nrefused, c18Render(ops, true))
	}
	if !violated && len(ops) <= 70 {
		c18Linearizable(m, "C18:refresource:not-linearizable", desc, c18RefModel(), ops)
	}
	m.Count("refresource_use", int64(nuse))
	m.Count("refresource_use_refused", int64(nrefused))
	m.Count("refresource_clean", int64(nclean))
	m.Count("refresource_clean_callbacks", int64(ncb))
	m.Count("refresource_clean_callbacks_panicked", int64(atomic.LoadInt32(&cleanPanics)))
	m.Case("ref"+c18OrderDigest(ops), ncb > 0)
	if ncb > 0 && nrefused > 0 && m.WantSample() && idx%19 == 1 {
		h := c18Render(ops, true)
		if len(h) > 900 {
			h = h[:900] + "…"
		}
		m.Sample(map[string]any{"kind": "refresource", "clients": len(sc.Clients), "gomaxprocs": sc.Procs, "use": nuse, "use_refused_after_clean": nrefused,
			"clean": nclean, "clean_callbacks": ncb, "history": h})
	}
	return true
}

func b2i(b bool) int {
	if b {
		return 1
	}
	return 0
}

// ---------------------------------------------------------------- SpinLock / Barrier

type c18LockScn struct {
	Kind    string `json:"kind"` // spin | spintry | barrier | guard
	Procs   int    `json:"procs"`
	Workers int    `json:"workers"`
	Iters   int    `json:"iters"`
	In      int    `json:"in"`
	Boom    int    `json:"boom,omitempty"` // barrier/guard: every Boom-th guarded function panics (recovered by its caller)
}

func c18GenLock(r interface{ Intn(int) int }) c18LockScn {
	kinds := []string{"spin", "spintry", "barrier", "guard"}
	sc := c18LockScn{Kind: kinds[r.Intn(len(kinds))], Workers: 2 + r.Intn(7), Iters: 5 + r.Intn(40), In: r.Intn(6)}
	if r.Intn(8) == 0 {
		sc.Workers = 16 + r.Intn(49)
		sc.Iters = 3 + r.Intn(6)
	}
	if (sc.Kind == "barrier" || sc.Kind == "guard") && r.Intn(2) == 0 {
		sc.Boom = 2 + r.Intn(9)
	}
	return sc
}

func c18RunLock(m *vk.M, idx int, sc c18LockScn) bool {
	desc := fmt.Sprintf("case=%d;lock;%s", idx, vk.JSON(sc))
	m.Current(desc)
	var (
		sl        SpinLock
		bar       Barrier
		mtx       sync.Mutex
		inside    int32
		overlap   int32
		counter   int64
		entered   int64
		tryFails  int64
		wg        sync.WaitGroup
		start     = make(chan struct{})
		gate      = c18NewGate(int32(sc.Workers))
		calls     int64 // guarded functions started (decides which one panics)
		npanic    int64
		panicDone int64 // stamp at which a panicked Guard call was back at its caller
		waiting   int32 // workers currently inside a Guard call
	)
	critical := func() {
		if atomic.AddInt32(&inside, 1) > 1 {
			atomic.StoreInt32(&overlap, 1)
		}
		// read-modify-write done with separate atomic accesses: updates are lost when
		// exclusion fails, without the harness itself becoming a data race
		v := atomic.LoadInt64(&counter)
		c18Delay(sc.In)
		atomic.StoreInt64(&counter, v+1)
		atomic.AddInt64(&entered, 1)
		atomic.AddInt32(&inside, -1)
		if sc.Boom > 0 && atomic.AddInt64(&calls, 1)%int64(sc.Boom) == 0 {
			panic(c18Panic{-1})
		}
	}
	guarded := func(call func()) {
		atomic.AddInt32(&waiting, 1)
		_, p := vk.Recover(call)
		atomic.AddInt32(&waiting, -1)
		if p {
			atomic.AddInt64(&npanic, 1)
			atomic.StoreInt64(&panicDone, vk.Seq())
		}
	}
	for w := 0; w < sc.Workers; w++ {
		wg.Add(1)
		go func() {
			defer wg.Done()
			<-start
			gate.wait()
			for i := 0; i < sc.Iters; i++ {
				switch sc.Kind {
				case "spin":
					sl.Lock()
					critical()
					sl.Unlock()
				case "spintry":
					if sl.TryLock() {
						critical()
						sl.Unlock()
					} else {
						atomic.AddInt64(&tryFails, 1)
						c18Delay(1)
					}
				case "barrier":
					guarded(func() { bar.Guard(critical) })
				default:
					guarded(func() { Guard(&mtx, critical) })
				}
			}
		}()
	}
	close(start)
	if !c18Join(&wg) {
		// a Guard still parked although nobody is inside the guarded section and a panicked
		// predecessor has demonstrably returned to its caller will never run: the panic left
		// the lock held (same rule as C18:lockedcalls:blocked-after-panic)
		if done := atomic.LoadInt64(&panicDone); done != 0 && atomic.LoadInt32(&inside) == 0 && atomic.LoadInt32(&waiting) > 0 {
			if parked := vk.GoroutinesIn("syncx.Guard"); len(parked) > 0 {
				g := parked[0]
				if len(g) > 600 {
					g = g[:600]
				}
				m.Violate("C18:barrier:blocked-after-panic", desc, "%s: %d worker(s) have been inside Guard for more than %v without entering the guarded function, nobody is inside it, and a Guard whose function panicked returned to its caller at stamp %d (%d panics recovered): the lock was not released by the panicking call (%d goroutines parked in syncx.Guard)\n%s",
					sc.Kind, atomic.LoadInt32(&waiting), c18Watchdog, done, atomic.LoadInt64(&npanic), len(parked), g)
				return false
			}
		}
		m.Inconclusive("case %d (lock %s): workers did not finish within %v", idx, sc.Kind, c18Watchdog)
		return false
	}
	name := map[string]string{"spin": "spinlock", "spintry": "spinlock", "barrier": "barrier", "guard": "barrier"}[sc.Kind]
	if atomic.LoadInt32(&overlap) != 0 {
		m.Violate("C18:"+name+":two-inside", desc, "%s: two goroutines were inside the guarded section at the same time", sc.Kind)
	} else if c, e := atomic.LoadInt64(&counter), atomic.LoadInt64(&entered); c != e {
		m.Violate("C18:"+name+":lost-update", desc, "%s: %d guarded increments produced counter=%d", sc.Kind, e, c)
	}
	m.Count(name+"_sections_entered", atomic.LoadInt64(&entered))
	m.Count("spinlock_trylock_refused", atomic.LoadInt64(&tryFails))
	m.Count("barrier_guarded_functions_panicked_and_recovered", atomic.LoadInt64(&npanic))
	m.Case(fmt.Sprintf("lock%s/%d/%d/%d/%d", sc.Kind, sc.Workers, sc.Iters, sc.In, atomic.LoadInt64(&tryFails)), atomic.LoadInt64(&entered) > 1)
	if m.WantSample() && idx%53 == 1 {
		m.Sample(map[string]any{"kind": sc.Kind, "workers": sc.Workers, "gomaxprocs": sc.Procs, "sections_entered": atomic.LoadInt64(&entered), "trylock_refused": atomic.LoadInt64(&tryFails), "counter": atomic.LoadInt64(&counter)})
	}
	return true
}

// ---------------------------------------------------------------- DoneChan / OnceGuard

// Each history runs Rounds rounds on fresh objects; in every round all workers
// leave a spinning barrier at (nearly) the same instant and hit the same object,
// which is what the exactly-once windows (a few nanoseconds wide) need.

type c18OnceScn struct {
	Kind    string `json:"kind"` // done | guard
	Procs   int    `json:"procs"`
	Workers int    `json:"workers"`
	Rounds  int    `json:"rounds"`
	Pre     []int  `json:"pre"` // per worker: 0 none, 1 yield, 2 tiny spin after the barrier
}

func c18GenOnce(r interface{ Intn(int) int }) c18OnceScn {
	sc := c18OnceScn{Kind: []string{"done", "guard"}[r.Intn(2)], Workers: 2 + r.Intn(7), Rounds: 100 + r.Intn(200)}
	if r.Intn(10) == 0 {
		sc.Workers = 16 + r.Intn(17)
		sc.Rounds = 40
	}
	for i := 0; i < sc.Workers; i++ {
		p := 0
		if r.Intn(4) == 0 {
			p = 1 + r.Intn(2)
		}
		sc.Pre = append(sc.Pre, p)
	}
	return sc
}

func c18SpinBarrier(cnt *int32, n int32) {
	atomic.AddInt32(cnt, 1)
	for i := 0; atomic.LoadInt32(cnt) < n; i++ {
		if i%32 == 31 {
			runtime.Gosched()
		}
	}
}

func c18RunOnce(m *vk.M, idx int, sc c18OnceScn) bool {
	desc := fmt.Sprintf("case=%d;once;%s", idx, vk.JSON(sc))
	m.Current(desc)
	var wg sync.WaitGroup
	W, R := int32(sc.Workers), sc.Rounds
	arrive := make([]int32, R)
	pre := func(w int) {
		switch sc.Pre[w] {
		case 1:
			runtime.Gosched()
		case 2:
			for i := 0; i < 20; i++ {
				atomic.AddInt64(&c18Sink, 1)
			}
		}
	}
	if sc.Kind == "guard" {
		guards := make([]OnceGuard, R)
		wins := make([]int32, R)
		var notTakenAfter int32
		for r := range guards {
			if guards[r].Taken() {
				m.Violate("C18:onceguard:taken-before-take", desc, "Taken() is true on a fresh guard")
				return true
			}
		}
		for w := 0; w < sc.Workers; w++ {
			wg.Add(1)
			go func(w int) {
				defer wg.Done()
				for r := 0; r < R; r++ {
					c18SpinBarrier(&arrive[r], W)
					pre(w)
					if guards[r].Take() {
						atomic.AddInt32(&wins[r], 1)
					}
					if !guards[r].Taken() { // a Take (ours) has returned: the guard must read taken
						atomic.AddInt32(&notTakenAfter, 1)
					}
				}
			}(w)
		}
		if !c18Join(&wg) {
			m.Inconclusive("case %d (onceguard): workers did not finish", idx)
			return false
		}
		bad := false
		for r := range wins {
			if n := atomic.LoadInt32(&wins[r]); n != 1 && !bad {
				bad = true
				m.Violate("C18:onceguard:not-exactly-one-take", desc, "round %d: %d concurrent Take calls on one guard: %d returned true (want exactly 1)", r, sc.Workers, n)
			}
		}
		if n := atomic.LoadInt32(&notTakenAfter); n != 0 && !bad {
			m.Violate("C18:onceguard:taken-false-after-take", desc, "Taken() returned false %d times after a Take had returned", n)
		}
		m.Count("onceguard_take", int64(sc.Workers*R))
		m.Count("onceguard_take_true", int64(R))
		m.Case(fmt.Sprintf("guard%d/%d/%v", sc.Workers, R, sc.Pre), true)
		return true
	}
	dcs := make([]*DoneChan, R)
	for r := range dcs {
		dcs[r] = NewDoneChan()
		select {
		case <-dcs[r].Done():
			m.Violate("C18:donechan:done-before-close", desc, "Done() is ready on a fresh DoneChan")
			return true
		default:
		}
	}
	var panics, notDone, woken int32
	released := make(chan struct{})
	// one waiter blocks on every Done() in turn until the round's first Close
	var wwg sync.WaitGroup
	wwg.Add(1)
	go func() {
		defer wwg.Done()
		for r := 0; r < R; r++ {
			select {
			case <-dcs[r].Done():
				atomic.AddInt32(&woken, 1)
			case <-released: // harness gives up (watchdog path)
				return
			}
		}
	}()
	for w := 0; w < sc.Workers; w++ {
		wg.Add(1)
		go func(w int) {
			defer wg.Done()
			for r := 0; r < R; r++ {
				c18SpinBarrier(&arrive[r], W)
				pre(w)
				if _, p := vk.Recover(dcs[r].Close); p {
					atomic.AddInt32(&panics, 1)
					continue
				}
				select {
				case <-dcs[r].Done():
				default:
					atomic.AddInt32(&notDone, 1)
				}
			}
		}(w)
	}
	if !c18Join(&wg) {
		close(released)
		m.Inconclusive("case %d (donechan): closers did not finish", idx)
		return false
	}
	switch {
	case atomic.LoadInt32(&panics) != 0:
		m.Violate("C18:donechan:close-panicked", desc, "%d of %d concurrent Close calls (%d workers x %d rounds) panicked", atomic.LoadInt32(&panics), sc.Workers*R, sc.Workers, R)
	case atomic.LoadInt32(&notDone) != 0:
		m.Violate("C18:donechan:not-done-after-close", desc, "Done() was not ready after Close had returned (%d times)", atomic.LoadInt32(&notDone))
	}
	if !c18Join(&wwg) {
		close(released)
		m.Inconclusive("case %d (donechan): the goroutine waiting on Done() was not released within %v after Close", idx, c18Watchdog)
		return false
	}
	m.Count("donechan_close", int64(sc.Workers*R))
	m.Count("donechan_waiter_wakeups", int64(atomic.LoadInt32(&woken)))
	m.Case(fmt.Sprintf("done%d/%d/%v", sc.Workers, R, sc.Pre), true)
	return true
}

// ---------------------------------------------------------------- ImmutableResource

type c18ImmStep struct {
	Adv  int64 `json:"adv"` // virtual ms before the Get
	Fail bool  `json:"fail"`
	Boom bool  `json:"boom,omitempty"` // the fetch panics (recovered by the caller of Get)
}

type c18ImmScn struct {
	Interval int64        `json:"interval"` // virtual ms
	Steps    []c18ImmStep `json:"steps"`
}

func c18GenImm(r interface{ Intn(int) int }) c18ImmScn {
	sc := c18ImmScn{Interval: int64(5 + r.Intn(2000))}
	n := 4 + r.Intn(12)
	succeedAt := r.Intn(n + 3)
	for i := 0; i < n; i++ {
		var adv int64
		switch r.Intn(6) {
		case 0:
			adv = 0
		case 1:
			adv = 1
		case 2:
			adv = sc.Interval - 1
		case 3:
			adv = sc.Interval
		case 4:
			adv = sc.Interval + 1
		default:
			adv = int64(r.Intn(int(2 * sc.Interval)))
		}
		st := c18ImmStep{Adv: adv, Fail: i < succeedAt}
		st.Boom = st.Fail && r.Intn(4) == 0
		sc.Steps = append(sc.Steps, st)
	}
	return sc
}

// c18RunImm: sequential, virtual clock. After a failed fetch at virtual time t the
// next fetch happens only at a Get later than t+interval; after a success never.
func c18RunImm(m *vk.M, idx int, sc c18ImmScn) bool {
	desc := fmt.Sprintf("case=%d;imm;%s", idx, vk.JSON(sc))
	m.Current(desc)
	timex.VerifFakeClock(time.Hour)
	defer timex.VerifRealClock()
	var fetches, step int64
	errBoom := errors.New("c18-fetch-failed")
	ir := NewImmutableResource(func() (any, error) {
		n := atomic.AddInt64(&fetches, 1)
		if sc.Steps[atomic.LoadInt64(&step)].Boom {
			panic(c18Panic{n})
		}
		if sc.Steps[atomic.LoadInt64(&step)].Fail {
			if n%2 == 0 {
				return -n, errBoom // a value together with the error: the fetch failed all the same
			}
			return nil, errBoom
		}
		return n, nil
	}, WithRefreshIntervalOnFailure(time.Duration(sc.Interval*c18Ms)))
	now, lastFetch := int64(0), int64(-1)
	succeeded := false
	var got any
	var nfetch, nsupp, npanic int
	for i, st := range sc.Steps {
		atomic.StoreInt64(&step, int64(i))
		timex.VerifAdvance(time.Duration(st.Adv * c18Ms))
		now += st.Adv
		before := atomic.LoadInt64(&fetches)
		var v any
		var err error
		if _, p := vk.Recover(func() { v, err = ir.Get() }); p {
			npanic++
		}
		fetched := atomic.LoadInt64(&fetches) - before
		switch {
		case fetched > 1:
			m.Violate("C18:immutableresource:fetched-twice-in-one-get", desc, "step %d: one Get called fetch %d times", i, fetched)
			return true
		case succeeded && fetched != 0:
			m.Violate("C18:immutableresource:refetch-after-success", desc, "step %d: fetch was called again after it had succeeded", i)
			return true
		case succeeded && (err != nil || v != got):
			m.Violate("C18:immutableresource:value-changed", desc, "step %d: Get returned (%v,%v) after the resource had been fetched as %v", i, v, err, got)
			return true
		case !succeeded && (st.Fail || fetched == 0) && v != nil:
			m.Violate("C18:immutableresource:failed-fetch-value-returned", desc, "step %d: Get returned the value %v although no fetch has succeeded yet (failed fetches return a value together with their error)", i, v)
			return true
		case !succeeded && fetched == 1 && lastFetch >= 0 && now < lastFetch+sc.Interval: // a retry exactly at the interval is left open
			m.Violate("C18:immutableresource:refetch-before-interval", desc, "step %d: fetch retried %dms after the failed fetch, refresh interval %dms (virtual clock)", i, now-lastFetch, sc.Interval)
			return true
		}
		if fetched == 1 {
			nfetch++
			lastFetch = now
			if !st.Fail {
				succeeded, got = true, v
			}
		} else if !succeeded {
			nsupp++
		}
	}
	m.Count("immutableresource_gets", int64(len(sc.Steps)))
	m.Count("immutableresource_fetches", int64(nfetch))
	m.Count("immutableresource_fetches_panicked", int64(npanic))
	m.Count("immutableresource_fetch_suppressed_within_interval", int64(nsupp))
	m.Case(fmt.Sprintf("imm%s", vk.Digest(vk.JSON(sc))), nfetch > 1 || nsupp > 0)
	return true
}
