//go:build verif

package syncx

// C18 — Pool: unique resource ids, caller-side holder flags, live-count gauge in
// the create/destroy callbacks, porcupine against (held, idle, destroyed, virtual
// now, last-used) and an exact sequential walk for maxAge under the virtual clock.

import (
	"fmt"
	"math/bits"
	"sync"
	"sync/atomic"
	"time"

	"github.com/anishathalye/porcupine"
	"github.com/gotid/god/lib/timex"
	"verif.local/vk"
)

const (
	c18PGet = iota
	c18PPut
	c18PDestroy // destroy callback observed (point operation inside a Get)
	c18PAdvance // virtual clock moved forward
	c18PPutNil  // Put(nil): documented no-op
)

const c18PoolMaxIDs = 64

type c18PoolIn struct {
	Op int
	ID int   // put / destroy
	D  int64 // advance (virtual ms)
}

func (i c18PoolIn) String() string {
	switch i.Op {
	case c18PGet:
		return "Get"
	case c18PPut:
		return fmt.Sprintf("Put(#%d)", i.ID)
	case c18PDestroy:
		return fmt.Sprintf("destroy(#%d)", i.ID)
	case c18PPutNil:
		return "Put(nil)"
	default:
		return fmt.Sprintf("advance(%dns)", i.D)
	}
}

type c18PoolSt struct {
	held, idle, dead uint64
	now              int64
	last             [c18PoolMaxIDs]int64
}

// c18PoolModel is the sequential specification used for linearizability:
// Get returns an idle resource that is not idle beyond maxAge, or a brand-new one
// while live < limit; Put makes a held resource idle (stamping the virtual time);
// destroy removes an idle resource for good. LIFO order and the choice between
// reuse and creation are deliberately left open.
func c18PoolModel(limit int, maxAge int64) porcupine.Model {
	return porcupine.Model{
		Init: func() any { return c18PoolSt{} },
		Step: func(st, in, out any) (bool, any) {
			s, i := st.(c18PoolSt), in.(c18PoolIn)
			switch i.Op {
			case c18PGet:
				id := out.(int)
				if id < 0 || id >= c18PoolMaxIDs {
					return false, s
				}
				bit := uint64(1) << uint(id)
				switch {
				case s.idle&bit != 0:
					if maxAge > 0 && s.last[id]+maxAge < s.now {
						return false, s // idle beyond maxAge must be destroyed, not reused
					}
					s.idle &^= bit
					s.held |= bit
					return true, s
				case (s.held|s.dead)&bit != 0:
					return false, s // second holder / destroyed resource handed out
				default:
					if bits.OnesCount64(s.held|s.idle) >= limit {
						return false, s
					}
					s.held |= bit
					return true, s
				}
			case c18PPut:
				bit := uint64(1) << uint(i.ID)
				if s.held&bit == 0 {
					return false, s
				}
				s.held &^= bit
				s.idle |= bit
				s.last[i.ID] = s.now
				return true, s
			case c18PDestroy:
				bit := uint64(1) << uint(i.ID)
				if s.idle&bit == 0 {
					return false, s
				}
				s.idle &^= bit
				s.dead |= bit
				return true, s
			case c18PPutNil:
				return true, s // ignored: neither a resource nor a slot changes hands
			default:
				s.now += i.D
				return true, s
			}
		},
	}
}

type c18PRes struct{ id int }

type c18PoolIter struct {
	Pre    int  `json:"pre,omitempty"`
	Hold   int  `json:"hold,omitempty"`
	NilPut bool `json:"nilput,omitempty"` // additionally call Put(nil) while holding the resource
}

type c18ClockOp struct {
	Pre int   `json:"pre,omitempty"`
	D   int64 `json:"d"`
}

type c18PoolScn struct {
	Limit   int             `json:"limit"`
	MaxAge  int64           `json:"maxage,omitempty"` // virtual ms, 0 = none
	Procs   int             `json:"procs"`
	Clients [][]c18PoolIter `json:"clients"`
	Clock   []c18ClockOp    `json:"clock,omitempty"`
}

func c18GenPool(r interface{ Intn(int) int }, aged bool) c18PoolScn {
	sc := c18PoolScn{Limit: 1 + r.Intn(4)}
	tight := r.Intn(2) == 0
	nclients, percl := 2+r.Intn(5), 1+r.Intn(4)
	if aged {
		// clock advances are concurrent with everything, which multiplies the states the
		// checker has to explore: keep these histories small (<= ~35 operations)
		nclients, percl = 2+r.Intn(3), 1+r.Intn(3)
	}
	if r.Intn(5) == 0 {
		nclients, percl = 1, 4+r.Intn(8) // sequential histories: the checker is exact
	}
	total := 0
	for c := 0; c < nclients; c++ {
		var its []c18PoolIter
		for j := 0; j < percl; j++ {
			its = append(its, c18PoolIter{Pre: c18PreDelay(r, tight), Hold: c18PreDelay(r, tight), NilPut: r.Intn(5) == 0})
			total++
		}
		sc.Clients = append(sc.Clients, its)
	}
	if aged {
		sc.MaxAge = int64(2 + r.Intn(20))
		n := 1 + total/3
		for j := 0; j < n; j++ {
			sc.Clock = append(sc.Clock, c18ClockOp{Pre: c18PreDelay(r, tight), D: c18AgeStep(r, sc.MaxAge)})
		}
	}
	return sc
}

func c18AgeStep(r interface{ Intn(int) int }, maxAge int64) int64 {
	switch r.Intn(7) {
	case 0:
		return 0
	case 1:
		return 1
	case 2:
		return maxAge - 1
	case 3:
		return maxAge
	case 4:
		return maxAge + 1
	case 5:
		return 2*maxAge + int64(r.Intn(5))
	default:
		return int64(r.Intn(int(maxAge)))
	}
}

const c18Ms = int64(time.Millisecond)

func c18RunPool(m *vk.M, idx int, sc c18PoolScn) bool {
	desc := fmt.Sprintf("case=%d;pool;%s", idx, vk.JSON(sc))
	m.Current(desc)
	if sc.MaxAge > 0 {
		timex.VerifFakeClock(time.Hour)
		defer timex.VerifRealClock()
	}
	var (
		nextID    int64 = -1
		live      int32
		liveMax   int32
		dmu       sync.Mutex
		dlog      = &c18OpLog{}
		holder    [c18PoolMaxIDs]int32
		dead      [c18PoolMaxIDs]int32
		twoHold   int32 // id+1 of a resource seen with two holders
		deadReuse int32 // id+1 of a destroyed resource handed out
		overflow  int32
		nilPuts   int64
		wg        sync.WaitGroup
		start     = make(chan struct{})
		gate      = c18NewGate(int32(len(sc.Clients) + b2i(len(sc.Clock) > 0)))
	)
	drID := len(sc.Clients) + 1
	create := func() any {
		id := int(atomic.AddInt64(&nextID, 1))
		l := atomic.AddInt32(&live, 1)
		for {
			mx := atomic.LoadInt32(&liveMax)
			if l <= mx || atomic.CompareAndSwapInt32(&liveMax, mx, l) {
				break
			}
		}
		if id >= c18PoolMaxIDs {
			atomic.StoreInt32(&overflow, 1)
		}
		return &c18PRes{id: id}
	}
	destroy := func(x any) {
		s1 := vk.Seq()
		res, _ := x.(*c18PRes)
		atomic.AddInt32(&live, -1)
		id := -1
		if res != nil {
			id = res.id
			if id < c18PoolMaxIDs {
				atomic.StoreInt32(&dead[id], 1)
			}
		}
		s2 := vk.Seq()
		dmu.Lock()
		dlog.add(drID, c18PoolIn{Op: c18PDestroy, ID: id}, s1, 0, s2)
		dmu.Unlock()
	}
	var p *Pool
	if sc.MaxAge > 0 {
		p = NewPool(sc.Limit, create, destroy, WithMaxAge(time.Duration(sc.MaxAge*c18Ms)))
	} else {
		p = NewPool(sc.Limit, create, destroy)
	}
	logs := make([]*c18OpLog, len(sc.Clients)+2)
	for ci := range sc.Clients {
		logs[ci] = &c18OpLog{}
		wg.Add(1)
		go func(ci int) {
			defer wg.Done()
			lg := logs[ci]
			<-start
			gate.wait()
			for _, it := range sc.Clients[ci] {
				c18Delay(it.Pre)
				call := vk.Seq()
				v := p.Get()
				ret := vk.Seq()
				res, _ := v.(*c18PRes)
				id := -1
				if res != nil {
					id = res.id
				}
				lg.add(ci, c18PoolIn{Op: c18PGet}, call, id, ret)
				if id < 0 || id >= c18PoolMaxIDs {
					atomic.StoreInt32(&overflow, 1)
					return
				}
				if atomic.LoadInt32(&dead[id]) != 0 {
					atomic.StoreInt32(&deadReuse, int32(id+1))
				}
				if !atomic.CompareAndSwapInt32(&holder[id], 0, 1) {
					atomic.StoreInt32(&twoHold, int32(id+1))
					return // do not Put a resource somebody else also holds
				}
				if it.NilPut {
					call = vk.Seq()
					p.Put(nil)
					ret = vk.Seq()
					lg.add(ci, c18PoolIn{Op: c18PPutNil}, call, 0, ret)
					atomic.AddInt64(&nilPuts, 1)
				}
				c18Delay(it.Hold)
				atomic.StoreInt32(&holder[id], 0)
				call = vk.Seq()
				p.Put(res)
				ret = vk.Seq()
				lg.add(ci, c18PoolIn{Op: c18PPut, ID: id}, call, 0, ret)
			}
		}(ci)
	}
	if len(sc.Clock) > 0 {
		ck := &c18OpLog{}
		logs[len(sc.Clients)] = ck
		wg.Add(1)
		go func() {
			defer wg.Done()
			<-start
			gate.wait()
			for _, c := range sc.Clock {
				c18Delay(c.Pre)
				call := vk.Seq()
				timex.VerifAdvance(time.Duration(c.D * c18Ms))
				ret := vk.Seq()
				ck.add(len(sc.Clients), c18PoolIn{Op: c18PAdvance, D: c.D * c18Ms}, call, 0, ret)
			}
		}()
	}
	close(start)
	if !c18Join(&wg) {
		m.Inconclusive("case %d (pool): clients did not finish within %v (a Get stayed blocked)", idx, c18Watchdog)
		return false
	}
	dmu.Lock()
	logs[len(sc.Clients)+1] = dlog
	ops := c18Merge(logs)
	dmu.Unlock()
	violated := false
	fail := func(class, format string, a ...any) {
		if !violated {
			m.Violate("C18:pool:"+class, desc, format, a...)
		}
		violated = true
	}
	if x := atomic.LoadInt32(&twoHold); x != 0 {
		fail("two-holders", "resource #%d was returned by Get to a second holder while the first still held it. history: %s", x-1, c18Render(ops, true))
	}
	if x := atomic.LoadInt32(&deadReuse); x != 0 {
		fail("destroyed-resource-reused", "resource #%d had been passed to destroy and was later returned by Get. history: %s", x-1, c18Render(ops, true))
	}
	if mx := atomic.LoadInt32(&liveMax); int(mx) > sc.Limit {
		fail("more-than-limit-live", "limit %d: %d resources were alive (created and not destroyed) at the same time", sc.Limit, mx)
	}
	ndestroy := len(dlog.ops)
	ncreate := int(atomic.LoadInt64(&nextID)) + 1
	maxOps := 70
	if sc.MaxAge > 0 {
		maxOps = 45
	}
	if !violated && atomic.LoadInt32(&overflow) == 0 && len(ops) <= maxOps {
		c18Linearizable(m, "C18:pool:not-linearizable", desc, c18PoolModel(sc.Limit, sc.MaxAge*c18Ms), ops)
	}
	ngets := 0
	for _, o := range ops {
		if o.Input.(c18PoolIn).Op == c18PGet {
			ngets++
		}
	}
	m.Count("pool_gets", int64(ngets))
	m.Count("pool_creates", int64(ncreate))
	m.Count("pool_reuses", int64(ngets-ncreate))
	m.Count("pool_destroys", int64(ndestroy))
	m.Count("pool_put_nil", atomic.LoadInt64(&nilPuts))
	m.Count("pool_clock_advances", int64(len(sc.Clock)))
	m.Max("pool_max_live", int64(atomic.LoadInt32(&liveMax)))
	nontrivial := ngets > ncreate || ndestroy > 0
	m.Case("pool"+c18OrderDigest(ops), nontrivial)
	if nontrivial && m.WantSample() && (idx%31 == 1 || ndestroy > 1 && idx%7 == 1) {
		h := c18Render(ops, true)
		if len(h) > 900 {
			h = h[:900] + "…"
		}
		m.Sample(map[string]any{"kind": "pool", "limit": sc.Limit, "maxage_ms": sc.MaxAge, "clients": len(sc.Clients), "gomaxprocs": sc.Procs,
			"gets": ngets, "creates": ncreate, "destroys": ndestroy, "max_live": atomic.LoadInt32(&liveMax), "history": h})
	}
	return true
}

// ---------------------------------------------------------------- sequential maxAge walk

type c18SeqOp struct {
	Op int   `json:"op"` // c18PGet / c18PPut / c18PAdvance
	X  int64 `json:"x,omitempty"`
}

type c18PoolSeqScn struct {
	Limit  int   `json:"limit"`
	MaxAge int64 `json:"maxage"`
	Unit   int64 `json:"unit_ns"` // nanoseconds per time unit: 1e6 (ms) or 1 (maxAge of 1-3 ns: the smallest legal ages)
	// panicking callbacks (recovered by the caller of Get): the very first create, and/or the
	// BoomDestroy-th destroy. On the unchanged tree a panicking create permanently costs one unit
	// of capacity (created is incremented before create runs) - liveness, not asserted; the
	// generator therefore plans with limit-1 after it.
	BoomCreate  bool       `json:"boom_create,omitempty"`
	BoomDestroy int        `json:"boom_destroy,omitempty"`
	Ops         []c18SeqOp `json:"ops"`
}

// c18GenPoolSeq draws a single-goroutine script. Get is only issued when the pool
// has an idle resource or room to create (so that it cannot block); Put releases
// the X-th held resource.
func c18GenPoolSeq(r interface{ Intn(int) int }) c18PoolSeqScn {
	sc := c18PoolSeqScn{Limit: 1 + r.Intn(4), MaxAge: int64(2 + r.Intn(30)), Unit: c18Ms}
	if r.Intn(4) == 0 {
		sc.Unit, sc.MaxAge = 1, int64(1+r.Intn(3))
	}
	n := 10 + r.Intn(40)
	held, idle := 0, 0 // upper bound bookkeeping: held+idle <= limit always allows Get iff idle>0 || held+idle<limit
	limit := sc.Limit
	if r.Intn(4) == 0 {
		sc.BoomDestroy = 1 + r.Intn(3)
	}
	if r.Intn(4) == 0 {
		sc.BoomCreate = true
		if sc.Limit < 2 {
			sc.Limit = 2
		}
		limit = sc.Limit - 1
		sc.Ops = append(sc.Ops, c18SeqOp{Op: c18PGet}) // this Get's create panics: no resource, nothing held
	}
	for i := 0; i < n; i++ {
		switch x := r.Intn(10); {
		case x < 4 && (idle > 0 || held+idle < limit):
			sc.Ops = append(sc.Ops, c18SeqOp{Op: c18PGet})
			if idle > 0 {
				idle-- // reused or destroyed+recreated: either way one idle slot turns into a held one at most
			}
			held++
		case x < 7 && held > 0:
			sc.Ops = append(sc.Ops, c18SeqOp{Op: c18PPut, X: int64(r.Intn(held))})
			held--
			idle++
		default:
			sc.Ops = append(sc.Ops, c18SeqOp{Op: c18PAdvance, X: c18AgeStep(r, sc.MaxAge)})
		}
	}
	return sc
}

func c18RunPoolSeq(m *vk.M, idx int, sc c18PoolSeqScn) bool {
	desc := fmt.Sprintf("case=%d;poolseq;%s", idx, vk.JSON(sc))
	m.Current(desc)
	timex.VerifFakeClock(time.Hour)
	defer timex.VerifRealClock()
	var (
		mu        sync.Mutex
		nextID    int
		destroyed []int
	)
	ncreateCalls, ndestroyCalls, npanics := 0, 0, 0
	p := NewPool(sc.Limit, func() any {
		mu.Lock()
		defer mu.Unlock()
		ncreateCalls++
		if sc.BoomCreate && ncreateCalls == 1 {
			panic(c18Panic{-3})
		}
		nextID++
		return &c18PRes{id: nextID}
	}, func(x any) {
		mu.Lock()
		defer mu.Unlock()
		if r, ok := x.(*c18PRes); ok {
			destroyed = append(destroyed, r.id)
		}
		ndestroyCalls++
		if ndestroyCalls == sc.BoomDestroy {
			panic(c18Panic{-4})
		}
	}, WithMaxAge(time.Duration(sc.MaxAge*sc.Unit)))

	now := int64(0)
	idle := map[int]int64{} // id -> virtual time of Put
	var held []*c18PRes
	dead := map[int]bool{}
	known := 0 // highest id handed out so far
	var nget, nreuse, ndestroy, nexpiredSeen int
	for step, op := range sc.Ops {
		switch op.Op {
		case c18PAdvance:
			timex.VerifAdvance(time.Duration(op.X * sc.Unit))
			now += op.X
		case c18PPut:
			if len(held) == 0 { // the Get that would have provided it panicked
				continue
			}
			r := held[int(op.X)%len(held)]
			held = append(held[:int(op.X)%len(held)], held[int(op.X)%len(held)+1:]...)
			p.Put(r)
			idle[r.id] = now
		case c18PGet:
			expired := 0
			for _, t := range idle {
				if t+sc.MaxAge < now {
					expired++
				}
			}
			nexpiredSeen += expired
			var v any
			panicked := false
			if !vk.Within(c18Watchdog, func() { _, panicked = vk.Recover(func() { v = p.Get() }) }) {
				m.Inconclusive("case %d (poolseq) step %d: Get did not return within %v although the pool had an idle resource or room to create (live=%d limit=%d idle=%d of which beyond maxAge=%d)",
					idx, step, c18Watchdog, len(idle)+len(held), sc.Limit, len(idle), expired)
				return false
			}
			nget++
			r, _ := v.(*c18PRes)
			mu.Lock()
			ds := destroyed
			destroyed = nil
			mu.Unlock()
			for _, d := range ds {
				ndestroy++
				if _, ok := idle[d]; !ok {
					m.Violate("C18:pool:destroyed-non-idle", desc, "step %d: Get passed resource #%d to destroy, which was not idle in the pool (held=%v dead=%v)", step, d, len(held), dead[d])
					return true
				}
				delete(idle, d)
				dead[d] = true
			}
			if panicked { // a callback panicked inside this Get: nobody received a resource
				npanics++
				continue
			}
			if r == nil {
				m.Violate("C18:pool:foreign-resource", desc, "step %d: Get returned a value that create never produced", step)
				return true
			}
			if dead[r.id] {
				m.Violate("C18:pool:destroyed-resource-reused", desc, "step %d: Get returned resource #%d which had been passed to destroy", step, r.id)
				return true
			}
			for _, h := range held {
				if h.id == r.id {
					m.Violate("C18:pool:two-holders", desc, "step %d: Get returned resource #%d which is still held", step, r.id)
					return true
				}
			}
			if t, ok := idle[r.id]; ok {
				nreuse++
				if t+sc.MaxAge < now {
					m.Violate("C18:pool:expired-reused", desc, "step %d: Get returned resource #%d which had been idle for %d > maxAge %d time units of %dns (virtual clock); it must be destroyed, not reused", step, r.id, now-t, sc.MaxAge, sc.Unit)
					return true
				}
				delete(idle, r.id)
			} else if r.id <= known {
				m.Violate("C18:pool:foreign-resource", desc, "step %d: Get returned resource #%d which is neither idle nor new", step, r.id)
				return true
			} else {
				known = r.id
				if len(idle)+len(held)+1 > sc.Limit {
					m.Violate("C18:pool:more-than-limit-live", desc, "step %d: Get created resource #%d while %d were alive (limit %d)", step, r.id, len(idle)+len(held), sc.Limit)
					return true
				}
			}
			held = append(held, r)
		}
	}
	m.Count("poolseq_gets", int64(nget))
	m.Count("poolseq_reuses", int64(nreuse))
	m.Count("poolseq_destroys", int64(ndestroy))
	m.Count("poolseq_gets_with_panicking_callback", int64(npanics))
	m.Count("poolseq_idle_beyond_maxage_at_get", int64(nexpiredSeen))
	m.Case(fmt.Sprintf("poolseq%d/%d/%d/%d/%s", sc.Limit, nget, nreuse, ndestroy, vk.Digest(vk.JSON(sc.Ops))), ndestroy > 0)
	if ndestroy > 0 && m.WantSample() && idx%23 == 1 {
		m.Sample(map[string]any{"kind": "pool-sequential-maxage", "limit": sc.Limit, "maxage": sc.MaxAge, "unit_ns": sc.Unit, "ops": len(sc.Ops), "gets": nget,
			"reuses_within_maxage": nreuse, "destroyed_beyond_maxage": ndestroy})
	}
	return true
}
