//go:build verif

package syncx

// C18 — Limit / TimeoutLimit: porcupine against the counter specification,
// a caller-side outstanding gauge for balanced workloads, and the one-sided
// "ErrTimeout never before the timeout elapsed" check (real time, generous).

import (
	"fmt"
	"runtime"
	"sync"
	"sync/atomic"
	"time"

	"github.com/anishathalye/porcupine"
	"verif.local/vk"
)

const (
	c18OpBorrow = iota // blocking Limit.Borrow / TimeoutLimit.Borrow(T)
	c18OpTry
	c18OpReturn
)

type c18LimIn struct {
	Op int
	T  int // timeout in ms (TimeoutLimit.Borrow), 0 = blocking
}

func (i c18LimIn) String() string {
	switch i.Op {
	case c18OpBorrow:
		if i.T > 0 {
			return fmt.Sprintf("Borrow(%dms)", i.T)
		}
		return "Borrow"
	case c18OpTry:
		return "TryBorrow"
	default:
		return "Return"
	}
}

type c18LimOut int

const (
	c18OutOK c18LimOut = iota // borrowed / true / nil
	c18OutNo                  // TryBorrow false / ErrLimitReturn
	c18OutTimeout
	c18OutOther
)

func (o c18LimOut) String() string {
	return [...]string{"ok", "refused", "ErrTimeout", "unexpected-error"}[o]
}

// c18LimitModel: state = outstanding borrows. A completed borrow linearizes only
// where outstanding < n; TryBorrow is refused only when full; Return is an error
// exactly when nothing is outstanding; ErrTimeout changes nothing and is legal in
// any state (the timing side is checked one-sidedly elsewhere).
func c18LimitModel(n int) porcupine.Model {
	return porcupine.Model{
		Init: func() any { return 0 },
		Step: func(st, in, out any) (bool, any) {
			c, i, o := st.(int), in.(c18LimIn), out.(c18LimOut)
			switch i.Op {
			case c18OpBorrow:
				switch {
				case o == c18OutOK:
					return c < n, c + 1
				case o == c18OutTimeout && i.T > 0:
					return true, c
				}
			case c18OpTry:
				switch o {
				case c18OutOK:
					return c < n, c + 1
				case c18OutNo:
					return c >= n, c
				}
			case c18OpReturn:
				switch o {
				case c18OutOK:
					return c > 0, c - 1
				case c18OutNo:
					return c == 0, c
				}
			}
			return false, c
		},
	}
}

type c18LimOp struct {
	Op  int `json:"op"`
	T   int `json:"t,omitempty"`
	Pre int `json:"pre,omitempty"`
}

type c18LimScn struct {
	N        int          `json:"n"`
	Timed    bool         `json:"timed,omitempty"`
	Balanced bool         `json:"balanced,omitempty"` // clients return only what they borrowed
	Procs    int          `json:"procs"`
	Clients  [][]c18LimOp `json:"clients"`
}

const c18LongTimeoutMs = 2000

func c18GenLimit(r interface{ Intn(int) int }, timed bool) c18LimScn {
	sc := c18LimScn{N: 1 + r.Intn(3), Timed: timed, Balanced: r.Intn(3) == 0}
	if r.Intn(10) == 0 {
		// configuration boundary: a limit of 0 lends nothing. TryBorrow is always refused,
		// Return always ErrLimitReturn, a timed Borrow times out. (The blocking Borrow is
		// left out: on an unbuffered channel it would rendezvous with a stray Return.)
		sc.N = 0
	}
	tight := r.Intn(2) == 0
	nclients, percl := 2+r.Intn(5), 2+r.Intn(6)
	if sc.Balanced && r.Intn(3) == 0 {
		nclients, percl = 8+r.Intn(57), 2+r.Intn(4)
	}
	for c := 0; c < nclients; c++ {
		var ops []c18LimOp
		for j := 0; j < percl; j++ {
			op := c18LimOp{Pre: c18PreDelay(r, tight)}
			switch x := r.Intn(10); {
			case x < 3:
				op.Op = c18OpBorrow
				if timed {
					op.T = 1 + r.Intn(3)
					if r.Intn(3) == 0 && sc.N > 0 {
						op.T = c18LongTimeoutMs
					}
				} else if sc.N == 0 {
					op.Op = c18OpTry
				}
			case x < 6:
				op.Op = c18OpTry
			default:
				op.Op = c18OpReturn
			}
			ops = append(ops, op)
		}
		sc.Clients = append(sc.Clients, ops)
	}
	return sc
}

// c18GenLimitContention: capacity 1, waiters with a long timeout against stealers
// that grab the slot with TryBorrow — the woken waiter regularly loses the race
// and must keep waiting for the remaining time, not report a timeout.
func c18GenLimitContention(r interface{ Intn(int) int }) c18LimScn {
	sc := c18LimScn{N: 1, Timed: true, Balanced: true}
	waiters, stealers := 2+r.Intn(3), 2+r.Intn(3)
	for c := 0; c < waiters; c++ {
		var ops []c18LimOp
		for j := 0; j < 6; j++ {
			ops = append(ops, c18LimOp{Op: c18OpBorrow, T: c18LongTimeoutMs, Pre: r.Intn(3)}, c18LimOp{Op: c18OpReturn, Pre: r.Intn(6)})
		}
		sc.Clients = append(sc.Clients, ops)
	}
	for c := 0; c < stealers; c++ {
		var ops []c18LimOp
		for j := 0; j < 12; j++ {
			ops = append(ops, c18LimOp{Op: c18OpTry, Pre: r.Intn(3)}, c18LimOp{Op: c18OpReturn, Pre: r.Intn(5)})
		}
		sc.Clients = append(sc.Clients, ops)
	}
	return sc
}

type c18Limiter interface {
	TryBorrow() bool
	Return() error
}

func c18RunLimit(m *vk.M, idx int, sc c18LimScn) bool {
	name := "limit"
	if sc.Timed {
		name = "timeoutlimit"
	}
	desc := fmt.Sprintf("case=%d;%s;%s", idx, name, vk.JSON(sc))
	m.Current(desc)
	var (
		lim  Limit
		tlim TimeoutLimit
		l    c18Limiter
	)
	if sc.Timed {
		tlim = NewTimeoutLimit(sc.N)
		l = tlim
	} else {
		lim = NewLimit(sc.N)
		l = lim
	}
	var (
		wg        sync.WaitGroup
		start     = make(chan struct{})
		gate      = c18NewGate(int32(len(sc.Clients)))
		gauge     int32 // caller-side outstanding (balanced scenarios)
		gaugeMax  int32
		parked    int32 // clients inside a borrow that can only end through a Return
		progress  int64
		early     int64 // ErrTimeout reported before the timeout elapsed (ns short), 0 = none
		earlyT    int64
		holdErr   int32 // balanced: Return failed although the caller held a borrow
		ntimeouts int64
		inReturn  int32 // clients currently inside Return (which must never block)
	)
	// Return of the harness's own goroutine, guarded: a Return that does not come back is
	// reported by c18ReturnBlocked instead of hanging the monitor
	safeReturn := func() (error, bool) {
		var err error
		ok := vk.Within(c18Watchdog, func() { err = l.Return() })
		return err, ok
	}
	retOut := func(err error) c18LimOut {
		switch err {
		case nil:
			return c18OutOK
		case ErrLimitReturn:
			return c18OutNo
		default:
			return c18OutOther
		}
	}
	logs := make([]*c18OpLog, len(sc.Clients)+2)
	for ci := range sc.Clients {
		logs[ci] = &c18OpLog{}
		wg.Add(1)
		go func(ci int) {
			defer wg.Done()
			lg := logs[ci]
			held := 0
			acquired := func() {
				held++
				if sc.Balanced {
					g := atomic.AddInt32(&gauge, 1)
					for {
						mx := atomic.LoadInt32(&gaugeMax)
						if g <= mx || atomic.CompareAndSwapInt32(&gaugeMax, mx, g) {
							break
						}
					}
				}
			}
			doReturn := func() {
				if sc.Balanced {
					if held == 0 {
						return
					}
					atomic.AddInt32(&gauge, -1)
				}
				call := vk.Seq()
				atomic.AddInt32(&inReturn, 1)
				err := l.Return()
				atomic.AddInt32(&inReturn, -1)
				ret := vk.Seq()
				out := retOut(err)
				lg.add(ci, c18LimIn{Op: c18OpReturn}, call, out, ret)
				if held > 0 {
					held--
				}
				if sc.Balanced && out != c18OutOK {
					atomic.StoreInt32(&holdErr, 1)
				}
			}
			<-start
			gate.wait()
			for _, op := range sc.Clients[ci] {
				c18Delay(op.Pre)
				kind := op.Op
				if kind == c18OpBorrow && sc.Balanced && held > 0 && (!sc.Timed || op.T >= 1000) {
					kind = c18OpTry // a balanced client never parks while holding (no hold-and-wait deadlock)
				}
				switch kind {
				case c18OpBorrow:
					if sc.Timed {
						long := op.T >= 1000
						if long {
							atomic.AddInt32(&parked, 1)
						}
						d := time.Duration(op.T) * time.Millisecond
						t0 := time.Now()
						call := vk.Seq()
						err := tlim.Borrow(d)
						ret := vk.Seq()
						el := time.Since(t0)
						if long {
							atomic.AddInt32(&parked, -1)
						}
						out := c18OutOther
						switch err {
						case nil:
							out = c18OutOK
							acquired()
						case ErrTimeout:
							out = c18OutTimeout
							atomic.AddInt64(&ntimeouts, 1)
							if el < d-2*time.Millisecond {
								atomic.StoreInt64(&early, int64(d-el))
								atomic.StoreInt64(&earlyT, int64(d))
							}
						}
						lg.add(ci, c18LimIn{Op: c18OpBorrow, T: op.T}, call, out, ret)
					} else {
						atomic.AddInt32(&parked, 1)
						call := vk.Seq()
						lim.Borrow()
						ret := vk.Seq()
						atomic.AddInt32(&parked, -1)
						acquired()
						lg.add(ci, c18LimIn{Op: c18OpBorrow}, call, c18OutOK, ret)
					}
				case c18OpTry:
					call := vk.Seq()
					ok := l.TryBorrow()
					ret := vk.Seq()
					out := c18OutNo
					if ok {
						out = c18OutOK
						acquired()
					}
					lg.add(ci, c18LimIn{Op: c18OpTry}, call, out, ret)
				default:
					doReturn()
				}
				atomic.AddInt64(&progress, 1)
			}
			if sc.Balanced {
				for held > 0 {
					doReturn()
				}
			}
		}(ci)
	}
	// drainer: frees a slot when a client is parked in a borrow and nothing moves,
	// so that every operation of the history completes (its ops are part of the history)
	dr := &c18OpLog{}
	drID := len(sc.Clients)
	logs[drID] = dr
	done := make(chan struct{})
	go func() {
		wg.Wait()
		close(done)
	}()
	close(start)
	deadline := time.Now().Add(c18Watchdog)
	lastProg := int64(-1)
	drains := 0
	// poll interval: 150us while things move, doubled (up to 20ms) after every drain that
	// brought no progress, so that a descheduled client does not flood the history
	const basePoll = 150 * time.Microsecond
	poll := basePoll
	timer := time.NewTimer(poll)
	defer timer.Stop()
loop:
	for {
		select {
		case <-done:
			break loop
		case <-timer.C:
		}
		p := atomic.LoadInt64(&progress)
		if p != lastProg {
			poll = basePoll
		}
		if atomic.LoadInt32(&parked) > 0 && p == lastProg && (sc.Timed || !sc.Balanced) {
			drains++
			if poll *= 2; poll > 20*time.Millisecond {
				poll = 20 * time.Millisecond
			}
			got := false
			if sc.Timed {
				call := vk.Seq()
				got = l.TryBorrow()
				ret := vk.Seq()
				out := c18OutNo
				if got {
					out = c18OutOK
				}
				dr.add(drID, c18LimIn{Op: c18OpTry}, call, out, ret)
			}
			if got || !sc.Balanced {
				call := vk.Seq()
				err, back := safeReturn()
				if !back {
					c18ReturnBlocked(m, idx, name, desc, "the harness's drain Return")
					return false
				}
				ret := vk.Seq()
				dr.add(drID, c18LimIn{Op: c18OpReturn}, call, retOut(err), ret)
			}
		}
		lastProg = p
		timer.Reset(poll)
		if time.Now().After(deadline) {
			if atomic.LoadInt32(&inReturn) > 0 {
				c18ReturnBlocked(m, idx, name, desc, fmt.Sprintf("%d client(s)", atomic.LoadInt32(&inReturn)))
				return false
			}
			m.Inconclusive("case %d (%s): clients still parked after %v and %d drain operations", idx, name, c18Watchdog, drains)
			return false
		}
	}
	// sequential epilogue by the harness (part of the history)
	ep := &c18OpLog{}
	epID := drID + 1
	logs[epID] = ep
	tryN, retN := 0, 0
	for i := 0; i < sc.N+1; i++ {
		call := vk.Seq()
		ok := l.TryBorrow()
		ret := vk.Seq()
		out := c18OutNo
		if ok {
			out = c18OutOK
			tryN++
		}
		ep.add(epID, c18LimIn{Op: c18OpTry}, call, out, ret)
	}
	for i := 0; i < tryN+1; i++ {
		call := vk.Seq()
		err, back := safeReturn()
		if !back {
			c18ReturnBlocked(m, idx, name, desc, "the harness's epilogue Return")
			return false
		}
		ret := vk.Seq()
		out := retOut(err)
		if out == c18OutOK {
			retN++
		}
		ep.add(epID, c18LimIn{Op: c18OpReturn}, call, out, ret)
	}

	ops := c18Merge(logs)
	violated := false
	fail := func(class, format string, a ...any) {
		if !violated {
			m.Violate("C18:"+name+":"+class, desc, format, a...)
		}
		violated = true
	}
	if e := atomic.LoadInt64(&early); e != 0 {
		fail("timeout-before-elapsed", "Borrow(%v) returned ErrTimeout %v before its timeout had elapsed (measured at the caller, 2ms slack)", time.Duration(atomic.LoadInt64(&earlyT)), time.Duration(e))
	}
	if sc.Balanced {
		if mx := atomic.LoadInt32(&gaugeMax); int(mx) > sc.N {
			fail("more-than-n-outstanding", "limit %d: %d borrows were outstanding at the same time (counted at the callers: after a borrow returned, before its Return was called)", sc.N, mx)
		}
		if atomic.LoadInt32(&holdErr) != 0 {
			fail("return-refused-while-holding", "limit %d: Return reported an error to a caller that held a borrow", sc.N)
		}
		if tryN != sc.N {
			fail("capacity-after-quiescence", "limit %d: with nothing outstanding %d of %d TryBorrow calls succeeded (want exactly %d)", sc.N, tryN, sc.N+1, sc.N)
		} else if retN != tryN {
			fail("return-without-borrow", "limit %d: after %d borrows, %d of %d Return calls succeeded (the extra one must be an error)", sc.N, tryN, retN, tryN+1)
		}
	}
	checked := false
	if !violated && len(ops) <= 70 {
		checked = true
		c18Linearizable(m, "C18:"+name+":not-linearizable", desc, c18LimitModel(sc.N), ops)
	}
	var nref int
	for _, o := range ops {
		in, out := o.Input.(c18LimIn), o.Output.(c18LimOut)
		m.Count(name+"_"+in.String0(), 1)
		if out == c18OutNo || out == c18OutTimeout {
			nref++
		}
		if out == c18OutOther {
			fail("unexpected-error", "operation %v returned an error that is neither ErrLimitReturn nor ErrTimeout", in)
		}
	}
	m.Count(name+"_refused_or_timed_out", int64(nref))
	m.Count(name+"_timeouts", atomic.LoadInt64(&ntimeouts))
	m.Count(name+"_drain_ops", int64(len(dr.ops)))
	m.Max(name+"_max_outstanding_seen_by_callers", int64(atomic.LoadInt32(&gaugeMax)))
	if !checked {
		m.Count(name+"_histories_gauge_only", 1)
	}
	if sc.N == 0 {
		m.Count(name+"_histories_with_limit_zero", 1)
	}
	m.Case(name+c18OrderDigest(ops), nref > 0)
	if nref > 0 && m.WantSample() && idx%29 == 1 {
		h := c18Render(ops, true)
		if len(h) > 900 {
			h = h[:900] + "…"
		}
		m.Sample(map[string]any{"kind": name, "n": sc.N, "clients": len(sc.Clients), "balanced": sc.Balanced, "gomaxprocs": sc.Procs, "ops": len(ops),
			"refused_or_timed_out": nref, "timeouts": atomic.LoadInt64(&ntimeouts), "linearizability_checked": checked, "history": h})
	}
	return true
}

// String0 is the op name without arguments (counter key).
func (i c18LimIn) String0() string {
	switch i.Op {
	case c18OpBorrow:
		if i.T > 0 {
			return "timed_borrow"
		}
		return "borrow"
	case c18OpTry:
		return "tryborrow"
	default:
		return "return"
	}
}

// c18ReturnBlocked classifies a Return that has not come back after the watchdog. Return
// is total in the sequential specification (nil or ErrLimitReturn) and never blocks on a
// correct tree, so a goroutine that the dump shows parked inside Limit.Return is a
// violation; without that frame in the dump the observation stays inconclusive.
func c18ReturnBlocked(m *vk.M, idx int, name, desc, who string) {
	gs := vk.GoroutinesIn("syncx.Limit.Return")
	if len(gs) == 0 {
		m.Inconclusive("case %d (%s): %s did not come back from Return within %v but no goroutine is parked in Limit.Return", idx, name, who, c18Watchdog)
		return
	}
	g := gs[0]
	if len(g) > 700 {
		g = g[:700]
	}
	m.Violate("C18:"+name+":return-blocked", desc, "%s has been inside Return for more than %v; %d goroutine(s) parked in Limit.Return (a Return without an outstanding borrow must report ErrLimitReturn, not wait for somebody else's borrow):\n%s", who, c18Watchdog, len(gs), g)
}

// ---------------------------------------------------------------- concurrent double Returns

// c18DblScn: per round the harness borrows B slots (all of them succeed: the limit is
// idle), then Workers goroutines leave a spinning barrier together and each calls Return
// once. The rounds are separated by quiescence, so exactly B of the Returns may succeed
// and the others must report ErrLimitReturn; none may block.
type c18DblScn struct {
	N       int  `json:"n"`
	Timed   bool `json:"timed,omitempty"`
	Workers int  `json:"workers"`
	Rounds  int  `json:"rounds"`
	Procs   int  `json:"procs"`
}

func c18GenDbl(r interface{ Intn(int) int }) c18DblScn {
	sc := c18DblScn{N: 1 + r.Intn(3), Timed: r.Intn(3) == 0, Workers: 2 + r.Intn(5), Rounds: 100 + r.Intn(200)}
	if r.Intn(4) == 0 {
		sc.Rounds = 4 + r.Intn(5) // short enough for the linearizability checker
	}
	return sc
}

func c18RunDbl(m *vk.M, idx int, sc c18DblScn) bool {
	name := "limit"
	var l c18Limiter
	if sc.Timed {
		name = "timeoutlimit"
		l = NewTimeoutLimit(sc.N)
	} else {
		l = NewLimit(sc.N)
	}
	desc := fmt.Sprintf("case=%d;%s-double-return;%s", idx, name, vk.JSON(sc))
	m.Current(desc)
	W := int32(sc.Workers)
	arrive := make([]int32, sc.Rounds)
	finished := make([]int32, sc.Rounds)
	okCnt := make([]int32, sc.Rounds)
	other := int32(0)
	borrowed := make([]int32, sc.Rounds)
	proceed := make([]int32, sc.Rounds) // set by the harness once the round's borrows are done
	logs := make([]*c18OpLog, sc.Workers+1)
	var wg sync.WaitGroup
	var abort int32
	for w := 0; w < sc.Workers; w++ {
		logs[w] = &c18OpLog{}
		wg.Add(1)
		go func(w int) {
			defer wg.Done()
			for r := 0; r < sc.Rounds; r++ {
				for i := 0; atomic.LoadInt32(&proceed[r]) == 0; i++ {
					if atomic.LoadInt32(&abort) != 0 {
						return
					}
					if i%32 == 31 {
						runtime.Gosched()
					}
				}
				c18SpinBarrier(&arrive[r], W)
				call := vk.Seq()
				err := l.Return()
				ret := vk.Seq()
				out := c18OutOther
				switch err {
				case nil:
					out = c18OutOK
					atomic.AddInt32(&okCnt[r], 1)
				case ErrLimitReturn:
					out = c18OutNo
				default:
					atomic.AddInt32(&other, 1)
				}
				logs[w].add(w, c18LimIn{Op: c18OpReturn}, call, out, ret)
				atomic.AddInt32(&finished[r], 1)
			}
		}(w)
	}
	hl := &c18OpLog{}
	logs[sc.Workers] = hl
	rnd := uint32(idx)*2654435761 + 12345
	var nok, nrefused int64
	for r := 0; r < sc.Rounds; r++ {
		rnd = rnd*1664525 + 1013904223
		b := 1 + int(rnd>>16)%sc.N // borrows of this round: 1..n, fewer than the returners
		if b >= sc.Workers {
			b = sc.Workers - 1
		}
		for i := 0; i < b; i++ {
			call := vk.Seq()
			ok := l.TryBorrow()
			ret := vk.Seq()
			out := c18OutNo
			if ok {
				out = c18OutOK
				borrowed[r]++
			}
			hl.add(sc.Workers, c18LimIn{Op: c18OpTry}, call, out, ret)
		}
		atomic.StoreInt32(&proceed[r], 1)
		if !vk.WaitUntil(c18Watchdog, func() bool { return atomic.LoadInt32(&finished[r]) == W }) {
			atomic.StoreInt32(&abort, 1)
			c18ReturnBlocked(m, idx, name, desc, fmt.Sprintf("round %d: %d of %d concurrent Return calls (for %d outstanding borrows)", r, W-atomic.LoadInt32(&finished[r]), W, borrowed[r]))
			return false
		}
		got := atomic.LoadInt32(&okCnt[r])
		nok += int64(got)
		nrefused += int64(W - got)
		if got != borrowed[r] {
			atomic.StoreInt32(&abort, 1)
			m.Violate("C18:"+name+":double-return-accepted", desc, "round %d: %d borrows were outstanding (limit %d, nothing else in flight) and %d goroutines called Return concurrently: %d of them succeeded, want exactly %d (the others return without having borrowed and must get ErrLimitReturn)",
				r, borrowed[r], sc.N, W, got, borrowed[r])
			c18Join(&wg)
			return true
		}
	}
	if !c18Join(&wg) {
		m.Inconclusive("case %d (%s double return): workers did not finish", idx, name)
		return false
	}
	if atomic.LoadInt32(&other) != 0 {
		m.Violate("C18:"+name+":unexpected-error", desc, "Return returned an error that is neither nil nor ErrLimitReturn")
		return true
	}
	ops := c18Merge(logs)
	if len(ops) <= 70 {
		c18Linearizable(m, "C18:"+name+":not-linearizable", desc, c18LimitModel(sc.N), ops)
	}
	m.Count(name+"_double_return_rounds", int64(sc.Rounds))
	m.Count(name+"_concurrent_returns_succeeded", nok)
	m.Count(name+"_concurrent_returns_refused", nrefused)
	m.Case(fmt.Sprintf("%sdbl%d/%d/%d/%d", name, sc.N, sc.Workers, sc.Rounds, nok), nrefused > 0)
	if m.WantSample() && idx%17 == 1 {
		m.Sample(map[string]any{"kind": name + "-concurrent-double-return", "n": sc.N, "workers": sc.Workers, "rounds": sc.Rounds, "gomaxprocs": sc.Procs,
			"returns_succeeded": nok, "returns_refused_ErrLimitReturn": nrefused})
	}
	return true
}
