//go:build verif

package syncx

// C18 — Limit / TimeoutLimit: porcupine against the counter specification,
// a caller-side outstanding gauge for balanced workloads, and the one-sided
// "ErrTimeout never before the timeout elapsed" check (real time, generous).

import (
	"fmt"
	"sync"
	"sync/atomic"
	"time"

	"github.com/anishathalye/porcupine"
	"verif.local/vk"
)

const (
	c18OpBorrow = iota // blocking Limit.Borrow / TimeoutLimit.Borrow(T)
	c18OpTry
	c18OpReturn
)

type c18LimIn struct {
	Op int
	T  int // timeout in ms (TimeoutLimit.Borrow), 0 = blocking
}

func (i c18LimIn) String() string {
	switch i.Op {
	case c18OpBorrow:
		if i.T > 0 {
			return fmt.Sprintf("Borrow(%dms)", i.T)
		}
		return "Borrow"
	case c18OpTry:
		return "TryBorrow"
	default:
		return "Return"
	}
}

type c18LimOut int

const (
	c18OutOK c18LimOut = iota // borrowed / true / nil
	c18OutNo                  // TryBorrow false / ErrLimitReturn
	c18OutTimeout
	c18OutOther
)

func (o c18LimOut) String() string {
	return [...]string{"ok", "refused", "ErrTimeout", "unexpected-error"}[o]
}

// c18LimitModel: state = outstanding borrows. A completed borrow linearizes only
// where outstanding < n; TryBorrow is refused only when full; Return is an error
// exactly when nothing is outstanding; ErrTimeout changes nothing and is legal in
// any state (the timing side is checked one-sidedly elsewhere).
func c18LimitModel(n int) porcupine.Model {
	return porcupine.Model{
		Init: func() any { return 0 },
		Step: func(st, in, out any) (bool, any) {
			c, i, o := st.(int), in.(c18LimIn), out.(c18LimOut)
			switch i.Op {
			case c18OpBorrow:
				switch {
				case o == c18OutOK:
					return c < n, c + 1
				case o == c18OutTimeout && i.T > 0:
					return true, c
				}
			case c18OpTry:
				switch o {
				case c18OutOK:
					return c < n, c + 1
				case c18OutNo:
					return c >= n, c
				}
			case c18OpReturn:
				switch o {
				case c18OutOK:
					return c > 0, c - 1
				case c18OutNo:
					return c == 0, c
				}
			}
			return false, c
		},
	}
}

type c18LimOp struct {
	Op  int `json:"op"`
	T   int `json:"t,omitempty"`
	Pre int `json:"pre,omitempty"`
}

type c18LimScn struct {
	N        int          `json:"n"`
	Timed    bool         `json:"timed,omitempty"`
	Balanced bool         `json:"balanced,omitempty"` // clients return only what they borrowed
	Procs    int          `json:"procs"`
	Clients  [][]c18LimOp `json:"clients"`
}

const c18LongTimeoutMs = 2000

func c18GenLimit(r interface{ Intn(int) int }, timed bool) c18LimScn {
	sc := c18LimScn{N: 1 + r.Intn(3), Timed: timed, Balanced: r.Intn(3) == 0}
	tight := r.Intn(2) == 0
	nclients, percl := 2+r.Intn(5), 2+r.Intn(6)
	if sc.Balanced && r.Intn(3) == 0 {
		nclients, percl = 8+r.Intn(57), 2+r.Intn(4)
	}
	for c := 0; c < nclients; c++ {
		var ops []c18LimOp
		for j := 0; j < percl; j++ {
			op := c18LimOp{Pre: c18PreDelay(r, tight)}
			switch x := r.Intn(10); {
			case x < 3:
				op.Op = c18OpBorrow
				if timed {
					op.T = 1 + r.Intn(3)
					if r.Intn(3) == 0 {
						op.T = c18LongTimeoutMs
					}
				}
			case x < 6:
				op.Op = c18OpTry
			default:
				op.Op = c18OpReturn
			}
			ops = append(ops, op)
		}
		sc.Clients = append(sc.Clients, ops)
	}
	return sc
}

// c18GenLimitContention: capacity 1, waiters with a long timeout against stealers
// that grab the slot with TryBorrow — the woken waiter regularly loses the race
// and must keep waiting for the remaining time, not report a timeout.
func c18GenLimitContention(r interface{ Intn(int) int }) c18LimScn {
	sc := c18LimScn{N: 1, Timed: true, Balanced: true}
	waiters, stealers := 2+r.Intn(3), 2+r.Intn(3)
	for c := 0; c < waiters; c++ {
		var ops []c18LimOp
		for j := 0; j < 6; j++ {
			ops = append(ops, c18LimOp{Op: c18OpBorrow, T: c18LongTimeoutMs, Pre: r.Intn(3)}, c18LimOp{Op: c18OpReturn, Pre: r.Intn(6)})
		}
		sc.Clients = append(sc.Clients, ops)
	}
	for c := 0; c < stealers; c++ {
		var ops []c18LimOp
		for j := 0; j < 12; j++ {
			ops = append(ops, c18LimOp{Op: c18OpTry, Pre: r.Intn(3)}, c18LimOp{Op: c18OpReturn, Pre: r.Intn(5)})
		}
		sc.Clients = append(sc.Clients, ops)
	}
	return sc
}

type c18Limiter interface {
	TryBorrow() bool
	Return() error
}

func c18RunLimit(m *vk.M, idx int, sc c18LimScn) bool {
	name := "limit"
	if sc.Timed {
		name = "timeoutlimit"
	}
	desc := fmt.Sprintf("case=%d;%s;%s", idx, name, vk.JSON(sc))
	m.Current(desc)
	var (
		lim  Limit
		tlim TimeoutLimit
		l    c18Limiter
	)
	if sc.Timed {
		tlim = NewTimeoutLimit(sc.N)
		l = tlim
	} else {
		lim = NewLimit(sc.N)
		l = lim
	}
	var (
		wg        sync.WaitGroup
		start     = make(chan struct{})
		gate      = c18NewGate(int32(len(sc.Clients)))
		gauge     int32 // caller-side outstanding (balanced scenarios)
		gaugeMax  int32
		parked    int32 // clients inside a borrow that can only end through a Return
		progress  int64
		early     int64 // ErrTimeout reported before the timeout elapsed (ns short), 0 = none
		earlyT    int64
		holdErr   int32 // balanced: Return failed although the caller held a borrow
		ntimeouts int64
	)
	retOut := func(err error) c18LimOut {
		switch err {
		case nil:
			return c18OutOK
		case ErrLimitReturn:
			return c18OutNo
		default:
			return c18OutOther
		}
	}
	logs := make([]*c18OpLog, len(sc.Clients)+2)
	for ci := range sc.Clients {
		logs[ci] = &c18OpLog{}
		wg.Add(1)
		go func(ci int) {
			defer wg.Done()
			lg := logs[ci]
			held := 0
			acquired := func() {
				held++
				if sc.Balanced {
					g := atomic.AddInt32(&gauge, 1)
					for {
						mx := atomic.LoadInt32(&gaugeMax)
						if g <= mx || atomic.CompareAndSwapInt32(&gaugeMax, mx, g) {
							break
						}
					}
				}
			}
			doReturn := func() {
				if sc.Balanced {
					if held == 0 {
						return
					}
					atomic.AddInt32(&gauge, -1)
				}
				call := vk.Seq()
				err := l.Return()
				ret := vk.Seq()
				out := retOut(err)
				lg.add(ci, c18LimIn{Op: c18OpReturn}, call, out, ret)
				if held > 0 {
					held--
				}
				if sc.Balanced && out != c18OutOK {
					atomic.StoreInt32(&holdErr, 1)
				}
			}
			<-start
			gate.wait()
			for _, op := range sc.Clients[ci] {
				c18Delay(op.Pre)
				kind := op.Op
				if kind == c18OpBorrow && sc.Balanced && held > 0 && (!sc.Timed || op.T >= 1000) {
					kind = c18OpTry // a balanced client never parks while holding (no hold-and-wait deadlock)
				}
				switch kind {
				case c18OpBorrow:
					if sc.Timed {
						long := op.T >= 1000
						if long {
							atomic.AddInt32(&parked, 1)
						}
						d := time.Duration(op.T) * time.Millisecond
						t0 := time.Now()
						call := vk.Seq()
						err := tlim.Borrow(d)
						ret := vk.Seq()
						el := time.Since(t0)
						if long {
							atomic.AddInt32(&parked, -1)
						}
						out := c18OutOther
						switch err {
						case nil:
							out = c18OutOK
							acquired()
						case ErrTimeout:
							out = c18OutTimeout
							atomic.AddInt64(&ntimeouts, 1)
							if el < d-2*time.Millisecond {
								atomic.StoreInt64(&early, int64(d-el))
								atomic.StoreInt64(&earlyT, int64(d))
							}
						}
						lg.add(ci, c18LimIn{Op: c18OpBorrow, T: op.T}, call, out, ret)
					} else {
						atomic.AddInt32(&parked, 1)
						call := vk.Seq()
						lim.Borrow()
						ret := vk.Seq()
						atomic.AddInt32(&parked, -1)
						acquired()
						lg.add(ci, c18LimIn{Op: c18OpBorrow}, call, c18OutOK, ret)
					}
				case c18OpTry:
					call := vk.Seq()
					ok := l.TryBorrow()
					ret := vk.Seq()
					out := c18OutNo
					if ok {
						out = c18OutOK
						acquired()
					}
					lg.add(ci, c18LimIn{Op: c18OpTry}, call, out, ret)
				default:
					doReturn()
				}
				atomic.AddInt64(&progress, 1)
			}
			if sc.Balanced {
				for held > 0 {
					doReturn()
				}
			}
		}(ci)
	}
	// drainer: frees a slot when a client is parked in a borrow and nothing moves,
	// so that every operation of the history completes (its ops are part of the history)
	dr := &c18OpLog{}
	drID := len(sc.Clients)
	logs[drID] = dr
	done := make(chan struct{})
	go func() {
		wg.Wait()
		close(done)
	}()
	close(start)
	deadline := time.Now().Add(c18Watchdog)
	lastProg := int64(-1)
	drains := 0
	// poll interval: 150us while things move, doubled (up to 20ms) after every drain that
	// brought no progress, so that a descheduled client does not flood the history
	const basePoll = 150 * time.Microsecond
	poll := basePoll
	timer := time.NewTimer(poll)
	defer timer.Stop()
loop:
	for {
		select {
		case <-done:
			break loop
		case <-timer.C:
		}
		p := atomic.LoadInt64(&progress)
		if p != lastProg {
			poll = basePoll
		}
		if atomic.LoadInt32(&parked) > 0 && p == lastProg && (sc.Timed || !sc.Balanced) {
			drains++
			if poll *= 2; poll > 20*time.Millisecond {
				poll = 20 * time.Millisecond
			}
			got := false
			if sc.Timed {
				call := vk.Seq()
				got = l.TryBorrow()
				ret := vk.Seq()
				out := c18OutNo
				if got {
					out = c18OutOK
				}
				dr.add(drID, c18LimIn{Op: c18OpTry}, call, out, ret)
			}
			if got || !sc.Balanced {
				call := vk.Seq()
				err := l.Return()
				ret := vk.Seq()
				dr.add(drID, c18LimIn{Op: c18OpReturn}, call, retOut(err), ret)
			}
		}
		lastProg = p
		timer.Reset(poll)
		if time.Now().After(deadline) {
			m.Inconclusive("case %d (%s): clients still parked after %v and %d drain operations", idx, name, c18Watchdog, drains)
			return false
		}
	}
	// sequential epilogue by the harness (part of the history)
	ep := &c18OpLog{}
	epID := drID + 1
	logs[epID] = ep
	tryN, retN := 0, 0
	for i := 0; i < sc.N+1; i++ {
		call := vk.Seq()
		ok := l.TryBorrow()
		ret := vk.Seq()
		out := c18OutNo
		if ok {
			out = c18OutOK
			tryN++
		}
		ep.add(epID, c18LimIn{Op: c18OpTry}, call, out, ret)
	}
	for i := 0; i < tryN+1; i++ {
		call := vk.Seq()
		err := l.Return()
		ret := vk.Seq()
		out := retOut(err)
		if out == c18OutOK {
			retN++
		}
		ep.add(epID, c18LimIn{Op: c18OpReturn}, call, out, ret)
	}

	ops := c18Merge(logs)
	violated := false
	fail := func(class, format string, a ...any) {
		if !violated {
			m.Violate("C18:"+name+":"+class, desc, format, a...)
		}
		violated = true
	}
	if e := atomic.LoadInt64(&early); e != 0 {
		fail("timeout-before-elapsed", "Borrow(%v) returned ErrTimeout %v before its timeout had elapsed (measured at the caller, 2ms slack)", time.Duration(atomic.LoadInt64(&earlyT)), time.Duration(e))
	}
	if sc.Balanced {
		if mx := atomic.LoadInt32(&gaugeMax); int(mx) > sc.N {
			fail("more-than-n-outstanding", "limit %d: %d borrows were outstanding at the same time (counted at the callers: after a borrow returned, before its Return was called)", sc.N, mx)
		}
		if atomic.LoadInt32(&holdErr) != 0 {
			fail("return-refused-while-holding", "limit %d: Return reported an error to a caller that held a borrow", sc.N)
		}
		if tryN != sc.N {
			fail("capacity-after-quiescence", "limit %d: with nothing outstanding %d of %d TryBorrow calls succeeded (want exactly %d)", sc.N, tryN, sc.N+1, sc.N)
		} else if retN != tryN {
			fail("return-without-borrow", "limit %d: after %d borrows, %d of %d Return calls succeeded (the extra one must be an error)", sc.N, tryN, retN, tryN+1)
		}
	}
	checked := false
	if !violated && len(ops) <= 70 {
		checked = true
		c18Linearizable(m, "C18:"+name+":not-linearizable", desc, c18LimitModel(sc.N), ops)
	}
	var nref int
	for _, o := range ops {
		in, out := o.Input.(c18LimIn), o.Output.(c18LimOut)
		m.Count(name+"_"+in.String0(), 1)
		if out == c18OutNo || out == c18OutTimeout {
			nref++
		}
		if out == c18OutOther {
			fail("unexpected-error", "operation %v returned an error that is neither ErrLimitReturn nor ErrTimeout", in)
		}
	}
	m.Count(name+"_refused_or_timed_out", int64(nref))
	m.Count(name+"_timeouts", atomic.LoadInt64(&ntimeouts))
	m.Count(name+"_drain_ops", int64(len(dr.ops)))
	m.Max(name+"_max_outstanding_seen_by_callers", int64(atomic.LoadInt32(&gaugeMax)))
	if !checked {
		m.Count(name+"_histories_gauge_only", 1)
	}
	m.Case(name+c18OrderDigest(ops), nref > 0)
	if nref > 0 && m.WantSample() && idx%29 == 1 {
		h := c18Render(ops, true)
		if len(h) > 900 {
			h = h[:900] + "…"
		}
		m.Sample(map[string]any{"kind": name, "n": sc.N, "clients": len(sc.Clients), "balanced": sc.Balanced, "gomaxprocs": sc.Procs, "ops": len(ops),
			"refused_or_timed_out": nref, "timeouts": atomic.LoadInt64(&ntimeouts), "linearizability_checked": checked, "history": h})
	}
	return true
}

// String0 is the op name without arguments (counter key).
func (i c18LimIn) String0() string {
	switch i.Op {
	case c18OpBorrow:
		if i.T > 0 {
			return "timed_borrow"
		}
		return "borrow"
	case c18OpTry:
		return "tryborrow"
	default:
		return "return"
	}
}
