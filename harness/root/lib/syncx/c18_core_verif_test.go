//go:build verif

package syncx

// C18 — synchronisation primitives (DESIGN.md §3 C18): shared helpers.
//
// Every history records call/return stamps at the caller boundary from ONE
// process-wide atomic sequence (vk.Seq). Recorded histories are checked either
// with porcupine against the primitive's sequential specification or with direct
// interval oracles. The harness's own shared state is atomics / mutexes only, so
// the -race run reports races of the library, never of the monitor.

import (
	"fmt"
	"runtime"
	"sort"
	"strings"
	"sync"
	"sync/atomic"
	"time"

	"github.com/anishathalye/porcupine"
	"verif.local/vk"
)

const (
	c18Watchdog     = 25 * time.Second // generous wall-clock watchdog: firing is inconclusive
	c18CheckTimeout = 10 * time.Second // porcupine cap per history: Unknown is inconclusive
)

var c18Sink int64

// c18Delay perturbs the schedule. The code d comes from the scenario (PRNG), so a
// scenario is a complete description of what each client does.
func c18Delay(d int) {
	switch {
	case d <= 0:
	case d <= 3:
		for i := 0; i < d; i++ {
			runtime.Gosched()
		}
	case d <= 7:
		// busy work of a few microseconds, with one yield so GOMAXPROCS=1 interleaves
		n := (d - 3) * 400
		for i := 0; i < n; i++ {
			atomic.AddInt64(&c18Sink, 1)
		}
		runtime.Gosched()
	default:
		time.Sleep(time.Duration(d-7) * 30 * time.Microsecond)
	}
}

// c18RandDelay draws a delay code: mostly nothing / yields, sometimes spins, rarely sleeps.
func c18RandDelay(r interface{ Intn(int) int }) int {
	switch x := r.Intn(20); {
	case x < 7:
		return 0
	case x < 13:
		return 1 + r.Intn(3)
	case x < 18:
		return 4 + r.Intn(4)
	default:
		return 8 + r.Intn(4)
	}
}

// c18PreDelay: in a "tight" scenario clients issue their operations back to back
// (operations that take nanoseconds only overlap that way).
func c18PreDelay(r interface{ Intn(int) int }, tight bool) int {
	if tight {
		if r.Intn(5) == 0 {
			return 1
		}
		return 0
	}
	return c18RandDelay(r)
}

// c18ProcsFor spreads the GOMAXPROCS sweep over the case indexes of one test:
// the cases are cut into len(c18ProcSet) consecutive blocks.
var c18ProcSet = []int{4, 1, 16, 2}

func c18SetProcs(idx, total int) int {
	blk := total / len(c18ProcSet)
	if blk == 0 {
		blk = 1
	}
	p := c18ProcSet[((idx-1)/blk)%len(c18ProcSet)]
	if runtime.GOMAXPROCS(0) != p {
		runtime.GOMAXPROCS(p)
	}
	return p
}

func c18RestoreProcs() func() {
	old := runtime.GOMAXPROCS(0)
	return func() { runtime.GOMAXPROCS(old) }
}

// c18Join waits for wg with the watchdog; false = still running (inconclusive).
func c18Join(wg *sync.WaitGroup) bool {
	done := make(chan struct{})
	go func() {
		wg.Wait()
		close(done)
	}()
	t := time.NewTimer(c18Watchdog)
	defer t.Stop()
	select {
	case <-done:
		return true
	case <-t.C:
		return false
	}
}

// c18OpLog is a per-client (unshared) list of porcupine operations.
type c18OpLog struct{ ops []porcupine.Operation }

func (l *c18OpLog) add(client int, in any, call int64, out any, ret int64) {
	l.ops = append(l.ops, porcupine.Operation{ClientId: client, Input: in, Call: call, Output: out, Return: ret})
}

func c18Merge(logs []*c18OpLog) []porcupine.Operation {
	var all []porcupine.Operation
	for _, l := range logs {
		if l != nil {
			all = append(all, l.ops...)
		}
	}
	sort.Slice(all, func(i, j int) bool { return all[i].Call < all[j].Call })
	return all
}

// c18Render prints a history compactly (for witnesses and digests). Stamps are
// renumbered 1..2n so that the text depends only on the observed order.
func c18Render(ops []porcupine.Operation, withStamps bool) string {
	type ev struct {
		t    int64
		call bool
		i    int
	}
	evs := make([]ev, 0, 2*len(ops))
	for i, o := range ops {
		evs = append(evs, ev{o.Call, true, i}, ev{o.Return, false, i})
	}
	sort.Slice(evs, func(a, b int) bool { return evs[a].t < evs[b].t })
	rank := map[int64]int{}
	for i, e := range evs {
		rank[e.t] = i + 1
	}
	var sb strings.Builder
	for _, o := range ops {
		if withStamps {
			fmt.Fprintf(&sb, "[%d..%d] ", rank[o.Call], rank[o.Return])
		}
		fmt.Fprintf(&sb, "c%d %v->%v; ", o.ClientId, o.Input, o.Output)
	}
	return sb.String()
}

// c18OrderDigest hashes the observed event order (who overlapped whom) + outputs.
func c18OrderDigest(ops []porcupine.Operation) string {
	return vk.Digest(c18Render(ops, true))
}

// c18Linearizable checks one history. Unknown (checker timeout) is inconclusive,
// never a violation. Returns false only for Illegal.
func c18Linearizable(m *vk.M, sig, desc string, model porcupine.Model, ops []porcupine.Operation) bool {
	m.Count("porcupine_concurrent_op_pairs", int64(c18OverlapPairs(ops)))
	t0 := time.Now()
	res, info := porcupine.CheckOperationsVerbose(model, ops, c18CheckTimeout)
	m.Max("porcupine_slowest_check_ms", time.Since(t0).Milliseconds()) // evidence only
	switch res {
	case porcupine.Ok:
		m.Count("porcupine_ok", 1)
		return true
	case porcupine.Unknown:
		m.Count("porcupine_unknown", 1)
		m.Inconclusive("porcupine timed out after %v on a history of %d ops (%s)", c18CheckTimeout, len(ops), sig)
		return true
	default:
		longest := 0
		for _, part := range info.PartialLinearizations() {
			for _, lin := range part {
				if len(lin) > longest {
					longest = len(lin)
				}
			}
		}
		m.Count("porcupine_illegal", 1)
		m.Violate(sig, desc, "history of %d ops is not linearizable w.r.t. the sequential specification (longest linearizable prefix set: %d ops). history (stamps renumbered): %s",
			len(ops), longest, c18Render(ops, true))
		return false
	}
}

// c18Interval is a closed stamp interval.
type c18Interval struct{ a, b int64 }

func (x c18Interval) intersects(y c18Interval) bool { return x.a < y.b && y.a < x.b }

// c18Gate lets all clients of a history leave at (nearly) the same instant: a
// closed channel wakes goroutines one after the other, which serialises histories
// whose operations take nanoseconds.
type c18Gate struct{ cnt, n int32 }

func c18NewGate(n int32) *c18Gate { return &c18Gate{n: n} }

func (g *c18Gate) wait() {
	atomic.AddInt32(&g.cnt, 1)
	for i := 0; atomic.LoadInt32(&g.cnt) < g.n; i++ {
		if i%32 == 31 {
			runtime.Gosched()
		}
	}
}

// c18OverlapPairs counts pairs of operations whose intervals intersect.
func c18OverlapPairs(ops []porcupine.Operation) int {
	n := 0
	for i := range ops {
		for j := i + 1; j < len(ops) && ops[j].Call < ops[i].Return; j++ {
			n++
		}
	}
	return n
}
