//go:build verif

package syncx

// C18 — SingleFlight / LockedCalls / ResourceManager / ManagedResource:
// direct interval oracles over call/return/execution stamps.

import (
	"fmt"
	"io"
	"sort"
	"strings"
	"sync"
	"sync/atomic"
	"time"

	"verif.local/vk"
)

// ---------------------------------------------------------------- scenarios

type c18FCall struct {
	K    int  `json:"k"`
	Ex   bool `json:"ex,omitempty"`   // SingleFlight: use DoEx
	Pre  int  `json:"pre,omitempty"`  // delay code before the call
	In   int  `json:"in,omitempty"`   // delay code inside the callback
	Fail bool `json:"fail,omitempty"` // callback returns an error
	Boom bool `json:"boom,omitempty"` // callback panics (the calling goroutine recovers)
}

// c18Panic is the value thrown by panicking callbacks.
type c18Panic struct{ id int64 }

type c18FScn struct {
	Kind    string       `json:"kind"` // sf | lc
	Keys    int          `json:"keys"`
	Procs   int          `json:"procs"`
	Clients [][]c18FCall `json:"clients"`
}

type c18Err struct{ id int64 }

func (e c18Err) Error() string { return fmt.Sprintf("c18-error-%d", e.id) }

func c18GenFlight(r interface{ Intn(int) int }, kind string) c18FScn {
	sc := c18FScn{Kind: kind, Keys: 1 + r.Intn(3)}
	var nclients, percl int
	switch x := r.Intn(10); {
	case x < 6:
		nclients, percl = 2+r.Intn(7), 1+r.Intn(6)
	case x < 9:
		nclients, percl = 9+r.Intn(16), 1+r.Intn(2)
	default:
		nclients, percl = 32+r.Intn(33), 1
	}
	for nclients*percl > 60 {
		percl--
	}
	if percl < 1 {
		percl = 1
	}
	// one scenario-wide flavour of callback length so that overlap is frequent
	long := r.Intn(3) == 0
	booms := r.Intn(2) == 0 // half of the scenarios contain panicking callbacks
	for c := 0; c < nclients; c++ {
		var calls []c18FCall
		for j := 0; j < percl; j++ {
			in := c18RandDelay(r)
			if long && r.Intn(2) == 0 {
				in = 8 + r.Intn(4)
			}
			fc := c18FCall{K: r.Intn(sc.Keys), Ex: r.Intn(2) == 0, Pre: c18RandDelay(r), In: in, Fail: r.Intn(6) == 0}
			if booms && r.Intn(6) == 0 {
				fc.Boom, fc.Fail = true, false
			}
			calls = append(calls, fc)
		}
		sc.Clients = append(sc.Clients, calls)
	}
	return sc
}

// ---------------------------------------------------------------- records

type c18FRec struct {
	client, idx, key int
	ex               bool
	call, ret        int64
	valOK            bool
	val              int64 // id of the execution whose result was returned
	errID            int64 // 0 = nil error
	errOther         string
	fresh            bool
	nilRes           bool // returned (nil, nil): what the waiters of a panicked flight receive
	panicked         bool // the call panicked (recovered by the client goroutine)
	ownPanic         bool // ... with the value thrown by a harness callback
}

type c18FExec struct {
	id        int64
	key       int
	e1, e2    int64
	by, byIdx int
	fail      bool
	boom      bool
}

func c18ErrID(err error) (int64, string) {
	if err == nil {
		return 0, ""
	}
	if e, ok := err.(c18Err); ok {
		return e.id, ""
	}
	return -1, err.Error()
}

// c18RunFlight runs one SingleFlight/LockedCalls history and applies the oracle.
// ok=false: the watchdog fired (inconclusive, already recorded).
func c18RunFlight(m *vk.M, idx int, sc c18FScn) bool {
	desc := fmt.Sprintf("case=%d;%s", idx, vk.JSON(sc))
	m.Current(desc)
	var sf SingleFlight
	var lc LockedCalls
	if sc.Kind == "sf" {
		sf = NewSingleFlight()
	} else {
		lc = NewLockedCalls()
	}
	var (
		mu     sync.Mutex
		execs  []c18FExec
		nextID int64
		wg     sync.WaitGroup
		start  = make(chan struct{})
		gate   = c18NewGate(int32(len(sc.Clients)))
		// progress flags read by the watchdog path while clients may still be parked
		waitKey   = make([]int32, len(sc.Clients)) // key+1 the client is calling Do with, 0 = not in a call
		entered   = make([]int32, len(sc.Clients)) // the client's callback has been entered
		inFn      [4]int32                         // callbacks currently running, per key
		panicDone [4]int64                         // stamp at which a panicked call on the key was back at its caller
		panicBy   [4]int32                         // client+1 of that call
	)
	recs := make([][]c18FRec, len(sc.Clients))
	for ci := range sc.Clients {
		recs[ci] = make([]c18FRec, len(sc.Clients[ci]))
		wg.Add(1)
		go func(ci int) {
			defer wg.Done()
			<-start
			gate.wait()
			for j, c := range sc.Clients[ci] {
				c, j := c, j
				key := fmt.Sprintf("k%d", c.K)
				fn := func() (any, error) {
					atomic.StoreInt32(&entered[ci], 1)
					atomic.AddInt32(&inFn[c.K], 1)
					e1 := vk.Seq()
					id := atomic.AddInt64(&nextID, 1)
					c18Delay(c.In)
					var err error
					if c.Fail {
						err = c18Err{id}
					}
					e2 := vk.Seq()
					mu.Lock()
					execs = append(execs, c18FExec{id: id, key: c.K, e1: e1, e2: e2, by: ci, byIdx: j, fail: c.Fail, boom: c.Boom})
					mu.Unlock()
					atomic.AddInt32(&inFn[c.K], -1)
					if c.Boom {
						panic(c18Panic{id})
					}
					return id, err
				}
				c18Delay(c.Pre)
				rec := c18FRec{client: ci, idx: j, key: c.K, ex: sf != nil && c.Ex}
				var v any
				var err error
				atomic.StoreInt32(&entered[ci], 0)
				atomic.StoreInt32(&waitKey[ci], int32(c.K+1))
				rec.call = vk.Seq()
				pv, panicked := vk.Recover(func() {
					switch {
					case sf != nil && c.Ex:
						v, rec.fresh, err = sf.DoEx(key, fn)
					case sf != nil:
						v, err = sf.Do(key, fn)
					default:
						v, err = lc.Do(key, fn)
					}
				})
				rec.ret = vk.Seq()
				atomic.StoreInt32(&waitKey[ci], 0)
				if panicked {
					rec.panicked = true
					_, rec.ownPanic = pv.(c18Panic)
					atomic.StoreInt32(&panicBy[c.K], int32(ci+1))
					atomic.StoreInt64(&panicDone[c.K], rec.ret)
				} else {
					rec.val, rec.valOK = v.(int64)
					rec.errID, rec.errOther = c18ErrID(err)
					rec.nilRes = v == nil && err == nil
				}
				recs[ci][j] = rec
			}
		}(ci)
	}
	close(start)
	if !c18Join(&wg) {
		// "each executes; a later call always executes afresh": a locked call that is still
		// parked although no callback of its key is running, its own callback was never
		// entered, and a panicked predecessor on that key has demonstrably finished (it is
		// back at its caller, stamp recorded) will never execute — that is the violation.
		// Anything else that is merely slow/blocked stays inconclusive.
		// The same holds for a single flight ("a later call always executes afresh"; overlapping
		// callers receive the result): a caller still parked in the flight group although no
		// callback of its key is running and the panicked call is back at its caller.
		frame, what := "syncx.(*lockedGroup).Do", "LockedCalls.Do"
		if sc.Kind == "sf" {
			frame, what = "syncx.(*flightGroup).createCall", "SingleFlight.Do/DoEx"
		}
		for ci := range waitKey {
			k := atomic.LoadInt32(&waitKey[ci])
			if k == 0 || atomic.LoadInt32(&entered[ci]) != 0 {
				continue
			}
			if done := atomic.LoadInt64(&panicDone[k-1]); done != 0 && atomic.LoadInt32(&inFn[k-1]) == 0 {
				parked := vk.GoroutinesIn(frame)
				if len(parked) == 0 {
					continue
				}
				g := parked[0]
				if len(g) > 500 {
					g = g[:500]
				}
				m.Violate("C18:"+map[string]string{"sf": "singleflight", "lc": "lockedcalls"}[sc.Kind]+":blocked-after-panic", desc,
					"client %d has been inside %s(k%d) for more than %v without its callback being entered and without returning, although no callback of that key is running and the call of client %d, whose callback panicked, returned to its caller at stamp %d: calls behind a panicked call never execute / never receive a result (%d goroutines parked in %s)\n%s",
					ci, what, k-1, c18Watchdog, atomic.LoadInt32(&panicBy[k-1])-1, done, len(parked), frame, g)
				return false
			}
		}
		m.Inconclusive("case %d (%s): clients did not finish within %v", idx, sc.Kind, c18Watchdog)
		return false
	}
	mu.Lock()
	defer mu.Unlock()

	name := map[string]string{"sf": "singleflight", "lc": "lockedcalls"}[sc.Kind]
	byID := map[int64]*c18FExec{}
	ranFor := map[[2]int][]*c18FExec{}
	perKey := map[int][]*c18FExec{}
	for i := range execs {
		e := &execs[i]
		byID[e.id] = e
		ranFor[[2]int{e.by, e.byIdx}] = append(ranFor[[2]int{e.by, e.byIdx}], e)
		perKey[e.key] = append(perKey[e.key], e)
	}
	var ncalls, shared, contended, npanics, nforeign, nwaitPanic int
	served := map[int64][]*c18FRec{} // execution id -> calls that received its result without executing
	violated := false
	fail := func(class, format string, a ...any) {
		if !violated { // first witness of a scenario only
			m.Violate("C18:"+name+":"+class, desc, format, a...)
		}
		violated = true
	}

	// (1) executions of one key never overlap
	for k, es := range perKey {
		sort.Slice(es, func(i, j int) bool { return es[i].e1 < es[j].e1 })
		for i := 1; i < len(es); i++ {
			if es[i].e1 < es[i-1].e2 {
				fail("overlapping-executions", "key k%d: execution #%d (client %d call %d) entered at stamp %d while execution #%d (client %d call %d) was inside the callback [%d,%d]",
					k, es[i].id, es[i].by, es[i].byIdx, es[i].e1, es[i-1].id, es[i-1].by, es[i-1].byIdx, es[i-1].e1, es[i-1].e2)
			}
		}
	}
	// (2) per-call oracles
	var all []*c18FRec
	for ci := range recs {
		for j := range recs[ci] {
			all = append(all, &recs[ci][j])
		}
	}
	for _, x := range all {
		ncalls++
		ran := ranFor[[2]int{x.client, x.idx}]
		if len(ran) > 1 {
			fail("callback-ran-twice", "client %d call %d (key k%d): its callback ran %d times", x.client, x.idx, x.key, len(ran))
			continue
		}
		if x.panicked {
			// a panicking callback has no result to compare; the panic must be the callback's own
			npanics++
			if !x.ownPanic || len(ran) == 0 {
				nforeign++
			}
			continue
		}
		if x.errID < 0 {
			fail("foreign-error", "client %d call %d: returned error %q which no callback produced", x.client, x.idx, x.errOther)
			continue
		}
		if sc.Kind == "lc" {
			if len(ran) == 0 {
				fail("call-not-executed", "client %d call %d (key k%d) returned (val=%d) without executing its callback: every locked call must execute", x.client, x.idx, x.key, x.val)
				continue
			}
			e := ran[0]
			wantErr := int64(0)
			if e.fail {
				wantErr = e.id
			}
			if !x.valOK || x.val != e.id || x.errID != wantErr {
				fail("wrong-result", "client %d call %d (key k%d) executed #%d (err id %d) but returned val=%d ok=%v errID=%d", x.client, x.idx, x.key, e.id, wantErr, x.val, x.valOK, x.errID)
			}
			continue
		}
		// single flight
		if len(ran) == 0 {
			shared++
		}
		if x.ex && x.fresh != (len(ran) == 1) {
			fail("fresh-flag", "client %d call %d (key k%d): DoEx fresh=%v but the call's callback ran %d times", x.client, x.idx, x.key, x.fresh, len(ran))
			continue
		}
		if len(ran) == 0 && x.nilRes {
			// (nil, nil) without executing: legal only for a waiter of a flight whose callback
			// panicked, i.e. some panicked execution of this key by an overlapping call
			okWaiter := false
			for _, e := range perKey[x.key] {
				a := &recs[e.by][e.byIdx]
				if e.boom && a != x && (c18Interval{a.call, a.ret}).intersects(c18Interval{x.call, x.ret}) {
					okWaiter = true
					break
				}
			}
			if !okWaiter {
				fail("result-from-no-execution", "client %d call %d (key k%d) [%d,%d] returned (nil, nil) without executing and no panicked execution of that key overlaps it", x.client, x.idx, x.key, x.call, x.ret)
			} else {
				nwaitPanic++
			}
			continue
		}
		e, found := byID[x.val]
		if !x.valOK || !found {
			fail("result-from-no-execution", "client %d call %d (key k%d) [%d,%d] returned val=%d (int64=%v) which no execution produced", x.client, x.idx, x.key, x.call, x.ret, x.val, x.valOK)
			continue
		}
		wantErr := int64(0)
		if e.fail {
			wantErr = e.id
		}
		if e.key != x.key || x.errID != wantErr {
			fail("wrong-result", "client %d call %d (key k%d) returned execution #%d of key k%d with errID=%d (want %d)", x.client, x.idx, x.key, e.id, e.key, x.errID, wantErr)
			continue
		}
		a := &recs[e.by][e.byIdx]
		if a != x {
			if !(c18Interval{a.call, a.ret}).intersects(c18Interval{x.call, x.ret}) {
				fail("stale-result", "client %d call %d (key k%d) spans stamps [%d,%d] but received the result of execution #%d whose call (client %d call %d) spans [%d,%d]: the calls do not overlap, a later call must execute afresh",
					x.client, x.idx, x.key, x.call, x.ret, e.id, a.client, a.idx, a.call, a.ret)
				continue
			}
			served[e.id] = append(served[e.id], x)
		}
	}
	// (3) a call that did not execute must have begun before ANY call served by the same
	// execution returned: once a result has been delivered, a later call executes afresh
	// (in the library: the map entry is deleted before the waiters are released)
	for id, xs := range served {
		e := byID[id]
		a := &recs[e.by][e.byIdx]
		firstRet, who := a.ret, a
		for _, y := range xs {
			if y.ret < firstRet {
				firstRet, who = y.ret, y
			}
		}
		for _, x := range xs {
			if x.call > firstRet {
				fail("result-reused-after-delivery", "key k%d: client %d call %d began at stamp %d, after client %d call %d had already returned (stamp %d) with the result of execution #%d, and was served by that same execution instead of executing afresh",
					x.key, x.client, x.idx, x.call, who.client, who.idx, firstRet, id)
				break
			}
		}
	}
	// contention measure for locked calls: pairs of same-key calls that overlapped
	if sc.Kind == "lc" {
		sort.Slice(all, func(i, j int) bool { return all[i].call < all[j].call })
		for i := range all {
			for j := i + 1; j < len(all) && all[j].call < all[i].ret; j++ {
				if all[j].key == all[i].key {
					contended++
				}
			}
		}
	}

	m.Count(name+"_calls", int64(ncalls))
	m.Count(name+"_executions", int64(len(execs)))
	m.Count(name+"_calls_panicked_and_recovered", int64(npanics))
	m.Count(name+"_panics_not_thrown_by_own_callback", int64(nforeign))
	if sc.Kind == "sf" {
		m.Count("singleflight_waiters_released_by_panicked_flight", int64(nwaitPanic))
	}
	if sc.Kind == "sf" {
		m.Count("singleflight_shared_results", int64(shared))
	} else {
		m.Count("lockedcalls_overlapping_call_pairs", int64(contended))
	}
	// digest of the observed order of call/enter/exit/return events
	type ev struct {
		t int64
		s string
	}
	var evs []ev
	for _, x := range all {
		evs = append(evs, ev{x.call, fmt.Sprintf("c%d.%d", x.client, x.key)}, ev{x.ret, fmt.Sprintf("r%d.%d", x.client, x.val)})
	}
	for _, e := range execs {
		evs = append(evs, ev{e.e1, fmt.Sprintf("e%d", e.by)}, ev{e.e2, fmt.Sprintf("x%d", e.by)})
	}
	sort.Slice(evs, func(i, j int) bool { return evs[i].t < evs[j].t })
	var sb strings.Builder
	for _, e := range evs {
		sb.WriteString(e.s)
		sb.WriteByte(' ')
	}
	nontrivial := shared > 0 || contended > 0
	m.Case(sc.Kind+sb.String(), nontrivial)
	if nontrivial && m.WantSample() && idx%37 == 1 {
		m.Sample(map[string]any{"kind": name, "clients": len(sc.Clients), "keys": sc.Keys, "gomaxprocs": sc.Procs, "calls": ncalls,
			"executions": len(execs), "calls_served_by_another_call's_execution": shared, "overlapping_same_key_call_pairs": contended})
	}
	return true
}

// ---------------------------------------------------------------- ResourceManager

type c18RMCall struct {
	K    int  `json:"k"`
	Pre  int  `json:"pre,omitempty"`
	In   int  `json:"in,omitempty"`
	Fail bool `json:"fail,omitempty"`
	Boom bool `json:"boom,omitempty"` // create panics (recovered by the client goroutine)
	Half bool `json:"half,omitempty"` // with Fail: create returns a half-built closer together with the error (dial ok, ping failed)
	Set  bool `json:"set,omitempty"`  // instead of Get: Set a fresh resource under a key of its own (concurrent with everybody else)
}

type c18RMScn struct {
	Keys    int           `json:"keys"`
	Sets    int           `json:"sets"`
	Procs   int           `json:"procs"`
	Clients [][]c18RMCall `json:"clients"`
}

type c18Closer struct {
	id     int64
	key    int
	closed int32
	fail   bool
	failed bool // handed to the manager TOGETHER with an error: the create failed
}

func (c *c18Closer) Close() error {
	atomic.AddInt32(&c.closed, 1)
	if c.fail {
		return c18Err{c.id}
	}
	return nil
}

func c18GenRM(r interface{ Intn(int) int }) c18RMScn {
	sc := c18RMScn{Keys: 1 + r.Intn(3), Sets: r.Intn(3)}
	booms := r.Intn(2) == 0 // half of the scenarios contain panicking create functions
	sets := r.Intn(2) == 0  // half contain Set calls racing with Get and with each other
	tightSets := r.Intn(2) == 0
	nclients := 2 + r.Intn(7)
	if r.Intn(8) == 0 {
		nclients = 16 + r.Intn(33)
	}
	for c := 0; c < nclients; c++ {
		var calls []c18RMCall
		n := 1 + r.Intn(3)
		for j := 0; j < n; j++ {
			in := c18RandDelay(r)
			if r.Intn(3) == 0 {
				in = 8 + r.Intn(3)
			}
			rc := c18RMCall{K: r.Intn(sc.Keys), Pre: c18RandDelay(r), In: in, Fail: r.Intn(6) == 0}
			rc.Half = rc.Fail && r.Intn(2) == 0
			if booms && r.Intn(8) == 0 {
				rc.Boom, rc.Fail = true, false
			}
			if sets && r.Intn(3) == 0 {
				rc = c18RMCall{Set: true, Pre: rc.Pre}
				if tightSets {
					rc.Pre = 0
				}
			}
			calls = append(calls, rc)
		}
		sc.Clients = append(sc.Clients, calls)
	}
	return sc
}

func c18RunRM(m *vk.M, idx int, sc c18RMScn) bool {
	desc := fmt.Sprintf("case=%d;rm;%s", idx, vk.JSON(sc))
	m.Current(desc)
	rm := NewResourceManager()
	var (
		mu      sync.Mutex
		created []*c18Closer // successful creates
		halves  []*c18Closer // closers returned together with an error (failed creates)
		ncreate int64        // create callbacks entered
		npanic  int64        // Get calls that panicked (own create, or sharing a panicked flight)
		nset    int64        // concurrent Set calls
		nextID  int64
		wg      sync.WaitGroup
		start   = make(chan struct{})
		gate    = c18NewGate(int32(len(sc.Clients)))
	)
	var sets []*c18Closer
	for i := 0; i < sc.Sets; i++ {
		c := &c18Closer{id: int64(-1 - i), key: -1, fail: i == 1}
		sets = append(sets, c)
		rm.Set(fmt.Sprintf("set%d", i), c)
	}
	type got struct {
		client, idx, key int
		res              *c18Closer
		err              error
		badType          bool
	}
	gots := make([][]got, len(sc.Clients))
	for ci := range sc.Clients {
		gots[ci] = make([]got, len(sc.Clients[ci]))
		wg.Add(1)
		go func(ci int) {
			defer wg.Done()
			<-start
			gate.wait()
			for j, c := range sc.Clients[ci] {
				c := c
				c18Delay(c.Pre)
				if c.Set {
					cl := &c18Closer{id: int64(-1000 - ci*100 - j), key: -1}
					mu.Lock()
					sets = append(sets, cl)
					mu.Unlock()
					rm.Set(fmt.Sprintf("set-c%d-%d", ci, j), cl)
					atomic.AddInt64(&nset, 1)
					gots[ci][j] = got{client: ci, idx: j, key: -1, err: c18Err{-2}} // not a Get
					continue
				}
				var res io.Closer
				var err error
				// a panicking create reaches its own caller; callers sharing that flight get a
				// nil value from the single flight, which Get cannot convert: both are recovered
				// here and counted as failed Gets (the statement says nothing about them)
				_, panicked := vk.Recover(func() {
					res, err = rm.Get(fmt.Sprintf("k%d", c.K), func() (io.Closer, error) {
						atomic.AddInt64(&ncreate, 1)
						id := atomic.AddInt64(&nextID, 1)
						c18Delay(c.In)
						if c.Boom {
							panic(c18Panic{id})
						}
						if c.Fail {
							if c.Half {
								half := &c18Closer{id: id, key: c.K, failed: true}
								mu.Lock()
								halves = append(halves, half)
								mu.Unlock()
								return half, c18Err{id}
							}
							return nil, c18Err{id}
						}
						cl := &c18Closer{id: id, key: c.K, fail: id%5 == 0}
						mu.Lock()
						created = append(created, cl)
						mu.Unlock()
						return cl, nil
					})
				})
				if panicked {
					atomic.AddInt64(&npanic, 1)
					err = c18Err{-1}
				}
				g := got{client: ci, idx: j, key: c.K, err: err}
				if err == nil {
					cl, ok := res.(*c18Closer)
					g.res, g.badType = cl, !ok
				}
				gots[ci][j] = g
			}
		}(ci)
	}
	close(start)
	if !c18Join(&wg) {
		m.Inconclusive("case %d (rm): clients did not finish within %v", idx, c18Watchdog)
		return false
	}
	mu.Lock()
	defer mu.Unlock()
	violated := false
	fail := func(class, format string, a ...any) {
		if !violated {
			m.Violate("C18:resourcemanager:"+class, desc, format, a...)
		}
		violated = true
	}
	perKey := map[int][]*c18Closer{}
	for _, c := range created {
		perKey[c.key] = append(perKey[c.key], c)
	}
	for k, cs := range perKey {
		if len(cs) > 1 {
			fail("created-twice", "key k%d: %d resources were created (ids %d, %d, ...) under concurrent Get; at most one is allowed", k, len(cs), cs[0].id, cs[1].id)
		}
	}
	ngets, nerr := 0, 0
	inst := map[int]*c18Closer{}
	for ci := range gots {
		for _, g := range gots[ci] {
			if g.key < 0 { // a Set, not a Get
				continue
			}
			ngets++
			if g.err != nil {
				nerr++
				continue
			}
			if g.badType || g.res == nil {
				fail("foreign-resource", "client %d call %d (key k%d): Get returned a value that no create callback produced", g.client, g.idx, g.key)
				continue
			}
			if g.res.failed {
				fail("failed-create-handed-out", "client %d call %d (key k%d): Get succeeded with resource #%d, which its create function had returned together with an error (that Get reported the failure): a failed create must leave nothing registered under the key", g.client, g.idx, g.key, g.res.id)
				continue
			}
			if g.res.key != g.key {
				fail("foreign-resource", "client %d call %d (key k%d): Get returned resource #%d created for key k%d", g.client, g.idx, g.key, g.res.id, g.res.key)
				continue
			}
			if prev, ok := inst[g.key]; ok && prev != g.res {
				fail("different-instances", "key k%d: callers received different instances #%d and #%d", g.key, prev.id, g.res.id)
				continue
			}
			inst[g.key] = g.res
		}
	}
	// Close closes every managed resource exactly once
	_ = rm.Close()
	for _, c := range append(append([]*c18Closer{}, created...), sets...) {
		n := atomic.LoadInt32(&c.closed)
		// a resource that lost a (forbidden) duplicate creation is reported above; only stored ones must be closed
		if c.key >= 0 && len(perKey[c.key]) > 1 {
			continue
		}
		if n == 0 {
			fail("not-closed-on-close", "resource #%d (key %d) was not closed by ResourceManager.Close", c.id, c.key)
		} else if n > 1 {
			fail("closed-twice", "resource #%d (key %d) was closed %d times by ResourceManager.Close", c.id, c.key, n)
		}
	}
	m.Count("resourcemanager_gets", int64(ngets))
	m.Count("resourcemanager_get_errors", int64(nerr))
	m.Count("resourcemanager_concurrent_sets", atomic.LoadInt64(&nset))
	m.Count("resourcemanager_creates_returning_value_and_error", int64(len(halves)))
	m.Count("resourcemanager_gets_panicked_and_recovered", atomic.LoadInt64(&npanic))
	m.Count("resourcemanager_create_callbacks", atomic.LoadInt64(&ncreate))
	m.Count("resourcemanager_resources_closed", int64(len(created)+len(sets)))
	nontrivial := ngets-nerr > len(created) // some Get was served without creating
	m.Case(fmt.Sprintf("rm%d/%d/%d/%d/%d", len(sc.Clients), ngets, nerr, len(created), atomic.LoadInt64(&ncreate)), nontrivial)
	if nontrivial && m.WantSample() && idx%41 == 1 {
		m.Sample(map[string]any{"kind": "resourcemanager", "clients": len(sc.Clients), "keys": sc.Keys, "gets": ngets, "get_errors": nerr,
			"create_callbacks": atomic.LoadInt64(&ncreate), "resources_created": len(created), "closed_exactly_once": len(created) + len(sets)})
	}
	return true
}

// ---------------------------------------------------------------- ManagedResource

type c18MROp struct {
	Op  int `json:"op"` // 0 take, 1 mark last taken broken, 2 mark a foreign value broken
	Pre int `json:"pre,omitempty"`
}

type c18MRScn struct {
	GenDelay int `json:"gen"`
	Procs    int `json:"procs"`
	// BoomMod > 0: the generate callback panics for every id divisible by it (the Take
	// that triggered it panics and is recovered by the client goroutine)
	BoomMod int64 `json:"boommod,omitempty"`
	// Rounds > 0: lock-step mode. All Workers leave a spinning barrier together, report
	// the resource they hold as broken and take again (several reports of the same
	// breakage racing with the regenerating Take); Clients is unused.
	Rounds  int         `json:"rounds,omitempty"`
	Workers int         `json:"workers,omitempty"`
	Clients [][]c18MROp `json:"clients,omitempty"`
}

type c18MRes struct {
	id     int64
	g1, g2 int64
}

func c18GenMR(r interface{ Intn(int) int }) c18MRScn {
	sc := c18MRScn{GenDelay: c18RandDelay(r)}
	tight := r.Intn(2) == 0
	if r.Intn(3) == 0 {
		sc.BoomMod = int64(3 + r.Intn(5))
	}
	nclients := 2 + r.Intn(7)
	if r.Intn(8) == 0 {
		nclients = 16 + r.Intn(17)
	}
	for c := 0; c < nclients; c++ {
		var ops []c18MROp
		n := 2 + r.Intn(6)
		for j := 0; j < n; j++ {
			op := 0
			switch x := r.Intn(10); {
			case x < 6:
				op = 0
			case x < 9:
				op = 1
			default:
				op = 2
			}
			ops = append(ops, c18MROp{Op: op, Pre: c18PreDelay(r, tight)})
		}
		sc.Clients = append(sc.Clients, ops)
	}
	return sc
}

func c18GenMRRounds(r interface{ Intn(int) int }) c18MRScn {
	sc := c18MRScn{Workers: 2 + r.Intn(7), Rounds: 150 + r.Intn(250)}
	if r.Intn(3) == 0 {
		sc.GenDelay = 1 + r.Intn(5)
	}
	if r.Intn(4) == 0 {
		sc.BoomMod = int64(5 + r.Intn(20))
	}
	return sc
}

func c18RunMR(m *vk.M, idx int, sc c18MRScn) bool {
	desc := fmt.Sprintf("case=%d;mr;%s", idx, vk.JSON(sc))
	m.Current(desc)
	nworkers := len(sc.Clients)
	if sc.Rounds > 0 {
		nworkers = sc.Workers
	}
	var (
		mu       sync.Mutex
		gens     []*c18MRes
		nextID   int64
		inGen    int32
		overlap  int32
		ngenBoom int64
		wg       sync.WaitGroup
		start    = make(chan struct{})
		gate     = c18NewGate(int32(nworkers))
		foreign  = &c18MRes{id: -7}
	)
	mr := NewManagedResource(func() any {
		if atomic.AddInt32(&inGen, 1) > 1 {
			atomic.StoreInt32(&overlap, 1)
		}
		res := &c18MRes{g1: vk.Seq(), id: atomic.AddInt64(&nextID, 1)}
		c18Delay(sc.GenDelay)
		if sc.BoomMod > 0 && res.id%sc.BoomMod == 0 {
			atomic.AddInt64(&ngenBoom, 1)
			atomic.AddInt32(&inGen, -1)
			panic(c18Panic{res.id})
		}
		res.g2 = vk.Seq()
		mu.Lock()
		gens = append(gens, res)
		mu.Unlock()
		atomic.AddInt32(&inGen, -1)
		return res
	}, func(a, b any) bool {
		x, _ := a.(*c18MRes)
		y, _ := b.(*c18MRes)
		return x != nil && y != nil && x.id == y.id
	})
	type rec struct {
		client, idx int
		op          int
		call, ret   int64
		id          int64 // take: id returned (0 = nil/foreign/panicked); mark: id marked
		boom        bool  // the Take panicked (generate panicked)
	}
	recs := make([][]rec, nworkers)
	take := func(ci, j int, last **c18MRes) rec {
		r := rec{client: ci, idx: j, op: 0}
		r.call = vk.Seq()
		var v any
		_, r.boom = vk.Recover(func() { v = mr.Take() })
		r.ret = vk.Seq()
		if res, ok := v.(*c18MRes); ok && res != nil {
			r.id = res.id
			*last = res
		}
		return r
	}
	mark := func(ci, j int, what *c18MRes) rec {
		r := rec{client: ci, idx: j, op: 1, id: what.id}
		r.call = vk.Seq()
		mr.MarkBroken(what)
		r.ret = vk.Seq()
		return r
	}
	arrive := make([]int32, sc.Rounds)
	for ci := 0; ci < nworkers; ci++ {
		wg.Add(1)
		go func(ci int) {
			defer wg.Done()
			<-start
			gate.wait()
			var last *c18MRes
			if sc.Rounds > 0 {
				for j := 0; j < sc.Rounds; j++ {
					for last == nil { // first round, or the previous Take panicked
						recs[ci] = append(recs[ci], take(ci, j, &last))
					}
					c18SpinBarrier(&arrive[j], int32(nworkers))
					recs[ci] = append(recs[ci], mark(ci, j, last))
					last = nil
					recs[ci] = append(recs[ci], take(ci, j, &last))
				}
				return
			}
			for j, op := range sc.Clients[ci] {
				c18Delay(op.Pre)
				switch {
				case op.Op == 0 || last == nil:
					recs[ci] = append(recs[ci], take(ci, j, &last))
				case op.Op == 1:
					recs[ci] = append(recs[ci], mark(ci, j, last))
				default:
					recs[ci] = append(recs[ci], mark(ci, j, foreign))
				}
			}
		}(ci)
	}
	close(start)
	if !c18Join(&wg) {
		m.Inconclusive("case %d (mr): clients did not finish within %v", idx, c18Watchdog)
		return false
	}
	mu.Lock()
	defer mu.Unlock()
	violated := false
	fail := func(class, format string, a ...any) {
		if !violated {
			m.Violate("C18:managedresource:"+class, desc, format, a...)
		}
		violated = true
	}
	if atomic.LoadInt32(&overlap) != 0 {
		fail("concurrent-generate", "two generate callbacks were running at the same time")
	}
	byID := map[int64]*c18MRes{}
	for _, g := range gens {
		byID[g.id] = g
	}
	var ntakes, nmarks, nboom int
	firstMarkRet := map[int64]rec{}  // per resource id: the MarkBroken call that returned first
	firstMarkCall := map[int64]rec{} // per resource id: the MarkBroken call that began first
	for ci := range recs {
		for _, r := range recs[ci] {
			if r.op != 1 || r.id <= 0 {
				continue
			}
			nmarks++
			if f, ok := firstMarkRet[r.id]; !ok || r.ret < f.ret {
				firstMarkRet[r.id] = r
			}
			if f, ok := firstMarkCall[r.id]; !ok || r.call < f.call {
				firstMarkCall[r.id] = r
			}
		}
	}
	for ci := range recs {
		for _, t := range recs[ci] {
			if t.op != 0 {
				continue
			}
			ntakes++
			if t.boom {
				nboom++
				continue
			}
			g := byID[t.id]
			if g == nil || g.g2 > t.ret {
				fail("take-returned-ungenerated", "client %d op %d: Take returned id %d which is not the product of a finished generate callback", t.client, t.idx, t.id)
				continue
			}
			if mk, ok := firstMarkRet[t.id]; ok && t.call > mk.ret {
				fail("broken-resource-returned", "MarkBroken(#%d) by client %d returned at stamp %d, yet the Take of client %d begun at stamp %d returned #%d again instead of regenerating",
					mk.id, mk.client, mk.ret, t.client, t.call, t.id)
			}
		}
	}
	// a replacement is generated only after the resource it replaces was reported broken:
	// generation j+1 must be preceded by a MarkBroken call whose argument is generation j
	// (a stale report about an older resource must leave the current one alone)
	sort.Slice(gens, func(i, j int) bool { return gens[i].g1 < gens[j].g1 })
	for j := 1; j < len(gens); j++ {
		prev, next := gens[j-1], gens[j]
		if mk, ok := firstMarkCall[prev.id]; !ok || mk.call > next.g1 {
			when := "never"
			if ok {
				when = fmt.Sprintf("first at stamp %d", mk.call)
			}
			fail("replaced-without-being-reported-broken", "resource #%d (generated at stamps [%d,%d]) was replaced by #%d, whose generation began at stamp %d, although MarkBroken(#%d) was called %s: a report about an older resource discarded the current one (%d generations, %d MarkBroken calls on %d distinct resources)",
				prev.id, prev.g1, prev.g2, next.id, next.g1, prev.id, when, len(gens), nmarks, len(firstMarkCall))
			break
		}
	}
	m.Count("managedresource_takes", int64(ntakes))
	m.Count("managedresource_takes_panicked_in_generate", int64(nboom))
	m.Count("managedresource_markbroken", int64(nmarks))
	m.Count("managedresource_generations", int64(len(gens)))
	if sc.Rounds > 0 {
		m.Count("managedresource_lockstep_rounds", int64(sc.Rounds))
	}
	m.Case(fmt.Sprintf("mr%d/%d/%d/%d/%d/%d", nworkers, sc.Rounds, ntakes, nmarks, len(gens), nboom), len(gens) >= 2)
	if len(gens) >= 2 && m.WantSample() && idx%43 == 1 {
		m.Sample(map[string]any{"kind": "managedresource", "workers": nworkers, "lockstep_rounds": sc.Rounds, "takes": ntakes, "takes_panicked_in_generate": nboom,
			"markbroken_of_taken": nmarks, "distinct_resources_reported_broken": len(firstMarkCall), "generations": len(gens)})
	}
	return true
}

// ---------------------------------------------------------------- two instances, same key

// c18IsoScn: two independent instances (A and B) of one primitive are used with the SAME
// key. A's call is parked inside its callback on a gate; B's calls are issued meanwhile.
// Exclusion and sharing are per instance: B's calls must run their own callbacks and get
// their own results while A is still parked, and ResourceManager B creates, hands out
// and closes its own resource.
type c18IsoScn struct {
	Kind   string `json:"kind"` // sf | lc | rm
	BCalls int    `json:"bcalls"`
	Ex     bool   `json:"ex,omitempty"`
	Procs  int    `json:"procs"`
}

func c18GenIso(r interface{ Intn(int) int }) c18IsoScn {
	return c18IsoScn{Kind: []string{"sf", "lc", "rm"}[r.Intn(3)], BCalls: 1 + r.Intn(3), Ex: r.Intn(2) == 0}
}

func c18RunIso(m *vk.M, idx int, sc c18IsoScn) bool {
	desc := fmt.Sprintf("case=%d;two-instances;%s", idx, vk.JSON(sc))
	m.Current(desc)
	name := map[string]string{"sf": "singleflight", "lc": "lockedcalls", "rm": "resourcemanager"}[sc.Kind]
	const key = "shared-key"
	var (
		gate     = make(chan struct{})
		aEntered int32
		bRan     int32 // B callbacks that ran
		bDone    int32 // B calls that returned
		bWrong   int32 // B calls that returned something else than their own callback's product
		wg       sync.WaitGroup
	)
	sfA, sfB := NewSingleFlight(), NewSingleFlight()
	lcA, lcB := NewLockedCalls(), NewLockedCalls()
	rmA, rmB := NewResourceManager(), NewResourceManager()
	resA := &c18Closer{id: 1, key: 0}
	var resB []*c18Closer
	var bmu sync.Mutex
	// A: parked inside its callback
	wg.Add(1)
	go func() {
		defer wg.Done()
		fn := func() (any, error) {
			atomic.StoreInt32(&aEntered, 1)
			<-gate
			return int64(-1), nil
		}
		switch sc.Kind {
		case "sf":
			_, _ = sfA.Do(key, fn)
		case "lc":
			_, _ = lcA.Do(key, fn)
		default:
			_, _ = rmA.Get(key, func() (io.Closer, error) {
				atomic.StoreInt32(&aEntered, 1)
				<-gate
				return resA, nil
			})
		}
	}()
	if !vk.WaitUntil(c18Watchdog, func() bool { return atomic.LoadInt32(&aEntered) == 1 }) {
		close(gate)
		m.Inconclusive("case %d (two instances %s): A's callback was not entered within %v", idx, sc.Kind, c18Watchdog)
		return false
	}
	// B: sequential calls by one goroutine on the other instance, same key
	wg.Add(1)
	go func() {
		defer wg.Done()
		for j := 0; j < sc.BCalls; j++ {
			want := int64(100 + j)
			fn := func() (any, error) {
				atomic.AddInt32(&bRan, 1)
				return want, nil
			}
			var v any
			switch {
			case sc.Kind == "sf" && sc.Ex:
				v, _, _ = sfB.DoEx(key, fn)
			case sc.Kind == "sf":
				v, _ = sfB.Do(key, fn)
			case sc.Kind == "lc":
				v, _ = lcB.Do(key, fn)
			default:
				res, _ := rmB.Get(key, func() (io.Closer, error) {
					atomic.AddInt32(&bRan, 1)
					c := &c18Closer{id: want, key: 1}
					bmu.Lock()
					resB = append(resB, c)
					bmu.Unlock()
					return c, nil
				})
				if c, ok := res.(*c18Closer); !ok || c == nil || c.key != 1 {
					atomic.AddInt32(&bWrong, 1)
				}
				atomic.AddInt32(&bDone, 1)
				continue
			}
			if got, ok := v.(int64); !ok || got != want {
				atomic.AddInt32(&bWrong, 1)
			}
			atomic.AddInt32(&bDone, 1)
		}
	}()
	// B has nothing in flight in its own instance: its calls return without any help from A.
	// Waiting for them is pacing only for sf/rm (their verdict is read from the final state);
	// for lc the parked state itself is the witness, so the generous watchdog is used.
	wait := 20 * time.Millisecond
	if sc.Kind == "lc" {
		wait = c18Watchdog
	}
	finished := vk.WaitUntil(wait, func() bool { return atomic.LoadInt32(&bDone) == int32(sc.BCalls) })
	if !finished && sc.Kind == "lc" {
		parked := vk.GoroutinesIn("syncx.(*lockedGroup).Do")
		close(gate)
		if len(parked) > 0 {
			m.Violate("C18:lockedcalls:blocked-by-other-group", desc, "a call through LockedCalls group B (key %q, nothing else in flight in B) has not entered its callback for %v while a call of group A is parked inside its callback for the same key: exclusion is per group (%d goroutines parked in lockedGroup.Do)", key, c18Watchdog, len(parked))
		} else {
			m.Inconclusive("case %d (two instances lc): B's calls did not finish within %v", idx, c18Watchdog)
		}
		return false
	}
	close(gate)
	if !c18Join(&wg) {
		m.Inconclusive("case %d (two instances %s): calls did not finish within %v after the gate opened", idx, sc.Kind, c18Watchdog)
		return false
	}
	ran, wrong := atomic.LoadInt32(&bRan), atomic.LoadInt32(&bWrong)
	wantRan := int32(sc.BCalls)
	if sc.Kind == "rm" {
		wantRan = 1 // B creates its resource once and reuses it
	}
	switch {
	case ran != wantRan:
		m.Violate("C18:"+name+":instances-not-isolated", desc, "instance B (own, empty) was called %d times with key %q while instance A had a call parked on the same key: B's own callback ran %d times, want %d (B was served by A's execution)", sc.BCalls, key, ran, wantRan)
		return true
	case wrong != 0:
		m.Violate("C18:"+name+":instances-not-isolated", desc, "instance B returned %d results that its own callbacks did not produce (key %q shared with a parked call of instance A)", wrong, key)
		return true
	}
	if sc.Kind == "rm" {
		_ = rmB.Close()
		bmu.Lock()
		defer bmu.Unlock()
		if a := atomic.LoadInt32(&resA.closed); a != 0 {
			m.Violate("C18:resourcemanager:instances-not-isolated", desc, "B.Close closed the resource created by manager A")
			return true
		}
		for _, c := range resB {
			if n := atomic.LoadInt32(&c.closed); n != 1 {
				m.Violate("C18:resourcemanager:not-closed-on-close", desc, "manager B: its resource #%d was closed %d times by B.Close", c.id, n)
				return true
			}
		}
		_ = rmA.Close()
		if a := atomic.LoadInt32(&resA.closed); a != 1 {
			m.Violate("C18:resourcemanager:not-closed-on-close", desc, "manager A: its resource was closed %d times by A.Close", a)
			return true
		}
	}
	m.Count(name+"_two_instance_schedules", 1)
	m.Count(name+"_calls_on_second_instance_while_first_parked", int64(sc.BCalls))
	m.Case(fmt.Sprintf("iso%s/%d/%v/%v", sc.Kind, sc.BCalls, sc.Ex, finished), true)
	return true
}
