//go:build verif

package timex

const c09ClockMode = "verif_hook_real_mode"
