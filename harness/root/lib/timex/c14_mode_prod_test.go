//go:build !verif

package timex

const c14ClockMode = "production_file"
