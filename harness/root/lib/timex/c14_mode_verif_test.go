//go:build verif

package timex

const c14ClockMode = "verif_hook_real_mode"
