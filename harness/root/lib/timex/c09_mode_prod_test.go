//go:build !verif

package timex

const c09ClockMode = "production_file"
