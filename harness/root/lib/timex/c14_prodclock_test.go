package timex

// C14 — the P2C picker measures latency, staleness and the forced-pick interval time with timex.Now/Since. The verif
// build tag replaces relativetime.go by a switchable clock, so the monitors that run on the
// virtual clock never execute the production file. This file has no build constraint: the
// driver runs it once WITHOUT the tag (production relativetime.go) and once with it (the
// hook in real-clock mode), and checks both against bracketed readings of the system clock.
//
// Oracle (no tolerance, no deadline): with wall-clock readings a <= [Now() -> d] <= b and later
// c <= [Since(d) -> s] <= e, the true elapsed time lies in [c-b, e-a], so s must too; the same
// holds for the difference of two Now() readings. A wall clock stepping backwards between two
// adjacent reads could break the bracket, so a violation must repeat three times in a row.

import (
	"fmt"
	"testing"
	"time"

	"verif.local/vk"
)

func TestVerifC14ProdClock(t *testing.T) {
	m := vk.New(t, "C14", "timex.Now/Since (production file without the verif tag; hook in real-clock mode with it) against bracketed system-clock readings: Since(d) and Now()-Now() must lie in [c-b, e-a]; Now never decreases")
	defer m.Done()
	r := m.Rand("prodclock")
	n := vk.N(20000, 400000)
	wall := func() time.Time { return time.Now().Round(0) } // strip the monotonic reading: same clock as initTime
	consecutive := 0
	var last time.Duration
	for idx := 1; idx <= n; idx++ {
		a := wall()
		d := Now()
		b := wall()
		switch x := r.Intn(100); {
		case x < 2:
			time.Sleep(time.Duration(r.Intn(3000)) * time.Microsecond)
		case x < 30:
			for i := 0; i < r.Intn(2000); i++ {
				_ = i * i
			}
		}
		c := wall()
		s := Since(d)
		d2 := Now()
		e := wall()
		lo, hi := c.Sub(b), e.Sub(a)
		bad := ""
		switch {
		case s < lo || s > hi:
			bad = fmt.Sprintf("Since(d)=%v outside [%v, %v]", s, lo, hi)
		case d2-d < lo || d2-d > hi:
			bad = fmt.Sprintf("Now()-Now()=%v outside [%v, %v]", d2-d, lo, hi)
		case d < last:
			bad = fmt.Sprintf("Now() went backwards: %v after %v", d, last)
		}
		last = d2
		if bad != "" {
			consecutive++
			m.Count("bracket_misses_"+c14ClockMode, 1)
			if consecutive >= 3 {
				m.Violate("C14:clock:since-or-now-wrong", fmt.Sprintf("case=%d", idx), "%s (three consecutive iterations)", bad)
				break
			}
			continue
		}
		consecutive = 0
		m.Count("bracketed_readings_"+c14ClockMode, 1)
		if idx%4000 == 1 {
			m.Case(fmt.Sprintf("%d:%v:%v", idx, lo, hi), true)
			if m.WantSample() {
				m.Sample(map[string]any{"since": s.String(), "lower": lo.String(), "upper": hi.String()})
			}
		}
	}
}
