//go:build verif

package api

// C01 — the HTTP breaker as wired by the engine: the default per-route chain built
// by engine.bindRoutes, observed with httptest recorders. Classification is by the
// status the client receives: a route whose every response is >= 500 (here: the
// route's own timeout answers 503 because the handler overruns it, or the handler
// answers 500) keeps failing and must be cut off; a route answering 200 in time is
// never cut off. The breaker's window runs on the frozen virtual clock; the route
// timeout itself is a real timer and the slow handler simply waits for its
// request context to end (no wall-clock comparison decides anything).

import (
	"fmt"
	"net/http"
	"net/http/httptest"
	"sync/atomic"
	"testing"
	"time"

	"github.com/gotid/god/api/router"
	"github.com/gotid/god/lib/logx"
	"github.com/gotid/god/lib/stat"
	"github.com/gotid/god/lib/timex"
	"verif.local/vk"
)

func TestVerifC01EngineChain(t *testing.T) {
	m := vk.New(t, "C01", "default chain of engine.bindRoutes (Config.Timeout 10 ms, no CPU shedder), httptest recorders, breaker window on the frozen virtual clock: route whose handler always overruns the route timeout (client receives the timeout 503 every time) x120 and route whose handler answers 500 x400 => at least one request is answered without running the handler; route answering 200 in time x300 => handler always runs; non-trivial = route was cut off")
	defer m.Done()
	logx.Disable()
	stat.SetReporter(nil)
	timex.VerifFakeClock(1000*time.Hour + time.Duration(m.Rand("clock").Int63n(int64(time.Hour))))
	defer timex.VerifRealClock()

	var slowRuns, failRuns, fastRuns int64
	tag := fmt.Sprintf("c01-%d-%d", vk.Seed(), vk.Seq())
	ng := newEngine(Config{Timeout: 10})
	ng.addRoutes(featuredRoutes{routes: []Route{
		{Method: http.MethodGet, Path: "/" + tag + "/slow", Handler: func(w http.ResponseWriter, r *http.Request) {
			atomic.AddInt64(&slowRuns, 1)
			select {
			case <-r.Context().Done(): // the route timeout (or the client) ended the request
			case <-time.After(30 * time.Second):
			}
			w.WriteHeader(http.StatusOK) // late: must not reach the client
		}},
		{Method: http.MethodGet, Path: "/" + tag + "/fail", Handler: func(w http.ResponseWriter, r *http.Request) {
			atomic.AddInt64(&failRuns, 1)
			w.WriteHeader(http.StatusInternalServerError)
		}},
		{Method: http.MethodGet, Path: "/" + tag + "/fast", Handler: func(w http.ResponseWriter, r *http.Request) {
			atomic.AddInt64(&fastRuns, 1)
			w.WriteHeader(http.StatusOK)
		}},
	}})
	rt := router.NewRouter()
	if err := ng.bindRoutes(rt); err != nil {
		m.Inconclusive("bindRoutes: %v", err)
		return
	}
	do := func(path string) int {
		rec := httptest.NewRecorder()
		req := httptest.NewRequest(http.MethodGet, "http://localhost/"+tag+"/"+path, nil)
		rt.ServeHTTP(rec, req)
		return rec.Code
	}

	// ---- benign control: 200 in time
	{
		n := vk.N(300, 3000)
		okRow := true
		for i := 0; i < n; i++ {
			before := atomic.LoadInt64(&fastRuns)
			code := do("fast")
			m.Count("requests_fast_200", 1)
			if atomic.LoadInt64(&fastRuns) == before {
				m.Violate("C01:benign:http-engine:200:dropped", "case=1;route answering 200 in time through the default chain", "request #%d was answered %d without running the handler although every response so far was 200", i, code)
				okRow = false
				break
			}
		}
		m.Case("engine-fast-200", okRow)
	}
	// ---- failing rows
	for idx, row := range []struct {
		path string
		n    int
		runs *int64
		what string
	}{
		{"slow", vk.N(120, 600), &slowRuns, "timeout-503"},
		{"fail", vk.N(400, 2000), &failRuns, "handler-500"},
	} {
		below := 0
		for i := 0; i < row.n; i++ {
			if code := do(row.path); code < 500 {
				below++
			}
			m.Count("requests_"+row.what, 1)
		}
		runs := atomic.LoadInt64(row.runs)
		m.Count("handler_runs_"+row.what, runs)
		desc := fmt.Sprintf("case=%d;route %s through the default chain, %d requests", 2+idx, row.what, row.n)
		switch {
		case below > 0:
			m.Skip(fmt.Sprintf("engine row %s: %d of %d responses were < 500 (the route did not keep failing); row not decided", row.what, below, row.n))
		case runs >= int64(row.n):
			m.Violate("C01:nonbenign:http-engine:"+row.what+":never-cut-off", desc, "the client received a status >= 500 on all %d requests and the handler still ran %d times: the route's failures never reach its breaker", row.n, runs)
		}
		m.Case("engine-"+row.what, below == 0 && runs < int64(row.n))
		m.Sample(map[string]any{"scenario": desc, "responses_below_500": below, "handler_runs": runs})
	}
}
