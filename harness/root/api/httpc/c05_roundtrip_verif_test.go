//go:build verif

package httpc

// C05 — httpc -> httpx round trip (DESIGN.md §3 C05, oracle 5): a request struct with
// path / form / header / json parts is sent with httpc.Do to an httptest server whose
// handler (behind the real router, so path variables exist) parses it back with
// httpx.Parse; the parsed struct must equal the one that was sent.

import (
	"bytes"
	"context"
	"encoding/json"
	"errors"
	"fmt"
	"io"
	"math/rand"
	"net/http"
	"net/http/httptest"
	"net/url"
	"reflect"
	"runtime/debug"
	"strings"
	"sync"
	"testing"

	"github.com/gotid/god/api/httpx"
	"github.com/gotid/god/api/router"
	"github.com/gotid/god/lib/logx"
	g "github.com/gotid/god/lib/mapping/c05gen"
	"verif.local/vk"
)

var c05rScalarKinds = []g.Kind{g.Bool, g.Int8, g.Int16, g.Int32, g.Int64, g.Int, g.Uint8, g.Uint16, g.Uint32, g.Uint64, g.Uint, g.Float32, g.Float64, g.String}

func c05rScalarOpts(r *rand.Rand, k g.Kind, part string) g.Opts {
	var o g.Opts
	switch x := r.Intn(10); {
	case x < 4:
	case x < 6:
		if part != "path" {
			o.Optional = true
		}
	case x < 7:
		if part != "path" {
			o.HasDefault = true
		}
	case x < 8:
		if k != g.Bool {
			o.Options = g.RandOptions(r, k)
		}
	case x < 9:
		if k.IsNum() {
			o.Range = g.RandRange(r, k)
		}
	default:
		o.FromString = true
	}
	if o.HasDefault {
		if k == g.String {
			o.Default = g.SafeString(r)
		} else {
			o.Default = g.RandLeafText(r, k)
		}
	}
	return o
}

const c05rPathChars = "abcXYZ019-_~!*'();:@&=+$,% é世"
const c05rHeaderChars = "abcXYZ019-_~!*'();:@&=+$,%/?#[]{}|^`\"\\<> "

func c05rString(r *rand.Rand, alphabet string, min int) string {
	rs := []rune(alphabet)
	for {
		n := min + r.Intn(8)
		b := make([]rune, n)
		for i := range b {
			b[i] = rs[r.Intn(len(rs))]
		}
		s := string(b)
		if s == "." || s == ".." || strings.TrimSpace(s) != s {
			continue
		}
		return s
	}
}

func c05rHasByteSlice(t *g.Type) bool {
	switch t.K {
	case g.Slice:
		if t.Elem.K == g.Uint8 {
			return true
		}
		return c05rHasByteSlice(t.Elem)
	case g.Ptr, g.Map:
		return c05rHasByteSlice(t.Elem)
	case g.Struct:
		for _, f := range t.Fields {
			if c05rHasByteSlice(f.T) {
				return true
			}
		}
	}
	return false
}

// c05rName draws a key name whose letters are uniform over a..z / A..Z (edges of the classes
// included on purpose), with digits and the given separators inside.
func c05rName(r *rand.Rand, seps string) string {
	const letters = "abcdefghijklmnopqrstuvwxyzABCDEFGHIJKLMNOPQRSTUVWXYZ"
	n := 1 + r.Intn(6)
	b := make([]byte, 0, n+2)
	for i := 0; i < n; i++ {
		switch x := r.Intn(12); {
		case x == 0 && i > 0 && i < n-1:
			b = append(b, seps[r.Intn(len(seps))])
		case x == 1 && i > 0:
			b = append(b, "0123456789"[r.Intn(10)])
		case x < 5:
			b = append(b, "azAZ"[r.Intn(4)])
		default:
			b = append(b, letters[r.Intn(len(letters))])
		}
	}
	return string(b)
}

type c05rReq struct {
	shape   *g.Shape
	pattern string
	parts   map[string]string // field name -> part
}

func c05rShape(r *rand.Rand, idx int) *c05rReq {
	req := &c05rReq{parts: map[string]string{}}
	js := g.RandShape(r, g.Cfg{TagKey: "json", MaxDepth: 2, NoEnv: true, NoDep: true, NoUntagged: true, NoStringOnString: true, NoDurationOptions: true})
	var fields []*g.Field
	pattern := fmt.Sprintf("/c05/s%d", idx)
	for i, n := 0, r.Intn(3); i < n; i++ {
		k := c05rScalarKinds[r.Intn(len(c05rScalarKinds))]
		key := fmt.Sprintf("%s%d", c05rName(r, "_"), i+1) // path variable names: letters of both cases, digits, '_'
		f := &g.Field{Name: fmt.Sprintf("P%d", i+1), TagKey: "path", Key: key, T: g.L(k), O: c05rScalarOpts(r, k, "path")}
		fields = append(fields, f)
		req.parts[f.Name] = "path"
		pattern += "/:" + key
		if r.Intn(2) == 0 {
			pattern += "/seg"
		}
	}
	for i, n := 0, r.Intn(4); i < n; i++ {
		k := c05rScalarKinds[r.Intn(len(c05rScalarKinds))]
		f := &g.Field{Name: fmt.Sprintf("Q%d", i+1), TagKey: "form", Key: fmt.Sprintf("%s%d", c05rName(r, "_-"), i+1), T: g.L(k), O: c05rScalarOpts(r, k, "form")}
		fields = append(fields, f)
		req.parts[f.Name] = "form"
	}
	for i, n := 0, r.Intn(3); i < n; i++ {
		k := c05rScalarKinds[r.Intn(len(c05rScalarKinds))]
		// header names: any case mix of letters (the parser canonicalises), digits, '-' between words
		key := fmt.Sprintf("X-C05-%s-%d", c05rName(r, "-"), i+1)
		switch r.Intn(4) {
		case 0:
			key = strings.ToLower(key)
		case 1:
			key = strings.ToUpper(key)
		}
		f := &g.Field{Name: fmt.Sprintf("H%d", i+1), TagKey: "header", Key: key, T: g.L(k), O: c05rScalarOpts(r, k, "header")}
		fields = append(fields, f)
		req.parts[f.Name] = "header"
	}
	if r.Intn(5) != 0 {
		for _, f := range js.Root.Fields {
			if c05rHasByteSlice(f.T) {
				continue // encoding/json sends []uint8 as a base64 string: transport encoding, not asserted
			}
			if f.Anonymous {
				continue // mapping.Marshal does not flatten embedded structs of the request struct itself (nested ones travel through encoding/json): not asserted
			}
			lt := f.T
			if lt.K == g.Ptr && lt.Elem.K.IsLeaf() && (len(f.O.Options) > 0 || f.O.Range != nil || f.O.FromString) {
				continue // mapping.Marshal validates / renders such pointers without dereferencing: not asserted
			}
			if lt.K == g.Ptr {
				lt = lt.Elem
			}
			if lt.K == g.Duration && len(f.O.Options) > 0 {
				continue // a Duration travels as integer nanoseconds in JSON; options= are spelled 1s, 5m: not asserted
			}
			fields = append(fields, f)
			req.parts[f.Name] = "json"
		}
	}
	if len(fields) == 0 {
		f := &g.Field{Name: "Q1", TagKey: "form", Key: "q1Name", T: g.L(g.Int), O: g.Opts{}}
		fields = append(fields, f)
		req.parts[f.Name] = "form"
	}
	r.Shuffle(len(fields), func(i, j int) { fields[i], fields[j] = fields[j], fields[i] })
	req.shape = &g.Shape{Root: g.StructOf(fields...), TagKey: "json", ConstrainedPresent: true}
	req.pattern = pattern
	return req
}

// c05rDomain rewrites the values the transport cannot carry by design (see DESIGN §3 C05.5)
// and reports whether the request is inside the asserted domain.
func (q *c05rReq) domain(r *rand.Rand, v reflect.Value) bool {
	root := q.shape.Root
	for i, f := range root.Fields {
		fv := v.Field(i)
		part := q.parts[f.Name]
		switch part {
		case "path", "form", "header":
			if f.T.K == g.String && len(f.O.Options) == 0 {
				switch part {
				case "path":
					fv.SetString(c05rString(r, c05rPathChars, 1))
				case "header":
					fv.SetString(c05rString(r, c05rHeaderChars, 1))
				case "form":
					if fv.String() == "" && !(f.O.Optional && !f.O.HasDefault) {
						fv.SetString(c05rString(r, c05rPathChars+"/?#\"\\\n\t", 1))
					}
				}
			}
		case "json":
			bt := f.T
			if bt.K == g.Ptr {
				bt = bt.Elem
			}
			if (bt.K == g.Slice || bt.K == g.Map) && !f.O.Optional && fv.Len() == 0 {
				return false // mapping.Marshal refuses empty required containers: outside the domain
			}
		}
	}
	return true
}

type c05rServer struct {
	mu      sync.Mutex
	handler http.Handler
	shape   *g.Shape
	got     reflect.Value
	err     error
	pv      any
	err2    error
	got2    reflect.Value
	stack   string
	hits    int
	srv     *httptest.Server
}

func (s *c05rServer) ServeHTTP(w http.ResponseWriter, r *http.Request) {
	s.mu.Lock()
	h := s.handler
	s.mu.Unlock()
	h.ServeHTTP(w, r)
}

func (s *c05rServer) parse(w http.ResponseWriter, r *http.Request) {
	s.mu.Lock()
	defer s.mu.Unlock()
	s.hits++
	body, _ := io.ReadAll(r.Body)
	reset := func() { r.Body = io.NopCloser(bytes.NewReader(body)) }
	v := s.shape.New()
	func() {
		defer func() {
			if p := recover(); p != nil {
				s.pv = p
				s.stack = string(debug.Stack())
			}
		}()
		reset()
		s.err = httpx.Parse(r, v.Interface())
		// the four part parsers one by one on a second struct: Parse is their composition
		reset()
		v2 := s.shape.New()
		s.err2 = nil
		for _, pf := range []func(*http.Request, interface{}) error{httpx.ParsePath, httpx.ParseForm, httpx.ParseHeaders, httpx.ParseJsonBody} {
			if s.err2 = pf(r, v2.Interface()); s.err2 != nil {
				break
			}
		}
		s.got2 = v2
	}()
	s.got = v
}

// c05rSend sends a hand-modified request and reports what the handler saw.
func (s *c05rServer) send(req *http.Request) (hit bool, perr error, pv any, got reflect.Value, terr error) {
	s.mu.Lock()
	s.got, s.err, s.pv, s.hits = reflect.Value{}, nil, nil, 0
	s.mu.Unlock()
	resp, err := http.DefaultClient.Do(req)
	if err != nil {
		return false, nil, nil, reflect.Value{}, err
	}
	resp.Body.Close()
	s.mu.Lock()
	defer s.mu.Unlock()
	return s.hits > 0, s.err, s.pv, s.got, nil
}

func c05rFirstDiff(q *c05rReq, want, got reflect.Value) (*g.Field, string) {
	for i, f := range q.shape.Root.Fields {
		if !g.Equal(want.Field(i), got.Field(i)) {
			return f, fmt.Sprintf("field %s (%s part, tag %q): sent %s, parsed %s", f.Name, q.parts[f.Name], f.TagText(), g.Show(want.Field(i)), g.Show(got.Field(i)))
		}
	}
	return nil, ""
}

// c05rBlame names the part / field class of a server-side parse error by its key.
func c05rBlame(q *c05rReq, err error) string {
	msg := err.Error()
	best := ""
	for _, f := range q.shape.Root.Fields {
		k := f.DocKey()
		if k != "" && strings.Contains(msg, k) && len(k) > len(best) {
			best = k
		}
	}
	for _, f := range q.shape.Root.Fields {
		if best != "" && f.DocKey() == best {
			return q.parts[f.Name] + ":" + f.FieldSig()
		}
	}
	return "unattributed"
}

func TestVerifC05RoundTrip(t *testing.T) {
	m := vk.New(t, "C05", "request structs with 0-2 path, 0-3 form, 0-2 header scalar fields (optional/default/options/range/,string) and a generated json part (any supported kind, nested) are sent with httpc.Do (POST) to an httptest server; the handler behind the real router runs httpx.Parse; parsed struct must equal the sent one; non-trivial = request reached the handler with at least two parts populated")
	defer m.Done()
	logx.Disable()
	srv := &c05rServer{}
	srv.srv = httptest.NewServer(srv)
	defer srv.srv.Close()
	n := vk.N(1000, 30000)
	for idx := 1; idx <= n; idx++ {
		if !m.Only(idx) {
			continue
		}
		r := m.Rand("roundtrip", idx)
		q := c05rShape(r, idx)
		var c *g.Case
		ok := false
		for try := 0; try < 10 && !ok; try++ {
			c = g.ValidCase(r, q.shape, false, false)
			ok = q.domain(r, c.Expect.Elem())
		}
		if !ok {
			m.Count("skipped.outside-domain", 1)
			continue
		}
		rt := router.NewRouter()
		if err := rt.Handle(http.MethodPost, q.pattern, http.HandlerFunc(srv.parse)); err != nil {
			m.Inconclusive("case %d: router.Handle(%q): %v", idx, q.pattern, err)
			continue
		}
		srv.mu.Lock()
		srv.handler, srv.shape = rt, q.shape
		srv.got, srv.err, srv.pv, srv.hits = reflect.Value{}, nil, nil, 0
		srv.mu.Unlock()
		d := fmt.Sprintf("case=%d;pattern=%s;shape=%s;sent=%s", idx, q.pattern, q.shape.String(), g.Show(c.Expect))
		m.Current(d)
		var resp *http.Response
		var err error
		var cpv any
		var ue *url.Error
		func() {
			defer func() {
				if p := recover(); p != nil {
					cpv = p
				}
			}()
			resp, err = Do(context.Background(), http.MethodPost, srv.srv.URL+q.pattern, c.Expect.Interface())
		}()
		if resp != nil {
			resp.Body.Close()
		}
		parts := map[string]bool{}
		for _, p := range q.parts {
			parts[p] = true
			m.Count("fields."+p, 1)
		}
		srv.mu.Lock()
		got, perr, pv, stack, hits := srv.got, srv.err, srv.pv, srv.stack, srv.hits
		got2, perr2 := srv.got2, srv.err2
		srv.mu.Unlock()
		m.Case(q.shape.String(), hits > 0 && len(parts) >= 2)
		switch {
		case cpv != nil:
			m.Violate("C05:roundtrip:client-panic", d, "httpc.Do panicked: %v", cpv)
		case err != nil && errors.As(err, &ue):
			// the loopback transport failed (not the request builder): nothing to judge
			m.Inconclusive("case %d: transport error: %v", idx, err)
		case err != nil:
			m.Violate("C05:roundtrip:build-error", d, "httpc.Do refused a request inside the domain: %v", err)
		case hits == 0:
			m.Violate("C05:roundtrip:not-routed", d, "the request did not reach the handler registered for %s (status %d)", q.pattern, resp.StatusCode)
		case pv != nil:
			m.Violate("C05:roundtrip:server-panic", d, "httpx.Parse panicked: %v\n%s", pv, stack[:c05rMin(len(stack), 2500)])
		case perr != nil:
			m.Violate("C05:roundtrip:parse-error:"+c05rBlame(q, perr), d, "httpx.Parse rejected the request built by httpc: %v", perr)
		default:
			if f, diff := c05rFirstDiff(q, c.Expect.Elem(), got.Elem()); f != nil {
				m.Violate("C05:roundtrip:mismatch:"+q.parts[f.Name]+":"+f.FieldSig(), d, "%s\nparsed struct: %s", diff, g.Show(got))
			} else {
				m.Count("roundtrip.equal", 1)
			}
			switch {
			case perr2 != nil:
				m.Violate("C05:httpx:parts-vs-parse:errorness", d, "Parse accepted the request, ParsePath/ParseForm/ParseHeaders/ParseJsonBody in sequence: %v", perr2)
			case !g.Equal(got.Elem(), got2.Elem()):
				m.Violate("C05:httpx:parts-vs-parse:value", d, "Parse -> %s\nthe four part parsers -> %s", g.Show(got), g.Show(got2))
			default:
				m.Count("httpx.parts-equal-parse", 1)
				c05rFaults(m, srv, q, c, r, idx, d)
			}
		}
		if m.WantSample() && idx%131 == 1 {
			m.Sample(map[string]any{"pattern": q.pattern, "shape": q.shape.String(), "sent": g.Show(c.Expect), "parsed_equal": perr == nil && pv == nil && err == nil})
		}
		if idx%200 == 0 {
			m.Progress()
		}
	}
}

// c05rFaults: the valid request went through; now single faults that the server-side parser must
// refuse (it may not trust the client helper's own validation): the request is rebuilt with
// buildRequest and modified by hand, or the struct is pushed outside its constraint and sent with Do
// (then either the client helper or the server has to refuse it).
func c05rFaults(m *vk.M, srv *c05rServer, q *c05rReq, c *g.Case, r *rand.Rand, idx int, d string) {
	type fault struct {
		kind string
		mod  func(req *http.Request) *http.Request
	}
	var fs []fault
	var clientFaults []func(v reflect.Value) string
	setQuery := func(key, val string, del bool) func(*http.Request) *http.Request {
		return func(req *http.Request) *http.Request {
			qv := req.URL.Query()
			if del {
				qv.Del(key)
			} else {
				qv.Set(key, val)
			}
			req.URL.RawQuery = qv.Encode()
			return req
		}
	}
	setHeader := func(key, val string, del bool) func(*http.Request) *http.Request {
		return func(req *http.Request) *http.Request {
			if del {
				req.Header.Del(key)
			} else {
				req.Header.Set(key, val)
			}
			return req
		}
	}
	setPath := func(key, val string) func(*http.Request) *http.Request {
		return func(req *http.Request) *http.Request {
			pat := strings.Split(q.pattern, "/")
			seg := strings.Split(req.URL.Path, "/")
			for j := range pat {
				if pat[j] == ":"+key && j < len(seg) {
					seg[j] = val
				}
			}
			req.URL.Path, req.URL.RawPath = strings.Join(seg, "/"), ""
			return req
		}
	}
	fs = append(fs, fault{"form:malformed-query", func(req *http.Request) *http.Request { req.URL.RawQuery += "&zz=%zz"; return req }})
	hasJSON := false
	for i, f := range q.shape.Root.Fields {
		i, f := i, f
		part := q.parts[f.Name]
		if part == "json" {
			hasJSON = true
		}
		k := f.T.K
		if !k.IsLeaf() {
			continue
		}
		if part == "path" && k.IsNum() {
			ov := g.OverflowTexts(k)
			fs = append(fs, fault{"path:overflow", setPath(f.Key, ov[r.Intn(len(ov))])}, fault{"path:not-a-number", setPath(f.Key, "12abc")})
			if f.O.Range != nil {
				if x := g.OutOfRangeText(r, k, f.O.Range); x != "" {
					fs = append(fs, fault{"path:out-of-range", setPath(f.Key, x)})
				}
			}
		}
		if part == "header" {
			key := f.Key
			fs = append(fs, fault{"header:repeated", func(req *http.Request) *http.Request { req.Header.Add(key, "7"); return req }})
		}
		set := setQuery
		if part == "header" {
			set = setHeader
		}
		if part == "form" || part == "header" {
			if !f.O.Optional && !f.O.HasDefault {
				fs = append(fs, fault{part + ":required-absent", set(f.Key, "", true)})
			}
			if f.O.Range != nil && k.IsNum() {
				if x := g.OutOfRangeText(r, k, f.O.Range); x != "" {
					fs = append(fs, fault{part + ":out-of-range", set(f.Key, x, false)})
				}
			}
			if len(f.O.Options) > 0 {
				fs = append(fs, fault{part + ":not-in-options", set(f.Key, "101.75", false)})
			}
			if k.IsNum() {
				ov := g.OverflowTexts(k)
				fs = append(fs, fault{part + ":overflow", set(f.Key, ov[r.Intn(len(ov))], false)})
				fs = append(fs, fault{part + ":not-a-number", set(f.Key, "12abc", false)})
			}
		}
		// the struct itself pushed outside its declared constraint, sent with Do
		if f.O.Range != nil && k.IsNum() {
			if x := g.OutOfRangeText(r, k, f.O.Range); x != "" {
				if pvv, ok := g.ParseLeaf(k, x); ok {
					clientFaults = append(clientFaults, func(v reflect.Value) string { v.Field(i).Set(pvv); return part + ":out-of-range" })
				}
			}
		}
		if len(f.O.Options) > 0 && k == g.String {
			clientFaults = append(clientFaults, func(v reflect.Value) string {
				v.Field(i).SetString("zz-not-an-option")
				return part + ":not-in-options"
			})
		}
	}
	if hasJSON {
		for _, bad := range []string{"{", "", "[1]", "{\"x\":", "nul"} {
			bad := bad
			fs = append(fs, fault{"json:malformed-body", func(req *http.Request) *http.Request {
				nr, _ := http.NewRequest(req.Method, req.URL.String(), strings.NewReader(bad))
				nr.Header = req.Header
				return nr
			}})
		}
	}
	if len(fs) > 4 {
		r.Shuffle(len(fs), func(a, b int) { fs[a], fs[b] = fs[b], fs[a] })
		fs = fs[:4]
	}
	for _, ft := range fs {
		req, err := buildRequest(context.Background(), http.MethodPost, srv.srv.URL+q.pattern, c.Expect.Interface())
		if err != nil {
			return
		}
		req = ft.mod(req)
		hit, perr, pv, got, terr := srv.send(req)
		m.Count("fault-requests."+ft.kind, 1)
		dd := d + ";fault=" + ft.kind + ";url=" + req.URL.String()
		switch {
		case terr != nil:
			m.Inconclusive("case %d: transport error on fault request: %v", idx, terr)
		case pv != nil:
			m.Violate("C05:roundtrip:server-panic", dd, "httpx.Parse panicked on a faulty request (%s): %v", ft.kind, pv)
		case hit && perr == nil && ft.kind == "json:malformed-body" && req.ContentLength == 0:
			// an empty body is "no json part": every json field absent; accepted only if none is required - judged by equality
			if !g.Equal(got.Elem(), c.Expect.Elem()) {
				m.Count("fault-requests.empty-body-accepted-with-other-values", 1)
			}
		case hit && perr == nil && ft.kind == "header:repeated":
			m.Count("fault-requests.repeated-header-accepted", 1) // which of several values wins is not asserted; only panic-freedom
		case hit && perr == nil:
			m.Violate("C05:roundtrip:fault-accepted:"+ft.kind, dd, "the server-side parser accepted a faulty request (%s); parsed: %s", ft.kind, g.Show(got))
		default:
			m.Count("fault-requests.rejected", 1)
		}
	}
	if len(clientFaults) > 0 {
		cf := clientFaults[r.Intn(len(clientFaults))]
		v := reflect.New(c.Expect.Elem().Type())
		v.Elem().Set(c.Expect.Elem())
		kind := cf(v.Elem())
		srv.mu.Lock()
		srv.got, srv.err, srv.pv, srv.hits = reflect.Value{}, nil, nil, 0
		srv.mu.Unlock()
		resp, err := Do(context.Background(), http.MethodPost, srv.srv.URL+q.pattern, v.Interface())
		if resp != nil {
			resp.Body.Close()
		}
		srv.mu.Lock()
		hits, perr, pv := srv.hits, srv.err, srv.pv
		srv.mu.Unlock()
		m.Count("client-fault."+kind, 1)
		switch {
		case pv != nil:
			m.Violate("C05:roundtrip:server-panic", d, "httpx.Parse panicked (%s): %v", kind, pv)
		case err != nil:
			m.Count("client-fault.refused-by-client", 1)
		case hits > 0 && perr != nil:
			m.Count("client-fault.refused-by-server", 1)
		case hits > 0:
			m.Violate("C05:roundtrip:constraint-violation-accepted:"+kind, d+";sent-instead="+g.Show(v), "a request struct outside its declared constraint (%s) was sent by httpc.Do and accepted by httpx.Parse", kind)
		}
	}
}

func c05rMin(a, b int) int {
	if a < b {
		return a
	}
	return b
}

// ---------------------------------------------------------------------------
// requests WITHOUT a JSON body: the json part of the request struct is an empty document

type c05rChunked struct{ r io.Reader }

func (c c05rChunked) Read(p []byte) (int, error) { return c.r.Read(p) }

// TestVerifC05NoBody: request structs with path/form/header parts AND json members (required,
// optional, default=) are parsed by httpx.Parse / ParseJsonBody from requests that carry no JSON
// document: GET, POST with an empty body, a body with a non-JSON content type, a chunked `{}`.
// The json part is then the empty document: a required json member makes the parse fail, defaults
// are applied, optional members stay zero; the other parts arrive exactly.
func TestVerifC05NoBody(t *testing.T) {
	m := vk.New(t, "C05", "request structs with path/form/header parts and generated json members x requests without a JSON document (GET; POST empty body with JSON content type; POST text/plain and form-urlencoded bodies; chunked {} body; JSON body with ContentLength but no JSON content type) through httpx.Parse behind the real router and through ParseJsonBody alone: audited as the empty json document (required member absent => error; default= applied; optional zero; other parts exact); non-trivial = both an accepted and a refused variant seen for the shape family")
	defer m.Done()
	logx.Disable()
	srv := &c05rServer{}
	srv.srv = httptest.NewServer(srv)
	defer srv.srv.Close()
	n := vk.N(500, 15000)
	for idx := 1; idx <= n; idx++ {
		if !m.Only(idx) {
			continue
		}
		r := m.Rand("nobody", idx)
		q := c05rShape(r, idx)
		var c *g.Case
		ok := false
		for try := 0; try < 10 && !ok; try++ {
			c = g.ValidCase(r, q.shape, false, false)
			ok = q.domain(r, c.Expect.Elem())
		}
		if !ok {
			continue
		}
		rt := router.NewRouter()
		for _, method := range []string{http.MethodGet, http.MethodPost} {
			if err := rt.Handle(method, q.pattern, http.HandlerFunc(srv.parse)); err != nil {
				m.Inconclusive("case %d: router.Handle: %v", idx, err)
			}
		}
		srv.mu.Lock()
		srv.handler, srv.shape = rt, q.shape
		srv.mu.Unlock()
		base, err := buildRequest(context.Background(), http.MethodPost, srv.srv.URL+q.pattern, c.Expect.Interface())
		if err != nil {
			m.Count("skipped.build-error", 1)
			continue
		}
		// the document the server sees: the non-json parts as sent, no json member at all
		doc := map[string]any{}
		jsonMembers, requiredJSON, simpleJSON := 0, false, true
		seenKey, clash := map[string]bool{}, false
		for _, f := range q.shape.Root.Fields {
			k := strings.ToLower(f.DocKey())
			clash = clash || seenKey[k]
			seenKey[k] = true
		}
		if clash {
			m.Count("skipped.same-key-in-two-parts", 1) // the audit addresses members by key: keep keys distinct across parts
			continue
		}
		for i, f := range q.shape.Root.Fields {
			switch q.parts[f.Name] {
			case "json":
				jsonMembers++
				bt := f.T
				if bt.K == g.Ptr {
					bt = bt.Elem
				}
				if !f.O.Optional && !f.O.HasDefault && (bt.K.IsLeaf() || bt.K == g.Slice) {
					requiredJSON = true
				}
				if !(f.O.Optional || f.O.HasDefault) && bt.K != g.Map {
					simpleJSON = false // a struct member may or may not need content: acceptance not asserted
				}
			case "form":
				if s := fmt.Sprint(c.Expect.Elem().Field(i).Interface()); s != "" {
					doc[f.Key] = s
				}
			default:
				doc[f.Key] = fmt.Sprint(c.Expect.Elem().Field(i).Interface())
			}
		}
		type variant struct {
			name string
			mk   func() *http.Request
		}
		clone := func(method string, body io.Reader, ctype string) *http.Request {
			nr, _ := http.NewRequest(method, base.URL.String(), body)
			for k, v := range base.Header {
				if k != "Content-Type" {
					nr.Header[k] = v
				}
			}
			if ctype != "" {
				nr.Header.Set("Content-Type", ctype)
			}
			return nr
		}
		variants := []variant{
			{"GET", func() *http.Request { return clone(http.MethodGet, nil, "") }},
			{"GET+json-content-type", func() *http.Request { return clone(http.MethodGet, nil, "application/json") }},
			{"POST-empty-body", func() *http.Request { return clone(http.MethodPost, nil, "application/json") }},
			{"POST-text-plain", func() *http.Request { return clone(http.MethodPost, strings.NewReader("hello"), "text/plain") }},
			{"POST-urlencoded", func() *http.Request {
				return clone(http.MethodPost, strings.NewReader("zzUnused=1"), "application/x-www-form-urlencoded")
			}},
			{"POST-json-body-without-json-content-type", func() *http.Request { return clone(http.MethodPost, strings.NewReader("{}"), "") }},
			{"POST-chunked-empty-object", func() *http.Request {
				nr := clone(http.MethodPost, c05rChunked{strings.NewReader("{}")}, "application/json")
				nr.ContentLength = -1
				return nr
			}},
		}
		vr := variants[idx%len(variants)]
		v2 := variants[(idx/len(variants)+idx+1)%len(variants)]
		acc, rej := 0, 0
		for _, va := range []variant{vr, v2} {
			req := va.mk()
			d := fmt.Sprintf("case=%d;request=%s %s;shape=%s;non-json parts sent=%s", idx, va.name, req.URL.String(), q.shape.String(), g.JSON(doc))
			m.Current(d)
			hit, perr, pv, got, terr := srv.send(req)
			m.Count("nobody.requests."+va.name, 1)
			switch {
			case terr != nil:
				m.Inconclusive("case %d: transport error: %v", idx, terr)
			case !hit:
				m.Violate("C05:roundtrip:not-routed", d, "the request did not reach the handler")
			case pv != nil:
				m.Violate("C05:roundtrip:server-panic", d, "httpx.Parse panicked: %v", pv)
			case perr != nil:
				rej++
				m.Count("nobody.refused", 1)
				if jsonMembers == 0 || (simpleJSON && !requiredJSON) {
					m.Violate("C05:httpx-no-body:valid-rejected", d, "no json member is required, yet the request without a JSON document is refused: %v", perr)
				}
			default:
				acc++
				m.Count("nobody.accepted", 1)
				if fd := g.Audit(q.shape, got, doc, g.AuditOpt{}); fd != nil {
					m.Violate("C05:httpx-no-body:"+strings.TrimPrefix(fd.Sig, "C05:"), d, "%s\nparsed: %s", fd.Detail, g.Show(got))
				} else if requiredJSON {
					m.Violate("C05:httpx-no-body:required-absent-accepted", d, "a required json member exists, the request has no JSON document, no error; parsed: %s", g.Show(got))
				}
			}
		}
		m.Case(q.shape.String(), jsonMembers > 0 && acc+rej > 0)
		if m.WantSample() && idx%97 == 1 {
			m.Sample(map[string]any{"request": vr.name, "shape": q.shape.String(), "json_members": jsonMembers, "required_json_member": requiredJSON, "accepted": acc, "refused": rej})
		}
	}

	// ParseJsonBody alone, fixed struct: required / default / optional json members
	type fixed struct {
		Name string   `json:"name"`
		Size int8     `json:"size,default=7"`
		Sort string   `json:"sort,optional,options=asc|desc"`
		Tags []string `json:"tags,default=[a,b]"`
	}
	type fixedOpt struct {
		Size int8     `json:"size,default=7"`
		Sort string   `json:"sort,optional"`
		Tags []string `json:"tags,default=[a,b]"`
		Q    int      `form:"q,optional"`
	}
	mkReqs := func() map[string]*http.Request {
		out := map[string]*http.Request{}
		out["GET"], _ = http.NewRequest(http.MethodGet, "http://h/x?q=3", nil)
		out["POST-empty"], _ = http.NewRequest(http.MethodPost, "http://h/x?q=3", http.NoBody) // a server-side request always has a Body
		out["POST-empty"].Header.Set("Content-Type", "application/json")
		out["POST-text"], _ = http.NewRequest(http.MethodPost, "http://h/x?q=3", strings.NewReader(`{"name":"n"}`))
		out["POST-text"].Header.Set("Content-Type", "text/plain")
		out["POST-chunked"], _ = http.NewRequest(http.MethodPost, "http://h/x?q=3", c05rChunked{strings.NewReader("{}")})
		out["POST-chunked"].Header.Set("Content-Type", "application/json")
		out["POST-chunked"].ContentLength = -1
		return out
	}
	for _, name := range []string{"GET", "POST-empty", "POST-text", "POST-chunked"} {
		for _, fn := range []string{"Parse", "ParseJsonBody"} {
			parse := httpx.Parse
			if fn == "ParseJsonBody" {
				parse = httpx.ParseJsonBody
			}
			d := fmt.Sprintf("case=%d;fixed struct;request=%s;func=httpx.%s", n+1, name, fn)
			var f1 fixed
			var f2 fixedOpt
			var e1, e2 error
			var pv any
			func() {
				defer func() { pv = recover() }()
				e1 = parse(mkReqs()[name], &f1)
				e2 = parse(mkReqs()[name], &f2)
			}()
			m.Case(d, true)
			m.Count("nobody.fixed-probes", 2)
			switch {
			case pv != nil:
				m.Violate("C05:roundtrip:server-panic", d, "panic: %v", pv)
			case e1 == nil:
				m.Violate("C05:httpx-no-body:required-absent-accepted", d, "required json member `name` absent (no JSON document), no error: %+v", f1)
			case e2 != nil:
				m.Violate("C05:httpx-no-body:valid-rejected", d, "struct without required json members refused: %v", e2)
			case f2.Size != 7 || f2.Sort != "" || !reflect.DeepEqual(f2.Tags, []string{"a", "b"}) || (fn == "Parse" && f2.Q != 3):
				m.Violate("C05:httpx-no-body:default-not-applied", d, "defaults of json members not applied without a JSON document: %+v", f2)
			}
		}
	}
}

// ---------------------------------------------------------------------------
// body size extremes around httpx's body limit (8 MiB)

// TestVerifC05BodySize: JSON bodies just below, exactly at and above the parser's size limit, whose
// members all have default= / optional (so that "no document" would be acceptable): the request is
// either refused or parsed exactly - never answered with defaults in place of what the body says.
func TestVerifC05BodySize(t *testing.T) {
	m := vk.New(t, "C05", "struct whose json members are all optional/defaulted x JSON bodies of 1 KiB, limit-1, limit, limit+1, limit+4 KiB, 2*limit bytes (limit = 8 MiB), real members before or after the padding member, sent to the httptest server (httpx.Parse behind the router) and parsed directly: error, or every member equals the body (audit) - never defaults instead of the body's values")
	defer m.Done()
	logx.Disable()
	const limit = 8 << 20
	root := g.StructOf(
		g.F("Size", "size", g.L(g.Int8), g.Opts{HasDefault: true, Default: "7"}),
		g.F("Sort", "sort", g.L(g.String), g.Opts{Optional: true}),
		g.F("Tags", "tags", g.SliceOf(g.L(g.String)), g.Opts{HasDefault: true, Default: "[a,b]"}),
		g.F("Apad", "apad", g.L(g.String), g.Opts{Optional: true}),
		g.F("Zpad", "zpad", g.L(g.String), g.Opts{Optional: true}),
		&g.Field{Name: "Q", TagKey: "form", Key: "q", T: g.L(g.Int), O: g.Opts{Optional: true}},
	)
	shape := &g.Shape{Root: root, TagKey: "json"}
	srv := &c05rServer{}
	srv.srv = httptest.NewServer(srv)
	defer srv.srv.Close()
	rt := router.NewRouter()
	if err := rt.Handle(http.MethodPost, "/c05/big", http.HandlerFunc(srv.parse)); err != nil {
		t.Fatalf("router: %v", err)
	}
	srv.handler, srv.shape = rt, shape
	idx := 0
	for _, size := range []int{1 << 10, limit - 1, limit, limit + 1, limit + 4096, 2 * limit} {
		for _, padKey := range []string{"apad", "zpad"} { // encoding/json sorts keys: padding before / after the real members
			for _, direct := range []bool{false, true} {
				idx++
				if !m.Only(idx) {
					continue
				}
				doc := map[string]any{"size": json.Number("9"), "sort": "desc", "tags": []any{"x", "y"}, padKey: ""}
				overhead := len(g.JSON(doc))
				doc[padKey] = strings.Repeat("p", size-overhead)
				body := g.JSON(doc)
				d := fmt.Sprintf("case=%d;body=%d bytes (limit %d);padding member=%s;direct=%v;shape=%s", idx, len(body), limit, padKey, direct, shape.String())
				m.Current(d)
				full := map[string]any{"q": "3"}
				for k, v := range doc {
					full[k] = v
				}
				var perr error
				var pv any
				var got reflect.Value
				if direct {
					rq, _ := http.NewRequest(http.MethodPost, "http://c05.local/c05/big?q=3", bytes.NewReader(body))
					rq.Header.Set("Content-Type", "application/json")
					got = shape.New()
					func() {
						defer func() { pv = recover() }()
						perr = httpx.Parse(rq, got.Interface())
					}()
				} else {
					rq, _ := http.NewRequest(http.MethodPost, srv.srv.URL+"/c05/big?q=3", bytes.NewReader(body))
					rq.Header.Set("Content-Type", "application/json")
					hit, e, p, gv, terr := srv.send(rq)
					if terr != nil || !hit {
						m.Inconclusive("case %d: request did not reach the handler: %v", idx, terr)
						continue
					}
					perr, pv, got = e, p, gv
				}
				m.Case(d, true)
				m.Count(fmt.Sprintf("bodysize.%d", len(body)), 1)
				switch {
				case pv != nil:
					m.Violate("C05:roundtrip:server-panic", d, "httpx.Parse panicked: %v", pv)
				case perr != nil:
					m.Count("bodysize.refused", 1)
					if len(body) <= 1<<10 {
						// around the limit itself only "refused or exact" is asserted; a small body must simply load
						m.Violate("C05:httpx-body-size:valid-rejected", d, "a 1 KiB body is refused: %v", perr)
					}
				default:
					m.Count("bodysize.accepted", 1)
					if fd := g.Audit(shape, got, full, g.AuditOpt{}); fd != nil {
						det := fd.Detail
						if len(det) > 600 {
							det = det[:600] + "…"
						}
						m.Violate("C05:httpx-body-size:"+strings.TrimPrefix(fd.Sig, "C05:"), d, "accepted, but the struct does not hold what the body says: %s\nsize=%v sort=%v tags=%v", det, got.Elem().Field(0), got.Elem().Field(1), got.Elem().Field(2))
					}
				}
			}
		}
	}
	m.Sample(map[string]any{"limit": limit, "requests": idx})
}
