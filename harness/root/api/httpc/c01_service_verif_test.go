//go:build verif

package httpc

// C01 — outgoing HTTP client integration (httpc.Service): the named breaker of
// the service counts err == nil && status < 500 as benign. Black box over a fake
// RoundTripper: a rejected call is one whose transport was not invoked.

import (
	"context"
	"errors"
	"fmt"
	"net/http"
	"strings"
	"testing"
	"time"

	"github.com/gotid/god/lib/breaker"
	"github.com/gotid/god/lib/logx"
	"github.com/gotid/god/lib/stat"
	"github.com/gotid/god/lib/timex"
	"verif.local/vk"
)

type c01Transport struct {
	ran    int
	status int
	err    error
}

func (t *c01Transport) RoundTrip(r *http.Request) (*http.Response, error) {
	t.ran++
	if t.err != nil {
		return nil, t.err
	}
	return &http.Response{
		StatusCode: t.status, Status: fmt.Sprintf("%d c01", t.status), Proto: "HTTP/1.1", ProtoMajor: 1, ProtoMinor: 1,
		Header: http.Header{}, Body: http.NoBody, Request: r,
	}, nil
}

func c01StatusClass(s int) string {
	switch s {
	case 100, 199, 200, 399, 400, 498, 499, 500, 501, 503, 599:
		return fmt.Sprint(s)
	}
	return fmt.Sprintf("%dxx", s/100)
}

// c01RegistryProbe: the named registry's entry point must return. On a healthy
// tree the probe takes microseconds; a fired watchdog with goroutines parked in
// breaker.Get on the registry lock is the witness of C01:registry:hang.
func c01RegistryProbe(m *vk.M) bool {
	const wd = 45 * time.Second
	ok := vk.Within(wd, func() {
		for i := 0; i < 3; i++ {
			n := fmt.Sprintf("c01-probe-%d-%d", vk.Seq(), i)
			if breaker.Get(n) != breaker.Get(n) {
				m.Violate("C01:registry:identity", "case=0;registry probe", "Get(%q) returned two different breakers", n)
			}
		}
	})
	if ok {
		return true
	}
	var parked []string
	for _, b := range vk.GoroutinesIn("lib/breaker.Get(") {
		if strings.Contains(b, "sync.(*RWMutex)") || strings.Contains(b, "semacquire") {
			parked = append(parked, b)
		}
	}
	if len(parked) > 0 {
		m.Violate("C01:registry:hang", "case=0;registry probe: Get(name) twice for three fresh names", "breaker.Get did not return within %v; %d goroutine(s) parked on the registry lock:\n%s", wd, len(parked), strings.Join(parked, "\n\n"))
	} else {
		m.Inconclusive("registry probe did not finish within %v and no goroutine is parked in breaker.Get", wd)
	}
	return false
}

func TestVerifC01HTTPClientTable(t *testing.T) {
	m := vk.New(t, "C01", "httpc.NewServiceWithClient over a fake RoundTripper (redirects not followed), one service name (= one named breaker) per row, virtual clock frozen: every status 100-499 alone x150 => transport always invoked; 10000 mixed statuses < 500 => 0 rejections; every status 500-599 alone x400 and a transport error x400 => at least one call short-circuited with ErrServiceUnavailable; non-trivial = row completed (benign) / rejected (failing)")
	defer m.Done()
	logx.Disable()
	stat.SetReporter(nil)
	timex.VerifFakeClock(1000*time.Hour + time.Duration(m.Rand("clock").Int63n(int64(time.Hour))))
	defer timex.VerifRealClock()
	if !c01RegistryProbe(m) {
		return
	}
	r := m.Rand("httpc")
	perBenign := vk.N(150, 1000)
	perBad := vk.N(400, 2000)
	tag := fmt.Sprintf("c01-%d-%d", vk.Seed(), vk.Seq())
	newSvc := func(name string) (Service, *c01Transport) {
		tr := &c01Transport{}
		cli := &http.Client{Transport: tr, CheckRedirect: func(*http.Request, []*http.Request) error { return http.ErrUseLastResponse }}
		return NewServiceWithClient(tag+"/"+name, cli), tr
	}
	hung := false
	call := func(svc Service, tr *c01Transport, i int) (ran bool, err error) {
		if hung {
			return true, nil
		}
		before := tr.ran
		var resp *http.Response
		var cerr error
		// a request through the service's breaker takes microseconds; a 5xx answer is a failure
		// WITHOUT an error text (err == nil refused by the predicate)
		finished := vk.Within(45*time.Second, func() {
			if i%2 == 0 {
				resp, cerr = svc.Do(context.Background(), http.MethodGet, "http://c01.invalid/x", nil)
			} else {
				req, _ := http.NewRequest(http.MethodGet, "http://c01.invalid/y", nil)
				resp, cerr = svc.DoRequest(req)
			}
		})
		if !finished {
			hung = true
			var parked []string
			for _, b := range vk.GoroutinesIn("lib/breaker.") {
				if strings.Contains(b, "sync.(*RWMutex)") || strings.Contains(b, "sync.(*Mutex)") || strings.Contains(b, "semacquire") {
					parked = append(parked, b)
				}
			}
			if len(parked) > 0 {
				m.Violate("C01:call:hang", fmt.Sprintf("case=0;request #%d through httpc.Service (upstream status %d)", i, tr.status), "a request through the service's breaker did not return within 45s; %d goroutine(s) parked on a lock inside lib/breaker, first:\n%s", len(parked), parked[0])
			} else {
				m.Inconclusive("a request through httpc.Service did not return within 45s and no goroutine is parked in lib/breaker")
			}
			return true, nil
		}
		if resp != nil && resp.Body != nil {
			_ = resp.Body.Close()
		}
		return tr.ran > before, cerr
	}
	for s := 100; s <= 499; s++ {
		svc, tr := newSvc(fmt.Sprint("b", s))
		tr.status = s
		desc := fmt.Sprintf("case=%d;upstream answers %d x%d", s, s, perBenign)
		okRow := true
		for i := 0; i < perBenign; i++ {
			ran, err := call(svc, tr, i)
			m.Count("calls_benign", 1)
			if !ran {
				m.Violate("C01:benign:httpc:"+c01StatusClass(s)+":rejected", desc, "call #%d short-circuited (%v) after only status-%d responses", i, err, s)
				okRow = false
				break
			}
		}
		m.Case(fmt.Sprint("benign", s), okRow)
	}
	{
		svc, tr := newSvc("mixed")
		n := vk.N(10000, 100000)
		for i := 0; i < n; i++ {
			tr.status = 100 + r.Intn(400)
			ran, err := call(svc, tr, i)
			m.Count("calls_benign_mixed", 1)
			if !ran {
				m.Violate("C01:benign:httpc:mixed:rejected", "case=700;mixed statuses < 500 on one service", "call #%d (status %d) short-circuited (%v)", i, tr.status, err)
				break
			}
		}
		m.Case("mixed-benign", true)
	}
	for _, share := range []int{10, 30} {
		svc, tr := newSvc(fmt.Sprint("mix", share))
		n := vk.N(3000, 30000)
		var acc, tot int64
		okRow := true
		for k := 0; k < n; k++ {
			bad := r.Intn(100) < share
			tr.status, tr.err = 100+r.Intn(400), nil
			if bad {
				if r.Intn(4) == 0 {
					tr.err = errors.New("c01: connection reset")
				} else {
					tr.status = 500 + r.Intn(100)
				}
			}
			must := 2*(tot-5) <= 3*acc
			ran, err := call(svc, tr, k)
			m.Count("calls_mixed_success_failure", 1)
			if !ran {
				if must {
					m.Violate("C01:mixed:httpc:rejected-below-threshold", fmt.Sprintf("case=%d;%d%% 5xx/transport errors among statuses < 500", 750+share, share), "call #%d was rejected (%v) although the %d admitted calls so far were %d benign and %d failing, i.e. total-5 <= 1.5*successes", k, err, tot, acc, tot-acc)
					okRow = false
					break
				}
				continue
			}
			tot++
			if !bad {
				acc++
			}
		}
		m.Case(fmt.Sprint("mixed-success-failure", share, okRow), okRow && tot > acc)
	}
	failing := func(idx int, label string, tr *c01Transport, svc Service) {
		desc := fmt.Sprintf("case=%d;upstream outcome %s x%d", idx, label, perBad)
		rej, first := 0, -1
		bad := false
		for i := 0; i < perBad; i++ {
			ran, err := call(svc, tr, i)
			if hung {
				return
			}
			m.Count("calls_failing", 1)
			if ran && err == breaker.ErrServiceUnavailable {
				m.Violate("C01:reject:req-ran", desc, "call #%d invoked the transport and still returned ErrServiceUnavailable", i)
				bad = true
				break
			}
			if !ran {
				rej++
				if first < 0 {
					first = i
				}
				if err != breaker.ErrServiceUnavailable {
					m.Violate("C01:reject:httpc:wrong-error", desc, "short-circuited call #%d returned %v", i, err)
					bad = true
					break
				}
			}
		}
		m.Count("calls_rejected", int64(rej))
		if !bad && rej == 0 {
			m.Violate("C01:nonbenign:httpc:"+label+":never-cut-off", desc, "%d consecutive %s outcomes and the transport was invoked every time", perBad, label)
		}
		m.Case("failing-"+fmt.Sprint(idx), rej > 0)
		if idx%50 == 0 {
			m.Sample(map[string]any{"scenario": fmt.Sprintf("%s x%d", label, perBad), "short_circuited": rej, "first_at_call": first})
		}
	}
	for s := 500; s <= 599; s++ {
		svc, tr := newSvc(fmt.Sprint("f", s))
		tr.status = s
		failing(s, c01StatusClass(s), tr, svc)
	}
	{
		svc, tr := newSvc("transport-error")
		tr.err = errors.New("c01: connection refused")
		failing(800, "transport-error", tr, svc)
	}
}
