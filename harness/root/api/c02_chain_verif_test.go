//go:build verif

package api

// C02 — recorder monitor: the chain exactly as composed by engine.bindRoutes,
// driven through the router's ServeHTTP with httptest recorders.
//
//   TestVerifC02Chain      plain build: many batches of gated / deterministic scenarios
//   TestVerifC02RaceChain  -race build: the same batches plus racing handlers (writes
//                          straddling the deadline) and the concurrent MaxConns gauge

import (
	"bytes"
	"context"
	"fmt"
	"io"
	"math/rand"
	"net/http"
	"net/http/httptest"
	"os"
	"strconv"
	"sync"
	"sync/atomic"
	"testing"
	"time"

	"github.com/gotid/god/api/chain"
	"github.com/gotid/god/api/handler"
	"github.com/gotid/god/lib/logx"
	"verif.local/vk"
)

type c02OnlyReader struct{ r io.Reader }

func (o c02OnlyReader) Read(p []byte) (int, error) { return o.r.Read(p) }

func c02RecorderDoer(e *c02Env) c02Doer {
	return func(run *c02Run, opt c02ReqOpt) (*c02Resp, func() *c02Resp) {
		var body io.Reader
		if opt.hasBody {
			body = bytes.NewReader(opt.body)
			if opt.chunked {
				body = c02OnlyReader{body}
			}
		}
		req := httptest.NewRequest(run.route.Method, run.route.Path, body)
		req.Header.Set(c02RunHeader, run.id)
		for _, h := range run.reqHdr {
			req.Header.Set(h[0], h[1])
		}
		if opt.upgrade != "" {
			req.Header.Set("Upgrade", opt.upgrade)
		}
		if opt.ctx != nil {
			req = req.WithContext(opt.ctx)
		}
		rec := httptest.NewRecorder()
		start := time.Now()
		// a panic that escapes the whole chain is what net/http would turn into a
		// closed connection: the client has no response
		if pv, escaped := vk.Recover(func() { e.srv.router.ServeHTTP(rec, req) }); escaped {
			return &c02Resp{Err: fmt.Sprintf("panic escaped the chain (net/http would close the connection without a response): %v", pv),
				Seq: vk.Seq(), Elapsed: time.Since(start)}, nil
		}
		resp := c02FromRecorder(rec, start)
		return resp, func() *c02Resp { return c02FromRecorder(rec, start) }
	}
}

type c02BatchCfg struct {
	B         int    `json:"batch"`
	CfgMs     int64  `json:"config_timeout_ms"`
	ShortMs   int64  `json:"short_timeout_ms"`
	ShortBy   string `json:"short_by"`
	FastBy    string `json:"fast_by"`
	MaxConns  int    `json:"max_conns"`
	Verbose   bool   `json:"verbose"`
	MaxBytes  int64  `json:"max_bytes"`
	BytesBy   string `json:"bytes_by"`
	CfgBytes  int64  `json:"config_max_bytes"`
	Racing    bool   `json:"racing"`
	NFast     int    `json:"fast_routes"`
	NShort    int    `json:"short_routes"`
	PerFast   int    `json:"per_fast_route"`
	PerShort  int    `json:"per_short_route"`
	GaugeReqs int    `json:"gauge_reqs"`
}

// c02RunBatch builds one server configuration and runs its scenario lists, one
// worker per route (so that the concurrency inside a route is what the scenario
// says), routes in parallel.
func c02RunBatch(m *vk.M, b int, racing bool) {
	r := m.Rand("batch", b)
	bc := c02BatchCfg{B: b, Racing: racing, NFast: 3, NShort: 6, PerFast: 10, PerShort: 4}
	bc.ShortMs = int64(8 + r.Intn(33))
	if racing {
		bc.ShortMs = int64(20 + r.Intn(81))
		bc.GaugeReqs = 25
	}
	bc.MaxConns = []int{1, 2, 5, 16, 0, -1}[r.Intn(6)] // <= 0: unlimited
	bc.MaxBytes = int64(1 + r.Intn(4096))
	if b%3 == 0 { // the smallest limits that are limits: 1 (every third batch alternates 1 / 2)
		bc.MaxBytes = int64(1 + (b/3)%2)
	}
	short := time.Duration(bc.ShortMs) * time.Millisecond
	var fastOpt, shortOpt time.Duration
	switch r.Intn(3) {
	case 0: // no server-wide timeout: fast routes run without a timeout handler
		bc.CfgMs, bc.ShortBy, bc.FastBy, shortOpt = []int64{0, -3}[r.Intn(2)], "route", "none", short // zero / negative: no timeout handler
	case 1:
		bc.CfgMs, bc.ShortBy, bc.FastBy, shortOpt = int64(c02LongTimeout/time.Millisecond), "route", "config", short
	default:
		bc.CfgMs, bc.ShortBy, bc.FastBy, fastOpt = bc.ShortMs, "config", "route", c02LongTimeout
	}
	var bytesOpt int64
	if r.Intn(2) == 0 {
		bc.BytesBy, bc.CfgBytes = "config", bc.MaxBytes
	} else {
		bc.BytesBy, bc.CfgBytes, bytesOpt = "route", []int64{0, -1, bc.MaxBytes + 5000}[r.Intn(3)], bc.MaxBytes
	}
	bc.Verbose = b%2 == 1 // DetailedLogHandler (tees the body) instead of LogHandler
	cfg := Config{Timeout: bc.CfgMs, MaxConns: bc.MaxConns, MaxBytes: bc.CfgBytes, Verbose: bc.Verbose}
	groups := []c02Group{
		{Class: "fast", Method: http.MethodGet, N: bc.NFast, Timeout: fastOpt},
		{Class: "short", Method: http.MethodGet, N: bc.NShort, Timeout: shortOpt},
		{Class: "conns", Method: http.MethodGet, N: 1, Timeout: fastOpt},
		{Class: "gauge", Method: http.MethodGet, N: 2, Timeout: fastOpt},
		{Class: "bytes", Method: http.MethodPost, N: 1, Timeout: fastOpt, MaxBytes: bytesOpt},
		// the limit applies to the declared length whatever the method
		{Class: "bytes-GET", Method: http.MethodGet, N: 1, Timeout: fastOpt, MaxBytes: bytesOpt},
		{Class: "bytes-HEAD", Method: http.MethodHead, N: 1, Timeout: fastOpt, MaxBytes: bytesOpt},
		{Class: "bytes-PUT", Method: http.MethodPut, N: 1, Timeout: fastOpt, MaxBytes: bytesOpt},
		{Class: "bytes-PATCH", Method: http.MethodPatch, N: 1, Timeout: fastOpt, MaxBytes: bytesOpt},
		{Class: "bytes-DELETE", Method: http.MethodDelete, N: 1, Timeout: fastOpt, MaxBytes: bytesOpt},
		{Class: "bytes-OPTIONS", Method: http.MethodOptions, N: 1, Timeout: fastOpt, MaxBytes: bytesOpt},
		{Class: "pv", Method: http.MethodGet, N: c02PanicAlphabetRoutes, Timeout: fastOpt},
		{Class: "bytescfg", Method: http.MethodPost, N: 1, Timeout: fastOpt}, // no WithMaxBytes: Config.MaxBytes (zero / negative = none) applies
	}
	var descMu sync.Mutex
	desc := func(extra string) string {
		descMu.Lock()
		defer descMu.Unlock()
		return fmt.Sprintf("case=%d;%s;%s", b, vk.JSON(bc), extra)
	}
	c := &c02Ctx{m: m, obs: "chain", desc: desc}
	m.Current(desc(""))
	e, err := c02NewEnv(fmt.Sprintf("b%d", b), cfg, groups)
	if err != nil {
		m.Inconclusive("batch %d: NewServer: %v", b, err)
		return
	}
	if err := e.srv.ng.bindRoutes(e.srv.router); err != nil {
		m.Inconclusive("batch %d: bindRoutes: %v", b, err)
		return
	}
	do := c02RecorderDoer(e)
	hasFastTimeout := bc.FastBy != "none"
	var wg sync.WaitGroup
	worker := func(salt string, f func(r *rand.Rand)) {
		wg.Add(1)
		rr := m.Rand("batch", b, salt)
		go func() {
			defer wg.Done()
			f(rr)
		}()
	}
	for i, rt := range e.routes["fast"] {
		rt := rt
		worker(fmt.Sprint("fast", i), func(r *rand.Rand) {
			fails := 0 // keep the route's breaker quiet: at most 4 answers >= 500
			for k := 0; k < bc.PerFast; k++ {
				ok := true
				switch x := r.Intn(10); {
				case x < 5:
					sc := c02GenFast(r, fails < 4)
					if sc.model("", len(sc.Steps)).status >= 500 {
						fails++
					}
					ok = c02ScFast(c, e, do, rt, sc, "fast")
				case x < 6 && fails < 4:
					fails++
					ok = c02ScPanic(c, e, do, rt, c02GenPanic(r, false), r)
				case x < 8 && fails < 4:
					fails++
					ok = c02ScPanic(c, e, do, rt, c02GenPanic(r, true), r)
				case x < 9 && hasFastTimeout:
					ok = c02ScCancel(c, e, do, rt, c02GenCancel(r))
				default:
					ok = c02ScFast(c, e, do, rt, c02GenFast(r, false), "fast")
				}
				if !ok && m.ViolCount() > 0 {
					return
				}
			}
		})
	}
	for i, rt := range e.routes["short"] {
		rt := rt
		worker(fmt.Sprint("short", i), func(r *rand.Rand) {
			// every scenario here ends in a 503: at most 4 per route (own breaker)
			for k := 0; k < bc.PerShort; k++ {
				ok := true
				switch x := r.Intn(10); {
				case racing && x < 6:
					ok = c02ScRacing(c, e, do, rt, c02GenRacing(r, rt.Timeout))
				case x < 8 && k == 1: // ordinary requests that merely carry a non-websocket Upgrade header
					ok, _ = c02ScLate(c, e, do, rt, c02GenLate(r), c02ReqOpt{upgrade: []string{"h2c", "c02-junk", "TLS/1.0"}[r.Intn(3)]})
				case x < 8:
					ok, _ = c02ScLate(c, e, do, rt, c02GenLate(r))
				default:
					ok, _ = c02ScLate(c, e, do, rt, c02GenLatePanic(r))
				}
				if !ok && m.ViolCount() > 0 {
					return
				}
			}
		})
	}
	if b%3 == 0 {
		worker("pv", func(r *rand.Rand) { c02ScPanicAlphabet(c, e, do, e.routes["pv"], r) })
	}
	worker("conns", func(r *rand.Rand) {
		if bc.MaxConns <= 0 {
			c02ScUnlimited(c, e, do, e.routes["conns"][0], 24, r)
			return
		}
		k := 1 + r.Intn(4)
		if b%2 == 0 { // a real overload burst: many more rejections than admitted requests
			k = 30 + r.Intn(30)
		}
		c02ScMaxConns(c, e, do, e.routes["conns"][0], bc.MaxConns, k, r)
	})
	worker("upgrade", func(r *rand.Rand) {
		// websocket upgrade requests bypass the timeout handler: still the handler's response
		if racing { // the gauge routes are busy in the racing flavour
			return
		}
		rt := e.routes["gauge"][1]
		for k := 0; k < 4; k++ {
			if !c02ScFastOpt(c, e, do, rt, c02GenFast(r, false), "upgrade", c02ReqOpt{upgrade: "websocket"}) {
				return
			}
		}
	})
	worker("bytes", func(r *rand.Rand) {
		rt := e.routes["bytes"][0]
		mb := int(rt.MaxBytes)
		lens := []int{mb - 1, mb, mb + 1, mb + 2, 0, 2*mb + 7, r.Intn(mb + 1), mb + 1 + r.Intn(5000)}
		for _, l := range lens {
			if l < 0 {
				l = 0
			}
			if !c02ScMaxBytes(c, e, do, rt, l, false, r) && m.ViolCount() > 0 {
				return
			}
		}
		c02ScMaxBytes(c, e, do, rt, mb+1+r.Intn(100), true, r)
		for _, meth := range []string{"GET", "HEAD", "PUT", "PATCH", "DELETE", "OPTIONS"} {
			rm := e.routes["bytes-"+meth][0]
			for _, l := range []int{mb, mb + 1, mb + 2 + r.Intn(4000)} {
				if !c02ScMaxBytes(c, e, do, rm, l, false, r) && m.ViolCount() > 0 {
					return
				}
			}
		}
		// the route without its own limit: governed by Config.MaxBytes alone
		rc := e.routes["bytescfg"][0]
		for _, l := range []int{0, int(rc.MaxBytes), int(rc.MaxBytes) + 1, mb + 6000 + r.Intn(3000)} {
			if !c02ScMaxBytes(c, e, do, rc, l, false, r) && m.ViolCount() > 0 {
				return
			}
		}
	})
	if racing {
		// concurrency below/at the limit (nothing may be rejected) and above it
		limit := bc.MaxConns
		if limit <= 0 {
			limit = 1 << 20 // unlimited: nothing may ever be rejected
		}
		worker("gauge0", func(r *rand.Rand) {
			clients := 1 + r.Intn(16)
			if bc.MaxConns > 0 {
				clients = 1 + r.Intn(bc.MaxConns)
			}
			c02ScGauge(c, e, do, e.routes["gauge"][0], limit, clients, bc.GaugeReqs, r.Int63())
		})
		worker("gauge1", func(r *rand.Rand) {
			if bc.MaxConns <= 0 {
				c02ScGauge(c, e, do, e.routes["gauge"][1], limit, 48, bc.GaugeReqs, r.Int63())
				return
			}
			clients := bc.MaxConns + 1 + r.Intn(3*bc.MaxConns+8)
			if clients > 64 {
				clients = 64
			}
			c02ScGauge(c, e, do, e.routes["gauge"][1], limit, clients, bc.GaugeReqs, r.Int63())
		})
	}
	if b%4 == 1 {
		worker("customchain", func(r *rand.Rand) { c02CustomChain(c, b, short, r) })
	}
	wg.Wait()
	m.Count("batches", 1)
	m.Count("config_timeout_"+bc.ShortBy, 1)
}

// c02CustomChain: a user-composed chain (WithChain) with the recover middleware
// *outside* the timeout handler, so that a handler panic has to cross
// timeoutHandler's goroutine boundary through its panic channel: 500, never a
// dead process; gated late (+ late panic) handlers still get the timeout response.
func c02CustomChain(c *c02Ctx, b int, short time.Duration, r *rand.Rand) {
	for _, d := range []time.Duration{c02LongTimeout, short} {
		chn := chain.New(handler.MaxConns(8), handler.RecoverHandler, handler.TimeoutHandler(d))
		if b%8 == 5 {
			// recover layer OUTSIDE MaxConns: the panic unwinds through MaxConns, which must
			// still give its slot back (2 slots, 8 panics, each followed by an ordinary request)
			chn = chain.New(handler.RecoverHandler, handler.MaxConns(2), handler.TimeoutHandler(d))
		}
		tag := fmt.Sprintf("b%dcc%d", b, d/time.Millisecond)
		c02LogOnce.Do(logx.Disable)
		e, err := c02NewEnv(tag, Config{}, []c02Group{{Class: "cc", Method: http.MethodGet, N: 6, Timeout: d, NoBreaker: true}}, WithChain(chn))
		if err != nil {
			c.m.Inconclusive("custom chain: %v", err)
			return
		}
		if err := e.srv.ng.bindRoutes(e.srv.router); err != nil {
			c.m.Inconclusive("custom chain: bindRoutes: %v", err)
			return
		}
		do := c02RecorderDoer(e)
		rts := e.routes["cc"]
		if d == c02LongTimeout {
			for i := 0; i < 8; i++ {
				mode := []string{"first", "hdrs", "committed", "any"}[i%4]
				rt := rts[i%len(rts)]
				if b%8 == 5 {
					rt = rts[0] // one route, one latch
				}
				if !c02ScPanicLenient(c, e, do, rt, c02GenPanicAt(r, mode, c02RandPanic(r).V), r) && c.m.ViolCount() > 0 {
					return
				}
			}
			continue
		}
		for i := 0; i < 4; i++ {
			sc := c02GenLatePanic(r)
			if i%2 == 1 {
				sc = c02GenLate(r)
			}
			if ok, _ := c02ScLate(c, e, do, rts[i%len(rts)], sc); !ok && c.m.ViolCount() > 0 {
				return
			}
		}
	}
}

func c02RunBatches(m *vk.M, first, n, width int, racing bool) {
	sem := make(chan struct{}, width)
	var wg sync.WaitGroup
	for b := first; b < first+n; b++ {
		if !m.Only(b) {
			continue
		}
		if m.ViolCount() > 0 {
			break
		}
		sem <- struct{}{}
		wg.Add(1)
		go func(b int) {
			defer wg.Done()
			defer func() { <-sem }()
			c02RunBatch(m, b, racing)
		}(b)
	}
	wg.Wait()
	m.Progress()
}

const c02ChainRule = "REST chain as built by engine.bindRoutes, observed with httptest recorders: scripted handlers; response must be exactly the script's handler response (fast), the 503/499 timeout response free of handler output (gated late / client cancel; late writes refused), 500 or the committed status (panic), 503 without running beyond MaxConns parked handlers, 413 without running iff Content-Length > MaxBytes"

func TestVerifC02Chain(t *testing.T) {
	m := vk.New(t, "C02", c02ChainRule)
	defer m.Done()
	n := vk.N(60, 1500)
	c02RunBatches(m, 0, n, 6, false)
	m.Count("route_groups_registered_via_AddRoute", atomic.LoadInt64(&c02AddRouteGroups))
	m.Count("user_middleware_calls", atomic.LoadInt64(&c02UserMiddlewareCalls))
	m.Count("scripts_run_in_use_middleware", atomic.LoadInt64(&c02ScriptsRunInMiddleware))
	c02ErrModeBatches(m, n, vk.N(2, 20), false)
}

// c02ErrModeBatches: the same batches with a process-wide httpx error handler
// installed (SetErrorHandler / SetErrorHandlerCtx). The timeout branch renders its
// answer through httpx.ErrorCtx: a business error handler must not turn the
// 503 / 499 into its own answer. Global state: these batches run one at a time and
// the default is restored afterwards.
func c02ErrModeBatches(m *vk.M, first, per int, racing bool) {
	for i, mode := range []string{"plain", "ctx"} {
		if m.ViolCount() > 0 {
			return
		}
		mode := mode
		c02WithErrMode(mode, func() {
			c02RunBatches(m, first+i*per, per, 1, racing)
		})
		m.Count("errorhandler_"+mode+"_batches", int64(per))
	}
}

func TestVerifC02RaceChain(t *testing.T) {
	m := vk.New(t, "C02", c02ChainRule+"; racing handlers (writes straddling the deadline): complete handler response or timeout response, never a mixture; concurrent MaxConns gauge; all under the race detector")
	defer m.Done()
	base, n := 100000, vk.N(16, 250)
	if v, err := strconv.Atoi(os.Getenv("C02_BATCH_BASE")); err == nil { // the failpoint-widened thorough run explores other batches
		base = v
	}
	if v, err := strconv.Atoi(os.Getenv("C02_BATCHES")); err == nil && v > 0 {
		n = v
	}
	if fp := os.Getenv("GOFAIL_FAILPOINTS"); fp != "" {
		m.Note("failpoints active: %s", fp)
	}
	c02RunBatches(m, base, n, 4, true)
	c02ErrModeBatches(m, base+n, vk.N(1, 6), true)
}

var _ = context.Background
