//go:build verif

package api

// C02 — scenario classes shared by the recorder monitor (c02_chain) and the
// loopback-server monitor (c02_server). A scenario issues its request(s) through
// a c02Doer and judges what came back.

import (
	"context"
	"fmt"
	"math/rand"
	"net/http"
	"strings"
	"sync"
	"sync/atomic"
	"time"

	"verif.local/vk"
)

type c02ReqOpt struct {
	upgrade string // value of an "Upgrade:" request header ("websocket": the timeout handler steps aside; anything else: an ordinary request)
	ctx     context.Context
	body    []byte
	hasBody bool
	chunked bool // send the body without a declared Content-Length
}

// c02Doer performs one request for run and returns what the client saw.
// again (may be nil) re-reads the client's view later (recorder only).
type c02Doer func(run *c02Run, opt c02ReqOpt) (resp *c02Resp, again func() *c02Resp)

const c02Patience = 20 * time.Second // when to stop waiting for a response and open the gate; never a verdict by itself

// c02Hangs counts gated requests that were still unanswered after c02Patience;
// once it is non-zero no further gated late scenarios are started (each would
// cost another c02Patience).
var c02Hangs int64

// c02TrimStacks: goroutine dump restricted to the chain's goroutines.
func c02TrimStacks() string {
	var b strings.Builder
	for _, g := range vk.GoroutinesIn("api/handler.") {
		if b.Len() > 6000 {
			break
		}
		b.WriteString(g)
		b.WriteString("\n\n")
	}
	return b.String()
}

type c02Pending struct {
	ch    chan struct{}
	resp  *c02Resp
	again func() *c02Resp
}

func c02Go(do c02Doer, run *c02Run, opt c02ReqOpt) *c02Pending {
	p := &c02Pending{ch: make(chan struct{})}
	go func() {
		defer close(p.ch)
		p.resp, p.again = do(run, opt)
	}()
	return p
}

func (p *c02Pending) wait(d time.Duration) bool {
	t := time.NewTimer(d)
	defer t.Stop()
	select {
	case <-p.ch:
		return true
	case <-t.C:
		return false
	}
}

// c02ScFast: one non-blocking handler on a route whose timeout cannot fire.
func c02ScFast(c *c02Ctx, e *c02Env, do c02Doer, rt *c02Route, sc *c02Script, class string) bool {
	return c02ScFastOpt(c, e, do, rt, sc, class, c02ReqOpt{})
}

func c02ScFastOpt(c *c02Ctx, e *c02Env, do c02Doer, rt *c02Route, sc *c02Script, class string, opt c02ReqOpt) bool {
	c02TaintFor(rt, sc)
	run := e.newRun(rt, sc)
	defer e.forget(run)
	resp, _ := do(run, opt)
	defer func() {
		for _, ev := range run.events() {
			switch {
			case ev.Op == "flush" && ev.N == 1:
				c.m.Count("writer_flush_called", 1)
			case ev.Op == "push" && ev.N == 1:
				c.m.Count("writer_push_called", 1)
			case ev.Op == "hijack" && ev.N == 1:
				c.m.Count("writer_hijack_took_connection", 1)
			case ev.Op == "hijack":
				c.m.Count("writer_hijack_unsupported", 1)
			}
		}
	}()
	mo := sc.model(run.id, len(sc.Steps))
	if mo.status < 500 && rt.Class != "spare" && c02IsBareReject(run, resp) && atomic.LoadInt64(&rt.fails) > 0 {
		// possibly the route's breaker: repeat the check on a spare route whose breaker cannot be open
		c.m.Count("breaker_rejection_tolerated", 1)
		c.m.Count("breaker_rejection_retried_on_spare", 1)
		sp := e.routes["spare"][int(atomic.AddInt64(&e.nextID, 1))%len(e.routes["spare"])]
		sp.spareMu.Lock()
		defer sp.spareMu.Unlock()
		return c02ScFastOpt(c, e, do, sp, sc, class, opt)
	}
	ok := c02JudgeFast(c, run, resp, class)
	c.m.Case(fmt.Sprintf("%s|%s|st=%d|h=%d|w=%d|big=%v|fl=%v|pu=%v|hj=%v", c.obs, class, mo.status, len(mo.headers), mo.writes, len(mo.body) > 4096,
		sc.index("flush") >= 0, sc.index("push") >= 0, sc.index("hijack") >= 0), ok)
	if ok && mo.writes > 1 && len(mo.headers) > 0 && class == "fast" && c.obs == "server" {
		c.sampleOnce(class, map[string]any{"route": rt.Path, "script": sc, "client_saw": resp.String()})
	}
	return ok
}

// c02ScLate: gated late handler ⇒ the timeout response and nothing else; late
// writes refused; the client's view does not change afterwards.
func c02ScLate(c *c02Ctx, e *c02Env, do c02Doer, rt *c02Route, sc *c02Script, opts ...c02ReqOpt) (ok bool, resp *c02Resp) {
	class := sc.Kind // late | latepanic
	var opt c02ReqOpt
	if len(opts) > 0 {
		opt = opts[0]
		if opt.upgrade != "" {
			class += "-upgrade-" + opt.upgrade // a non-websocket Upgrade header does not exempt a request from its deadline
		}
	}
	c02Taint(rt)
	run := e.newRun(rt, sc)
	defer e.forget(run)
	defer run.release()
	if atomic.LoadInt64(&c02Hangs) > 0 {
		c.m.Count("late_skipped_after_hang", 1)
		return false, nil
	}
	p := c02Go(do, run, opt)
	patience := c02Patience
	if d := 20 * rt.Timeout; d > patience {
		patience = d
	}
	if !p.wait(patience) {
		// The route has a configured timeout d > 0, the handler is inside and has been
		// waiting on ctx.Done() for max(20 d, 10 s): no deadline is being enforced at all.
		// ("otherwise it receives the timeout response": there is nothing to wait for.)
		if rt.Timeout > 0 && run.entered() == 1 && atomic.LoadInt32(&run.sawDone) == 0 {
			atomic.AddInt64(&c02Hangs, 1)
			c.violate(class+":no-deadline-enforced:"+rt.Label, run, nil,
				"route %s is configured with timeout %v (%s) but %v after the request entered its handler ctx.Done() has not fired and the client has no response",
				rt.Path, rt.Timeout, rt.Label, patience)
			run.release()
			p.wait(c02Watchdog)
			return false, nil
		}
		// The deadline has fired (the handler observed ctx.Done() — a recorded event), the
		// handler is provably still parked on the harness gate (not opened yet), and the
		// client is still waiting after a generous watchdog: the chain answers only when
		// the handler returns, not when the deadline passes.
		if run.entered() == 1 && atomic.LoadInt32(&run.sawDone) == 1 {
			atomic.AddInt64(&c02Hangs, 1)
			c.violate(class+":client-blocked-until-handler-returns", run, nil,
				"route %s (timeout %v): the handler observed ctx.Done() (%q) and is parked on the harness gate; %v later the client still has no response. Goroutines:\n%s",
				rt.Path, rt.Timeout, run.ctxErr, patience, c02TrimStacks())
			run.release()
			p.wait(c02Watchdog)
			return false, nil
		}
		// still nothing: open the gate so that the client is not left hanging for ever.
		atomic.AddInt64(&c02Hangs, 1)
		c.m.Count("late_patience_expired", 1)
		run.release()
		if !p.wait(c02Watchdog) {
			c.m.Inconclusive("%s: no response for %s within the watchdog", class, run.id)
			return false, nil
		}
		if atomic.LoadInt32(&run.sawDone) == 0 {
			c.m.Inconclusive("%s: route timeout %v of %s had not fired after %v (handler still waiting on ctx.Done()); client finally saw %s", class, rt.Timeout, run.id, c02Patience, p.resp.String())
			return false, p.resp
		}
	}
	resp = p.resp
	c02NoteOutcome(run, resp)
	if c02Tolerated(c, run, resp) {
		c.m.Case(class+"|tolerated", false)
		return false, resp
	}
	if !c02CheckEntries(c, run, resp, class) {
		return false, resp
	}
	if run.entered() == 1 {
		select {
		case <-run.blockedCh:
		default:
			// the response arrived before the handler saw ctx.Done(): only the timeout
			// response is possible anyway (the handler cannot have finished); wait so
			// that the event log is complete
			if !c02WaitCh(run.blockedCh) {
				c.m.Inconclusive("%s: handler of %s never observed ctx.Done()", class, run.id)
				return false, resp
			}
		}
	}
	if okT, sub, why := c02IsTimeoutResp(run, resp, http.StatusServiceUnavailable); !okT {
		c.violate(class+":not-timeout-response:"+sub, run, resp, "handler blocked past the deadline (ctx err %q) and was held on the gate until the client had its response: %s", run.ctxErr, why)
		return false, resp
	}
	c.m.Count("resp_timeout_503", 1)
	// now let the handler go on and check its half
	run.release()
	if !c02WaitCh(run.returnedCh) {
		c.m.Inconclusive("%s: handler of %s did not return after the gate opened (%s)", class, run.id, run.stuck)
		return false, resp
	}
	if !c02AfterLate(c, run, resp, class) {
		return false, resp
	}
	if p.again != nil {
		after := p.again()
		if after.Status != resp.Status || string(after.Body) != string(resp.Body) {
			c.violate(class+":response-changed-after-timeout", run, after, "client's view changed after the late handler ran: before %s", resp.String())
			return false, resp
		}
		for _, h := range c02HandlerHeaderValues(sc) {
			for _, got := range after.Header.Values(h[0]) {
				if got == h[1] {
					c.violate(class+":response-changed-after-timeout", run, after, "handler header %s appeared in the delivered timeout response after the late handler ran", h[0])
					return false, resp
				}
			}
		}
	}
	b := sc.index("block")
	pre := sc.model(run.id, b)
	late := 0
	for _, ev := range run.events() {
		if ev.Op == "write" && ev.Step > b {
			late++
		}
	}
	if sc.Kind == "latepanic" {
		c.m.Count("late_panics_survived", 1)
	}
	c.m.Case(fmt.Sprintf("%s|%s|pre_committed=%v|pre_bytes=%v|late_writes=%d|hdrs=%d", c.obs, class, pre.committed, len(pre.body) > 0, late, len(pre.headers)), true)
	if late > 0 && len(pre.body) > 0 {
		c.sampleOnce(class, map[string]any{"route": rt.Path, "timeout": rt.Timeout.String(), "script": sc, "client_saw": resp.String(), "handler_events": run.events()})
	}
	return true, resp
}

// c02ScCancel: the client cancels while the handler is inside ⇒ 499 timeout
// response (recorder only: a real client that cancelled sees nothing).
func c02ScCancel(c *c02Ctx, e *c02Env, do c02Doer, rt *c02Route, sc *c02Script) bool {
	class := "cancel"
	run := e.newRun(rt, sc)
	defer e.forget(run)
	defer run.release()
	ctx, cancel := context.WithCancel(context.Background())
	defer cancel()
	p := c02Go(do, run, c02ReqOpt{ctx: ctx})
	select {
	case <-run.enteredCh:
	case <-p.ch:
	case <-time.After(c02Watchdog):
		c.m.Inconclusive("cancel: handler of %s not entered", run.id)
		return false
	}
	cancel()
	if !p.wait(c02Patience) {
		if run.entered() == 1 && atomic.LoadInt32(&run.sawDone) == 1 {
			atomic.AddInt64(&c02Hangs, 1)
			c.violate(class+":client-blocked-until-handler-returns", run, nil,
				"route %s: the client context was cancelled, the handler observed ctx.Done() and is parked on the harness gate; %v later the chain has still not answered. Goroutines:\n%s",
				rt.Path, c02Patience, c02TrimStacks())
			run.release()
			p.wait(c02Watchdog)
			return false
		}
		c.m.Count("late_patience_expired", 1)
		run.release()
		if !p.wait(c02Watchdog) {
			c.m.Inconclusive("cancel: no response for %s within the watchdog", run.id)
			return false
		}
	}
	resp := p.resp
	c02NoteOutcome(run, resp)
	if c02Tolerated(c, run, resp) || !c02CheckEntries(c, run, resp, class) {
		return false
	}
	if okT, sub, why := c02IsTimeoutResp(run, resp, 499); !okT {
		c.violate(class+":not-499-timeout-response:"+sub, run, resp, "client context cancelled while the handler was inside (held on the gate): %s", why)
		return false
	}
	c.m.Count("resp_cancel_499", 1)
	run.release()
	if !c02WaitCh(run.returnedCh) {
		c.m.Inconclusive("cancel: handler of %s did not return (%s)", run.id, run.stuck)
		return false
	}
	if !c02AfterLate(c, run, resp, class) {
		return false
	}
	c.m.Case(fmt.Sprintf("%s|cancel|pre=%v", c.obs, sc.model(run.id, sc.index("block")).committed), true)
	return true
}

// c02ScPanic: panic before anything was committed ⇒ 500, empty body; after a
// commit ⇒ the committed status and nothing but what the handler wrote. The
// route must answer the next request.
func c02ScPanic(c *c02Ctx, e *c02Env, do c02Doer, rt *c02Route, sc *c02Script, r *rand.Rand) bool {
	class := sc.Kind // panic | panic-committed
	if atomic.LoadInt64(&c02Hangs) > 0 {
		c.m.Count("panic_skipped_after_hang", 1)
		return false
	}
	c02Taint(rt)
	run := e.newRun(rt, sc)
	defer e.forget(run)
	p := c02Go(do, run, c02ReqOpt{})
	if !p.wait(c02Watchdog) {
		atomic.AddInt64(&c02Hangs, 1)
		// The handler has panicked (recorded event) and the client still has nothing after
		// the watchdog. That alone would be inconclusive; it is a violation when the dump
		// shows the chain's own goroutines of this request parked on timeoutWriter's mutex
		// — nobody is ever going to answer ("never leaves the client hanging").
		kind, panicked := "", false
		for _, ev := range run.events() {
			if ev.Op == "panic" {
				panicked, kind = true, sc.Steps[ev.Step].V
			}
		}
		var parked []string
		for _, g := range vk.GoroutinesIn("handler.(*timeoutWriter).") {
			if strings.Contains(g, "sync.(*Mutex).Lock") || strings.Contains(g, "sync.Mutex.Lock") {
				parked = append(parked, g)
			}
		}
		if panicked && len(parked) > 0 {
			dump := strings.Join(parked, "\n\n")
			if len(dump) > 5000 {
				dump = dump[:5000]
			}
			c.violate(class+":client-left-hanging:"+kind, run, nil,
				"handler panicked with a %q value; %v later the client has no response and %d goroutine(s) of the chain are parked on timeoutWriter's mutex:\n%s",
				kind, c02Watchdog, len(parked), dump)
			return false
		}
		c.m.Inconclusive("%s: no response for %s within the watchdog", class, run.id)
		return false
	}
	resp := p.resp
	c02NoteOutcome(run, resp)
	if c02Tolerated(c, run, resp) || !c02CheckEntries(c, run, resp, class) {
		return false
	}
	at := sc.index("panic")
	mo := sc.model(run.id, at)
	kind := sc.Steps[at].V
	c.m.Count("panic_value_"+kind, 1)
	switch {
	case resp.Err != "":
		c.violate(class+":no-response:"+kind, run, resp, "handler panicked with a %q value (committed=%v) and the client was left without any response: %s", kind, mo.committed, resp.Err)
		return false
	case !mo.committed:
		if resp.Status != http.StatusInternalServerError {
			c.violate(class+":not-500", run, resp, "handler panicked before committing anything: status %d, want 500", resp.Status)
			return false
		}
		if len(resp.Body) != 0 {
			c.violate(class+":body-not-empty", run, resp, "handler panicked before writing anything, yet the 500 response has a %d-byte body", len(resp.Body))
			return false
		}
		c.m.Count("resp_panic_500", 1)
	default:
		if resp.Status != mo.status {
			c.violate(class+":wrong-status", run, resp, "handler committed status %d and then panicked: client got %d", mo.status, resp.Status)
			return false
		}
		if len(resp.Body) > len(mo.body) || string(resp.Body) != string(mo.body[:len(resp.Body)]) {
			c.violate(class+":foreign-body", run, resp, "body is not a prefix of the %d bytes the handler wrote before panicking", len(mo.body))
			return false
		}
		c.m.Count("resp_panic_committed", 1)
	}
	// the server is still there
	nx := c02GenFast(r, false)
	if !c02ScFast(c, e, do, rt, nx, "after-panic") {
		return false
	}
	c.m.Case(fmt.Sprintf("%s|%s|st=%d|body=%v|val=%s|at=%d", c.obs, class, mo.status, len(mo.body) > 0, kind, c02Clamp(int64(at))), true)
	if mo.committed && len(mo.body) > 0 {
		c.sampleOnce(class, map[string]any{"route": rt.Path, "script": sc, "client_saw": resp.String()})
	}
	return true
}

// c02PanicAlphabetRoutes: routes needed by c02ScPanicAlphabet so that no route
// sees more than 4 panics (on a route without timeout handler the breaker counts
// a committed panic as a failure too).
var c02PanicAlphabetRoutes = (3*len(c02PanicKinds) + 3) / 4

// c02ScPanicAlphabet: every panic value kind x {first thing, after headers only,
// after a commit}, four scenarios per route.
func c02ScPanicAlphabet(c *c02Ctx, e *c02Env, do c02Doer, routes []*c02Route, r *rand.Rand) bool {
	i := 0
	for _, kind := range c02PanicKinds {
		for _, mode := range []string{"first", "hdrs", "committed"} {
			rt := routes[(i/4)%len(routes)]
			i++
			if !c02ScPanic(c, e, do, rt, c02GenPanicAt(r, mode, kind), r) && c.m.ViolCount() > 0 {
				return false
			}
		}
	}
	return true
}

// c02ScRacing: handler writes straddle the deadline.
func c02ScRacing(c *c02Ctx, e *c02Env, do c02Doer, rt *c02Route, sc *c02Script) bool {
	c02Taint(rt)
	run := e.newRun(rt, sc)
	defer e.forget(run)
	p := c02Go(do, run, c02ReqOpt{})
	if !p.wait(c02Watchdog) {
		c.m.Inconclusive("racing: no response for %s within the watchdog", run.id)
		return false
	}
	won, ok := c02JudgeRacing(c, run, p.resp, "racing")
	ctxwait := sc.index("ctxwait") >= 0
	refused := 0
	for _, ev := range run.events() {
		if ev.Err == c02ErrHandlerTimeout {
			refused++
		}
	}
	c.m.Case(fmt.Sprintf("%s|racing|%s|ctxwait=%v|refused=%d", c.obs, won, ctxwait, refused), ok)
	if ok && (won == "handler" || refused > 0) {
		c.sampleOnce("racing-"+won, map[string]any{"route": rt.Path, "timeout": rt.Timeout.String(), "script": sc, "client_saw": p.resp.String(), "handler_events": run.events()})
	}
	return ok
}

// c02ScMaxConns: n handlers parked inside the route ⇒ the next k requests are
// rejected with 503 without running; after the release all n get their handler
// response and the route admits again.
func c02ScMaxConns(c *c02Ctx, e *c02Env, do c02Doer, rt *c02Route, n, k int, r *rand.Rand) bool {
	class := "maxconns"
	var runs []*c02Run
	var pend []*c02Pending
	defer func() {
		for _, run := range runs {
			run.release()
			e.forget(run)
		}
	}()
	for i := 0; i < n; i++ {
		run := e.newRun(rt, c02GenPark(r))
		runs = append(runs, run)
		pend = append(pend, c02Go(do, run, c02ReqOpt{}))
	}
	for i, run := range runs {
		select {
		case <-run.parkedCh:
		case <-pend[i].ch:
			// answered without parking: with <= n requests in flight nothing may be rejected
			c.violate(class+":rejected-below-limit", run, pend[i].resp, "request %d of %d (MaxConns %d) was answered without its handler reaching the park step", i+1, n, n)
			return false
		case <-time.After(c02Watchdog):
			c.m.Inconclusive("maxconns: handler %d/%d of route %s did not park", i+1, n, rt.Path)
			return false
		}
	}
	if in := atomic.LoadInt64(&rt.inside); in != int64(n) {
		c.m.Inconclusive("maxconns: gauge shows %d inside, expected %d", in, n)
		return false
	}
	for j := 0; j < k; j++ {
		x := e.newRun(rt, c02GenFast(r, false))
		resp, _ := do(x, c02ReqOpt{})
		e.forget(x)
		if x.entered() > 0 {
			c.violate(class+":entered-over-limit", x, resp, "MaxConns=%d handlers are parked inside route %s and request %d beyond the limit still ran its handler (inside now/max: %d/%d)", n, rt.Path, j+1, atomic.LoadInt64(&rt.inside), atomic.LoadInt64(&rt.maxInside))
			return false
		}
		if resp.Err != "" || resp.Status != http.StatusServiceUnavailable {
			c.violate(class+":excess-not-503", x, resp, "MaxConns=%d handlers parked; excess request %d was not answered 503", n, j+1)
			return false
		}
		c.m.Count("resp_maxconns_503", 1)
	}
	for _, run := range runs {
		run.release()
	}
	for i, run := range runs {
		if !pend[i].wait(c02Watchdog) {
			c.m.Inconclusive("maxconns: parked request %s got no response after release", run.id)
			return false
		}
		if !c02JudgeFast(c, run, pend[i].resp, class+":parked") {
			return false
		}
	}
	if mx := atomic.LoadInt64(&rt.maxInside); mx > int64(n) {
		c.violate(class+":gauge-over-limit", nil, nil, "route %s: %d handlers inside at once, MaxConns=%d", rt.Path, mx, n)
		return false
	}
	// tokens must have been returned, and the overload burst is over: only EXCESS
	// requests may be turned away, so strictly sequential requests (nothing else in
	// flight on this route, whose handlers only ever answered < 500) are all admitted —
	// however many were rejected a moment ago
	after := n
	if k >= 20 && after < 15 {
		after = 15
	}
	c.m.Count("maxconns_sequential_after_burst", int64(after))
	for i := 0; i < after; i++ {
		if !c02ScFast(c, e, do, rt, c02GenFast(r, false), class+":after-release") {
			return false
		}
	}
	c.m.Max("maxconns_max_inside", atomic.LoadInt64(&rt.maxInside))
	c.m.Case(fmt.Sprintf("%s|maxconns|n=%d|k=%d", c.obs, n, k), true)
	if n > 1 || c.obs == "server" {
		c.sampleOnce(class, map[string]any{"route": rt.Path, "max_conns": n, "parked": n, "excess_rejected_503": k, "max_inside_observed": atomic.LoadInt64(&rt.maxInside)})
	}
	return true
}

// c02ScUnlimited: MaxConns <= 0 means no limit: many handlers parked inside one
// route at once, nobody is rejected.
func c02ScUnlimited(c *c02Ctx, e *c02Env, do c02Doer, rt *c02Route, n int, r *rand.Rand) bool {
	class := "maxconns-unlimited"
	var runs []*c02Run
	var pend []*c02Pending
	defer func() {
		for _, run := range runs {
			run.release()
			e.forget(run)
		}
	}()
	for i := 0; i < n; i++ {
		run := e.newRun(rt, c02GenPark(r))
		runs = append(runs, run)
		pend = append(pend, c02Go(do, run, c02ReqOpt{}))
	}
	for i, run := range runs {
		select {
		case <-run.parkedCh:
		case <-pend[i].ch:
			c.violate(class+":rejected", run, pend[i].resp, "MaxConns=%d (no limit): request %d of %d concurrent ones was answered without its handler reaching the park step", e.cfg.MaxConns, i+1, n)
			return false
		case <-time.After(c02Watchdog):
			c.m.Inconclusive("maxconns-unlimited: handler %d/%d did not park", i+1, n)
			return false
		}
	}
	c.m.Max("unlimited_max_inside", atomic.LoadInt64(&rt.inside))
	for _, run := range runs {
		run.release()
	}
	for i, run := range runs {
		if !pend[i].wait(c02Watchdog) {
			c.m.Inconclusive("maxconns-unlimited: no response for %s", run.id)
			return false
		}
		if !c02JudgeFast(c, run, pend[i].resp, class) {
			return false
		}
	}
	c.m.Case(fmt.Sprintf("%s|maxconns-unlimited|cfg=%d|n=%d", c.obs, e.cfg.MaxConns, n), true)
	return true
}

// c02ScPanicLenient: for user-composed chains (WithChain) where the recover
// middleware sits outside the timeout handler: the panic travels through
// timeoutHandler's panic channel. The client must get 500 (the buffered output is
// dropped) or the committed status, never nothing, and the process survives.
func c02ScPanicLenient(c *c02Ctx, e *c02Env, do c02Doer, rt *c02Route, sc *c02Script, r *rand.Rand) bool {
	class := "customchain-" + sc.Kind
	c02Taint(rt)
	run := e.newRun(rt, sc)
	defer e.forget(run)
	p := c02Go(do, run, c02ReqOpt{})
	if !p.wait(c02Watchdog) {
		c.m.Inconclusive("%s: no response within the watchdog", class)
		return false
	}
	resp := p.resp
	if c02Tolerated(c, run, resp) {
		return false
	}
	at := sc.index("panic")
	mo := sc.model(run.id, at)
	kind := sc.Steps[at].V
	switch {
	case resp.Err != "":
		c.violate(class+":no-response:"+kind, run, resp, "handler panicked (%q value) behind Recover→Timeout and the client got nothing: %s", kind, resp.Err)
		return false
	case resp.Status == http.StatusInternalServerError && len(resp.Body) == 0:
	case mo.committed && resp.Status == mo.status && len(resp.Body) <= len(mo.body) && string(resp.Body) == string(mo.body[:len(resp.Body)]):
	default:
		c.violate(class+":wrong-response", run, resp, "handler panicked (%q value, committed=%v): want 500 with empty body (or the committed status %d with a prefix of its body)", kind, mo.committed, mo.status)
		return false
	}
	c.m.Count("customchain_panic_answered", 1)
	if !c02ScFast(c, e, do, rt, c02GenFast(r, false), "customchain-after-panic") {
		return false
	}
	c.m.Case(fmt.Sprintf("%s|%s|val=%s|committed=%v", c.obs, class, kind, mo.committed), true)
	return true
}

// c02ScGauge: `clients` sequential clients hammer one route with non-blocking
// handlers (route timeout cannot fire): the gauge never exceeds MaxConns, every
// response is either the handler's or a bare 503, and with clients <= MaxConns
// nothing is rejected.
func c02ScGauge(c *c02Ctx, e *c02Env, do c02Doer, rt *c02Route, n, clients, reqs int, seed int64) bool {
	class := "maxconns"
	var wg sync.WaitGroup
	var rejected, served, bad int64
	for ci := 0; ci < clients; ci++ {
		wg.Add(1)
		go func(ci int) {
			defer wg.Done()
			r := rand.New(rand.NewSource(seed + int64(ci)*7919))
			for q := 0; q < reqs && atomic.LoadInt64(&bad) == 0; q++ {
				sc := c02GenFast(r, false)
				for y := r.Intn(4); y > 0; y-- {
					sc.Steps = c02Insert(r, sc.Steps, c02Step{Op: "yield"}, 0)
				}
				if r.Intn(4) == 0 {
					sc.Steps = c02Insert(r, sc.Steps, c02Step{Op: "sleep", N: 50 + r.Intn(300)}, 0)
				}
				run := e.newRun(rt, sc)
				resp, _ := do(run, c02ReqOpt{})
				e.forget(run)
				if c02IsBareReject(run, resp) {
					atomic.AddInt64(&rejected, 1)
					continue
				}
				if !c02JudgeFast(c, run, resp, class+":gauge") {
					atomic.AddInt64(&bad, 1)
					return
				}
				atomic.AddInt64(&served, 1)
			}
		}(ci)
	}
	wg.Wait()
	if bad > 0 {
		return false
	}
	mx := atomic.LoadInt64(&rt.maxInside)
	c.m.Max("gauge_max_inside", mx)
	c.m.Count("gauge_served", served)
	c.m.Count("resp_maxconns_503", rejected)
	if mx > int64(n) {
		c.violate(class+":gauge-over-limit", nil, nil, "route %s: %d handlers inside at once with MaxConns=%d (%d clients)", rt.Path, mx, n, clients)
		return false
	}
	if clients <= n && rejected > 0 {
		c.violate(class+":rejected-below-limit", nil, nil, "route %s: %d of %d requests rejected with 503 although only %d sequential clients ran against MaxConns=%d", rt.Path, rejected, rejected+served, clients, n)
		return false
	}
	c.m.Case(fmt.Sprintf("%s|gauge|n=%d|clients=%d|full=%v|rejected=%v", c.obs, n, clients, mx == int64(n), rejected > 0), true)
	return true
}

// c02ScMaxBytes: declared Content-Length > limit ⇒ 413 and the handler does not
// run; <= limit (or undeclared) ⇒ the handler's response.
func c02ScMaxBytes(c *c02Ctx, e *c02Env, do c02Doer, rt *c02Route, length int, chunked bool, r *rand.Rand) bool {
	class := "maxbytes"
	if rt.Method != http.MethodPost {
		class += "-" + rt.Method
	}
	sc := c02GenFast(r, false)
	run := e.newRun(rt, sc)
	defer e.forget(run)
	body := make([]byte, length)
	for i := range body {
		body[i] = byte('0' + i%10)
	}
	resp, _ := do(run, c02ReqOpt{body: body, hasBody: true, chunked: chunked})
	over := !chunked && rt.MaxBytes > 0 && int64(length) > rt.MaxBytes
	if over {
		if run.entered() > 0 {
			c.violate(class+":entered-over-limit", run, resp, "Content-Length %d > MaxBytes %d but the handler ran", length, rt.MaxBytes)
			return false
		}
		if resp.Err != "" || resp.Status != http.StatusRequestEntityTooLarge {
			c.violate(class+":not-413", run, resp, "Content-Length %d > MaxBytes %d: want 413", length, rt.MaxBytes)
			return false
		}
		c.m.Count("resp_maxbytes_413", 1)
	} else {
		if run.entered() == 0 && resp.Err == "" && resp.Status == http.StatusRequestEntityTooLarge {
			c.violate(class+":rejected-within-limit", run, resp, "Content-Length %d <= MaxBytes %d (chunked=%v) rejected with 413", length, rt.MaxBytes, chunked)
			return false
		}
		if !c02JudgeFast(c, run, resp, class+":within") {
			return false
		}
	}
	c.m.Case(fmt.Sprintf("%s|%s|delta=%d|chunked=%v", c.obs, class, c02Clamp(int64(length)-rt.MaxBytes), chunked), true)
	if over && int64(length) == rt.MaxBytes+1 {
		c.sampleOnce(class, map[string]any{"route": rt.Path, "max_bytes": rt.MaxBytes, "content_length": length, "client_saw": resp.String(), "handler_entered": run.entered()})
	}
	return true
}

func c02Clamp(d int64) int64 {
	switch {
	case d < -1:
		return -2
	case d > 1:
		return 2
	}
	return d
}

var _ = vk.Seq
