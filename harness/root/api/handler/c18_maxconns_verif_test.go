//go:build verif

package handler

// C18 — integration boundary of syncx.Limit: MaxConns is the repository's production
// user of Limit ("never more than n outstanding borrows"; "returning without having
// borrowed is an error"). The guarded handler of the harness parks on a gate, so the
// number of outstanding borrows is known exactly: while n requests are parked every
// further request must be refused and must not free a slot; at no instant are more
// than n requests inside the guarded handler; after everything returned exactly n
// are admitted again. No wall clock decides anything (watchdogs are inconclusive).

import (
	"fmt"
	"net/http"
	"net/http/httptest"
	"runtime"
	"sync"
	"sync/atomic"
	"testing"
	"time"

	"github.com/gotid/god/lib/logx"
	"verif.local/vk"
)

const c18mcWatchdog = 25 * time.Second

type c18mcScn struct {
	N      int   `json:"n"`
	Extra  []int `json:"extra"`  // gated: sizes of the bursts of excess requests sent while n are parked
	Rounds int   `json:"rounds"` // gated: fill / overload / release cycles on the same middleware
	// racing family
	Workers int `json:"workers,omitempty"`
	Per     int `json:"per,omitempty"`
	Hold    int `json:"hold,omitempty"`
}

type c18mcProbe struct {
	inside, maxInside, entered int32
	gate                       chan struct{}
	hold                       int
}

func (p *c18mcProbe) ServeHTTP(w http.ResponseWriter, r *http.Request) {
	in := atomic.AddInt32(&p.inside, 1)
	for {
		mx := atomic.LoadInt32(&p.maxInside)
		if in <= mx || atomic.CompareAndSwapInt32(&p.maxInside, mx, in) {
			break
		}
	}
	atomic.AddInt32(&p.entered, 1)
	if p.gate != nil {
		<-p.gate
	} else {
		for i := 0; i < p.hold; i++ {
			runtime.Gosched()
		}
	}
	atomic.AddInt32(&p.inside, -1)
	w.WriteHeader(http.StatusOK)
}

// c18mcFire sends one request through h in its own goroutine; the status code is
// delivered on the returned channel when ServeHTTP returns.
func c18mcFire(h http.Handler, wg *sync.WaitGroup) chan int {
	out := make(chan int, 1)
	wg.Add(1)
	go func() {
		defer wg.Done()
		rec := httptest.NewRecorder()
		h.ServeHTTP(rec, httptest.NewRequest(http.MethodGet, "http://localhost/c18", nil))
		out <- rec.Code
	}()
	return out
}

func c18mcJoin(wg *sync.WaitGroup) bool {
	return vk.Within(c18mcWatchdog, wg.Wait)
}

// c18mcGated: deterministic family. ok=false => watchdog (inconclusive, recorded).
func c18mcGated(m *vk.M, idx int, sc c18mcScn) bool {
	desc := fmt.Sprintf("case=%d;maxconns-gated;%s", idx, vk.JSON(sc))
	m.Current(desc)
	probe := &c18mcProbe{}
	h := MaxConns(sc.N)(probe)
	var wg sync.WaitGroup
	var nreject, nadmit int
	for round := 0; round < sc.Rounds; round++ {
		probe.gate = make(chan struct{})
		base := atomic.LoadInt32(&probe.entered)
		// fill: n requests park inside the guarded handler
		var parked []chan int
		for i := 0; i < sc.N; i++ {
			parked = append(parked, c18mcFire(h, &wg))
		}
		if !vk.WaitUntil(c18mcWatchdog, func() bool { return atomic.LoadInt32(&probe.entered) == base+int32(sc.N) }) {
			got := atomic.LoadInt32(&probe.entered) - base
			close(probe.gate)
			if round > 0 {
				// everything of the previous round had returned: the limit was idle, yet fewer than n got in
				m.Violate("C18:maxconns:capacity-after-quiescence", desc, "round %d: with no request in flight only %d of %d requests were admitted by MaxConns(%d) within %v", round, got, sc.N, sc.N, c18mcWatchdog)
				return true
			}
			m.Inconclusive("case %d (maxconns): the first %d requests did not all reach the handler within %v", idx, sc.N, c18mcWatchdog)
			return false
		}
		nadmit += sc.N
		// overload: every excess request must be refused while the n are parked, one after the
		// other (so that a slot freed by a refusal would be taken by the next one)
		for _, burst := range sc.Extra {
			for j := 0; j < burst; j++ {
				before := atomic.LoadInt32(&probe.entered)
				code := c18mcFire(h, &wg)
				var got int
				decided := vk.WaitUntil(c18mcWatchdog, func() bool {
					select {
					case got = <-code:
						return true
					default:
						return atomic.LoadInt32(&probe.entered) != before
					}
				})
				switch {
				case !decided:
					close(probe.gate)
					m.Inconclusive("case %d (maxconns): an excess request neither returned nor entered the handler within %v", idx, c18mcWatchdog)
					return false
				case got == 0:
					in := atomic.LoadInt32(&probe.inside)
					close(probe.gate)
					c18mcJoin(&wg)
					m.Violate("C18:maxconns:admitted-while-full", desc, "round %d: %d requests were parked inside MaxConns(%d) and %d excess requests had been refused; the next excess request was admitted: %d requests inside the guarded handler (a refused request must not return a slot it never borrowed)",
						round, sc.N, sc.N, nreject, in)
					return true
				case got != http.StatusServiceUnavailable:
					close(probe.gate)
					c18mcJoin(&wg)
					m.Violate("C18:maxconns:excess-not-503", desc, "round %d: excess request answered %d without entering the handler, want 503", round, got)
					return true
				}
				nreject++
			}
		}
		if mx := atomic.LoadInt32(&probe.maxInside); int(mx) > sc.N {
			close(probe.gate)
			c18mcJoin(&wg)
			m.Violate("C18:maxconns:more-than-n-inside", desc, "MaxConns(%d): %d requests were inside the guarded handler at the same time", sc.N, mx)
			return true
		}
		close(probe.gate)
		if !c18mcJoin(&wg) {
			m.Inconclusive("case %d (maxconns): parked requests did not return within %v after the gate opened", idx, c18mcWatchdog)
			return false
		}
		for _, c := range parked {
			if code := <-c; code != http.StatusOK {
				m.Violate("C18:maxconns:admitted-request-not-200", desc, "round %d: a request that ran the guarded handler was answered %d", round, code)
				return true
			}
		}
	}
	m.Count("maxconns_gated_admitted", int64(nadmit))
	m.Count("maxconns_gated_refused_while_full", int64(nreject))
	m.Count("maxconns_gated_rounds", int64(sc.Rounds))
	m.Case(fmt.Sprintf("gated%d/%v/%d", sc.N, sc.Extra, sc.Rounds), nreject > 0)
	if m.WantSample() && idx%40 == 1 {
		m.Sample(map[string]any{"kind": "maxconns-gated", "n": sc.N, "rounds": sc.Rounds, "excess_bursts": sc.Extra, "admitted": nadmit, "refused_503_while_full": nreject,
			"max_inside": atomic.LoadInt32(&probe.maxInside)})
	}
	return true
}

// c18mcRacing: many goroutines, short handlers; only the schedule-independent clauses.
func c18mcRacing(m *vk.M, idx int, sc c18mcScn) bool {
	desc := fmt.Sprintf("case=%d;maxconns-racing;%s", idx, vk.JSON(sc))
	m.Current(desc)
	probe := &c18mcProbe{hold: sc.Hold}
	h := MaxConns(sc.N)(probe)
	var wg sync.WaitGroup
	var ok200, rej503, other int32
	start := make(chan struct{})
	for w := 0; w < sc.Workers; w++ {
		wg.Add(1)
		go func() {
			defer wg.Done()
			<-start
			for i := 0; i < sc.Per; i++ {
				rec := httptest.NewRecorder()
				h.ServeHTTP(rec, httptest.NewRequest(http.MethodGet, "http://localhost/c18", nil))
				switch rec.Code {
				case http.StatusOK:
					atomic.AddInt32(&ok200, 1)
				case http.StatusServiceUnavailable:
					atomic.AddInt32(&rej503, 1)
				default:
					atomic.AddInt32(&other, 1)
				}
			}
		}()
	}
	close(start)
	if !c18mcJoin(&wg) {
		m.Inconclusive("case %d (maxconns racing): workers did not finish within %v", idx, c18mcWatchdog)
		return false
	}
	mx, ent := atomic.LoadInt32(&probe.maxInside), atomic.LoadInt32(&probe.entered)
	switch {
	case int(mx) > sc.N:
		m.Violate("C18:maxconns:more-than-n-inside", desc, "MaxConns(%d): %d requests were inside the guarded handler at the same time (%d workers, %d admitted, %d refused)", sc.N, mx, sc.Workers, ok200, rej503)
	case other != 0 || ent != ok200:
		m.Violate("C18:maxconns:status-mismatch", desc, "%d requests ran the handler, %d were answered 200, %d 503, %d something else", ent, ok200, rej503, other)
	default:
		// quiescent: exactly n are admitted again, the (n+1)-th is refused
		probe.gate = make(chan struct{})
		var pw sync.WaitGroup
		var codes []chan int
		for i := 0; i < sc.N; i++ {
			codes = append(codes, c18mcFire(h, &pw))
		}
		if !vk.WaitUntil(c18mcWatchdog, func() bool { return atomic.LoadInt32(&probe.entered) == ent+int32(sc.N) }) {
			got := atomic.LoadInt32(&probe.entered) - ent
			close(probe.gate)
			m.Violate("C18:maxconns:capacity-after-quiescence", desc, "after %d admitted and %d refused requests had all returned, only %d of %d requests were admitted by MaxConns(%d) within %v", ok200, rej503, got, sc.N, sc.N, c18mcWatchdog)
			return true
		}
		extra := c18mcFire(h, &pw)
		var got int
		vk.WaitUntil(c18mcWatchdog, func() bool {
			select {
			case got = <-extra:
				return true
			default:
				return atomic.LoadInt32(&probe.entered) != ent+int32(sc.N)
			}
		})
		close(probe.gate)
		c18mcJoin(&pw)
		if got != http.StatusServiceUnavailable {
			m.Violate("C18:maxconns:capacity-after-quiescence", desc, "after the racing phase, with %d requests parked in MaxConns(%d), one more request was not refused (code %d, 0 = admitted)", sc.N, sc.N, got)
		}
	}
	m.Count("maxconns_racing_admitted", int64(ok200))
	m.Count("maxconns_racing_refused", int64(rej503))
	m.Max("maxconns_racing_max_inside", int64(mx))
	m.Case(fmt.Sprintf("racing%d/%d/%d/%d/%d/%d", sc.N, sc.Workers, sc.Per, sc.Hold, ok200, rej503), rej503 > 0)
	return true
}

func TestVerifC18MaxConns(t *testing.T) {
	m := vk.New(t, "C18", "production user of syncx.Limit, api/handler.MaxConns(n), driven directly with gate-parked handlers: (gated) n requests park, then bursts of excess requests one after the other must each be refused with 503 without entering the handler — a refusal must not free a slot — over several fill/overload/release rounds on the same middleware; (racing) 4-32 goroutines with short handlers: never more than n inside, every request answered 200 iff it ran the handler else 503, and at quiescence exactly n are admitted again; non-trivial = at least one request was refused")
	defer m.Done()
	logx.Disable() // every refusal is logged; keep the test log readable
	old := runtime.GOMAXPROCS(0)
	defer runtime.GOMAXPROCS(old)
	r := m.Rand("maxconns")
	idx := 0
	ng, nr := vk.N(160, 2400), vk.N(160, 2400)
	for i := 0; i < ng; i++ {
		idx++
		sc := c18mcScn{N: 1 + r.Intn(4), Rounds: 1 + r.Intn(3)}
		for b := 1 + r.Intn(3); b > 0; b-- {
			sc.Extra = append(sc.Extra, 1+r.Intn(3))
		}
		runtime.GOMAXPROCS([]int{4, 1, 16, 2}[(i*4/ng)%4])
		if m.Only(idx) && !c18mcGated(m, idx, sc) {
			return
		}
	}
	for i := 0; i < nr; i++ {
		idx++
		sc := c18mcScn{N: 1 + r.Intn(4), Workers: 4 + r.Intn(29), Per: 2 + r.Intn(10), Hold: r.Intn(6)}
		runtime.GOMAXPROCS([]int{4, 1, 16, 2}[(i*4/nr)%4])
		if m.Only(idx) && !c18mcRacing(m, idx, sc) {
			return
		}
	}
}
