//go:build verif

package handler

// C09 — SheddingHandler integration (DESIGN.md §3 C09): with a scripted Shedder,
// every request must call Allow exactly once; a rejected request is not served and
// touches no promise; an admitted request is served exactly once and reports exactly
// one of Pass/Fail by the time ServeHTTP returns or panics (otherwise the shedder's
// in-flight count could never return to zero). Which outcome maps to Pass and which
// to Fail is recorded in the evidence, not asserted (the statement does not fix it);
// asserted is only that the report is a function of the request's own outcome:
// identical downstream behaviour => identical report, whatever earlier requests did.

import (
	"context"
	"fmt"
	"io"
	"log"
	"net/http"
	"net/http/httptest"
	"sync/atomic"
	"testing"
	"time"

	"github.com/gotid/god/lib/load"
	"github.com/gotid/god/lib/logx"
	"github.com/gotid/god/lib/stat"
	"verif.local/vk"
)

type c09ScriptShedder struct {
	admit                      bool
	allows, passes, fails, dup int64
}

type c09ScriptPromise struct {
	s        *c09ScriptShedder
	reported int32
}

func (s *c09ScriptShedder) Allow() (load.Promise, error) {
	atomic.AddInt64(&s.allows, 1)
	if !s.admit {
		return nil, load.ErrServiceOverloaded
	}
	return &c09ScriptPromise{s: s}, nil
}

func (p *c09ScriptPromise) Pass() {
	if atomic.AddInt32(&p.reported, 1) > 1 {
		atomic.AddInt64(&p.s.dup, 1)
	}
	atomic.AddInt64(&p.s.passes, 1)
}

func (p *c09ScriptPromise) Fail() {
	if atomic.AddInt32(&p.reported, 1) > 1 {
		atomic.AddInt64(&p.s.dup, 1)
	}
	atomic.AddInt64(&p.s.fails, 1)
}

var c09Behaviours = []string{"write-200", "implicit-200", "nothing", "404", "500", "503", "503-then-body", "http.Error-503", "panic-before", "panic-after-503", "panic-after-200", "200-then-503"}

// c09CtxKinds: state of the request context (client hung up / deadline expired).
var c09CtxKinds = []string{"live", "live", "live", "cancelled-on-arrival", "cancelled-mid-request", "cancelled-after-response", "deadline-expired-on-arrival", "deadline-cancelled-mid-request"}

// c09Ctx builds the request context; mid runs at the start of the downstream
// handler, after runs at its end (just before it returns or panics).
func c09Ctx(kind string) (ctx context.Context, mid, after func(), cleanup func()) {
	nop := func() {}
	switch kind {
	case "cancelled-on-arrival":
		c, cancel := context.WithCancel(context.Background())
		cancel()
		return c, nop, nop, nop
	case "cancelled-mid-request":
		c, cancel := context.WithCancel(context.Background())
		return c, cancel, nop, cancel
	case "cancelled-after-response":
		c, cancel := context.WithCancel(context.Background())
		return c, nop, cancel, cancel
	case "deadline-expired-on-arrival":
		c, cancel := context.WithDeadline(context.Background(), time.Unix(1, 0))
		return c, nop, nop, cancel
	case "deadline-cancelled-mid-request":
		c, cancel := context.WithTimeout(context.Background(), time.Hour)
		return c, cancel, nop, cancel
	}
	return context.Background(), nop, nop, nop
}

func c09Next(kind string, served *int64, mid, after func()) http.Handler {
	return http.HandlerFunc(func(w http.ResponseWriter, r *http.Request) {
		atomic.AddInt64(served, 1)
		mid()
		defer after()
		switch kind {
		case "write-200":
			w.WriteHeader(http.StatusOK)
			_, _ = w.Write([]byte("ok"))
		case "implicit-200":
			_, _ = w.Write([]byte("ok"))
		case "nothing":
		case "404":
			w.WriteHeader(http.StatusNotFound)
		case "500":
			w.WriteHeader(http.StatusInternalServerError)
		case "503":
			w.WriteHeader(http.StatusServiceUnavailable)
		case "503-then-body":
			w.WriteHeader(http.StatusServiceUnavailable)
			_, _ = w.Write([]byte("busy"))
		case "http.Error-503":
			http.Error(w, "busy", http.StatusServiceUnavailable)
		case "panic-before":
			panic("c09 handler panic")
		case "panic-after-503":
			w.WriteHeader(http.StatusServiceUnavailable)
			panic("c09 handler panic")
		case "panic-after-200":
			w.WriteHeader(http.StatusOK)
			panic("c09 handler panic")
		case "200-then-503":
			w.WriteHeader(http.StatusOK)
			w.WriteHeader(http.StatusServiceUnavailable) // superfluous second header
		}
	})
}

func TestVerifC09SheddingHandler(t *testing.T) {
	m := vk.New(t, "C09", "seeded request sequences through SheddingHandler with a scripted Shedder (admit/reject) and 12 downstream behaviours (status codes incl. 503, implicit 200, nothing written, panics before/after the header) x 6 request-context states (live, cancelled on arrival / mid-request / after the response, deadline expired, deadline context cancelled mid-request); per request: Allow once; rejected => downstream not run, no promise call; admitted => downstream run once and exactly one of Pass/Fail reported when ServeHTTP returns or panics")
	defer m.Done()
	log.SetOutput(io.Discard)
	logx.Disable()
	metrics := stat.NewMetrics("c09-verif")
	n := vk.N(3000, 60000)
	r := m.Rand("http")
	mapping := map[string]int64{}
	verdict := map[string]string{} // downstream behaviour -> first observed report
	prev := "none"
	var rejected, admitted, panics int64
	// nil shedder: the middleware must be a pass-through
	{
		var served int64
		h := SheddingHandler(nil, metrics)(c09Next("write-200", &served, func() {}, func() {}))
		rec := httptest.NewRecorder()
		h.ServeHTTP(rec, httptest.NewRequest(http.MethodGet, "http://localhost/x", http.NoBody))
		if served != 1 {
			m.Violate("C09:http:nil-shedder-not-passthrough", "case=0;nil shedder", "downstream served %d times", served)
		}
		m.Count("nil_shedder_requests", 1)
	}
	for idx := 1; idx <= n; idx++ {
		kind := c09Behaviours[r.Intn(len(c09Behaviours))]
		admit := r.Intn(4) != 0
		if !m.Only(idx) {
			continue
		}
		ctxKind := c09CtxKinds[r.Intn(len(c09CtxKinds))]
		class := kind + "/ctx-" + ctxKind
		desc := fmt.Sprintf("case=%d;{\"admit\":%v,\"downstream\":%q,\"request_context\":%q}", idx, admit, kind, ctxKind)
		ctx, mid, after, cleanup := c09Ctx(ctxKind)
		sh := &c09ScriptShedder{admit: admit}
		var served int64
		h := SheddingHandler(sh, metrics)(c09Next(kind, &served, mid, after))
		rec := httptest.NewRecorder()
		_, panicked := vk.Recover(func() {
			h.ServeHTTP(rec, httptest.NewRequest(http.MethodGet, "http://localhost/x", http.NoBody).WithContext(ctx))
		})
		cleanup()
		if panicked {
			panics++
		}
		bad := false
		if sh.allows != 1 {
			m.Violate("C09:http:allow-not-called-once", desc, "Allow called %d times for one request", sh.allows)
			bad = true
		}
		if !admit {
			rejected++
			if served != 0 {
				m.Violate("C09:http:rejected-request-served", desc, "Allow rejected but the downstream handler ran %d times", served)
				bad = true
			}
			mapping[fmt.Sprintf("rejected_status_%d", rec.Code)]++
		} else {
			admitted++
			if served != 1 {
				m.Violate("C09:http:admitted-request-not-served-once", desc, "Allow admitted but the downstream handler ran %d times", served)
				bad = true
			}
			if sh.passes+sh.fails != 1 || sh.dup != 0 {
				m.Violate("C09:http:promise-not-reported-exactly-once", desc, "admitted request (downstream %s, panicked=%v): Pass=%d Fail=%d duplicate reports=%d", class, panicked, sh.passes, sh.fails, sh.dup)
				bad = true
			}
			out := "pass"
			if sh.fails > 0 {
				out = "fail"
			}
			mapping[fmt.Sprintf("admitted_%s_%s", kind, out)]++
			mapping[fmt.Sprintf("admitted_ctx-%s_%s", ctxKind, out)]++
			// the report must be a function of the request's own outcome: the same
			// downstream behaviour may not be reported differently depending on earlier requests
			if first, seen := verdict[class]; !seen {
				verdict[class] = out
			} else if first != out && sh.passes+sh.fails == 1 {
				m.Violate("C09:http:report-depends-on-earlier-request", desc, "downstream behaviour %s was reported as %s by earlier identical requests and as %s now (previous request: %s)", class, first, out, prev)
				bad = true
			}
		}
		m.Case(vk.Digest(admit, class), !bad)
		prev = desc
		if m.WantSample() && idx%7 == 1 {
			m.Sample(map[string]any{"scenario": desc, "allow_calls": sh.allows, "downstream_runs": served, "pass": sh.passes, "fail": sh.fails, "status": rec.Code, "panicked": panicked})
		}
	}
	m.Count("requests_admitted", admitted)
	m.Count("requests_rejected", rejected)
	m.Count("downstream_panics", panics)
	for k, v := range mapping {
		m.Count(k, v)
	}
	m.Note("Pass/Fail mapping observed (recorded, not asserted): see counters admitted_<downstream>_<pass|fail>")
}
