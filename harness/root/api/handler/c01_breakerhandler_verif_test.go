//go:build verif

package handler

// C01 — benign-outcome table of the HTTP integration (DESIGN.md §3 C01 (f)):
// BreakerHandler around a handler that answers a given status, observed through
// an httptest recorder. Black box: a dropped request is one whose inner handler
// did not run (the middleware answers 503 itself). The breaker runs on the
// virtual clock (frozen), so nothing ages out while a table row is driven.

import (
	"fmt"
	"net/http"
	"net/http/httptest"
	"strings"
	"testing"
	"time"

	"github.com/gotid/god/lib/logx"
	"github.com/gotid/god/lib/stat"
	"github.com/gotid/god/lib/timex"
	"verif.local/vk"
)

type c01HTTP struct {
	h      http.Handler
	status int
	mode   int // 0 WriteHeader, 1 WriteHeader+body, 2 body only (implicit 200), 3 nothing (implicit 200)
	ran    int
	panicV any // when non-nil the handler panics with it after writing
	// multi-header shape (mode 4): bodyFirst writes a body before any header (implicit 200),
	// then every code of seq is passed to WriteHeader in order
	seq       []int
	bodyFirst bool
}

// c01ClientStatus is the status a client receives for a multi-header shape under
// net/http's rules: 1xx headers are informational, the first status >= 200 is
// final (later WriteHeader calls are superfluous), a body before any final header means 200.
func c01ClientStatus(bodyFirst bool, seq []int) int {
	if bodyFirst {
		return 200
	}
	for _, c := range seq {
		if c >= 200 {
			return c
		}
	}
	return 200
}

func c01ShapeName(bodyFirst bool, seq []int) string {
	var parts []string
	if bodyFirst {
		parts = append(parts, "body")
	}
	for _, c := range seq {
		parts = append(parts, fmt.Sprint(c))
	}
	return strings.Join(parts, "+")
}

func c01NewHTTP(metrics *stat.Metrics, tag string) *c01HTTP {
	c := &c01HTTP{}
	mw := BreakerHandler(http.MethodGet, "/c01/"+tag, metrics)
	c.h = mw(http.HandlerFunc(func(w http.ResponseWriter, r *http.Request) {
		c.ran++
		switch c.mode {
		case 0:
			w.WriteHeader(c.status)
		case 1:
			w.WriteHeader(c.status)
			if c.status >= 200 && c.status != 204 && c.status != 304 {
				_, _ = w.Write([]byte("body"))
			}
		case 2:
			_, _ = w.Write([]byte("implicit"))
		case 4:
			if c.bodyFirst {
				_, _ = w.Write([]byte("early body"))
			}
			for _, code := range c.seq {
				w.WriteHeader(code)
			}
		}
		if c.panicV != nil {
			panic(c.panicV)
		}
	}))
	return c
}

// call sends one request; ran = inner handler ran; code = recorded status.
func (c *c01HTTP) call(status, mode int) (ran bool, code int) {
	c.status, c.mode = status, mode
	before := c.ran
	rec := httptest.NewRecorder()
	req := httptest.NewRequest(http.MethodGet, "http://localhost/c01", nil)
	vk.Recover(func() { c.h.ServeHTTP(rec, req) }) // a handler panic that propagates through the middleware stops here
	return c.ran > before, rec.Code
}

// c01StatusClass names the input class of a status for violation signatures:
// boundary statuses by value, the rest by hundred.
func c01StatusClass(s int) string {
	switch s {
	case 100, 199, 200, 399, 400, 498, 499, 500, 501, 503, 599:
		return fmt.Sprint(s)
	}
	return fmt.Sprintf("%dxx", s/100)
}

func TestVerifC01HTTPBenignTable(t *testing.T) {
	m := vk.New(t, "C01", "BreakerHandler + httptest recorder, virtual clock frozen: every status 100-499 (and implicit 200) alone x150 requests on a fresh breaker => 0 dropped; 10000 mixed benign statuses on one breaker => 0 dropped; implicit-200 route interleaved with 5xx answers on another route => never dropped; every status 500-599 alone x400 requests => at least one request dropped, every drop answers 503 without running the handler; handler writes 5xx and then panics (panic recovered by the harness) x400 => at least one request dropped; multi-header handlers (1xx informational headers before the final status, superfluous second WriteHeader of the same class, body before header) classified by the status the client receives: benign x150 => 0 dropped, failing x400 => at least one dropped; non-trivial = row whose breaker dropped something")
	defer m.Done()
	logx.Disable()
	stat.SetReporter(nil)
	timex.VerifFakeClock(1000*time.Hour + time.Duration(m.Rand("clock").Int63n(int64(time.Hour))))
	defer timex.VerifRealClock()
	metrics := stat.NewMetrics("c01")
	r := m.Rand("http")
	perBenign := vk.N(150, 1000)
	perBad := vk.N(400, 2000)

	// ---- benign rows
	for s := 100; s <= 499; s++ {
		c := c01NewHTTP(metrics, fmt.Sprint("b", s))
		desc := fmt.Sprintf("case=%d;status %d x%d on a fresh BreakerHandler", s, s, perBenign)
		okRow := true
		for i := 0; i < perBenign; i++ {
			ran, code := c.call(s, i%2)
			m.Count("requests_benign", 1)
			if !ran {
				m.Violate("C01:benign:http:"+c01StatusClass(s)+":dropped", desc, "request #%d answering %d was dropped (recorded %d) after only status-%d responses", i, s, code, s)
				okRow = false
				break
			}
			if code != s {
				m.Note("recorder saw %d for handler status %d", code, s)
			}
		}
		m.Case(fmt.Sprint("benign", s, okRow), okRow)
	}
	for mode := 2; mode <= 3; mode++ {
		c := c01NewHTTP(metrics, fmt.Sprint("implicit", mode))
		for i := 0; i < perBenign; i++ {
			ran, code := c.call(200, mode)
			m.Count("requests_benign", 1)
			if !ran {
				m.Violate("C01:benign:http:implicit-200:dropped", fmt.Sprintf("case=%d;implicit 200 mode %d", 600+mode, mode), "request #%d with implicit status was dropped (recorded %d)", i, code)
				break
			}
		}
		m.Case(fmt.Sprint("implicit", mode), false)
	}
	// ---- 10000 mixed benign outcomes into one breaker
	{
		c := c01NewHTTP(metrics, "mixed")
		n := vk.N(10000, 100000)
		dropped := 0
		for i := 0; i < n; i++ {
			s := 100 + r.Intn(400)
			ran, code := c.call(s, r.Intn(2))
			m.Count("requests_benign_mixed", 1)
			if !ran {
				dropped++
				m.Violate("C01:benign:http:mixed:dropped", fmt.Sprintf("case=700;%d random statuses 100-499 on one breaker", n), "request #%d (status %d) was dropped (recorded %d) although every response so far was < 500", i, s, code)
				break
			}
		}
		m.Case("mixed-benign", false)
		m.Sample(map[string]any{"scenario": "mixed statuses 100-499 on one BreakerHandler", "requests": n, "dropped": dropped})
	}
	// ---- sustained mix of successes and failures below the trip threshold: every admitted
	// request must record its outcome (successes counted), so while the outcomes the harness
	// has seen satisfy total-5 <= 1.5*accepts (frozen clock: all in the window) nothing is dropped
	for _, share := range []int{10, 30} {
		c := c01NewHTTP(metrics, fmt.Sprint("mix", share))
		n := vk.N(3000, 30000)
		var acc, tot, asserted int64
		okRow := true
		for k := 0; k < n; k++ {
			bad := r.Intn(100) < share
			s := 100 + r.Intn(400)
			if bad {
				s = 500 + r.Intn(100)
			}
			must := 2*(tot-5) <= 3*acc
			ran, code := c.call(s, r.Intn(2))
			m.Count("requests_mixed_success_failure", 1)
			if !ran {
				if must {
					m.Violate("C01:mixed:http:rejected-below-threshold", fmt.Sprintf("case=%d;%d%% 5xx among statuses < 500 on one BreakerHandler", 850+share, share), "request #%d (status %d) was dropped (recorded %d) although the %d admitted requests so far were %d x <500 and %d x >=500, i.e. total-5 <= 1.5*successes: successes are not counted", k, s, code, tot, acc, tot-acc)
					okRow = false
					break
				}
				continue
			}
			if must {
				asserted++
			}
			tot++
			if !bad {
				acc++
			}
		}
		m.Count("mixed_requests_admitted_in_must_admit_state", asserted)
		m.Case(fmt.Sprint("mixed-success-failure", share, okRow), okRow && tot > acc)
		m.Sample(map[string]any{"scenario": fmt.Sprintf("%d%% 5xx among <500 responses, %d requests", share, n), "successes": acc, "failures": tot - acc, "dropped_below_threshold": !okRow})
	}
	// ---- a healthy route that relies on the implicit 200 (only Write, or nothing at all), interleaved
	// with 5xx answers on ANOTHER route / handler: nothing of one request may leak into the next,
	// so the healthy route (only benign outcomes) is never dropped
	for _, pattern := range []int{1, 3} { // healthy requests per failing request
		healthy := c01NewHTTP(metrics, fmt.Sprint("implicit-healthy", pattern))
		other := c01NewHTTP(metrics, fmt.Sprint("implicit-other", pattern))
		n := vk.N(600, 6000)
		okRow := true
		for k := 0; k < n && okRow; k++ {
			other.call(500+r.Intn(100), r.Intn(2))
			m.Count("requests_5xx_on_other_route", 1)
			for j := 0; j < pattern; j++ {
				mode := 2 + r.Intn(2)
				ran, code := healthy.call(200, mode)
				m.Count("requests_implicit_200_interleaved", 1)
				if !ran {
					m.Violate("C01:benign:http:implicit-200-interleaved-with-5xx-elsewhere:dropped", fmt.Sprintf("case=%d;route A only ever answers the implicit 200 (Write without WriteHeader / nothing), every %d of its requests a different route B answers 5xx", 860+pattern, pattern), "request #%d on the healthy route was dropped (recorded %d) although all its responses were the implicit 200: an earlier request's status leaked into its outcome", k*pattern+j, code)
					okRow = false
					break
				}
			}
		}
		m.Case(fmt.Sprint("implicit-200-interleaved", pattern, okRow), okRow)
	}
	// ---- non-benign rows
	for s := 500; s <= 599; s++ {
		c := c01NewHTTP(metrics, fmt.Sprint("f", s))
		desc := fmt.Sprintf("case=%d;status %d x%d on a fresh BreakerHandler", s, s, perBad)
		drops, firstDrop := 0, -1
		bad := false
		for i := 0; i < perBad; i++ {
			ran, code := c.call(s, i%2)
			m.Count("requests_failing", 1)
			if !ran {
				drops++
				if firstDrop < 0 {
					firstDrop = i
				}
				if code != http.StatusServiceUnavailable {
					m.Violate("C01:reject:http:wrong-status", desc, "dropped request #%d was answered %d, want 503", i, code)
					bad = true
					break
				}
			}
		}
		m.Count("requests_dropped", int64(drops))
		if !bad && drops == 0 {
			m.Violate("C01:nonbenign:http:"+c01StatusClass(s)+":never-cut-off", desc, "%d consecutive responses with status %d and not a single request was dropped: the status does not count as a failure", perBad, s)
		}
		m.Case(fmt.Sprint("failing", s, drops > 0), drops > 0)
		if s%25 == 0 {
			m.Sample(map[string]any{"scenario": fmt.Sprintf("status %d x%d", s, perBad), "dropped": drops, "first_drop_at_request": firstDrop})
		}
	}
	// ---- handlers that write more than one header, classified by the status the client receives.
	// Asserted only where that status and every other reading agree on the class: 1xx informational
	// headers before the final status, and a superfluous second WriteHeader of the SAME class.
	type c01Shape struct {
		bodyFirst bool
		seq       []int
	}
	shapeCall := func(c *c01HTTP, sh c01Shape) (bool, int) {
		c.seq, c.bodyFirst = sh.seq, sh.bodyFirst
		return c.call(0, 4)
	}
	benignShapes := []c01Shape{
		{false, []int{103, 200}}, {false, []int{100, 103, 404}}, {false, []int{102, 499}}, {false, []int{103, 103, 301}},
		{false, []int{200, 404}}, {false, []int{204, 200}}, {true, []int{404}}, {true, nil},
	}
	failingShapes := []c01Shape{
		{false, []int{103, 500}}, {false, []int{100, 103, 502}}, {false, []int{102, 599}}, {false, []int{103, 103, 503}},
		{false, []int{500, 503}}, {false, []int{503, 500}},
	}
	for i, sh := range benignShapes {
		name := c01ShapeName(sh.bodyFirst, sh.seq)
		c := c01NewHTTP(metrics, "shape-b-"+name)
		desc := fmt.Sprintf("case=%d;handler writes %s (client receives %d) x%d on a fresh BreakerHandler", 1100+i, name, c01ClientStatus(sh.bodyFirst, sh.seq), perBenign)
		okRow := true
		for k := 0; k < perBenign; k++ {
			ran, code := shapeCall(c, sh)
			m.Count("requests_multi_header_benign", 1)
			if !ran {
				m.Violate("C01:benign:http:multi-header:"+name+":dropped", desc, "request #%d was dropped (recorded %d) although every response so far reached the client with status %d", k, code, c01ClientStatus(sh.bodyFirst, sh.seq))
				okRow = false
				break
			}
		}
		m.Case("multi-header-benign-"+name, okRow)
	}
	for i, sh := range failingShapes {
		name := c01ShapeName(sh.bodyFirst, sh.seq)
		c := c01NewHTTP(metrics, "shape-f-"+name)
		final := c01ClientStatus(sh.bodyFirst, sh.seq)
		desc := fmt.Sprintf("case=%d;handler writes %s (client receives %d) x%d on a fresh BreakerHandler", 1200+i, name, final, perBad)
		drops := 0
		bad := false
		for k := 0; k < perBad; k++ {
			ran, code := shapeCall(c, sh)
			m.Count("requests_multi_header_failing", 1)
			if !ran {
				drops++
				if code != http.StatusServiceUnavailable {
					m.Violate("C01:reject:http:wrong-status", desc, "dropped request #%d was answered %d, want 503", k, code)
					bad = true
					break
				}
			}
		}
		m.Count("requests_dropped_multi_header", int64(drops))
		if !bad && drops == 0 {
			m.Violate("C01:nonbenign:http:multi-header:"+name+":never-cut-off", desc, "%d consecutive responses that reach the client with status %d (handler wrote %s) and not a single request was dropped: the informational/earlier header was taken for the outcome", perBad, final, name)
		}
		m.Case("multi-header-failing-"+name, drops > 0)
		if i == 0 {
			m.Sample(map[string]any{"scenario": fmt.Sprintf("handler writes %s x%d", name, perBad), "client_status": final, "dropped": drops})
		}
	}
	// mixed multi-header benign shapes into one breaker
	{
		c := c01NewHTTP(metrics, "shape-mixed")
		for k := 0; k < vk.N(5000, 50000); k++ {
			sh := benignShapes[r.Intn(len(benignShapes))]
			ran, code := shapeCall(c, sh)
			m.Count("requests_multi_header_benign", 1)
			if !ran {
				m.Violate("C01:benign:http:multi-header:mixed:dropped", "case=1190;mixed benign multi-header shapes on one BreakerHandler", "request #%d (%s) was dropped (recorded %d)", k, c01ShapeName(sh.bodyFirst, sh.seq), code)
				break
			}
		}
		m.Case("multi-header-mixed-benign", true)
	}
	// NOT asserted (the statement leaves it open which status a handler that misuses WriteHeader "answered"):
	// a superfluous second WriteHeader / a late WriteHeader after the body, of the OTHER class.
	for _, sh := range []c01Shape{{false, []int{200, 500}}, {false, []int{500, 200}}, {true, []int{500}}} {
		name := c01ShapeName(sh.bodyFirst, sh.seq)
		c := c01NewHTTP(metrics, "shape-open-"+name)
		drops := 0
		for k := 0; k < perBad; k++ {
			if ran, _ := shapeCall(c, sh); !ran {
				drops++
			}
		}
		m.Note("not asserted: handler writes %s (client receives %d) x%d => %d requests dropped", name, c01ClientStatus(sh.bodyFirst, sh.seq), perBad, drops)
	}
	// ---- a handler that answers 5xx and then panics keeps failing: it must be cut off too
	// (status >= 500 is not benign and a panic is a failure: either way one failure per admitted request)
	for i, row := range []struct {
		status int
		mode   int
		pv     any
		name   string
	}{
		{502, 0, http.ErrAbortHandler, "ErrAbortHandler"},
		{500, 1, "c01 handler panic", "string"},
		{503, 0, fmt.Errorf("c01 error panic"), "error"},
		{599, 1, http.ErrAbortHandler, "ErrAbortHandler"},
	} {
		c := c01NewHTTP(metrics, fmt.Sprint("panic", i))
		c.panicV = row.pv
		desc := fmt.Sprintf("case=%d;handler writes %d then panics (%s) x%d on a fresh BreakerHandler, panic recovered by the harness around ServeHTTP", 900+i, row.status, row.name, perBad)
		drops := 0
		bad := false
		for k := 0; k < perBad; k++ {
			ran, code := c.call(row.status, row.mode)
			m.Count("requests_5xx_then_panic", 1)
			if !ran {
				drops++
				if code != http.StatusServiceUnavailable {
					m.Violate("C01:reject:http:wrong-status", desc, "dropped request #%d was answered %d, want 503", k, code)
					bad = true
					break
				}
			}
		}
		m.Count("requests_dropped_5xx_then_panic", int64(drops))
		if !bad && drops == 0 {
			m.Violate("C01:nonbenign:http:"+c01StatusClass(row.status)+"-then-panic:never-cut-off", desc, "%d consecutive requests whose handler wrote %d and then panicked, and not a single request was dropped: admitted requests that end in a panic record no failure", perBad, row.status)
		}
		m.Case(fmt.Sprint("5xx-then-panic", i, drops > 0), drops > 0)
		if i == 0 {
			m.Sample(map[string]any{"scenario": fmt.Sprintf("handler writes %d then panics with http.ErrAbortHandler x%d", row.status, perBad), "dropped": drops})
		}
	}
	// ---- recovery through the handler: failures age out, benign traffic is never cut off
	{
		c := c01NewHTTP(metrics, "recover")
		drops := 0
		for i := 0; i < perBad; i++ {
			if ran, _ := c.call(502, 0); !ran {
				drops++
			}
		}
		timex.VerifAdvance(10*time.Second + time.Duration(r.Int63n(int64(time.Second))))
		for i := 0; i < 1000; i++ {
			s := 100 + r.Intn(400)
			if ran, code := c.call(s, 0); !ran {
				m.Violate("C01:benign:http:after-ageing:dropped", "case=800;502 x400, advance >=10 s, then benign statuses", "request #%d (status %d) after the failures aged out was dropped (recorded %d)", i, s, code)
				break
			}
			m.Count("requests_after_ageing", 1)
		}
		m.Case("recover", drops > 0)
	}
}
