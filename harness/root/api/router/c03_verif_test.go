//go:build verif

package router

// C03 — routing monitor (DESIGN.md §3 C03): every request through the real
// patRouter is compared with an independent reference matcher over the list of
// successfully registered (method, pattern) pairs.

import (
	"fmt"
	"net/http"
	"net/http/httptest"
	"net/url"
	"path"
	"sort"
	"strings"
	"testing"

	"github.com/gotid/god/api/pathvar"
	"verif.local/vk"
)

type c03Reg struct {
	Method  string `json:"m"`
	Pattern string `json:"p"`
	// NilHandler: the registration carries a nil handler. The statement does not say whether it is
	// accepted; whatever Handle answers, the later answers must follow from the accepted routes only.
	NilHandler bool `json:"nil,omitempty"`
}

type c03Route struct {
	method  string
	pattern string // cleaned
	segs    []string
	id      int
}

func c03Segs(p string) []string {
	if p == "/" {
		return []string{""}
	}
	return strings.Split(p[1:], "/")
}

func c03Match(pat, segs []string) (map[string]string, bool) {
	if len(pat) != len(segs) {
		return nil, false
	}
	vars := map[string]string{}
	for i := range pat {
		if strings.HasPrefix(pat[i], ":") {
			vars[pat[i][1:]] = segs[i]
		} else if pat[i] != segs[i] {
			return nil, false
		}
	}
	return vars, true
}

func c03AllLiteral(segs []string) bool {
	for _, s := range segs {
		if strings.HasPrefix(s, ":") {
			return false
		}
	}
	return true
}

var c03Valid = map[string]bool{"DELETE": true, "GET": true, "HEAD": true, "OPTIONS": true, "PATCH": true, "POST": true, "PUT": true}

type c03Hit struct {
	id   int
	vars map[string]string
}

type c03Table struct {
	rt     *patRouter
	routes []c03Route
	hit    *c03Hit
	// custom fallback handlers installed through SetNotFoundHandler / SetNotAllowedHandler
	useNF, useNA bool
	sawNF, sawNA bool
	nilAccepted  bool
	// replaced fallback handlers that ran nevertheless
	staleNF, staleNA bool
}

func (tb *c03Table) installFallbacks(nf, na, preinstall bool) {
	tb.useNF, tb.useNA = nf, na
	if preinstall {
		// custom handlers were installed earlier (as a server option does) and are then replaced or reset with nil:
		// the answer must follow the LAST call of each setter
		tb.rt.SetNotFoundHandler(http.HandlerFunc(func(w http.ResponseWriter, r *http.Request) {
			tb.staleNF = true
			w.WriteHeader(http.StatusNotFound)
		}))
		tb.rt.SetNotAllowedHandler(http.HandlerFunc(func(w http.ResponseWriter, r *http.Request) {
			tb.staleNA = true
			w.WriteHeader(http.StatusMethodNotAllowed)
		}))
		if !nf {
			tb.rt.SetNotFoundHandler(nil)
		}
		if !na {
			tb.rt.SetNotAllowedHandler(nil)
		}
	}
	if !nf && na {
		tb.rt.SetNotFoundHandler(nil) // an explicit reset to the default not-found answer
	}
	if !na && nf {
		tb.rt.SetNotAllowedHandler(nil)
	}
	if nf {
		tb.rt.SetNotFoundHandler(http.HandlerFunc(func(w http.ResponseWriter, r *http.Request) {
			tb.sawNF = true
			w.WriteHeader(http.StatusNotFound)
		}))
	}
	if na {
		tb.rt.SetNotAllowedHandler(http.HandlerFunc(func(w http.ResponseWriter, r *http.Request) {
			tb.sawNA = true
			w.WriteHeader(http.StatusMethodNotAllowed)
		}))
	}
}

// register feeds one registration to the real router and to the reference table
// and compares acceptance.
func (tb *c03Table) register(m *vk.M, desc func() string, reg c03Reg) {
	id := len(tb.routes) + 1000*0
	h := func(id int) http.Handler {
		return http.HandlerFunc(func(w http.ResponseWriter, r *http.Request) {
			tb.hit = &c03Hit{id: id, vars: pathvar.Vars(r)}
			w.WriteHeader(299)
		})
	}
	wantErr := ""
	cleaned := ""
	switch {
	case !c03Valid[reg.Method]:
		wantErr = "unsupported method"
	case len(reg.Pattern) == 0 || reg.Pattern[0] != '/':
		wantErr = "path not starting with /"
	default:
		cleaned = path.Clean(reg.Pattern)
		for _, r := range tb.routes {
			if r.method == reg.Method && r.pattern == cleaned {
				wantErr = "duplicate pattern"
			}
		}
	}
	id = len(tb.routes)
	if reg.NilHandler {
		err := tb.rt.Handle(reg.Method, reg.Pattern, nil)
		if err == nil && wantErr == "" {
			tb.nilAccepted = true // unspecified: the table is not judged any further
		}
		m.Count("nil_handler_registrations", 1)
		return
	}
	err := tb.rt.Handle(reg.Method, reg.Pattern, h(id))
	switch {
	case wantErr != "" && err == nil:
		m.Violate("C03:invalid-registration-accepted:"+strings.ReplaceAll(wantErr, " ", "-"), desc(), "Handle(%q,%q) accepted, want rejection (%s)", reg.Method, reg.Pattern, wantErr)
	case wantErr == "" && err != nil:
		m.Violate("C03:valid-registration-rejected", desc(), "Handle(%q,%q) = %v", reg.Method, reg.Pattern, err)
	}
	if wantErr == "" {
		tb.routes = append(tb.routes, c03Route{method: reg.Method, pattern: cleaned, segs: c03Segs(cleaned), id: id})
	}
}

// request sends one request and checks the outcome. Returns a class label.
func (tb *c03Table) request(m *vk.M, desc func() string, method, p string) string {
	req, _ := http.NewRequest(method, "http://c03.local/", nil)
	req.URL = &url.URL{Scheme: "http", Host: "c03.local", Path: p}
	rec := httptest.NewRecorder()
	tb.hit = nil
	tb.sawNF, tb.sawNA = false, false
	if pv, panicked := vk.Recover(func() { tb.rt.ServeHTTP(rec, req) }); panicked {
		m.Violate("C03:router-panic", desc(), "%s %q: ServeHTTP panicked: %v", method, p, pv)
		return "panic"
	}
	if tb.staleNF || tb.staleNA {
		m.Violate("C03:replaced-fallback-handler-ran", desc(), "%s %q: a not-found (%v) / not-allowed (%v) handler that had been replaced by a later Set...Handler call ran (status %d)", method, p, tb.staleNF, tb.staleNA, rec.Code)
		tb.staleNF, tb.staleNA = false, false
		return "stale-fallback"
	}
	segs := c03Segs(path.Clean(p))
	var matches []c03Route
	others := map[string]bool{}
	for _, r := range tb.routes {
		if _, ok := c03Match(r.segs, segs); ok {
			if r.method == method {
				matches = append(matches, r)
			} else {
				others[r.method] = true
			}
		}
	}
	where := fmt.Sprintf("%s %q (cleaned %q)", method, p, path.Clean(p))
	if len(matches) > 0 {
		if tb.hit == nil {
			m.Violate("C03:no-handler-for-matching-route", desc(), "%s: patterns %v match but no handler ran (status %d)", where, c03Names(matches), rec.Code)
			return "match"
		}
		var chosen *c03Route
		for i := range matches {
			if matches[i].id == tb.hit.id {
				chosen = &matches[i]
			}
		}
		if tb.sawNF || tb.sawNA {
			m.Violate("C03:fallback-handler-ran-on-match", desc(), "%s: notFound=%v notAllowed=%v although %v match", where, tb.sawNF, tb.sawNA, c03Names(matches))
			return "match"
		}
		if chosen == nil {
			m.Violate("C03:wrong-handler", desc(), "%s: handler of route #%d (%s) ran, which does not match; matching: %v", where, tb.hit.id, c03Name(tb.routes, tb.hit.id), c03Names(matches))
			return "match"
		}
		for _, r := range matches {
			if c03AllLiteral(r.segs) && r.id != chosen.id {
				m.Violate("C03:literal-pattern-lost-to-param-pattern", desc(), "%s: all-literal pattern %s matches but %s was chosen", where, r.pattern, chosen.pattern)
				return "match"
			}
		}
		want, _ := c03Match(chosen.segs, segs)
		got := tb.hit.vars
		if len(want) != len(got) {
			m.Violate("C03:wrong-path-vars", desc(), "%s via %s: vars %v, want %v", where, chosen.pattern, got, want)
			return "match"
		}
		for k, v := range want {
			if gv, ok := got[k]; !ok || gv != v {
				m.Violate("C03:wrong-path-vars", desc(), "%s via %s: vars %v, want %v", where, chosen.pattern, got, want)
				return "match"
			}
		}
		if len(matches) > 1 {
			return "match-ambiguous"
		}
		return "match"
	}
	if tb.hit != nil {
		m.Violate("C03:handler-ran-without-matching-route", desc(), "%s: handler of route #%d (%s) ran but no registered %s pattern matches", where, tb.hit.id, c03Name(tb.routes, tb.hit.id), method)
		return "nomatch"
	}
	if len(others) > 0 {
		if tb.sawNF {
			m.Violate("C03:not-found-handler-on-405", desc(), "%s: the not-found handler ran although other methods match: %v", where, c03Keys(others))
			return "405"
		}
		if tb.useNA {
			if !tb.sawNA {
				m.Violate("C03:not-allowed-handler-not-used", desc(), "%s: status %d, the installed not-allowed handler did not run (other methods: %v)", where, rec.Code, c03Keys(others))
			}
			return "405-custom"
		}
		if rec.Code != http.StatusMethodNotAllowed {
			m.Violate("C03:expected-405", desc(), "%s: status %d, want 405 (other methods with a match: %v)", where, rec.Code, c03Keys(others))
			return "405"
		}
		got := map[string]bool{}
		for _, a := range strings.Split(rec.Header().Get("Allow"), ",") {
			if a = strings.TrimSpace(a); a != "" {
				if got[a] {
					m.Violate("C03:allow-header-wrong", desc(), "%s: Allow %q lists %s twice", where, rec.Header().Get("Allow"), a)
				}
				got[a] = true
			}
		}
		if fmt.Sprint(c03Keys(got)) != fmt.Sprint(c03Keys(others)) {
			m.Violate("C03:allow-header-wrong", desc(), "%s: Allow %q, want exactly %v", where, rec.Header().Get("Allow"), c03Keys(others))
		}
		return "405"
	}
	if tb.sawNA {
		m.Violate("C03:not-allowed-handler-on-404", desc(), "%s: the not-allowed handler ran although no method has a matching pattern", where)
		return "404"
	}
	if tb.useNF {
		if !tb.sawNF {
			m.Violate("C03:not-found-handler-not-used", desc(), "%s: status %d, the installed not-found handler did not run", where, rec.Code)
		}
		return "404-custom"
	}
	if rec.Code != http.StatusNotFound {
		m.Violate("C03:expected-404", desc(), "%s: status %d, want 404", where, rec.Code)
	}
	return "404"
}

func c03Keys(m map[string]bool) []string {
	var ks []string
	for k := range m {
		ks = append(ks, k)
	}
	sort.Strings(ks)
	return ks
}

func c03Names(rs []c03Route) []string {
	var out []string
	for _, r := range rs {
		out = append(out, r.method+" "+r.pattern)
	}
	return out
}

func c03Name(rs []c03Route, id int) string {
	for _, r := range rs {
		if r.id == id {
			return r.method + " " + r.pattern
		}
	}
	return "?"
}

var (
	c03Lits    = []string{"a", "b", "c"}
	c03Params  = []string{":x", ":y", ":z"}
	c03Methods = []string{"GET", "POST", "PUT", "GET", "POST", "DELETE", "HEAD", "OPTIONS", "PATCH"} // all seven supported methods, the common ones twice
)

func c03GenPattern(r interface{ Intn(int) int }) string {
	depth := r.Intn(5)
	if depth == 0 {
		return "/"
	}
	used := map[string]bool{}
	var segs []string
	for i := 0; i < depth; i++ {
		if r.Intn(100) < 40 {
			p := c03Params[r.Intn(len(c03Params))]
			if !used[p] {
				used[p] = true
				segs = append(segs, p)
				continue
			}
		}
		if r.Intn(12) == 0 {
			segs = append(segs, "k:v") // a literal that merely contains a colon
			continue
		}
		segs = append(segs, c03Lits[r.Intn(len(c03Lits))])
	}
	return "/" + strings.Join(segs, "/")
}

func c03Dirty(r interface{ Intn(int) int }, p string) string {
	switch r.Intn(6) {
	case 0:
		return strings.Replace(p, "/", "//", 1+r.Intn(2))
	case 1:
		return p + "/"
	case 2:
		return strings.Replace(p, "/", "/./", 1)
	case 3:
		return p + "/z/.."
	case 4:
		return "/z/.." + p
	default:
		return p + "/."
	}
}

func c03GenTable(r interface{ Intn(int) int }) []c03Reg {
	n := 1 + r.Intn(12)
	var regs []c03Reg
	for i := 0; i < n; i++ {
		reg := c03Reg{Method: c03Methods[r.Intn(len(c03Methods))], Pattern: c03GenPattern(r)}
		switch x := r.Intn(100); {
		case x < 6 && len(regs) > 0: // duplicate of an earlier one, possibly written dirty
			prev := regs[r.Intn(len(regs))]
			reg = prev
			if r.Intn(2) == 0 && prev.Pattern != "" && prev.Pattern[0] == '/' {
				reg.Pattern = c03Dirty(r, prev.Pattern)
			}
		case x < 9:
			reg.Pattern = strings.TrimPrefix(reg.Pattern, "/") // "" or "a/b"
		case x < 12:
			reg.Method = []string{"FOO", "get", "CONNECT", "TRACE", ""}[r.Intn(5)]
		case x < 18:
			reg.Pattern = c03Dirty(r, reg.Pattern)
		}
		regs = append(regs, reg)
	}
	// a registration attempt with a nil handler - somewhere, or as the very first attempt for the method of a
	// later registration (a rejected attempt must leave no trace in the 404/405/Allow partition)
	switch r.Intn(8) {
	case 0:
		k := r.Intn(len(regs))
		regs = append([]c03Reg{{Method: regs[k].Method, Pattern: c03GenPattern(r), NilHandler: true}}, regs...)
	case 1:
		k := r.Intn(len(regs))
		regs = append(regs[:k:k], append([]c03Reg{{Method: c03Methods[r.Intn(len(c03Methods))], Pattern: regs[k].Pattern, NilHandler: true}}, regs[k:]...)...)
	}
	return regs
}

// c03Paths: every path up to depth 3 over {a,b,c,z} plus "/".
func c03Paths() []string {
	alpha := []string{"a", "b", "c", "z"}
	out := []string{"/"}
	var rec func(prefix string, d int)
	rec = func(prefix string, d int) {
		if d == 0 {
			return
		}
		for _, s := range alpha {
			p := prefix + "/" + s
			out = append(out, p)
			rec(p, d-1)
		}
	}
	rec("", 3)
	return out
}

func TestVerifC03Router(t *testing.T) {
	m := vk.New(t, "C03", "seeded route tables (1-12 registrations over literals {a,b,c}, params {:x,:y,:z}, depth 0-4, all seven supported methods; ~18% invalid or dirty registrations: duplicates, dirty duplicates, non-'/' paths, bad methods) x every request path up to depth 3 over {a,b,c,z} + sampled depth 4-5 + dirty variants, x all seven methods; outcome compared with a reference segment matcher; non-trivial table = produced matches, 405s and 404s")
	defer m.Done()
	n := vk.N(1000, 120000)
	r := m.Rand("tables")
	paths := c03Paths()
	// the seven registrable methods plus methods no route can have (for them only 405 + Allow or 404 is possible)
	reqMethods := []string{"GET", "POST", "PUT", "DELETE", "HEAD", "OPTIONS", "PATCH", "TRACE", "CONNECT", "PROPFIND", "get"}
	classes := map[string]int64{}
	for idx := 1; idx <= n; idx++ {
		regs := c03GenTable(r)
		extra := make([]string, 0, 60)
		for i := 0; i < 40; i++ {
			d := 4 + r.Intn(2)
			var segs []string
			for j := 0; j < d; j++ {
				segs = append(segs, []string{"a", "b", "c", "z"}[r.Intn(4)])
			}
			extra = append(extra, "/"+strings.Join(segs, "/"))
		}
		for i := 0; i < 20; i++ {
			extra = append(extra, c03Dirty(r, paths[r.Intn(len(paths))]))
		}
		// concrete instances of the registered patterns (params replaced by alphabet letters), so that
		// every table is also probed where it is supposed to match
		for _, reg := range regs {
			if len(reg.Pattern) == 0 || reg.Pattern[0] != '/' {
				continue
			}
			for k := 0; k < 3; k++ {
				segs := strings.Split(path.Clean(reg.Pattern), "/")
				for i, sg := range segs {
					if strings.HasPrefix(sg, ":") {
						// a letter, the parameter's own spelling, another parameter-looking segment, a literal with a
						// colon inside, or text that still looks percent-encoded after the URL was decoded once
						segs[i] = []string{"a", "b", "c", "z", sg, ":q", "k:v", "%41", "a%20b", "..%2F", "100%"}[r.Intn(11)]
					}
				}
				extra = append(extra, strings.Join(segs, "/"))
			}
			extra = append(extra, path.Clean(reg.Pattern)) // the pattern text itself as a request path
		}
		useNF, useNA := r.Intn(3) == 0, r.Intn(3) == 0
		preinstall := r.Intn(4) == 0
		if !m.Only(idx) {
			continue
		}
		desc := func() string { return fmt.Sprintf("case=%d;%s notFound=%v notAllowed=%v replacedEarlierFallbacks=%v", idx, vk.JSON(regs), useNF, useNA, preinstall) }
		tb := &c03Table{rt: NewRouter().(*patRouter)}
		tb.installFallbacks(useNF, useNA, preinstall)
		v0 := m.ViolCount()
		// registration interleaved with serving: after the first half of the registrations a sample of
		// requests is served (answers such as 405 + Allow must not be remembered), then the rest is registered
		local := map[string]int64{}
		half := len(regs)
		if idx%2 == 0 && len(regs) >= 2 {
			half = len(regs) / 2
		}
		for _, reg := range regs[:half] {
			tb.register(m, desc, reg)
		}
		if half < len(regs) && m.ViolCount() == v0 && !tb.nilAccepted {
		early:
			for i, p := range extra {
				for _, method := range reqMethods {
					local[tb.request(m, desc, method, p)]++
					if m.ViolCount() > v0 {
						break early
					}
				}
				if i > 40 {
					break
				}
			}
		}
		for _, reg := range regs[half:] {
			tb.register(m, desc, reg)
		}
		if tb.nilAccepted {
			m.Count("tables_with_accepted_nil_handler_not_judged", 1)
		}
		if m.ViolCount() == v0 && !tb.nilAccepted {
		loop:
			for _, ps := range [][]string{paths, extra} {
				for _, p := range ps {
					for _, method := range reqMethods {
						local[tb.request(m, desc, method, p)]++
						if m.ViolCount() > v0 {
							break loop
						}
					}
				}
			}
		}
		for k, v := range local {
			classes[k] += v
		}
		m.Case(vk.Digest(vk.JSON(regs), tb.useNF, tb.useNA), local["match"] > 0 && local["404"]+local["404-custom"] > 0)
		if m.WantSample() && idx%173 == 1 {
			m.Sample(map[string]any{"registrations": regs, "accepted_routes": c03Names(tb.routes), "request_outcomes": local})
		}
		if idx%500 == 0 {
			m.Progress()
		}
	}
	for k, v := range classes {
		m.Count("requests_"+k, v)
	}
}
