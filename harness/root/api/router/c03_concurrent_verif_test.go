//go:build verif

package router

// C03 — the router serves requests concurrently (net/http calls ServeHTTP from one
// goroutine per connection). The answer to a request must follow from the route table and
// that request alone: here every request of a batch is first answered by the reference
// matcher, then the whole batch is served from several goroutines at once (under the race
// detector in the registered run) and every answer is compared with its expectation.

import (
	"fmt"
	"net/http"
	"net/http/httptest"
	"net/url"
	"path"
	"sort"
	"strings"
	"sync"
	"testing"

	"github.com/gotid/god/api/pathvar"
	"verif.local/vk"
)

type c03Want struct {
	method, p string
	ids       map[int]bool // acceptable handler ids (empty: none may run)
	literal   int          // id of the all-literal match, -1 if none
	status    int          // 404 / 405 when no handler may run
	allow     string       // sorted, comma separated
}

func TestVerifC03ConcurrentRace(t *testing.T) {
	m := vk.New(t, "C03", "seeded route tables (as in the sequential family, without invalid registrations) served concurrently: each batch of requests (matching, 405 and 404 ones mixed, paths sharing prefixes) is answered by the reference matcher first and then sent through one router from 8 goroutines at once; handler identity, path variables, status and Allow set of every answer are compared with the request's own expectation")
	defer m.Done()
	n := vk.N(150, 6000)
	r := m.Rand("tables")
	paths := c03Paths()
	reqMethods := []string{"GET", "POST", "PUT", "DELETE", "HEAD", "OPTIONS", "PATCH", "TRACE"}
	var served, n405, n404, nmatch int64
	for idx := 1; idx <= n; idx++ {
		regs := c03GenTable(r)
		var reqs []c03Want
		for i := 0; i < 160; i++ {
			p := paths[r.Intn(len(paths))]
			if len(regs) > 0 && r.Intn(2) == 0 {
				reg := regs[r.Intn(len(regs))]
				if len(reg.Pattern) > 0 && reg.Pattern[0] == '/' {
					segs := strings.Split(path.Clean(reg.Pattern), "/")
					for i, sg := range segs {
						if strings.HasPrefix(sg, ":") {
							segs[i] = []string{"a", "b", "c", "z"}[r.Intn(4)]
						}
					}
					p = strings.Join(segs, "/")
				}
			}
			reqs = append(reqs, c03Want{method: reqMethods[r.Intn(len(reqMethods))], p: p})
		}
		if !m.Only(idx) {
			continue
		}
		desc := func() string { return fmt.Sprintf("case=%d;%s", idx, vk.JSON(regs)) }
		rt := NewRouter().(*patRouter)
		var routes []c03Route
		for _, reg := range regs {
			if reg.NilHandler || !c03Valid[reg.Method] || len(reg.Pattern) == 0 || reg.Pattern[0] != '/' {
				continue
			}
			id := len(routes)
			err := rt.Handle(reg.Method, reg.Pattern, http.HandlerFunc(func(w http.ResponseWriter, r *http.Request) {
				vars := pathvar.Vars(r)
				var kv []string
				for k, v := range vars {
					kv = append(kv, k+"="+v)
				}
				sort.Strings(kv)
				w.Header().Set("X-C03-Id", fmt.Sprint(id))
				w.Header().Set("X-C03-Vars", strings.Join(kv, "&"))
				w.WriteHeader(299)
			}))
			if err != nil {
				continue // duplicates; acceptance itself is judged by the sequential family
			}
			cleaned := path.Clean(reg.Pattern)
			routes = append(routes, c03Route{method: reg.Method, pattern: cleaned, segs: c03Segs(cleaned), id: id})
		}
		for i := range reqs {
			w := &reqs[i]
			segs := c03Segs(path.Clean(w.p))
			w.ids, w.literal = map[int]bool{}, -1
			others := map[string]bool{}
			for _, rt := range routes {
				if _, ok := c03Match(rt.segs, segs); ok {
					if rt.method == w.method {
						w.ids[rt.id] = true
						if c03AllLiteral(rt.segs) {
							w.literal = rt.id
						}
					} else {
						others[rt.method] = true
					}
				}
			}
			switch {
			case len(w.ids) > 0:
			case len(others) > 0:
				w.status, w.allow = http.StatusMethodNotAllowed, strings.Join(c03Keys(others), ",")
			default:
				w.status = http.StatusNotFound
			}
		}
		const workers = 8
		var wg sync.WaitGroup
		type bad struct{ sig, msg string }
		bads := make([][]bad, workers)
		start := make(chan struct{})
		for g := 0; g < workers; g++ {
			wg.Add(1)
			go func(g int) {
				defer wg.Done()
				<-start
				for round := 0; round < 3; round++ {
					for i := g; i < len(reqs); i += 1 + g%3 { // overlapping, differently strided walks over the batch
						w := reqs[i]
						req, _ := http.NewRequest(w.method, "http://c03.local/", nil)
						req.URL = &url.URL{Scheme: "http", Host: "c03.local", Path: w.p}
						rec := httptest.NewRecorder()
						if pv, panicked := vk.Recover(func() { rt.ServeHTTP(rec, req) }); panicked {
							bads[g] = append(bads[g], bad{"C03:router-panic", fmt.Sprintf("%s %q: ServeHTTP panicked while other requests were served: %v", w.method, w.p, pv)})
							return
						}
						gotID := rec.Header().Get("X-C03-Id")
						if len(w.ids) > 0 {
							var id int
							if _, err := fmt.Sscan(gotID, &id); err != nil || !w.ids[id] {
								bads[g] = append(bads[g], bad{"C03:concurrent:wrong-handler", fmt.Sprintf("%s %q: handler %q ran (status %d), want one of %v", w.method, w.p, gotID, rec.Code, w.ids)})
								continue
							}
							if w.literal >= 0 && id != w.literal {
								bads[g] = append(bads[g], bad{"C03:concurrent:literal-pattern-lost", fmt.Sprintf("%s %q: handler %d ran, the all-literal match is %d", w.method, w.p, id, w.literal)})
								continue
							}
							var want []string
							vars, _ := c03Match(routes[id].segs, c03Segs(path.Clean(w.p)))
							for k, v := range vars {
								want = append(want, k+"="+v)
							}
							sort.Strings(want)
							if got := rec.Header().Get("X-C03-Vars"); got != strings.Join(want, "&") {
								bads[g] = append(bads[g], bad{"C03:concurrent:wrong-path-vars", fmt.Sprintf("%s %q via %s: vars %q, want %q", w.method, w.p, routes[id].pattern, got, strings.Join(want, "&"))})
							}
							continue
						}
						if gotID != "" {
							bads[g] = append(bads[g], bad{"C03:concurrent:handler-ran-without-matching-route", fmt.Sprintf("%s %q: handler %s ran", w.method, w.p, gotID)})
							continue
						}
						if rec.Code != w.status {
							bads[g] = append(bads[g], bad{fmt.Sprintf("C03:concurrent:expected-%d", w.status), fmt.Sprintf("%s %q: status %d, want %d", w.method, w.p, rec.Code, w.status)})
							continue
						}
						if w.status == http.StatusMethodNotAllowed {
							var got []string
							for _, a := range strings.Split(rec.Header().Get("Allow"), ",") {
								if a = strings.TrimSpace(a); a != "" {
									got = append(got, a)
								}
							}
							sort.Strings(got)
							if strings.Join(got, ",") != w.allow {
								bads[g] = append(bads[g], bad{"C03:concurrent:allow-header-wrong", fmt.Sprintf("%s %q: Allow %q while other requests were served, want exactly %q", w.method, w.p, rec.Header().Get("Allow"), w.allow)})
							}
						}
					}
				}
			}(g)
		}
		close(start)
		wg.Wait()
		for _, bs := range bads {
			for i, b := range bs {
				if i < 2 {
					m.Violate(b.sig, desc(), "%s", b.msg)
				}
			}
		}
		for _, w := range reqs {
			served++
			switch {
			case len(w.ids) > 0:
				nmatch++
			case w.status == http.StatusMethodNotAllowed:
				n405++
			default:
				n404++
			}
		}
		m.Case(vk.Digest(vk.JSON(regs), "concurrent"), true)
	}
	m.Count("concurrent_batch_requests", served)
	m.Count("concurrent_batch_matching", nmatch)
	m.Count("concurrent_batch_405", n405)
	m.Count("concurrent_batch_404", n404)
}
