//go:build verif

package api

// C04 — authentication gates, JWT part (DESIGN.md §3 C04).
//
// Oracle: c04VerifyJWT below — an independent HS256/384/512 verifier written with
// crypto/hmac + encoding/base64 + encoding/json only (no jwt library). Every
// generated Authorization header carries the verdict the generator intended; the
// verifier recomputes the verdict from the header bytes alone and the two must
// agree (harness self-check) before the gate under test is consulted.
// Layers: handler.Authorize called directly, and the chain composed by
// engine.appendAuthHandler behind the real router on an httptest server.
// Everything is sequential (Parser.history counters are not goroutine-safe by
// design of the code under test; that race is outside C04).

import (
	"bytes"
	"context"
	"crypto/hmac"
	"crypto/sha256"
	"crypto/sha512"
	"encoding/base64"
	"encoding/json"
	"fmt"
	"hash"
	"io"
	"math/rand"
	"net/http"
	"net/http/httptest"
	"reflect"
	"sort"
	"strings"
	"sync"
	"sync/atomic"
	"testing"
	"time"

	"github.com/golang-jwt/jwt/v4"
	"github.com/gotid/god/api/chain"
	"github.com/gotid/god/api/handler"
	"github.com/gotid/god/api/token"
	"github.com/gotid/god/lib/logx"
	"github.com/gotid/god/lib/timex"
	"verif.local/vk"
)

// ---------------------------------------------------------------------------
// observation of the protected handler

type c04Obs struct {
	mu   sync.Mutex
	ran  int
	req  *http.Request
	body []byte
	cb   int // unauthorized / unsigned callback invocations
	mw   int // invocations of a middleware registered with Server.Use
}

func (o *c04Obs) reset() {
	o.mu.Lock()
	o.ran, o.req, o.body, o.cb, o.mw = 0, nil, nil, 0, 0
	o.mu.Unlock()
}

func (o *c04Obs) snapshot() (ran int, req *http.Request, body []byte, cb int) {
	o.mu.Lock()
	defer o.mu.Unlock()
	return o.ran, o.req, o.body, o.cb
}

func (o *c04Obs) inner() http.HandlerFunc {
	return func(w http.ResponseWriter, r *http.Request) {
		var body []byte
		if r.Body != nil {
			body, _ = io.ReadAll(r.Body)
		}
		o.mu.Lock()
		o.ran++
		o.req = r
		o.body = body
		o.mu.Unlock()
		w.Header().Set("X-C04-Ran", "1")
		w.WriteHeader(http.StatusOK)
		_, _ = w.Write([]byte("ok"))
	}
}

// ---------------------------------------------------------------------------
// own JWT encoder (for generation) and own verifier (the oracle)

var c04Registered = map[string]bool{"aud": true, "exp": true, "jti": true, "iat": true, "iss": true, "nbf": true, "sub": true}

func c04HashFor(alg string) func() hash.Hash {
	switch alg {
	case "HS256":
		return sha256.New
	case "HS384":
		return sha512.New384
	case "HS512":
		return sha512.New
	}
	return nil
}

func c04Mac(alg string, key []byte, input string) []byte {
	mac := hmac.New(c04HashFor(alg), key)
	mac.Write([]byte(input))
	return mac.Sum(nil)
}

func c04B64(b []byte) string { return base64.RawURLEncoding.EncodeToString(b) }

func c04Compact(headerJSON, payloadJSON []byte, sig []byte) string {
	return c04B64(headerJSON) + "." + c04B64(payloadJSON) + "." + c04B64(sig)
}

const (
	c04Reject     = 0
	c04Admit      = 1
	c04Unasserted = -1
)

const c04TimeMargin = 3600 // seconds every generated time claim keeps from "now"

// c04VerifyJWT decides, from the Authorization header value alone, whether a
// JWT-protected route must admit the request. It returns the verdict, the
// non-registered claims (when admitted) and a reason.
func c04VerifyJWT(auth string, hasAuth bool, secret, prev string, now int64) (verdict int, custom map[string]any, why string) {
	if !hasAuth || auth == "" {
		return c04Reject, nil, "no-authorization-header"
	}
	if len(auth) > 7 && !strings.HasPrefix(auth, "Bearer ") && strings.EqualFold(auth[:7], "Bearer ") {
		// scheme names are case-insensitive in RFC 7235, "Bearer" is what RFC 6750 writes: either
		// answer is defensible, so only a token that could not be admitted anyway is asserted
		if v, _, _ := c04VerifyToken(auth[7:], secret, prev, now); v != c04Reject {
			return c04Unasserted, nil, "valid-token-with-bearer-prefix-in-other-case"
		}
		return c04Reject, nil, "invalid-token-with-bearer-prefix-in-other-case"
	}
	if !strings.HasPrefix(auth, "Bearer ") {
		// not a bearer credential. A raw JWT without the prefix is accepted by the
		// extractor of the library in use: library-defined, not asserted.
		if v, _, _ := c04VerifyToken(auth, secret, prev, now); v != c04Reject {
			return c04Unasserted, nil, "valid-token-without-bearer-prefix"
		}
		return c04Reject, nil, "not-bearer"
	}
	return c04VerifyToken(auth[len("Bearer "):], secret, prev, now)
}

func c04Num(v any) (float64, bool) {
	n, ok := v.(json.Number)
	if !ok {
		return 0, false
	}
	f, err := n.Float64()
	return f, err == nil
}

func c04VerifyToken(tok, secret, prev string, now int64) (int, map[string]any, string) {
	parts := strings.Split(tok, ".")
	if len(parts) != 3 {
		return c04Reject, nil, "not-three-segments"
	}
	var raw [3][]byte
	for i, p := range parts {
		b, err := base64.RawURLEncoding.DecodeString(p)
		if err != nil {
			return c04Reject, nil, "segment-not-base64url"
		}
		raw[i] = b
	}
	var hdr map[string]any
	if err := json.Unmarshal(raw[0], &hdr); err != nil || hdr == nil {
		return c04Reject, nil, "header-not-json-object"
	}
	alg, _ := hdr["alg"].(string)
	if c04HashFor(alg) == nil {
		return c04Reject, nil, "alg-not-hmac"
	}
	signingInput := parts[0] + "." + parts[1]
	sigOK := hmac.Equal(raw[2], c04Mac(alg, []byte(secret), signingInput))
	if !sigOK && prev != "" {
		sigOK = hmac.Equal(raw[2], c04Mac(alg, []byte(prev), signingInput))
	}
	if !sigOK {
		return c04Reject, nil, "signature-mismatch"
	}
	// correctly signed from here on
	var claims map[string]any
	dec := json.NewDecoder(bytes.NewReader(raw[1]))
	dec.UseNumber()
	if err := dec.Decode(&claims); err != nil || claims == nil {
		return c04Unasserted, nil, "signed-payload-not-a-json-object"
	}
	unasserted := ""
	for _, k := range []string{"exp", "nbf", "iat"} {
		v, present := claims[k]
		if !present {
			continue
		}
		f, ok := c04Num(v)
		if !ok {
			return c04Unasserted, nil, "time-claim-not-numeric"
		}
		d := f - float64(now)
		if d > -c04TimeMargin+60 && d < c04TimeMargin-60 {
			return c04Unasserted, nil, "time-claim-too-close-to-now"
		}
		switch k {
		case "exp":
			if d < 0 {
				return c04Reject, nil, "expired"
			}
		case "nbf":
			if d > 0 {
				return c04Reject, nil, "not-yet-valid"
			}
		case "iat":
			if d > 0 {
				// RFC 7519 does not require rejecting it; jwt/v4 does, v5 does not
				unasserted = "iat-in-future"
			}
		}
	}
	if unasserted != "" {
		return c04Unasserted, nil, unasserted
	}
	custom := map[string]any{}
	for k, v := range claims {
		if !c04Registered[k] {
			custom[k] = v
		}
	}
	return c04Admit, custom, "valid"
}

// ---------------------------------------------------------------------------
// generator

type c04JwtCase struct {
	Class  string `json:"class"`
	Auth   string `json:"auth"`
	HasHdr bool   `json:"has_header"`
	Want   int    `json:"want"` // generator's intent: 1 admit, 0 reject, -1 unasserted
	// Carrier/Token: a (valid) token placed somewhere else than the Authorization header
	Carrier string `json:"carrier,omitempty"`
	Token   string `json:"token,omitempty"`
}

var c04Carriers = []string{"query-access_token", "form-access_token", "query-token", "cookie-access_token", "cookie-authorization",
	"header-x-access-token", "header-proxy-authorization", "header-access_token", "header-x-authorization"}

// c04ApplyCarrier puts the token where the carrier says (never into Authorization).
func c04ApplyCarrier(req *http.Request, carrier, tok string) {
	switch carrier {
	case "":
	case "query-access_token", "query-token":
		q := req.URL.Query()
		q.Set(strings.TrimPrefix(carrier, "query-"), tok)
		req.URL.RawQuery = q.Encode()
	case "form-access_token":
		body := "access_token=" + tok + "&x=1"
		req.Method = http.MethodPost
		req.Body = io.NopCloser(strings.NewReader(body))
		req.GetBody = func() (io.ReadCloser, error) { return io.NopCloser(strings.NewReader(body)), nil }
		req.ContentLength = int64(len(body))
		req.Header.Set("Content-Type", "application/x-www-form-urlencoded")
	case "cookie-access_token":
		req.AddCookie(&http.Cookie{Name: "access_token", Value: tok})
	case "cookie-authorization":
		req.AddCookie(&http.Cookie{Name: "Authorization", Value: tok})
	case "header-x-access-token":
		req.Header.Set("X-Access-Token", tok)
	case "header-proxy-authorization":
		req.Header.Set("Proxy-Authorization", "Bearer "+tok)
	case "header-access_token":
		req.Header.Set("access_token", tok)
	case "header-x-authorization":
		req.Header.Set("X-Authorization", "Bearer "+tok)
	default:
		panic("c04: unknown carrier " + carrier)
	}
}

const c04Alnum = "abcdefghijklmnopqrstuvwxyzABCDEFGHIJKLMNOPQRSTUVWXYZ0123456789"

func c04RandStr(r *rand.Rand, min, max int, alphabet string) string {
	n := min
	if max > min {
		n += r.Intn(max - min + 1)
	}
	rs := []rune(alphabet)
	var sb strings.Builder
	for i := 0; i < n; i++ {
		sb.WriteRune(rs[r.Intn(len(rs))])
	}
	return sb.String()
}

func c04RandSecret(r *rand.Rand) string {
	switch r.Intn(4) {
	case 0:
		return c04RandStr(r, 8, 12, c04Alnum)
	case 1:
		return c04RandStr(r, 8, 64, c04Alnum+"-_.!#$%&*+/=?^{|}~ ")
	case 2:
		return c04RandStr(r, 8, 24, c04Alnum+"密钥üñ")
	default:
		return c04RandStr(r, 32, 40, "0123456789ABCDEF-")
	}
}

func c04RandValue(r *rand.Rand, depth int) any {
	switch k := r.Intn(7); {
	case k == 0:
		return c04RandStr(r, 0, 20, c04Alnum+" -_/:@çλ")
	case k == 1:
		return int64(r.Intn(2_000_001) - 1_000_000)
	case k == 2:
		return float64(r.Intn(100000)) + 0.25
	case k == 3:
		return r.Intn(2) == 0
	case k == 4 && depth < 2:
		n := r.Intn(4)
		a := make([]any, 0, n)
		for i := 0; i < n; i++ {
			a = append(a, c04RandValue(r, depth+1))
		}
		return a
	case k == 5 && depth < 2:
		n := r.Intn(3)
		mm := map[string]any{}
		for i := 0; i < n; i++ {
			mm[c04RandStr(r, 1, 6, c04Alnum)] = c04RandValue(r, depth+1)
		}
		return mm
	default:
		return c04RandStr(r, 1, 12, c04Alnum)
	}
}

var c04ClaimNames = []string{"userId", "uid", "role", "tenant", "scope", "name", "payload", "admin", "Exp", "expire", "id"}

func c04RandClaims(r *rand.Rand) map[string]any {
	c := map[string]any{}
	n := r.Intn(5)
	for i := 0; i < n; i++ {
		var k string
		if r.Intn(3) == 0 {
			k = c04RandStr(r, 1, 10, c04Alnum+"_-. ")
		} else {
			k = c04ClaimNames[r.Intn(len(c04ClaimNames))]
		}
		if c04Registered[k] {
			continue
		}
		c[k] = c04RandValue(r, 0)
	}
	// registered non-time claims ride along (nothing is asserted about them)
	if r.Intn(3) == 0 {
		c["sub"] = c04RandStr(r, 1, 8, c04Alnum)
	}
	if r.Intn(4) == 0 {
		c["iss"] = "issuer-" + c04RandStr(r, 1, 4, c04Alnum)
	}
	if r.Intn(5) == 0 {
		c["jti"] = c04RandStr(r, 8, 8, c04Alnum)
	}
	if r.Intn(6) == 0 {
		c["aud"] = "aud-" + c04RandStr(r, 1, 4, c04Alnum)
	}
	return c
}

func c04Far(r *rand.Rand) int64 { // a distance from now of 1 h … ~3 years
	switch r.Intn(4) {
	case 0:
		return c04TimeMargin + int64(r.Intn(600))
	case 1:
		return c04TimeMargin + int64(r.Intn(86400))
	case 2:
		return 86400 * int64(1+r.Intn(60))
	default:
		return 86400 * int64(30+r.Intn(1000))
	}
}

func c04TimeVal(r *rand.Rand, t int64) any {
	if r.Intn(5) == 0 {
		return float64(t) + 0.5
	}
	return t
}

// good time claims: exp in the future (mostly present), nbf/iat in the past (sometimes)
func c04GoodTimes(r *rand.Rand, c map[string]any, now int64) {
	if r.Intn(12) != 0 {
		c["exp"] = c04TimeVal(r, now+c04Far(r))
	}
	if r.Intn(3) == 0 {
		c["nbf"] = c04TimeVal(r, now-c04Far(r))
	}
	if r.Intn(2) == 0 {
		c["iat"] = c04TimeVal(r, now-c04Far(r))
	}
}

func c04HeaderJSON(r *rand.Rand, alg any) []byte {
	switch r.Intn(4) {
	case 0:
		b, _ := json.Marshal(map[string]any{"alg": alg})
		return b
	case 1:
		b, _ := json.Marshal(map[string]any{"alg": alg, "typ": "JWT", "kid": c04RandStr(r, 1, 6, c04Alnum)})
		return b
	case 2:
		a, _ := json.Marshal(alg)
		return []byte(`{"typ":"JWT","alg":` + string(a) + `}`)
	default:
		a, _ := json.Marshal(alg)
		return []byte(`{"alg":` + string(a) + `,"typ":"JWT"}`)
	}
}

var c04HS = []string{"HS256", "HS256", "HS384", "HS512"}

func c04SignedToken(r *rand.Rand, alg, key string, claims map[string]any) string {
	h := c04HeaderJSON(r, alg)
	p, _ := json.Marshal(claims)
	in := c04B64(h) + "." + c04B64(p)
	return in + "." + c04B64(c04Mac(alg, []byte(key), in))
}

// c04GenJwt produces one Authorization header of the requested class.
func c04GenJwt(r *rand.Rand, class, secret, prev string, now int64) c04JwtCase {
	alg := c04HS[r.Intn(len(c04HS))]
	claims := c04RandClaims(r)
	other := c04RandSecret(r)
	for other == secret || other == prev {
		other = c04RandSecret(r)
	}
	bearer := func(tok string, want int) c04JwtCase {
		return c04JwtCase{Class: class, Auth: "Bearer " + tok, HasHdr: true, Want: want}
	}
	switch class {
	case "valid-secret":
		c04GoodTimes(r, claims, now)
		return bearer(c04SignedToken(r, alg, secret, claims), c04Admit)
	case "valid-prev": // when no prevSecret is configured this must be rejected
		c04GoodTimes(r, claims, now)
		if prev == "" {
			class = "signed-with-unconfigured-prev"
			return bearer(c04SignedToken(r, alg, other, claims), c04Reject)
		}
		return bearer(c04SignedToken(r, alg, prev, claims), c04Admit)
	case "valid-no-time-claims":
		return bearer(c04SignedToken(r, alg, secret, claims), c04Admit)
	case "wrong-secret":
		c04GoodTimes(r, claims, now)
		key := other
		switch r.Intn(4) {
		case 0:
			key = secret + "x"
		case 1:
			key = secret[:len(secret)-1]
		case 2:
			key = ""
		}
		return bearer(c04SignedToken(r, alg, key, claims), c04Reject)
	case "alg-none":
		c04GoodTimes(r, claims, now)
		name := []string{"none", "None", "NONE"}[r.Intn(3)]
		h := c04HeaderJSON(r, name)
		p, _ := json.Marshal(claims)
		var sig []byte
		if r.Intn(2) == 0 {
			sig = c04Mac("HS256", []byte(secret), c04B64(h)+"."+c04B64(p))
		}
		return bearer(c04Compact(h, p, sig), c04Reject)
	case "alg-asymmetric-with-hmac-bytes":
		c04GoodTimes(r, claims, now)
		name := []string{"RS256", "RS384", "RS512", "ES256", "ES384", "ES512", "PS256", "PS512", "EdDSA"}[r.Intn(9)]
		h := c04HeaderJSON(r, name)
		p, _ := json.Marshal(claims)
		sig := c04Mac(alg, []byte(secret), c04B64(h)+"."+c04B64(p))
		return bearer(c04Compact(h, p, sig), c04Reject)
	case "alg-unknown":
		c04GoodTimes(r, claims, now)
		var name any
		switch r.Intn(5) {
		case 0:
			name = "hs256"
		case 1:
			name = "HS128"
		case 2:
			name = ""
		case 3:
			name = 256
		default:
			name = "HMAC"
		}
		h := c04HeaderJSON(r, name)
		if r.Intn(6) == 0 {
			h = []byte(`{"typ":"JWT"}`)
		}
		p, _ := json.Marshal(claims)
		sig := c04Mac("HS256", []byte(secret), c04B64(h)+"."+c04B64(p))
		return bearer(c04Compact(h, p, sig), c04Reject)
	case "alg-mismatch": // header says one HMAC, bytes are another
		c04GoodTimes(r, claims, now)
		pairs := [][2]string{{"HS256", "HS512"}, {"HS512", "HS256"}, {"HS384", "HS256"}, {"HS256", "HS384"}}
		pr := pairs[r.Intn(len(pairs))]
		h := c04HeaderJSON(r, pr[0])
		p, _ := json.Marshal(claims)
		sig := c04Mac(pr[1], []byte(secret), c04B64(h)+"."+c04B64(p))
		return bearer(c04Compact(h, p, sig), c04Reject)
	case "expired":
		c04GoodTimes(r, claims, now)
		claims["exp"] = c04TimeVal(r, now-c04Far(r))
		key := secret
		if prev != "" && r.Intn(2) == 0 {
			key = prev
		}
		return bearer(c04SignedToken(r, alg, key, claims), c04Reject)
	case "not-yet-valid":
		c04GoodTimes(r, claims, now)
		d := c04Far(r)
		claims["nbf"] = c04TimeVal(r, now+d)
		if _, ok := claims["exp"]; ok {
			claims["exp"] = c04TimeVal(r, now+d+c04Far(r))
		}
		delete(claims, "iat")
		key := secret
		if prev != "" && r.Intn(2) == 0 {
			key = prev
		}
		return bearer(c04SignedToken(r, alg, key, claims), c04Reject)
	case "iat-in-future":
		c04GoodTimes(r, claims, now)
		claims["iat"] = c04TimeVal(r, now+c04Far(r))
		return bearer(c04SignedToken(r, alg, secret, claims), c04Unasserted)
	case "sig-bitflip", "sig-truncated", "sig-extended", "sig-empty":
		c04GoodTimes(r, claims, now)
		key := secret
		if prev != "" && r.Intn(2) == 0 {
			key = prev
		}
		h := c04HeaderJSON(r, alg)
		p, _ := json.Marshal(claims)
		sig := c04Mac(alg, []byte(key), c04B64(h)+"."+c04B64(p))
		switch class {
		case "sig-bitflip": // on the decoded bytes: base64 text can carry ignored trailing bits
			sig[r.Intn(len(sig))] ^= byte(1 << uint(r.Intn(8)))
		case "sig-truncated":
			sig = sig[:r.Intn(len(sig))]
		case "sig-extended":
			sig = append(sig, byte(r.Intn(256)))
		case "sig-empty":
			sig = nil
		}
		return bearer(c04Compact(h, p, sig), c04Reject)
	case "payload-tampered": // a valid token whose payload was edited afterwards
		c04GoodTimes(r, claims, now)
		key := secret
		if prev != "" && r.Intn(2) == 0 {
			key = prev
		}
		h := c04HeaderJSON(r, alg)
		p, _ := json.Marshal(claims)
		sig := c04Mac(alg, []byte(key), c04B64(h)+"."+c04B64(p))
		claims["role"] = "admin-" + c04RandStr(r, 3, 6, c04Alnum)
		claims["exp"] = now + 10*86400 + int64(r.Intn(1000))
		p2, _ := json.Marshal(claims)
		if bytes.Equal(p, p2) {
			p2 = append([]byte(`{"x":1,`), p[1:]...)
		}
		return bearer(c04Compact(h, p2, sig), c04Reject)
	case "header-tampered":
		c04GoodTimes(r, claims, now)
		h := []byte(`{"alg":"` + alg + `","typ":"JWT"}`)
		p, _ := json.Marshal(claims)
		sig := c04Mac(alg, []byte(secret), c04B64(h)+"."+c04B64(p))
		h2 := []byte(`{"alg":"` + alg + `","typ":"JWT","kid":"` + c04RandStr(r, 1, 5, c04Alnum) + `"}`)
		return bearer(c04Compact(h2, p, sig), c04Reject)
	case "other-tokens-signature": // signature of another valid token from the same issuer
		c04GoodTimes(r, claims, now)
		t1 := c04SignedToken(r, alg, secret, claims)
		c2 := c04RandClaims(r)
		c2["exp"] = now + c04Far(r)
		c2["n"] = r.Int63()
		t2 := c04SignedToken(r, alg, secret, c2)
		p1, p2 := strings.Split(t1, "."), strings.Split(t2, ".")
		return bearer(p2[0]+"."+p2[1]+"."+p1[2], c04Reject)
	case "segments":
		c04GoodTimes(r, claims, now)
		t := c04SignedToken(r, alg, secret, claims)
		p := strings.Split(t, ".")
		switch r.Intn(5) {
		case 0:
			return bearer(p[0]+"."+p[1], c04Reject)
		case 1:
			return bearer(t+"."+p[2], c04Reject)
		case 2:
			return bearer(p[0]+".."+p[2], c04Reject)
		case 3:
			return bearer("."+p[1]+"."+p[2], c04Reject)
		default:
			return bearer(p[1]+"."+p[0]+"."+p[2], c04Reject)
		}
	case "garbage":
		switch r.Intn(5) {
		case 0:
			return bearer(c04RandStr(r, 1, 80, c04Alnum+"-_"), c04Reject)
		case 1:
			return bearer(c04RandStr(r, 1, 20, c04Alnum)+"."+c04RandStr(r, 1, 20, c04Alnum)+"."+c04RandStr(r, 1, 20, c04Alnum), c04Reject)
		case 2:
			return bearer(c04B64([]byte("not json"))+"."+c04B64([]byte("{}"))+"."+c04B64([]byte("sig")), c04Reject)
		case 3:
			return bearer(c04RandStr(r, 5, 60, c04Alnum+"!*()@,:;[]{}'?"), c04Reject)
		default:
			return bearer("a.b.c", c04Reject)
		}
	case "no-header":
		return c04JwtCase{Class: class, HasHdr: false, Want: c04Reject}
	case "valid-token-outside-authorization-header":
		// the gate reads the Authorization header: a token carried elsewhere is "no bearer token"
		c04GoodTimes(r, claims, now)
		key := secret
		if prev != "" && r.Intn(3) == 0 {
			key = prev
		}
		c := c04JwtCase{Class: class, Want: c04Reject, Carrier: c04Carriers[r.Intn(len(c04Carriers))], Token: c04SignedToken(r, alg, key, claims)}
		class = class + ":" + c.Carrier
		c.Class = class
		if r.Intn(4) == 0 { // ... also when the Authorization header is there but worthless
			c.HasHdr, c.Auth = true, "Bearer "+c04SignedToken(r, alg, other, claims)
			c.Class += "+invalid-authorization-header"
		}
		return c
	case "other-scheme":
		c04GoodTimes(r, claims, now)
		t := c04SignedToken(r, alg, secret, claims)
		switch r.Intn(3) {
		case 0:
			return c04JwtCase{Class: class, Auth: "Basic " + base64.StdEncoding.EncodeToString([]byte("user:"+secret)), HasHdr: true, Want: c04Reject}
		case 1:
			return c04JwtCase{Class: class, Auth: "Token " + t, HasHdr: true, Want: c04Reject}
		default:
			return c04JwtCase{Class: class, Auth: "Bearer", HasHdr: true, Want: c04Reject}
		}
	case "bearer-prefix-other-case": // valid token: not asserted; invalid token: must be rejected
		c04GoodTimes(r, claims, now)
		pre := []string{"bearer ", "BEARER ", "bEaReR "}[r.Intn(3)]
		if r.Intn(2) == 0 {
			return c04JwtCase{Class: class, Auth: pre + c04SignedToken(r, alg, secret, claims), HasHdr: true, Want: c04Unasserted}
		}
		class = "bearer-prefix-other-case-invalid-token"
		return c04JwtCase{Class: class, Auth: pre + c04SignedToken(r, alg, other, claims), HasHdr: true, Want: c04Reject}
	case "no-bearer-prefix": // library-defined: not asserted
		c04GoodTimes(r, claims, now)
		return c04JwtCase{Class: class, Auth: c04SignedToken(r, alg, secret, claims), HasHdr: true, Want: c04Unasserted}
	case "signed-non-object-payload": // not asserted
		h := c04HeaderJSON(r, alg)
		p := []byte([]string{`[1,2,3]`, `"str"`, `42`, `null`}[r.Intn(4)])
		sig := c04Mac(alg, []byte(secret), c04B64(h)+"."+c04B64(p))
		return bearer(c04Compact(h, p, sig), c04Unasserted)
	}
	panic("c04: unknown class " + class)
}

type c04Weighted struct {
	class string
	w     int
}

var c04InvalidClasses = []c04Weighted{
	{"wrong-secret", 8}, {"alg-none", 5}, {"alg-asymmetric-with-hmac-bytes", 5}, {"alg-unknown", 3},
	{"alg-mismatch", 3}, {"expired", 8}, {"not-yet-valid", 6}, {"sig-bitflip", 6}, {"sig-truncated", 3},
	{"sig-extended", 2}, {"sig-empty", 2}, {"payload-tampered", 6}, {"header-tampered", 2},
	{"other-tokens-signature", 3}, {"segments", 3}, {"garbage", 4}, {"no-header", 3}, {"valid-token-outside-authorization-header", 6}, {"other-scheme", 3},
	{"iat-in-future", 2}, {"no-bearer-prefix", 1}, {"bearer-prefix-other-case", 2}, {"signed-non-object-payload", 1},
}

func c04Pick(r *rand.Rand, ws []c04Weighted) string {
	tot := 0
	for _, w := range ws {
		tot += w.w
	}
	x := r.Intn(tot)
	for _, w := range ws {
		if x < w.w {
			return w.class
		}
		x -= w.w
	}
	return ws[0].class
}

// c04JwtSequence builds the classes of one request history: phases biased to the
// current secret, to the previous secret, mixed, or invalid-heavy, so that the
// parser's per-secret hit counters overtake each other several times.
func c04JwtSequence(r *rand.Rand, n int) []string {
	var out []string
	for len(out) < n {
		phase := r.Intn(4)
		plen := 3 + r.Intn(40)
		for i := 0; i < plen && len(out) < n; i++ {
			x := r.Intn(100)
			var cls string
			switch phase {
			case 0: // new secret dominates
				switch {
				case x < 65:
					cls = "valid-secret"
				case x < 72:
					cls = "valid-prev"
				case x < 75:
					cls = "valid-no-time-claims"
				default:
					cls = c04Pick(r, c04InvalidClasses)
				}
			case 1: // previous secret dominates
				switch {
				case x < 65:
					cls = "valid-prev"
				case x < 72:
					cls = "valid-secret"
				default:
					cls = c04Pick(r, c04InvalidClasses)
				}
			case 2: // strict alternation
				switch {
				case x < 80 && i%2 == 0:
					cls = "valid-secret"
				case x < 80:
					cls = "valid-prev"
				default:
					cls = c04Pick(r, c04InvalidClasses)
				}
			default: // attack-heavy
				switch {
				case x < 10:
					cls = "valid-secret"
				case x < 20:
					cls = "valid-prev"
				default:
					cls = c04Pick(r, c04InvalidClasses)
				}
			}
			out = append(out, cls)
		}
	}
	return out
}

// ---------------------------------------------------------------------------
// comparison of claims seen in the request context with the signed ones

func c04Canon(v any) any {
	b, err := json.Marshal(v)
	if err != nil {
		return fmt.Sprintf("unmarshalable:%T", v)
	}
	var out any
	if err := json.Unmarshal(b, &out); err != nil {
		return fmt.Sprintf("unparsable:%s", b)
	}
	return out
}

func c04CheckClaims(req *http.Request, custom map[string]any) (bad string) {
	if req == nil {
		return "no request captured"
	}
	keys := make([]string, 0, len(custom))
	for k := range custom {
		keys = append(keys, k)
	}
	sort.Strings(keys)
	for _, k := range keys {
		got := req.Context().Value(k)
		if got == nil {
			return fmt.Sprintf("claim %q (signed value %s) is not in the request context", k, vk.JSON(custom[k]))
		}
		if !reflect.DeepEqual(c04Canon(got), c04Canon(custom[k])) {
			return fmt.Sprintf("claim %q: context has %s (%T), token has %s", k, vk.JSON(got), got, vk.JSON(custom[k]))
		}
	}
	return ""
}

// ---------------------------------------------------------------------------
// one gate = one (secret, prevSecret) configuration + a way to send a request

type c04JwtGate struct {
	// virtual, when set, makes the sequence runner advance the timex clock (which only
	// Parser.history's reset reads) by the returned amount before some steps
	virtual func(r *rand.Rand) time.Duration
	// source, when set, supplies the request of each step and the (virtual, jwt.TimeFunc)
	// time at which it is presented, instead of a freshly generated token at time.Now()
	source func(step int, label string) (c04JwtCase, int64)
	// cur is the case being sent (gates consult its Carrier/Token)
	cur   c04JwtCase
	layer string
	// wantCallback: an unauthorized callback is configured and must run once per rejection
	wantCallback bool
	secret       string
	prev         string
	obs          *c04Obs
	// do sends one request with the given Authorization header (hasHdr=false: none)
	do    func(auth string, hasHdr bool) (status int, err error)
	close func()
}

// callback: 0 none, 1 records and sets a header, 2 additionally answers itself (401 + body),
// the way the repository's own test callback does.
func c04HandlerGate(secret, prev string, callback int) *c04JwtGate {
	obs := &c04Obs{}
	var opts []handler.AuthorizeOption
	if prev != "" {
		opts = append(opts, handler.WithPrevSecret(prev))
	}
	if callback > 0 {
		opts = append(opts, handler.WithUnauthorizedCallback(func(w http.ResponseWriter, r *http.Request, err error) {
			obs.mu.Lock()
			obs.cb++
			if err == nil {
				obs.cb += 1000 // the callback must be told why
			}
			obs.mu.Unlock()
			w.Header().Set("X-C04-Unauthorized", "1")
			if callback == 2 {
				w.WriteHeader(http.StatusUnauthorized)
				_, _ = w.Write([]byte("denied"))
			}
		}))
	}
	h := handler.Authorize(secret, opts...)(obs.inner())
	g := &c04JwtGate{layer: "handler", secret: secret, prev: prev, obs: obs, close: func() {}}
	g.do = func(auth string, hasHdr bool) (int, error) {
		req := httptest.NewRequest(http.MethodGet, "http://localhost/c04/jwt?x=1", http.NoBody)
		if hasHdr {
			req.Header.Set("Authorization", auth)
		}
		c04ApplyCarrier(req, g.cur.Carrier, g.cur.Token)
		rec := httptest.NewRecorder()
		h.ServeHTTP(rec, req)
		return rec.Code, nil
	}
	return g
}

// c04ParserGate drives token.Parser.ParseToken itself (the mechanism Authorize relies on)
// with a custom reset duration: "admitted" = nil error and tok.Valid, the two things
// Authorize looks at; the claims are handed to the observation through a context the
// same way Authorize does it, so the common checker can be used.
func c04ParserGate(secret, prev string, reset time.Duration) *c04JwtGate {
	obs := &c04Obs{}
	p := token.NewParser(token.WithResetDuration(reset))
	inner := obs.inner()
	var g *c04JwtGate
	g = &c04JwtGate{layer: "parser", secret: secret, prev: prev, obs: obs, close: func() {},
		do: func(auth string, hasHdr bool) (int, error) {
			req := httptest.NewRequest(http.MethodGet, "http://localhost/c04/parser", http.NoBody)
			if hasHdr {
				req.Header.Set("Authorization", auth)
			}
			c04ApplyCarrier(req, g.cur.Carrier, g.cur.Token)
			rec := httptest.NewRecorder()
			tok, err := p.ParseToken(req, secret, prev)
			if err != nil || tok == nil || !tok.Valid {
				rec.WriteHeader(http.StatusUnauthorized)
				return rec.Code, nil
			}
			ctx := req.Context()
			if mc, ok := tok.Claims.(jwt.MapClaims); ok {
				for k, v := range mc {
					ctx = context.WithValue(ctx, k, v)
				}
			}
			inner(rec, req.WithContext(ctx))
			return rec.Code, nil
		}}
	return g
}

// c04NewServer builds a Server through the public constructor with every
// load-dependent layer (shedding, timeout, max-conns) switched off.
func c04NewServer(opts ...Option) (*Server, error) {
	logx.Disable()
	var c Config
	c.Name = "c04"
	c.Host = "127.0.0.1"
	c.Log.Mode = "console"
	c.Mode = "dev"
	switch c04ChainFlavor {
	case "withchain": // the application replaces the default chain by its own
		opts = append([]Option{WithChain(chain.New(func(next http.Handler) http.Handler {
			return http.HandlerFunc(func(w http.ResponseWriter, r *http.Request) {
				atomic.AddInt64(&c04ChainMWCalls, 1)
				next.ServeHTTP(w, r)
			})
		}))}, opts...)
	case "withchain-empty":
		opts = append([]Option{WithChain(chain.New())}, opts...)
	}
	srv, err := NewServer(c, opts...)
	if err == nil && c04ChainFlavor != "" {
		srv.Use(func(next http.HandlerFunc) http.HandlerFunc {
			return func(w http.ResponseWriter, r *http.Request) {
				atomic.AddInt64(&c04UseMWCalls, 1)
				next(w, r)
			}
		})
	}
	return srv, err
}

// c04ChainFlavor selects how the engine-layer servers are built: "" = default chain,
// "withchain" = api.WithChain(custom chain) + Server.Use(middleware), "withchain-empty" =
// api.WithChain(chain.New()) + Use. Tests run sequentially; whoever sets it resets it.
var (
	c04ChainFlavor  string
	c04ChainMWCalls int64
	c04UseMWCalls   int64
)

func c04EngineLayerName() string {
	if c04ChainFlavor == "" {
		return "engine"
	}
	return "engine-" + c04ChainFlavor
}

func c04EngineGate(secret, prev string) (*c04JwtGate, error) {
	obs := &c04Obs{}
	srv, err := c04NewServer(WithUnauthorizedCallback(func(w http.ResponseWriter, r *http.Request, err error) {
		obs.mu.Lock()
		obs.cb++
		if err == nil {
			obs.cb += 1000
		}
		obs.mu.Unlock()
	}))
	if err != nil {
		return nil, err
	}
	var opt RouteOption
	if prev == "" {
		opt = WithJwt(secret)
	} else {
		opt = WithJwtTransition(secret, prev)
	}
	// a middleware added with Use sits behind the auth gate (counted, not asserted)
	srv.Use(func(next http.HandlerFunc) http.HandlerFunc {
		return func(w http.ResponseWriter, r *http.Request) {
			obs.mu.Lock()
			obs.mw++
			obs.mu.Unlock()
			next(w, r)
		}
	})
	srv.AddRoutes([]Route{
		{Method: http.MethodGet, Path: "/c04/jwt/:id", Handler: obs.inner()},
		{Method: http.MethodPost, Path: "/c04/jwt/:id", Handler: obs.inner()},
	}, opt)
	if err := srv.ng.bindRoutes(srv.router); err != nil {
		return nil, err
	}
	ts := httptest.NewServer(srv.router)
	client := ts.Client()
	n := 0
	var g *c04JwtGate
	g = &c04JwtGate{layer: c04EngineLayerName(), wantCallback: true, secret: secret, prev: prev, obs: obs,
		close: func() { ts.Close() },
		do: func(auth string, hasHdr bool) (int, error) {
			n++
			method, body := http.MethodGet, io.Reader(http.NoBody)
			if n%3 == 0 {
				method, body = http.MethodPost, strings.NewReader(`{"n":1}`)
			}
			req, err := http.NewRequest(method, fmt.Sprintf("%s/c04/jwt/%d?q=%d", ts.URL, n, n), body)
			if err != nil {
				return 0, err
			}
			if hasHdr {
				req.Header.Set("Authorization", auth)
			}
			c04ApplyCarrier(req, g.cur.Carrier, g.cur.Token)
			resp, err := client.Do(req)
			if err != nil {
				return 0, err
			}
			_, _ = io.Copy(io.Discard, resp.Body)
			resp.Body.Close()
			return resp.StatusCode, nil
		}}
	return g, nil
}

type c04JwtStats struct {
	reorders int // times the model's "secret first" flag flipped
}

// c04RunJwtSequence sends the sequence through the gate; the iff is checked at
// every step. Returns false when a violation (or inconclusive) stopped it.
func c04RunJwtSequence(m *vk.M, idx int, g *c04JwtGate, classes []string, r *rand.Rand, st *c04JwtStats) bool {
	var hist []string
	hitsSecret, hitsPrev := 0, 0
	secretFirst := false // model of Parser: count > prevCount
	desc := func(step int, c c04JwtCase) string {
		h := hist
		if len(h) > 60 {
			h = h[len(h)-60:]
		}
		return fmt.Sprintf("case=%d;layer=%s;step=%d;secret=%q;prev=%q;class=%s;authorization=%q;token-carried-in=%q;token=%q;history(last %d)=%s",
			idx, g.layer, step, g.secret, g.prev, c.Class, c.Auth, c.Carrier, c.Token, len(h), strings.Join(h, ","))
	}
	for step, cls := range classes {
		if g.virtual != nil {
			if d := g.virtual(r); d > 0 {
				timex.VerifAdvance(d)
				m.Count("jwt."+g.layer+".virtual_clock_jumps", 1)
			}
		}
		now := time.Now().Unix()
		var c c04JwtCase
		if g.source != nil {
			c, now = g.source(step, cls)
		} else {
			c = c04GenJwt(r, cls, g.secret, g.prev, now)
		}
		want, custom, why := c04VerifyJWT(c.Auth, c.HasHdr, g.secret, g.prev, now)
		if want != c.Want {
			m.Inconclusive("harness self-check: generator intended %d for class %s but the reference verifier says %d (%s): %s", c.Want, c.Class, want, why, desc(step, c))
			return false
		}
		m.Current(desc(step, c))
		g.obs.reset()
		g.cur = c
		status, err := g.do(c.Auth, c.HasHdr)
		if err != nil {
			m.Inconclusive("transport error at %s: %v", desc(step, c), err)
			return false
		}
		ran, req, _, cb := g.obs.snapshot()
		if strings.HasPrefix(g.layer, "engine") {
			g.obs.mu.Lock()
			mw := g.obs.mw
			g.obs.mu.Unlock()
			if mw > 0 && ran == 0 {
				m.Count("jwt.engine.use_middleware_ran_for_rejected_request(not asserted)", 1)
			} else if mw > 0 {
				m.Count("jwt.engine.use_middleware_ran_with_handler", 1)
			}
		}
		sig := "C04:jwt:" + g.layer + ":"
		m.Count("jwt."+g.layer+".requests", 1)
		m.Count("jwt.class."+c.Class, 1)
		if strings.HasPrefix(g.layer, "engine") && status == http.StatusServiceUnavailable {
			m.Inconclusive("engine answered 503 (breaker/shedder) at %s", desc(step, c))
			return false
		}
		// consistency that holds for every request, asserted or not
		switch {
		case ran > 1:
			m.Violate(sig+"handler-ran-twice:"+c.Class, desc(step, c), "inner handler ran %d times, status %d", ran, status)
			return false
		case ran == 1 && status != http.StatusOK:
			m.Violate(sig+"handler-ran-but-status-not-200:"+c.Class, desc(step, c), "inner handler ran but the response status is %d", status)
			return false
		case ran == 0 && status == http.StatusOK:
			m.Violate(sig+"status-200-without-handler:"+c.Class, desc(step, c), "status 200 but the inner handler did not run")
			return false
		}
		switch want {
		case c04Admit:
			if ran != 1 {
				m.Violate(sig+"rejected-valid:"+c.Class, desc(step, c), "token verifies under the reference verifier (%s) but the handler did not run; status %d (model hits: secret=%d prev=%d)", why, status, hitsSecret, hitsPrev)
				return false
			}
			if bad := c04CheckClaims(req, custom); bad != "" {
				m.Violate(sig+"claims-not-visible:"+c.Class, desc(step, c), "%s", bad)
				return false
			}
			m.Count("jwt."+g.layer+".admitted", 1)
			m.Count("jwt.claims_checked", int64(len(custom)))
			if cb != 0 {
				m.Violate(sig+"unauthorized-callback-on-admit:"+c.Class, desc(step, c), "unauthorized callback ran %d times for an admitted request", cb)
				return false
			}
			if c.Class == "valid-prev" {
				hitsPrev++
			} else {
				hitsSecret++
			}
			if g.prev != "" {
				if sf := hitsSecret > hitsPrev; sf != secretFirst {
					secretFirst = sf
					st.reorders++
				}
			}
		case c04Reject:
			if ran != 0 {
				m.Violate(sig+"admitted-invalid:"+c.Class, desc(step, c), "reference verifier rejects the request (%s) but the handler ran (status %d)", why, status)
				return false
			}
			if status != http.StatusUnauthorized {
				m.Violate(sig+"reject-status-not-401:"+c.Class, desc(step, c), "rejected (%s) with status %d, want 401", why, status)
				return false
			}
			if g.wantCallback && cb != 1 {
				m.Violate(sig+"unauthorized-callback-not-called-once:"+c.Class, desc(step, c), "request rejected (%s) but the configured unauthorized callback ran %d times (1000+ = called with a nil error)", why, cb)
				return false
			}
			if g.wantCallback {
				m.Count("jwt."+g.layer+".unauthorized_callback_calls", 1)
			}
			m.Count("jwt."+g.layer+".rejected_401", 1)
		default:
			m.Count("jwt.unasserted."+why, 1)
			if ran == 1 {
				m.Count("jwt.unasserted_admitted."+why, 1)
			}
		}
		m.Case(vk.Digest(g.layer, c.Class, c.Auth, c.Token), want != c04Unasserted)
		if m.WantSample() && (step == 7 || step == 8) && idx%3 == 1 {
			a := c.Auth
			if len(a) > 120 {
				a = a[:120] + "…"
			}
			m.Sample(map[string]any{"layer": g.layer, "case": idx, "step": step, "class": c.Class, "authorization": a,
				"reference_verdict": why, "status": status, "handler_ran": ran, "claims_checked": len(custom)})
		}
		hist = append(hist, cls)
	}
	return true
}

const c04JwtRule = "for every generated Authorization header: inner handler runs (status 200, every non-registered claim of the token visible under its name in r.Context()) iff an independent HS256/384/512 verifier accepts the token under secret or prevSecret with exp/nbf at least 1 h away from now; otherwise status 401 and the handler does not run; checked at every step of sequential histories that alternate secret/prevSecret hits"

func c04JwtLayer(t *testing.T, layer string, gates, seqMin, seqMax int) {
	logx.Disable()
	m := vk.New(t, "C04", c04JwtRule)
	defer m.Done()
	var st c04JwtStats
	for idx := 1; idx <= gates; idx++ {
		if !m.Only(idx) {
			continue
		}
		r := m.Rand("jwt", layer, idx)
		secret := c04RandSecret(r)
		prev := ""
		if idx%4 != 0 {
			prev = c04RandSecret(r)
			for prev == secret {
				prev = c04RandSecret(r)
			}
			if layer == "handler" && idx%5 == 0 {
				prev = c04RandStr(r, 1, 7, c04Alnum) // a legacy secret may be short
			}
		}
		var g *c04JwtGate
		if layer == "handler" || layer == "parser" {
			// the virtual timex clock is read by nothing here except Parser.history's reset
			timex.VerifFakeClock(time.Duration(1+r.Intn(1000)) * time.Second)
		}
		if layer == "handler" {
			g = c04HandlerGate(secret, prev, idx%3)
			g.wantCallback = idx%3 != 0
			if idx%2 == 1 { // jump past the 24 h history reset now and then
				g.virtual = func(r *rand.Rand) time.Duration {
					switch r.Intn(40) {
					case 0:
						return 25 * time.Hour
					case 1:
						return time.Duration(1+r.Intn(23)) * time.Hour
					}
					return 0
				}
			}
		} else if layer == "parser" {
			reset := []time.Duration{time.Millisecond, time.Second, time.Minute, 24 * time.Hour}[r.Intn(4)]
			g = c04ParserGate(secret, prev, reset)
			g.virtual = func(r *rand.Rand) time.Duration {
				if r.Intn(6) == 0 {
					return time.Duration(1+r.Intn(3000)) * reset / 1000 * time.Duration(1+r.Intn(3))
				}
				return 0
			}
		} else {
			var err error
			if g, err = c04EngineGate(secret, prev); err != nil {
				m.Inconclusive("cannot build engine gate: %v", err)
				return
			}
		}
		n := seqMin + r.Intn(seqMax-seqMin+1)
		ok := c04RunJwtSequence(m, idx, g, c04JwtSequence(r, n), r, &st)
		g.close()
		timex.VerifRealClock()
		m.Count("jwt."+layer+".gates", 1)
		if prev != "" {
			m.Count("jwt."+layer+".gates_with_prev_secret", 1)
		}
		_ = ok
		if m.ViolCount() > 30 {
			m.Note("stopped after %d violating sequences", m.ViolCount())
			break
		}
		if idx%5 == 0 {
			m.Progress()
		}
	}
	m.Count("jwt."+layer+".model_history_reorders", int64(st.reorders))
	m.Note("%s layer: %d gates; the model of Parser.history (hits(secret) > hits(prevSecret)) changed the try-order %d times inside the sequences", layer, gates, st.reorders)
}

// TestVerifC04JwtHandler: handler.Authorize called directly.
func TestVerifC04JwtHandler(t *testing.T) {
	c04JwtLayer(t, "handler", vk.N(60, 1200), 50, 500)
}

// TestVerifC04JwtParser: token.Parser.ParseToken with WithResetDuration under a virtual
// clock, so that the history is wiped in the middle of the sequences.
func TestVerifC04JwtParser(t *testing.T) {
	c04JwtLayer(t, "parser", vk.N(12, 240), 50, 400)
}

// TestVerifC04JwtEngine: WithJwt / WithJwtTransition routes as composed by
// engine.appendAuthHandler (default chain), real router, real HTTP.
func TestVerifC04JwtEngine(t *testing.T) {
	c04JwtLayer(t, "engine", vk.N(16, 320), 50, 300)
}

// ---------------------------------------------------------------------------
// time as part of the history: the SAME token presented before its nbf, inside its
// validity and after its exp, in every order, on one Authorize / Parser / engine
// route. The library's clock seam jwt.TimeFunc is driven by the harness, so these
// verdicts do not depend on the wall clock at all (every presentation is >= 1 h of
// virtual time away from nbf/exp).

type c04TimedToken struct {
	auth      string
	nbf, exp  int64 // 0 = claim absent
	signedBy  string
	presented int
}

func c04JwtTimeHistories(t *testing.T, layer string, gates int) {
	logx.Disable()
	m := vk.New(t, "C04", "the same token re-presented on one gate at virtual times (jwt.TimeFunc) before nbf / inside validity / after exp, all 6 orders per gate interleaved over 6-8 tokens, single secret and transition (signed by current or previous secret): admitted (200, claims visible) iff the reference verifier accepts it AT THAT TIME, else 401")
	defer m.Done()
	var vnow int64
	old := jwt.TimeFunc
	jwt.TimeFunc = func() time.Time { return time.Unix(atomic.LoadInt64(&vnow), 0) }
	defer func() { jwt.TimeFunc = old }()
	var st c04JwtStats
	perms := [][3]int{{0, 1, 2}, {0, 2, 1}, {1, 0, 2}, {1, 2, 0}, {2, 0, 1}, {2, 1, 0}}
	phaseName := []string{"before-nbf", "inside-validity", "after-exp"}
	for idx := 1; idx <= gates; idx++ {
		if !m.Only(idx) {
			continue
		}
		r := m.Rand("jwt-time", layer, idx)
		base := time.Now().Unix() + int64(r.Intn(400)-200)*86400
		secret, prev := c04RandSecret(r), ""
		mode := idx % 3 // 0 single secret, 1 transition/current signs, 2 transition/previous signs
		if mode != 0 {
			prev = c04RandSecret(r)
			for prev == secret {
				prev = c04RandSecret(r)
			}
		}
		var g *c04JwtGate
		switch layer {
		case "handler":
			g = c04HandlerGate(secret, prev, idx%2)
			g.wantCallback = idx%2 != 0
		case "parser":
			g = c04ParserGate(secret, prev, 24*time.Hour)
		default:
			var err error
			if g, err = c04EngineGate(secret, prev); err != nil {
				m.Inconclusive("cannot build engine gate: %v", err)
				return
			}
		}
		// tokens: a window [nbf, exp] of >= 3 h around base; some without nbf or without exp
		ntok := 6 + r.Intn(3)
		toks := make([]*c04TimedToken, ntok)
		for i := range toks {
			tk := &c04TimedToken{}
			tk.nbf = base - c04Far(r)
			tk.exp = base + c04Far(r) + 2*c04TimeMargin
			claims := c04RandClaims(r)
			claims["tokno"] = i
			switch r.Intn(5) {
			case 0:
				tk.nbf = 0
			case 1:
				if i >= 6 { // the six permutation tokens keep an exp
					tk.exp = 0
				}
			}
			if tk.nbf != 0 {
				claims["nbf"] = tk.nbf
				if r.Intn(2) == 0 {
					claims["iat"] = tk.nbf
				}
			}
			if tk.exp != 0 {
				claims["exp"] = tk.exp
			}
			key := secret
			tk.signedBy = "secret"
			if mode == 2 || (mode == 1 && i%4 == 3) {
				key, tk.signedBy = prev, "prev"
			}
			tk.auth = "Bearer " + c04SignedToken(r, c04HS[r.Intn(len(c04HS))], key, claims)
			toks[i] = tk
		}
		// schedule: token i (< 6) goes through permutation i of the three phases; the steps of
		// different tokens are interleaved at random; afterwards random (token, phase) picks
		type stepT struct{ tok, phase int }
		var queues [][]stepT
		for i := 0; i < 6; i++ {
			var q []stepT
			for _, ph := range perms[(i+idx)%6] {
				q = append(q, stepT{i, ph})
			}
			queues = append(queues, q)
		}
		var steps []stepT
		for len(queues) > 0 {
			k := r.Intn(len(queues))
			steps = append(steps, queues[k][0])
			if queues[k] = queues[k][1:]; len(queues[k]) == 0 {
				queues = append(queues[:k], queues[k+1:]...)
			}
			if r.Intn(3) == 0 { // immediate repetition: hit whatever the gate may have remembered
				steps = append(steps, steps[len(steps)-1])
			}
		}
		for i := 0; i < 30; i++ {
			steps = append(steps, stepT{r.Intn(ntok), r.Intn(3)})
		}
		labels := make([]string, len(steps))
		for i, sp := range steps {
			labels[i] = fmt.Sprintf("tok%d@%s", sp.tok, phaseName[sp.phase])
		}
		g.source = func(step int, _ string) (c04JwtCase, int64) {
			sp := steps[step]
			tk := toks[sp.tok]
			c := c04JwtCase{Auth: tk.auth, HasHdr: true, Want: c04Admit}
			var at int64
			switch sp.phase {
			case 0:
				if tk.nbf == 0 { // no nbf: long ago is still fine
					at = base - c04Far(r)
				} else {
					at, c.Want = tk.nbf-c04Far(r), c04Reject
				}
			case 1:
				at = base + int64(r.Intn(c04TimeMargin))
			default:
				if tk.exp == 0 {
					at = base + c04Far(r)
				} else {
					at, c.Want = tk.exp+c04Far(r), c04Reject
				}
			}
			seen := "first-presentation"
			if tk.presented > 0 {
				seen = "re-presented"
			}
			tk.presented++
			c.Class = "same-token:" + phaseName[sp.phase] + ":" + seen + ":signed-by-" + tk.signedBy
			atomic.StoreInt64(&vnow, at)
			m.Count("jwt.time."+phaseName[sp.phase]+"."+seen, 1)
			return c, at
		}
		c04RunJwtSequence(m, idx, g, labels, r, &st)
		g.close()
		m.Count("jwt.time."+layer+".gates", 1)
		if m.ViolCount() > 30 {
			break
		}
	}
}

// TestVerifC04JwtTimeHistories: handler.Authorize, token.Parser and engine routes.
func TestVerifC04JwtTimeHistories(t *testing.T) {
	n := vk.N(9, 180)
	t.Run("handler", func(t *testing.T) { c04JwtTimeHistories(t, "handler", n) })
	t.Run("parser", func(t *testing.T) { c04JwtTimeHistories(t, "parser", n) })
	t.Run("engine", func(t *testing.T) { c04JwtTimeHistories(t, "engine", n) })
}

// TestVerifC04EngineCustomChain: option interaction — servers built with api.WithChain
// (custom or empty chain) plus Server.Use middlewares must still put every gate
// (WithJwt, WithJwtTransition, WithSignature, both) in front of the handler.
func TestVerifC04EngineCustomChain(t *testing.T) {
	defer func() { c04ChainFlavor = "" }()
	for _, fl := range []string{"withchain", "withchain-empty"} {
		fl := fl
		c04ChainFlavor = fl
		t.Run(fl+"/jwt", func(t *testing.T) { c04JwtLayer(t, "engine-"+fl, vk.N(4, 80), 50, 200) })
		t.Run(fl+"/signature", func(t *testing.T) { c04SigLayer(t, "engine-"+fl, vk.N(400, 8000)) })
		t.Run(fl+"/both", func(t *testing.T) { c04EngineBoth(t) })
		t.Run(fl+"/time", func(t *testing.T) { c04JwtTimeHistories(t, "engine-"+fl, vk.N(3, 60)) })
	}
	t.Logf("custom chain middleware calls %d, Use middleware calls %d", atomic.LoadInt64(&c04ChainMWCalls), atomic.LoadInt64(&c04UseMWCalls))
}
