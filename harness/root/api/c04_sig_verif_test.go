//go:build verif

package api

// C04 — authentication gates, X-Content-Security signature part (DESIGN.md §3 C04).
//
// The harness has its own signer and its own verifier for the documented scheme,
// written against the wire format only (crypto/rsa, crypto/hmac, crypto/aes):
//
//   X-Content-Security: fingerprint=<id>; secret=<b64(RSA-PKCS1v15(attrs))>; signature=<b64(HMAC-SHA256(key, msg))>
//   attrs = "type=<0|1>; key=<b64(key)>; time=<unix seconds>"   (RSA in blocks of k-11 bytes)
//   msg   = time \n METHOD \n path \n rawquery \n hex(sha256(body as sent))
//
// Every generated request is first judged by the reference verifier from the bytes
// that are sent; the gate (handler.ContentSecurityHandler directly, and the chain
// composed by engine.signatureVerifier behind the real router over real HTTP) must
// agree: strict mode -> handler runs iff verified, otherwise 403; non-strict and
// methods outside GET/POST/PUT/DELETE -> handler runs.
// VerifySignature reads time.Now(): every timestamp is >= 20 s from the tolerance edge.

import (
	"bytes"
	"crypto/aes"
	"crypto/hmac"
	crand "crypto/rand"
	"crypto/rsa"
	"crypto/sha256"
	"crypto/x509"
	"encoding/base64"
	"encoding/hex"
	"encoding/pem"
	"fmt"
	"io"
	"math/rand"
	"net"
	"net/http"
	"net/http/httptest"
	"net/url"
	"os"
	"path/filepath"
	"strconv"
	"strings"
	"sync"
	"testing"
	"time"

	"github.com/gotid/god/api/handler"
	"github.com/gotid/god/lib/codec"
	"github.com/gotid/god/lib/logx"
	"verif.local/vk"
)

const c04SigMargin = 20 // seconds kept between any timestamp and the tolerance edge

type c04Key struct {
	fp     string
	priv   *rsa.PrivateKey
	file   string
	pubPEM []byte // PKIX, what codec.NewRsaEncryptor (the client side helper) takes
}

type c04KeySet struct {
	keys    []c04Key
	outside *rsa.PrivateKey // a key pair the server does not know
}

func c04NewKeySet(dir string) (*c04KeySet, error) {
	return c04NewKeySetFPs(dir, []string{"c04-fp-alpha", "c04/fp+beta=="})
}

func c04NewKeySetFPs(dir string, fps []string) (*c04KeySet, error) {
	ks := &c04KeySet{}
	for i, fp := range fps {
		k, err := rsa.GenerateKey(crand.Reader, 1024)
		if err != nil {
			return nil, err
		}
		file := filepath.Join(dir, fmt.Sprintf("c04-key-%d.pem", i))
		b := pem.EncodeToMemory(&pem.Block{Type: "RSA PRIVATE KEY", Bytes: x509.MarshalPKCS1PrivateKey(k)})
		if err := os.WriteFile(file, b, 0o600); err != nil {
			return nil, err
		}
		der, err := x509.MarshalPKIXPublicKey(&k.PublicKey)
		if err != nil {
			return nil, err
		}
		ks.keys = append(ks.keys, c04Key{fp: fp, priv: k, file: file,
			pubPEM: pem.EncodeToMemory(&pem.Block{Type: "PUBLIC KEY", Bytes: der})})
	}
	k, err := rsa.GenerateKey(crand.Reader, 1024)
	if err != nil {
		return nil, err
	}
	ks.outside = k
	return ks, nil
}

func (ks *c04KeySet) byFP(fp string) *rsa.PrivateKey {
	for _, k := range ks.keys {
		if k.fp == fp {
			return k.priv
		}
	}
	return nil
}

// ---- own primitives -------------------------------------------------------

func c04RsaEncrypt(pub *rsa.PublicKey, msg []byte) ([]byte, error) {
	limit := pub.Size() - 11
	var out []byte
	for len(msg) > 0 {
		n := len(msg)
		if n > limit {
			n = limit
		}
		c, err := rsa.EncryptPKCS1v15(crand.Reader, pub, msg[:n])
		if err != nil {
			return nil, err
		}
		out = append(out, c...)
		msg = msg[n:]
	}
	return out, nil
}

func c04RsaDecrypt(priv *rsa.PrivateKey, ct []byte) ([]byte, error) {
	k := priv.Size()
	if len(ct) == 0 {
		return nil, fmt.Errorf("empty ciphertext")
	}
	var out []byte
	for len(ct) > 0 {
		n := len(ct)
		if n > k {
			n = k
		}
		p, err := rsa.DecryptPKCS1v15(nil, priv, ct[:n])
		if err != nil {
			return nil, err
		}
		out = append(out, p...)
		ct = ct[n:]
	}
	return out, nil
}

func c04AesEcbEncrypt(key, plain []byte) ([]byte, error) {
	blk, err := aes.NewCipher(key)
	if err != nil {
		return nil, err
	}
	pad := 16 - len(plain)%16
	buf := append(append([]byte{}, plain...), bytes.Repeat([]byte{byte(pad)}, pad)...)
	out := make([]byte, len(buf))
	for i := 0; i < len(buf); i += 16 {
		blk.Encrypt(out[i:i+16], buf[i:i+16])
	}
	return out, nil
}

func c04SigMessage(ts, method, path, query string, body []byte) string {
	sum := sha256.Sum256(body)
	return strings.Join([]string{ts, method, path, query, hex.EncodeToString(sum[:])}, "\n")
}

func c04SigMac(key []byte, msg string) []byte {
	mac := hmac.New(sha256.New, key)
	mac.Write([]byte(msg))
	return mac.Sum(nil)
}

func c04Attrs(s string) map[string]string {
	out := map[string]string{}
	for _, f := range strings.Split(s, ";") {
		f = strings.TrimSpace(f)
		if f == "" {
			continue
		}
		kv := strings.SplitN(f, "=", 2)
		if len(kv) == 2 {
			out[kv[0]] = kv[1]
		}
	}
	return out
}

// ---- the request as sent --------------------------------------------------

type c04SigReq struct {
	Class  string `json:"class"`
	Method string `json:"method"`
	Path   string `json:"path"`
	Query  string `json:"query"`
	Body   []byte `json:"body"`
	CS     string `json:"x_content_security"`
	HasCS  bool   `json:"has_header"`
	Want   int    `json:"want"`            // generator intent in strict mode
	Plain  []byte `json:"plain,omitempty"` // what the handler should read (evidence only)
	ReqURI string `json:"x_request_uri,omitempty"`
	// Framing: how the body travels. "" = Content-Length (no body -> none / 0); "chunked" =
	// unknown length (ContentLength -1, Transfer-Encoding: chunked), also for an empty body.
	// The signed content covers the body bytes, whatever the framing.
	Framing string `json:"framing,omitempty"`
}

type c04OpaqueReader struct{ io.Reader } // hides the length from net/http

// c04SplitURI splits the simple URIs the generator produces ("/p?q" or "http://host/p?q").
func c04SplitURI(u string) (path, query string, ok bool) {
	if strings.ContainsAny(u, "# []") {
		return "", "", false
	}
	if i := strings.Index(u, "://"); i >= 0 {
		rest := u[i+3:]
		j := strings.Index(rest, "/")
		if j < 0 {
			return "", "", false
		}
		u = rest[j:]
	}
	if !strings.HasPrefix(u, "/") {
		return "", "", false
	}
	if i := strings.Index(u, "?"); i >= 0 {
		u, query = u[:i], u[i+1:]
	}
	// the signed path is the decoded one (what net/http calls URL.Path)
	dec, err := url.PathUnescape(u)
	if err != nil {
		return "", "", false
	}
	return dec, query, true
}

// c04EscapePath percent-encodes every byte outside the unreserved set.
func c04EscapePath(seg string, lower bool) string {
	var sb strings.Builder
	for i := 0; i < len(seg); i++ {
		c := seg[i]
		if strings.IndexByte(c04Alnum+"-_.~", c) >= 0 {
			sb.WriteByte(c)
		} else if lower {
			fmt.Fprintf(&sb, "%%%02x", c)
		} else {
			fmt.Fprintf(&sb, "%%%02X", c)
		}
	}
	return sb.String()
}

var c04OddSegments = []string{"annual report.pdf", "张三", "c++", "a|b", "50%", "q?x=1", "semi;colon", "a&b=c", "ü-ñ", "sp ace+plus",
	"[brackets]", "hash#tag", "quo\"te", "%41", "a%2Fb-literally", "back\\slash", "{curly}", "^caret`"}

// c04BodyDecryptable: is the body what a type=1 request must carry (base64 of whole AES blocks
// under a 16/24/32-byte key)? Anything else is outside the statement (CryptoHandler's business).
func c04BodyDecryptable(key, body []byte) bool {
	if len(key) != 16 && len(key) != 24 && len(key) != 32 {
		return false
	}
	ct, err := base64.StdEncoding.DecodeString(string(body))
	return err == nil && len(ct) > 0 && len(ct)%16 == 0
}

var c04Covered = map[string]bool{http.MethodGet: true, http.MethodPost: true, http.MethodPut: true, http.MethodDelete: true}

// c04VerifySig is the reference verdict for strict mode, from the bytes sent.
func c04VerifySig(q c04SigReq, ks *c04KeySet, now, tol int64) (int, string) {
	if !c04Covered[q.Method] {
		return c04Admit, "method-outside-GET/POST/PUT/DELETE"
	}
	if !q.HasCS {
		return c04Reject, "no-header"
	}
	a := c04Attrs(q.CS)
	fp, secret, sig := a["fingerprint"], a["secret"], a["signature"]
	if fp == "" || secret == "" || sig == "" {
		return c04Reject, "header-field-missing"
	}
	priv := ks.byFP(fp)
	if priv == nil {
		return c04Reject, "fingerprint-not-configured"
	}
	ct, err := base64.StdEncoding.DecodeString(secret)
	if err != nil {
		return c04Reject, "secret-not-base64"
	}
	pt, err := c04RsaDecrypt(priv, ct)
	if err != nil {
		return c04Reject, "secret-does-not-decrypt"
	}
	in := c04Attrs(string(pt))
	key, err := base64.StdEncoding.DecodeString(in["key"])
	if err != nil {
		// the scheme transports the HMAC key as base64: no key, nothing the HMAC could match under
		return c04Reject, "decrypted-key-not-base64"
	}
	typ, err := strconv.Atoi(in["type"])
	if err != nil {
		// decrypts, fresh, HMAC may match: the statement would admit, the format is broken
		return c04Unasserted, "decrypted-type-not-numeric"
	}
	ts, err := strconv.ParseInt(in["time"], 10, 64)
	if err != nil {
		return c04Reject, "timestamp-not-a-number"
	}
	d := now - ts
	if d < 0 {
		d = -d
	}
	if d > tol-c04SigMargin/2 && d < tol+c04SigMargin/2 {
		return c04Unasserted, "timestamp-too-close-to-tolerance-edge"
	}
	if d > tol {
		return c04Reject, "timestamp-outside-tolerance"
	}
	// q.Path is the path as sent (percent-encoded where needed); the scheme signs the decoded path
	path, err := url.PathUnescape(q.Path)
	if err != nil {
		return c04Unasserted, "request-path-not-decodable"
	}
	query := q.Query
	if q.ReqURI != "" {
		// a proxy that rewrites the URL forwards the original one in X-Request-Uri; the
		// signed path/query are then the ones of that header
		p, qq, ok := c04SplitURI(q.ReqURI)
		if !ok {
			return c04Unasserted, "x-request-uri-not-a-plain-uri"
		}
		path, query = p, qq
	}
	want := c04SigMac(key, c04SigMessage(in["time"], q.Method, path, query, q.Body))
	got, err := base64.StdEncoding.DecodeString(sig)
	if err != nil || !hmac.Equal(want, got) {
		return c04Reject, "hmac-mismatch"
	}
	if typ == 1 && len(q.Body) > 0 && !c04BodyDecryptable(key, q.Body) {
		return c04Unasserted, "verified-but-encrypted-body-not-decodable"
	}
	return c04Admit, "verified"
}

// ---- generator ------------------------------------------------------------

var c04SigValid = []c04Weighted{{"valid", 10}, {"valid-encrypted-body", 4}, {"valid-ts-near-past-edge", 4},
	{"valid-ts-near-future-edge", 4}, {"valid-multiblock-secret", 3}, {"valid-x-request-uri", 3},
	{"valid-secret-by-codec-encryptor", 3},
	{"valid-ts-unusual-spelling", 3}, {"valid-escaped-path", 5}}

var c04SigInvalid = []c04Weighted{{"tamper-method", 5}, {"tamper-path", 5}, {"tamper-query", 5}, {"tamper-body", 6},
	{"tamper-timestamp", 5}, {"tamper-signature", 5}, {"signature-of-other-request", 3}, {"tamper-key", 4},
	{"fingerprint-unknown", 3}, {"fingerprint-of-other-key", 3}, {"secret-from-unknown-keypair", 2}, {"secret-garbage", 2},
	{"secret-not-base64", 2}, {"header-missing", 3}, {"header-field-missing", 3}, {"timestamp-not-numeric", 2},
	{"ts-too-old", 6}, {"ts-too-new", 6}, {"x-request-uri-differs-from-signed", 3}, {"signed-url-but-x-request-uri-says-other", 2},
	{"encrypted-signed-over-plaintext", 3}, {"secret-key-not-base64", 2}, {"tamper-timestamp-spelling", 4}, {"escaped-path-signed-over-wire-form", 3},
	// not asserted (observed only): outside the statement
	{"secret-type-not-numeric", 1}, {"encrypted-body-not-decodable", 2}, {"x-request-uri-unparsable", 1}}

type c04Signed struct {
	method, path, query string
	plain, sent         []byte
	typ                 string
	key                 []byte
	ts                  string
	fp                  string
	pub                 *rsa.PublicKey
	extraAttr           bool
	keyAttr, typAttr    string // raw overrides of the key= / type= attributes
	codecPub            []byte // when set, the repository's codec.RsaEncryptor produces the secret
}

func (s *c04Signed) secret(r *rand.Rand, key []byte, ts string) string {
	fields := []string{"type=" + s.typ, "key=" + base64.StdEncoding.EncodeToString(key), "time=" + ts}
	if s.typAttr != "" {
		fields[0] = "type=" + s.typAttr
	}
	if s.keyAttr != "" {
		fields[1] = "key=" + s.keyAttr
	}
	r.Shuffle(len(fields), func(i, j int) { fields[i], fields[j] = fields[j], fields[i] })
	if s.extraAttr {
		fields = append([]string{"version=v1"}, fields...)
	}
	content := []byte(strings.Join(fields, "; "))
	if s.codecPub != nil {
		enc, err := codec.NewRsaEncryptor(s.codecPub)
		if err == nil {
			if ct, err := enc.Encrypt(content); err == nil {
				return base64.StdEncoding.EncodeToString(ct)
			}
		}
		// (codec's Encrypt cannot do more than one block) fall back to the harness's own
	}
	ct, err := c04RsaEncrypt(s.pub, content)
	if err != nil {
		panic(err)
	}
	return base64.StdEncoding.EncodeToString(ct)
}

func c04Header(fp, secret, sig string) string {
	return "fingerprint=" + fp + "; secret=" + secret + "; signature=" + sig
}

func c04RandQuery(r *rand.Rand) string {
	n := r.Intn(4)
	var ps []string
	for i := 0; i < n; i++ {
		ps = append(ps, c04RandStr(r, 1, 5, "abcdefghijklmnopqrstuvwxyz")+"="+c04RandStr(r, 0, 8, c04Alnum+"-_.~"))
	}
	return strings.Join(ps, "&")
}

func c04RandBytes(r *rand.Rand, n int) []byte {
	b := make([]byte, n)
	for i := range b {
		b[i] = byte(r.Intn(256))
	}
	return b
}

func c04OtherMethod(r *rand.Rand, m string) string {
	all := []string{http.MethodGet, http.MethodPost, http.MethodPut, http.MethodDelete}
	for {
		if o := all[r.Intn(4)]; o != m {
			return o
		}
	}
}

// c04GenSig builds one request of the class. prefix is the route prefix ("/c04/sig").
func c04GenSig(r *rand.Rand, class string, ks *c04KeySet, prefix string, now, tol int64) c04SigReq {
	k := ks.keys[r.Intn(len(ks.keys))]
	s := &c04Signed{
		method: []string{http.MethodGet, http.MethodPost, http.MethodPost, http.MethodPut, http.MethodDelete}[r.Intn(5)],
		path:   prefix + "/" + c04RandStr(r, 1, 12, c04Alnum+"-_.~"),
		query:  c04RandQuery(r),
		typ:    "0",
		key:    c04RandBytes(r, []int{8, 16, 24, 32, 20}[r.Intn(5)]),
		fp:     k.fp,
		pub:    &k.priv.PublicKey,
	}
	s.extraAttr = r.Intn(2) == 0
	wire := ""
	if class == "valid-escaped-path" || class == "escaped-path-signed-over-wire-form" || (class == "valid-x-request-uri" && r.Intn(3) == 0) {
		// a path segment that has to be percent-encoded on the wire; the client signs the decoded path
		seg := c04OddSegments[r.Intn(len(c04OddSegments))]
		if r.Intn(3) == 0 {
			seg = c04RandStr(r, 1, 3, c04Alnum) + " " + c04RandStr(r, 1, 6, c04Alnum+" +|%?;&=#[]éλ中") + c04RandStr(r, 1, 3, c04Alnum)
		}
		s.path = prefix + "/" + seg
		wire = prefix + "/" + c04EscapePath(seg, r.Intn(4) == 0)
	}
	if strings.HasSuffix(s.path, "/.") || strings.HasSuffix(s.path, "/..") {
		s.path += "x"
	}
	if s.method != http.MethodGet || r.Intn(4) == 0 {
		if r.Intn(6) != 0 {
			s.plain = []byte(`{"n":` + strconv.Itoa(r.Intn(1000)) + `,"s":"` + c04RandStr(r, 0, 40, c04Alnum+" ") + `"}`)
		}
	}
	ts := now + int64(r.Intn(2*c04SigMargin/2+1)) - c04SigMargin/2 // around now
	inner := tol - c04SigMargin
	switch class {
	case "valid-ts-near-past-edge":
		ts = now - inner
	case "valid-ts-near-future-edge":
		ts = now + inner
	case "ts-too-old":
		ts = now - tol - c04SigMargin - int64(r.Intn(100000))
	case "ts-too-new":
		ts = now + tol + c04SigMargin + int64(r.Intn(100000))
	case "valid-multiblock-secret":
		s.key = c04RandBytes(r, 64+r.Intn(40))
	case "valid-secret-by-codec-encryptor":
		s.key = c04RandBytes(r, []int{8, 16, 24}[r.Intn(3)]) // one RSA block
		s.codecPub = k.pubPEM
	}
	encrypted := class == "valid-encrypted-body" || class == "encrypted-signed-over-plaintext" || class == "encrypted-body-not-decodable"
	if !encrypted && (strings.HasPrefix(class, "tamper-") || strings.HasPrefix(class, "ts-too") ||
		strings.HasPrefix(class, "fingerprint") || class == "signature-of-other-request" || class == "valid-x-request-uri") {
		encrypted = r.Intn(3) == 0 // the tamperings also hit requests with encrypted bodies
	}
	if encrypted {
		s.typ = "1"
		s.key = c04RandBytes(r, []int{16, 24, 32}[r.Intn(3)])
		if s.method == http.MethodGet {
			s.method = http.MethodPost
		}
		if len(s.plain) == 0 {
			s.plain = []byte(`{"enc":true}`)
		}
	}
	if tol < 2*c04SigMargin { // tiny tolerance: only "now" is safely inside
		if class == "valid-ts-near-past-edge" || class == "valid-ts-near-future-edge" {
			ts = now
		}
	}
	s.ts = strconv.FormatInt(ts, 10)
	// legal but unusual decimal spellings of the same instant (strconv.ParseInt takes them)
	respell := func(t string) string { return []string{"0", "+", "00", "+0", "0000000"}[r.Intn(5)] + t }
	if class == "valid-ts-unusual-spelling" { // signed exactly as sent: the HMAC covers the field as sent
		s.ts = respell(s.ts)
	}
	s.sent = s.plain
	if s.typ == "1" {
		ct, err := c04AesEcbEncrypt(s.key, s.plain)
		if err != nil {
			panic(err)
		}
		s.sent = []byte(base64.StdEncoding.EncodeToString(ct))
	}
	sig := base64.StdEncoding.EncodeToString(c04SigMac(s.key, c04SigMessage(s.ts, s.method, s.path, s.query, s.sent)))
	q := c04SigReq{Class: class, Method: s.method, Path: s.path, Query: s.query, Body: s.sent, HasCS: true, Plain: s.plain}
	if wire != "" {
		q.Path = wire
	}
	q.CS = c04Header(s.fp, s.secret(r, s.key, s.ts), sig)
	q.Want = c04Admit
	otherURI := func() (string, string) {
		return prefix + "/" + c04RandStr(r, 13, 16, c04Alnum), c04RandQuery(r)
	}
	uri := func(p, qq string) string {
		u := p
		if qq != "" {
			u += "?" + qq
		}
		if r.Intn(3) == 0 {
			u = "http://gateway.example" + u
		}
		return u
	}
	switch class {
	case "valid", "valid-encrypted-body", "valid-ts-near-past-edge", "valid-ts-near-future-edge", "valid-multiblock-secret",
		"valid-secret-by-codec-encryptor", "valid-ts-unusual-spelling":
		return q
	case "valid-escaped-path":
		return q
	case "valid-x-request-uri": // signed for the public URL; the request arrives rewritten
		q.ReqURI = uri(q.Path, s.query)
		q.Path, q.Query = otherURI()
		return q
	case "secret-type-not-numeric":
		s.typAttr = []string{"x", "one", "0x1", "1.0"}[r.Intn(4)]
		q.CS = c04Header(s.fp, s.secret(r, s.key, s.ts), sig)
		q.Want = c04Unasserted
		return q
	case "encrypted-body-not-decodable": // correctly signed over a body CryptoHandler cannot decode
		switch r.Intn(4) {
		case 3: // a key AES cannot take (20 bytes), body a whole block
			s.key = c04RandBytes(r, 20)
			q.Body = []byte(base64.StdEncoding.EncodeToString(c04RandBytes(r, 16)))
		case 0:
			q.Body = []byte("*not base64* " + c04RandStr(r, 1, 20, c04Alnum))
		case 1:
			q.Body = []byte(base64.StdEncoding.EncodeToString(c04RandBytes(r, 1+r.Intn(15))))
		default:
			q.Body = []byte(base64.StdEncoding.EncodeToString(c04RandBytes(r, 17+r.Intn(14))))
		}
		sg := base64.StdEncoding.EncodeToString(c04SigMac(s.key, c04SigMessage(s.ts, s.method, s.path, s.query, q.Body)))
		q.CS = c04Header(s.fp, s.secret(r, s.key, s.ts), sg)
		q.Plain = nil
		q.Want = c04Unasserted
		return q
	case "x-request-uri-unparsable": // signed for the URL as sent, header is not a URI
		q.ReqURI = []string{"/a%zz", "/p%", "http://[::1/x"}[r.Intn(3)]
		q.Want = c04Unasserted
		return q
	}
	q.Want = c04Reject
	switch class {
	case "ts-too-old", "ts-too-new": // correctly signed, only stale / from the future
	case "x-request-uri-differs-from-signed": // header announces another original URL than the signed one
		p2, q2 := otherURI()
		if r.Intn(2) == 0 {
			p2, q2 = s.path, s.query+"&admin=1"
		}
		q.ReqURI = uri(p2, q2)
		if r.Intn(2) == 0 {
			q.Path, q.Query = otherURI()
		}
	case "signed-url-but-x-request-uri-says-other":
		p2, q2 := otherURI()
		q.ReqURI = uri(p2, q2)
	case "encrypted-signed-over-plaintext": // HMAC over the plaintext instead of the bytes sent
		sg := base64.StdEncoding.EncodeToString(c04SigMac(s.key, c04SigMessage(s.ts, s.method, s.path, s.query, s.plain)))
		q.CS = c04Header(s.fp, s.secret(r, s.key, s.ts), sg)
	case "secret-key-not-base64": // key attribute is raw text; HMAC made with those raw bytes
		raw := "*" + c04RandStr(r, 8, 20, c04Alnum) + "*"
		s.keyAttr = raw
		sg := base64.StdEncoding.EncodeToString(c04SigMac([]byte(raw), c04SigMessage(s.ts, s.method, s.path, s.query, s.sent)))
		q.CS = c04Header(s.fp, s.secret(r, s.key, s.ts), sg)
	case "tamper-method":
		q.Method = c04OtherMethod(r, q.Method)
	case "tamper-path":
		switch r.Intn(3) {
		case 0:
			q.Path += "x"
		case 1:
			q.Path = prefix + "/" + c04RandStr(r, 13, 14, c04Alnum)
		default:
			b := []byte(q.Path)
			i := len(prefix) + 1 + r.Intn(len(b)-len(prefix)-1)
			if b[i] == 'Z' {
				b[i] = 'Y'
			} else {
				b[i] = 'Z'
			}
			q.Path = string(b)
		}
	case "tamper-query":
		switch {
		case q.Query == "":
			q.Query = "admin=1"
		case r.Intn(3) == 0:
			q.Query = ""
		case r.Intn(2) == 0:
			q.Query += "&x=1"
		default:
			q.Query = "z" + q.Query
		}
	case "tamper-body":
		switch {
		case len(q.Body) == 0:
			q.Body = []byte("x")
		case r.Intn(4) == 0:
			q.Body = nil
		case r.Intn(3) == 0:
			q.Body = append(append([]byte{}, q.Body...), ' ')
		default:
			b := append([]byte{}, q.Body...)
			i := r.Intn(len(b))
			if b[i] == 'A' {
				b[i] = 'B'
			} else {
				b[i] = 'A'
			}
			q.Body = b
		}
	case "tamper-timestamp": // the secret announces another (still fresh) time than the one signed
		ts2 := ts + 1 + int64(r.Intn(5))
		if r.Intn(2) == 0 {
			ts2 = ts - 1 - int64(r.Intn(5))
		}
		q.CS = c04Header(s.fp, s.secret(r, s.key, strconv.FormatInt(ts2, 10)), sig)
	case "escaped-path-signed-over-wire-form": // HMAC over the percent-encoded spelling instead of the path
		sg := base64.StdEncoding.EncodeToString(c04SigMac(s.key, c04SigMessage(s.ts, s.method, wire, s.query, s.sent)))
		q.CS = c04Header(s.fp, s.secret(r, s.key, s.ts), sg)
	case "tamper-timestamp-spelling": // same instant, other spelling than the one that was signed
		q.CS = c04Header(s.fp, s.secret(r, s.key, respell(s.ts)), sig)
	case "tamper-signature":
		raw := c04SigMac(s.key, c04SigMessage(s.ts, s.method, s.path, s.query, s.sent))
		switch r.Intn(4) {
		case 0:
			raw = raw[:len(raw)-1-r.Intn(8)]
		case 1:
			raw = append(raw, 0)
		default:
			raw[r.Intn(len(raw))] ^= byte(1 << uint(r.Intn(8)))
		}
		q.CS = c04Header(s.fp, s.secret(r, s.key, s.ts), base64.StdEncoding.EncodeToString(raw))
	case "signature-of-other-request":
		other := c04SigMac(s.key, c04SigMessage(s.ts, s.method, s.path+"/other", s.query, s.sent))
		q.CS = c04Header(s.fp, s.secret(r, s.key, s.ts), base64.StdEncoding.EncodeToString(other))
	case "tamper-key": // the secret carries another key than the one that signed
		k2 := append([]byte{}, s.key...)
		k2[r.Intn(len(k2))] ^= 0x40
		q.CS = c04Header(s.fp, s.secret(r, k2, s.ts), sig)
	case "fingerprint-unknown":
		q.CS = c04Header([]string{"nobody", "c04-fp-alph", "c04-fp-alpha2", "C04-FP-ALPHA"}[r.Intn(4)], s.secret(r, s.key, s.ts), sig)
	case "fingerprint-of-other-key":
		for _, o := range ks.keys {
			if o.fp != s.fp {
				q.CS = c04Header(o.fp, s.secret(r, s.key, s.ts), sig)
			}
		}
	case "secret-from-unknown-keypair":
		s.pub = &ks.outside.PublicKey
		q.CS = c04Header(s.fp, s.secret(r, s.key, s.ts), sig)
	case "secret-garbage":
		q.CS = c04Header(s.fp, base64.StdEncoding.EncodeToString(c04RandBytes(r, []int{128, 64, 1, 256}[r.Intn(4)])), sig)
	case "secret-not-base64":
		q.CS = c04Header(s.fp, "*"+c04RandStr(r, 4, 30, c04Alnum)+"*", sig)
	case "header-missing":
		q.CS, q.HasCS = "", false
	case "header-field-missing":
		sec := s.secret(r, s.key, s.ts)
		switch r.Intn(4) {
		case 0:
			q.CS = "secret=" + sec + "; signature=" + sig
		case 1:
			q.CS = "fingerprint=" + s.fp + "; signature=" + sig
		case 2:
			q.CS = "fingerprint=" + s.fp + "; secret=" + sec
		default:
			q.CS = "fingerprint=" + s.fp + "; secret=" + sec + "; signature="
		}
	case "timestamp-not-numeric":
		bad := []string{"now", "12ab", "1e9", s.ts + "s"}[r.Intn(4)]
		sg := base64.StdEncoding.EncodeToString(c04SigMac(s.key, c04SigMessage(bad, s.method, s.path, s.query, s.sent)))
		q.CS = c04Header(s.fp, s.secret(r, s.key, bad), sg)
	default:
		panic("c04: unknown signature class " + class)
	}
	return q
}

// ---- gates ----------------------------------------------------------------

type c04SigGate struct {
	// callback: a custom UnsignedCallback is configured: it must be called exactly once per
	// request the reference verifier rejects, with the configured strict flag, never otherwise
	callback bool
	cbStrict []bool
	layer    string
	strict   bool
	tol      time.Duration
	prefix   string
	obs      *c04Obs
	do       func(q c04SigReq, auth string) (int, error)
	close    func()
	// noise sends q (a correctly signed request with a body) in a way that makes the
	// server's read of the body FAIL half way (aborted upload); n of them at once.
	// The verdict on a request depends on that request alone: whatever such a request
	// leaves behind in the gate must not change the answer to the judged one after it.
	noise func(q c04SigReq, n int)
}

// c04BrokenBody delivers part of the body and then a read error.
type c04BrokenBody struct {
	data []byte
	done bool
}

func (b *c04BrokenBody) Read(p []byte) (int, error) {
	if !b.done {
		b.done = true
		return copy(p, b.data), nil
	}
	return 0, fmt.Errorf("c04: connection reset by peer (injected)")
}

func (b *c04BrokenBody) Close() error { return nil }

// c04NoiseRequest builds the signed request whose upload will break.
func c04NoiseRequest(r *rand.Rand, ks *c04KeySet, prefix string, tol int64) c04SigReq {
	for {
		q := c04GenSig(r, "valid", ks, prefix, time.Now().Unix(), tol)
		if len(q.Body) >= 4 {
			if q.Method == http.MethodGet {
				q.Method = http.MethodPost
			}
			return q
		}
	}
}

func c04NewRequest(method, url string, body []byte) (*http.Request, error) {
	if len(body) == 0 {
		return http.NewRequest(method, url, http.NoBody)
	}
	return http.NewRequest(method, url, bytes.NewReader(body))
}

// c04UnsignedCallback records the call and then behaves like the default (403 when strict,
// pass through otherwise).
func c04UnsignedCallback(g *c04SigGate) handler.UnsignedCallback {
	return func(w http.ResponseWriter, r *http.Request, next http.Handler, strict bool, code int) {
		g.obs.mu.Lock()
		g.obs.cb++
		g.cbStrict = append(g.cbStrict, strict)
		g.obs.mu.Unlock()
		if strict {
			w.WriteHeader(http.StatusForbidden)
		} else {
			next.ServeHTTP(w, r)
		}
	}
}

func c04SigHandlerGate(ks *c04KeySet, tol time.Duration, strict, callback bool) (*c04SigGate, error) {
	obs := &c04Obs{}
	dec := map[string]codec.RsaDecryptor{}
	for _, k := range ks.keys {
		d, err := codec.NewRsaDecryptor(k.file)
		if err != nil {
			return nil, err
		}
		dec[k.fp] = d
	}
	g := &c04SigGate{layer: "handler", strict: strict, tol: tol, prefix: "/c04/sig", obs: obs, close: func() {}, callback: callback}
	h := handler.ContentSecurityHandler(dec, tol, strict)(obs.inner())
	if callback {
		h = handler.ContentSecurityHandler(dec, tol, strict, c04UnsignedCallback(g))(obs.inner())
	}
	g.do = func(q c04SigReq, _ string) (int, error) {
		u := "http://localhost" + q.Path
		if q.Query != "" {
			u += "?" + q.Query
		}
		var body io.Reader = http.NoBody
		if len(q.Body) > 0 {
			body = bytes.NewReader(q.Body)
		}
		if q.Framing == "chunked" {
			body = c04OpaqueReader{bytes.NewReader(q.Body)}
		}
		req := httptest.NewRequest(q.Method, u, body)
		if q.Framing == "chunked" {
			req.ContentLength = -1
			req.TransferEncoding = []string{"chunked"}
		}
		if q.HasCS {
			req.Header.Set("X-Content-Security", q.CS)
		}
		if q.ReqURI != "" {
			req.Header.Set("X-Request-Uri", q.ReqURI)
		}
		rec := httptest.NewRecorder()
		h.ServeHTTP(rec, req)
		return rec.Code, nil
	}
	g.noise = func(q c04SigReq, n int) {
		var wg sync.WaitGroup
		for i := 0; i < n; i++ {
			wg.Add(1)
			go func() {
				defer wg.Done()
				u := "http://localhost" + q.Path
				if q.Query != "" {
					u += "?" + q.Query
				}
				req := httptest.NewRequest(q.Method, u, &c04BrokenBody{data: q.Body[:len(q.Body)/2]})
				req.ContentLength = int64(len(q.Body))
				req.Header.Set("X-Content-Security", q.CS)
				h.ServeHTTP(httptest.NewRecorder(), req)
			}()
		}
		wg.Wait()
	}
	return g, nil
}

var c04AllMethods = []string{http.MethodGet, http.MethodPost, http.MethodPut, http.MethodDelete, http.MethodPatch, http.MethodOptions}

// c04SigEngineGate: WithSignature (and optionally WithJwt) routes through the engine.
func c04SigEngineGate(ks *c04KeySet, tol time.Duration, strict, callback bool, jwtSecret string) (*c04SigGate, error) {
	obs := &c04Obs{}
	g := &c04SigGate{layer: c04EngineLayerName(), strict: strict, tol: tol, obs: obs, callback: callback}
	var sopts []Option
	if callback {
		sopts = append(sopts, WithUnsignedCallback(c04UnsignedCallback(g)))
	}
	srv, err := c04NewServer(sopts...)
	if err != nil {
		return nil, err
	}
	sc := SignatureConfig{Strict: strict, Expire: tol}
	for _, k := range ks.keys {
		sc.PrivateKeys = append(sc.PrivateKeys, PrivateKeyConfig{Fingerprint: k.fp, KeyFile: k.file})
	}
	prefix := "/c04/sig"
	opts := []RouteOption{WithSignature(sc)}
	if jwtSecret != "" {
		prefix = "/c04/both"
		opts = append(opts, WithJwt(jwtSecret))
	}
	var routes []Route
	for _, mth := range c04AllMethods {
		routes = append(routes, Route{Method: mth, Path: prefix + "/:id", Handler: obs.inner()})
	}
	srv.AddRoutes(routes, opts...)
	if err := srv.ng.bindRoutes(srv.router); err != nil {
		return nil, err
	}
	ts := httptest.NewServer(srv.router)
	client := ts.Client()
	g.prefix = prefix
	g.close = func() { ts.Close() }
	g.do = func(q c04SigReq, auth string) (int, error) {
		u := ts.URL + q.Path
		if q.Query != "" {
			u += "?" + q.Query
		}
		req, err := c04NewRequest(q.Method, u, q.Body)
		if err == nil && q.Framing == "chunked" {
			req, err = http.NewRequest(q.Method, u, c04OpaqueReader{bytes.NewReader(q.Body)})
			if err == nil {
				req.ContentLength = -1 // the client sends Transfer-Encoding: chunked
			}
		}
		if err != nil {
			return 0, err
		}
		if q.HasCS {
			req.Header.Set("X-Content-Security", q.CS)
		}
		if q.ReqURI != "" {
			req.Header.Set("X-Request-Uri", q.ReqURI)
		}
		if auth != "" {
			req.Header.Set("Authorization", auth)
		}
		resp, err := client.Do(req)
		if err != nil {
			return 0, err
		}
		_, _ = io.Copy(io.Discard, resp.Body)
		resp.Body.Close()
		return resp.StatusCode, nil
	}
	g.noise = func(q c04SigReq, n int) {
		// raw TCP: announce the whole body, send half of it, half-close: the server's body
		// read ends in an unexpected EOF
		var wg sync.WaitGroup
		for i := 0; i < n; i++ {
			wg.Add(1)
			go func() {
				defer wg.Done()
				conn, err := net.DialTimeout("tcp", ts.Listener.Addr().String(), 10*time.Second)
				if err != nil {
					return
				}
				defer conn.Close()
				_ = conn.SetDeadline(time.Now().Add(20 * time.Second))
				target := q.Path
				if q.Query != "" {
					target += "?" + q.Query
				}
				fmt.Fprintf(conn, "%s %s HTTP/1.1\r\nHost: c04\r\nContent-Length: %d\r\nX-Content-Security: %s\r\nConnection: close\r\n\r\n",
					q.Method, target, len(q.Body), q.CS)
				_, _ = conn.Write(q.Body[:len(q.Body)/2])
				if tc, ok := conn.(*net.TCPConn); ok {
					_ = tc.CloseWrite()
				}
				_, _ = io.Copy(io.Discard, conn) // until the server has answered / closed
			}()
		}
		wg.Wait()
	}
	return g, nil
}

func c04SigDesc(idx int, g *c04SigGate, q c04SigReq) string {
	return fmt.Sprintf("case=%d;layer=%s;strict=%v;callback=%v;tolerance=%s;class=%s;method=%s;path=%s;query=%q;x-request-uri=%q;framing=%q;body(hex)=%s;x-content-security=%q",
		idx, g.layer, g.strict, g.callback, g.tol, q.Class, q.Method, q.Path, q.Query, q.ReqURI, q.Framing, hex.EncodeToString(q.Body), q.CS)
}

func c04ModeName(strict bool) string {
	if strict {
		return "strict"
	}
	return "nonstrict"
}

// c04SigCase runs one signed (or tampered) request through the gate.
func c04SigCase(m *vk.M, idx int, g *c04SigGate, ks *c04KeySet, r *rand.Rand, class string) {
	t0 := time.Now()
	now := t0.Unix()
	tol := int64(g.tol.Seconds())
	var q c04SigReq
	if class == "method-not-covered" {
		q = c04GenSig(r, c04Pick(r, append(append([]c04Weighted{}, c04SigInvalid...), c04SigValid...)), ks, g.prefix, now, tol)
		q.Class = "method-not-covered"
		q.Method = []string{http.MethodPatch, http.MethodOptions}[r.Intn(2)]
		q.Want = c04Admit
	} else {
		q = c04GenSig(r, class, ks, g.prefix, now, tol)
	}
	if r.Intn(3) == 0 {
		q.Framing = "chunked" // every class, with and without a body
	}
	want, why := c04VerifySig(q, ks, now, tol)
	if want == c04Unasserted {
		// e.g. a secret encrypted for another key pair that happens to unpad (p ~ 5e-6)
		m.Count("sig.unasserted."+why, 1)
	} else if want != q.Want {
		m.Inconclusive("harness self-check: signature generator intended %d for class %s, reference verifier says %d (%s): %s", q.Want, q.Class, want, why, c04SigDesc(idx, g, q))
		return
	}
	strictWant := want
	if !g.strict && want != c04Unasserted {
		want = c04Admit // non-strict: verification failures are let through
	}
	m.Current(c04SigDesc(idx, g, q))
	if g.noise != nil && idx%3 == 0 {
		// history must not matter: broken uploads of correctly signed requests right before
		// the judged request, one at a time or several at once (own PRNG stream)
		nr := rand.New(rand.NewSource(int64(idx)*7919 + 17))
		n := 1 + (idx/3)%4
		g.noise(c04NoiseRequest(nr, ks, g.prefix, tol), n)
		m.Count("sig."+g.layer+".broken_upload_requests_before_judged_ones", int64(n))
	}
	g.obs.reset()
	status, err := g.do(q, "")
	if err != nil {
		m.Inconclusive("transport error at %s: %v", c04SigDesc(idx, g, q), err)
		return
	}
	if el := time.Since(t0); el > 8*time.Second {
		m.Count("sig.skipped_slow_case", 1) // verdict would depend on wall-clock: drop the case
		return
	}
	if strings.HasPrefix(g.layer, "engine") && status == http.StatusServiceUnavailable {
		m.Inconclusive("engine answered 503 (breaker/shedder) at %s", c04SigDesc(idx, g, q))
		return
	}
	ran, _, body, cb := g.obs.snapshot()
	sig := "C04:sig:" + g.layer + ":" + c04ModeName(g.strict) + ":"
	if g.callback && strictWant != c04Unasserted {
		g.obs.mu.Lock()
		flags := g.cbStrict
		g.cbStrict = nil
		g.obs.mu.Unlock()
		wantCb := 0
		if strictWant == c04Reject {
			wantCb = 1
		}
		if cb != wantCb {
			m.Violate(sig+"unsigned-callback-calls:"+q.Class, c04SigDesc(idx, g, q), "reference verdict %q: custom unsigned callback ran %d times, want %d", why, cb, wantCb)
			return
		}
		for _, f := range flags {
			if f != g.strict {
				m.Violate(sig+"unsigned-callback-strict-flag:"+q.Class, c04SigDesc(idx, g, q), "callback received strict=%v, route configured strict=%v", f, g.strict)
				return
			}
		}
		m.Count("sig."+g.layer+".unsigned_callback_calls", int64(cb))
	} else if g.callback {
		g.obs.mu.Lock()
		g.cbStrict = nil
		g.obs.mu.Unlock()
	}
	if want == c04Unasserted {
		m.Count(fmt.Sprintf("sig.unasserted_observed.%s.status_%d", q.Class, status), 1)
	}
	m.Count("sig."+g.layer+"."+c04ModeName(g.strict)+".requests", 1)
	m.Count("sig.class."+q.Class, 1)
	m.Count("sig.method."+q.Method, 1)
	if q.Framing == "chunked" {
		if len(q.Body) == 0 {
			m.Count("sig.framing.chunked_empty_body", 1)
		} else {
			m.Count("sig.framing.chunked_with_body", 1)
		}
	} else if len(q.Body) == 0 {
		m.Count("sig.framing.no_body", 1)
	} else {
		m.Count("sig.framing.content_length", 1)
	}
	switch {
	case ran > 1:
		m.Violate(sig+"handler-ran-twice:"+q.Class, c04SigDesc(idx, g, q), "inner handler ran %d times", ran)
		return
	case ran == 1 && status != http.StatusOK:
		m.Violate(sig+"handler-ran-but-status-not-200:"+q.Class, c04SigDesc(idx, g, q), "inner handler ran but status is %d", status)
		return
	case ran == 0 && status == http.StatusOK:
		m.Violate(sig+"status-200-without-handler:"+q.Class, c04SigDesc(idx, g, q), "status 200 but the inner handler did not run")
		return
	}
	switch want {
	case c04Admit:
		if ran != 1 {
			m.Violate(sig+"rejected-valid:"+q.Class, c04SigDesc(idx, g, q), "reference verdict %q (strict verdict %d) but the handler did not run; status %d", why, strictWant, status)
			return
		}
		m.Count("sig."+g.layer+".admitted", 1)
		if strictWant == c04Reject {
			m.Count("sig.nonstrict_passed_through_unverified", 1)
		}
		// evidence only: what the handler read
		exp := q.Body
		if strictWant == c04Admit && c04Covered[q.Method] && q.Plain != nil && !bytes.Equal(q.Plain, q.Body) {
			exp = q.Plain
		}
		if bytes.Equal(body, exp) {
			m.Count("sig.body_seen_by_handler_as_expected", 1)
		} else {
			m.Count("sig.body_seen_by_handler_differs(not asserted)", 1)
		}
	case c04Reject:
		if ran != 0 {
			m.Violate(sig+"admitted-invalid:"+q.Class, c04SigDesc(idx, g, q), "reference verifier rejects (%s) but the handler ran", why)
			return
		}
		if status != http.StatusForbidden {
			m.Violate(sig+"reject-status-not-403:"+q.Class, c04SigDesc(idx, g, q), "rejected (%s) with status %d, want 403", why, status)
			return
		}
		m.Count("sig."+g.layer+".rejected_403", 1)
	}
	m.Case(vk.Digest(g.layer, g.strict, q.Class, q.Method, q.Path, q.Query, q.CS), want != c04Unasserted)
	if m.WantSample() && idx%97 == 5 {
		cs := q.CS
		if len(cs) > 100 {
			cs = cs[:100] + "…"
		}
		m.Sample(map[string]any{"layer": g.layer, "strict": g.strict, "tolerance": g.tol.String(), "class": q.Class, "method": q.Method,
			"url": q.Path + "?" + q.Query, "body_len": len(q.Body), "x_content_security": cs, "reference_verdict": why,
			"status": status, "handler_ran": ran})
	}
}

const c04SigRule = "for every generated request: in strict mode the inner handler runs (200) iff an independent implementation of the X-Content-Security scheme verifies it (known fingerprint, RSA-decryptable secret, |now-time| <= tolerance with a 20 s guard band, HMAC-SHA256 over time/method/path/query/sha256(body) equal); every single-field tampering gives 403 without running the handler; non-strict mode and PATCH/OPTIONS always run the handler"

var c04Tolerances = []time.Duration{time.Hour, 5 * time.Minute, 60 * time.Second, 90500 * time.Millisecond, 45 * time.Second}

func c04SigLayer(t *testing.T, layer string, n int) {
	logx.Disable()
	m := vk.New(t, "C04", c04SigRule)
	defer m.Done()
	ks, err := c04NewKeySet(t.TempDir())
	if err != nil {
		m.Inconclusive("cannot create RSA keys: %v", err)
		return
	}
	gates := map[string]*c04SigGate{}
	defer func() {
		for _, g := range gates {
			g.close()
		}
	}()
	gate := func(tol time.Duration, strict, callback bool) *c04SigGate {
		k := fmt.Sprint(tol, strict, callback)
		if g, ok := gates[k]; ok {
			return g
		}
		var g *c04SigGate
		var err error
		if layer == "handler" {
			g, err = c04SigHandlerGate(ks, tol, strict, callback)
		} else {
			g, err = c04SigEngineGate(ks, tol, strict, callback, "")
		}
		if err != nil {
			m.Inconclusive("cannot build %s gate: %v", layer, err)
			return nil
		}
		gates[k] = g
		return g
	}
	for idx := 1; idx <= n; idx++ {
		if !m.Only(idx) {
			continue
		}
		r := m.Rand("sig", layer, idx)
		strict := r.Intn(5) != 0
		g := gate(c04Tolerances[r.Intn(len(c04Tolerances))], strict, r.Intn(4) == 0)
		if g == nil {
			return
		}
		var class string
		switch x := r.Intn(100); {
		case x < 30:
			class = c04Pick(r, c04SigValid)
		case x < 95:
			class = c04Pick(r, c04SigInvalid)
		default:
			class = "method-not-covered"
		}
		c04SigCase(m, idx, g, ks, r, class)
		if m.ViolCount() > 60 {
			m.Note("stopped after %d violations", m.ViolCount())
			return
		}
		if idx%500 == 0 {
			m.Progress()
		}
	}
	m.Note("%s layer: %d gate configurations (tolerance x strict) used", layer, len(gates))
}

// TestVerifC04SignatureHandler: handler.ContentSecurityHandler called directly.
func TestVerifC04SignatureHandler(t *testing.T) {
	c04SigLayer(t, "handler", vk.N(3000, 60000))
}

// TestVerifC04SignatureEngine: WithSignature routes composed by engine.signatureVerifier.
func TestVerifC04SignatureEngine(t *testing.T) {
	c04SigLayer(t, "engine", vk.N(1500, 30000))
}

// TestVerifC04EngineJwtAndSignature: a route with both WithJwt and a strict
// WithSignature: handler runs iff both verify; bad token -> 401, good token with a
// bad signature -> 403.
func TestVerifC04EngineJwtAndSignature(t *testing.T) { c04EngineBoth(t) }

func c04EngineBoth(t *testing.T) {
	logx.Disable()
	m := vk.New(t, "C04", "route with WithJwt + strict WithSignature: inner handler runs iff the reference JWT verifier and the reference signature verifier both accept; JWT failure -> 401, else signature failure -> 403")
	defer m.Done()
	ks, err := c04NewKeySet(t.TempDir())
	if err != nil {
		m.Inconclusive("cannot create RSA keys: %v", err)
		return
	}
	const secret = "c04-both-secret-0123456789"
	tolD := 5 * time.Minute
	g, err := c04SigEngineGate(ks, tolD, true, false, secret)
	if err != nil {
		m.Inconclusive("cannot build gate: %v", err)
		return
	}
	defer g.close()
	jwtClasses := []string{"valid-secret", "valid-no-time-claims", "expired", "wrong-secret", "no-header", "alg-none", "sig-bitflip", "not-yet-valid"}
	sigClasses := []string{"valid", "valid-encrypted-body", "tamper-body", "tamper-method", "header-missing", "ts-too-old", "tamper-signature", "fingerprint-unknown", "tamper-query"}
	reps := vk.N(4, 80)
	idx := 0
	for rep := 0; rep < reps; rep++ {
		for _, jc := range jwtClasses {
			for _, sc := range sigClasses {
				idx++
				if !m.Only(idx) {
					continue
				}
				r := m.Rand("both", idx)
				t0 := time.Now()
				now := t0.Unix()
				j := c04GenJwt(r, jc, secret, "", now)
				q := c04GenSig(r, sc, ks, g.prefix, now, int64(tolD.Seconds()))
				jw, custom, jwhy := c04VerifyJWT(j.Auth, j.HasHdr, secret, "", now)
				sw, swhy := c04VerifySig(q, ks, now, int64(tolD.Seconds()))
				desc := fmt.Sprintf("%s;jwt-class=%s;authorization=%q", c04SigDesc(idx, g, q), j.Class, j.Auth)
				if jw != j.Want || sw != q.Want || jw == c04Unasserted || sw == c04Unasserted {
					m.Inconclusive("harness self-check failed (%d/%d %s, %d/%d %s): %s", jw, j.Want, jwhy, sw, q.Want, swhy, desc)
					return
				}
				m.Current(desc)
				g.obs.reset()
				auth := j.Auth
				if !j.HasHdr {
					auth = ""
				}
				status, err := g.do(q, auth)
				if err != nil {
					m.Inconclusive("transport error: %v at %s", err, desc)
					return
				}
				if time.Since(t0) > 8*time.Second {
					m.Count("both.skipped_slow_case", 1)
					continue
				}
				if status == http.StatusServiceUnavailable {
					m.Inconclusive("engine answered 503 at %s", desc)
					return
				}
				ran, req, _, _ := g.obs.snapshot()
				wantStatus := http.StatusOK
				if jw == c04Reject {
					wantStatus = http.StatusUnauthorized
				} else if sw == c04Reject {
					wantStatus = http.StatusForbidden
				}
				m.Count(fmt.Sprintf("both.want_%d", wantStatus), 1)
				cls := jc + "+" + sc
				// signature names the component whose verdict was not honoured
				part := "jwt:" + jc
				if jw == c04Admit {
					part = "signature:" + sc
				}
				switch {
				case wantStatus == http.StatusOK && ran != 1:
					part = "jwt:" + jc
					if status == http.StatusForbidden {
						part = "signature:" + sc
					}
					m.Violate("C04:both:"+g.layer+":rejected-valid:"+part, desc, "both verifiers accept (%s / %s) but handler did not run; status %d", jwhy, swhy, status)
				case wantStatus != http.StatusOK && ran != 0:
					m.Violate("C04:both:"+g.layer+":admitted-invalid:"+part, desc, "jwt verdict %s, signature verdict %s, yet the handler ran (status %d)", jwhy, swhy, status)
				case status != wantStatus:
					m.Violate("C04:both:"+g.layer+":wrong-status:"+part, desc, "jwt verdict %s, signature verdict %s: status %d, want %d", jwhy, swhy, status, wantStatus)
				case wantStatus == http.StatusOK:
					if bad := c04CheckClaims(req, custom); bad != "" {
						m.Violate("C04:both:"+g.layer+":claims-not-visible:"+part, desc, "%s", bad)
					}
				}
				if m.ViolCount() > 40 {
					m.Note("stopped after %d violations", m.ViolCount())
					return
				}
				m.Case(vk.Digest("both", cls, j.Auth, q.CS), true)
				if m.WantSample() && idx%17 == 3 {
					m.Sample(map[string]any{"jwt_class": jc, "sig_class": sc, "jwt_verdict": jwhy, "sig_verdict": swhy, "status": status, "handler_ran": ran})
				}
			}
		}
	}
}

// TestVerifC04EngineSignatureConfig: a signature-protected route whose verifier cannot be
// built (key file missing / not PEM / not a PKCS#1 RSA key / no key at all in strict mode)
// must not end up served without protection: either binding the routes fails, or the route
// still answers an unsigned request with 403 without running the handler. With a usable key
// next to the broken one the same holds; non-strict without keys lets requests through.
func TestVerifC04EngineSignatureConfig(t *testing.T) {
	logx.Disable()
	m := vk.New(t, "C04", "engine.signatureVerifier construction: for a strict WithSignature route with an unusable key configuration, bindRoutes fails or unsigned/garbage-signed requests get 403 and the handler does not run; a non-strict route without keys runs the handler")
	defer m.Done()
	dir := t.TempDir()
	ks, err := c04NewKeySet(dir)
	if err != nil {
		m.Inconclusive("cannot create RSA keys: %v", err)
		return
	}
	write := func(name string, b []byte) string {
		f := filepath.Join(dir, name)
		if err := os.WriteFile(f, b, 0o600); err != nil {
			m.Inconclusive("cannot write %s: %v", f, err)
		}
		return f
	}
	pkcs8, _ := x509.MarshalPKCS8PrivateKey(ks.outside)
	good := PrivateKeyConfig{Fingerprint: ks.keys[0].fp, KeyFile: ks.keys[0].file}
	type cfg struct {
		name     string
		keys     []PrivateKeyConfig
		unusable bool
	}
	cfgs := []cfg{
		{"key-file-missing", []PrivateKeyConfig{{Fingerprint: "fp", KeyFile: filepath.Join(dir, "does-not-exist.pem")}}, true},
		{"key-file-not-pem", []PrivateKeyConfig{{Fingerprint: "fp", KeyFile: write("garbage.pem", []byte("this is not a PEM file\n"))}}, true},
		{"key-file-empty", []PrivateKeyConfig{{Fingerprint: "fp", KeyFile: write("empty.pem", nil)}}, true},
		{"key-file-pkcs8-not-pkcs1", []PrivateKeyConfig{{Fingerprint: "fp", KeyFile: write("pkcs8.pem", pem.EncodeToMemory(&pem.Block{Type: "PRIVATE KEY", Bytes: pkcs8}))}}, true},
		{"key-file-public-key", []PrivateKeyConfig{{Fingerprint: "fp", KeyFile: write("pub.pem", ks.keys[0].pubPEM)}}, true},
		{"key-file-truncated-der", []PrivateKeyConfig{{Fingerprint: "fp", KeyFile: write("trunc.pem", pem.EncodeToMemory(&pem.Block{Type: "RSA PRIVATE KEY", Bytes: x509.MarshalPKCS1PrivateKey(ks.outside)[:100]}))}}, true},
		{"good-key-then-missing-file", []PrivateKeyConfig{good, {Fingerprint: "fp2", KeyFile: filepath.Join(dir, "nope.pem")}}, true},
		{"missing-file-then-good-key", []PrivateKeyConfig{{Fingerprint: "fp2", KeyFile: filepath.Join(dir, "nope.pem")}, good}, true},
		{"no-keys", nil, true},
		{"good-key", []PrivateKeyConfig{good}, false},
	}
	idx := 0
	for _, c := range cfgs {
		for _, strict := range []bool{true, false} {
			idx++
			if !m.Only(idx) {
				continue
			}
			desc := fmt.Sprintf("case=%d;config=%s;strict=%v", idx, c.name, strict)
			m.Current(desc)
			obs := &c04Obs{}
			srv, err := c04NewServer()
			if err != nil {
				m.Inconclusive("NewServer: %v", err)
				return
			}
			srv.AddRoutes([]Route{{Method: http.MethodPost, Path: "/c04/cfg/:id", Handler: obs.inner()}},
				WithSignature(SignatureConfig{Strict: strict, Expire: time.Minute, PrivateKeys: c.keys}))
			bindErr := srv.ng.bindRoutes(srv.router)
			m.Case(vk.Digest("cfg", c.name, strict), true)
			if bindErr != nil {
				m.Count("cfg.bind_failed", 1)
				if !c.unusable {
					m.Violate("C04:sigconfig:"+c04ModeName(strict)+":usable-config-rejected:"+c.name, desc, "bindRoutes failed for a usable key configuration: %v", bindErr)
				}
				continue // not served at all: nothing is admitted
			}
			m.Count("cfg.bind_ok", 1)
			ts := httptest.NewServer(srv.router)
			probes := []c04SigReq{
				{Class: "unsigned", Method: http.MethodPost, Path: "/c04/cfg/1", Body: []byte("{}")},
				{Class: "garbage-header", Method: http.MethodPost, Path: "/c04/cfg/2", Body: []byte("{}"), HasCS: true,
					CS: c04Header("fp", base64.StdEncoding.EncodeToString(c04RandBytes(m.Rand("cfg", idx), 128)), "AAAA")},
			}
			for _, q := range probes {
				obs.reset()
				req, _ := c04NewRequest(q.Method, ts.URL+q.Path, q.Body)
				if q.HasCS {
					req.Header.Set("X-Content-Security", q.CS)
				}
				resp, err := ts.Client().Do(req)
				if err != nil {
					m.Inconclusive("transport error: %v (%s)", err, desc)
					ts.Close()
					return
				}
				_, _ = io.Copy(io.Discard, resp.Body)
				resp.Body.Close()
				ran, _, _, _ := obs.snapshot()
				m.Count(fmt.Sprintf("cfg.%s.status_%d", c04ModeName(strict), resp.StatusCode), 1)
				switch {
				case strict && (ran != 0 || resp.StatusCode != http.StatusForbidden):
					m.Violate("C04:sigconfig:strict:served-unprotected:"+c.name, desc+";probe="+q.Class, "strict signature route came up with configuration %q and answered a %s request with status %d, handler ran %d times (want 403, not run)", c.name, q.Class, resp.StatusCode, ran)
				case !strict && (ran != 1 || resp.StatusCode != http.StatusOK):
					m.Violate("C04:sigconfig:nonstrict:not-passed-through:"+c.name, desc+";probe="+q.Class, "non-strict signature route answered a %s request with status %d, handler ran %d times (want 200, run once)", q.Class, resp.StatusCode, ran)
				}
			}
			ts.Close()
			if m.WantSample() {
				m.Sample(map[string]any{"config": c.name, "strict": strict, "bind_error": fmt.Sprint(bindErr)})
			}
		}
	}
}
