//go:build verif

package api

// C02 — server guards (DESIGN.md §3 C02): shared machinery of the REST monitors.
//
// Every request carries the id of a *scripted* handler run. The script is a list
// of steps (set header, WriteHeader, Write n bytes, block on ctx.Done() and then
// park on a harness gate, park on the gate, panic, sleep). The handler records
// what happened to each step (sequence stamps from vk.Seq, write results); the
// oracle derives the only legal response(s) from the script and compares them with
// what the client (httptest recorder or a real net/http client) received.
//
// No wall clock decides a verdict: deterministic cases are *gated* (the handler
// stays parked until the client holds its response), racing cases accept every
// member of the legal set.

import (
	"bytes"
	"context"
	"errors"
	"fmt"
	"math/rand"
	"net/http"
	"net/http/httptest"
	"runtime"
	"sort"
	"strings"
	"sync"
	"sync/atomic"
	"time"

	"github.com/gotid/god/api/httpx"
	"github.com/gotid/god/lib/logx"
	"verif.local/vk"
)

const (
	c02TimeoutBody = "Request Timeout" // handler.reason
	c02RunHeader   = "X-C02-Run"
	c02LongTimeout = 60 * time.Second // "never fires" route timeout for handlers that do not block
	c02Watchdog    = 30 * time.Second // generous watchdog; firing = inconclusive
)

var c02ErrHandlerTimeout = http.ErrHandlerTimeout.Error()

// ---------------------------------------------------------------------------
// scripts

type c02Step struct {
	Op string `json:"op"` // hdr status write block ctxwait park panic sleep yield
	K  string `json:"k,omitempty"`
	V  string `json:"v,omitempty"`
	N  int    `json:"n,omitempty"` // status code / byte count / microseconds
}

type c02Script struct {
	Kind  string    `json:"kind"`
	Steps []c02Step `json:"steps"`
	// Reuse: the handler produces every write from ONE scratch buffer which it
	// overwrites for the next write and scribbles over afterwards (bufio / io.Copy
	// style). http.ResponseWriter.Write must not retain the slice.
	Reuse bool `json:"reuse_buffer,omitempty"`
	// InMW: the script is executed by the middleware registered with Server.Use
	// (which then does not call the route handler). User middlewares sit inside the
	// guards, so everything the chain owes a handler it owes them as well.
	InMW bool `json:"in_use_middleware,omitempty"`
}

// c02Bytes is the payload of the write at step index i of run id: recognisable
// and different for every (run, step).
func c02Bytes(id string, i, n int) []byte {
	if n == 0 {
		return []byte{}
	}
	p := []byte(fmt.Sprintf("<%s#%d>", id, i))
	out := make([]byte, n)
	for k := range out {
		if k < len(p) {
			out[k] = p[k]
		} else {
			out[k] = byte('a' + (k*7+i)%26)
		}
	}
	return out
}

// c02Model is the response a handler that executed steps[:upto] has produced.
type c02Model struct {
	status    int
	headers   [][2]string // header lines (key, value) in force when the header was committed, grouped by key
	hkeys     []string
	hvals     map[string][]string
	body      []byte
	committed bool // a status or write step was executed
	writes    int
}

func (s *c02Script) model(id string, upto int) c02Model {
	mo := c02Model{status: http.StatusOK, hvals: map[string][]string{}}
	if upto > len(s.Steps) {
		upto = len(s.Steps)
	}
	for i := 0; i < upto; i++ {
		st := s.Steps[i]
		switch st.Op {
		case "hdr", "hadd", "hlist":
			if !mo.committed {
				if _, seen := mo.hvals[st.K]; !seen {
					mo.hkeys = append(mo.hkeys, st.K)
				}
				switch st.Op {
				case "hdr": // Header().Set
					mo.hvals[st.K] = []string{st.V}
				case "hadd": // Header().Add
					mo.hvals[st.K] = append(mo.hvals[st.K], st.V)
				case "hlist": // Header()[K] = []string{...}
					mo.hvals[st.K] = strings.Split(st.V, "|")
				}
			}
		case "status":
			if !mo.committed {
				mo.status = st.N
				mo.committed = true
			}
		case "write":
			mo.committed = true
			mo.body = append(mo.body, c02Bytes(id, i, st.N)...)
			mo.writes++
		}
	}
	for _, k := range mo.hkeys {
		for _, v := range mo.hvals[k] {
			mo.headers = append(mo.headers, [2]string{k, v})
		}
	}
	return mo
}

// c02HandlerHeaderValues lists every (key, value) the script ever puts into the
// header map.
func c02HandlerHeaderValues(sc *c02Script) [][2]string {
	var out [][2]string
	for _, st := range sc.Steps {
		switch st.Op {
		case "hdr", "hadd":
			out = append(out, [2]string{st.K, st.V})
		case "hlist":
			for _, v := range strings.Split(st.V, "|") {
				out = append(out, [2]string{st.K, v})
			}
		}
	}
	return out
}

// c02GenMultiHeaders: header keys carrying two or more values, built the ways
// handlers build them.
func c02GenMultiHeaders(r *rand.Rand) []c02Step {
	var st []c02Step
	n := r.Intn(1000)
	for _, pick := range r.Perm(4)[:1+r.Intn(3)] {
		switch pick {
		case 0: // two cookies
			st = append(st, c02Step{Op: "hadd", K: "Set-Cookie", V: fmt.Sprintf("c02a=%d; Path=/", n)}, c02Step{Op: "hadd", K: "Set-Cookie", V: fmt.Sprintf("c02b=%d; HttpOnly", n+1)})
		case 1: // a slice assigned in one go
			st = append(st, c02Step{Op: "hlist", K: "Vary", V: "Accept-Encoding|Origin"})
		case 2: // three values on a custom key
			for j := 0; j < 3; j++ {
				st = append(st, c02Step{Op: "hadd", K: "X-C02-Multi", V: fmt.Sprintf("m%d-%d", j, n)})
			}
		case 3: // set, then added to
			st = append(st, c02Step{Op: "hdr", K: "X-C02-Grow", V: fmt.Sprintf("g0-%d", n)}, c02Step{Op: "hadd", K: "X-C02-Grow", V: fmt.Sprintf("g1-%d", n)})
		}
	}
	return st
}

func (s *c02Script) index(op string) int {
	for i, st := range s.Steps {
		if st.Op == op {
			return i
		}
	}
	return -1
}

var c02Statuses = []int{200, 200, 201, 202, 203, 400, 401, 403, 404, 409, 418, 422, 429}
var c02Statuses5xx = []int{500, 501, 502, 503, 504}

// c02GenResponseSteps generates hdr* status? write* (the "response" part of a
// script). allow5xx lets the handler choose a 5xx status of its own.
func c02GenResponseSteps(r *rand.Rand, allow5xx bool) []c02Step {
	var st []c02Step
	nh := r.Intn(4)
	for i := 0; i < nh; i++ {
		st = append(st, c02Step{Op: "hdr", K: fmt.Sprintf("X-C02-H%d", i), V: fmt.Sprintf("v%d-%d", i, r.Intn(1000))})
	}
	if r.Intn(5) == 0 {
		st = append(st, c02Step{Op: "hdr", K: "Content-Type", V: "application/x-c02"})
	}
	if r.Intn(3) == 0 {
		st = append(st, c02GenMultiHeaders(r)...)
	}
	if r.Intn(3) > 0 { // explicit status
		code := c02Statuses[r.Intn(len(c02Statuses))]
		if allow5xx && r.Intn(8) == 0 {
			code = c02Statuses5xx[r.Intn(len(c02Statuses5xx))]
		}
		st = append(st, c02Step{Op: "status", N: code})
	}
	nw := r.Intn(5)
	if r.Intn(10) == 0 {
		nw = 5 + r.Intn(20)
	}
	for i := 0; i < nw; i++ {
		n := r.Intn(64)
		switch r.Intn(10) {
		case 0:
			n = 0
		case 1:
			n = 1000 + r.Intn(8000)
		}
		st = append(st, c02Step{Op: "write", N: n})
	}
	return st
}

// c02Insert puts step x at a random position in [lo, len(st)].
func c02Insert(r *rand.Rand, st []c02Step, x c02Step, lo int) []c02Step {
	p := lo + r.Intn(len(st)-lo+1)
	out := make([]c02Step, 0, len(st)+1)
	out = append(out, st[:p]...)
	out = append(out, x)
	out = append(out, st[p:]...)
	return out
}

func c02GenFast(r *rand.Rand, allow5xx bool) *c02Script {
	st := c02GenResponseSteps(r, allow5xx)
	if r.Intn(4) == 0 {
		st = c02Insert(r, st, c02Step{Op: "yield"}, 0)
	}
	st = c02AddWriterCalls(r, st)
	return &c02Script{Kind: "fast", Steps: st, Reuse: r.Intn(3) == 0}
}

// c02AddWriterCalls sprinkles the optional ResponseWriter interfaces over a
// script of a handler that finishes in time: Flush (only after the response is
// committed, so that it cannot change the status), Push (anywhere; HTTP/1 and the
// recorder answer ErrNotSupported) and Hijack (before anything is committed; where
// the writer supports it the handler takes the connection and writes the very
// same response itself, otherwise it carries on normally). None of them may change
// what the client receives.
func c02AddWriterCalls(r *rand.Rand, st []c02Step) []c02Step {
	first := len(st)
	for i, s := range st {
		if s.Op == "status" || s.Op == "write" {
			first = i
			break
		}
	}
	if first < len(st) && r.Intn(5) == 0 {
		st = c02Insert(r, st, c02Step{Op: []string{"flush", "flushrc"}[r.Intn(2)]}, first+1)
	}
	if r.Intn(8) == 0 {
		st = c02Insert(r, st, c02Step{Op: "push"}, 0)
	}
	if r.Intn(8) == 0 {
		p := r.Intn(first + 1)
		out := append([]c02Step{}, st[:p]...)
		out = append(out, c02Step{Op: "hijack"})
		st = append(out, st[p:]...)
	}
	return st
}

// c02GenLate: a gated late handler. It blocks on ctx.Done() somewhere, stays
// parked until the client has its response, then continues.
func c02GenLate(r *rand.Rand) *c02Script {
	st := c02GenResponseSteps(r, false)
	st = c02Insert(r, st, c02Step{Op: "block"}, 0)
	// A handler may try to flush what it has produced so far (before / between its
	// writes) and then overrun: whatever the writer does with Flush, nothing written
	// before the deadline may reach the client.
	if r.Intn(2) == 0 {
		b := 0
		for i, x := range st {
			if x.Op == "block" {
				b = i
			}
		}
		for k := 1 + r.Intn(2); k > 0; k-- {
			p := r.Intn(b + 1)
			out := append([]c02Step{}, st[:p]...)
			out = append(out, c02Step{Op: []string{"flush", "flushrc"}[r.Intn(2)]})
			st = append(out, st[p:]...)
			b++
		}
	}
	// make sure something is attempted after the deadline in most cases
	if r.Intn(4) > 0 {
		st = append(st, c02Step{Op: "write", N: 1 + r.Intn(100)})
	}
	if r.Intn(4) == 0 {
		st = append(st, c02Step{Op: "status", N: 202})
	}
	return &c02Script{Kind: "late", Steps: st, Reuse: r.Intn(4) == 0}
}

func c02GenLatePanic(r *rand.Rand) *c02Script {
	sc := c02GenLate(r)
	b := sc.index("block")
	sc.Steps = c02Insert(r, sc.Steps, c02RandPanic(r), b+1)
	sc.Kind = "latepanic"
	return sc
}

// c02GenCancel: like late, but the deadline never fires; the client cancels.
func c02GenCancel(r *rand.Rand) *c02Script {
	sc := c02GenLate(r)
	sc.Kind = "cancel"
	return sc
}

// c02PanicKinds is the alphabet of panic values of the scripted handlers: every
// one of them is a legal thing for a handler to die with, and the chain owes the
// client the same answer for all of them.
var c02PanicKinds = []string{"string", "error", "custom", "typednil", "int", "nilmap", "index", "nilderef", "abort", "wrapabort", "badstatus"}

type c02Custom struct{ Why string }

func (c *c02Custom) Error() string { return "c02 custom panic value" }

// c02DoPanic panics with a value of the given kind (runtime errors are provoked
// for real).
func c02DoPanic(kind, id string, w http.ResponseWriter) {
	switch kind {
	case "badstatus":
		// an out-of-range status: timeoutWriter / net/http panic on it unless the
		// header is already out (then it is ignored and the plain panic below fires)
		w.WriteHeader(1000)
	case "error":
		panic(errors.New("c02 scripted panic (error) in run " + id))
	case "custom":
		panic(c02Custom{Why: "c02 scripted panic (struct) in run " + id})
	case "typednil":
		var p *c02Custom
		panic(p) // non-nil interface holding a nil pointer
	case "int":
		panic(42)
	case "nilmap":
		var mp map[string]int
		mp[id] = 1
	case "index":
		var sl []int
		_ = sl[len(id)]
	case "nilderef":
		var p *c02Custom
		_ = p.Why
	case "abort":
		panic(http.ErrAbortHandler)
	case "wrapabort":
		panic(fmt.Errorf("c02 copy failed in run %s: %w", id, http.ErrAbortHandler))
	}
	panic("c02 scripted panic in run " + id)
}

func c02RandPanic(r *rand.Rand) c02Step {
	return c02Step{Op: "panic", V: c02PanicKinds[r.Intn(len(c02PanicKinds))]}
}

func c02GenPanic(r *rand.Rand, committed bool) *c02Script {
	mode := "committed"
	if !committed {
		mode = []string{"first", "hdrs", "any"}[r.Intn(3)]
	}
	return c02GenPanicAt(r, mode, c02RandPanic(r).V)
}

// c02GenPanicAt: panic with a value of the given kind
//
//	first      as the very first thing the handler does
//	hdrs       after setting headers only (nothing committed)
//	any        anywhere before the first status/write
//	committed  after a status and/or a partial body
func c02GenPanicAt(r *rand.Rand, mode, kind string) *c02Script {
	st := c02GenResponseSteps(r, false)
	if mode == "hdrs" && (len(st) == 0 || st[0].Op != "hdr") {
		st = append([]c02Step{{Op: "hdr", K: "X-C02-H9", V: fmt.Sprintf("v9-%d", r.Intn(1000))}}, st...)
	}
	first := len(st)
	for i, s := range st {
		if s.Op == "status" || s.Op == "write" {
			first = i
			break
		}
	}
	pn := c02Step{Op: "panic", V: kind}
	if mode == "committed" {
		if first == len(st) {
			st = append(st, c02Step{Op: "write", N: 1 + r.Intn(50)})
		}
		st = c02Insert(r, st, pn, first+1)
		return &c02Script{Kind: "panic-committed", Steps: st}
	}
	p := 0
	switch mode {
	case "hdrs":
		p = first
	case "any":
		p = r.Intn(first + 1)
	}
	out := append([]c02Step{}, st[:p]...)
	out = append(out, pn)
	out = append(out, st[p:]...)
	return &c02Script{Kind: "panic", Steps: out}
}

// c02GenPark: handler parks on the harness gate (not on ctx) in the middle of
// producing its response; used for MaxConns.
func c02GenPark(r *rand.Rand) *c02Script {
	st := c02GenResponseSteps(r, false)
	st = c02Insert(r, st, c02Step{Op: "park"}, 0)
	return &c02Script{Kind: "park", Steps: st}
}

// c02GenRacing: a handler whose writes straddle the deadline d. Either it
// sleeps between writes for a total of 0.3..1.7 d, or it waits for ctx.Done() and
// then carries on immediately (no gate), so that `done` and the deadline race.
func c02GenRacing(r *rand.Rand, d time.Duration) *c02Script {
	st := c02GenResponseSteps(r, false)
	for len(st) < 3 || st[len(st)-1].Op != "write" {
		st = append(st, c02Step{Op: "write", N: 1 + r.Intn(200)})
	}
	if r.Intn(3) == 0 {
		st = c02Insert(r, st, c02Step{Op: "ctxwait"}, 0)
		return &c02Script{Kind: "racing", Steps: st, Reuse: r.Intn(2) == 0}
	}
	total := time.Duration(float64(d) * (0.3 + 1.4*r.Float64()))
	k := 1 + r.Intn(6)
	for i := 0; i < k; i++ {
		us := int(total/time.Microsecond) / k
		st = c02Insert(r, st, c02Step{Op: "sleep", N: us}, 0)
	}
	return &c02Script{Kind: "racing", Steps: st}
}

// ---------------------------------------------------------------------------
// handler side

type c02Ev struct {
	Step   int    `json:"step"`
	Op     string `json:"op"`
	N      int    `json:"n"`
	Err    string `json:"err,omitempty"`
	Before int64  `json:"before"`
	After  int64  `json:"after"`
}

type c02Route struct {
	Method    string
	Path      string
	Timeout   time.Duration // effective route timeout, 0 = none
	MaxBytes  int64         // effective limit, 0 = none
	Class     string
	NoBreaker bool
	Label     string // how the timeout was configured: config-{zero,negative,positive}:route-{unset,set}

	inside    int64
	maxInside int64
	fails     int64      // taint: the route's breaker may have recorded a failure (see c02Taint)
	spareMu   sync.Mutex // spare routes: one request at a time (MaxConns must not interfere)
}

type c02Run struct {
	id     string
	script *c02Script
	route  *c02Route

	gate       chan struct{}
	enteredCh  chan struct{}
	blockedCh  chan struct{}
	parkedCh   chan struct{}
	returnedCh chan struct{}
	reqHdr     [][2]string // extra request headers of this run
	entries    int32
	sawDone    int32
	once       [4]sync.Once

	mu      sync.Mutex
	evs     []c02Ev
	ctxErr  string
	retSeq  int64
	bodyLen int64
	stuck   string
}

func (run *c02Run) release() { run.once[0].Do(func() { close(run.gate) }) }

func (run *c02Run) add(ev c02Ev) {
	run.mu.Lock()
	run.evs = append(run.evs, ev)
	run.mu.Unlock()
}

func (run *c02Run) events() []c02Ev {
	run.mu.Lock()
	defer run.mu.Unlock()
	return append([]c02Ev(nil), run.evs...)
}

func (run *c02Run) entered() int { return int(atomic.LoadInt32(&run.entries)) }

func (run *c02Run) returnedSeq() int64 {
	run.mu.Lock()
	defer run.mu.Unlock()
	return run.retSeq
}

func (run *c02Run) waitGate(what string) {
	t := time.NewTimer(3 * c02Watchdog)
	defer t.Stop()
	select {
	case <-run.gate:
	case <-t.C:
		run.mu.Lock()
		run.stuck = what
		run.mu.Unlock()
	}
}

func (run *c02Run) exec(w http.ResponseWriter, r *http.Request) {
	if atomic.AddInt32(&run.entries, 1) == 1 {
		close(run.enteredCh)
	}
	rt := run.route
	cur := atomic.AddInt64(&rt.inside, 1)
	for {
		old := atomic.LoadInt64(&rt.maxInside)
		if cur <= old || atomic.CompareAndSwapInt64(&rt.maxInside, old, cur) {
			break
		}
	}
	defer func() {
		atomic.AddInt64(&rt.inside, -1)
		run.mu.Lock()
		run.retSeq = vk.Seq()
		run.mu.Unlock()
		run.once[3].Do(func() { close(run.returnedCh) })
	}()
	var scratch []byte
	for i, st := range run.script.Steps {
		switch st.Op {
		case "hdr":
			w.Header().Set(st.K, st.V)
		case "hadd":
			w.Header().Add(st.K, st.V)
		case "hlist":
			w.Header()[st.K] = strings.Split(st.V, "|")
		case "status":
			b := vk.Seq()
			w.WriteHeader(st.N)
			run.add(c02Ev{Step: i, Op: "status", N: st.N, Before: b, After: vk.Seq()})
		case "write":
			p := c02Bytes(run.id, i, st.N)
			if run.script.Reuse {
				if cap(scratch) < len(p) {
					scratch = make([]byte, len(p), 2*len(p)+16)
				}
				scratch = scratch[:len(p)]
				copy(scratch, p)
				p = scratch
			}
			b := vk.Seq()
			n, err := w.Write(p)
			if run.script.Reuse {
				for k := range scratch { // the buffer is the handler's again
					scratch[k] = '#'
				}
			}
			ev := c02Ev{Step: i, Op: "write", N: n, Before: b, After: vk.Seq()}
			if err != nil {
				ev.Err = err.Error()
			} else if n != len(p) {
				ev.Err = fmt.Sprintf("short write %d/%d", n, len(p))
			}
			run.add(ev)
		case "block", "ctxwait":
			t := time.NewTimer(3 * c02Watchdog)
			select {
			case <-r.Context().Done():
				atomic.StoreInt32(&run.sawDone, 1)
			case <-run.gate: // the harness gave up waiting for the deadline (inconclusive there)
				run.mu.Lock()
				run.stuck = "ctx.Done() had not fired when the gate was opened"
				run.mu.Unlock()
			case <-t.C:
				run.mu.Lock()
				run.stuck = "ctx.Done() never fired"
				run.mu.Unlock()
			}
			t.Stop()
			run.mu.Lock()
			if err := r.Context().Err(); err != nil {
				run.ctxErr = err.Error()
			}
			run.mu.Unlock()
			s := vk.Seq()
			run.add(c02Ev{Step: i, Op: st.Op, Before: s, After: s})
			run.once[1].Do(func() { close(run.blockedCh) })
			if st.Op == "block" {
				run.waitGate("gate after ctx.Done()")
			}
		case "park":
			run.once[2].Do(func() { close(run.parkedCh) })
			run.waitGate("park gate")
		case "panic":
			s := vk.Seq()
			run.add(c02Ev{Step: i, Op: "panic", Before: s, After: s})
			c02DoPanic(st.V, run.id, w)
		case "sleep":
			time.Sleep(time.Duration(st.N) * time.Microsecond)
		case "yield":
			runtime.Gosched()
		case "flush":
			ev := c02Ev{Step: i, Op: "flush", Before: vk.Seq()}
			if f, ok := w.(http.Flusher); ok {
				f.Flush()
				ev.N = 1
			}
			ev.After = vk.Seq()
			run.add(ev)
		case "flushrc": // the Go 1.20 way: http.NewResponseController(w).Flush()
			ev := c02Ev{Step: i, Op: "flush", Before: vk.Seq()}
			if err := http.NewResponseController(w).Flush(); err == nil {
				ev.N = 1
			} else {
				ev.Err = err.Error()
			}
			ev.After = vk.Seq()
			run.add(ev)
		case "push":
			ev := c02Ev{Step: i, Op: "push", Before: vk.Seq()}
			if p, ok := w.(http.Pusher); ok {
				ev.N = 1
				if err := p.Push("/c02-pushed", nil); err != nil {
					ev.Err = err.Error()
				}
			}
			ev.After = vk.Seq()
			run.add(ev)
		case "hijack":
			ev := c02Ev{Step: i, Op: "hijack", Before: vk.Seq()}
			hj, ok := w.(http.Hijacker)
			if !ok {
				ev.Err = "not a Hijacker"
				run.add(ev)
				continue
			}
			conn, rw, err := hj.Hijack()
			if err != nil {
				ev.Err = err.Error()
				run.add(ev)
				continue
			}
			// the connection is ours: send exactly the response the script describes
			mo := run.script.model(run.id, len(run.script.Steps))
			var b bytes.Buffer
			fmt.Fprintf(&b, "HTTP/1.1 %d %s\r\n", mo.status, http.StatusText(mo.status))
			for _, h := range mo.headers {
				fmt.Fprintf(&b, "%s: %s\r\n", h[0], h[1])
			}
			fmt.Fprintf(&b, "Content-Length: %d\r\nConnection: close\r\n\r\n", len(mo.body))
			b.Write(mo.body)
			_, werr := rw.Write(b.Bytes())
			if werr == nil {
				werr = rw.Flush()
			}
			conn.Close()
			ev.N = 1
			if werr != nil {
				ev.Err = "raw write: " + werr.Error()
			}
			ev.After = vk.Seq()
			run.add(ev)
			return
		}
	}
}

// ---------------------------------------------------------------------------
// environment: a Server built through the public API with scripted routes

type c02Group struct {
	Class    string
	Method   string
	N        int           // number of routes
	Timeout  time.Duration // route option (0 = none: the config value applies)
	MaxBytes int64         // route option (0 = none)
	// NoBreaker: the routes are served by a user-composed chain without
	// BreakerHandler: a 503 without handler entry can never be excused as a breaker rejection
	NoBreaker bool
}

type c02Env struct {
	tag    string
	cfg    Config
	srv    *Server
	routes map[string][]*c02Route // by class
	runs   sync.Map
	nextID int64
}

var c02LogOnce sync.Once

func c02NewEnv(tag string, cfg Config, groups []c02Group, opts ...Option) (*c02Env, error) {
	c02LogOnce.Do(logx.Disable)
	srv, err := NewServer(cfg, opts...)
	if err != nil {
		return nil, err
	}
	e := &c02Env{tag: tag, cfg: cfg, srv: srv, routes: map[string][]*c02Route{}}
	// spare routes only ever see non-blocking handlers answering < 500: their
	// breakers cannot open. Follow-up checks rejected by a tainted route's breaker
	// are repeated there.
	groups = append(append([]c02Group{}, groups...), c02Group{Class: "spare", Method: http.MethodGet, N: 2, Timeout: c02LongTimeout})
	parity := 0
	for _, ch := range tag {
		parity += int(ch)
	}
	if parity%3 == 0 {
		srv.Use(e.passMiddleware) // a server-wide user middleware (innermost): must be transparent
	}
	srv.Use(e.scriptMiddleware)
	for gi, g := range groups {
		var rs []Route
		for i := 0; i < g.N; i++ {
			rt := &c02Route{Method: g.Method, Path: fmt.Sprintf("/%s/%s/r%d", tag, g.Class, i), Class: g.Class, NoBreaker: g.NoBreaker}
			sign, set := "zero", "unset"
			if cfg.Timeout < 0 {
				sign = "negative"
			} else if cfg.Timeout > 0 {
				sign = "positive"
			}
			if g.Timeout > 0 {
				set = "set"
			}
			rt.Label = "config-" + sign + ":route-" + set
			rt.Timeout = g.Timeout
			if rt.Timeout == 0 && cfg.Timeout > 0 {
				rt.Timeout = time.Duration(cfg.Timeout) * time.Millisecond
			}
			rt.MaxBytes = g.MaxBytes
			if rt.MaxBytes == 0 && cfg.MaxBytes > 0 {
				rt.MaxBytes = cfg.MaxBytes
			}
			e.routes[g.Class] = append(e.routes[g.Class], rt)
			rs = append(rs, Route{Method: g.Method, Path: rt.Path, Handler: e.handle})
		}
		var opts []RouteOption
		if g.Timeout > 0 {
			opts = append(opts, WithTimeout(g.Timeout))
		}
		if g.MaxBytes > 0 {
			opts = append(opts, WithMaxBytes(g.MaxBytes))
		}
		// every registration entry point must honour the per-route options: half of the
		// groups go through the single-route wrapper AddRoute (with the handlers wrapped
		// by WithMiddlewares), the others through AddRoutes
		if (gi+parity)%2 == 1 {
			for _, one := range WithMiddlewares([]Middleware{e.passMiddleware, e.passMiddleware}, rs...) {
				srv.AddRoute(one, opts...)
			}
			atomic.AddInt64(&c02AddRouteGroups, 1)
		} else {
			srv.AddRoutes(rs, opts...)
		}
	}
	return e, nil
}

var c02AddRouteGroups, c02UserMiddlewareCalls int64

// passMiddleware is a user middleware that does nothing but count.
func (e *c02Env) passMiddleware(next http.HandlerFunc) http.HandlerFunc {
	return func(w http.ResponseWriter, r *http.Request) {
		atomic.AddInt64(&c02UserMiddlewareCalls, 1)
		next(w, r)
	}
}

// scriptMiddleware (registered with Server.Use) executes the scripts marked InMW
// itself and passes every other request on.
func (e *c02Env) scriptMiddleware(next http.HandlerFunc) http.HandlerFunc {
	return func(w http.ResponseWriter, r *http.Request) {
		if v, ok := e.runs.Load(r.Header.Get(c02RunHeader)); ok && v.(*c02Run).script.InMW {
			atomic.AddInt64(&c02ScriptsRunInMiddleware, 1)
			v.(*c02Run).exec(w, r)
			return
		}
		next(w, r)
	}
}

var c02ScriptsRunInMiddleware int64

func (e *c02Env) handle(w http.ResponseWriter, r *http.Request) {
	v, ok := e.runs.Load(r.Header.Get(c02RunHeader))
	if !ok {
		w.WriteHeader(http.StatusTeapot)
		return
	}
	v.(*c02Run).exec(w, r)
}

// c02HostileHeaders: proxy headers as a hostile or broken front end may send
// them. The guards read them on their logging / failure paths; they must not
// change any answer.
var c02HostileHeaders = [][2]string{
	{"X-Forwarded-For", ","},
	{"X-Forwarded-For", " , ,  "},
	{"X-Forwarded-For", " "},
	{"X-Forwarded-For", "10.0.0.1, 10.0.0.2,"},
	{"X-Forwarded-For", "客户端, ::1, unknown"},
	{"X-Forwarded-For", strings.Repeat("1.2.3.4, ", 900)},
	{"X-Real-IP", ","},
	{"X-Real-IP", strings.Repeat("f", 4000)},
	{"X-Forwarded-For", "%s%n%!(EXTRA)"},
}

func (e *c02Env) newRun(rt *c02Route, sc *c02Script) *c02Run {
	n := atomic.AddInt64(&e.nextID, 1)
	id := fmt.Sprintf("%s-%d", e.tag, n)
	var rh [][2]string
	if n%3 == 0 { // every third request, cycling through the list
		rh = append(rh, c02HostileHeaders[int(n/3)%len(c02HostileHeaders)])
	}
	if n%4 == 1 && !sc.InMW { // every fourth script runs in the Server.Use middleware instead of the route handler
		cp := *sc
		cp.InMW = true
		sc = &cp
	}
	run := &c02Run{id: id, script: sc, route: rt, reqHdr: rh,
		gate: make(chan struct{}), enteredCh: make(chan struct{}), blockedCh: make(chan struct{}),
		parkedCh: make(chan struct{}), returnedCh: make(chan struct{})}
	e.runs.Store(id, run)
	return run
}

func (e *c02Env) forget(run *c02Run) { e.runs.Delete(run.id) }

// ---------------------------------------------------------------------------
// client side

type c02Resp struct {
	Err     string
	Status  int
	Header  http.Header
	Body    []byte
	Seq     int64 // stamp taken right after the client had the complete response
	Elapsed time.Duration
	Reused  bool
}

func (r *c02Resp) String() string {
	if r.Err != "" {
		return "error: " + r.Err
	}
	b := r.Body
	suffix := ""
	if len(b) > 60 {
		b, suffix = b[:60], fmt.Sprintf("…(%d bytes)", len(r.Body))
	}
	var hs []string
	for k, v := range r.Header {
		if strings.HasPrefix(k, "X-C02") || k == "Content-Type" || k == "Set-Cookie" || k == "Vary" {
			hs = append(hs, k+"="+strings.Join(v, ","))
		}
	}
	sort.Strings(hs)
	return fmt.Sprintf("status=%d hdr=%v body=%q%s", r.Status, hs, b, suffix)
}

func c02FromRecorder(rec *httptest.ResponseRecorder, start time.Time) *c02Resp {
	return &c02Resp{Status: rec.Code, Header: rec.Header().Clone(), Body: append([]byte(nil), rec.Body.Bytes()...),
		Seq: vk.Seq(), Elapsed: time.Since(start)}
}

// ---------------------------------------------------------------------------
// oracle

// c02IsHandlerResp: is resp precisely the response of steps[:upto]?
func c02IsHandlerResp(run *c02Run, resp *c02Resp, upto int) (bool, string, string) {
	if resp.Err != "" {
		return false, "no-response", resp.Err
	}
	mo := run.script.model(run.id, upto)
	if resp.Status != mo.status {
		return false, "status", fmt.Sprintf("status %d, handler chose %d", resp.Status, mo.status)
	}
	for _, k := range mo.hkeys {
		want := mo.hvals[k]
		if got := resp.Header.Values(k); strings.Join(got, "\x00") != strings.Join(want, "\x00") {
			sub := "header"
			if len(want) > 1 {
				sub = "multi-value-header"
			}
			return false, sub, fmt.Sprintf("header %s = %q, handler set %q (full value list, in order)", k, got, want)
		}
	}
	if !bytes.Equal(resp.Body, mo.body) {
		return false, "body", fmt.Sprintf("body %d bytes %q…, handler wrote %d bytes %q…", len(resp.Body), c02Head(resp.Body), len(mo.body), c02Head(mo.body))
	}
	return true, "", ""
}

func c02Head(b []byte) []byte {
	if len(b) > 48 {
		return b[:48]
	}
	return b
}

// c02IsTimeoutResp: is resp the timeout response with the given code, free of
// anything the handler produced?
func c02IsTimeoutResp(run *c02Run, resp *c02Resp, code int) (bool, string, string) {
	if resp.Err != "" {
		return false, "no-response", resp.Err
	}
	if resp.Status != code {
		return false, "status", fmt.Sprintf("status %d, want %d", resp.Status, code)
	}
	if c02ErrModeNow() == "ctx" && len(resp.Body) == 0 {
		// the installed ctx-aware error handler renders the timeout itself (status only)
	} else if string(resp.Body) != c02TimeoutBody {
		return false, "body", fmt.Sprintf("body %q…(%d bytes), want %q", c02Head(resp.Body), len(resp.Body), c02TimeoutBody)
	}
	for _, h := range c02HandlerHeaderValues(run.script) {
		for _, got := range resp.Header.Values(h[0]) {
			if got == h[1] {
				return false, "handler-header", fmt.Sprintf("handler header %s=%q present in the timeout response", h[0], h[1])
			}
		}
	}
	return true, "", ""
}

// c02IsBareReject: 503 produced without entering the handler (MaxConns, breaker
// or shedder rejection).
func c02IsBareReject(run *c02Run, resp *c02Resp) bool {
	return resp.Err == "" && resp.Status == http.StatusServiceUnavailable && run.entered() == 0 && len(resp.Body) == 0
}

// c02Ctx carries what the judges need.
type c02Ctx struct {
	m    *vk.M
	obs  string // chain | server
	desc func(extra string) string
}

// c02ErrMode is the process-wide httpx error-handler configuration in force:
// "" (none), "plain" (httpx.SetErrorHandler: a business handler answering 400 +
// JSON for every error) or "ctx" (httpx.SetErrorHandlerCtx: a handler that maps
// context.DeadlineExceeded to 503 and context.Canceled to 499 without a body and
// everything else to 400 + JSON). Phases that install one run alone.
var c02ErrMode atomic.Value

func c02ErrModeNow() string {
	if v, ok := c02ErrMode.Load().(string); ok {
		return v
	}
	return ""
}

// c02WithErrMode installs the configuration, runs f, and restores the default.
func c02WithErrMode(mode string, f func()) {
	type bizErr struct {
		Code int    `json:"code"`
		Msg  string `json:"msg"`
	}
	switch mode {
	case "plain":
		httpx.SetErrorHandler(func(err error) (int, any) {
			return http.StatusBadRequest, bizErr{Code: 10001, Msg: err.Error()}
		})
	case "ctx":
		httpx.SetErrorHandlerCtx(func(_ context.Context, err error) (int, any) {
			switch {
			case errors.Is(err, context.DeadlineExceeded):
				return http.StatusServiceUnavailable, nil
			case errors.Is(err, context.Canceled):
				return 499, nil
			}
			return http.StatusBadRequest, bizErr{Code: 10001, Msg: err.Error()}
		})
	}
	c02ErrMode.Store(mode)
	defer func() {
		httpx.SetErrorHandler(nil)
		httpx.SetErrorHandlerCtx(nil)
		c02ErrMode.Store("")
	}()
	f()
}

func (c *c02Ctx) violate(sig string, run *c02Run, resp *c02Resp, format string, a ...any) {
	if mode := c02ErrModeNow(); mode != "" {
		sig += ":errorhandler-" + mode
	}
	d := fmt.Sprintf(format, a...)
	extra := ""
	if run != nil {
		extra = fmt.Sprintf("run=%s route=%s timeout=%v request_headers=%.120q script=%s events=%s", run.id, run.route.Path, run.route.Timeout, run.reqHdr, vk.JSON(run.script), vk.JSON(run.events()))
	}
	if resp != nil {
		d += " | client saw: " + resp.String()
	}
	c.m.Violate("C02:"+c.obs+":"+sig, c.desc(extra), "%s", d)
}

// c02Taint marks a route whose breaker may record a failure from now on. The
// breaker (BreakerHandler, C01's subject) sits inside the chain and judges by the
// status *it* saw, which can be >= 500 even when the client sees a committed 2xx
// (RecoverHandler's superfluous WriteHeader(500) on a route without a timeout
// handler). Scenarios therefore taint the route *before* issuing anything that
// panics, blocks past a deadline or answers >= 500. On a tainted route a 503
// without handler entry is a possible breaker rejection and never a verdict.
func c02Taint(rt *c02Route) {
	if !rt.NoBreaker {
		atomic.AddInt64(&rt.fails, 1)
	}
}

func c02TaintFor(rt *c02Route, sc *c02Script) {
	if sc.Kind != "fast" && sc.Kind != "park" && sc.Kind != "cancel" || sc.model("", len(sc.Steps)).status >= 500 {
		c02Taint(rt)
	}
}

func c02NoteOutcome(run *c02Run, resp *c02Resp) {
	// a 503 whose handler never ran is a rejection, not a failure the breaker records:
	// it must not excuse itself (or later rejections) on a route that is otherwise clean
	if c02IsBareReject(run, resp) {
		return
	}
	if resp.Err != "" || resp.Status >= 500 {
		c02Taint(run.route)
	}
}

// c02Tolerated: a bare 503 on a tainted route may be a breaker rejection (C01's
// subject) — counted, not judged.
func c02Tolerated(c *c02Ctx, run *c02Run, resp *c02Resp) bool {
	if c02IsBareReject(run, resp) && atomic.LoadInt64(&run.route.fails) > 0 {
		c.m.Count("breaker_rejection_tolerated", 1)
		return true
	}
	return false
}

var c02Sampled sync.Map

// c02SampleOnce keeps one evidence sample per (test, scenario class).
func (c *c02Ctx) sampleOnce(class string, v map[string]any) {
	if !c.m.WantSample() {
		return
	}
	if _, dup := c02Sampled.LoadOrStore(fmt.Sprintf("%p|%s", c.m, class), true); dup {
		return
	}
	v["obs"], v["class"] = c.obs, class
	c.m.Sample(v)
}

func c02WaitCh(ch <-chan struct{}) bool {
	t := time.NewTimer(c02Watchdog)
	defer t.Stop()
	select {
	case <-ch:
		return true
	case <-t.C:
		return false
	}
}

// c02CheckEntries: the handler must have run exactly once for a delivered request.
func c02CheckEntries(c *c02Ctx, run *c02Run, resp *c02Resp, class string) bool {
	if n := run.entered(); n > 1 {
		c.violate(class+":handler-ran-twice", run, resp, "handler entered %d times for one request", n)
		return false
	}
	return true
}

// c02JudgeFast: the handler never blocks and its route timeout is >= 60 s (or
// absent): the response must be the handler's.
func c02JudgeFast(c *c02Ctx, run *c02Run, resp *c02Resp, class string) bool {
	c02NoteOutcome(run, resp)
	if c02Tolerated(c, run, resp) {
		return false
	}
	if !c02CheckEntries(c, run, resp, class) {
		return false
	}
	ok, sub, why := c02IsHandlerResp(run, resp, len(run.script.Steps))
	if !ok {
		if resp.Elapsed > 20*time.Second {
			c.m.Inconclusive("%s: request took %v (stall); %s", class, resp.Elapsed, why)
			return false
		}
		c.violate(class+":not-handler-response:"+sub, run, resp, "%s", why)
		return false
	}
	for _, ev := range run.events() {
		if ev.Op == "write" && ev.Err != "" {
			c.violate(class+":write-error", run, resp, "handler Write at step %d failed: %s", ev.Step, ev.Err)
			return false
		}
	}
	c.m.Count("resp_handler", 1)
	return true
}

// c02AfterLate checks the handler-side half of a timed-out request once the
// handler has been released and has returned: every write attempted after the
// client held the timeout response must have been refused.
func c02AfterLate(c *c02Ctx, run *c02Run, resp *c02Resp, class string) bool {
	for _, ev := range run.events() {
		if ev.Op == "write" && ev.Before > resp.Seq {
			c.m.Count("late_writes", 1)
			if ev.Err != c02ErrHandlerTimeout {
				c.violate(class+":write-accepted-after-timeout", run, resp,
					"Write at step %d started after the client had the timeout response and returned n=%d err=%q, want %q",
					ev.Step, ev.N, ev.Err, c02ErrHandlerTimeout)
				return false
			}
		}
	}
	return true
}

// c02JudgeRacing: either the complete handler response or the timeout response,
// never a mixture; consistency with what the handler's writes were told.
func c02JudgeRacing(c *c02Ctx, run *c02Run, resp *c02Resp, class string) (string, bool) {
	c02NoteOutcome(run, resp)
	if c02Tolerated(c, run, resp) {
		return "", false
	}
	if !c02WaitCh(run.returnedCh) {
		c.m.Inconclusive("%s: handler of %s did not return", class, run.id)
		return "", false
	}
	if !c02CheckEntries(c, run, resp, class) {
		return "", false
	}
	evs := run.events()
	refused := -1
	for _, ev := range evs {
		if ev.Op != "write" {
			continue
		}
		switch {
		case ev.Err == c02ErrHandlerTimeout:
			if refused < 0 {
				refused = ev.Step
			}
		case ev.Err != "":
			c.violate(class+":write-error", run, resp, "handler Write at step %d failed: %s", ev.Step, ev.Err)
			return "", false
		case refused >= 0:
			c.violate(class+":write-accepted-after-timeout", run, resp, "Write at step %d accepted after the Write at step %d had been refused with ErrHandlerTimeout", ev.Step, refused)
			return "", false
		}
	}
	okH, subH, whyH := c02IsHandlerResp(run, resp, len(run.script.Steps))
	okT, subT, whyT := c02IsTimeoutResp(run, resp, http.StatusServiceUnavailable)
	switch {
	case okH && !okT:
		if refused >= 0 {
			c.violate(class+":handler-response-despite-refused-write", run, resp, "client got the handler response although the Write at step %d was refused", refused)
			return "", false
		}
		if rs := run.returnedSeq(); rs == 0 || rs > resp.Seq {
			c.violate(class+":handler-response-before-handler-returned", run, resp, "handler response delivered (seq %d) before the handler returned (seq %d)", resp.Seq, rs)
			return "", false
		}
		c.m.Count("racing_handler_won", 1)
		return "handler", true
	case okT:
		if !c02AfterLate(c, run, resp, class) {
			return "", false
		}
		c.m.Count("racing_timeout_won", 1)
		if refused >= 0 {
			c.m.Count("racing_writes_refused", 1)
		}
		return "timeout", true
	default:
		c.violate(class+":neither-handler-nor-timeout-response", run, resp, "not the handler response (%s: %s) and not the timeout response (%s: %s)", subH, whyH, subT, whyT)
		return "", false
	}
}
