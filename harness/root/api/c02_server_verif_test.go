//go:build verif

package api

// C02 — loopback monitor: real servers from api.NewServer + Start(), spoken to
// with a plain net/http client. The same scenario classes as the recorder
// monitor, plus what only a real connection shows: that every request gets *a*
// response (no EOF) and that a timed-out or panicking request does not disturb
// the next response on the same connection.

import (
	"bytes"
	"context"
	"fmt"
	"io"
	"math/rand"
	"net"
	"net/http"
	"net/http/httptrace"
	"sync"
	"sync/atomic"
	"testing"
	"time"

	"github.com/gotid/god/api/handler"
	"verif.local/vk"
)

type c02Live struct {
	e      *c02Env
	base   string
	fresh  *http.Client // one connection per request, never retried by the transport
	reused int64
}

func c02FreePort() (int, error) {
	l, err := net.Listen("tcp", "127.0.0.1:0")
	if err != nil {
		return 0, err
	}
	defer l.Close()
	return l.Addr().(*net.TCPAddr).Port, nil
}

// c02StartLive builds and starts a server; ok=false ⇒ inconclusive (recorded).
func c02StartLive(m *vk.M, tag string, cfg Config, groups []c02Group) (*c02Live, bool) {
	for attempt := 0; attempt < 3; attempt++ {
		port, err := c02FreePort()
		if err != nil {
			m.Inconclusive("server %s: no free port: %v", tag, err)
			return nil, false
		}
		cfg.Host, cfg.Port = "127.0.0.1", port
		e, err := c02NewEnv(tag, cfg, groups)
		if err != nil {
			m.Inconclusive("server %s: NewServer: %v", tag, err)
			return nil, false
		}
		failed := make(chan any, 1)
		go func() {
			defer func() {
				if p := recover(); p != nil {
					failed <- p
				}
			}()
			e.srv.Start()
			failed <- "Start returned"
		}()
		addr := fmt.Sprintf("127.0.0.1:%d", port)
		up := vk.WaitUntil(20*time.Second, func() bool {
			select {
			case p := <-failed:
				failed <- p
				return true
			default:
			}
			c, err := net.DialTimeout("tcp", addr, time.Second)
			if err != nil {
				return false
			}
			c.Close()
			return true
		})
		select {
		case p := <-failed:
			m.Note("server %s: start attempt %d on %s failed: %v", tag, attempt, addr, p)
			continue
		default:
		}
		if !up {
			m.Inconclusive("server %s: not accepting on %s after 20 s", tag, addr)
			return nil, false
		}
		lv := &c02Live{e: e, base: "http://" + addr}
		lv.fresh = &http.Client{Transport: &http.Transport{DisableKeepAlives: true}, Timeout: 3 * c02Watchdog}
		return lv, true
	}
	m.Inconclusive("server %s: could not be started", tag)
	return nil, false
}

func (lv *c02Live) doer(client *http.Client) c02Doer {
	return func(run *c02Run, opt c02ReqOpt) (*c02Resp, func() *c02Resp) {
		var body io.Reader
		if opt.hasBody {
			body = bytes.NewReader(opt.body)
			if opt.chunked {
				body = c02OnlyReader{body}
			}
		}
		ctx := opt.ctx
		if ctx == nil {
			ctx = context.Background()
		}
		out := &c02Resp{}
		ctx = httptrace.WithClientTrace(ctx, &httptrace.ClientTrace{GotConn: func(ci httptrace.GotConnInfo) {
			if ci.Reused {
				out.Reused = true
				atomic.AddInt64(&lv.reused, 1)
			}
		}})
		req, err := http.NewRequestWithContext(ctx, run.route.Method, lv.base+run.route.Path, body)
		if err != nil {
			out.Err = "NewRequest: " + err.Error()
			return out, nil
		}
		req.Header.Set(c02RunHeader, run.id)
		for _, h := range run.reqHdr {
			req.Header.Set(h[0], h[1])
		}
		if opt.upgrade != "" {
			req.Header.Set("Upgrade", opt.upgrade)
		}
		start := time.Now()
		res, err := client.Do(req)
		if err != nil {
			out.Err, out.Seq, out.Elapsed = err.Error(), vk.Seq(), time.Since(start)
			return out, nil
		}
		b, err := io.ReadAll(res.Body)
		res.Body.Close()
		out.Status, out.Header, out.Body = res.StatusCode, res.Header, b
		if err != nil {
			out.Err = fmt.Sprintf("reading body after status %d (%d bytes read): %v", res.StatusCode, len(b), err)
		}
		out.Seq, out.Elapsed = vk.Seq(), time.Since(start)
		return out, nil
	}
}

// c02Jitter measures scheduling overshoot of a 1 ms sleeper while a timing
// sensitive case runs (evidence only).
func c02Jitter(stop <-chan struct{}) func() time.Duration {
	var worst int64
	done := make(chan struct{})
	go func() {
		defer close(done)
		for {
			select {
			case <-stop:
				return
			default:
			}
			t := time.Now()
			time.Sleep(time.Millisecond)
			if o := int64(time.Since(t) - time.Millisecond); o > atomic.LoadInt64(&worst) {
				atomic.StoreInt64(&worst, o)
			}
		}
	}()
	return func() time.Duration { <-done; return time.Duration(atomic.LoadInt64(&worst)) }
}

// c02LiveLateRound sends one gated late request per route (fresh connections, in
// parallel) and reports how many got the timeout response / no response at all.
func c02LiveLateRound(c *c02Ctx, lv *c02Live, routes []*c02Route, r *rand.Rand) (got503, none int, witness []string, judged bool) {
	type res struct {
		ok   bool
		resp *c02Resp
	}
	out := make([]res, len(routes))
	scs := make([]*c02Script, len(routes))
	for i := range routes {
		scs[i] = c02GenLate(r)
	}
	// a private ctx: "no response" is classified by the caller, everything else by c02ScLate
	var wg sync.WaitGroup
	for i, rt := range routes {
		wg.Add(1)
		go func(i int, rt *c02Route) {
			defer wg.Done()
			cc := &c02Ctx{m: c.m, obs: c.obs, desc: c.desc}
			do := lv.doer(lv.fresh)
			wrapped := func(run *c02Run, opt c02ReqOpt) (*c02Resp, func() *c02Resp) {
				resp, again := do(run, opt)
				out[i].resp = resp
				if resp.Err != "" {
					// keep c02ScLate from reporting it under the generic signature; the
					// caller decides after all rounds
					return &c02Resp{Status: http.StatusServiceUnavailable, Body: []byte(c02TimeoutBody), Header: http.Header{}, Seq: resp.Seq, Elapsed: resp.Elapsed}, again
				}
				return resp, again
			}
			out[i].ok, _ = c02ScLate(cc, lv.e, wrapped, rt, scs[i])
		}(i, rt)
	}
	wg.Wait()
	judged = true
	for i, o := range out {
		switch {
		case o.resp == nil:
			judged = false
		case o.resp.Err != "":
			none++
			witness = append(witness, fmt.Sprintf("GET %s (route timeout %v, gated late handler %s) -> %s after %v", routes[i].Path, routes[i].Timeout, vk.JSON(scs[i]), o.resp.Err, o.resp.Elapsed.Round(time.Millisecond)))
		case o.ok:
			got503++
		default:
			judged = false // a violation of another class was recorded by c02ScLate
		}
	}
	return
}

// c02LiveLate: gated late handlers against a live server. A request without any
// response is a violation only if it reproduces in every attempt of two rounds
// (3 parallel + 2 sequential): the write deadline of http.Server is real time and a
// single miss can be a scheduling stall.
func c02LiveLate(c *c02Ctx, lv *c02Live, routes []*c02Route, r *rand.Rand, sigClass, what string) bool {
	stop := make(chan struct{})
	jit := c02Jitter(stop)
	got, none, wit, judged := c02LiveLateRound(c, lv, routes, r)
	if judged && none > 0 && got == 0 {
		for k := 0; k < 2; k++ {
			g2, n2, w2, j2 := c02LiveLateRound(c, lv, routes[k%len(routes):k%len(routes)+1], r)
			got, none, wit, judged = got+g2, none+n2, append(wit, w2...), judged && j2
		}
	}
	close(stop)
	worst := jit()
	c.m.Count("live_late_503", int64(got))
	c.m.Count("live_late_no_response", int64(none))
	if !judged {
		return false
	}
	switch {
	case none > 0 && got == 0:
		c.violate(sigClass+":no-response", nil, nil, "%s: %d of %d gated late requests got no HTTP response at all (want 503 %q); worst scheduling overshoot while waiting %v. Attempts: %v",
			what, none, none+got, c02TimeoutBody, worst, wit)
		return false
	case none > 0:
		c.m.Note("%s: %d of %d gated late requests got no response, the others got 503 (transient; worst scheduling overshoot %v): %v", what, none, none+got, worst, wit)
		c.m.Count("live_late_transient_no_response", int64(none))
	}
	c.m.Case(fmt.Sprintf("server|%s|503=%v", sigClass, got > 0), got > 0)
	return true
}

const c02ServerRule = "real loopback servers (api.NewServer + Start, net/http client): every scripted request gets exactly the response the chain owes it — handler response, 503 timeout response for gated late handlers (config-level and route-level timeouts), 500/committed status on panic, 503 beyond MaxConns, 413 beyond MaxBytes — never EOF, and the next request on the same connection is answered correctly"

func TestVerifC02Server(t *testing.T) {
	m := vk.New(t, "C02", c02ServerRule)
	defer m.Done()
	r := m.Rand("server")
	var descMu sync.Mutex
	mk := func(tag string, cfg Config) *c02Ctx {
		return &c02Ctx{m: m, obs: "server", desc: func(extra string) string {
			descMu.Lock()
			defer descMu.Unlock()
			return fmt.Sprintf("case=0;server=%s;config={Timeout:%d MaxConns:%d MaxBytes:%d};%s", tag, cfg.Timeout, cfg.MaxConns, cfg.MaxBytes, extra)
		}}
	}
	cfgMs := int64(vk.N(1000, 3000))
	var wg sync.WaitGroup
	par := func(f func()) {
		wg.Add(1)
		go func() { defer wg.Done(); f() }()
	}

	// --- server A: only a server-wide timeout; handlers outlive it
	par(func() {
		cfg := Config{Timeout: cfgMs, MaxConns: 100}
		c := mk("A", cfg)
		m.Current(c.desc("config-level timeout, gated late handlers"))
		lv, ok := c02StartLive(m, "sa", cfg, []c02Group{{Class: "cfglate", Method: http.MethodGet, N: 3}})
		if !ok {
			return
		}
		c02LiveLate(c, lv, lv.e.routes["cfglate"], m.Rand("A"), "late:config-timeout", fmt.Sprintf("server with Config.Timeout=%dms, handler outlives it", cfgMs))
	})

	// --- server D: server-wide timeout 1 s, route timeout 60 s, handler needs 1.3 x the server-wide timeout
	par(func() {
		cfg := Config{Timeout: cfgMs, MaxConns: 100}
		c := mk("D", cfg)
		lv, ok := c02StartLive(m, "sd", cfg, []c02Group{{Class: "slowok", Method: http.MethodGet, N: 2, Timeout: c02LongTimeout}})
		if !ok {
			return
		}
		rr := m.Rand("D")
		hold := time.Duration(cfgMs) * time.Millisecond * 13 / 10
		rts := lv.e.routes["slowok"]
		runs := make([]*c02Run, len(rts))
		pend := make([]*c02Pending, len(rts))
		for i, rt := range rts {
			runs[i] = lv.e.newRun(rt, c02GenPark(rr))
			defer runs[i].release()
			pend[i] = c02Go(lv.doer(lv.fresh), runs[i], c02ReqOpt{})
		}
		for i, run := range runs {
			select {
			case <-run.parkedCh:
			case <-pend[i].ch:
			case <-time.After(c02Watchdog):
				m.Inconclusive("server D: handler did not park")
				return
			}
		}
		time.Sleep(hold) // not a verdict: the handlers simply take this long, far inside their 60 s route timeout
		bad := 0
		var wit []string
		for i, run := range runs {
			run.release()
			if !pend[i].wait(c02Watchdog) {
				m.Inconclusive("server D: no response within the watchdog")
				return
			}
			resp := pend[i].resp
			if resp.Err != "" && run.entered() == 1 {
				bad++
				wit = append(wit, fmt.Sprintf("GET %s (route timeout %v, handler %s held %v) -> %s", rts[i].Path, rts[i].Timeout, vk.JSON(run.script), hold, resp.Err))
				m.Count("live_slow_no_response", 1)
				continue
			}
			if !c02JudgeFast(c, run, resp, "slow-within-route-timeout") {
				return
			}
			m.Count("live_slow_handler_response", 1)
			m.Case(fmt.Sprintf("server|slow-within-route-timeout|%d", i), true)
		}
		if bad > 0 {
			c.violate("slow-within-route-timeout:no-response", nil, nil, "server with Config.Timeout=%dms and a route with WithTimeout(%v): %d of %d handlers that finished after %v (well inside the route timeout) got no HTTP response at all: %v", cfgMs, c02LongTimeout, bad, len(runs), hold, wit)
		}
	})

	// --- server C: no server-wide timeout, route-level timeouts only
	par(func() {
		cfg := Config{Timeout: 0, MaxConns: 100}
		c := mk("C", cfg)
		short := time.Duration(30+r.Intn(40)) * time.Millisecond
		lv, ok := c02StartLive(m, "sc", cfg, []c02Group{
			{Class: "rtlate", Method: http.MethodGet, N: 3, Timeout: short},
			{Class: "fast", Method: http.MethodGet, N: 1},
			{Class: "pv", Method: http.MethodGet, N: c02PanicAlphabetRoutes},
			{Class: "expect", Method: http.MethodPost, N: 2, Timeout: short},
			{Class: "expectfast", Method: http.MethodPost, N: 1},
			{Class: "expectnt", Method: http.MethodPost, N: 2, Timeout: short},
			{Class: "expectntfast", Method: http.MethodPost, N: 1},
		})
		if !ok {
			return
		}
		rr := m.Rand("C")
		expectDone := make(chan struct{})
		go func() { // LogHandler flavour (Verbose off); runs alongside the rest of server C
			defer close(expectDone)
			c02LiveExpect(c, lv, lv.e.routes["expect"], lv.e.routes["expectfast"][0], m.Rand("C", "expect"))
			// the same with tracing switched off for these routes (handler.DontTraceSpan): the
			// log handler then works on the server's own *http.Request, not on a copy
			for _, rt := range append(append([]*c02Route{}, lv.e.routes["expectnt"]...), lv.e.routes["expectntfast"]...) {
				handler.DontTraceSpan(rt.Path)
			}
			c02LiveExpect(c, lv, lv.e.routes["expectnt"], lv.e.routes["expectntfast"][0], m.Rand("C", "expectnt"))
		}()
		defer func() { <-expectDone }()
		// RecoverHandler alone (no timeout handler on these routes), fresh connections
		if !c02ScPanicAlphabet(c, lv.e, lv.doer(lv.fresh), lv.e.routes["pv"], m.Rand("C", "pv")) {
			return
		}
		if !c02LiveLate(c, lv, lv.e.routes["rtlate"], rr, "late:route-timeout-only", fmt.Sprintf("server without Config.Timeout, route WithTimeout(%v)", short)) {
			return
		}
		for i := 0; i < vk.N(20, 300); i++ {
			if !c02ScFast(c, lv.e, lv.doer(lv.fresh), lv.e.routes["fast"][0], c02GenFast(rr, false), "fast") {
				return
			}
		}
	})

	// --- server B: everything else; server-wide timeout 60 s (write deadline 54 s away)
	par(func() {
		rr := m.Rand("B")
		nMax := []int{1, 2, 5}[rr.Intn(3)]
		mb := int64(1 + rr.Intn(4096))
		if vk.Seed()%2 == 1 { // odd seeds: the smallest limit that is a limit
			mb = 1
		}
		cfg := Config{Timeout: int64(c02LongTimeout / time.Millisecond), MaxConns: nMax, MaxBytes: mb, Verbose: true}
		c := mk("B", cfg)
		short := time.Duration(30+rr.Intn(40)) * time.Millisecond
		lv, ok := c02StartLive(m, "sb", cfg, []c02Group{
			{Class: "fast", Method: http.MethodGet, N: 3},
			{Class: "rtlate", Method: http.MethodGet, N: 6, Timeout: short},
			{Class: "conns", Method: http.MethodGet, N: 1},
			{Class: "bytes", Method: http.MethodPost, N: 1},
			{Class: "bytes-GET", Method: http.MethodGet, N: 1},
			{Class: "bytes-PUT", Method: http.MethodPut, N: 1},
			{Class: "bytes-PATCH", Method: http.MethodPatch, N: 1},
			{Class: "bytes-DELETE", Method: http.MethodDelete, N: 1},
			{Class: "bytes-OPTIONS", Method: http.MethodOptions, N: 1},
			{Class: "keep", Method: http.MethodGet, N: 2},
			{Class: "keeplate", Method: http.MethodGet, N: 2, Timeout: short},
			{Class: "pv", Method: http.MethodGet, N: c02PanicAlphabetRoutes},
			{Class: "expect", Method: http.MethodPost, N: 2, Timeout: short},
			{Class: "expectfast", Method: http.MethodPost, N: 1},
		})
		if !ok {
			return
		}
		fresh := lv.doer(lv.fresh)
		var wb sync.WaitGroup
		sub := func(salt string, f func(r *rand.Rand)) {
			wb.Add(1)
			rs := m.Rand("B", salt)
			go func() { defer wb.Done(); f(rs) }()
		}
		for i, rt := range lv.e.routes["fast"] {
			rt := rt
			sub(fmt.Sprint("fast", i), func(r *rand.Rand) {
				fails := 0
				for k := 0; k < vk.N(40, 1500); k++ {
					ok := true
					switch x := r.Intn(10); {
					case x < 6:
						sc := c02GenFast(r, fails < 4)
						if sc.model("", len(sc.Steps)).status >= 500 {
							fails++
						}
						ok = c02ScFast(c, lv.e, fresh, rt, sc, "fast")
					case x < 7 && fails < 4:
						fails++
						ok = c02ScPanic(c, lv.e, fresh, rt, c02GenPanic(r, false), r)
					case x < 9 && fails < 4:
						fails++
						ok = c02ScPanic(c, lv.e, fresh, rt, c02GenPanic(r, true), r)
					default:
						ok = c02ScFast(c, lv.e, fresh, rt, c02GenFast(r, false), "fast")
					}
					if !ok && m.ViolCount() > 0 {
						return
					}
				}
			})
		}
		sub("rtlate", func(r *rand.Rand) {
			rts := lv.e.routes["rtlate"]
			if !c02LiveLate(c, lv, rts[:3], r, "late:route-timeout", fmt.Sprintf("server with Config.Timeout=60s, route WithTimeout(%v)", short)) {
				return
			}
			if ok, _ := c02ScLate(c, lv.e, fresh, rts[5], c02GenLate(r), c02ReqOpt{upgrade: "h2c"}); !ok && m.ViolCount() > 0 {
				return
			}
			for i := 0; i < 4; i++ { // rts[3:] : 4 x latepanic/late on their own breakers
				sc := c02GenLatePanic(r)
				if i%2 == 1 {
					sc = c02GenLate(r)
				}
				if ok, _ := c02ScLate(c, lv.e, fresh, rts[3+i%3], sc); !ok && m.ViolCount() > 0 {
					return
				}
			}
		})
		sub("expect", func(r *rand.Rand) { // DetailedLogHandler flavour (Verbose on)
			c02LiveExpect(c, lv, lv.e.routes["expect"], lv.e.routes["expectfast"][0], r)
		})
		sub("pv", func(r *rand.Rand) { // timeout + recover chain
			c02ScPanicAlphabet(c, lv.e, fresh, lv.e.routes["pv"], r)
		})
		sub("conns", func(r *rand.Rand) {
			c02ScMaxConns(c, lv.e, fresh, lv.e.routes["conns"][0], nMax, 25+r.Intn(10), r)
		})
		sub("bytes", func(r *rand.Rand) {
			rt := lv.e.routes["bytes"][0]
			n := int(mb)
			for _, l := range []int{n - 1, n, n + 1, 0, 2*n + 3, n + 1 + r.Intn(3000)} {
				if l < 0 {
					l = 0
				}
				if !c02ScMaxBytes(c, lv.e, fresh, rt, l, false, r) && m.ViolCount() > 0 {
					return
				}
			}
			c02ScMaxBytes(c, lv.e, fresh, rt, n+1+r.Intn(100), true, r)
			for _, meth := range []string{"GET", "PUT", "PATCH", "DELETE", "OPTIONS"} { // HEAD: a real client gets no body to compare
				rm := lv.e.routes["bytes-"+meth][0]
				for _, l := range []int{n, n + 1, n + 2 + r.Intn(3000)} {
					if !c02ScMaxBytes(c, lv.e, fresh, rm, l, false, r) && m.ViolCount() > 0 {
						return
					}
				}
			}
		})
		sub("keepalive", func(r *rand.Rand) {
			// one persistent connection: responses after a timeout / a panic must be intact
			tr := &http.Transport{MaxConnsPerHost: 1, MaxIdleConnsPerHost: 1}
			defer tr.CloseIdleConnections()
			keep := lv.doer(&http.Client{Transport: tr, Timeout: 3 * c02Watchdog})
			rt := lv.e.routes["keep"][0]
			lates := lv.e.routes["keeplate"]
			nlate := 0
			for k := 0; k < vk.N(24, 200); k++ {
				ok := true
				switch x := r.Intn(6); {
				case x == 0 && nlate < 8:
					ok, _ = c02ScLate(c, lv.e, keep, lates[nlate%2], c02GenLate(r))
					nlate++
				case x == 1:
					ok = c02ScPanic(c, lv.e, keep, rt, c02GenPanic(r, true), r)
				default:
					ok = c02ScFast(c, lv.e, keep, rt, c02GenFast(r, false), "keepalive")
				}
				if !ok {
					return
				}
			}
			m.Count("keepalive_requests_on_reused_conn", atomic.LoadInt64(&lv.reused))
		})
		wb.Wait()
	})
	wg.Wait()
	if m.ViolCount() > 0 {
		return
	}
	// --- server E: a business error handler installed with httpx.SetErrorHandler (process-wide: runs alone)
	c02WithErrMode("plain", func() {
		cfg := Config{Timeout: 0, MaxConns: 100}
		c := mk("E", cfg)
		short := time.Duration(30+r.Intn(40)) * time.Millisecond
		lv, ok := c02StartLive(m, "se", cfg, []c02Group{{Class: "rtlate", Method: http.MethodGet, N: 3, Timeout: short}})
		if !ok {
			return
		}
		c02LiveLate(c, lv, lv.e.routes["rtlate"], m.Rand("E"), "late:route-timeout-only", fmt.Sprintf("server with httpx.SetErrorHandler installed, route WithTimeout(%v)", short))
	})
}
