//go:build verif

package api

// C04 — several protected route groups on ONE engine (DESIGN.md §3 C04, engine layer).
// Every AddRoutes(..., WithSignature/WithJwt) group has its own key set / secrets; a
// request is judged by the reference verifiers against the configuration of the group
// its route belongs to: material that is valid for another group of the same server
// (another group's RSA key, a fingerprint name that another group maps to a different
// key, another group's JWT secret) must not open this group's routes.

import (
	"fmt"
	"io"
	"math/rand"
	"net/http"
	"net/http/httptest"
	"testing"
	"time"

	"github.com/gotid/god/lib/logx"
	"verif.local/vk"
)

type c04SigGroup struct {
	name   string
	strict bool
	tol    time.Duration
	ks     *c04KeySet // what this group is configured with (fingerprint -> key)
	obs    *c04Obs
	prefix string
}

type c04JwtGroup struct {
	name         string
	secret, prev string
	obs          *c04Obs
	prefix       string
}

func c04SubKeySet(all *c04KeySet, rename map[int]string, idx ...int) *c04KeySet {
	ks := &c04KeySet{outside: all.outside}
	for _, i := range idx {
		k := all.keys[i]
		if fp, ok := rename[i]; ok {
			k.fp = fp
		}
		ks.keys = append(ks.keys, k)
	}
	return ks
}

func c04GroupRelation(q c04SigReq, signer, target *c04SigGroup) string {
	if signer == target {
		return "own-group-key"
	}
	fp := c04Attrs(q.CS)["fingerprint"]
	if target.ks.byFP(fp) == nil {
		return "key-of-another-group"
	}
	if signer.ks.byFP(fp) == target.ks.byFP(fp) {
		return "key-shared-with-another-group"
	}
	return "fingerprint-name-shared-different-key"
}

func TestVerifC04EngineGroups(t *testing.T) {
	logx.Disable()
	m := vk.New(t, "C04", "one engine, 5 signature groups (disjoint, overlapping and same-fingerprint-name key sets, own tolerance, strict/non-strict) and 3 JWT groups (different secrets, one transition group whose prevSecret is another group's secret): each request is admitted iff the reference verifier accepts it under the configuration of the group that owns the route; only that group's handler runs")
	defer m.Done()
	all, err := c04NewKeySetFPs(t.TempDir(), []string{"k0", "k1", "k2", "k3"})
	if err != nil {
		m.Inconclusive("cannot create RSA keys: %v", err)
		return
	}
	sigGroups := []*c04SigGroup{
		{name: "a", strict: true, tol: 5 * time.Minute, ks: c04SubKeySet(all, map[int]string{0: "main"}, 0)},
		{name: "b", strict: true, tol: time.Hour, ks: c04SubKeySet(all, map[int]string{1: "main"}, 1)},          // same name "main", other key
		{name: "c", strict: true, tol: 5 * time.Minute, ks: c04SubKeySet(all, map[int]string{0: "main"}, 0, 2)}, // shares key 0 with a
		{name: "d", strict: false, tol: 5 * time.Minute, ks: c04SubKeySet(all, nil, 3)},
		{name: "e", strict: true, tol: 60 * time.Second, ks: c04SubKeySet(all, nil, 2, 3)},
	}
	secrets := []string{"c04-group-secret-one-0123456789", "c04-group-secret-two-abcdefghij", "c04-group-secret-three-KLMNOPQR"}
	jwtGroups := []*c04JwtGroup{
		{name: "j1", secret: secrets[0]},
		{name: "j2", secret: secrets[1]},
		{name: "j3", secret: secrets[2], prev: secrets[0]},
	}
	srv, err := c04NewServer()
	if err != nil {
		m.Inconclusive("NewServer: %v", err)
		return
	}
	allObs := []*c04Obs{}
	for _, g := range sigGroups {
		g.obs, g.prefix = &c04Obs{}, "/c04/grp/sig-"+g.name
		allObs = append(allObs, g.obs)
		sc := SignatureConfig{Strict: g.strict, Expire: g.tol}
		for _, k := range g.ks.keys {
			sc.PrivateKeys = append(sc.PrivateKeys, PrivateKeyConfig{Fingerprint: k.fp, KeyFile: k.file})
		}
		var routes []Route
		for _, mth := range c04AllMethods {
			routes = append(routes, Route{Method: mth, Path: g.prefix + "/:id", Handler: g.obs.inner()})
		}
		srv.AddRoutes(routes, WithSignature(sc))
	}
	for _, g := range jwtGroups {
		g.obs, g.prefix = &c04Obs{}, "/c04/grp/jwt-"+g.name
		allObs = append(allObs, g.obs)
		opt := WithJwt(g.secret)
		if g.prev != "" {
			opt = WithJwtTransition(g.secret, g.prev)
		}
		srv.AddRoutes([]Route{{Method: http.MethodGet, Path: g.prefix + "/:id", Handler: g.obs.inner()}}, opt)
	}
	if err := srv.ng.bindRoutes(srv.router); err != nil {
		m.Inconclusive("bindRoutes: %v", err)
		return
	}
	ts := httptest.NewServer(srv.router)
	defer ts.Close()
	send := func(req *http.Request) (int, error) {
		for _, o := range allObs {
			o.reset()
		}
		resp, err := ts.Client().Do(req)
		if err != nil {
			return 0, err
		}
		_, _ = io.Copy(io.Discard, resp.Body)
		resp.Body.Close()
		return resp.StatusCode, nil
	}
	othersRan := func(own *c04Obs) int {
		n := 0
		for _, o := range allObs {
			if o != own {
				r, _, _, _ := o.snapshot()
				n += r
			}
		}
		return n
	}
	sigClasses := []string{"valid", "valid", "valid-encrypted-body", "valid-multiblock-secret", "valid-ts-near-past-edge",
		"tamper-body", "tamper-signature", "tamper-query", "ts-too-old", "header-missing", "fingerprint-unknown",
		"valid-ts-unusual-spelling", "tamper-timestamp-spelling", "valid-escaped-path"}
	n := vk.N(1500, 30000)
	for idx := 1; idx <= n; idx++ {
		if !m.Only(idx) {
			continue
		}
		r := m.Rand("groups", idx)
		if idx%3 != 0 {
			c04GroupSigCase(m, idx, r, ts.URL, sigGroups, sigClasses, send, othersRan)
		} else {
			c04GroupJwtCase(m, idx, r, ts.URL, jwtGroups, send, othersRan)
		}
		if m.ViolCount() > 40 {
			m.Note("stopped after %d violations", m.ViolCount())
			return
		}
		if idx%500 == 0 {
			m.Progress()
		}
	}
}

func c04GroupSigCase(m *vk.M, idx int, r *rand.Rand, base string, groups []*c04SigGroup, classes []string,
	send func(*http.Request) (int, error), othersRan func(*c04Obs) int) {
	target := groups[r.Intn(len(groups))]
	signer := target
	if r.Intn(5) < 3 {
		signer = groups[r.Intn(len(groups))]
	}
	class := classes[r.Intn(len(classes))]
	t0 := time.Now()
	now := t0.Unix()
	// the client signs for the signer group's configuration (its keys, its tolerance) ...
	q := c04GenSig(r, class, signer.ks, target.prefix, now, int64(signer.tol.Seconds()))
	// ... and the target group's configuration decides
	want, why := c04VerifySig(q, target.ks, now, int64(target.tol.Seconds()))
	rel := c04GroupRelation(q, signer, target)
	if signer == target && want != q.Want && want != c04Unasserted {
		m.Inconclusive("harness self-check: class %s intended %d, verifier %d (%s)", class, q.Want, want, why)
		return
	}
	strictWant := want
	if !target.strict && want != c04Unasserted {
		want = c04Admit
	}
	desc := fmt.Sprintf("case=%d;route-group=%s(strict=%v,tolerance=%s,fingerprints=%v);signed-for-group=%s;relation=%s;class=%s;method=%s;path=%s;query=%q;body-len=%d;x-content-security=%q",
		idx, target.name, target.strict, target.tol, c04FPs(target.ks), signer.name, rel, class, q.Method, q.Path, q.Query, len(q.Body), q.CS)
	m.Current(desc)
	u := base + q.Path
	if q.Query != "" {
		u += "?" + q.Query
	}
	req, err := c04NewRequest(q.Method, u, q.Body)
	if err != nil {
		m.Inconclusive("bad request: %v", err)
		return
	}
	if q.HasCS {
		req.Header.Set("X-Content-Security", q.CS)
	}
	status, err := send(req)
	if err != nil {
		m.Inconclusive("transport error: %v at %s", err, desc)
		return
	}
	if time.Since(t0) > 8*time.Second {
		m.Count("groups.skipped_slow_case", 1)
		return
	}
	if status == http.StatusServiceUnavailable {
		m.Inconclusive("engine answered 503 at %s", desc)
		return
	}
	ran, _, _, _ := target.obs.snapshot()
	m.Count("groups.sig.requests", 1)
	m.Count("groups.sig.relation."+rel, 1)
	sig := "C04:groups:sig:" + c04ModeName(target.strict) + ":"
	tag := rel + ":" + class
	switch {
	case othersRan(target.obs) != 0:
		m.Violate(sig+"handler-of-another-group-ran:"+tag, desc, "a handler of another route group ran")
	case ran > 1 || (ran == 1) != (status == http.StatusOK):
		m.Violate(sig+"handler-and-status-disagree:"+tag, desc, "handler ran %d times, status %d", ran, status)
	case want == c04Admit && ran != 1:
		m.Violate(sig+"rejected-valid:"+tag, desc, "reference verdict under this group's keys: %s, but status %d and the handler did not run", why, status)
	case want == c04Reject && ran != 0:
		m.Violate(sig+"admitted-invalid:"+tag, desc, "reference verdict under this group's keys: %s, but the handler ran (status %d)", why, status)
	case want == c04Reject && status != http.StatusForbidden:
		m.Violate(sig+"reject-status-not-403:"+tag, desc, "rejected (%s) with status %d", why, status)
	default:
		if strictWant == c04Reject {
			m.Count("groups.sig.reference_rejects."+rel, 1)
		} else if strictWant == c04Admit {
			m.Count("groups.sig.reference_admits."+rel, 1)
		}
	}
	m.Case(vk.Digest("grp-sig", target.name, signer.name, class, q.CS, q.Path), want != c04Unasserted)
	if m.WantSample() && signer != target && idx%37 == 1 {
		m.Sample(map[string]any{"route_group": target.name, "signed_for_group": signer.name, "relation": rel, "class": class,
			"reference_verdict": why, "status": status, "handler_ran": ran})
	}
}

func c04FPs(ks *c04KeySet) []string {
	var out []string
	for _, k := range ks.keys {
		out = append(out, k.fp)
	}
	return out
}

func c04GroupJwtCase(m *vk.M, idx int, r *rand.Rand, base string, groups []*c04JwtGroup,
	send func(*http.Request) (int, error), othersRan func(*c04Obs) int) {
	target := groups[r.Intn(len(groups))]
	issuer := groups[r.Intn(len(groups))]
	class := "valid-secret"
	switch x := r.Intn(10); {
	case x < 2:
		class = "valid-prev"
	case x < 4:
		class = c04Pick(r, c04InvalidClasses)
	}
	now := time.Now().Unix()
	c := c04GenJwt(r, class, issuer.secret, issuer.prev, now)
	want, custom, why := c04VerifyJWT(c.Auth, c.HasHdr, target.secret, target.prev, now)
	if issuer == target && want != c.Want {
		m.Inconclusive("harness self-check: class %s intended %d, verifier %d (%s)", c.Class, c.Want, want, why)
		return
	}
	rel := "token-for-own-group"
	if issuer != target {
		rel = "token-for-group-" + issuer.name + "-on-group-" + target.name
	}
	desc := fmt.Sprintf("case=%d;route-group=%s(secret=%q,prev=%q);token-issued-for-group=%s;class=%s;authorization=%q",
		idx, target.name, target.secret, target.prev, issuer.name, c.Class, c.Auth)
	m.Current(desc)
	req, err := http.NewRequest(http.MethodGet, fmt.Sprintf("%s%s/%d", base, target.prefix, idx), http.NoBody)
	if err != nil {
		m.Inconclusive("bad request: %v", err)
		return
	}
	if c.HasHdr {
		req.Header.Set("Authorization", c.Auth)
	}
	status, err := send(req)
	if err != nil {
		m.Inconclusive("transport error: %v at %s", err, desc)
		return
	}
	if status == http.StatusServiceUnavailable {
		m.Inconclusive("engine answered 503 at %s", desc)
		return
	}
	ran, got, _, _ := target.obs.snapshot()
	m.Count("groups.jwt.requests", 1)
	m.Count("groups.jwt."+rel, 1)
	tag := rel + ":" + c.Class
	switch {
	case othersRan(target.obs) != 0:
		m.Violate("C04:groups:jwt:handler-of-another-group-ran:"+tag, desc, "a handler of another route group ran")
	case ran > 1 || (ran == 1) != (status == http.StatusOK):
		m.Violate("C04:groups:jwt:handler-and-status-disagree:"+tag, desc, "handler ran %d times, status %d", ran, status)
	case want == c04Admit && ran != 1:
		m.Violate("C04:groups:jwt:rejected-valid:"+tag, desc, "token verifies under this group's secrets (%s) but status %d", why, status)
	case want == c04Admit:
		if bad := c04CheckClaims(got, custom); bad != "" {
			m.Violate("C04:groups:jwt:claims-not-visible:"+tag, desc, "%s", bad)
		}
		m.Count("groups.jwt.admitted", 1)
	case want == c04Reject && ran != 0:
		m.Violate("C04:groups:jwt:admitted-invalid:"+tag, desc, "reference verifier rejects under this group's secrets (%s) but the handler ran", why)
	case want == c04Reject && status != http.StatusUnauthorized:
		m.Violate("C04:groups:jwt:reject-status-not-401:"+tag, desc, "rejected (%s) with status %d", why, status)
	case want == c04Reject:
		m.Count("groups.jwt.rejected_401", 1)
	}
	m.Case(vk.Digest("grp-jwt", target.name, issuer.name, c.Auth), want != c04Unasserted)
}
