//go:build verif

package api

// C02 — live servers, `Expect: 100-continue`: a raw TCP client sends the request
// head with a Content-Length and `Expect: 100-continue` and then WITHHOLDS the
// body (as the protocol allows: it waits for the server's verdict). The scripted
// handler never reads the body.
//
//   late     gated late handler ⇒ the 503 timeout response must reach the client while
//            it is still withholding the body
//   fast     handler finishes in time ⇒ its own response must reach the client while
//            the body is withheld
//   control  same route as `late`, no Expect header, body sent at once ⇒ 503
//
// Verdicts rest on recorded events (handler observed ctx.Done() and is parked on
// the gate / handler has returned) plus the generous watchdog c02Patience, never
// on a short sleep. After the watchdog the body is uploaded to record, as a
// witness, what the server had been waiting for.

import (
	"bufio"
	"fmt"
	"io"
	"math/rand"
	"net"
	"net/http"
	"strings"
	"sync"
	"sync/atomic"
	"time"

	"verif.local/vk"
)

type c02RawConn struct {
	conn      net.Conn
	head      string
	respCh    chan *c02Resp
	continue_ int32 // number of interim "100 Continue" responses seen
	contAt    int64 // unix nanos of the first one
	start     time.Time
}

// c02RawSend opens a connection, writes the request head (and the body if
// sendBody) and starts reading the response(s).
func c02RawSend(lv *c02Live, run *c02Run, declared int, expect, sendBody bool) (*c02RawConn, error) {
	addr := strings.TrimPrefix(lv.base, "http://")
	conn, err := net.DialTimeout("tcp", addr, 10*time.Second)
	if err != nil {
		return nil, err
	}
	var b strings.Builder
	fmt.Fprintf(&b, "%s %s HTTP/1.1\r\nHost: %s\r\n%s: %s\r\nContent-Type: application/octet-stream\r\nContent-Length: %d\r\n", run.route.Method, run.route.Path, addr, c02RunHeader, run.id, declared)
	if expect {
		b.WriteString("Expect: 100-continue\r\n")
	}
	b.WriteString("\r\n") // HTTP/1.1 keep-alive: with "Connection: close" net/http never tries to drain an unread body
	rc := &c02RawConn{conn: conn, head: b.String(), respCh: make(chan *c02Resp, 1), start: time.Now()}
	out := rc.head
	if sendBody {
		out += strings.Repeat("b", declared)
	}
	if _, err := io.WriteString(conn, out); err != nil {
		conn.Close()
		return nil, err
	}
	go func() {
		br := bufio.NewReader(conn)
		for {
			res, err := http.ReadResponse(br, nil)
			if err != nil {
				rc.respCh <- &c02Resp{Err: "reading response: " + err.Error(), Seq: vk.Seq(), Elapsed: time.Since(rc.start)}
				return
			}
			if res.StatusCode == http.StatusContinue {
				if atomic.AddInt32(&rc.continue_, 1) == 1 {
					atomic.StoreInt64(&rc.contAt, int64(time.Since(rc.start)))
				}
				continue
			}
			body, err := io.ReadAll(res.Body)
			res.Body.Close()
			r := &c02Resp{Status: res.StatusCode, Header: res.Header, Body: body, Seq: vk.Seq(), Elapsed: time.Since(rc.start)}
			if err != nil {
				r.Err = fmt.Sprintf("reading body after status %d: %v", res.StatusCode, err)
			}
			rc.respCh <- r
			return
		}
	}()
	return rc, nil
}

func (rc *c02RawConn) wait(d time.Duration) *c02Resp {
	t := time.NewTimer(d)
	defer t.Stop()
	select {
	case r := <-rc.respCh:
		return r
	case <-t.C:
		return nil
	}
}

// uploadAndReport sends the withheld body and describes what then arrives.
func (rc *c02RawConn) uploadAndReport(declared int) string {
	at := time.Since(rc.start)
	if _, err := io.WriteString(rc.conn, strings.Repeat("b", declared)); err != nil {
		return fmt.Sprintf("body upload at +%v failed: %v", at.Round(time.Millisecond), err)
	}
	r := rc.wait(c02Watchdog)
	if r == nil {
		return fmt.Sprintf("body (%d bytes) uploaded at +%v: still no response %v later", declared, at.Round(time.Millisecond), c02Watchdog)
	}
	return fmt.Sprintf("body (%d bytes) uploaded at +%v: then the client received [%s] at +%v", declared, at.Round(time.Millisecond), r.String(), r.Elapsed.Round(time.Millisecond))
}

func (rc *c02RawConn) interim() string {
	if n := atomic.LoadInt32(&rc.continue_); n > 0 {
		return fmt.Sprintf("%d interim \"HTTP/1.1 100 Continue\" (first at +%v)", n, time.Duration(atomic.LoadInt64(&rc.contAt)).Round(time.Millisecond))
	}
	return "no interim response"
}

// c02LiveExpect runs the three cases in parallel. lateRts needs two routes with a
// short timeout, fastRt a route whose timeout cannot fire (or none).
func c02LiveExpect(c *c02Ctx, lv *c02Live, lateRts []*c02Route, fastRt *c02Route, r *rand.Rand) {
	declared := 16
	if mb := lateRts[0].MaxBytes; mb > 0 && int64(declared) > mb {
		declared = int(mb)
	}
	if mb := fastRt.MaxBytes; mb > 0 && int64(declared) > mb {
		declared = int(mb)
	}
	var wg sync.WaitGroup
	gen := func(f func(*rand.Rand) *c02Script, seed int64) *c02Script {
		rr := rand.New(rand.NewSource(seed))
		for {
			sc := f(rr)
			if sc.index("hijack") < 0 { // keep the raw connection to the server's HTTP machinery
				return sc
			}
		}
	}
	seedL, seedC, seedF := r.Int63(), r.Int63(), r.Int63()

	late := func(rt *c02Route, expect bool, seed int64) {
		defer wg.Done()
		class := "expect-continue:control"
		if expect {
			class = "expect-continue:late"
		}
		sc := gen(c02GenLate, seed)
		c02Taint(rt)
		run := lv.e.newRun(rt, sc)
		defer lv.e.forget(run)
		defer run.release()
		rc, err := c02RawSend(lv, run, declared, expect, !expect)
		if err != nil {
			c.m.Inconclusive("%s: raw connection: %v", class, err)
			return
		}
		defer rc.conn.Close()
		resp := rc.wait(c02Patience)
		if resp == nil {
			if run.entered() == 1 && atomic.LoadInt32(&run.sawDone) == 1 {
				// deadline fired (recorded), handler parked on the gate, client still empty-handed
				sig := class + ":no-response"
				what := "sent the complete request (no Expect header)"
				if expect {
					sig, what = class+":no-response-until-upload", "is still withholding the body as `Expect: 100-continue` entitles it to"
				}
				after := ""
				if expect {
					after = " | " + rc.uploadAndReport(declared)
				}
				c.violate(sig, run, nil, "route %s (timeout %v): the handler observed ctx.Done() (%q) without ever reading the body and is parked on the harness gate; %v after the request the client, which %s, has received %s and no final response. Request head: %q%s",
					rt.Path, rt.Timeout, run.ctxErr, c02Patience, what, rc.interim(), rc.head, after)
				return
			}
			c.m.Inconclusive("%s: no response within %v (handler entered %d, saw ctx.Done %d)", class, c02Patience, run.entered(), atomic.LoadInt32(&run.sawDone))
			return
		}
		if okT, sub, why := c02IsTimeoutResp(run, resp, http.StatusServiceUnavailable); !okT {
			c.violate(class+":not-timeout-response:"+sub, run, resp, "gated late handler, body never read: %s (%s)", why, rc.interim())
			return
		}
		c.m.Count(strings.ReplaceAll(class, ":", "_")+"_503", 1)
		c.m.Case("server|"+class, true)
	}

	fast := func(rt *c02Route, seed int64) {
		defer wg.Done()
		class := "expect-continue:fast"
		sc := gen(func(rr *rand.Rand) *c02Script { return c02GenFast(rr, false) }, seed)
		run := lv.e.newRun(rt, sc)
		defer lv.e.forget(run)
		rc, err := c02RawSend(lv, run, declared, true, false)
		if err != nil {
			c.m.Inconclusive("%s: raw connection: %v", class, err)
			return
		}
		defer rc.conn.Close()
		resp := rc.wait(c02Patience)
		if resp == nil {
			select {
			case <-run.returnedCh:
				c.violate(class+":no-response-until-upload", run, nil, "route %s: the handler finished its response (without reading the body) and returned; %v after the request the client, still withholding the body as `Expect: 100-continue` entitles it to, has received %s and no final response. Request head: %q | %s",
					rt.Path, c02Patience, rc.interim(), rc.head, rc.uploadAndReport(declared))
			default:
				c.m.Inconclusive("%s: no response within %v and the handler has not returned (entered %d)", class, c02Patience, run.entered())
			}
			return
		}
		if c02JudgeFast(c, run, resp, class) {
			c.m.Count("expect-continue_fast_handler_response", 1)
			c.m.Case("server|"+class, true)
		}
	}

	wg.Add(3)
	go late(lateRts[0], true, seedL)
	go late(lateRts[1], false, seedC)
	go fast(fastRt, seedF)
	wg.Wait()
}
