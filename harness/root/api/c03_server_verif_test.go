//go:build verif

package api

// C03 through the public Server API: AddRoutes with route options (WithPrefix on route slices
// that are reused for several groups), custom not-found / not-allowed handlers installed
// through WithNotFoundHandler / WithNotAllowedHandler. The set of "registered routes" of the
// statement is what the user handed to AddRoutes: (method, prefix + path) for every group.

import (
	"fmt"
	"math/rand"
	"net/http"
	"net/http/httptest"
	"net/url"
	"path"
	"sort"
	"strings"
	"testing"

	"github.com/gotid/god/api/pathvar"
	"github.com/gotid/god/api/router"
	"github.com/gotid/god/lib/logx"
	"verif.local/vk"
)

func TestVerifC03ServerAPI(t *testing.T) {
	logx.Disable()
	m := vk.New(t, "C03", "Server.AddRoutes with WithPrefix over route slices shared by 1-3 groups (prefixes /v1, /v2, /p/q, none), with and without custom not-found / not-allowed handlers; every effective pattern instantiated (incl. request segments spelled ':name'), plus non-matching paths and other methods; oracle: reference segment matcher over (method, prefix+path)")
	defer m.Done()
	n := vk.N(400, 20000)
	r := m.Rand("server")
	type eff struct {
		method, pattern string
		segs            []string
		base            int // id of the handler (index into the base slice table)
	}
	var matched, nf, na, customNF, customNA int64
	for idx := 1; idx <= n; idx++ {
		rc := rand.New(rand.NewSource(r.Int63())) // one draw per case from the seeded stream: replay of a single case stays faithful
		// base slices
		nslices := 1 + rc.Intn(3)
		type base struct {
			routes []Route
			ids    []int
		}
		var bases []base
		nextID := 0
		hitID := -1
		var hitVars map[string]string
		var shape []string
		for s := 0; s < nslices; s++ {
			var b base
			seen := map[string]bool{}
			for len(b.routes) < 1+rc.Intn(4) {
				depth := rc.Intn(3)
				segs := []string{fmt.Sprintf("s%d", s)}
				for i := 0; i < depth; i++ {
					segs = append(segs, []string{"a", "b", ":x", ":y", "a"}[rc.Intn(5)])
				}
				// a pattern may not bind one name twice
				if strings.Count(strings.Join(segs, "/"), ":x") > 1 || strings.Count(strings.Join(segs, "/"), ":y") > 1 {
					continue
				}
				pat := "/" + strings.Join(segs, "/")
				method := []string{"GET", "POST", "PUT"}[rc.Intn(3)]
				if seen[method+pat] {
					continue
				}
				seen[method+pat] = true
				id := nextID
				nextID++
				b.routes = append(b.routes, Route{Method: method, Path: pat, Handler: func(w http.ResponseWriter, rq *http.Request) {
					hitID, hitVars = id, pathvar.Vars(rq)
					w.WriteHeader(299)
				}})
				b.ids = append(b.ids, id)
			}
			// half of the slices go through the public WithMiddleware(s) helpers (pass-through middlewares):
			// every wrapped route must still run ITS OWN handler
			switch rc.Intn(4) {
			case 0:
				b.routes = WithMiddleware(func(next http.HandlerFunc) http.HandlerFunc { return next }, b.routes...)
			case 1:
				pass := func(next http.HandlerFunc) http.HandlerFunc {
					return func(w http.ResponseWriter, rq *http.Request) { next(w, rq) }
				}
				b.routes = WithMiddlewares([]Middleware{pass, pass}, b.routes...)
			}
			bases = append(bases, b)
		}
		if !m.Only(idx) {
			continue
		}
		useNF, useNA := rc.Intn(2) == 0, rc.Intn(2) == 0
		viaNewServer := rc.Intn(2) == 0 // the public constructor applies its own default options around the caller's
		var sawNF, sawNA bool
		opts := []Option{WithNotFoundHandler(nil)}
		if useNF {
			opts = append(opts, WithNotFoundHandler(http.HandlerFunc(func(w http.ResponseWriter, rq *http.Request) {
				sawNF = true
				w.WriteHeader(http.StatusNotFound)
			})))
		}
		if useNA {
			opts = append(opts, WithNotAllowedHandler(http.HandlerFunc(func(w http.ResponseWriter, rq *http.Request) {
				sawNA = true
				w.WriteHeader(http.StatusMethodNotAllowed)
			})))
		}
		var srv *Server
		if viaNewServer {
			var err error
			srv, err = NewServer(Config{}, opts[1:]...)
			if err != nil {
				m.Inconclusive("case %d: NewServer: %v", idx, err)
				return
			}
			logx.Disable()
		} else {
			srv = &Server{ng: newEngine(Config{}), router: router.NewRouter()}
			for _, o := range opts {
				o(srv)
			}
		}
		var effs []eff
		prefixes := []string{"/v1", "/v2", "/p/q", ""}
		for s, b := range bases {
			// snapshot what the user hands over (the option must not change the caller's slice)
			orig := make([]string, len(b.routes))
			for i, rt := range b.routes {
				orig[i] = rt.Method + " " + rt.Path
			}
			groups := 1 + rc.Intn(3)
			perm := rc.Perm(len(prefixes))
			for g := 0; g < groups; g++ {
				px := prefixes[perm[g]]
				switch {
				case px == "":
					srv.AddRoutes(b.routes)
				case rc.Intn(3) == 0:
					// the single-route entry point must honour the same route options
					for _, rt := range b.routes {
						srv.AddRoute(rt, WithPrefix(px))
					}
				default:
					srv.AddRoutes(b.routes, WithPrefix(px))
				}
				shape = append(shape, fmt.Sprintf("slice%d@%q", s, px))
				for i := range orig {
					parts := strings.SplitN(orig[i], " ", 2)
					p := path.Join(px, parts[1])
					effs = append(effs, eff{method: parts[0], pattern: p, segs: c03eSegs(p), base: b.ids[i]})
				}
			}
			for i, rt := range b.routes {
				if rt.Method+" "+rt.Path != orig[i] {
					m.Violate("C03:server:route-option-changed-callers-routes", fmt.Sprintf("case=%d;%v", idx, shape), "route %q handed to AddRoutes reads %q afterwards", orig[i], rt.Method+" "+rt.Path)
				}
			}
		}
		desc := fmt.Sprintf("case=%d;groups=%v notFound=%v notAllowed=%v newServer=%v routes=%d", idx, shape, useNF, useNA, viaNewServer, len(effs))
		if rc.Intn(2) == 0 {
			// a caller lists the routes before the server starts and rewrites the listing it was handed (to print
			// it with another prefix, say): a listing is the caller's; the registered table is not changed by it
			listing := srv.Routes()
			for i := range listing {
				listing[i].Path = "/display" + listing[i].Path
				listing[i].Method = http.MethodPost
				listing[i].Handler = nil
			}
			m.Count("route_listings_rewritten_before_bind", 1)
		}
		if err := srv.ng.bindRoutes(srv.router); err != nil {
			m.Violate("C03:server:bind-rejected-valid-table", desc, "bindRoutes: %v", err)
			continue
		}
		// request paths: instances of every effective pattern (params replaced by a letter, or by a
		// segment spelled like a parameter), the un-prefixed originals, and a few strangers
		var paths []string
		for _, e := range effs {
			for k := 0; k < 2; k++ {
				segs := append([]string(nil), e.segs...)
				for i, sg := range segs {
					if strings.HasPrefix(sg, ":") {
						segs[i] = []string{"a", "z", sg, ":q", "k:v", "%41", "a%20b"}[rc.Intn(7)]
					}
				}
				paths = append(paths, "/"+strings.Join(segs, "/"))
			}
		}
		for _, b := range bases {
			for _, rt := range b.routes {
				paths = append(paths, strings.ReplaceAll(strings.ReplaceAll(rt.Path, ":x", "a"), ":y", "b"))
			}
		}
		paths = append(paths, "/", "/v1", "/v2/v1/s0", "/zz/s0/a",
			// unmatched paths whose raw form needs cleaning: still a plain 404 (never a redirect)
			"/zz//x", "/zz/./x", "/zz/b/../../..", "/debug/pprof/", "/debug/vars")
		v0 := m.ViolCount()
		for _, p := range paths {
			for _, method := range []string{"GET", "POST", "PUT", "DELETE", "TRACE", "get"} {
				if m.ViolCount() > v0 {
					break
				}
				req, _ := http.NewRequest(method, "http://c03.local/", nil)
				req.URL = &url.URL{Scheme: "http", Host: "c03.local", Path: p}
				w := httptest.NewRecorder()
				hitID, hitVars, sawNF, sawNA = -1, nil, false, false
				if pv, panicked := vk.Recover(func() { srv.router.ServeHTTP(w, req) }); panicked {
					m.Violate("C03:server:panic", desc, "%s %s: ServeHTTP panicked: %v", method, p, pv)
					continue
				}
				segs := c03eSegs(path.Clean(p))
				var match []eff
				others := map[string]bool{}
				for _, e := range effs {
					if _, ok := c03eMatch(e.segs, segs); ok {
						if e.method == method {
							match = append(match, e)
						} else {
							others[e.method] = true
						}
					}
				}
				switch {
				case len(match) > 0:
					matched++
					var chosen *eff
					for i := range match {
						if match[i].base == hitID {
							// several effective patterns may share a handler; take the one whose bindings agree
							want, _ := c03eMatch(match[i].segs, segs)
							if chosen == nil || fmt.Sprint(want) == fmt.Sprint(hitVars) {
								chosen = &match[i]
							}
						}
					}
					switch {
					case chosen == nil:
						m.Violate("C03:server:wrong-or-no-handler", desc, "%s %s: handler %d ran (status %d), matching effective routes %v", method, p, hitID, w.Code, match)
					case sawNF || sawNA:
						m.Violate("C03:server:fallback-handler-ran-on-match", desc, "%s %s: notFound=%v notAllowed=%v although %s matches", method, p, sawNF, sawNA, chosen.pattern)
					default:
						want, _ := c03eMatch(chosen.segs, segs)
						if fmt.Sprint(want) != fmt.Sprint(hitVars) && !(len(want) == 0 && len(hitVars) == 0) {
							m.Violate("C03:server:wrong-path-vars", desc, "%s %s via %s: vars %v want %v", method, p, chosen.pattern, hitVars, want)
						}
					}
				case hitID >= 0:
					m.Violate("C03:server:handler-without-match", desc, "%s %s: handler %d ran but no registered (method, prefix+path) matches", method, p, hitID)
				case len(others) > 0:
					na++
					var ks []string
					for k := range others {
						ks = append(ks, k)
					}
					sort.Strings(ks)
					switch {
					case sawNF:
						m.Violate("C03:server:not-found-handler-on-405", desc, "%s %s: not-found handler ran although %v match the path", method, p, ks)
					case useNA && !sawNA:
						m.Violate("C03:server:not-allowed-handler-not-used", desc, "%s %s: status %d, the installed not-allowed handler did not run", method, p, w.Code)
					case useNA:
						customNA++
					default:
						var got []string
						for _, a := range strings.Split(w.Header().Get("Allow"), ",") {
							if a = strings.TrimSpace(a); a != "" {
								got = append(got, a)
							}
						}
						sort.Strings(got)
						if w.Code != 405 || fmt.Sprint(got) != fmt.Sprint(ks) {
							m.Violate("C03:server:405", desc, "%s %s: status %d Allow %q, want 405 %v", method, p, w.Code, w.Header().Get("Allow"), ks)
						}
					}
				default:
					nf++
					switch {
					case sawNA:
						m.Violate("C03:server:not-allowed-handler-on-404", desc, "%s %s: the not-allowed handler ran although no method has a matching pattern", method, p)
					case useNF && !sawNF:
						m.Violate("C03:server:not-found-handler-not-used", desc, "%s %s: status %d, the installed not-found handler did not run", method, p, w.Code)
					case useNF:
						customNF++
					case w.Code != 404:
						m.Violate("C03:server:404", desc, "%s %s: status %d want 404", method, p, w.Code)
					}
				}
			}
		}
		m.Case(vk.Digest(desc, idx), len(effs) > 1)
		if m.WantSample() && idx%97 == 1 {
			m.Sample(map[string]any{"groups": shape, "custom_not_found": useNF, "custom_not_allowed": useNA, "effective_routes": len(effs)})
		}
	}
	m.Count("server_requests_matched", matched)
	m.Count("server_requests_404", nf)
	m.Count("server_requests_405", na)
	m.Count("server_custom_not_found_runs", customNF)
	m.Count("server_custom_not_allowed_runs", customNA)
}
