//go:build verif

package api

// C03 — composed case: routes bound through engine.bindRoutes (full middleware
// chain) onto the real router; same reference matcher as the router monitor,
// duplicated here because monitors of different packages share nothing.

import (
	"fmt"
	"net/http"
	"net/http/httptest"
	"net/url"
	"path"
	"sort"
	"strings"
	"testing"

	"github.com/gotid/god/api/pathvar"
	"github.com/gotid/god/api/router"
	"github.com/gotid/god/lib/logx"
	"verif.local/vk"
)

func c03eSegs(p string) []string {
	if p == "/" {
		return []string{""}
	}
	return strings.Split(p[1:], "/")
}

func c03eMatch(pat, segs []string) (map[string]string, bool) {
	if len(pat) != len(segs) {
		return nil, false
	}
	vars := map[string]string{}
	for i := range pat {
		if strings.HasPrefix(pat[i], ":") {
			vars[pat[i][1:]] = segs[i]
		} else if pat[i] != segs[i] {
			return nil, false
		}
	}
	return vars, true
}

func TestVerifC03Engine(t *testing.T) {
	logx.Disable()
	m := vk.New(t, "C03", "route tables of 2-8 distinct valid patterns bound through engine.bindRoutes (full default chain) and queried with every path up to depth 3 over {a,b,c,z} x GET/POST/DELETE")
	defer m.Done()
	n := vk.N(120, 6000)
	r := m.Rand("engine")
	lits, params := []string{"a", "b", "c"}, []string{":x", ":y"}
	type rt struct {
		method, pattern string
		segs            []string
		id              int
	}
	var paths []string
	paths = append(paths, "/")
	alpha := []string{"a", "b", "c", "z"}
	var rec func(prefix string, d int)
	rec = func(prefix string, d int) {
		if d == 0 {
			return
		}
		for _, s := range alpha {
			paths = append(paths, prefix+"/"+s)
			rec(prefix+"/"+s, d-1)
		}
	}
	rec("", 3)
	var matched, nf, na int64
	for idx := 1; idx <= n; idx++ {
		var routes []rt
		seen := map[string]bool{}
		for len(routes) < 2+r.Intn(7) {
			depth := r.Intn(4)
			var segs []string
			used := map[string]bool{}
			for i := 0; i < depth; i++ {
				if r.Intn(3) == 0 {
					p := params[r.Intn(2)]
					if !used[p] {
						used[p] = true
						segs = append(segs, p)
						continue
					}
				}
				segs = append(segs, lits[r.Intn(3)])
			}
			pat := "/" + strings.Join(segs, "/")
			method := []string{"GET", "POST"}[r.Intn(2)]
			if seen[method+pat] {
				continue
			}
			seen[method+pat] = true
			routes = append(routes, rt{method: method, pattern: pat, segs: c03eSegs(pat), id: len(routes)})
		}
		if !m.Only(idx) {
			continue
		}
		desc := fmt.Sprintf("case=%d;%v", idx, routes)
		var hitID = -1
		var hitVars map[string]string
		ng := newEngine(Config{Timeout: 0})
		var rs []Route
		for _, x := range routes {
			id := x.id
			rs = append(rs, Route{Method: x.method, Path: x.pattern, Handler: func(w http.ResponseWriter, r *http.Request) {
				hitID, hitVars = id, pathvar.Vars(r)
				w.WriteHeader(299)
			}})
		}
		ng.addRoutes(featuredRoutes{routes: rs})
		rtr := router.NewRouter()
		if err := ng.bindRoutes(rtr); err != nil {
			m.Violate("C03:engine-bind-rejected-valid-table", desc, "bindRoutes: %v", err)
			continue
		}
		v0 := m.ViolCount()
		for _, p := range paths {
			for _, method := range []string{"GET", "POST", "DELETE"} {
				if m.ViolCount() > v0 {
					break
				}
				req, _ := http.NewRequest(method, "http://c03.local/", nil)
				req.URL = &url.URL{Scheme: "http", Host: "c03.local", Path: p}
				w := httptest.NewRecorder()
				hitID, hitVars = -1, nil
				if pv, panicked := vk.Recover(func() { rtr.ServeHTTP(w, req) }); panicked {
					m.Violate("C03:engine-panic", desc, "%s %s: ServeHTTP panicked: %v", method, p, pv)
					continue
				}
				segs := c03eSegs(path.Clean(p))
				var match []rt
				others := map[string]bool{}
				for _, x := range routes {
					if _, ok := c03eMatch(x.segs, segs); ok {
						if x.method == method {
							match = append(match, x)
						} else {
							others[x.method] = true
						}
					}
				}
				switch {
				case len(match) > 0:
					matched++
					var chosen *rt
					for i := range match {
						if match[i].id == hitID {
							chosen = &match[i]
						}
					}
					if chosen == nil {
						m.Violate("C03:engine-wrong-or-no-handler", desc, "%s %s: handler %d ran, matching %v, status %d", method, p, hitID, match, w.Code)
						continue
					}
					want, _ := c03eMatch(chosen.segs, segs)
					if fmt.Sprint(want) != fmt.Sprint(hitVars) && !(len(want) == 0 && len(hitVars) == 0) {
						m.Violate("C03:engine-wrong-path-vars", desc, "%s %s via %s: vars %v want %v", method, p, chosen.pattern, hitVars, want)
					}
					for _, x := range match {
						lit := true
						for _, s := range x.segs {
							if strings.HasPrefix(s, ":") {
								lit = false
							}
						}
						if lit && x.id != chosen.id {
							m.Violate("C03:engine-literal-lost", desc, "%s %s: literal %s lost to %s", method, p, x.pattern, chosen.pattern)
						}
					}
				case hitID >= 0:
					m.Violate("C03:engine-handler-without-match", desc, "%s %s: handler %d ran without a matching pattern", method, p, hitID)
				case len(others) > 0:
					na++
					var ks []string
					for k := range others {
						ks = append(ks, k)
					}
					sort.Strings(ks)
					var got []string
					for _, a := range strings.Split(w.Header().Get("Allow"), ",") {
						if a = strings.TrimSpace(a); a != "" {
							got = append(got, a)
						}
					}
					sort.Strings(got)
					if w.Code != 405 || fmt.Sprint(got) != fmt.Sprint(ks) {
						m.Violate("C03:engine-405", desc, "%s %s: status %d Allow %q, want 405 %v", method, p, w.Code, w.Header().Get("Allow"), ks)
					}
				default:
					nf++
					if w.Code != 404 {
						m.Violate("C03:engine-404", desc, "%s %s: status %d want 404", method, p, w.Code)
					}
				}
			}
		}
		m.Case(vk.Digest(desc), true)
		if m.WantSample() && idx%37 == 1 {
			m.Sample(map[string]any{"routes": fmt.Sprint(routes)})
		}
	}
	// rejection clause at the engine level: an invalid registration anywhere inside an AddRoutes
	// group (duplicate pattern, path not starting with '/', unsupported method) must make
	// bindRoutes fail, whatever its position in the group.
	var rejected int64
	nrej := vk.N(300, 6000)
	for idx := 1; idx <= nrej; idx++ {
		size := 2 + r.Intn(5)
		pos := r.Intn(size)
		kind := r.Intn(4)
		var rs []Route
		h := func(w http.ResponseWriter, r *http.Request) {}
		for i := 0; i < size; i++ {
			rs = append(rs, Route{Method: []string{"GET", "POST", "PUT", "DELETE", "HEAD", "OPTIONS", "PATCH"}[r.Intn(7)], Path: fmt.Sprintf("/g%d/:x/r%d", idx, i), Handler: h})
		}
		what := "valid group"
		switch kind {
		case 0:
			other := (pos + 1 + r.Intn(size-1)) % size
			rs[pos].Method, rs[pos].Path = rs[other].Method, rs[other].Path
			if r.Intn(2) == 0 {
				rs[pos].Path += "/"
			}
			what = "duplicate pattern"
		case 1:
			rs[pos].Path = rs[pos].Path[1:]
			what = "path not starting with /"
		case 2:
			rs[pos].Method = []string{"FOO", "get", "TRACE", "CONNECT"}[r.Intn(4)]
			what = "unsupported method"
		}
		desc := fmt.Sprintf("case=%d;group of %d routes, %s at position %d: %v %v", 100000+idx, size, what, pos, rs[pos].Method, rs[pos].Path)
		ng := newEngine(Config{})
		// half of the cases: one group; the others: the offending route in the first of two groups
		ng.addRoutes(featuredRoutes{routes: rs})
		if idx%2 == 0 {
			ng.addRoutes(featuredRoutes{routes: []Route{{Method: "GET", Path: fmt.Sprintf("/tail%d", idx), Handler: h}}})
		}
		err := ng.bindRoutes(router.NewRouter())
		switch {
		case kind == 3 && err != nil:
			m.Violate("C03:engine-bind-rejected-valid-table", desc, "bindRoutes: %v", err)
		case kind != 3 && err == nil:
			m.Violate("C03:engine-invalid-registration-accepted:"+strings.ReplaceAll(what, " ", "-"), desc, "bindRoutes returned nil")
		case kind != 3:
			rejected++
		}
		m.Case(vk.Digest(desc), kind != 3)
	}
	m.Count("engine_groups_rejected", rejected)
	m.Count("requests_matched", matched)
	m.Count("requests_404", nf)
	m.Count("requests_405", na)
}
