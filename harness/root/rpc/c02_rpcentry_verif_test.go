//go:build verif

package rpc

// C02 — unary RPC guards through the public entry point: rpc.NewServer(ServerConfig,
// register).Start() over a loopback listener. The timeout and crash guards must be
// in place for every combination of the ServerConfig options that build the chain
// (CpuThreshold 0 / > 0, Timeout 0 / short / long). Scripted Deposit service,
// plain grpc client; deterministic cases are gated.

import (
	"context"
	"fmt"
	"net"
	"strings"
	"sync"
	"sync/atomic"
	"testing"
	"time"

	"github.com/gotid/god/lib/logx"
	"github.com/gotid/god/rpc/internal/mock"
	"google.golang.org/grpc"
	"google.golang.org/grpc/codes"
	"google.golang.org/grpc/credentials/insecure"
	"google.golang.org/grpc/status"
	"verif.local/vk"
)

const (
	c02Watchdog = 30 * time.Second
	c02Patience = 20 * time.Second
)

type c02EScript struct {
	Kind string `json:"kind"` // fast late park panic
	Code int    `json:"code"`
}

type c02ERun struct {
	id      int64
	sc      c02EScript
	gate    chan struct{}
	blocked chan struct{}
	parked  chan struct{}
	done    chan struct{}
	entries int32
	sawDone int32
	once    [4]sync.Once
}

func (r *c02ERun) release() { r.once[0].Do(func() { close(r.gate) }) }

type c02EService struct{ runs sync.Map }

func (s *c02EService) Deposit(ctx context.Context, req *mock.DepositRequest) (*mock.DepositResponse, error) {
	v, ok := s.runs.Load(int64(req.GetAmount()))
	if !ok {
		return nil, status.Error(codes.OutOfRange, "c02: unknown run")
	}
	r := v.(*c02ERun)
	atomic.AddInt32(&r.entries, 1)
	defer r.once[3].Do(func() { close(r.done) })
	wait := func(chs ...<-chan struct{}) int {
		t := time.NewTimer(3 * c02Watchdog)
		defer t.Stop()
		if len(chs) == 2 {
			select {
			case <-chs[0]:
				return 0
			case <-chs[1]:
				return 1
			case <-t.C:
				return -1
			}
		}
		select {
		case <-chs[0]:
			return 0
		case <-t.C:
			return -1
		}
	}
	switch r.sc.Kind {
	case "late":
		r.once[2].Do(func() { close(r.parked) })
		if wait(ctx.Done(), r.gate) == 0 {
			atomic.StoreInt32(&r.sawDone, 1)
		}
		r.once[1].Do(func() { close(r.blocked) })
		wait(r.gate)
	case "park":
		r.once[2].Do(func() { close(r.parked) })
		wait(r.gate)
	case "panic":
		panic(fmt.Sprintf("c02 scripted panic %d", r.id))
	}
	if r.sc.Code != 0 {
		return nil, status.Error(codes.Code(r.sc.Code), fmt.Sprintf("c02 handler error %d", r.id))
	}
	return &mock.DepositResponse{Ok: true}, nil
}

type c02ELive struct {
	label  string
	cfg    ServerConfig
	svc    *c02EService
	gs     *grpc.Server
	conn   *grpc.ClientConn
	client mock.DepositServiceClient
	fails  int64
}

func c02EStart(m *vk.M, cpu, timeoutMs int64) (*c02ELive, bool) {
	tl := "short"
	switch {
	case timeoutMs == 0:
		tl = "none"
	case timeoutMs >= 10000:
		tl = "long"
	}
	label := fmt.Sprintf("cpu%d-timeout-%s", cpu, tl) // stable across seeds (the short value is drawn per seed)
	for attempt := 0; attempt < 3; attempt++ {
		l, err := net.Listen("tcp", "127.0.0.1:0")
		if err != nil {
			m.Inconclusive("rpc entry %s: no free port: %v", label, err)
			return nil, false
		}
		addr := l.Addr().String()
		l.Close()
		lv := &c02ELive{label: label, svc: &c02EService{}}
		lv.cfg = ServerConfig{ListenOn: addr, Timeout: timeoutMs, CpuThreshold: cpu}
		lv.cfg.Name = "c02-" + label
		registered := make(chan *grpc.Server, 1)
		failed := make(chan any, 1)
		srv, err := NewServer(lv.cfg, func(gs *grpc.Server) {
			mock.RegisterDepositServiceServer(gs, lv.svc)
			registered <- gs
		})
		if err != nil {
			m.Inconclusive("rpc entry %s: NewServer: %v", label, err)
			return nil, false
		}
		go func() {
			defer func() {
				if p := recover(); p != nil {
					failed <- p
				}
			}()
			srv.Start()
		}()
		select {
		case lv.gs = <-registered:
		case p := <-failed:
			m.Note("rpc entry %s: start attempt %d on %s failed: %v", label, attempt, addr, p)
			continue
		case <-time.After(20 * time.Second):
			m.Inconclusive("rpc entry %s: Start did not register within 20 s", label)
			return nil, false
		}
		ctx, cancel := context.WithTimeout(context.Background(), 20*time.Second)
		conn, err := grpc.DialContext(ctx, addr, grpc.WithTransportCredentials(insecure.NewCredentials()), grpc.WithBlock())
		cancel()
		if err != nil {
			m.Inconclusive("rpc entry %s: dial: %v", label, err)
			return nil, false
		}
		lv.conn, lv.client = conn, mock.NewDepositServiceClient(conn)
		return lv, true
	}
	m.Inconclusive("rpc entry %s: could not be started", label)
	return nil, false
}

func (lv *c02ELive) stop() {
	lv.conn.Close()
	lv.gs.Stop()
}

var (
	c02ENext  int64
	c02EHangs int64
)

type c02EOut struct {
	resp *mock.DepositResponse
	err  error
}

// scenario runs one call. want: "handler" | "deadline" | "internal".
func (lv *c02ELive) scenario(m *vk.M, sc c02EScript) bool {
	run := &c02ERun{id: atomic.AddInt64(&c02ENext, 1), sc: sc, gate: make(chan struct{}), blocked: make(chan struct{}), parked: make(chan struct{}), done: make(chan struct{})}
	lv.svc.runs.Store(run.id, run)
	defer lv.svc.runs.Delete(run.id)
	defer run.release()
	gated := sc.Kind == "late" || sc.Kind == "park"
	if gated && atomic.LoadInt64(&c02EHangs) > 0 {
		return false
	}
	desc := fmt.Sprintf("case=0;server=%s;ServerConfig{Timeout:%d CpuThreshold:%d};run=%d;script=%s", lv.label, lv.cfg.Timeout, lv.cfg.CpuThreshold, run.id, vk.JSON(sc))
	ch := make(chan c02EOut, 1)
	go func() {
		ctx, cancel := context.WithTimeout(context.Background(), 4*c02Watchdog)
		defer cancel()
		r, e := lv.client.Deposit(ctx, &mock.DepositRequest{Amount: float32(run.id)})
		ch <- c02EOut{r, e}
	}()
	wait := func(d time.Duration) (c02EOut, bool) {
		t := time.NewTimer(d)
		defer t.Stop()
		select {
		case o := <-ch:
			return o, true
		case <-t.C:
			return c02EOut{}, false
		}
	}
	violate := func(sig string, o c02EOut, format string, a ...any) bool {
		m.Violate("C02:rpcentry:"+sig+":"+lv.label, desc, "%s | client saw resp=%v err=%v", fmt.Sprintf(format, a...), o.resp, o.err)
		return false
	}
	dump := func() string {
		var b strings.Builder
		for _, g := range vk.GoroutinesIn("github.com/gotid/god/rpc") {
			if b.Len() < 5000 {
				b.WriteString(g + "\n\n")
			}
		}
		return b.String()
	}
	var o c02EOut
	var got bool
	switch sc.Kind {
	case "park": // the handler simply takes its time, far inside any configured timeout (or there is none)
		select {
		case <-run.parked:
		case o = <-ch:
			got = true
		case <-time.After(c02Watchdog):
			m.Inconclusive("rpcentry %s: park handler not entered", lv.label)
			return false
		}
		if !got {
			run.release()
			if o, got = wait(c02Watchdog); !got {
				m.Inconclusive("rpcentry %s: no result after release", lv.label)
				return false
			}
		}
	case "late":
		patience := c02Patience
		if d := 20 * time.Duration(lv.cfg.Timeout) * time.Millisecond; d > patience {
			patience = d
		}
		if o, got = wait(patience); !got {
			atomic.AddInt64(&c02EHangs, 1)
			select {
			case <-run.parked:
			default:
				m.Inconclusive("rpcentry %s: late handler never entered", lv.label)
				return false
			}
			if atomic.LoadInt32(&run.sawDone) == 0 {
				// ServerConfig.Timeout > 0, the handler is inside and has waited max(20 x Timeout, 20 s)
				// for ctx.Done(): no server-side deadline is enforced at all
				m.Violate("C02:rpcentry:late:no-deadline-enforced:"+lv.label, desc, "ServerConfig.Timeout=%dms but %v after the call entered its handler ctx.Done() has not fired and the client has no status. Goroutines:\n%s", lv.cfg.Timeout, patience, dump())
			} else {
				m.Violate("C02:rpcentry:late:caller-blocked-until-handler-returns:"+lv.label, desc, "the handler observed ctx.Done() and is parked on the harness gate; %v later the client has no status. Goroutines:\n%s", patience, dump())
			}
			run.release()
			wait(c02Watchdog)
			return false
		}
	default:
		if o, got = wait(c02Watchdog); !got {
			m.Inconclusive("rpcentry %s: %s call unanswered within the watchdog", lv.label, sc.Kind)
			return false
		}
	}
	code := status.Code(o.err)
	if o.err != nil && (code == codes.DeadlineExceeded || code == codes.Internal || code == codes.Unavailable) {
		atomic.AddInt64(&lv.fails, 1)
	}
	if atomic.LoadInt32(&run.entries) == 0 && o.err != nil {
		// never reached the handler: the adaptive shedder (CpuThreshold > 0 on a busy machine)
		// or the method's breaker turned it away — admission control, not judged here
		if lv.cfg.CpuThreshold > 0 || atomic.LoadInt64(&lv.fails) > 0 {
			m.Count("admission_reject_tolerated", 1)
			return false
		}
	}
	switch sc.Kind {
	case "fast", "park":
		if sc.Code == 0 {
			if o.err != nil || o.resp == nil || !o.resp.GetOk() {
				return violate(sc.Kind+":not-handler-result", o, "handler returned (Ok:true, nil)")
			}
		} else if code != codes.Code(sc.Code) {
			return violate(sc.Kind+":not-handler-result", o, "handler returned status %v", codes.Code(sc.Code))
		}
		m.Count("result_handler", 1)
	case "panic":
		if o.err == nil || code != codes.Internal {
			return violate("panic:not-internal", o, "handler panicked, want Internal")
		}
		m.Count("result_panic_internal", 1)
	case "late":
		if o.err == nil || code != codes.DeadlineExceeded || o.resp != nil {
			return violate("late:not-DeadlineExceeded", o, "handler blocked past ctx.Done() and is held on the gate; the client set no deadline of its own")
		}
		m.Count("result_DeadlineExceeded", 1)
		run.release()
		t := time.NewTimer(c02Watchdog)
		select {
		case <-run.done:
		case <-t.C:
		}
		t.Stop()
	}
	if n := atomic.LoadInt32(&run.entries); n != 1 {
		return violate(sc.Kind+":handler-entries", o, "handler entered %d times", n)
	}
	m.Case(fmt.Sprintf("rpcentry|%s|%s|code=%d", lv.label, sc.Kind, sc.Code), true)
	return true
}

const c02EntryRule = "rpc.NewServer(ServerConfig).Start() over loopback for CpuThreshold x Timeout combinations: fast / slow-but-in-time handler => its result; gated late handler with Timeout > 0 => DeadlineExceeded from the server (a deadline that never fires is a violation); panic => Internal; server keeps serving"

func TestVerifC02RPCEntry(t *testing.T) {
	logx.Disable()
	m := vk.New(t, "C02", c02EntryRule)
	defer m.Done()
	r := m.Rand("rpcentry")
	short := int64(25 + r.Intn(40))
	type combo struct{ cpu, timeout int64 }
	combos := []combo{{0, short}, {1000, short}, {0, 60000}, {1000, 60000}, {0, 0}, {1000, 0}}
	okCodes := []int{0, 0, 0, int(codes.InvalidArgument), int(codes.NotFound), int(codes.AlreadyExists)}
	rounds := vk.N(3, 30)
	for _, cb := range combos {
		if m.ViolCount() > 0 {
			return
		}
		m.Current(fmt.Sprintf("case=0;cpu=%d;timeout=%d", cb.cpu, cb.timeout))
		lv, ok := c02EStart(m, cb.cpu, cb.timeout)
		if !ok {
			return
		}
		func() {
			defer lv.stop()
			for i := 0; i < rounds && m.ViolCount() == 0; i++ {
				// all servers of this process share the breaker of "/mock.DepositService/Deposit":
				// plenty of acceptable results around each failing one
				for k := 0; k < 10; k++ {
					lv.scenario(m, c02EScript{Kind: "fast", Code: okCodes[r.Intn(len(okCodes))]})
				}
				switch {
				case cb.timeout == short:
					lv.scenario(m, c02EScript{Kind: "late"})
				default: // long or no timeout: a handler that takes its time still delivers its result
					lv.scenario(m, c02EScript{Kind: "park", Code: okCodes[r.Intn(len(okCodes))]})
				}
				if i%2 == 0 {
					lv.scenario(m, c02EScript{Kind: "panic"})
				}
				lv.scenario(m, c02EScript{Kind: "fast"})
			}
		}()
	}
}
