//go:build verif

package codes

// C01 — benign-outcome table of the gRPC integration (DESIGN.md §3 C01 (f)):
// Acceptable over all 17 gRPC codes, as a predicate and as it acts on a real
// breaker (black box: a rejected call is one whose req did not run).

import (
	"context"
	"errors"
	"fmt"
	"io"
	"testing"
	"time"

	"github.com/gotid/god/lib/breaker"
	"github.com/gotid/god/lib/logx"
	"github.com/gotid/god/lib/stat"
	"github.com/gotid/god/lib/timex"
	gcodes "google.golang.org/grpc/codes"
	"google.golang.org/grpc/status"
	"verif.local/vk"
)

type c01StatusErr struct{ st *status.Status }

func (e c01StatusErr) GRPCStatus() *status.Status { return e.st }
func (e c01StatusErr) Error() string              { return "c01 status error" }

// the statement's failing set
var c01Failing = map[gcodes.Code]bool{
	gcodes.DeadlineExceeded: true, gcodes.Internal: true, gcodes.Unavailable: true,
	gcodes.DataLoss: true, gcodes.Unimplemented: true,
}

func c01CodeErr(c gcodes.Code, variant int) error {
	if c == gcodes.OK {
		return nil
	}
	if variant%2 == 0 {
		return status.Error(c, "c01")
	}
	return c01StatusErr{st: status.New(c, "c01")}
}

// c01NonStatus: errors that carry no gRPC status. Under gRPC's own definition
// (status.Code) such an error has code Unknown (a wrapped benign status has either
// its own code or Unknown), which is not in the statement's failing set; raw
// context.Canceled is named benign explicitly. Raw context.DeadlineExceeded and
// wrapped failing statuses are left unasserted (the statement leaves them open).
type c01PlainErr struct{ msg string }

func (e c01PlainErr) Error() string { return e.msg }

var c01NonStatus = []struct {
	name string
	err  error
}{
	{"errors.New", errors.New("c01 plain error")},
	{"custom-error-type", c01PlainErr{"c01 custom error type"}},
	{"raw-context.Canceled", context.Canceled},
	{"io.EOF", io.EOF},
	{"wrapped-NotFound-status", fmt.Errorf("c01 wrap: %w", status.Error(gcodes.NotFound, "c01"))},
}

func TestVerifC01GRPCCodesTable(t *testing.T) {
	m := vk.New(t, "C01", "codes.Acceptable over all 17 gRPC codes (status.Error and GRPCStatus() carriers) and over errors without a gRPC status (plain, custom type, raw context.Canceled, io.EOF, wrapped benign status: code Unknown/benign under status.Code => benign): predicate value; each benign code alone x150 calls through breaker.DoWithAcceptable on a fresh breaker => 0 rejections; 10000 mixed benign codes => 0 rejections; each failing code alone x400 => at least one rejection with ErrServiceUnavailable; virtual clock frozen; non-trivial = row completed (benign) / breaker rejected (failing)")
	defer m.Done()
	logx.Disable()
	stat.SetReporter(nil)
	timex.VerifFakeClock(1000*time.Hour + time.Duration(m.Rand("clock").Int63n(int64(time.Hour))))
	defer timex.VerifRealClock()
	r := m.Rand("codes")
	perBenign := vk.N(150, 2000)
	perBad := vk.N(400, 4000)
	var benign []gcodes.Code
	for c := gcodes.Code(0); c <= gcodes.Unauthenticated; c++ {
		name := c.String()
		want := !c01Failing[c]
		for v := 0; v < 2; v++ {
			got := Acceptable(c01CodeErr(c, v))
			m.Count("predicate_evaluations", 1)
			if got != want {
				if want {
					m.Violate("C01:benign:grpc-codes:"+name+":predicate", fmt.Sprintf("case=%d;Acceptable(%s)", int(c), name), "Acceptable(%s) = false, the statement lists it as benign", name)
				} else {
					m.Violate("C01:nonbenign:grpc-codes:"+name+":predicate", fmt.Sprintf("case=%d;Acceptable(%s)", int(c), name), "Acceptable(%s) = true, the statement lists it as a failure", name)
				}
				break
			}
		}
		brk := breaker.New()
		desc := fmt.Sprintf("case=%d;code %s alone on a fresh breaker", int(c), name)
		if want {
			benign = append(benign, c)
			okRow := true
			for i := 0; i < perBenign; i++ {
				ran := false
				err := brk.DoWithAcceptable(func() error { ran = true; return c01CodeErr(c, i) }, Acceptable)
				m.Count("calls_benign", 1)
				if !ran {
					m.Violate("C01:benign:grpc-codes:"+name+":rejected", desc, "call #%d was rejected (%v) after only %s outcomes", i, err, name)
					okRow = false
					break
				}
			}
			m.Case("benign-"+name, okRow)
			continue
		}
		rej, first := 0, -1
		bad := false
		for i := 0; i < perBad; i++ {
			ran := false
			err := brk.DoWithAcceptable(func() error { ran = true; return c01CodeErr(c, i) }, Acceptable)
			m.Count("calls_failing", 1)
			if ran && err == breaker.ErrServiceUnavailable {
				m.Violate("C01:reject:req-ran", desc, "call #%d ran the protected function and still returned ErrServiceUnavailable", i)
				bad = true
				break
			}
			if !ran {
				rej++
				if first < 0 {
					first = i
				}
				if err != breaker.ErrServiceUnavailable {
					m.Violate("C01:reject:wrong-error", desc, "rejected call #%d returned %v", i, err)
					bad = true
					break
				}
			}
		}
		m.Count("calls_rejected", int64(rej))
		if !bad && rej == 0 {
			m.Violate("C01:nonbenign:grpc-codes:"+name+":never-cut-off", desc, "%d consecutive %s outcomes and not a single rejection: the code does not count as a failure", perBad, name)
		}
		m.Case("failing-"+name, rej > 0)
		m.Sample(map[string]any{"scenario": fmt.Sprintf("%s x%d on a fresh breaker", name, perBad), "rejected": rej, "first_rejection_at_call": first})
	}
	// ---- errors without a gRPC status (code Unknown under status.Code)
	var benignErrs []error
	for i, row := range c01NonStatus {
		desc := fmt.Sprintf("case=%d;non-status error %s alone on a fresh breaker", 50+i, row.name)
		if got := status.Code(row.err); c01Failing[got] {
			m.Skip("non-status row " + row.name + ": status.Code maps it to " + got.String())
			continue
		}
		m.Count("predicate_evaluations", 1)
		if !Acceptable(row.err) {
			m.Violate("C01:benign:grpc-codes:non-status:"+row.name+":predicate", desc, "Acceptable(%v) = false although status.Code reports %s, which is not one of DeadlineExceeded/Internal/Unavailable/DataLoss/Unimplemented", row.err, status.Code(row.err))
			m.Case("benign-nonstatus-"+row.name, false)
			continue
		}
		benignErrs = append(benignErrs, row.err)
		b := breaker.New()
		okRow := true
		for k := 0; k < perBenign; k++ {
			ran := false
			err := b.DoWithAcceptable(func() error { ran = true; return row.err }, Acceptable)
			m.Count("calls_benign_non_status", 1)
			if !ran {
				m.Violate("C01:benign:grpc-codes:non-status:"+row.name+":rejected", desc, "call #%d was rejected (%v) after only %s outcomes", k, err, row.name)
				okRow = false
				break
			}
		}
		m.Case("benign-nonstatus-"+row.name, okRow)
	}
	brk := breaker.New()
	n := vk.N(10000, 200000)
	for i := 0; i < n; i++ {
		c := benign[r.Intn(len(benign))]
		e := c01CodeErr(c, i)
		if len(benignErrs) > 0 && r.Intn(4) == 0 {
			e = benignErrs[r.Intn(len(benignErrs))]
		}
		ran := false
		err := brk.DoWithAcceptable(func() error { ran = true; return e }, Acceptable)
		m.Count("calls_benign_mixed", 1)
		if !ran {
			m.Violate("C01:benign:grpc-codes:mixed:rejected", "case=100;mixed benign codes and non-status errors on one breaker", "call #%d (%v) rejected (%v) although every outcome so far was benign", i, e, err)
			break
		}
	}
	m.Case("mixed-benign", true)

	// ---- sustained mix of benign and failing codes below the trip threshold: nothing may be
	// rejected while the outcomes seen satisfy total-5 <= 1.5*accepts (frozen clock)
	for _, share := range []int{10, 30} {
		mb := breaker.New()
		n := vk.N(3000, 30000)
		var acc, tot int64
		okRow := true
		failingCodes := []gcodes.Code{gcodes.DeadlineExceeded, gcodes.Internal, gcodes.Unavailable, gcodes.DataLoss, gcodes.Unimplemented}
		for k := 0; k < n; k++ {
			bad := r.Intn(100) < share
			c := benign[r.Intn(len(benign))]
			if bad {
				c = failingCodes[r.Intn(len(failingCodes))]
			}
			must := 2*(tot-5) <= 3*acc
			ran := false
			err := mb.DoWithAcceptable(func() error { ran = true; return c01CodeErr(c, k) }, Acceptable)
			m.Count("calls_mixed_success_failure", 1)
			if !ran {
				if must {
					m.Violate("C01:mixed:grpc-codes:rejected-below-threshold", fmt.Sprintf("case=%d;%d%% failing codes among benign ones", 200+share, share), "call #%d (%s) was rejected (%v) although the %d admitted calls so far were %d benign and %d failing, i.e. total-5 <= 1.5*successes", k, c, err, tot, acc, tot-acc)
					okRow = false
					break
				}
				continue
			}
			tot++
			if !bad {
				acc++
			}
		}
		m.Case(fmt.Sprint("mixed-success-failure", share, okRow), okRow && tot > acc)
	}
}
