//go:build verif

package codes

// C01 — benign-outcome table of the gRPC integration (DESIGN.md §3 C01 (f)):
// Acceptable over all 17 gRPC codes, as a predicate and as it acts on a real
// breaker (black box: a rejected call is one whose req did not run).

import (
	"fmt"
	"testing"
	"time"

	"github.com/gotid/god/lib/breaker"
	"github.com/gotid/god/lib/logx"
	"github.com/gotid/god/lib/stat"
	"github.com/gotid/god/lib/timex"
	gcodes "google.golang.org/grpc/codes"
	"google.golang.org/grpc/status"
	"verif.local/vk"
)

type c01StatusErr struct{ st *status.Status }

func (e c01StatusErr) GRPCStatus() *status.Status { return e.st }
func (e c01StatusErr) Error() string              { return "c01 status error" }

// the statement's failing set
var c01Failing = map[gcodes.Code]bool{
	gcodes.DeadlineExceeded: true, gcodes.Internal: true, gcodes.Unavailable: true,
	gcodes.DataLoss: true, gcodes.Unimplemented: true,
}

func c01CodeErr(c gcodes.Code, variant int) error {
	if c == gcodes.OK {
		return nil
	}
	if variant%2 == 0 {
		return status.Error(c, "c01")
	}
	return c01StatusErr{st: status.New(c, "c01")}
}

func TestVerifC01GRPCCodesTable(t *testing.T) {
	m := vk.New(t, "C01", "codes.Acceptable over all 17 gRPC codes (status.Error and GRPCStatus() carriers): predicate value; each benign code alone x150 calls through breaker.DoWithAcceptable on a fresh breaker => 0 rejections; 10000 mixed benign codes => 0 rejections; each failing code alone x400 => at least one rejection with ErrServiceUnavailable; virtual clock frozen; non-trivial = row completed (benign) / breaker rejected (failing)")
	defer m.Done()
	logx.Disable()
	stat.SetReporter(nil)
	timex.VerifFakeClock(1000*time.Hour + time.Duration(m.Rand("clock").Int63n(int64(time.Hour))))
	defer timex.VerifRealClock()
	r := m.Rand("codes")
	perBenign := vk.N(150, 2000)
	perBad := vk.N(400, 4000)
	var benign []gcodes.Code
	for c := gcodes.Code(0); c <= gcodes.Unauthenticated; c++ {
		name := c.String()
		want := !c01Failing[c]
		for v := 0; v < 2; v++ {
			got := Acceptable(c01CodeErr(c, v))
			m.Count("predicate_evaluations", 1)
			if got != want {
				if want {
					m.Violate("C01:benign:grpc-codes:"+name+":predicate", fmt.Sprintf("case=%d;Acceptable(%s)", int(c), name), "Acceptable(%s) = false, the statement lists it as benign", name)
				} else {
					m.Violate("C01:nonbenign:grpc-codes:"+name+":predicate", fmt.Sprintf("case=%d;Acceptable(%s)", int(c), name), "Acceptable(%s) = true, the statement lists it as a failure", name)
				}
				break
			}
		}
		brk := breaker.New()
		desc := fmt.Sprintf("case=%d;code %s alone on a fresh breaker", int(c), name)
		if want {
			benign = append(benign, c)
			okRow := true
			for i := 0; i < perBenign; i++ {
				ran := false
				err := brk.DoWithAcceptable(func() error { ran = true; return c01CodeErr(c, i) }, Acceptable)
				m.Count("calls_benign", 1)
				if !ran {
					m.Violate("C01:benign:grpc-codes:"+name+":rejected", desc, "call #%d was rejected (%v) after only %s outcomes", i, err, name)
					okRow = false
					break
				}
			}
			m.Case("benign-"+name, okRow)
			continue
		}
		rej, first := 0, -1
		bad := false
		for i := 0; i < perBad; i++ {
			ran := false
			err := brk.DoWithAcceptable(func() error { ran = true; return c01CodeErr(c, i) }, Acceptable)
			m.Count("calls_failing", 1)
			if ran && err == breaker.ErrServiceUnavailable {
				m.Violate("C01:reject:req-ran", desc, "call #%d ran the protected function and still returned ErrServiceUnavailable", i)
				bad = true
				break
			}
			if !ran {
				rej++
				if first < 0 {
					first = i
				}
				if err != breaker.ErrServiceUnavailable {
					m.Violate("C01:reject:wrong-error", desc, "rejected call #%d returned %v", i, err)
					bad = true
					break
				}
			}
		}
		m.Count("calls_rejected", int64(rej))
		if !bad && rej == 0 {
			m.Violate("C01:nonbenign:grpc-codes:"+name+":never-cut-off", desc, "%d consecutive %s outcomes and not a single rejection: the code does not count as a failure", perBad, name)
		}
		m.Case("failing-"+name, rej > 0)
		m.Sample(map[string]any{"scenario": fmt.Sprintf("%s x%d on a fresh breaker", name, perBad), "rejected": rej, "first_rejection_at_call": first})
	}
	brk := breaker.New()
	n := vk.N(10000, 200000)
	for i := 0; i < n; i++ {
		c := benign[r.Intn(len(benign))]
		ran := false
		err := brk.DoWithAcceptable(func() error { ran = true; return c01CodeErr(c, i) }, Acceptable)
		m.Count("calls_benign_mixed", 1)
		if !ran {
			m.Violate("C01:benign:grpc-codes:mixed:rejected", "case=100;mixed benign codes on one breaker", "call #%d (%s) rejected (%v) although every outcome so far was benign", i, c, err)
			break
		}
	}
	m.Case("mixed-benign", true)
}
