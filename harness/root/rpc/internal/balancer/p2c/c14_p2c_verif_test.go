//go:build verif

package p2c

// C14 — P2C balancer monitor (DESIGN.md §3 C14).
//
// The picker under test is the real p2cPicker built by p2cPickerBuilder.Build
// (and, in TestVerifC14Registered, by the balancer registered as "p2c_ewma")
// over fake balancer.SubConns. Time is the virtual clock of lib/timex (tag
// verif); the picker's PRNG is reseeded from VERIF_SEED and its connection
// slice (built from a map range) is sorted so that runs are reproducible.
// After every Pick / Done event the monitor reads the subConn fields with
// atomic loads and checks the per-event invariants of the statement.

import (
	"context"
	"errors"
	"fmt"
	"math/rand"
	"sort"
	"strings"
	"sync"
	"sync/atomic"
	"testing"
	"time"

	"github.com/gotid/god/lib/logx"
	"github.com/gotid/god/lib/timex"
	rpccodes "github.com/gotid/god/rpc/internal/codes"
	"google.golang.org/grpc/attributes"
	"google.golang.org/grpc/balancer"
	"google.golang.org/grpc/balancer/base"
	"google.golang.org/grpc/codes"
	"google.golang.org/grpc/connectivity"
	"google.golang.org/grpc/metadata"
	"google.golang.org/grpc/resolver"
	"google.golang.org/grpc/status"

	"verif.local/vk"
)

// ---------------------------------------------------------------------------
// fakes and adapters

type c14Conn struct {
	balancer.SubConn // nil; keeps the fake valid if the interface grows
	id               int
}

func (*c14Conn) UpdateAddresses([]resolver.Address) {}
func (*c14Conn) Connect()                           {}

type c14Snap struct {
	lag      uint64
	inflight int64
	success  uint64
}

func c14Read(c *subConn) c14Snap {
	return c14Snap{
		lag:      atomic.LoadUint64(&c.lag),
		inflight: atomic.LoadInt64(&c.inflight),
		success:  atomic.LoadUint64(&c.success),
	}
}

// c14Start is the virtual time at which scenarios start: the production clock
// (time since a point 13 months before process start) is never near zero.
const c14Start = 400 * 24 * time.Hour

// c14Adopt makes a freshly built picker reproducible: deterministic order of
// conns (Build ranges over a map) and a PRNG derived from the scenario seed.
func c14Adopt(pk balancer.Picker, seed int64) (*p2cPicker, bool) {
	p, ok := pk.(*p2cPicker)
	if !ok {
		return nil, false
	}
	sort.Slice(p.conns, func(i, j int) bool { return p.conns[i].addr.Addr < p.conns[j].addr.Addr })
	p.r = rand.New(rand.NewSource(seed))
	return p, true
}

func c14NewPicker(n int, seed int64) (*p2cPicker, map[balancer.SubConn]int, error) {
	ready := make(map[balancer.SubConn]base.SubConnInfo, n)
	idx := make(map[balancer.SubConn]int, n)
	for i := 0; i < n; i++ {
		sc := &c14Conn{id: i}
		ready[sc] = base.SubConnInfo{Address: resolver.Address{Addr: fmt.Sprintf("b%03d", i)}}
		idx[sc] = i
	}
	p, ok := c14Adopt(new(p2cPickerBuilder).Build(base.PickerBuildInfo{ReadySCs: ready}), seed)
	if !ok {
		return nil, nil, fmt.Errorf("Build did not return a *p2cPicker")
	}
	if len(p.conns) != n {
		return nil, nil, fmt.Errorf("picker has %d conns, %d ready given", len(p.conns), n)
	}
	for i, c := range p.conns { // after the sort conns[i] is backend i
		if idx[c.conn] != i {
			return nil, nil, fmt.Errorf("conn order not canonical")
		}
	}
	return p, idx, nil
}

var c14PickInfo = balancer.PickInfo{FullMethodName: "/verif.C14/Call", Ctx: context.Background()}

// c14PickInfos: the result of a pick may depend on the ready set and the
// picker's state only, never on the PickInfo: live, nil, already cancelled and
// already expired contexts, assorted method names.
var c14PickInfos = func() []balancer.PickInfo {
	cancelled, cancel := context.WithCancel(context.Background())
	cancel()
	expired, cancel2 := context.WithDeadline(context.Background(), time.Unix(1, 0))
	_ = cancel2
	live, cancel3 := context.WithTimeout(context.Background(), 24*time.Hour)
	_ = cancel3
	valued := context.WithValue(context.Background(), c14CtxKey{}, "v")
	return []balancer.PickInfo{
		c14PickInfo,
		{FullMethodName: "/verif.C14/Call", Ctx: cancelled},
		{FullMethodName: "", Ctx: context.Background()},
		{FullMethodName: "/verif.C14/Call", Ctx: expired},
		{FullMethodName: "/verif.C14/Other", Ctx: live},
		{FullMethodName: "/verif.C14/Call", Ctx: nil},
		{FullMethodName: "/", Ctx: valued},
		{FullMethodName: "/a.very.long.package.name.v1alpha1.ServiceWithALongName/MethodWithALongNameToo", Ctx: cancelled},
	}
}()

var c14PickInfoNames = []string{"background", "cancelled-ctx", "empty-method", "expired-deadline-ctx", "live-deadline-ctx", "nil-ctx", "ctx-with-value", "long-method+cancelled-ctx"}

type c14CtxKey struct{}

func c14PickInfoN(n int64) (balancer.PickInfo, string) {
	i := int(uint64(n) % uint64(len(c14PickInfos)))
	return c14PickInfos[i], c14PickInfoNames[i]
}

// error kinds: class +1 = acceptable beyond doubt, -1 = unacceptable beyond
// doubt (the "call failed" codes), 0 = whatever rpc/internal/codes says.
type c14ErrKind struct {
	name  string
	err   error
	class int
}

var c14Errs = []c14ErrKind{
	{"nil", nil, +1},
	{"Unavailable", status.Error(codes.Unavailable, "x"), -1},
	{"DeadlineExceeded", status.Error(codes.DeadlineExceeded, "x"), -1},
	{"Internal", status.Error(codes.Internal, "x"), -1},
	{"DataLoss", status.Error(codes.DataLoss, "x"), 0},
	{"Unimplemented", status.Error(codes.Unimplemented, "x"), 0},
	{"Canceled", status.Error(codes.Canceled, "x"), 0},
	{"InvalidArgument", status.Error(codes.InvalidArgument, "x"), 0},
	{"NotFound", status.Error(codes.NotFound, "x"), 0},
	{"AlreadyExists", status.Error(codes.AlreadyExists, "x"), 0},
	{"PermissionDenied", status.Error(codes.PermissionDenied, "x"), 0},
	{"ResourceExhausted", status.Error(codes.ResourceExhausted, "x"), 0},
	{"FailedPrecondition", status.Error(codes.FailedPrecondition, "x"), 0},
	{"Aborted", status.Error(codes.Aborted, "x"), 0},
	{"OutOfRange", status.Error(codes.OutOfRange, "x"), 0},
	{"Unauthenticated", status.Error(codes.Unauthenticated, "x"), 0},
	{"Unknown", status.Error(codes.Unknown, "x"), 0},
	{"plain", errors.New("plain error"), 0},
	{"ctxDeadline", context.DeadlineExceeded, 0},
}

func (k c14ErrKind) acceptable() bool {
	switch {
	case k.class > 0:
		return true
	case k.class < 0:
		return false
	}
	return rpccodes.Acceptable(k.err)
}

var (
	c14Fail1 = c14Errs[1] // Unavailable
	c14Fail2 = c14Errs[2] // DeadlineExceeded
	c14OK    = c14Errs[0]
)

// c14DoneInfo varies the DoneInfo fields the score must NOT depend on: the
// statement makes the score a function of the error (acceptable or not) only.
type c14LoadReport struct{ CPU float64 }

func c14DoneInfo(err error, n int64) balancer.DoneInfo {
	di := balancer.DoneInfo{Err: err, BytesSent: n&1 != 0, BytesReceived: n&2 != 0}
	if n&4 != 0 {
		di.Trailer = metadata.Pairs("x-verif", "c14", "grpc-status-details-bin", "AA")
	}
	if n&8 != 0 {
		di.ServerLoad = &c14LoadReport{CPU: float64(n%100) / 100}
	}
	return di
}

// c14Watched runs one scenario on its own goroutine and watches the monitor's
// progress counter (bumped by every Pick / Done the monitor issues): a Pick or
// Done that never returns (picker lock never released) must not park the test
// itself. false = no progress for c14HangWatchdog; the scenario goroutine is
// abandoned and the caller stops the test.
var c14Progress int64

const c14HangWatchdog = 30 * time.Second

const c14RaceWatchdog = 120 * time.Second

func c14Watched(m *vk.M, desc string, f func()) bool {
	done := make(chan struct{})
	go func() {
		defer close(done)
		f()
	}()
	tk := time.NewTicker(time.Second)
	defer tk.Stop()
	last, idle := atomic.LoadInt64(&c14Progress), 0
	for {
		select {
		case <-done:
			return true
		case <-tk.C:
			if cur := atomic.LoadInt64(&c14Progress); cur != last {
				last, idle = cur, 0
			} else if idle++; idle >= int(c14HangWatchdog/time.Second) {
				c14ClassifyStall(m, desc, fmt.Sprintf("a Pick/Done call of the scenario (operation #%d)", cur+1))
				return false
			}
		}
	}
}

// c14ClassifyStall decides what a stalled Pick/Done is. Pick and Done do no I/O
// and take microseconds; if, after the watchdog, goroutines are parked on the
// picker's mutex inside p2cPicker methods while no goroutine is running inside
// the picker (nobody can ever release it), the lock was leaked: the property's
// entry point never returns. Anything else is a slow machine: inconclusive.
var c14Stalled int32 // set when a Pick/Done stalled in the running test: no further scenarios

func c14ClassifyStall(m *vk.M, desc, what string) {
	atomic.StoreInt32(&c14Stalled, 1)
	time.Sleep(200 * time.Millisecond)
	blocks := vk.GoroutinesIn("p2c.(*p2cPicker).")
	var waiting, inside []string
	for _, b := range blocks {
		if strings.Contains(b, "sync.(*Mutex).Lock") {
			waiting = append(waiting, b)
		} else {
			inside = append(inside, b)
		}
	}
	if len(waiting) > 0 && len(inside) == 0 {
		dump := strings.Join(waiting, "\n\n")
		if len(dump) > 3000 {
			dump = dump[:3000]
		}
		m.Violate("C14:pick:hang:picker-lock-never-released", desc, "%s did not return within %v: %d goroutine(s) parked on the picker mutex inside p2cPicker methods and no goroutine holds it any more:\n%s", what, c14HangWatchdog, len(waiting), dump)
		return
	}
	m.Inconclusive("%s did not return within %v but the goroutine dump does not show a leaked picker lock (%d waiting, %d inside)", what, c14HangWatchdog, len(waiting), len(inside))
}

// ---------------------------------------------------------------------------
// per-event oracle (sequential histories)

type c14Pending struct {
	conn  int
	start int64
	done  func(balancer.DoneInfo)
}

type c14Mon struct {
	m      *vk.M
	p      *p2cPicker
	idx    map[balancer.SubConn]int
	n      int
	desc   func() string
	picks  []int64
	comps  []int64
	minLat []int64
	maxLat []int64
	// event counters (flushed into vk counters by the caller)
	nPick, nAcc, nUnacc, nAdv, nChecks int64
	nRose, nFell                       int64
	bad                                bool
}

func c14NewMon(m *vk.M, p *p2cPicker, idx map[balancer.SubConn]int, desc func() string) *c14Mon {
	n := len(p.conns)
	mon := &c14Mon{m: m, p: p, idx: idx, n: n, desc: desc,
		picks: make([]int64, n), comps: make([]int64, n), minLat: make([]int64, n), maxLat: make([]int64, n)}
	for i := range mon.minLat {
		mon.minLat[i] = -1
	}
	return mon
}

func (mon *c14Mon) violate(sig, format string, a ...any) {
	mon.bad = true
	mon.m.Violate(sig, mon.desc(), format, a...)
}

// checkAll: range of success and inflight == picks - completions for every conn.
func (mon *c14Mon) checkAll(ev string) {
	for i, c := range mon.p.conns {
		s := c14Read(c)
		mon.nChecks++
		if s.success > initSuccess {
			mon.violate("C14:success:out-of-range", "after %s: backend %d success=%d, outside [0,%d]", ev, i, s.success, initSuccess)
			return
		}
		if want := mon.picks[i] - mon.comps[i]; s.inflight != want {
			mon.violate("C14:inflight:not-picks-minus-completions", "after %s: backend %d inflight=%d, picks=%d completions=%d (want %d)", ev, i, s.inflight, mon.picks[i], mon.comps[i], want)
			return
		}
	}
}

// pick performs one Pick and checks it. ok=false: scenario must stop.
func (mon *c14Mon) pick() (c14Pending, bool) {
	now := int64(timex.Now())
	atomic.AddInt64(&c14Progress, 1)
	pi, piName := c14PickInfoN(mon.nPick)
	res, err := mon.p.Pick(pi)
	mon.nPick++
	if err != nil {
		mon.violate("C14:pick:error-with-ready-conns", "Pick(PickInfo: %s) returned error %v with %d ready connections", piName, err, mon.n)
		return c14Pending{}, false
	}
	i, ok := mon.idx[res.SubConn]
	if !ok {
		mon.violate("C14:pick:not-a-ready-conn", "Pick returned SubConn %v which is not one of the %d ready connections", res.SubConn, mon.n)
		return c14Pending{}, false
	}
	if res.Done == nil {
		mon.violate("C14:pick:no-done-callback", "Pick returned a nil Done callback (completions could never be tracked)")
		return c14Pending{}, false
	}
	mon.picks[i]++
	mon.checkAll(fmt.Sprintf("pick#%d->backend %d", mon.nPick, i))
	return c14Pending{conn: i, start: now, done: res.Done}, !mon.bad
}

// complete calls the Done callback and checks the score / lag movement.
func (mon *c14Mon) complete(pd c14Pending, k c14ErrKind) bool {
	c := mon.p.conns[pd.conn]
	before := c14Read(c)
	now := int64(timex.Now())
	lat := now - pd.start
	di := c14DoneInfo(k.err, (mon.nAcc+mon.nUnacc)*7+int64(pd.conn))
	atomic.AddInt64(&c14Progress, 1)
	pd.done(di)
	mon.comps[pd.conn]++
	if mon.minLat[pd.conn] < 0 || lat < mon.minLat[pd.conn] {
		mon.minLat[pd.conn] = lat
	}
	if lat > mon.maxLat[pd.conn] {
		mon.maxLat[pd.conn] = lat
	}
	acc := k.acceptable()
	ev := fmt.Sprintf("done(%s,lat=%dns) on backend %d", k.name, lat, pd.conn)
	mon.checkAll(ev)
	if mon.bad {
		return false
	}
	after := c14Read(c)
	if acc {
		mon.nAcc++
		if after.success+1 < before.success {
			mon.violate("C14:success:wrong-direction:acceptable-lowered", "%s: success %d -> %d on an acceptable completion", ev, before.success, after.success)
			return false
		}
		if after.success > before.success {
			mon.nRose++
		}
	} else {
		mon.nUnacc++
		if after.success > before.success {
			mon.violate("C14:success:wrong-direction:unacceptable-raised", "%s: success %d -> %d on an unacceptable completion", ev, before.success, after.success)
			return false
		}
		if after.success < before.success {
			mon.nFell++
		}
	}
	lo, hi := mon.minLat[pd.conn], mon.maxLat[pd.conn]
	if int64(after.lag)+1 < lo || int64(after.lag) > hi+1 || after.lag > 1<<62 {
		mon.violate("C14:lag:outside-observed-latencies", "%s: lag=%d outside observed latencies [%d,%d] of that backend", ev, after.lag, lo, hi)
		return false
	}
	return true
}

func (mon *c14Mon) flush(prefix string) {
	mon.m.Count(prefix+"picks", mon.nPick)
	mon.m.Count(prefix+"done_acceptable", mon.nAcc)
	mon.m.Count(prefix+"done_unacceptable", mon.nUnacc)
	mon.m.Count(prefix+"score_rose", mon.nRose)
	mon.m.Count(prefix+"score_fell", mon.nFell)
	mon.m.Count(prefix+"clock_advances", mon.nAdv)
	mon.m.Count(prefix+"state_checks", mon.nChecks)
}

// ---------------------------------------------------------------------------
// TestVerifC14Trace: random sequential histories, per-event oracle

type c14TraceCfg struct {
	N          int   `json:"n"`
	Events     int   `json:"events"`
	MaxPending int   `json:"max_pending"`
	FailPm     []int `json:"fail_permille"` // per backend probability of a non-nil error
	Profile    int   `json:"time_profile"`  // 0 dense 1 mixed 2 sparse 3 many-simultaneous
	Seed       int64 `json:"seed"`
}

func c14Advance(r *rand.Rand, profile int) time.Duration {
	x := r.Intn(100)
	switch profile {
	case 0: // dense
		switch {
		case x < 10:
			return 0
		case x < 50:
			return time.Duration(1 + r.Intn(1000))
		case x < 85:
			return time.Duration(1+r.Intn(1000)) * time.Microsecond
		case x < 99:
			return time.Duration(1+r.Intn(50)) * time.Millisecond
		default:
			return time.Duration(1+r.Intn(3000)) * time.Millisecond
		}
	case 2: // sparse
		switch {
		case x < 50:
			return time.Duration(100+r.Intn(900)) * time.Millisecond
		case x < 90:
			return time.Duration(1+r.Intn(10)) * time.Second
		case x < 98:
			return time.Duration(10+r.Intn(100)) * time.Second
		default:
			return time.Duration(1+r.Intn(30)) * time.Minute
		}
	case 3: // bursts at one instant
		if x < 85 {
			return 0
		}
		return time.Duration(1+r.Intn(2000)) * time.Millisecond
	default: // mixed
		switch {
		case x < 10:
			return 0
		case x < 30:
			return time.Duration(1+r.Intn(1000)) * time.Microsecond
		case x < 70:
			return time.Duration(1+r.Intn(100)) * time.Millisecond
		case x < 95:
			return time.Duration(100+r.Intn(3000)) * time.Millisecond
		case x < 99:
			return time.Duration(3+r.Intn(60)) * time.Second
		default:
			return time.Duration(1+r.Intn(10)) * time.Minute
		}
	}
}

func c14RunTrace(m *vk.M, idx int, cfg c14TraceCfg) (nontrivial bool, digest string, ok bool) {
	desc := func() string { return fmt.Sprintf("case=%d;%s", idx, vk.JSON(cfg)) }
	timex.VerifFakeClock(c14Start)
	p, cidx, err := c14NewPicker(cfg.N, cfg.Seed)
	if err != nil {
		m.Inconclusive("case %d: %v", idx, err)
		return false, "", false
	}
	mon := c14NewMon(m, p, cidx, desc)
	defer mon.flush("")
	r := rand.New(rand.NewSource(cfg.Seed ^ 0x5eed))
	var pend []c14Pending
	completeOne := func() bool {
		var j int
		switch r.Intn(3) {
		case 0:
			j = 0
		case 1:
			j = len(pend) - 1
		default:
			j = r.Intn(len(pend))
		}
		pd := pend[j]
		pend = append(pend[:j], pend[j+1:]...)
		k := c14OK
		if r.Intn(1000) < cfg.FailPm[pd.conn] {
			k = c14Errs[1+r.Intn(len(c14Errs)-1)]
		}
		return mon.complete(pd, k)
	}
	for e := 0; e < cfg.Events; e++ {
		x := r.Intn(100)
		switch {
		case len(pend) == 0 || (x < 40 && len(pend) < cfg.MaxPending):
			pd, ok := mon.pick()
			if !ok {
				return true, "", true
			}
			pend = append(pend, pd)
		case x < 80 || len(pend) >= cfg.MaxPending:
			if !completeOne() {
				return true, "", true
			}
		default:
			timex.VerifAdvance(c14Advance(r, cfg.Profile))
			mon.nAdv++
		}
	}
	for len(pend) > 0 {
		if r.Intn(3) == 0 {
			timex.VerifAdvance(c14Advance(r, cfg.Profile))
		}
		if !completeOne() {
			return true, "", true
		}
	}
	var fin []c14Snap
	for _, c := range p.conns {
		fin = append(fin, c14Read(c))
	}
	if m.WantSample() && idx%37 == 1 {
		m.Sample(map[string]any{"trace": cfg, "picks_per_backend": mon.picks, "final_state(lag,inflight,success)": fmt.Sprint(fin),
			"acceptable": mon.nAcc, "unacceptable": mon.nUnacc, "score_rose": mon.nRose, "score_fell": mon.nFell})
	}
	return mon.nAcc > 0 && mon.nUnacc > 0 && mon.nFell > 0, vk.Digest(vk.JSON(cfg), fin), true
}

func TestVerifC14Trace(t *testing.T) {
	logx.Disable()
	atomic.StoreInt32(&c14Stalled, 0)
	m := vk.New(t, "C14", "seeded random sequential histories of Pick / Done(err kind) / clock advance over N in {1,2,3,4,5,8,16,50} fake ready SubConns on the virtual clock; after every event: picked in ready set, inflight==picks-completions and 0<=success<=1000 for every backend; after every Done: success moved in the right direction (1 unit truncation slack), lag within [min,max] observed latency of that backend; non-trivial = both acceptable and unacceptable completions and at least one score drop")
	defer m.Done()
	defer timex.VerifRealClock()
	n := vk.N(200, 4000)
	events := 5000
	ns := []int{1, 2, 3, 4, 5, 8, 16, 50}
	master := m.Rand("trace")
	for idx := 1; idx <= n; idx++ {
		cfg := c14TraceCfg{N: ns[master.Intn(len(ns))], Events: events, MaxPending: 1 + master.Intn(40), Profile: master.Intn(4), Seed: master.Int63()}
		if idx%10 == 0 {
			cfg.MaxPending = 1 // strictly alternating pick/done
		}
		mode := master.Intn(4)
		for i := 0; i < cfg.N; i++ {
			pm := 0
			switch mode {
			case 0: // mostly healthy, one bad
				if i == 0 {
					pm = 1000
				} else {
					pm = 20
				}
			case 1:
				pm = []int{0, 100, 500, 1000}[master.Intn(4)]
			case 2:
				pm = 300
			default:
				pm = master.Intn(1001)
			}
			cfg.FailPm = append(cfg.FailPm, pm)
		}
		if !m.Only(idx) {
			continue
		}
		m.Current(fmt.Sprintf("case=%d;%s", idx, vk.JSON(cfg)))
		var nontrivial, ok bool
		var digest string
		if !c14Watched(m, fmt.Sprintf("case=%d;%s", idx, vk.JSON(cfg)), func() { nontrivial, digest, ok = c14RunTrace(m, idx, cfg) }) || !ok {
			return
		}
		m.Case(digest+fmt.Sprint(idx), nontrivial)
		if idx%50 == 0 {
			m.Progress()
		}
	}
}

// ---------------------------------------------------------------------------
// derived clauses: unhealthy after failures, share, starvation, recovery

type c14Sim struct {
	mon      *c14Mon
	lastPick []int64
	maxGap   int64
	window   int64 // 0 = gap oracle off
}

// one performs pick -> advance(latency of the picked backend) -> done -> advance(gap).
func (s *c14Sim) one(lat func(i int) time.Duration, errk func(i int) c14ErrKind, gap time.Duration) (int, bool) {
	mon := s.mon
	pd, ok := mon.pick()
	if !ok {
		return 0, false
	}
	now := pd.start
	s.lastPick[pd.conn] = now
	if s.window > 0 {
		for j, lp := range s.lastPick {
			g := now - lp
			if g > s.maxGap {
				s.maxGap = g
			}
			if g > s.window {
				mon.violate("C14:starvation:not-picked-within-window", "backend %d was not picked for %.3fs of virtual time under sustained traffic (window %.1fs, %d picks total, its success=%d lag=%d)",
					j, float64(g)/1e9, float64(s.window)/1e9, mon.nPick, c14Read(mon.p.conns[j]).success, c14Read(mon.p.conns[j]).lag)
				return 0, false
			}
		}
	}
	timex.VerifAdvance(lat(pd.conn))
	if !mon.complete(pd, errk(pd.conn)) {
		return 0, false
	}
	timex.VerifAdvance(gap)
	return pd.conn, true
}

type c14DerivedCfg struct {
	Kind    string `json:"kind"` // share | starve
	N       int    `json:"n"`
	Variant string `json:"variant"`
	Seed    int64  `json:"seed"`
}

const (
	c14SharePicks   = 20000
	c14ShareFactor  = 0.7
	c14StarveWindow = 3 * time.Second
	c14ShareWindow  = 60 * time.Second
)

// share: backend 0 fails every call. Once its completions span >= 0.8*decayTime
// it must be unhealthy; then over 20000 picks its share must be markedly lower.
func c14RunShare(m *vk.M, idx int, cfg c14DerivedCfg) (ok bool) {
	desc := func() string { return fmt.Sprintf("case=%d;%s", idx, vk.JSON(cfg)) }
	timex.VerifFakeClock(c14Start)
	p, cidx, err := c14NewPicker(cfg.N, cfg.Seed)
	if err != nil {
		m.Inconclusive("case %d: %v", idx, err)
		return false
	}
	mon := c14NewMon(m, p, cidx, desc)
	defer mon.flush("share_")
	sim := &c14Sim{mon: mon, lastPick: make([]int64, cfg.N)}
	for i := range sim.lastPick {
		sim.lastPick[i] = int64(c14Start)
	}
	if cfg.N <= 8 {
		// moderate traffic (100 picks per virtual second): a very wide window
		sim.window = int64(c14ShareWindow)
	}
	defer func() { m.Max("share_max_gap_ms", sim.maxGap/1e6) }()
	latOK := 2 * time.Millisecond
	latBad := latOK
	if cfg.Variant == "fastfail" {
		latBad = 100 * time.Microsecond
	}
	gap := 10*time.Millisecond - latOK
	lat := func(i int) time.Duration {
		if i == 0 {
			return latBad
		}
		return latOK
	}
	r := rand.New(rand.NewSource(cfg.Seed ^ 0xbad))
	failing := false
	errk := func(i int) c14ErrKind {
		if i == 0 && failing {
			if r.Intn(2) == 0 {
				return c14Fail1
			}
			return c14Fail2
		}
		return c14OK
	}
	// warm-up: 2 virtual seconds in which every backend succeeds (scores 1000,
	// recent completion stamps), then backend 0 starts failing every call
	for end := int64(timex.Now()) + int64(2*time.Second); int64(timex.Now()) < end; {
		if _, ok := sim.one(lat, errk, gap); !ok {
			return true
		}
	}
	failing = true
	// phase A: until the failing backend's failed completions span 0.8*decayTime
	span := decayTime * 8 / 10
	var first, last int64 = -1, -1
	compsA := 0
	for steps := 0; ; steps++ {
		if steps > 400000 {
			m.Inconclusive("case %d: failing backend completed only %d calls in %d picks; span not reached", idx, compsA, steps)
			return true // this scenario decides nothing; the others still run
		}
		i, ok := sim.one(lat, errk, gap)
		if !ok {
			return true
		}
		if i == 0 {
			compsA++
			last = int64(timex.Now()) - int64(gap)
			if first < 0 {
				first = last
			}
			if last-first >= span {
				break
			}
		}
	}
	u := p.conns[0]
	su := c14Read(u)
	m.Count("share_unhealthy_checks", 1)
	m.Max("share_max_failures_until_span", int64(compsA))
	m.Max("share_max_success_at_unhealthy_check", int64(su.success))
	if su.success > throttleSuccess || u.healthy() {
		mon.violate("C14:unhealthy:all-fail-backend-still-healthy", "backend 0 failed all %d calls, completions spanning %.2fs of virtual time (>= 0.8*decay), but success=%d healthy()=%v (threshold %d)",
			compsA, float64(last-first)/1e9, su.success, u.healthy(), throttleSuccess)
		return true
	}
	// phase B: shares
	cnt := make([]int, cfg.N)
	for k := 0; k < c14SharePicks; k++ {
		i, ok := sim.one(lat, errk, gap)
		if !ok {
			return true
		}
		cnt[i]++
	}
	minH := cnt[1]
	for _, c := range cnt[1:] {
		if c < minH {
			minH = c
		}
	}
	ratio := 1e6 // a healthy backend with no pick at all: keep the number finite (JSON)
	if minH > 0 {
		ratio = float64(cnt[0]) / float64(minH)
	}
	m.Count("share_scenarios", 1)
	m.Max(fmt.Sprintf("share_ratio_permille_max_n%d_%s", cfg.N, cfg.Variant), int64(ratio*1000))
	if m.WantSample() {
		m.Sample(map[string]any{"scenario": cfg, "failures_until_unhealthy_check": compsA, "success_of_failing_backend": su.success,
			"picks_per_backend_in_20000": cnt, "failing/min-healthy": ratio})
	}
	if su2 := c14Read(u); su2.success > throttleSuccess {
		mon.violate("C14:unhealthy:all-fail-backend-still-healthy", "backend 0 still fails every call but success rose back to %d", su2.success)
		return true
	}
	if cfg.N >= 4 {
		if ratio >= c14ShareFactor {
			mon.violate("C14:share:failing-backend-not-chosen-less", "N=%d %s: failing (unhealthy) backend got %d of %d picks, smallest healthy share %d: ratio %.3f >= %.2f; counts %v",
				cfg.N, cfg.Variant, cnt[0], c14SharePicks, minH, ratio, c14ShareFactor, cnt)
		}
	} else if cnt[0] >= minH {
		mon.violate("C14:share:failing-backend-not-chosen-less", "N=%d %s: failing (unhealthy) backend got %d of %d picks, a healthy one only %d; counts %v",
			cfg.N, cfg.Variant, cnt[0], c14SharePicks, minH, cnt)
	}
	return true
}

// starve: backend 0 is markedly slower (higher load, so it only wins through the
// force-pick) and, in variant "fail-recover", fails for 15 virtual seconds and
// then succeeds for 40. Sustained traffic = 2000 picks per virtual second.
func c14RunStarve(m *vk.M, idx int, cfg c14DerivedCfg) (ok bool) {
	desc := func() string { return fmt.Sprintf("case=%d;%s", idx, vk.JSON(cfg)) }
	timex.VerifFakeClock(c14Start)
	p, cidx, err := c14NewPicker(cfg.N, cfg.Seed)
	if err != nil {
		m.Inconclusive("case %d: %v", idx, err)
		return false
	}
	mon := c14NewMon(m, p, cidx, desc)
	defer mon.flush("starve_")
	sim := &c14Sim{mon: mon, lastPick: make([]int64, cfg.N), window: int64(c14StarveWindow)}
	for i := range sim.lastPick {
		sim.lastPick[i] = int64(c14Start)
	}
	latOK, latSlow, gap := 200*time.Microsecond, 5*time.Millisecond, 300*time.Microsecond
	lat := func(i int) time.Duration {
		if i == 0 {
			return latSlow
		}
		return latOK
	}
	failing := false
	errk := func(i int) c14ErrKind {
		if i == 0 && failing {
			return c14Fail1
		}
		return c14OK
	}
	runFor := func(d time.Duration) (picks0 int64, ok bool) {
		end := int64(timex.Now()) + int64(d)
		before := mon.picks[0]
		for int64(timex.Now()) < end {
			if _, ok := sim.one(lat, errk, gap); !ok {
				return 0, false
			}
		}
		return mon.picks[0] - before, true
	}
	u := p.conns[0]
	if _, ok0 := runFor(2 * time.Second); !ok0 { // warm-up: everybody succeeds
		return true
	}
	failing = cfg.Variant == "fail-recover"
	p1, ok1 := runFor(15 * time.Second)
	if !ok1 {
		return true
	}
	s1 := c14Read(u)
	var p2 int64
	var s2 c14Snap
	if failing {
		m.Count("starve_unhealthy_checks", 1)
		m.Max("starve_max_success_at_unhealthy_check", int64(s1.success))
		if s1.success > throttleSuccess || u.healthy() {
			mon.violate("C14:unhealthy:all-fail-backend-still-healthy", "slow backend 0 failed all %d calls over 15 virtual seconds but success=%d healthy()=%v", p1, s1.success, u.healthy())
			return true
		}
		failing = false // the backend recovers
		var ok2 bool
		p2, ok2 = runFor(40 * time.Second)
		if !ok2 {
			return true
		}
		s2 = c14Read(u)
		m.Count("starve_recovery_checks", 1)
		m.Max("starve_max_deficit_after_recovery(1000-success)", int64(initSuccess)-int64(s2.success))
		if s2.success <= throttleSuccess || !u.healthy() {
			mon.violate("C14:recovery:score-not-regained", "backend 0 succeeded on all %d calls it received during 40 virtual seconds of sustained traffic after failing, but success=%d healthy()=%v (threshold %d)", p2, s2.success, u.healthy(), throttleSuccess)
			return true
		}
	} else {
		var ok2 bool
		p2, ok2 = runFor(15 * time.Second)
		if !ok2 {
			return true
		}
		s2 = c14Read(u)
	}
	if !c14CheckRate(mon, "starve_", time.Duration(int64(timex.Now())-int64(c14Start))) {
		return true
	}
	m.Count("starve_scenarios", 1)
	m.Max("starve_max_gap_ms", sim.maxGap/1e6)
	if m.WantSample() {
		m.Sample(map[string]any{"scenario": cfg, "slow_backend_picks_phase1": p1, "slow_backend_picks_phase2": p2, "success_after_phase1": s1.success,
			"success_after_phase2": s2.success, "max_gap_between_picks_ms": sim.maxGap / 1e6, "total_picks": mon.nPick})
	}
	return true
}

// hirate: bounded progress at high completion rates. With score' = floor(score*w)
// and w < 1 for any positive spacing, every failed completion that comes later
// than the previous completion of the same backend lowers an integer score by
// at least 1, so an all-failing backend is unhealthy after at most 500 such
// completions. The monitor allows c14HiRateBound (2x that). Completions at
// exactly the same instant (w == 1) may legally leave the score unchanged and
// are not counted.
const c14HiRateBound = 1000

func c14RunHiRate(m *vk.M, idx int, cfg c14DerivedCfg) (ok bool) {
	desc := func() string { return fmt.Sprintf("case=%d;%s", idx, vk.JSON(cfg)) }
	timex.VerifFakeClock(c14Start)
	p, cidx, err := c14NewPicker(cfg.N, cfg.Seed)
	if err != nil {
		m.Inconclusive("case %d: %v", idx, err)
		return false
	}
	mon := c14NewMon(m, p, cidx, desc)
	defer mon.flush("hirate_")
	sp := map[string]time.Duration{"100us": 100 * time.Microsecond, "1ms": time.Millisecond, "5ms": 5 * time.Millisecond, "burst4x1ms": time.Millisecond}[cfg.Variant]
	burst := cfg.Variant == "burst4x1ms"
	failing := false
	u := p.conns[0]
	var prevComp0 int64 = -1
	posFails, zeroFails, calls := 0, 0, 0
	// one sequential call; in burst mode only every 4th call moves the clock
	one := func() bool {
		calls++
		lat, gap := sp/2, sp-sp/2
		if burst && calls%4 != 0 {
			lat, gap = 0, 0
		}
		pd, ok := mon.pick()
		if !ok {
			return false
		}
		timex.VerifAdvance(lat)
		k := c14OK
		if pd.conn == 0 && failing {
			k = c14Fail1
			if calls%3 == 0 {
				k = c14Fail2
			}
		}
		now := int64(timex.Now())
		if !mon.complete(pd, k) {
			return false
		}
		if pd.conn == 0 {
			if failing {
				if prevComp0 >= 0 && now > prevComp0 {
					posFails++
				} else {
					zeroFails++
				}
			}
			prevComp0 = now
		}
		timex.VerifAdvance(gap)
		return true
	}
	for i := 0; i < 60*cfg.N; i++ { // warm-up: everybody succeeds, lag estimates are non-zero
		if !one() {
			return true
		}
	}
	failing = true
	start := c14Read(u).success
	for steps := 0; ; steps++ {
		s := c14Read(u).success
		if s <= throttleSuccess && !u.healthy() {
			break
		}
		if posFails >= c14HiRateBound {
			mon.violate("C14:unhealthy:high-rate-failures-score-not-falling", "N=%d spacing %s: backend 0 failed every call since its score was %d: %d failed completions each later than its previous completion (plus %d at the same instant), yet success=%d healthy()=%v (threshold %d; truncating EWMA loses >= 1 per such completion)",
				cfg.N, cfg.Variant, start, posFails, zeroFails, s, u.healthy(), throttleSuccess)
			return true
		}
		if steps > 3000000 {
			m.Inconclusive("case %d: backend 0 received only %d failing calls in %d picks", idx, posFails+zeroFails, steps)
			return true
		}
		if !one() {
			return true
		}
	}
	m.Count("hirate_scenarios", 1)
	m.Max("hirate_max_spaced_failures_until_unhealthy", int64(posFails))
	if m.WantSample() && cfg.N == 3 {
		m.Sample(map[string]any{"scenario": cfg, "score_before_failures": start, "spaced_failures_until_unhealthy": posFails, "same_instant_failures": zeroFails, "score_now": c14Read(u).success})
	}
	return true
}

// c14CheckRate: "every connection is still picked at least about once per
// second" as a rate: over d of sustained traffic every connection must have been
// picked at least d/1.5s - 1 times (mean interval <= 1.5 s; the force-pick of
// correct P2C gives ~1.0-1.1 s at >= 2000 picks per virtual second, N <= 8).
const c14RateInterval = 1500 * time.Millisecond

func c14CheckRate(mon *c14Mon, prefix string, d time.Duration) bool {
	need := int64(d/c14RateInterval) - 1
	for j, n := range mon.picks {
		// gauge: mean interval between picks of the least-picked connection, in ms
		if n > 0 {
			mon.m.Max(prefix+"max_mean_pick_interval_ms", int64(d/time.Millisecond)/n)
		}
		if n < need {
			s := c14Read(mon.p.conns[j])
			mon.violate("C14:starvation:picked-less-than-about-once-per-second", "backend %d was picked %d times during %.1f virtual seconds of sustained traffic (%d picks in total): mean interval %.2fs, 'about once per second' needs at least %d picks (mean interval <= %.1fs); its lag=%d success=%d inflight=%d",
				j, n, d.Seconds(), mon.nPick, d.Seconds()/float64(n+1), need, c14RateInterval.Seconds(), s.lag, s.success, s.inflight)
			return false
		}
	}
	return true
}

// overlap: backend 0 is the high-load backend and its calls overlap: after a
// warm-up they take 4 s / 10 s of virtual time, or never complete while the
// traffic lasts ("hung"), so it has calls in flight whenever it is a candidate.
// Sustained traffic continues on the others (2000 picks per virtual second):
// every backend must still be picked within every 3 virtual seconds.
func c14RunOverlap(m *vk.M, idx int, cfg c14DerivedCfg) (ok bool) {
	desc := func() string { return fmt.Sprintf("case=%d;%s", idx, vk.JSON(cfg)) }
	timex.VerifFakeClock(c14Start)
	p, cidx, err := c14NewPicker(cfg.N, cfg.Seed)
	if err != nil {
		m.Inconclusive("case %d: %v", idx, err)
		return false
	}
	mon := c14NewMon(m, p, cidx, desc)
	defer mon.flush("overlap_")
	var slowLat time.Duration = -1 // hung
	switch cfg.Variant {
	case "4s":
		slowLat = 4 * time.Second
	case "10s":
		slowLat = 10 * time.Second
	}
	lastPick := make([]int64, cfg.N)
	for i := range lastPick {
		lastPick[i] = int64(c14Start)
	}
	var maxGap int64
	var out []c14Pending // outstanding calls on backend 0, oldest first
	maxOut := 0
	warmEnd := int64(c14Start) + int64(2*time.Second)
	end := warmEnd + int64(16*time.Second)
	for int64(timex.Now()) < end {
		now := int64(timex.Now())
		for len(out) > 0 && slowLat >= 0 && now-out[0].start >= int64(slowLat) {
			pd := out[0]
			out = out[1:]
			if !mon.complete(pd, c14OK) {
				return true
			}
		}
		pd, ok := mon.pick()
		if !ok {
			return true
		}
		lastPick[pd.conn] = now
		for j, lp := range lastPick {
			g := now - lp
			if g > maxGap {
				maxGap = g
			}
			if g > int64(c14StarveWindow) {
				s := c14Read(p.conns[j])
				mon.violate("C14:starvation:not-picked-within-window:calls-in-flight", "backend %d was not picked for %.3fs of virtual time under sustained traffic (window %.1fs, %d picks total); it has %d call(s) in flight (latency %s), lag=%d success=%d",
					j, float64(g)/1e9, float64(c14StarveWindow)/1e9, mon.nPick, s.inflight, cfg.Variant, s.lag, s.success)
				return true
			}
		}
		switch {
		case pd.conn != 0:
			timex.VerifAdvance(200 * time.Microsecond)
			if !mon.complete(pd, c14OK) {
				return true
			}
		case now < warmEnd: // warm-up: backend 0 is merely slow (5 ms)
			timex.VerifAdvance(5 * time.Millisecond)
			if !mon.complete(pd, c14OK) {
				return true
			}
		default:
			out = append(out, pd)
			if len(out) > maxOut {
				maxOut = len(out)
			}
		}
		timex.VerifAdvance(300 * time.Microsecond)
	}
	for _, pd := range out {
		if !mon.complete(pd, c14OK) {
			return true
		}
	}
	if !c14CheckRate(mon, "overlap_", time.Duration(end-int64(c14Start))) {
		return true
	}
	m.Count("overlap_scenarios", 1)
	m.Max("overlap_max_gap_ms", maxGap/1e6)
	m.Max("overlap_max_outstanding_on_slow_backend", int64(maxOut))
	if m.WantSample() && cfg.N == 3 {
		m.Sample(map[string]any{"scenario": cfg, "picks_per_backend": mon.picks, "max_outstanding_on_backend_0": maxOut, "max_gap_ms": maxGap / 1e6})
	}
	return true
}

// idle: a client that goes idle with calls outstanding: the last pick is followed
// by more than logInterval of silence, then the outstanding calls complete (the
// completion that finds the statistics line overdue takes the picker lock), then
// traffic resumes. Every Pick must still return.
func c14RunIdle(m *vk.M, idx int, cfg c14DerivedCfg) (ok bool) {
	desc := func() string { return fmt.Sprintf("case=%d;%s", idx, vk.JSON(cfg)) }
	timex.VerifFakeClock(c14Start)
	p, cidx, err := c14NewPicker(cfg.N, cfg.Seed)
	if err != nil {
		m.Inconclusive("case %d: %v", idx, err)
		return false
	}
	mon := c14NewMon(m, p, cidx, desc)
	defer mon.flush("idle_")
	r := rand.New(rand.NewSource(cfg.Seed ^ 0x1d1e))
	outstanding := map[string]int{"one-call": 1, "two-calls": 2, "many-calls": 5 + r.Intn(20)}[cfg.Variant]
	for cycle := 0; cycle < 6; cycle++ {
		var pend []c14Pending
		// some ordinary traffic, then calls that stay outstanding
		for k := 0; k < 20+outstanding; k++ {
			pd, ok := mon.pick()
			if !ok {
				return true
			}
			timex.VerifAdvance(time.Duration(1+r.Intn(3000)) * time.Microsecond)
			if k < 20 {
				if !mon.complete(pd, c14OK) {
					return true
				}
			} else {
				pend = append(pend, pd)
			}
		}
		// one completion right away (it may write the statistics line), the others
		// only after the idle period
		if len(pend) > 1 {
			if !mon.complete(pend[0], c14OK) {
				return true
			}
			pend = pend[1:]
		}
		idle := int64(logInterval) + int64(time.Second)*int64(1+r.Intn(3600))
		if cycle%2 == 1 {
			idle = int64(logInterval) + 1 // just over the interval
		}
		timex.VerifAdvance(time.Duration(idle))
		mon.nAdv++
		for _, pd := range pend {
			k := c14OK
			if r.Intn(3) == 0 {
				k = c14Fail2
			}
			if !mon.complete(pd, k) {
				return true
			}
			timex.VerifAdvance(time.Duration(r.Intn(5)) * time.Millisecond)
		}
		m.Count("idle_periods", 1)
	}
	for k := 0; k < 50; k++ { // traffic resumes
		pd, ok := mon.pick()
		if !ok {
			return true
		}
		if !mon.complete(pd, c14OK) {
			return true
		}
	}
	m.Count("idle_scenarios", 1)
	return true
}

func TestVerifC14Derived(t *testing.T) {
	logx.Disable()
	atomic.StoreInt32(&c14Stalled, 0)
	m := vk.New(t, "C14", fmt.Sprintf("sequential sustained traffic on the virtual clock. share: after a 2 s all-success warm-up backend 0 fails every call (Unavailable/DeadlineExceeded), others succeed; once its completions span 0.8*decayTime it must have success<=%d; then over %d picks (10ms apart, N>=4: equal latency or fast-failing) its count < %.1f x the smallest healthy count (N=3: fewer than each healthy one); for N<=8 no backend goes unpicked for %v. hirate: N in {1,2,3,5}, one call per 100us/1ms/5ms (or bursts of 4 calls per instant every 1ms), backend 0 fails every call after a warm-up: unhealthy after at most 1000 failed completions that are each later than its previous completion. idle: N in {1,2,3,5}, calls outstanding across an idle period > logInterval, then their completions, then picks again: every Pick/Done returns (a 30 s stall with goroutines parked on the picker mutex and nobody holding it is the violation). overlap: N in {2,3,5,8}, backend 0's calls take 4 s / 10 s / never complete, so they overlap while traffic continues at 2000 picks/s: still every backend picked within 3 virtual s. starve/overlap also: every backend picked at least duration/1.5s - 1 times (rate form of 'about once per second'). starve: backend 0 25x slower, 2000 picks/virtual s, N in 2..8: every backend picked at least once in every %v of virtual time; after a 2 s all-success warm-up; fail-recover variant: unhealthy after 15 s of failures, success>%d again after 40 s of successes", throttleSuccess, c14SharePicks, c14ShareFactor, c14ShareWindow, c14StarveWindow, throttleSuccess))
	defer m.Done()
	defer timex.VerifRealClock()
	reps := vk.N(3, 40)
	master := m.Rand("derived")
	idx := 0
	var cfgs []c14DerivedCfg
	for rep := 0; rep < reps; rep++ {
		for _, n := range []int{3, 4, 5, 6, 8, 12} {
			cfgs = append(cfgs, c14DerivedCfg{Kind: "share", N: n, Variant: "equal"})
			if n >= 4 {
				cfgs = append(cfgs, c14DerivedCfg{Kind: "share", N: n, Variant: "fastfail"})
			}
		}
		for _, n := range []int{1, 2, 3, 5} {
			for _, v := range []string{"100us", "1ms", "5ms", "burst4x1ms"} {
				cfgs = append(cfgs, c14DerivedCfg{Kind: "hirate", N: n, Variant: v})
			}
		}
		for _, n := range []int{1, 2, 3, 5} {
			for _, v := range []string{"one-call", "two-calls", "many-calls"} {
				cfgs = append(cfgs, c14DerivedCfg{Kind: "idle", N: n, Variant: v})
			}
		}
		for _, n := range []int{2, 3, 5, 8} {
			for _, v := range []string{"4s", "10s", "hung"} {
				cfgs = append(cfgs, c14DerivedCfg{Kind: "overlap", N: n, Variant: v})
			}
		}
		for _, n := range []int{2, 3, 4, 5, 8} {
			cfgs = append(cfgs, c14DerivedCfg{Kind: "starve", N: n, Variant: "fail-recover"})
			cfgs = append(cfgs, c14DerivedCfg{Kind: "starve", N: n, Variant: "slow-only"})
		}
	}
	for _, cfg := range cfgs {
		idx++
		cfg.Seed = master.Int63()
		if !m.Only(idx) {
			continue
		}
		m.Current(fmt.Sprintf("case=%d;%s", idx, vk.JSON(cfg)))
		var ok bool
		cfg := cfg
		if !c14Watched(m, fmt.Sprintf("case=%d;%s", idx, vk.JSON(cfg)), func() {
			switch cfg.Kind {
			case "share":
				ok = c14RunShare(m, idx, cfg)
			case "hirate":
				ok = c14RunHiRate(m, idx, cfg)
			case "overlap":
				ok = c14RunOverlap(m, idx, cfg)
			case "idle":
				ok = c14RunIdle(m, idx, cfg)
			default:
				ok = c14RunStarve(m, idx, cfg)
			}
		}) {
			return
		}
		if !ok {
			return
		}
		m.Case(vk.Digest(vk.JSON(cfg)), true)
		m.Progress()
	}
}

// ---------------------------------------------------------------------------
// TestVerifC14Registered: through the balancer registered as "p2c_ewma"

type c14CC struct {
	balancer.ClientConn // nil; only the methods below are used by base.baseBalancer
	mu                  sync.Mutex
	subs                []*c14Conn
	state               balancer.State
	updates             int
}

func (cc *c14CC) NewSubConn(a []resolver.Address, _ balancer.NewSubConnOptions) (balancer.SubConn, error) {
	cc.mu.Lock()
	defer cc.mu.Unlock()
	sc := &c14Conn{id: len(cc.subs)}
	cc.subs = append(cc.subs, sc)
	return sc, nil
}
func (cc *c14CC) RemoveSubConn(balancer.SubConn)                       {}
func (cc *c14CC) UpdateAddresses(balancer.SubConn, []resolver.Address) {}
func (cc *c14CC) ResolveNow(resolver.ResolveNowOptions)                {}
func (cc *c14CC) Target() string                                       { return "verif:///c14" }
func (cc *c14CC) UpdateState(s balancer.State) {
	cc.mu.Lock()
	cc.state = s
	cc.updates++
	cc.mu.Unlock()
}

func TestVerifC14Registered(t *testing.T) {
	logx.Disable()
	atomic.StoreInt32(&c14Stalled, 0)
	m := vk.New(t, "C14", "balancer.Get(\"p2c_ewma\") built over a fake ClientConn; a random subset of the SubConns is driven to Ready (others stay Connecting / go to TransientFailure and back); after every state change 300 picks through the picker published by the balancer: each returns a currently Ready SubConn (or an error when none is ready)")
	defer m.Done()
	defer timex.VerifRealClock()
	bb := balancer.Get(Name)
	if bb == nil {
		m.Violate("C14:registered:builder-missing", "case=0;", "balancer.Get(%q) returned nil: the p2c balancer is not registered", Name)
		return
	}
	n := vk.N(60, 1500)
	master := m.Rand("registered")
	for idx := 1; idx <= n; idx++ {
		seed := master.Int63()
		if !m.Only(idx) {
			continue
		}
		r := rand.New(rand.NewSource(seed))
		nAddr := 1 + r.Intn(8)
		desc := fmt.Sprintf("case=%d;{\"addrs\":%d,\"seed\":%d}", idx, nAddr, seed)
		m.Current(desc)
		timex.VerifFakeClock(c14Start)
		cc := &c14CC{}
		b := bb.Build(cc, balancer.BuildOptions{})
		var addrs []resolver.Address
		for i := 0; i < nAddr; i++ {
			addrs = append(addrs, resolver.Address{Addr: fmt.Sprintf("10.0.0.%d:80", i)})
		}
		_ = b.UpdateClientConnState(balancer.ClientConnState{ResolverState: resolver.State{Addresses: addrs}})
		if len(cc.subs) != nAddr {
			m.Inconclusive("case %d: base balancer created %d SubConns for %d addresses", idx, len(cc.subs), nAddr)
			return
		}
		cur := make([]connectivity.State, nAddr)
		for i := range cur {
			cur[i] = connectivity.Idle
		}
		steps := 6 + r.Intn(10)
		sawReady, sawNone := false, false
		bad := false
		for s := 0; s < steps && !bad; s++ {
			i := r.Intn(nAddr)
			var next connectivity.State
			switch cur[i] {
			case connectivity.Idle:
				next = connectivity.Connecting
			case connectivity.Connecting:
				next = []connectivity.State{connectivity.Ready, connectivity.Ready, connectivity.TransientFailure}[r.Intn(3)]
			case connectivity.Ready:
				next = connectivity.Idle
			default:
				next = connectivity.Idle
			}
			cur[i] = next
			b.UpdateSubConnState(cc.subs[i], balancer.SubConnState{ConnectivityState: next})
			m.Count("registered_state_changes", 1)
			cc.mu.Lock()
			pk := cc.state.Picker
			cc.mu.Unlock()
			if pk == nil {
				continue
			}
			ready := map[balancer.SubConn]int{}
			for j, st := range cur {
				if st == connectivity.Ready {
					ready[cc.subs[j]] = j
				}
			}
			if p, ok := c14Adopt(pk, seed+int64(s)); ok && len(p.conns) != len(ready) {
				m.Violate("C14:registered:picker-conns-differ-from-ready-set", desc, "step %d: picker holds %d conns, %d SubConns are Ready", s, len(p.conns), len(ready))
				bad = true
				break
			}
			hit := map[int]int{}
			for k := 0; k < 300; k++ {
				pi, _ := c14PickInfoN(int64(k))
				res, err := pk.Pick(pi)
				m.Count("registered_picks", 1)
				if len(ready) == 0 {
					sawNone = true
					if err == nil {
						m.Violate("C14:pick:conn-returned-with-no-ready-conns", desc, "step %d: no SubConn is Ready but Pick returned %v without error", s, res.SubConn)
						bad = true
						break
					}
					m.Count("registered_picks_rejected_none_ready", 1)
					continue
				}
				sawReady = true
				if err != nil {
					m.Violate("C14:pick:error-with-ready-conns", desc, "step %d: %d SubConns Ready but Pick returned error %v", s, len(ready), err)
					bad = true
					break
				}
				j, ok := ready[res.SubConn]
				if !ok {
					m.Violate("C14:pick:not-a-ready-conn", desc, "step %d: Pick returned SubConn %v which is not Ready (states %v)", s, res.SubConn, cur)
					bad = true
					break
				}
				hit[j]++
				timex.VerifAdvance(time.Duration(r.Intn(3000)) * time.Microsecond)
				if res.Done != nil {
					k := c14OK
					if r.Intn(5) == 0 {
						k = c14Errs[1+r.Intn(len(c14Errs)-1)]
					}
					res.Done(c14DoneInfo(k.err, int64(hit[j])))
				}
				timex.VerifAdvance(time.Duration(r.Intn(20)) * time.Millisecond)
			}
			if m.WantSample() && len(ready) >= 2 && len(ready) < nAddr {
				m.Sample(map[string]any{"scenario": desc, "states": fmt.Sprint(cur), "picks_per_ready_subconn": hit})
			}
		}
		b.Close()
		m.Case(vk.Digest(desc, fmt.Sprint(cur)), sawReady && (sawNone || nAddr > 1))
	}
}

// ---------------------------------------------------------------------------
// TestVerifC14Race: concurrent callers under the race detector

func TestVerifC14Race(t *testing.T) {
	logx.Disable()
	atomic.StoreInt32(&c14Stalled, 0)
	m := vk.New(t, "C14", "16 goroutines pick and complete concurrently (own pending lists, random error kinds, shared virtual clock advanced atomically, occasional >1 min jumps to run logStats concurrently); race detector on; during the run: picked in ready set, inflight>=1 while the caller's own call is outstanding, 0<=success<=1000 after each own Done; at quiescence: inflight==picks-completions==0 and lag within the latency bounds bracketed by the callers' clock stamps")
	defer m.Done()
	defer timex.VerifRealClock()
	rounds := vk.N(8, 60)
	iters := vk.N(2500, 12000)
	const workers = 16
	master := m.Rand("race")
	ns := []int{1, 2, 3, 5, 8, 16}
	for idx := 1; idx <= rounds; idx++ {
		n := ns[(idx-1)%len(ns)]
		seed := master.Int63()
		if !m.Only(idx) {
			continue
		}
		desc := fmt.Sprintf("case=%d;{\"n\":%d,\"workers\":%d,\"iters\":%d,\"seed\":%d}", idx, n, workers, iters, seed)
		m.Current(desc)
		timex.VerifFakeClock(c14Start)
		p, cidx, err := c14NewPicker(n, seed)
		if err != nil {
			m.Inconclusive("case %d: %v", idx, err)
			return
		}
		picks := make([]int64, n)
		comps := make([]int64, n)
		type bounds struct{ lo, hi []int64 }
		wb := make([]bounds, workers)
		var stop int32
		var wg sync.WaitGroup
		for w := 0; w < workers; w++ {
			wb[w] = bounds{lo: make([]int64, n), hi: make([]int64, n)}
			for i := range wb[w].lo {
				wb[w].lo[i] = -1
			}
			wg.Add(1)
			go func(w int) {
				defer wg.Done()
				r := rand.New(rand.NewSource(seed + int64(w)*7919))
				type pend struct {
					conn   int
					t0, t1 int64
					done   func(balancer.DoneInfo)
				}
				var ps []pend
				finish := func(pd pend) bool {
					k := c14OK
					if r.Intn(4) == 0 {
						k = c14Errs[1+r.Intn(len(c14Errs)-1)]
					}
					c := p.conns[pd.conn]
					if inf := atomic.LoadInt64(&c.inflight); inf < 1 {
						m.Violate("C14:inflight:below-outstanding-calls", desc, "backend %d inflight=%d while a picked call of worker %d is still outstanding", pd.conn, inf, w)
						return false
					}
					t2 := int64(timex.Now())
					pd.done(c14DoneInfo(k.err, t2))
					t3 := int64(timex.Now())
					atomic.AddInt64(&comps[pd.conn], 1)
					if s := atomic.LoadUint64(&c.success); s > initSuccess {
						m.Violate("C14:success:out-of-range", desc, "concurrent run: backend %d success=%d after Done(%s)", pd.conn, s, k.name)
						return false
					}
					lo, hi := t2-pd.t1, t3-pd.t0
					if lo < 0 {
						lo = 0
					}
					b := wb[w]
					if b.lo[pd.conn] < 0 || lo < b.lo[pd.conn] {
						b.lo[pd.conn] = lo
					}
					if hi > b.hi[pd.conn] {
						b.hi[pd.conn] = hi
					}
					return true
				}
				for it := 0; it < iters && atomic.LoadInt32(&stop) == 0; it++ {
					t0 := int64(timex.Now())
					pi, _ := c14PickInfoN(int64(it + w))
					res, err := p.Pick(pi)
					t1 := int64(timex.Now())
					if err != nil {
						m.Violate("C14:pick:error-with-ready-conns", desc, "concurrent Pick returned %v", err)
						atomic.StoreInt32(&stop, 1)
						break
					}
					i, ok := cidx[res.SubConn]
					if !ok || res.Done == nil {
						m.Violate("C14:pick:not-a-ready-conn", desc, "concurrent Pick returned SubConn %v (done nil=%v)", res.SubConn, res.Done == nil)
						atomic.StoreInt32(&stop, 1)
						break
					}
					atomic.AddInt64(&picks[i], 1)
					ps = append(ps, pend{conn: i, t0: t0, t1: t1, done: res.Done})
					switch x := r.Intn(1000); {
					case x < 600:
						timex.VerifAdvance(time.Duration(r.Intn(2000)) * time.Microsecond)
					case x < 620:
						timex.VerifAdvance(time.Duration(r.Intn(2500)) * time.Millisecond)
					case x == 999:
						timex.VerifAdvance(61 * time.Second)
					}
					for len(ps) > 0 && (len(ps) > 6 || r.Intn(2) == 0) {
						j := r.Intn(len(ps))
						pd := ps[j]
						ps = append(ps[:j], ps[j+1:]...)
						if !finish(pd) {
							atomic.StoreInt32(&stop, 1)
							break
						}
					}
				}
				for _, pd := range ps {
					if !finish(pd) {
						atomic.StoreInt32(&stop, 1)
					}
				}
			}(w)
		}
		if !vk.Within(c14RaceWatchdog, wg.Wait) {
			c14ClassifyStall(m, desc, fmt.Sprintf("case %d: %d concurrent callers (watchdog %v)", idx, workers, c14RaceWatchdog))
			return
		}
		var totalPicks, totalComps int64
		for i, c := range p.conns {
			s := c14Read(c)
			pk, cp := atomic.LoadInt64(&picks[i]), atomic.LoadInt64(&comps[i])
			totalPicks += pk
			totalComps += cp
			if atomic.LoadInt32(&stop) != 0 {
				continue
			}
			if s.inflight != pk-cp || s.inflight != 0 {
				m.Violate("C14:inflight:not-picks-minus-completions", desc, "at quiescence backend %d inflight=%d, picks=%d completions=%d", i, s.inflight, pk, cp)
			}
			if s.success > initSuccess {
				m.Violate("C14:success:out-of-range", desc, "at quiescence backend %d success=%d", i, s.success)
			}
			lo, hi := int64(-1), int64(0)
			for w := range wb {
				if wb[w].lo[i] >= 0 && (lo < 0 || wb[w].lo[i] < lo) {
					lo = wb[w].lo[i]
				}
				if wb[w].hi[i] > hi {
					hi = wb[w].hi[i]
				}
			}
			if cp > 0 && (int64(s.lag)+1 < lo || int64(s.lag) > hi+1 || s.lag > 1<<62) {
				m.Violate("C14:lag:outside-observed-latencies", desc, "at quiescence backend %d lag=%d outside the bracket [%d,%d] of observed latencies", i, s.lag, lo, hi)
			}
		}
		m.Count("race_picks", totalPicks)
		m.Count("race_completions", totalComps)
		m.Count("race_rounds", 1)
		if m.WantSample() {
			m.Sample(map[string]any{"scenario": desc, "picks_per_backend": picks, "completions_per_backend": comps})
		}
		m.Case(vk.Digest(desc), totalPicks > 0 && totalComps == totalPicks)
		m.Progress()
	}
}

// ---------------------------------------------------------------------------
// TestVerifC14RaceMultiPicker: gRPC calls Build on every resolver / connection
// state change and the previous picker keeps serving in-flight picks, and every
// client has its own picker: several pickers built by the SAME builder are used
// concurrently. The pickers are used exactly as built (no reseeding, no sorting).

func TestVerifC14RaceMultiPicker(t *testing.T) {
	logx.Disable()
	atomic.StoreInt32(&c14Stalled, 0)
	m := vk.New(t, "C14", "several pickers (2..6) built by one p2cPickerBuilder over 3..8 fake ready SubConns each, used as built (PRNG untouched) by 16 concurrent callers under the race detector; every Pick is recovered: no panic, picked SubConn belongs to the ready set of THAT picker, Done callable; at quiescence inflight==0 everywhere")
	defer m.Done()
	defer timex.VerifRealClock()
	rounds := vk.N(6, 40)
	iters := vk.N(4000, 20000)
	const workers = 16
	master := m.Rand("multipicker")
	for idx := 1; idx <= rounds; idx++ {
		np := 2 + master.Intn(5)
		nc := 3 + master.Intn(6)
		seed := master.Int63()
		if !m.Only(idx) {
			continue
		}
		desc := fmt.Sprintf("case=%d;{\"pickers\":%d,\"conns\":%d,\"workers\":%d,\"iters\":%d,\"seed\":%d}", idx, np, nc, workers, iters, seed)
		m.Current(desc)
		timex.VerifFakeClock(c14Start)
		builder := new(p2cPickerBuilder)
		type pk struct {
			p     balancer.Picker
			ready map[balancer.SubConn]bool
		}
		var pks []pk
		for j := 0; j < np; j++ {
			ready := make(map[balancer.SubConn]base.SubConnInfo, nc)
			set := make(map[balancer.SubConn]bool, nc)
			for i := 0; i < nc; i++ {
				sc := &c14Conn{id: j*100 + i}
				ready[sc] = base.SubConnInfo{Address: resolver.Address{Addr: fmt.Sprintf("p%d-b%03d", j, i)}}
				set[sc] = true
			}
			pks = append(pks, pk{p: builder.Build(base.PickerBuildInfo{ReadySCs: ready}), ready: set})
		}
		var stop int32
		var nPicks, nPanics int64
		var wg sync.WaitGroup
		for w := 0; w < workers; w++ {
			wg.Add(1)
			go func(w int) {
				defer wg.Done()
				r := rand.New(rand.NewSource(seed + int64(w)*104729))
				for it := 0; it < iters && atomic.LoadInt32(&stop) == 0; it++ {
					k := pks[r.Intn(len(pks))]
					var res balancer.PickResult
					var err error
					pi, _ := c14PickInfoN(int64(it + w))
					val, panicked := vk.Recover(func() { res, err = k.p.Pick(pi) })
					atomic.AddInt64(&nPicks, 1)
					if panicked {
						atomic.AddInt64(&nPanics, 1)
						m.Violate("C14:pick:panic", desc, "Pick panicked with %d pickers of one builder in concurrent use: %v", np, val)
						atomic.StoreInt32(&stop, 1)
						return
					}
					if err != nil || !k.ready[res.SubConn] || res.Done == nil {
						m.Violate("C14:pick:not-a-ready-conn", desc, "concurrent multi-picker Pick returned SubConn %v err %v (done nil=%v): not a ready connection of that picker", res.SubConn, err, res.Done == nil)
						atomic.StoreInt32(&stop, 1)
						return
					}
					if r.Intn(4) == 0 {
						timex.VerifAdvance(time.Duration(r.Intn(3000)) * time.Microsecond)
					}
					var derr error
					if r.Intn(5) == 0 {
						derr = c14Fail1.err
					}
					res.Done(c14DoneInfo(derr, int64(it)))
				}
			}(w)
		}
		if !vk.Within(c14RaceWatchdog, wg.Wait) {
			c14ClassifyStall(m, desc, fmt.Sprintf("case %d: %d concurrent callers (watchdog %v)", idx, workers, c14RaceWatchdog))
			return
		}
		if atomic.LoadInt32(&stop) == 0 {
			for j, k := range pks {
				if p, ok := k.p.(*p2cPicker); ok {
					for _, c := range p.conns {
						s := c14Read(c)
						if s.inflight != 0 {
							m.Violate("C14:inflight:not-picks-minus-completions", desc, "at quiescence picker %d backend %s inflight=%d", j, c.addr.Addr, s.inflight)
						}
						if s.success > initSuccess {
							m.Violate("C14:success:out-of-range", desc, "at quiescence picker %d backend %s success=%d", j, c.addr.Addr, s.success)
						}
					}
				}
			}
		}
		m.Count("multipicker_picks", atomic.LoadInt64(&nPicks))
		m.Count("multipicker_rounds", 1)
		if m.WantSample() {
			m.Sample(map[string]any{"scenario": desc, "picks": atomic.LoadInt64(&nPicks), "panics": atomic.LoadInt64(&nPanics)})
		}
		m.Case(vk.Digest(desc), atomic.LoadInt64(&nPicks) > 0)
		m.Progress()
	}
}

// ---------------------------------------------------------------------------
// TestVerifC14RaceBigSteps: completions of one connection racing while the
// virtual clock moves in large steps (1 ms .. 30 s) between every pick and its
// done: the time delta seen by a completion depends on the order in which the
// racing completions read the clock and publish their stamp.

func TestVerifC14RaceBigSteps(t *testing.T) {
	logx.Disable()
	atomic.StoreInt32(&c14Stalled, 0)
	m := vk.New(t, "C14", "16 concurrent callers on 1..3 connections, each call: Pick, advance the shared virtual clock by a random 1 ms..30 s, Done (random error kind); race detector on; after every own Done: 0<=success<=1000 and lag <= the largest latency bracket seen so far by anybody (+ the caller's own bracket); at quiescence inflight==0, success in range, lag within the bracket of observed latencies")
	defer m.Done()
	defer timex.VerifRealClock()
	rounds := vk.N(6, 40)
	iters := vk.N(8000, 60000)
	const workers = 16
	master := m.Rand("bigsteps")
	for idx := 1; idx <= rounds; idx++ {
		n := 1 + (idx-1)%3
		seed := master.Int63()
		if !m.Only(idx) {
			continue
		}
		desc := fmt.Sprintf("case=%d;{\"n\":%d,\"workers\":%d,\"iters\":%d,\"seed\":%d}", idx, n, workers, iters, seed)
		m.Current(desc)
		timex.VerifFakeClock(c14Start)
		p, cidx, err := c14NewPicker(n, seed)
		if err != nil {
			m.Inconclusive("case %d: %v", idx, err)
			return
		}
		var stop int32
		var nDone int64
		los := make([][]int64, workers)
		his := make([][]int64, workers)
		var wg sync.WaitGroup
		for w := 0; w < workers; w++ {
			los[w], his[w] = make([]int64, n), make([]int64, n)
			for i := range los[w] {
				los[w][i] = -1
			}
			wg.Add(1)
			go func(w int) {
				defer wg.Done()
				r := rand.New(rand.NewSource(seed + int64(w)*7919))
				for it := 0; it < iters && atomic.LoadInt32(&stop) == 0; it++ {
					t0 := int64(timex.Now())
					pi, _ := c14PickInfoN(int64(it + w))
					res, err := p.Pick(pi)
					t1 := int64(timex.Now())
					i, ok := cidx[res.SubConn]
					if err != nil || !ok || res.Done == nil {
						m.Violate("C14:pick:not-a-ready-conn", desc, "concurrent Pick returned SubConn %v err %v", res.SubConn, err)
						atomic.StoreInt32(&stop, 1)
						return
					}
					var step time.Duration
					switch x := r.Intn(10); {
					case x < 3:
						step = time.Duration(1+r.Intn(1000)) * time.Millisecond
					case x < 6:
						step = time.Duration(1+r.Intn(10)) * time.Second
					default:
						step = time.Duration(10+r.Intn(21)) * time.Second
					}
					timex.VerifAdvance(step)
					k := c14OK
					if r.Intn(2) == 0 {
						k = c14Errs[1+r.Intn(len(c14Errs)-1)]
					}
					c := p.conns[i]
					t2 := int64(timex.Now())
					res.Done(c14DoneInfo(k.err, t2))
					t3 := int64(timex.Now())
					atomic.AddInt64(&nDone, 1)
					s := c14Read(c)
					lo, hi := t2-t1, t3-t0
					if los[w][i] < 0 || lo < los[w][i] {
						los[w][i] = lo
					}
					if hi > his[w][i] {
						his[w][i] = hi
					}
					if s.success > initSuccess {
						m.Violate("C14:success:out-of-range", desc, "concurrent completions with large clock steps: backend %d success=%d after Done(%s)", i, s.success, k.name)
						atomic.StoreInt32(&stop, 1)
						return
					}
					// any latency observed so far is below the virtual time elapsed since the start
					if s.lag > uint64(t3-int64(c14Start))+1 {
						m.Violate("C14:lag:outside-observed-latencies", desc, "concurrent completions with large clock steps: backend %d lag=%d exceeds the whole elapsed virtual time %d", i, s.lag, t3-int64(c14Start))
						atomic.StoreInt32(&stop, 1)
						return
					}
				}
			}(w)
		}
		if !vk.Within(c14RaceWatchdog, wg.Wait) {
			c14ClassifyStall(m, desc, fmt.Sprintf("case %d: %d concurrent callers (watchdog %v)", idx, workers, c14RaceWatchdog))
			return
		}
		if atomic.LoadInt32(&stop) == 0 {
			for i, c := range p.conns {
				s := c14Read(c)
				lo, hi := int64(-1), int64(0)
				for w := range los {
					if los[w][i] >= 0 && (lo < 0 || los[w][i] < lo) {
						lo = los[w][i]
					}
					if his[w][i] > hi {
						hi = his[w][i]
					}
				}
				if s.inflight != 0 {
					m.Violate("C14:inflight:not-picks-minus-completions", desc, "at quiescence backend %d inflight=%d", i, s.inflight)
				}
				if s.success > initSuccess {
					m.Violate("C14:success:out-of-range", desc, "at quiescence backend %d success=%d", i, s.success)
				}
				if lo >= 0 && (int64(s.lag)+1 < lo || int64(s.lag) > hi+1 || s.lag > 1<<62) {
					m.Violate("C14:lag:outside-observed-latencies", desc, "at quiescence backend %d lag=%d outside the bracket [%d,%d] of observed latencies", i, s.lag, lo, hi)
				}
			}
		}
		m.Count("bigsteps_completions", atomic.LoadInt64(&nDone))
		m.Count("bigsteps_rounds", 1)
		if m.WantSample() {
			m.Sample(map[string]any{"scenario": desc, "completions": atomic.LoadInt64(&nDone), "virtual_seconds_elapsed": (int64(timex.Now()) - int64(c14Start)) / 1e9})
		}
		m.Case(vk.Digest(desc), atomic.LoadInt64(&nDone) > 0)
		m.Progress()
	}
}

// ---------------------------------------------------------------------------
// TestVerifC14SharedAddr: gRPC identifies a sub-connection by the whole
// resolver.Address (Addr, ServerName, Attributes) — and the picker build info is
// keyed by SubConn, not by address. Ready sets in which several SubConns share
// the host:port string must be balanced per SubConn.

type c14SharedCfg struct {
	Family string `json:"family"` // build | registered
	N      int    `json:"n"`
	Groups []int  `json:"group_of_subconn"` // SubConns with the same number share Addr
	Differ string `json:"differ"`           // servername | attributes | mixed | identical
	Slow   int    `json:"slow"`             // index of a 25x slower SubConn, -1 none
	Seed   int64  `json:"seed"`
}

type c14AttrKey struct{}

func c14SharedAddress(cfg c14SharedCfg, i int) resolver.Address {
	a := resolver.Address{Addr: fmt.Sprintf("10.1.0.%d:443", cfg.Groups[i])}
	mode := cfg.Differ
	if mode == "mixed" {
		mode = []string{"servername", "attributes"}[i%2]
	}
	switch mode {
	case "servername":
		a.ServerName = fmt.Sprintf("svc-%d.internal", i)
	case "attributes":
		a.Attributes = attributes.New(c14AttrKey{}, fmt.Sprintf("zone-%d", i))
	}
	return a
}

// c14DriveSubConns sends sustained sequential traffic (2000 picks per virtual
// second, up to 2 calls outstanding) through pk and judges per SubConn.
func c14DriveSubConns(m *vk.M, desc string, pk balancer.Picker, ready []balancer.SubConn, slow int, dur time.Duration, prefix string) (picksPer []int64, ok bool) {
	n := len(ready)
	idx := make(map[balancer.SubConn]int, n)
	for i, sc := range ready {
		idx[sc] = i
	}
	picks, comps := make([]int64, n), make([]int64, n)
	lastPick := make([]int64, n)
	startT := int64(timex.Now())
	for i := range lastPick {
		lastPick[i] = startT
	}
	p, _ := pk.(*p2cPicker)
	type pend struct {
		conn int
		done func(balancer.DoneInfo)
	}
	var q []pend
	var maxGap int64
	checkInflight := func(ev string) bool {
		if p == nil {
			return true
		}
		for _, c := range p.conns {
			i, known := idx[c.conn]
			if !known {
				m.Violate("C14:pick:not-a-ready-conn", desc, "picker holds a connection %v that is not in the ready set", c.conn)
				return false
			}
			if inf := atomic.LoadInt64(&c.inflight); inf != picks[i]-comps[i] {
				m.Violate("C14:inflight:not-picks-minus-completions", desc, "after %s: SubConn %d (%s) inflight=%d, picks=%d completions=%d", ev, i, c.addr.Addr, inf, picks[i], comps[i])
				return false
			}
		}
		return true
	}
	finish := func() bool {
		pd := q[0]
		q = q[1:]
		lat := 200 * time.Microsecond
		if pd.conn == slow {
			lat = 5 * time.Millisecond
		}
		timex.VerifAdvance(lat)
		atomic.AddInt64(&c14Progress, 1)
		pd.done(c14DoneInfo(nil, comps[pd.conn]))
		comps[pd.conn]++
		return checkInflight("done")
	}
	end := startT + int64(dur)
	var total int64
	for int64(timex.Now()) < end {
		now := int64(timex.Now())
		atomic.AddInt64(&c14Progress, 1)
		pi, piName := c14PickInfoN(total)
		res, err := pk.Pick(pi)
		total++
		if err != nil {
			m.Violate("C14:pick:error-with-ready-conns", desc, "Pick(PickInfo: %s) returned error %v with %d ready SubConns", piName, err, n)
			return picks, false
		}
		i, known := idx[res.SubConn]
		if !known || res.Done == nil {
			m.Violate("C14:pick:not-a-ready-conn", desc, "Pick returned SubConn %v (done nil=%v) which is not one of the %d ready SubConns", res.SubConn, res.Done == nil, n)
			return picks, false
		}
		picks[i]++
		lastPick[i] = now
		if !checkInflight("pick") {
			return picks, false
		}
		for j, lp := range lastPick {
			g := now - lp
			if g > maxGap {
				maxGap = g
			}
			if g > int64(c14StarveWindow) {
				m.Violate("C14:starvation:not-picked-within-window:shared-addr", desc, "ready SubConn %d was not picked for %.3fs of virtual time under sustained traffic (%d picks so far, per SubConn %v); it shares its host:port string with another ready SubConn (groups %v)", j, float64(g)/1e9, total, picks, desc[strings.Index(desc, "group_of_subconn"):])
				return picks, false
			}
		}
		q = append(q, pend{conn: i, done: res.Done})
		for len(q) > int(total%3) {
			if !finish() {
				return picks, false
			}
		}
		timex.VerifAdvance(300 * time.Microsecond)
	}
	for len(q) > 0 {
		if !finish() {
			return picks, false
		}
	}
	m.Count(prefix+"picks", total)
	m.Max(prefix+"max_gap_ms", maxGap/1e6)
	return picks, true
}

func TestVerifC14SharedAddr(t *testing.T) {
	logx.Disable()
	atomic.StoreInt32(&c14Stalled, 0)
	m := vk.New(t, "C14", "ready sets of 2..8 SubConns in which several share the host:port string but differ in ServerName / Attributes (boundary: entirely identical Address values), (a) given directly to p2cPickerBuilder.Build, (b) produced by the registered p2c_ewma balancer over a fake ClientConn with every SubConn Ready; 6 virtual seconds of sustained traffic (2000 picks/s, one SubConn optionally 25x slower): every pick is a ready SubConn, every ready SubConn is picked at least once in every 3 virtual seconds, inflight==picks-completions per SubConn")
	defer m.Done()
	defer timex.VerifRealClock()
	reps := vk.N(1, 12)
	master := m.Rand("sharedaddr")
	var cfgs []c14SharedCfg
	for rep := 0; rep < reps; rep++ {
		for _, fam := range []string{"build", "registered"} {
			for _, differ := range []string{"servername", "attributes", "mixed", "identical"} {
				if fam == "registered" && differ == "identical" {
					continue // gRPC itself keeps one SubConn per distinct Address
				}
				for _, groups := range [][]int{{0, 0}, {0, 0, 1}, {0, 0, 0}, {0, 1, 1, 2}, {0, 0, 1, 1, 2}, {0, 0, 0, 0, 1, 2, 3, 3}} {
					slow := -1
					if master.Intn(2) == 0 {
						slow = master.Intn(len(groups))
					}
					cfgs = append(cfgs, c14SharedCfg{Family: fam, N: len(groups), Groups: groups, Differ: differ, Slow: slow, Seed: master.Int63()})
				}
			}
		}
	}
	bb := balancer.Get(Name)
	for k, cfg := range cfgs {
		idx := k + 1
		if !m.Only(idx) {
			continue
		}
		desc := fmt.Sprintf("case=%d;%s", idx, vk.JSON(cfg))
		m.Current(desc)
		timex.VerifFakeClock(c14Start)
		var pk balancer.Picker
		var ready []balancer.SubConn
		if cfg.Family == "build" {
			info := make(map[balancer.SubConn]base.SubConnInfo, cfg.N)
			for i := 0; i < cfg.N; i++ {
				sc := &c14Conn{id: i}
				ready = append(ready, sc)
				info[sc] = base.SubConnInfo{Address: c14SharedAddress(cfg, i)}
			}
			pk = new(p2cPickerBuilder).Build(base.PickerBuildInfo{ReadySCs: info})
		} else {
			if bb == nil {
				m.Violate("C14:registered:builder-missing", desc, "balancer.Get(%q) returned nil", Name)
				return
			}
			cc := &c14CC{}
			b := bb.Build(cc, balancer.BuildOptions{})
			var addrs []resolver.Address
			for i := 0; i < cfg.N; i++ {
				addrs = append(addrs, c14SharedAddress(cfg, i))
			}
			_ = b.UpdateClientConnState(balancer.ClientConnState{ResolverState: resolver.State{Addresses: addrs}})
			if len(cc.subs) != cfg.N {
				m.Inconclusive("case %d: base balancer created %d SubConns for %d distinct addresses", idx, len(cc.subs), cfg.N)
				continue
			}
			for _, sc := range cc.subs {
				b.UpdateSubConnState(sc, balancer.SubConnState{ConnectivityState: connectivity.Connecting})
				b.UpdateSubConnState(sc, balancer.SubConnState{ConnectivityState: connectivity.Ready})
				ready = append(ready, sc)
			}
			cc.mu.Lock()
			pk = cc.state.Picker
			cc.mu.Unlock()
			defer b.Close()
		}
		if p, isP2c := pk.(*p2cPicker); isP2c { // reproducibility only: own PRNG, stable order
			id := func(c *subConn) int { return c.conn.(*c14Conn).id }
			sort.Slice(p.conns, func(i, j int) bool { return id(p.conns[i]) < id(p.conns[j]) })
			p.r = rand.New(rand.NewSource(cfg.Seed))
		}
		var picks []int64
		var ok bool
		if !c14Watched(m, desc, func() { picks, ok = c14DriveSubConns(m, desc, pk, ready, cfg.Slow, 6*time.Second, "sharedaddr_") }) {
			return
		}
		m.Count("sharedaddr_scenarios", 1)
		if ok && m.WantSample() && cfg.N >= 3 {
			m.Sample(map[string]any{"scenario": cfg, "picks_per_subconn": picks})
		}
		m.Case(vk.Digest(desc), true)
	}
}

// ---------------------------------------------------------------------------
// TestVerifC14RaceFirstDone: the FIRST completions of a connection overlap: k
// calls are picked on a fresh picker (no latency sample yet), the virtual clock
// moves on by >= 2 ms, and all Done callbacks are released together from a spin
// barrier. Concurrent first completions may combine their samples in any order;
// asserted at quiescence is only the envelope: the estimate of every connection
// lies within [min, max] of the latencies observed on it (+-1 ns, as in the
// sequential clause), inflight is 0 and the score is in range.

func TestVerifC14RaceFirstDone(t *testing.T) {
	logx.Disable()
	atomic.StoreInt32(&c14Stalled, 0)
	m := vk.New(t, "C14", "fresh picker (1..3 connections, no latency sample yet), 3..8 calls picked with 0..3 ms between the picks, clock advanced by 2..50 virtual ms, all Done callbacks released together from a spin barrier (race detector on); at quiescence per connection: lag within [min,max] of the latencies observed on it (+-1 ns), inflight==0, 0<=success<=1000")
	defer m.Done()
	defer timex.VerifRealClock()
	rounds := vk.N(1200, 40000)
	master := m.Rand("firstdone")
	var nDone, nOverlapConns int64
	for idx := 1; idx <= rounds; idx++ {
		n := 1 + master.Intn(3)
		k := 3 + master.Intn(6)
		seed := master.Int63()
		gaps := make([]time.Duration, k)
		for i := range gaps {
			gaps[i] = time.Duration(master.Intn(3001)) * time.Microsecond
		}
		wait := time.Duration(2000+master.Intn(48001)) * time.Microsecond
		if !m.Only(idx) {
			continue
		}
		desc := fmt.Sprintf("case=%d;{\"n\":%d,\"calls\":%d,\"wait_us\":%d,\"seed\":%d}", idx, n, k, wait/time.Microsecond, seed)
		if idx%200 == 1 {
			m.Current(desc)
		}
		timex.VerifFakeClock(c14Start)
		p, cidx, err := c14NewPicker(n, seed)
		if err != nil {
			m.Inconclusive("case %d: %v", idx, err)
			return
		}
		type call struct {
			conn  int
			start int64
			done  func(balancer.DoneInfo)
		}
		calls := make([]call, 0, k)
		bad := false
		for i := 0; i < k; i++ {
			start := int64(timex.Now())
			pi, _ := c14PickInfoN(int64(idx + i))
			res, err := p.Pick(pi)
			ci, ok := cidx[res.SubConn]
			if err != nil || !ok || res.Done == nil {
				m.Violate("C14:pick:not-a-ready-conn", desc, "Pick returned SubConn %v err %v", res.SubConn, err)
				bad = true
				break
			}
			calls = append(calls, call{conn: ci, start: start, done: res.Done})
			timex.VerifAdvance(gaps[i])
		}
		if bad {
			continue
		}
		timex.VerifAdvance(wait)
		end := int64(timex.Now()) // the clock stands still while the callbacks run
		var arrived, release int32
		var wg sync.WaitGroup
		for i := range calls {
			wg.Add(1)
			go func(c call, i int) {
				defer wg.Done()
				atomic.AddInt32(&arrived, 1)
				for atomic.LoadInt32(&release) == 0 {
				}
				c.done(c14DoneInfo(nil, int64(i)))
			}(calls[i], i)
		}
		if !vk.WaitUntil(c14RaceWatchdog, func() bool { return atomic.LoadInt32(&arrived) == int32(len(calls)) }) {
			atomic.StoreInt32(&release, 1)
			m.Inconclusive("case %d: callers did not reach the barrier", idx)
			return
		}
		atomic.StoreInt32(&release, 1)
		if !vk.Within(c14RaceWatchdog, wg.Wait) {
			c14ClassifyStall(m, desc, fmt.Sprintf("case %d: %d concurrent first completions", idx, len(calls)))
			return
		}
		nDone += int64(len(calls))
		lo := make([]int64, n)
		hi := make([]int64, n)
		cnt := make([]int, n)
		for i := range lo {
			lo[i] = -1
		}
		for _, c := range calls {
			lat := end - c.start
			if lo[c.conn] < 0 || lat < lo[c.conn] {
				lo[c.conn] = lat
			}
			if lat > hi[c.conn] {
				hi[c.conn] = lat
			}
			cnt[c.conn]++
		}
		for i, c := range p.conns {
			s := c14Read(c)
			if s.inflight != 0 {
				m.Violate("C14:inflight:not-picks-minus-completions", desc, "at quiescence backend %d inflight=%d after %d picks and %d completions", i, s.inflight, cnt[i], cnt[i])
			}
			if s.success > initSuccess {
				m.Violate("C14:success:out-of-range", desc, "at quiescence backend %d success=%d", i, s.success)
			}
			if cnt[i] == 0 {
				continue
			}
			if cnt[i] >= 2 {
				nOverlapConns++
			}
			if int64(s.lag)+1 < lo[i] || int64(s.lag) > hi[i]+1 || s.lag > 1<<62 {
				m.Violate("C14:lag:outside-observed-latencies:overlapping-first-completions", desc, "backend %d: %d first completions released together, observed latencies [%d,%d] ns, latency estimate afterwards %d ns", i, cnt[i], lo[i], hi[i], s.lag)
			}
		}
		if m.WantSample() && idx%1000 == 1 {
			m.Sample(map[string]any{"scenario": desc, "latency_envelope_ns_per_backend": fmt.Sprint(lo, hi), "estimates_ns": fmt.Sprint(c14Read(p.conns[0]).lag)})
		}
		m.Case(vk.Digest(n, k, idx%50), true)
		if m.ViolCount() > 20 {
			break
		}
	}
	m.Count("firstdone_completions", nDone)
	m.Count("firstdone_connections_with_overlapping_first_completions", nOverlapConns)
}
