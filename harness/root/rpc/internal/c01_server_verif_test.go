//go:build verif

package internal

// C01 — the gRPC server breaker as wired by the real server: NewServer + the
// timeout interceptor registered through AddUnaryInterceptors (what rpc.NewServer
// does) + Start, a loopback listener and a real client. Classification is by the
// status the client receives: a method whose every admitted call ends with a
// failing code at the client (DeadlineExceeded because the handler overruns the
// server timeout; Internal answered by the handler) keeps failing and must be cut
// off (some calls answered without running the handler); OK in time is never cut
// off. The method's breaker window runs on the virtual clock (frozen within a
// row, advanced past the window between rows); the server timeout is a real 10 ms
// timer and the slow handler simply waits for its context to end.

import (
	"context"
	"fmt"
	"net"
	"sync"
	"sync/atomic"
	"testing"
	"time"

	"github.com/gotid/god/lib/logx"
	"github.com/gotid/god/lib/stat"
	"github.com/gotid/god/lib/timex"
	"github.com/gotid/god/rpc/internal/mock"
	"github.com/gotid/god/rpc/internal/serverinterceptors"
	"google.golang.org/grpc"
	gcodes "google.golang.org/grpc/codes"
	"google.golang.org/grpc/credentials/insecure"
	"google.golang.org/grpc/status"
	"verif.local/vk"
)

type c01Deposit struct {
	mock.UnimplementedDepositServiceServer
	runs int64
}

// Amount selects the behaviour: 1 overrun the server timeout, 2 answer Internal, else OK.
func (d *c01Deposit) Deposit(ctx context.Context, req *mock.DepositRequest) (*mock.DepositResponse, error) {
	atomic.AddInt64(&d.runs, 1)
	switch req.Amount {
	case 1:
		select {
		case <-ctx.Done():
		case <-time.After(30 * time.Second):
		}
		return &mock.DepositResponse{Ok: true}, nil // late: discarded by the timeout interceptor
	case 2:
		return nil, status.Error(gcodes.Internal, "c01 internal")
	}
	return &mock.DepositResponse{Ok: true}, nil
}

func TestVerifC01ServerChain(t *testing.T) {
	m := vk.New(t, "C01", "real rpc server (NewServer + AddUnaryInterceptors(UnaryTimeoutInterceptor(10ms)) + Start) on a loopback listener with a real client; the method breaker's window on the virtual clock (advanced past the window between rows): handler answering OK in time x300 => handler always runs; handler always overrunning the server timeout (client receives DeadlineExceeded) x120 and handler answering Internal x400 => at least one call is answered without running the handler; non-trivial = method was cut off")
	defer m.Done()
	logx.Disable()
	stat.SetReporter(nil)
	timex.VerifFakeClock(1000*time.Hour + time.Duration(m.Rand("clock").Int63n(int64(time.Hour))))
	defer timex.VerifRealClock()

	l, err := net.Listen("tcp", "127.0.0.1:0")
	if err != nil {
		m.Inconclusive("no loopback listener: %v", err)
		return
	}
	addr := l.Addr().String()
	_ = l.Close()
	s := NewServer(addr, WithMetrics(stat.NewMetrics("c01-server-chain")))
	s.SetName("c01-server-chain")
	s.AddUnaryInterceptors(serverinterceptors.UnaryTimeoutInterceptor(10 * time.Millisecond))
	impl := &c01Deposit{}
	var mu sync.Mutex
	var gs *grpc.Server
	started := make(chan struct{})
	startErr := make(chan error, 1)
	go func() {
		startErr <- s.Start(func(server *grpc.Server) {
			mu.Lock()
			mock.RegisterDepositServiceServer(server, impl)
			gs = server
			mu.Unlock()
			close(started)
		})
	}()
	select {
	case <-started:
	case e := <-startErr:
		m.Inconclusive("server did not start: %v", e)
		return
	case <-time.After(30 * time.Second):
		m.Inconclusive("server did not start within 30 s")
		return
	}
	defer func() {
		mu.Lock()
		gs.Stop()
		mu.Unlock()
	}()
	dctx, dcancel := context.WithTimeout(context.Background(), 30*time.Second)
	defer dcancel()
	conn, err := grpc.DialContext(dctx, addr, grpc.WithTransportCredentials(insecure.NewCredentials()), grpc.WithBlock())
	if err != nil {
		m.Inconclusive("client could not connect: %v", err)
		return
	}
	defer conn.Close()
	cli := mock.NewDepositServiceClient(conn)
	call := func(amount int64) (ran bool, code gcodes.Code, err error) {
		before := atomic.LoadInt64(&impl.runs)
		ctx, cancel := context.WithTimeout(context.Background(), 60*time.Second) // watchdog only
		_, err = cli.Deposit(ctx, &mock.DepositRequest{Amount: float32(amount)})
		cancel()
		return atomic.LoadInt64(&impl.runs) > before, status.Code(err), err
	}

	// ---- benign control
	{
		n := vk.N(300, 3000)
		okRow := true
		for i := 0; i < n; i++ {
			ran, code, err := call(0)
			m.Count("calls_ok", 1)
			if !ran {
				m.Violate("C01:benign:grpc-server-chain:OK:rejected", "case=1;handler answers OK in time through the real server chain", "call #%d was answered (%s: %v) without running the handler although every call so far ended OK", i, code, err)
				okRow = false
				break
			}
		}
		m.Case("server-chain-ok", okRow)
	}
	failing := map[gcodes.Code]bool{gcodes.DeadlineExceeded: true, gcodes.Internal: true, gcodes.Unavailable: true, gcodes.DataLoss: true, gcodes.Unimplemented: true}
	for idx, row := range []struct {
		amount int64
		n      int
		what   string
	}{
		{1, vk.N(120, 600), "timeout-DeadlineExceeded"},
		{2, vk.N(400, 2000), "handler-Internal"},
	} {
		timex.VerifAdvance(10250*time.Millisecond + time.Duration(idx)*time.Second) // earlier rows age out of the method's window
		admitted, admittedBenign, skipped := 0, 0, 0
		seen := map[string]int{}
		for i := 0; i < row.n; i++ {
			ran, code, _ := call(row.amount)
			m.Count("calls_"+row.what, 1)
			seen[code.String()]++
			if !ran {
				skipped++
				continue
			}
			admitted++
			if !failing[code] {
				admittedBenign++
			}
		}
		m.Count("handler_runs_"+row.what, int64(admitted))
		desc := fmt.Sprintf("case=%d;%s through the real server chain, %d calls; client saw %v", 2+idx, row.what, row.n, seen)
		switch {
		case admittedBenign > 0:
			m.Skip(fmt.Sprintf("server-chain row %s: %d admitted calls did not end with a failing code at the client (the method did not keep failing); row not decided", row.what, admittedBenign))
		case skipped == 0:
			m.Violate("C01:nonbenign:grpc-server-chain:"+row.what+":never-cut-off", desc, "all %d calls ran the handler and every one ended with a failing code at the client: the method's failures never reach its breaker", row.n)
		}
		m.Case("server-chain-"+row.what, admittedBenign == 0 && skipped > 0)
		m.Sample(map[string]any{"scenario": desc, "handler_runs": admitted, "answered_without_handler": skipped})
	}
}
