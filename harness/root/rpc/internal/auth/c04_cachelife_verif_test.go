//go:build verif

package auth

// C04 — RPC auth, lifetime of the app->token cache (DESIGN.md §3 C04, state "Authenticator.cache").
//
// The cache is by design: after the stored token of an app changes, the old token may stay
// honoured for ONE cache lifetime counted from the fetch. What must not happen is that it
// stays honoured for as long as the app keeps calling ("rejects a call whose token differs
// from the one stored for its app, and admits a call whose token matches").
//
// NewAuthenticator hard-wires 5 minutes on a real 1 s ticker (no seam), so the Authenticator
// is assembled here with the same fields and a 4 s cache; validate/Authenticate are the real code.
//
// No wall-clock comparison decides the verdict. Time is measured by the cache's own timing
// wheel through a "canary" app on the SAME cache: the canary is fetched together with the busy
// app and then only probed with its NEW token — a probe that is rejected as long as the old
// value is cached and, being rejected, cannot prolong anything. The probe being admitted
// proves that an entry fetched at that time has aged out. After TWO canary generations
// (>= 2 x 0.95 lifetimes of wheel time, the busy entry lives <= 1.05) the busy app's entry
// must have been re-read: its old token must be rejected and its new token admitted, although
// the old token was presented every 100 ms all along. Wall clock: only a 90 s watchdog
// (-> INCONCLUSIVE).

import (
	"context"
	"fmt"
	"sync"
	"testing"
	"time"

	"github.com/alicebob/miniredis/v2"
	"github.com/gotid/god/lib/collection"
	"github.com/gotid/god/lib/logx"
	"github.com/gotid/god/lib/store/redis"
	"google.golang.org/grpc/metadata"
	"verif.local/vk"
)

const c04Life = 4 * time.Second

func c04Ctx(app, token string) context.Context {
	return metadata.NewIncomingContext(context.Background(), metadata.Pairs(appKey, app, tokenKey, token))
}

func TestVerifC04RpcCacheLifetime(t *testing.T) {
	logx.Disable()
	m := vk.New(t, "C04", "an app's stored token is rotated while the app keeps presenting the OLD token every 100 ms: after two generations of a canary entry on the same cache have aged out (cache-internal time, lifetime 4 s), the old token must be rejected and the new one admitted; before that the by-design cache may answer either way")
	defer m.Done()
	// the two modes have their own store, cache and Authenticator and run side by side
	// (each one is sequential in itself); they only share the mutex-guarded monitor
	var wg sync.WaitGroup
	defer wg.Wait()
	for idx, strict := range []bool{true, false} {
		if !m.Only(idx + 1) {
			continue
		}
		idx, strict := idx, strict
		wg.Add(1)
		go func() {
			defer wg.Done()
			c04CacheLifeCase(m, idx, strict)
		}()
	}
}

func c04CacheLifeCase(m *vk.M, idx int, strict bool) {
	for once := true; once; once = false {
		desc := fmt.Sprintf("case=%d;strict=%v;cache-lifetime=%s", idx+1, strict, c04Life)
		m.Current(desc)
		mr, err := miniredis.Run()
		if err != nil {
			m.Inconclusive("miniredis: %v", err)
			return
		}
		const key = "c04:apps:life"
		mr.HSet(key, "busy", "busy-old")
		mr.HSet(key, "canary", "canary-0")
		cache, err := collection.NewCache(c04Life)
		if err != nil {
			m.Inconclusive("NewCache: %v", err)
			return
		}
		a := &Authenticator{store: redis.New(mr.Addr()), key: key, cache: cache, strict: strict}
		admitted := func(app, token string) bool { return a.Authenticate(c04Ctx(app, token)) == nil }
		if !admitted("busy", "busy-old") || !admitted("canary", "canary-0") || admitted("busy", "busy-new") {
			m.Inconclusive("set-up: the freshly stored tokens are not honoured as stored (covered by TestVerifC04RpcTable): %s", desc)
			mr.Close()
			continue
		}
		mr.HSet(key, "busy", "busy-new") // rotation: from now on the store says busy-new
		start := time.Now()
		staleAdmits, staleRejects := 0, 0
		ok := true
		for gen := 1; gen <= 2 && ok; gen++ {
			newTok := fmt.Sprintf("canary-%d", gen)
			mr.HSet(key, "canary", newTok)
			for {
				if admitted("busy", "busy-old") { // the busy caller never stops
					staleAdmits++
				} else {
					staleRejects++
				}
				if admitted("canary", newTok) {
					break // an entry fetched one generation ago has aged out
				}
				if time.Since(start) > 90*time.Second {
					m.Inconclusive("canary generation %d did not age out within 90 s (lifetime %s): %s", gen, c04Life, desc)
					ok = false
					break
				}
				time.Sleep(100 * time.Millisecond)
			}
			m.Count(fmt.Sprintf("cachelife.canary_generation_%d_aged_out_ms", gen), time.Since(start).Milliseconds())
		}
		if ok {
			oldAdmitted := admitted("busy", "busy-old")
			newAdmitted := admitted("busy", "busy-new")
			m.Count("cachelife.old_token_presentations_admitted_during_wait", int64(staleAdmits))
			m.Count("cachelife.old_token_presentations_rejected_during_wait", int64(staleRejects))
			mode := "nonstrict"
			if strict {
				mode = "strict"
			}
			switch {
			case oldAdmitted:
				m.Violate("C04:rpc:cache-lifetime:"+mode+":rotated-out-token-still-admitted-after-two-cache-lifetimes", desc,
					"store holds busy-new since the rotation; two canary generations of the same cache aged out (%d ms), the old token was presented %d times meanwhile (admitted %d) and is still admitted",
					time.Since(start).Milliseconds(), staleAdmits+staleRejects, staleAdmits)
			case !newAdmitted:
				m.Violate("C04:rpc:cache-lifetime:"+mode+":stored-token-rejected-after-two-cache-lifetimes", desc,
					"store holds busy-new since the rotation; two canary generations aged out (%d ms) but busy-new is rejected", time.Since(start).Milliseconds())
			default:
				m.Count("cachelife.rotation_honoured", 1)
			}
			m.Case(vk.Digest("cachelife", strict), true)
			m.Sample(map[string]any{"strict": strict, "lifetime": c04Life.String(), "wait_ms": time.Since(start).Milliseconds(),
				"old_token_admitted_during_wait": staleAdmits, "old_token_rejected_during_wait": staleRejects,
				"old_token_admitted_after": oldAdmitted, "new_token_admitted_after": newAdmitted})
		}
		mr.Close()
	}
}
